import CpProofs.Hello
import CpProps.C06
import CpSpec.TlsExt
/-
  C06 for the hello extensions with structured bodies and for CertificateRequest: the model's
  composers (`composeExt2Body`, `composeExt`, `composeCertificateRequestInner`) are proved EQUAL to
  the independent RFC-level encoders of `CpSpec/TlsExt.lean` on every constructible value
  (`Ext2BodyWf`, `CertificateRequestWf`), and the length-prefix widths of the vector classes involved
  are checked against the RFC ceilings.

  The encoders take protocol values (code points, name bytes); `codedCode`, `nameWires`, … map the
  model's table indices to them through the regenerated tables.
-/
namespace Cp.C06
open Cp Cp.Codec Cp.Tls Cp.Hello Cp.Spec.Tls Cp.Spec.TlsExt

/-! ### from model values to protocol values -/

/-- the code point a coded position stands for -/
def codedCode (codes : List Nat) : Coded → Nat
  | .known i => codes.getD i 0
  | .unknown c => c

def groupCode (g : Nat) : Nat := Gen.TlsNamedCurve.codes.getD g 0
def algorithmCode (a : Nat) : Nat := Gen.TlsSignatureAndHashAlgorithm.codes.getD a 0

/-- the wire spelling of the members of a name table -/
def nameWires (table : List Gen.WireName) (items : List Nat) : List Bytes :=
  items.map fun i => ((table[i]?).map (·.wire)).getD []

def shareSpec (e : KeyShare) : Nat × Bytes := (codedCode Gen.TlsNamedCurve.codes e.group, e.key)

def sctSpec (s : Sct) : Bytes :=
  encodeSct s.version s.log s.timestamp s.extensions (algorithmCode s.algorithm) s.signature

/-! ### helpers -/

theorem toBytesBE_length (k v : Nat) : (Spec.toBytesBE k v).length = k := by simp [Spec.toBytesBE]

theorem composeItems_map {α : Type} {f : α → Except PErr Bytes} {enc : α → Bytes} (xs : List α)
    (h : ∀ x ∈ xs, f x = .ok (enc x)) : composeItems f xs = .ok (xs.map enc).flatten := by
  induction xs with
  | nil => rfl
  | cons x xs ih =>
    simp only [composeItems, h x (List.mem_cons_self ..), ih (fun y hy => h y (List.mem_cons_of_mem _ hy)), bind,
      Except.bind, pure, Except.pure, List.map_cons, List.flatten_cons]

/-- a vector class composes to the RFC vector whenever its prefix width is the one the RFC ceiling
asks for and the body fits it -/
theorem composeVecItems_is_vec {α : Type} {p : VecParam} {f : α → Except PErr Bytes} {enc : α → Bytes}
    {ceiling : Nat} (xs : List α) (hpw : prefixWidth ceiling = p.numSize) (hk : validSize p.numSize = true)
    (h : ∀ x ∈ xs, f x = .ok (enc x)) (hfit : (xs.map enc).flatten.length < 256 ^ p.numSize) :
    composeVecItems p f xs = .ok (vec ceiling (xs.map enc)) := by
  simp only [composeVecItems, composeItems_map xs h, composeNum_ok hk hfit, bind, Except.bind, pure, Except.pure,
    vec, opaqueVec, hpw, enc_is_spec]

theorem composeOpaque_is_spec {p : VecParam} {ceiling : Nat} (d : Bytes) (hpw : prefixWidth ceiling = p.numSize)
    (hk : validSize p.numSize = true) (hfit : d.length < 256 ^ p.numSize) :
    composeOpaque p d = .ok (opaqueVec ceiling d) := by
  simp only [composeOpaque, composeNum_ok hk hfit, bind, Except.bind, pure, Except.pure, opaqueVec, hpw, enc_is_spec]

theorem composeBytes_is_spec {k ceiling : Nat} (d : Bytes) (hpw : prefixWidth ceiling = k)
    (hk : validSize k = true) (hfit : d.length < 256 ^ k) :
    composeBytes .network k d = .ok (opaqueVec ceiling d) := by
  rw [composeBytes_ok hk d hfit]
  simp only [opaqueVec, hpw, enc_is_spec]

theorem composeCoded_is_spec {codes : List Nat} {k : Nat} (ht : TableOk codes k) {i : Nat} (hi : i < codes.length) :
    composeCoded codes k i = .ok (Spec.toBytesBE k (codes.getD i 0)) := by
  have hget : codes[i]? = some codes[i] := List.getElem?_eq_getElem hi
  have hc : codes[i] < 256 ^ k := ht.fits _ (List.getElem_mem hi)
  simp only [composeCoded, hget, composeNum_ok ht.size hc, List.getD, Option.getD_some, enc_is_spec]

theorem composeCodedOrFallback_is_spec {codes : List Nat} {k : Nat} (ht : TableOk codes k) {x : Coded}
    (hx : CodedWf codes k x) :
    composeCodedOrFallback codes k x = .ok (Spec.toBytesBE k (codedCode codes x)) := by
  cases x with
  | known i => exact composeCoded_is_spec ht hx
  | unknown c => simp only [composeCodedOrFallback, composeNum_ok ht.size hx.1, codedCode, enc_is_spec]

/-- the RFC ceilings give the prefix widths of the regenerated parameters -/
theorem ext2_prefix_widths :
    prefixWidth 65535 = serverNameParam.numSize ∧ prefixWidth 65535 = protocolNameListParam.numSize ∧
    prefixWidth 255 = protocolNameParam.numSize ∧ prefixWidth 255 = nextProtocolNameParam.numSize ∧
    prefixWidth 65535 = responderIdListParam.numSize ∧ prefixWidth 65535 = responderIdParam.numSize ∧
    prefixWidth 65535 = requestExtensionsParam.numSize ∧ prefixWidth 65535 = keyShareListParam.numSize ∧
    prefixWidth 65535 = keyExchangeParam.numSize ∧ prefixWidth 255 = tokenBindingParam.numSize ∧
    prefixWidth 65535 = sctListParam.numSize ∧ prefixWidth 65535 = (vp Gen.vec_CtExtensions).numSize ∧
    prefixWidth 65535 = (vp Gen.vec_CtSignature).numSize := by decide +kernel

/-! ### the bodies -/

/-- RFC 6066 §3 server_name: a list with the one host name -/
theorem serverName_is_spec (h : Bytes) (hw : Ext2BodyWf .serverName (.hostName h)) (hfit : 3 + h.length < 256 ^ 2) :
    composeExt2Body .serverName (.hostName h) = .ok (encodeServerName hostNameType h) := by
  obtain ⟨hplain, _, _⟩ := hw
  obtain ⟨_, hf, _, _⟩ := hostNameType_facts
  have hl : h.length < 256 ^ 2 := by omega
  simp only [composeExt2Body, hplain, if_true, composeNum_ok (by rfl : validSize 2 = true) hfit,
    composeNum_ok (by rfl : validSize 1 = true) hf, composeBytes_ok (by rfl : validSize 2 = true) h hl, bind,
    Except.bind, pure, Except.pure, encodeServerName, vec, opaqueVec, List.flatten_cons, List.flatten_nil,
    List.append_nil, u8, enc_is_spec, List.length_append, toBytesBE_length]
  have e1 : prefixWidth 65535 = 2 := by decide
  rw [e1]
  have e2 : 1 + (2 + h.length) = 3 + h.length := by omega
  rw [e2]
  simp only [List.append_assoc]

theorem names_is_spec {p : VecParam} {table : List Gen.WireName} (hp : ParamOk p) (ht : NamesOk p table)
    (hpw : prefixWidth 255 = p.numSize) (items : List Nat) (hi : ∀ i ∈ items, i < table.length) :
    ∀ i ∈ items, composeName p table i = .ok (opaqueVec 255 (((table[i]?).map (·.wire)).getD [])) := by
  intro i him
  have hlt := hi i him
  have hget : table[i]? = some table[i] := List.getElem?_eq_getElem hlt
  obtain ⟨ha, _, _, hmax⟩ := ht.each _ (List.getElem_mem hlt)
  have hfit : (table[i]).wire.length < 256 ^ p.numSize := by have := hp.2; omega
  simp only [composeName, hget, ha, if_true, Option.map_some, Option.getD_some]
  exact composeBytes_is_spec _ hpw hp.1 hfit

theorem names_flat_length {p : VecParam} {table : List Gen.WireName} (hp : ParamOk p) (ht : NamesOk p table)
    (hpw : prefixWidth 255 = p.numSize) (items : List Nat) (hi : ∀ i ∈ items, i < table.length) :
    ((nameWires table items).map (opaqueVec 255)).flatten.length = namesSize p table items := by
  obtain ⟨body, hb, hbl, _, _⟩ := names_body hp ht items hi
  have := composeItems_map (enc := fun i => opaqueVec 255 (((table[i]?).map (·.wire)).getD [])) items
    (names_is_spec hp ht hpw items hi)
  rw [hb] at this
  cases this
  rw [← hbl]
  simp only [nameWires, List.map_map]
  rfl

/-- RFC 7301 §3.1 ALPN (and ALPS): the protocol name list -/
theorem protocolNames_is_spec (items : List Nat) (hw : Ext2BodyWf .protocolNames (.names items)) :
    composeExt2Body .protocolNames (.names items) =
      .ok (encodeProtocolNames (nameWires Gen.TlsProtocolName_wire items)) := by
  obtain ⟨hi, _, hmax⟩ := hw
  obtain ⟨_, hl, hn, _⟩ := ext2_prefix_widths
  have hflat := names_flat_length protocolNameParam_ok protocolNames_ok hn items hi
  have h := composeVecItems_is_vec (p := protocolNameListParam) (ceiling := 65535) items hl
    protocolNameListParam_ok.1 (names_is_spec protocolNameParam_ok protocolNames_ok hn items hi)
    (by
      have := protocolNameListParam_ok.2
      simp only [nameWires, List.map_map] at hflat
      have e : (List.map (fun i => opaqueVec 255 ((Option.map (fun x => x.wire) Gen.TlsProtocolName_wire[i]?).getD [])) items)
          = List.map ((opaqueVec 255) ∘ fun i => (Option.map (fun x => x.wire) Gen.TlsProtocolName_wire[i]?).getD []) items := rfl
      rw [e, hflat]; omega)
  simp only [composeExt2Body, h, encodeProtocolNames, nameWires, List.map_map]
  rfl

/-- the NPN draft: the names one after the other, no list prefix -/
theorem nextProtocolNames_is_spec (items : List Nat) (hw : Ext2BodyWf .nextProtocolNames (.names items)) :
    composeExt2Body .nextProtocolNames (.names items) =
      .ok (encodeNextProtocolNames (nameWires Gen.TlsNextProtocolName_wire items)) := by
  obtain ⟨hi, _, _⟩ := hw
  obtain ⟨_, _, _, hn, _⟩ := ext2_prefix_widths
  simp only [composeExt2Body, composeItems_map items (names_is_spec nextProtocolNameParam_ok nextProtocolNames_ok hn items hi),
    encodeNextProtocolNames, nameWires, List.map_map]
  rfl

theorem opaques_flat_length {p : VecParam} (hp : ParamOk p) (hpw : prefixWidth 65535 = p.numSize) (ids : List Bytes) :
    (ids.map (opaqueVec 65535)).flatten.length = idsSize p ids := by
  induction ids with
  | nil => rfl
  | cons d ds ih =>
    simp only [List.map_cons, List.flatten_cons, List.length_append, ih, idsSize, List.sum_cons, opaqueVec, hpw,
      toBytesBE_length]

/-- RFC 6066 §8 status_request: OCSP, the responder ids, the request extensions -/
theorem statusRequest_is_spec (ids : List Bytes) (exts : Bytes)
    (hw : Ext2BodyWf .statusRequest (.statusRequest ids exts)) :
    composeExt2Body .statusRequest (.statusRequest ids exts) = .ok (encodeStatusRequest ids exts) := by
  obtain ⟨hi, _, hmax, _, hemax⟩ := hw
  obtain ⟨_, _, _, _, hl, hr, he, _⟩ := ext2_prefix_widths
  obtain ⟨_, _, _, hf⟩ := hostNameType_facts
  have hitems : ∀ d ∈ ids, composeOpaque responderIdParam d = .ok (opaqueVec 65535 d) := fun d h =>
    composeOpaque_is_spec d hr responderIdParam_ok.1 (by have := responderIdParam_ok.2; have := (hi d h).2; omega)
  have hv := composeVecItems_is_vec (p := responderIdListParam) (ceiling := 65535) ids hl responderIdListParam_ok.1
    hitems (by rw [opaques_flat_length responderIdParam_ok hr]; have := responderIdListParam_ok.2; omega)
  have ho := composeOpaque_is_spec (p := requestExtensionsParam) (ceiling := 65535) exts he requestExtensionsParam_ok.1
    (by have := requestExtensionsParam_ok.2; omega)
  have hocsp : ocspStatusType = 1 := by decide +kernel
  simp only [composeExt2Body, composeNum_ok (by rfl : validSize 1 = true) hf, hv, ho, bind, Except.bind, pure,
    Except.pure, encodeStatusRequest, u8, enc_is_spec]
  rw [hocsp]

theorem keyShareKnown_is_spec {g : Nat} {key : Bytes} (hg : g < Gen.TlsNamedCurve.codes.length)
    (hmax : key.length ≤ keyExchangeParam.max) :
    composeKeyShareKnown g key = .ok (encodeKeyShareEntry (groupCode g) key) := by
  obtain ⟨_, _, _, _, _, _, _, _, hk, _⟩ := ext2_prefix_widths
  have ho := composeOpaque_is_spec (p := keyExchangeParam) (ceiling := 65535) key hk keyExchangeParam_ok.1
    (by have := keyExchangeParam_ok.2; omega)
  simp only [composeKeyShareKnown, composeCoded_is_spec namedCurves_tableOk hg, ho, bind, Except.bind, pure,
    Except.pure, encodeKeyShareEntry, u16, groupCode]

theorem keyShare_is_spec (e : KeyShare) (hw : KeyShareWf e) :
    composeKeyShare e = .ok (encodeKeyShareEntry (shareSpec e).1 (shareSpec e).2) := by
  obtain ⟨grp, key⟩ := e
  cases grp with
  | known g =>
    obtain ⟨hg, _, hmax⟩ := hw
    simp only [composeKeyShare, keyShareKnown_is_spec hg hmax, shareSpec, codedCode, groupCode]
  | unknown c =>
    obtain ⟨hc, _, hk⟩ := hw
    have hb := composeBytes_is_spec (k := 2) (ceiling := 65535) key (by decide) (by rfl) hk
    simp only [composeKeyShare, composeNum_ok (by rfl : validSize 2 = true) hc, hb, bind, Except.bind, pure,
      Except.pure, encodeKeyShareEntry, u16, shareSpec, codedCode, enc_is_spec]

theorem shares_flat_length (entries : List KeyShare) :
    (entries.map fun e => encodeKeyShareEntry (shareSpec e).1 (shareSpec e).2).flatten.length = sharesSize entries := by
  induction entries with
  | nil => rfl
  | cons e es ih =>
    have e1 : prefixWidth 65535 = 2 := by decide
    simp only [List.map_cons, List.flatten_cons, List.length_append, sharesSize, List.sum_cons,
      encodeKeyShareEntry, u16, opaqueVec, toBytesBE_length, shareSpec, e1] at ih ⊢
    omega

/-- RFC 8446 §4.2.8 key_share in a ClientHello: the client shares -/
theorem keyShareClient_is_spec (entries : List KeyShare) (hw : Ext2BodyWf .keyShareClient (.keyShares entries)) :
    composeExt2Body .keyShareClient (.keyShares entries) =
      .ok (encodeKeyShareClientHello (entries.map shareSpec)) := by
  obtain ⟨hi, _, hmax⟩ := hw
  obtain ⟨_, _, _, _, _, _, _, hl, _⟩ := ext2_prefix_widths
  have hv := composeVecItems_is_vec (p := keyShareListParam) (ceiling := 65535) entries hl keyShareListParam_ok.1
    (fun e h => keyShare_is_spec e (hi e h))
    (by rw [shares_flat_length]; have := keyShareListParam_ok.2; omega)
  simp only [composeExt2Body, hv, encodeKeyShareClientHello, List.map_map]
  rfl

/-- … in a ServerHello: the one server share -/
theorem keyShareServer_is_spec (g : Nat) (key : Bytes) (hw : Ext2BodyWf .keyShareServer (.keyShare g key)) :
    composeExt2Body .keyShareServer (.keyShare g key) = .ok (encodeKeyShareServerHello (groupCode g) key) := by
  obtain ⟨hg, _, hmax⟩ := hw
  simp only [composeExt2Body, keyShareKnown_is_spec hg hmax, encodeKeyShareServerHello]

/-- … in a HelloRetryRequest: the selected group, two bytes -/
theorem keyShareHelloRetry_is_spec (g : Nat) (hw : Ext2BodyWf .keyShareHelloRetry (.group g)) :
    composeExt2Body .keyShareHelloRetry (.group g) = .ok (encodeKeyShareHelloRetryRequest (groupCode g)) := by
  have hg : g < Gen.TlsNamedCurve.codes.length := hw
  simp only [composeExt2Body, composeCoded_is_spec namedCurves_tableOk hg, encodeKeyShareHelloRetryRequest, u16,
    groupCode]

theorem coded_flat_length {codes : List Nat} {k : Nat} (xs : List Coded) :
    (xs.map fun x => Spec.toBytesBE k (codedCode codes x)).flatten.length = xs.length * k := by
  induction xs with
  | nil => simp
  | cons x xs ih =>
    simp only [List.map_cons, List.flatten_cons, List.length_append, ih, toBytesBE_length, List.length_cons,
      Nat.add_mul, Nat.one_mul]
    omega

/-- RFC 8472 §2 token_binding: version and key parameters -/
theorem tokenBinding_is_spec (major minor : Nat) (params : List Coded)
    (hw : Ext2BodyWf .tokenBinding (.tokenBinding major minor params)) :
    composeExt2Body .tokenBinding (.tokenBinding major minor params) =
      .ok (encodeTokenBinding major minor (params.map (codedCode Gen.TlsTokenBindingParamater.codes))) := by
  obtain ⟨hmaj, hmin, hx, _, hmax⟩ := hw
  obtain ⟨_, _, _, _, _, _, _, _, _, hl, _⟩ := ext2_prefix_widths
  have hv := composeVecItems_is_vec (p := tokenBindingParam) (ceiling := 255) params hl tokenBindingParam_ok.1
    (fun x h => composeCodedOrFallback_is_spec tokenBindingParams_tableOk (hx x h))
    (by rw [coded_flat_length]; have := tokenBindingParam_ok.2; omega)
  simp only [composeExt2Body, tokenBindingVersionCodec, minSize, seq, num,
    composeNum_ok (by rfl : validSize 1 = true) hmaj, composeNum_ok (by rfl : validSize 1 = true) hmin,
    composeVecCoded, hv, bind, Except.bind, pure, Except.pure, encodeTokenBinding, u8, enc_is_spec, List.map_map]
  rfl

theorem sct_is_spec (s : Sct) (hw : SctWf s) : composeSct s = .ok (opaqueVec 65535 (sctSpec s)) := by
  obtain ⟨ver, log, ts, ext, alg, sig⟩ := s
  obtain ⟨_, hvf, hlog, hts, _, hemax, halg, _, hsmax, hblob⟩ := hw
  simp only at hvf hlog hts hemax halg hsmax hblob
  obtain ⟨_, _, _, _, _, _, _, _, _, _, _, he, hs⟩ := ext2_prefix_widths
  have h8 : ts < 256 ^ 8 := by have := sctTimestamp_fits hts; omega
  have hoe := composeOpaque_is_spec (p := vp Gen.vec_CtExtensions) (ceiling := 65535) ext he ctExtensionsParam_ok.1
    (by have := ctExtensionsParam_ok.2; omega)
  have hos := composeOpaque_is_spec (p := vp Gen.vec_CtSignature) (ceiling := 65535) sig hs ctSignatureParam_ok.1
    (by have := ctSignatureParam_ok.2; omega)
  have hbody : composeSctBody ⟨ver, log, ts, ext, alg, sig⟩ = .ok (sctSpec ⟨ver, log, ts, ext, alg, sig⟩) := by
    simp only [composeSctBody, composeNum_ok (by rfl : validSize 1 = true) hvf, composeTimestamp,
      composeNum_ok (by rfl : validSize 8 = true) h8, hoe, composeCoded_is_spec signatureAlgorithms_tableOk halg, hos,
      bind, Except.bind, pure, Except.pure, sctSpec, encodeSct, u8, u16, u64, enc_is_spec, algorithmCode]
  have e1 : prefixWidth 65535 = 2 := by decide
  have hlen : (sctSpec ⟨ver, log, ts, ext, alg, sig⟩).length < 256 ^ 2 := by
    simp only [sctSpec, encodeSct, u8, u16, u64, opaqueVec, List.length_append, toBytesBE_length, hlog, e1]
    omega
  simp only [composeSct, hbody, bind, Except.bind]
  exact composeBytes_is_spec _ e1 (by rfl) hlen

theorem scts_flat_length (items : List Sct) (hw : ∀ s ∈ items, SctWf s) :
    (items.map fun s => opaqueVec 65535 (sctSpec s)).flatten.length = sctsSize items := by
  induction items with
  | nil => rfl
  | cons s ss ih =>
    have e1 : prefixWidth 65535 = 2 := by decide
    have hl := (hw s (List.mem_cons_self ..)).log
    have ih' := ih (fun y hy => hw y (List.mem_cons_of_mem _ hy))
    simp only [List.map_cons, List.flatten_cons, List.length_append,
      sctsSize, List.sum_cons, sctSize, opaqueVec, sctSpec, encodeSct, u8, u16, u64, toBytesBE_length, hl, e1] at ih' ⊢
    omega

/-- RFC 6962 §3.3 signed_certificate_timestamp in a ServerHello: the list of serialized SCTs -/
theorem sctList_is_spec (items : List Sct) (hw : Ext2BodyWf .sctList (.scts items)) :
    composeExt2Body .sctList (.scts items) = .ok (encodeSctList (items.map sctSpec)) := by
  obtain ⟨hi, _, hmax⟩ := hw
  obtain ⟨_, _, _, _, _, _, _, _, _, _, hl, _⟩ := ext2_prefix_widths
  have hv := composeVecItems_is_vec (p := sctListParam) (ceiling := 65535) items hl sctListParam_ok.1
    (fun s h => sct_is_spec s (hi s h))
    (by rw [scts_flat_length items hi]; have := sctListParam_ok.2; omega)
  simp only [composeExt2Body, hv, encodeSctList, List.map_map]
  rfl

/-! ### the whole extension -/

/-- whatever payload a parsed extension class composes sits behind the RFC header: type, 16-bit
length, data — for EVERY modelled class (`TlsExtensionNextProtocolNegotiationServer`, whose
`compose` writes its list prefix where the extension length belongs, included) -/
theorem extension_is_spec {cls : String} {t : Nat} {body : ExtBody} {kind : ExtKind} {payload : Bytes}
    (hne : cls ≠ "TlsExtensionUnparsed") (hk : extKindOf cls = some kind)
    (hp : composeExtBody kind body = .ok payload) (ht : t < 256 ^ 2) (hl : payload.length < 256 ^ 2) :
    composeExt ⟨cls, t, body⟩ = .ok (encodeExtension t payload) := by
  rw [composeExt_parsed hne hk]
  show withHeader t (composeExtBody kind body) = _
  rw [hp, withHeader_ok ht hl]
  have e1 : prefixWidth 65535 = 2 := by decide
  simp only [encodeExtension, opaqueVec, u16, enc_is_spec, e1, List.append_assoc]

/-- the same for the fallback class -/
theorem unparsed_is_spec {t : Nat} {d : Bytes} (ht : t < 256 ^ 2) (hl : d.length < 256 ^ 2) :
    composeExt ⟨"TlsExtensionUnparsed", t, .raw d⟩ = .ok (encodeExtension t d) := by
  rw [composeExt_unparsed, withHeader_ok ht hl]
  have e1 : prefixWidth 65535 = 2 := by decide
  simp only [encodeExtension, opaqueVec, u16, enc_is_spec, e1, List.append_assoc]

/-! ### CertificateRequest -/

theorem certTypes_is_spec (types : List Nat) (ht : ∀ t ∈ types, t < 256 ^ 1) :
    composeNumArray .network 1 (types.map Int.ofNat) = .ok (types.map u8).flatten := by
  induction types with
  | nil => rfl
  | cons x xs ih =>
    have h1 : composeNum .network 1 (Int.ofNat x) = .ok (encNat .network 1 x) :=
      composeNum_ok (by rfl) (ht x (List.mem_cons_self ..))
    simp only [List.map_cons, composeNumArray, h1, ih (fun y hy => ht y (List.mem_cons_of_mem _ hy)), bind,
      Except.bind, pure, Except.pure, List.flatten_cons, u8, enc_is_spec]

theorem u8s_flat_length (types : List Nat) : (types.map u8).flatten.length = types.length := by
  induction types with
  | nil => rfl
  | cons x xs ih => simp only [List.map_cons, List.flatten_cons, List.length_append, ih, u8, toBytesBE_length,
      List.length_cons]; omega

/-- RFC 5246 §7.4.4: the payload of a CertificateRequest -/
theorem certificateRequest_is_spec (r : CertificateRequest) (hw : CertificateRequestWf r) :
    composeCertificateRequestInner r =
      .ok (encodeCertificateRequest r.certificateTypes
        (r.signatureAlgorithms.map (List.map (codedCode Gen.TlsSignatureAndHashAlgorithm.codes))) r.authorities) := by
  obtain ⟨hp1, hp2, hp3, hp4, hn1, hn2, hn3, hn4, _, htf⟩ := certReq_params
  obtain ⟨types, algs, names⟩ := r
  obtain ⟨ht, _, htmax, ha, hnm, _, hnmax⟩ := hw
  simp only at ht htmax ha hnm hnmax
  have hw255 : prefixWidth 255 = clientCertificateTypeParam.numSize := by rw [hn1]; decide
  have hw65535n : prefixWidth 65535 = distinguishedNameParam.numSize := by rw [hn2]; decide
  have hw65535l : prefixWidth 65535 = distinguishedNameListParam.numSize := by rw [hn3]; decide
  have hw65534 : prefixWidth 65534 = signatureAlgorithmsParam.numSize := by rw [hn4]; decide
  have hfit1 : types.length < 256 ^ clientCertificateTypeParam.numSize := by have := hp1.2; omega
  have hA : composeVecNum clientCertificateTypeParam 1 types = .ok (vec 255 (types.map u8)) := by
    simp only [composeVecNum, Nat.mul_one, composeNum_ok hp1.1 hfit1, certTypes_is_spec types (fun t h => htf t (ht t h)),
      bind, Except.bind, pure, Except.pure, vec, opaqueVec, hw255, enc_is_spec, u8s_flat_length]
  have hC : composeVecItems distinguishedNameListParam (composeOpaque distinguishedNameParam) names =
      .ok (vec 65535 (names.map (opaqueVec 65535))) :=
    composeVecItems_is_vec names hw65535l hp3.1
      (fun d h => composeOpaque_is_spec d hw65535n hp2.1 (by have := hp2.2; have := (hnm d h).2; omega))
      (by rw [opaques_flat_length hp2 hw65535n]; have := hp3.2; omega)
  cases algs with
  | none =>
    simp only [composeCertificateRequestInner, hA, hC, bind, Except.bind, pure, Except.pure, encodeCertificateRequest,
      Option.map_none]
  | some al =>
    obtain ⟨hx, _, hamax⟩ := ha al rfl
    have hB : composeVecCoded signatureAlgorithmsParam Gen.TlsSignatureAndHashAlgorithm.codes 2 al =
        .ok (vec 65534 (al.map fun x => u16 (codedCode Gen.TlsSignatureAndHashAlgorithm.codes x))) :=
      composeVecItems_is_vec al hw65534 hp4.1
        (fun x h => composeCodedOrFallback_is_spec signatureAlgorithms_tableOk (hx x h))
        (by
          have : (al.map fun x => u16 (codedCode Gen.TlsSignatureAndHashAlgorithm.codes x)) =
              (al.map fun x => Spec.toBytesBE 2 (codedCode Gen.TlsSignatureAndHashAlgorithm.codes x)) := rfl
          rw [this, coded_flat_length]; have := hp4.2; omega)
    simp only [composeCertificateRequestInner, hA, hB, hC, bind, Except.bind, pure, Except.pure,
      encodeCertificateRequest, Option.map_some, List.map_map]
    rfl

/-! ### prefix widths and floors of the vector classes of these structures -/

theorem ext_vector_prefix_widths_match_rfc :
    Spec.TlsExt.rfcVectors.all (fun (name, _, ceiling) =>
      Gen.vecParams.any (fun g => g.name == name && g.max == ceiling &&
        g.numSize == Spec.Tls.prefixWidth ceiling)) = true := by
  decide +kernel

/-- the classes whose `min_byte_num` differs from the RFC floor -/
def extFloorDeviations : List String :=
  (Spec.TlsExt.rfcVectors.filter (fun (name, floor, _) =>
    !(Gen.vecParams.any (fun g => g.name == name && g.min == floor)))).map (·.1)

/-- RFC 6962 §3.3 asks for at least one SCT (`sct_list<1..2^16-1>`); the class accepts an empty list -/
theorem ext_floor_deviations_are_exactly : extFloorDeviations = ["SignedCertificateTimestampList"] := by
  decide +kernel

/-! non-vacuity -/
example : composeExt ⟨"TlsExtensionServerNameClient", 0, .ext2 (.hostName [0x61, 0x2e, 0x62])⟩ =
    .ok [0, 0, 0, 8, 0, 6, 0, 0, 3, 0x61, 0x2e, 0x62] := by decide +kernel
example : encodeExtension 0 (encodeServerName 0 [0x61, 0x2e, 0x62]) = [0, 0, 0, 8, 0, 6, 0, 0, 3, 0x61, 0x2e, 0x62] := by
  decide +kernel
example : Ext2BodyWf .serverName (.hostName [0x61, 0x2e, 0x62]) := by decide +kernel
example : composeExt ⟨"TlsExtensionKeyShareClientHelloRetry", 51, .ext2 (.group 22)⟩ = .ok [0, 51, 0, 2, 0, 23] := by
  decide +kernel

end Cp.C06
