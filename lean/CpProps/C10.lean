import CpModel.Enum
import CpModel.Gen.Vectors
import CpProofs.Enum
import CpSpec.Codes
/-
  C10 — every wire code point is decoded faithfully or preserved verbatim.

  The generic theorems hold for EVERY table, every code width 1/2/3/4/8 and every value of the
  code space at once (no enumeration of 2^8 … 2^32 values).  The per-table obligations are
  decided by the kernel on the tables regenerated from the live code (`CpModel/Gen/Enums.lean`).
-/
namespace Cp.C10
open Cp

/-- A code read from the wire is never redirected: if the strict parser accepts `k` bytes it
returns the first member carrying exactly the code that was read, and that member re-encodes to
the very same `k` bytes. -/
theorem strict_faithful (codes : List Nat) (k : Nat) (rest : Bytes) (i n : Nat)
    (h : parseCoded codes k rest = .ok (i, n)) :
    n = k ∧ (∃ c, codes[i]? = some c ∧ (∀ j, j < i → codes[j]? ≠ some c) ∧
      composeCoded codes k i = .ok (rest.take k)) := by
  unfold parseCoded at h
  cases hp : parseNum .network k rest with
  | error e => simp [hp, bind, Except.bind] at h
  | ok r =>
    obtain ⟨c, m⟩ := r
    simp only [hp, bind, Except.bind] at h
    obtain ⟨hm, _, hc, henc, hk⟩ := parseNum_ok_inv hp
    cases hf : findCode c codes with
    | none => simp [hf] at h
    | some j =>
      simp [hf, pure, Except.pure] at h
      obtain ⟨hj, hn⟩ := h
      subst hj; subst hn
      refine ⟨hm, c, findCode_sound hf, findCode_first hf, ?_⟩
      unfold composeCoded
      rw [findCode_sound hf]
      simp only
      rw [composeNum_ok hk hc, henc]

/-- A code with no member is rejected by the strict parser as an invalid value — it is never
mapped to some other member. -/
theorem strict_rejects_unknown (codes : List Nat) (k : Nat) (c : Nat) (s : Bytes)
    (hk : validSize k = true) (hc : c < 256 ^ k) (hno : c ∉ codes) :
    parseCoded codes k (encNat .network k c ++ s) = .error .invalidValue := by
  unfold parseCoded
  rw [parseNum_enc hk hc]
  simp only [bind, Except.bind]
  cases hf : findCode c codes with
  | none => rfl
  | some i =>
    have := findCode_sound hf
    exact absurd (List.mem_of_getElem? this) hno

/-- With a fallback class EVERY value of the code space is accepted, consumes exactly `k` bytes
and re-encodes bit for bit: a known code becomes the first member carrying it, any other code is
preserved verbatim in the wrapper.  Never redirected, never dropped. -/
theorem fallback_total_and_faithful (codes : List Nat) (k : Nat) (c : Nat) (s : Bytes)
    (hk : validSize k = true) (hc : c < 256 ^ k) :
    ∃ v, parseCodedOrFallback codes k (encNat .network k c ++ s) = .ok (v, k) ∧
      v.code codes = some c ∧
      composeCodedOrFallback codes k v = .ok (encNat .network k c) ∧
      (c ∉ codes → v = .unknown c) := by
  unfold parseCodedOrFallback parseCoded parseInvalidType
  rw [parseNum_enc hk hc]
  simp only [bind, Except.bind]
  cases hf : findCode c codes with
  | none =>
    refine ⟨.unknown c, rfl, rfl, ?_, fun _ => rfl⟩
    simp [composeCodedOrFallback, composeNum_ok hk hc]
  | some i =>
    refine ⟨.known i, rfl, ?_, ?_, ?_⟩
    · simpa [Coded.code] using findCode_sound hf
    · simp [composeCodedOrFallback, composeCoded, findCode_sound hf, composeNum_ok hk hc]
    · intro hno
      exact absurd (List.mem_of_getElem? (findCode_sound hf)) hno

/-- With pairwise distinct codes every member survives compose → parse as itself. -/
theorem member_roundtrip (codes : List Nat) (k : Nat) (i : Nat) (s : Bytes)
    (hk : validSize k = true) (hn : codes.Nodup) (hi : i < codes.length)
    (hfit : ∀ c ∈ codes, c < 256 ^ k) :
    ∃ b, composeCoded codes k i = .ok b ∧ b.length = k ∧
      parseCoded codes k (b ++ s) = .ok (i, k) ∧
      parseCodedOrFallback codes k (b ++ s) = .ok (.known i, k) := by
  have hget : codes[i]? = some codes[i] := List.getElem?_eq_getElem hi
  have hc : codes[i] < 256 ^ k := hfit _ (List.getElem_mem hi)
  refine ⟨encNat .network k codes[i], ?_, encNat_length _ _ _, ?_, ?_⟩
  · simp [composeCoded, hget, composeNum_ok hk hc]
  · unfold parseCoded
    rw [parseNum_enc hk hc]
    simp [bind, Except.bind, findCode_of_nodup hn hget, pure, Except.pure]
  · unfold parseCodedOrFallback parseCoded
    rw [parseNum_enc hk hc]
    simp [bind, Except.bind, findCode_of_nodup hn hget, pure, Except.pure]

/-- An unknown / GREASE wrapper keeps its code through compose → parse. -/
theorem unknown_roundtrip (codes : List Nat) (k : Nat) (c : Nat) (s : Bytes)
    (hk : validSize k = true) (hc : c < 256 ^ k) (hno : c ∉ codes) :
    ∃ b, composeCodedOrFallback codes k (.unknown c) = .ok b ∧
      parseCodedOrFallback codes k (b ++ s) = .ok (.unknown c, k) := by
  obtain ⟨v, hp, _, hcomp, hv⟩ := fallback_total_and_faithful codes k c s hk hc
  refine ⟨encNat .network k c, ?_, ?_⟩
  · simp [composeCodedOrFallback, composeNum_ok hk hc]
  · rw [hp, hv hno]

/-! ### obligations on the regenerated tables -/

/-- pairwise distinct, except for codes the protocol itself assigns to two names -/
def distinctUpToSanctioned (t : Gen.NumTable) : Bool :=
  decide ((t.memberCodes.filter fun c => !(Spec.sanctionedShared.contains (t.name, c))).Nodup)

/-- every factory table fits its declared code width -/
def fitsWidth (t : Gen.NumTable) : Bool :=
  t.size == 0 || t.codes.all (fun c => decide (c < 256 ^ t.size))

/-- Distinct symbolic names never share a code unless the protocol assigns one number to both:
holds for all `__members__` (aliases included) of every table extracted from the code. -/
theorem names_do_not_share_codes : Gen.numTables.all distinctUpToSanctioned = true := by
  decide +kernel

/-- Iteration-order codes (what the parser searches) are pairwise distinct in every table. -/
theorem canonical_codes_nodup : Gen.numTables.all (fun t => decide t.codes.Nodup) = true := by
  decide +kernel

theorem codes_fit_width : Gen.numTables.all fitsWidth = true := by
  decide +kernel

/-- Inside a list container an unknown code is preserved by a fallback class: that class must read
code points of exactly the width of the item factory, otherwise an unknown code swallows (or splits)
its neighbour. Decided on the parameters regenerated from every live container class. -/
def fallbackWidthOk (v : Gen.VecP) : Bool :=
  v.itemCodeSize == 0 || v.fallbackCodeSize == 0 || v.itemCodeSize == v.fallbackCodeSize

theorem container_fallback_width_matches_item_width : Gen.vecParams.all fallbackWidthOk = true := by
  decide +kernel

/-- non-vacuity: several live containers do have both widths -/
example : (Gen.vecParams.filter fun v => v.itemCodeSize != 0 && v.fallbackCodeSize != 0).length ≥ 8 := by
  decide +kernel

/-- The GREASE tables are exactly the RFC 8701 patterns. -/
theorem grease_tables_are_rfc8701 :
    Gen.TlsGreaseTwoByte.codes = Spec.grease16 ∧ Gen.TlsGreaseOneByte.codes = Spec.grease8 := by
  decide +kernel

/-- The two SCSV markers have the IANA code points. -/
theorem scsv_codes :
    Gen.TlsCipherSuiteExtension.codes = [Spec.fallbackScsv, Spec.emptyRenegotiationInfoScsv] := by
  decide +kernel

/-- String-coded enumerations: codes pairwise distinct (case-folded where matching is
case-insensitive), so a member's own code cannot select another member. -/
theorem string_codes_nodup :
    Gen.strTables.all (fun t =>
      decide ((if t.insensitive then t.codes.map strLower else t.codes).Nodup)) = true := by
  decide +kernel

/-! ### non-vacuity -/

example : validSize Gen.TlsCipherSuite.size = true ∧ Gen.TlsCipherSuite.codes.length > 300 := by
  decide +kernel

example : parseCodedOrFallback Gen.TlsNamedCurve.codes 2 [0x00, 0x1d, 0xff] = .ok (.known 28, 2) := by
  decide +kernel

example : parseCodedOrFallback Gen.TlsNamedCurve.codes 2 [0x0a, 0x0a] = .ok (.unknown 0x0a0a, 2) := by
  decide +kernel

end Cp.C10
