import CpModel.Prim
import CpProofs.Num
import CpProofs.Enum
import CpProofs.Timestamp
import CpSpec.Wire
/-
  C11 — integer, flag, mpint and timestamp primitives are exact and never truncate.
  All statements are over unbounded `Nat`/`Int`, every width the code supports and every byte order.
-/
namespace Cp.C11
open Cp

/-- Fixed-width integers round-trip, with any trailing bytes, for every width and byte order. -/
theorem num_roundtrip (bo : ByteOrder) (k v : Nat) (s : Bytes) (hk : validSize k = true)
    (hv : v < 256 ^ k) :
    ∃ b, composeNum bo k (v : Int) = .ok b ∧ b.length = k ∧ parseNum bo k (b ++ s) = .ok (v, k) :=
  ⟨encNat bo k v, composeNum_ok hk hv, encNat_length bo k v, parseNum_enc hk hv s⟩

/-- The composed bytes are exactly the radix-256 digits the byte order dictates
(`int.to_bytes`), not merely something the parser inverts. -/
theorem num_is_to_bytes (bo : ByteOrder) (k v : Nat) (hk : validSize k = true) (hv : v < 256 ^ k) :
    composeNum bo k (v : Int) =
      .ok (if bo.isBig then Spec.toBytesBE k v else Spec.toBytesLE k v) := by
  rw [composeNum_ok hk hv]
  unfold encNat
  split <;> simp [beBytes_eq_spec, leBytes_eq_spec]

/-- A value that does not fit the width is rejected with an invalid-value error — never truncated.
This covers the three-byte width, which the code packs through a four-byte format. -/
theorem num_rejects_overflow (bo : ByteOrder) (k : Nat) (v : Int) (hk : validSize k = true)
    (hv : ((256 ^ k : Nat) : Int) ≤ v) : composeNum bo k v = .error .invalidValue := by
  unfold composeNum
  have hp : (0 : Int) ≤ ((256 ^ k : Nat) : Int) := Int.natCast_nonneg _
  have h0 : ¬ v < 0 := by omega
  have h1 : 256 ^ k ≤ v.toNat := by omega
  simp [hk, h0, h1]

theorem num_rejects_negative (bo : ByteOrder) (k : Nat) (v : Int) (hk : validSize k = true)
    (hv : v < 0) : composeNum bo k v = .error .invalidValue := by
  unfold composeNum
  simp [hk, hv]

/-- Whatever is parsed lies in the code space of the width, consumes exactly the width, and
re-composes to the bytes that were read. -/
theorem num_parse_exact (bo : ByteOrder) (k : Nat) (rest : Bytes) (v n : Nat)
    (h : parseNum bo k rest = .ok (v, n)) :
    n = k ∧ v < 256 ^ k ∧ composeNum bo k (v : Int) = .ok (rest.take k) := by
  obtain ⟨hn, _, hv, henc, hk⟩ := parseNum_ok_inv h
  exact ⟨hn, hv, by rw [composeNum_ok hk hv, henc]⟩

/-- A short buffer is reported as not-enough-data with the exact number of missing bytes. -/
theorem num_short (bo : ByteOrder) (k : Nat) (rest : Bytes) (h : rest.length < k) :
    parseNum bo k rest = .error (.notEnough ((k - rest.length : Nat) : Int)) := by
  unfold parseNum; simp [h]

/-- Timestamps in seconds: every instant up to 9999-12-31T23:59:59Z that fits the field and is not its
all-ones value, and the "forever" sentinel, round-trip in 4- and 8-byte fields, for every byte order
and whatever follows; the sentinel is all-ones of the field's own width.  Nothing is cut to 32 bits
(repaired: an 8-byte field used to come back modulo 2^32).  (No zone parameter exists in the model:
the repaired code computes the epoch value from UTC calendar fields.) -/
theorem timestamp_roundtrip_seconds (bo : ByteOrder) (k : Nat) (t : Option Nat) (s : Bytes)
    (hk : k = 4 ∨ k = 8) (ht : ∀ v, t = some v → v ≤ maxEpochSeconds ∧ v < 256 ^ k - 1) :
    ∃ b, composeTimestamp bo k t = .ok b ∧ b.length = k ∧
      parseTimestamp bo false k (b ++ s) = .ok (t, k) := by
  have hvs : validSize k = true := by rcases hk with h | h <;> subst h <;> rfl
  cases t with
  | none =>
    have hpos : 0 < 256 ^ k := Nat.pow_pos (by decide)
    exact ⟨encNat bo k (256 ^ k - 1), composeNum_ok hvs (by omega), encNat_length _ _ _,
      parseTimestamp_enc_sentinel hvs s⟩
  | some v =>
    obtain ⟨hle, hv⟩ := ht v rfl
    exact ⟨encNat bo k v, composeNum_ok hvs (by omega), encNat_length _ _ _,
      parseTimestamp_enc hvs hv (by simpa [tsSeconds] using hle) s⟩

/-- In an 8-byte field the range of `datetime` is the only condition: every second count up to
`maxEpochSeconds` fits and differs from the sentinel. -/
theorem timestamp_roundtrip_seconds8 (bo : ByteOrder) (t : Option Nat) (s : Bytes)
    (ht : ∀ v, t = some v → v ≤ maxEpochSeconds) :
    ∃ b, composeTimestamp bo 8 t = .ok b ∧ b.length = 8 ∧
      parseTimestamp bo false 8 (b ++ s) = .ok (t, 8) :=
  timestamp_roundtrip_seconds bo 8 t s (.inr rfl) fun v hv =>
    ⟨ht v hv, tsSeconds_le_fits8 (ms := false) (by simpa [tsSeconds] using ht v hv)⟩

/-- In a 4-byte field every value below the sentinel is an instant (1970 … 2106): nothing to exclude. -/
theorem timestamp_roundtrip_seconds4 (bo : ByteOrder) (t : Option Nat) (s : Bytes)
    (ht : ∀ v, t = some v → v < 2 ^ 32 - 1) :
    ∃ b, composeTimestamp bo 4 t = .ok b ∧ b.length = 4 ∧
      parseTimestamp bo false 4 (b ++ s) = .ok (t, 4) :=
  timestamp_roundtrip_seconds bo 4 t s (.inl rfl) fun v hv => by
    have := ht v hv
    unfold maxEpochSeconds
    omega

/-- Millisecond timestamps (8-byte field, as used by signed certificate timestamps): every instant
whose whole seconds are at most `maxEpochSeconds` — that is, up to 9999-12-31T23:59:59.999Z — and the
sentinel round-trip exactly, milliseconds included. -/
theorem timestamp_roundtrip_millis (bo : ByteOrder) (t : Option Nat) (s : Bytes)
    (ht : ∀ v, t = some v → v / 1000 ≤ maxEpochSeconds) :
    ∃ b, composeTimestamp bo 8 t = .ok b ∧ b.length = 8 ∧
      parseTimestamp bo true 8 (b ++ s) = .ok (t, 8) := by
  have hvs : validSize 8 = true := rfl
  cases t with
  | none =>
    exact ⟨encNat bo 8 (256 ^ 8 - 1), composeNum_ok hvs (by decide), encNat_length _ _ _,
      parseTimestamp_enc_sentinel hvs s⟩
  | some v =>
    have hle : tsSeconds true v ≤ maxEpochSeconds := by simpa [tsSeconds] using ht v rfl
    have hv := tsSeconds_le_fits8 hle
    exact ⟨encNat bo 8 v, composeNum_ok hvs (by omega), encNat_length _ _ _, parseTimestamp_enc hvs hv hle s⟩

/-- An instant later than 9999-12-31T23:59:59(.999)Z is not a `datetime`: a field that holds such a
value (and not the sentinel) is rejected with an invalid value — in either unit, for every width and
byte order, whatever the buffer.  It is never reduced into range. -/
theorem timestamp_beyond_datetime_rejected (bo : ByteOrder) (ms : Bool) (k : Nat) (rest : Bytes) (v n : Nat)
    (h : parseNum bo k rest = .ok (v, n)) (hne : v ≠ 256 ^ k - 1)
    (hgt : maxEpochSeconds < (if ms then v / 1000 else v)) :
    parseTimestamp bo ms k rest = .error .invalidValue :=
  parseTimestamp_of_num_beyond h hne hgt

/-- The same on composed bytes: the number composes (it fits the field), the instant does not parse. -/
theorem timestamp_beyond_datetime_rejected_enc (bo : ByteOrder) (ms : Bool) (k v : Nat) (s : Bytes)
    (hk : k = 4 ∨ k = 8) (hv : v < 256 ^ k - 1) (hgt : maxEpochSeconds < (if ms then v / 1000 else v)) :
    composeTimestamp bo k (some v) = .ok (encNat bo k v) ∧
      parseTimestamp bo ms k (encNat bo k v ++ s) = .error .invalidValue := by
  have hvs : validSize k = true := by rcases hk with h | h <;> subst h <;> rfl
  exact ⟨composeNum_ok hvs (by omega), parseTimestamp_enc_beyond hvs hv hgt s⟩

/-- Whatever is parsed consumed exactly the field, lies in `datetime`'s range if it is an instant, and
re-composes to the bytes that were read (so the parser is injective on what it accepts). -/
theorem timestamp_parse_exact (bo : ByteOrder) (ms : Bool) (k : Nat) (rest : Bytes) (t : Option Nat) (n : Nat)
    (h : parseTimestamp bo ms k rest = .ok (t, n)) :
    n = k ∧ (∀ v, t = some v → (if ms then v / 1000 else v) ≤ maxEpochSeconds) ∧
      composeTimestamp bo k t = .ok (rest.take k) := by
  obtain ⟨hn, _, hk, v, hp, ht, hle⟩ := parseTimestamp_ok_inv h
  obtain ⟨_, _, hv, henc, _⟩ := parseNum_ok_inv hp
  by_cases hs : v = 256 ^ k - 1
  · rw [if_pos hs] at ht
    subst ht
    refine ⟨hn, fun _ h => (by cases h), ?_⟩
    show composeNum bo k ((256 ^ k - 1 : Nat) : Int) = _
    rw [← hs, composeNum_ok hk hv, henc]
  · rw [if_neg hs] at ht
    subst ht
    refine ⟨hn, fun w hw => (by cases hw; exact hle hs), ?_⟩
    show composeNum bo k (v : Int) = _
    rw [composeNum_ok hk hv, henc]

/-- The only errors of the timestamp reader: the width check of the number, or the range check. -/
theorem timestamp_errors (bo : ByteOrder) (ms : Bool) (k : Nat) (rest : Bytes) (e : PErr)
    (h : parseTimestamp bo ms k rest = .error e) :
    parseNum bo k rest = .error e ∨ e = .invalidValue := by
  rcases parseTimestamp_err_inv h with h | ⟨h, _⟩
  · exact .inl h
  · exact .inr h

/-! regression: an 8-byte field is not cut to 32 bits -/

/-- 2200-01-01T00:00:00Z (`uint64 7258118400`) used to come back as 2963151104 (2063-11-24). -/
example : parseTimestamp .network false 8 [0, 0, 0, 1, 0xb0, 0x9e, 0x19, 0x00] = .ok (some 7258118400, 8) := by
  decide
example : composeTimestamp .network 8 (some 7258118400) = .ok [0, 0, 0, 1, 0xb0, 0x9e, 0x19, 0x00] := by decide
/-- `2^32 * 1000 + 7` ms used to come back as 7 ms after the epoch. -/
example (s : Bytes) : parseTimestamp .network true 8 (encNat .network 8 (2 ^ 32 * 1000 + 7) ++ s)
    = .ok (some (2 ^ 32 * 1000 + 7), 8) :=
  parseTimestamp_enc (by rfl) (by decide) (by decide) s
example : parseTimestamp .network true 8 [0, 0, 0x03, 0xe8, 0, 0, 0, 7] = .ok (some (2 ^ 32 * 1000 + 7), 8) := by
  decide
/-- the last second of `datetime` is accepted, the next one is not, the sentinel is "forever" -/
example : parseTimestamp .network false 8 [0, 0, 0, 0x3a, 0xff, 0xf4, 0x41, 0x7f] = .ok (some maxEpochSeconds, 8) := by
  decide
example : parseTimestamp .network false 8 [0, 0, 0, 0x3a, 0xff, 0xf4, 0x41, 0x80] = .error .invalidValue := by
  decide
example : parseTimestamp .network true 8 [0, 0, 0xe6, 0x77, 0xd2, 0x1f, 0xdb, 0xff]
    = .ok (some (maxEpochSeconds * 1000 + 999), 8) := by decide
example : parseTimestamp .network true 8 [0, 0, 0xe6, 0x77, 0xd2, 0x1f, 0xdc, 0x00] = .error .invalidValue := by
  decide
example : parseTimestamp .network false 8 [0x80, 0, 0, 0, 0, 0, 0, 0] = .error .invalidValue := by decide
example : parseTimestamp .network false 8 [255, 255, 255, 255, 255, 255, 255, 254] = .error .invalidValue := by
  decide
example : parseTimestamp .network false 8 [255, 255, 255, 255, 255, 255, 255, 255] = .ok (none, 8) := by decide
example : parseTimestamp .network false 4 [255, 255, 255, 254] = .ok (some (2 ^ 32 - 2), 4) := by decide

/-! non-vacuity -/
example : ∃ b, composeNum .little 3 (0x010203 : Nat) = .ok b ∧ b = [3, 2, 1] := ⟨_, rfl, by decide⟩
example : composeNum .big 3 (2 ^ 24 : Nat) = .error .invalidValue := by decide

end Cp.C11
