import CpModel.Prim
import CpProofs.Num
import CpProofs.Enum
import CpSpec.Wire
/-
  C11 — integer, flag, mpint and timestamp primitives are exact and never truncate.
  All statements are over unbounded `Nat`/`Int`, every width the code supports and every byte order.
-/
namespace Cp.C11
open Cp

/-- Fixed-width integers round-trip, with any trailing bytes, for every width and byte order. -/
theorem num_roundtrip (bo : ByteOrder) (k v : Nat) (s : Bytes) (hk : validSize k = true)
    (hv : v < 256 ^ k) :
    ∃ b, composeNum bo k (v : Int) = .ok b ∧ b.length = k ∧ parseNum bo k (b ++ s) = .ok (v, k) :=
  ⟨encNat bo k v, composeNum_ok hk hv, encNat_length bo k v, parseNum_enc hk hv s⟩

/-- The composed bytes are exactly the radix-256 digits the byte order dictates
(`int.to_bytes`), not merely something the parser inverts. -/
theorem num_is_to_bytes (bo : ByteOrder) (k v : Nat) (hk : validSize k = true) (hv : v < 256 ^ k) :
    composeNum bo k (v : Int) =
      .ok (if bo.isBig then Spec.toBytesBE k v else Spec.toBytesLE k v) := by
  rw [composeNum_ok hk hv]
  unfold encNat
  split <;> simp [beBytes_eq_spec, leBytes_eq_spec]

/-- A value that does not fit the width is rejected with an invalid-value error — never truncated.
This covers the three-byte width, which the code packs through a four-byte format. -/
theorem num_rejects_overflow (bo : ByteOrder) (k : Nat) (v : Int) (hk : validSize k = true)
    (hv : ((256 ^ k : Nat) : Int) ≤ v) : composeNum bo k v = .error .invalidValue := by
  unfold composeNum
  have hp : (0 : Int) ≤ ((256 ^ k : Nat) : Int) := Int.natCast_nonneg _
  have h0 : ¬ v < 0 := by omega
  have h1 : 256 ^ k ≤ v.toNat := by omega
  simp [hk, h0, h1]

theorem num_rejects_negative (bo : ByteOrder) (k : Nat) (v : Int) (hk : validSize k = true)
    (hv : v < 0) : composeNum bo k v = .error .invalidValue := by
  unfold composeNum
  simp [hk, hv]

/-- Whatever is parsed lies in the code space of the width, consumes exactly the width, and
re-composes to the bytes that were read. -/
theorem num_parse_exact (bo : ByteOrder) (k : Nat) (rest : Bytes) (v n : Nat)
    (h : parseNum bo k rest = .ok (v, n)) :
    n = k ∧ v < 256 ^ k ∧ composeNum bo k (v : Int) = .ok (rest.take k) := by
  obtain ⟨hn, _, hv, henc, hk⟩ := parseNum_ok_inv h
  exact ⟨hn, hv, by rw [composeNum_ok hk hv, henc]⟩

/-- A short buffer is reported as not-enough-data with the exact number of missing bytes. -/
theorem num_short (bo : ByteOrder) (k : Nat) (rest : Bytes) (h : rest.length < k) :
    parseNum bo k rest = .error (.notEnough ((k - rest.length : Nat) : Int)) := by
  unfold parseNum; simp [h]

/-- Timestamps: every instant of the 32-bit range (1970 … 2106) and the "forever" sentinel
round-trip in seconds, in 4- and 8-byte fields, for every byte order; the sentinel is all-ones of
the field's own width.  (No zone parameter exists in the model: the repaired code computes the
epoch value from UTC calendar fields.) -/
theorem timestamp_roundtrip_seconds (bo : ByteOrder) (k : Nat) (t : Option Nat) (s : Bytes)
    (hk : k = 4 ∨ k = 8) (ht : ∀ v, t = some v → v < 2 ^ 32 - 1) :
    ∃ b, composeTimestamp bo k t = .ok b ∧ b.length = k ∧
      parseTimestamp bo false k (b ++ s) = .ok (t, k) := by
  have hvs : validSize k = true := by rcases hk with h | h <;> subst h <;> rfl
  have hpow : (2 : Nat) ^ 32 ≤ 256 ^ k := by rcases hk with h | h <;> subst h <;> decide
  cases t with
  | none =>
    have hpos : 0 < 256 ^ k := Nat.pow_pos (by decide)
    have hlt : 256 ^ k - 1 < 256 ^ k := by omega
    refine ⟨encNat bo k (256 ^ k - 1), composeNum_ok hvs hlt, encNat_length _ _ _, ?_⟩
    simp [parseTimestamp, parseNum_enc hvs hlt, bind, Except.bind, pure, Except.pure]
  | some v =>
    have hv := ht v rfl
    have hlt : v < 256 ^ k := by omega
    refine ⟨encNat bo k v, composeNum_ok hvs hlt, encNat_length _ _ _, ?_⟩
    have hne : ¬ (v = 256 ^ k - 1) := by omega
    have hmod : v % 2 ^ 32 = v := Nat.mod_eq_of_lt (by omega)
    simp [parseTimestamp, parseNum_enc hvs hlt, bind, Except.bind, pure, Except.pure, hne, hmod]

/-- Millisecond timestamps (8-byte field, as used by signed certificate timestamps). -/
theorem timestamp_roundtrip_millis (bo : ByteOrder) (t : Option Nat) (s : Bytes)
    (ht : ∀ v, t = some v → v < 2 ^ 32 * 1000) :
    ∃ b, composeTimestamp bo 8 t = .ok b ∧ b.length = 8 ∧
      parseTimestamp bo true 8 (b ++ s) = .ok (t, 8) := by
  have hvs : validSize 8 = true := rfl
  cases t with
  | none =>
    have hlt : 256 ^ 8 - 1 < 256 ^ 8 := by decide
    refine ⟨encNat bo 8 (256 ^ 8 - 1), composeNum_ok hvs hlt, encNat_length _ _ _, ?_⟩
    simp [parseTimestamp, parseNum_enc hvs hlt, bind, Except.bind, pure, Except.pure]
  | some v =>
    have hv := ht v rfl
    have hlt : v < 256 ^ 8 := by omega
    refine ⟨encNat bo 8 v, composeNum_ok hvs hlt, encNat_length _ _ _, ?_⟩
    have hne : ¬ (v = 256 ^ 8 - 1) := by omega
    have hmod : v / 1000 % 2 ^ 32 * 1000 + v % 1000 = v := by
      have : v / 1000 < 2 ^ 32 := by omega
      rw [Nat.mod_eq_of_lt this]; omega
    simp [parseTimestamp, parseNum_enc hvs hlt, bind, Except.bind, pure, Except.pure, hne, hmod]

/-! non-vacuity -/
example : ∃ b, composeNum .little 3 (0x010203 : Nat) = .ok b ∧ b = [3, 2, 1] := ⟨_, rfl, by decide⟩
example : composeNum .big 3 (2 ^ 24 : Nat) = .error .invalidValue := by decide

end Cp.C11
