import CpProofs.Hello
/-
  C01 for the hello extension classes with structured bodies and for CertificateRequest: compose then
  parse returns the same value and consumes every composed byte, whatever follows.

  `extBody_roundTrip`: every body layout (server_name, ALPN/ALPS, NPN, status_request, the four
  key_share forms, token_binding, SCT list) on every constructible body (`Ext2BodyWf`) that fits the
  16-bit extension length.
  `…_roundTrip` per class: the extension as an item of the extension vector of ITS side — through
  the variant walk of the regenerated list (`Gen.extVariantsClient/Server`), so that a conformant
  extension must not be captured by another class of the walk.  On the server side `key_share`
  resolves to the two-byte HelloRetryRequest form first and to the ServerHello form for every other
  length: the theorems depend on that ORDER of the regenerated list.
-/
namespace Cp.C01
open Cp Cp.Codec Cp.Tls Cp.Hello

/-- every structured body round-trips through the body parser of its class -/
theorem extBody_roundTrip {k : Ext2Kind} {b : Ext2Body} (hw : Ext2BodyWf k b) (hsz : ext2BodySize k b < 256 ^ 2) :
    ∃ payload, composeExt2Body k b = .ok payload ∧ payload.length = ext2BodySize k b ∧
      ∀ s, parseExt2Body k payload.length (payload ++ s) = .ok (b, payload.length) :=
  ext2_body_roundTrip hw hsz

/-- the full statement without the size side condition: FALSE of the code for one class — a server
name of 65533..65535 bytes is a `TlsServerName` the parser returns and the constructor accepts, but
`compose` refuses the list length `3 + len` (and the extension length could not hold it either) -/
def extBody_compose_full : Prop :=
  ∀ k b, Ext2BodyWf k b → ∃ payload, composeExt2Body k b = .ok payload

/-! a host name of 65533 bytes: 1023 labels of 63 `a`s, each followed by a dot, and a last label of
61 `a`s.  (Shown plain by reasoning: deciding `hostPlain` on 65533 bytes takes the kernel minutes.) -/

def hostBlock : Bytes := List.replicate 63 97 ++ [46]
def longHost : Bytes := (List.replicate 1023 hostBlock).flatten ++ List.replicate 61 97

theorem labelsOk_as (n : Nat) (r : Bytes) (cur : Nat) :
    labelsOk (List.replicate n 97 ++ r) cur = labelsOk r (cur + n) := by
  induction n generalizing cur with
  | zero => rfl
  | succ n ih =>
    have h97 : ¬ ((97 : UInt8).toNat = 46) := by decide
    simp only [List.replicate_succ, List.cons_append, labelsOk, h97, if_false, ih]
    congr 1
    omega

theorem labelsOk_blocks (k : Nat) (r : Bytes) : labelsOk ((List.replicate k hostBlock).flatten ++ r) 0 = labelsOk r 0 := by
  induction k with
  | zero => rfl
  | succ k ih =>
    have h46 : (46 : UInt8).toNat = 46 := by decide
    simp only [List.replicate_succ, List.flatten_cons, hostBlock, List.append_assoc, labelsOk_as, List.cons_append,
      List.nil_append, labelsOk, h46, if_true]
    simpa [hostBlock] using ih

theorem blocks_length (k : Nat) : (List.replicate k hostBlock).flatten.length = k * 64 := by
  induction k with
  | zero => rfl
  | succ k ih =>
    have hb : hostBlock.length = 64 := by decide
    simp only [List.replicate_succ, List.flatten_cons, List.length_append, ih, hb]; omega

theorem longHost_length : longHost.length = 65533 := by
  simp only [longHost, List.length_append, blocks_length, List.length_replicate]

theorem longHost_bytes : ∀ x ∈ longHost, x = 97 ∨ x = 46 := by
  intro x hx
  simp only [longHost, List.mem_append, List.mem_flatten, List.mem_replicate] at hx
  rcases hx with ⟨l, ⟨_, rfl⟩, hxl⟩ | ⟨_, rfl⟩
  · simp only [hostBlock, List.mem_append, List.mem_replicate, List.mem_cons, List.mem_nil_iff, or_false] at hxl
    rcases hxl with ⟨_, rfl⟩ | rfl
    · exact .inl rfl
    · exact .inr rfl
  · exact .inl rfl

theorem noAce_of_bytes : ∀ (h : Bytes), (∀ x ∈ h, x = 97 ∨ x = 46) → hasAcePrefix h = false := by
  intro h
  induction h with
  | nil => intro _; rfl
  | cons x xs ih =>
    intro hx
    have ih' := ih (fun y hy => hx y (List.mem_cons_of_mem _ hy))
    simp only [hasAcePrefix, ih', Bool.or_false]
    rcases hx x (List.mem_cons_self ..) with rfl | rfl
    · cases xs with
      | nil => decide
      | cons a as => cases as with
        | nil => simp [asciiLowerByte]
        | cons b bs => cases bs with
          | nil => simp [asciiLowerByte]
          | cons c cs => simp [asciiLowerByte]
    · cases xs with
      | nil => decide
      | cons a as => cases as with
        | nil => simp [asciiLowerByte]
        | cons b bs => cases bs with
          | nil => simp [asciiLowerByte]
          | cons c cs => simp [asciiLowerByte]

theorem longHost_plain : hostPlain longHost = true := by
  have hall : longHost.all (fun x => x.toNat < 128) = true := by
    rw [List.all_eq_true]
    intro x hx
    rcases longHost_bytes x hx with rfl | rfl <;> decide
  have hl : labelsOk longHost 0 = true := by
    unfold longHost
    rw [labelsOk_blocks, ← List.append_nil (List.replicate 61 97), labelsOk_as]
    decide
  simp only [hostPlain, hall, noAce_of_bytes _ longHost_bytes, hl, Bool.not_false, Bool.and_self]

theorem extBody_compose_fails : ¬ extBody_compose_full := by
  intro h
  have hw : Ext2BodyWf .serverName (.hostName longHost) := by
    refine ⟨longHost_plain, ?_, ?_⟩
    · rw [longHost_length]; decide +kernel
    · rw [longHost_length]; decide +kernel
  obtain ⟨p, hp⟩ := h _ _ hw
  rcases ext2_body_compose hw with ⟨p', hp', hl⟩ | ⟨herr, _⟩
  · -- a successful composition would hold 3 + 65533 in 16 bits
    have hbig : composeNum .network 2 ((3 + longHost.length : Nat) : Int) = .error .invalidValue :=
      composeNum_too_big (by rfl) (by rw [longHost_length]; decide)
    simp only [composeExt2Body, longHost_plain, if_true, hbig, bind, Except.bind] at hp'
    cases hp'
  · rw [herr] at hp; cases hp

/-- what holds: composition succeeds, or it is that refusal and the payload would not have fitted -/
theorem extBody_compose_partial {k : Ext2Kind} {b : Ext2Body} (hw : Ext2BodyWf k b) :
    (∃ payload, composeExt2Body k b = .ok payload ∧ payload.length = ext2BodySize k b) ∨
      (composeExt2Body k b = .error .invalidValue ∧ 256 ^ 2 ≤ ext2BodySize k b) :=
  ext2_body_compose hw

/-! ### through the variant of the side -/

/-- the resolved class depends on the declared length only through "is it two?" (the one class
that declines lengths, the HelloRetryRequest form of key_share, declines everything but two) -/
theorem resolve_two {variants : List (String × Nat)} {t len len' : Nat} (h : len = 2 ↔ len' = 2) :
    resolve variants t len = resolve variants t len' := by
  induction variants with
  | nil => rfl
  | cons v more ih =>
    obtain ⟨c, t0⟩ := v
    unfold resolve
    have hd : ∀ kind : ExtKind, kind.declines len = kind.declines len' := by
      intro kind
      cases h1 : kind.declines len <;> cases h2 : kind.declines len' <;> try rfl
      · obtain ⟨hk, hne⟩ := declines_iff.mp h2
        have : kind.declines len = true := declines_iff.mpr ⟨hk, fun hl => hne (h.mp hl)⟩
        rw [h1] at this; cases this
      · obtain ⟨hk, hne⟩ := declines_iff.mp h1
        have : kind.declines len' = true := declines_iff.mpr ⟨hk, fun hl => hne (h.mpr hl)⟩
        rw [h2] at this; cases this
    split
    · rfl
    · split
      · exact ih
      · split
        · next kind _ => rw [hd kind, ih]
        · rfl

/-- an object of a class of Ext2.lean as an item of the extension vector of a side on which its
type resolves to it -/
theorem ext2_class_roundTrip {variants : List (String × Nat)} {cls : String} {t : Nat} {k : Ext2Kind}
    {b : Ext2Body} (ht : t < 256 ^ 2) (hmem : t ∈ Gen.ExtensionType.codes)
    (hr : resolve variants t (ext2BodySize k b) = some cls) (hne : cls ≠ "TlsExtensionUnparsed")
    (hk : extKindOf cls = some (.ext2 k)) (hw : Ext2BodyWf k b) (hsz : ext2BodySize k b < 256 ^ 2) :
    ItemRT (parseExt variants) composeExt ⟨cls, t, .ext2 b⟩ :=
  ext_itemRT (.parsed (kind := .ext2 k) ht hmem hr hne hk hw hsz)

theorem client_resolve (t len : Nat) : resolve Gen.extVariantsClient t len = resolve Gen.extVariantsClient t 0 := by
  by_cases h : len = 2
  · subst h
    -- no class of the client list declines a length: decided for the two representative lengths
    have : ∀ t, resolve Gen.extVariantsClient t 2 = resolve Gen.extVariantsClient t 0 := by
      intro t
      have hnd : Gen.extVariantsClient.all (fun p => !clsDeclines p.1) = true := by decide +kernel
      have key : ∀ (vs : List (String × Nat)), vs.all (fun p => !clsDeclines p.1) = true →
          resolve vs t 2 = resolve vs t 0 := by
        intro vs hvs
        induction vs with
        | nil => rfl
        | cons v more ih =>
          obtain ⟨c, t0⟩ := v
          simp only [List.all_cons, Bool.and_eq_true] at hvs
          unfold resolve
          split
          · rfl
          · split
            · exact ih hvs.2
            · split
              · next kind hkk =>
                have hc : clsDeclines c = false := by simpa using hvs.1
                have hd : ∀ l, kind.declines l = false := by
                  intro l
                  cases hx : kind.declines l with
                  | false => rfl
                  | true =>
                    obtain ⟨hke, _⟩ := declines_iff.mp hx
                    subst hke
                    simp [clsDeclines, hkk] at hc
                simp only [hd]
                rfl
              · rfl
      exact key _ hnd
    exact this t
  · exact resolve_two (by constructor <;> intro h' <;> first | exact absurd h' h | cases h')

/-- server_name in a ClientHello -/
theorem serverNameClient_roundTrip {h : Bytes} (hw : Ext2BodyWf .serverName (.hostName h))
    (hsz : ext2BodySize .serverName (.hostName h) < 256 ^ 2) :
    ItemRT (parseExt Gen.extVariantsClient) composeExt ⟨"TlsExtensionServerNameClient", 0, .ext2 (.hostName h)⟩ :=
  ext2_class_roundTrip (by decide) (by decide +kernel)
    (by rw [client_resolve]; decide +kernel) (by decide) rfl hw hsz

/-- ALPN in a ClientHello -/
theorem alpnClient_roundTrip {items : List Nat} (hw : Ext2BodyWf .protocolNames (.names items))
    (hsz : ext2BodySize .protocolNames (.names items) < 256 ^ 2) :
    ItemRT (parseExt Gen.extVariantsClient) composeExt
      ⟨"TlsExtensionApplicationLayerProtocolNegotiation", 16, .ext2 (.names items)⟩ :=
  ext2_class_roundTrip (by decide) (by decide +kernel)
    (by rw [client_resolve]; decide +kernel) (by decide) rfl hw hsz

/-- ALPS in a ClientHello -/
theorem alpsClient_roundTrip {items : List Nat} (hw : Ext2BodyWf .protocolNames (.names items))
    (hsz : ext2BodySize .protocolNames (.names items) < 256 ^ 2) :
    ItemRT (parseExt Gen.extVariantsClient) composeExt
      ⟨"TlsExtensionApplicationLayerProtocolSettings", 17513, .ext2 (.names items)⟩ :=
  ext2_class_roundTrip (by decide) (by decide +kernel)
    (by rw [client_resolve]; decide +kernel) (by decide) rfl hw hsz

/-- status_request in a ClientHello -/
theorem statusRequestClient_roundTrip {ids : List Bytes} {exts : Bytes}
    (hw : Ext2BodyWf .statusRequest (.statusRequest ids exts))
    (hsz : ext2BodySize .statusRequest (.statusRequest ids exts) < 256 ^ 2) :
    ItemRT (parseExt Gen.extVariantsClient) composeExt
      ⟨"TlsExtensionCertificateStatusRequestClient", 5, .ext2 (.statusRequest ids exts)⟩ :=
  ext2_class_roundTrip (by decide) (by decide +kernel)
    (by rw [client_resolve]; decide +kernel) (by decide) rfl hw hsz

/-- key_share in a ClientHello -/
theorem keyShareClient_roundTrip {entries : List KeyShare} (hw : Ext2BodyWf .keyShareClient (.keyShares entries))
    (hsz : ext2BodySize .keyShareClient (.keyShares entries) < 256 ^ 2) :
    ItemRT (parseExt Gen.extVariantsClient) composeExt ⟨"TlsExtensionKeyShareClient", 51, .ext2 (.keyShares entries)⟩ :=
  ext2_class_roundTrip (by decide) (by decide +kernel)
    (by rw [client_resolve]; decide +kernel) (by decide) rfl hw hsz

/-- key_share under its reserved (draft) type code in a ClientHello -/
theorem keyShareReservedClient_roundTrip {entries : List KeyShare}
    (hw : Ext2BodyWf .keyShareClient (.keyShares entries))
    (hsz : ext2BodySize .keyShareClient (.keyShares entries) < 256 ^ 2) :
    ItemRT (parseExt Gen.extVariantsClient) composeExt
      ⟨"TlsExtensionKeyShareReservedClient", 40, .ext2 (.keyShares entries)⟩ :=
  ext2_class_roundTrip (by decide) (by decide +kernel)
    (by rw [client_resolve]; decide +kernel) (by decide) rfl hw hsz

/-- token_binding in a ClientHello -/
theorem tokenBindingClient_roundTrip {major minor : Nat} {params : List Coded}
    (hw : Ext2BodyWf .tokenBinding (.tokenBinding major minor params))
    (hsz : ext2BodySize .tokenBinding (.tokenBinding major minor params) < 256 ^ 2) :
    ItemRT (parseExt Gen.extVariantsClient) composeExt
      ⟨"TlsExtensionTokenBinding", 24, .ext2 (.tokenBinding major minor params)⟩ :=
  ext2_class_roundTrip (by decide) (by decide +kernel)
    (by rw [client_resolve]; decide +kernel) (by decide) rfl hw hsz

/-- key_share in a ServerHello: a server share is at least five bytes, so the HelloRetryRequest form
(tried first) declines it and the walk reaches `TlsExtensionKeyShareServer` -/
theorem keyShareServer_roundTrip {g : Nat} {key : Bytes} (hw : Ext2BodyWf .keyShareServer (.keyShare g key))
    (hsz : ext2BodySize .keyShareServer (.keyShare g key) < 256 ^ 2) :
    ItemRT (parseExt Gen.extVariantsServer) composeExt ⟨"TlsExtensionKeyShareServer", 51, .ext2 (.keyShare g key)⟩ := by
  refine ext2_class_roundTrip (by decide) (by decide +kernel) ?_ (by decide) rfl hw hsz
  have h3 : resolve Gen.extVariantsServer 51 3 = some "TlsExtensionKeyShareServer" := by decide +kernel
  rw [← h3]
  apply resolve_two
  simp only [ext2BodySize]
  constructor <;> intro h <;> omega

/-- key_share in a HelloRetryRequest: exactly two bytes, taken by `TlsExtensionKeyShareClientHelloRetry`
BEFORE the ServerHello form is tried -/
theorem keyShareHelloRetry_roundTrip {g : Nat} (hw : Ext2BodyWf .keyShareHelloRetry (.group g)) :
    ItemRT (parseExt Gen.extVariantsServer) composeExt ⟨"TlsExtensionKeyShareClientHelloRetry", 51, .ext2 (.group g)⟩ :=
  ext2_class_roundTrip (by decide) (by decide +kernel)
    (by show resolve Gen.extVariantsServer 51 2 = _; decide +kernel) (by decide) rfl hw
    (by show 2 < 256 ^ 2; decide)

theorem server_resolve_not51 {t len : Nat} (h : len ≠ 2) :
    resolve Gen.extVariantsServer t len = resolve Gen.extVariantsServer t 3 :=
  resolve_two (by constructor <;> intro h' <;> first | exact absurd h' h | cases h')

/-- an extension type of the server list other than key_share resolves the same for every length -/
theorem server_resolve (t len : Nat) (ht : t ≠ 51) :
    resolve Gen.extVariantsServer t len = resolve Gen.extVariantsServer t 3 := by
  by_cases h : len = 2
  · subst h
    have key : ∀ (vs : List (String × Nat)), vs.all (fun p => !clsDeclines p.1 || p.2 == 51) = true →
        resolve vs t 2 = resolve vs t 3 := by
      intro vs hvs
      induction vs with
      | nil => rfl
      | cons v more ih =>
        obtain ⟨c, t0⟩ := v
        simp only [List.all_cons, Bool.and_eq_true] at hvs
        unfold resolve
        split
        · rfl
        · split
          · exact ih hvs.2
          · next hne =>
            have ht0 : t0 = t := by simpa using hne
            split
            · next kind hkk =>
              have hc : clsDeclines c = false := by
                have := hvs.1
                simp only [Bool.or_eq_true, Bool.not_eq_true', beq_iff_eq] at this
                rcases this with h1 | h1
                · exact h1
                · exact absurd (ht0 ▸ h1) ht
              have hd : ∀ l, kind.declines l = false := by
                intro l
                cases hx : kind.declines l with
                | false => rfl
                | true =>
                  obtain ⟨hke, _⟩ := declines_iff.mp hx
                  subst hke
                  simp [clsDeclines, hkk] at hc
              simp only [hd]
              rfl
            · rfl
    exact key _ (by decide +kernel)
  · exact server_resolve_not51 h

/-- ALPN in a ServerHello -/
theorem alpnServer_roundTrip {items : List Nat} (hw : Ext2BodyWf .protocolNames (.names items))
    (hsz : ext2BodySize .protocolNames (.names items) < 256 ^ 2) :
    ItemRT (parseExt Gen.extVariantsServer) composeExt
      ⟨"TlsExtensionApplicationLayerProtocolNegotiation", 16, .ext2 (.names items)⟩ :=
  ext2_class_roundTrip (by decide) (by decide +kernel)
    (by rw [server_resolve _ _ (by decide)]; decide +kernel) (by decide) rfl hw hsz

/-- NPN in a ServerHello -/
theorem npnServer_roundTrip {items : List Nat} (hw : Ext2BodyWf .nextProtocolNames (.names items))
    (hsz : ext2BodySize .nextProtocolNames (.names items) < 256 ^ 2) :
    ItemRT (parseExt Gen.extVariantsServer) composeExt
      ⟨"TlsExtensionNextProtocolNegotiationServer", 13172, .ext2 (.names items)⟩ :=
  ext2_class_roundTrip (by decide) (by decide +kernel)
    (by rw [server_resolve _ _ (by decide)]; decide +kernel) (by decide) rfl hw hsz

/-- signed_certificate_timestamp in a ServerHello -/
theorem sctServer_roundTrip {items : List Sct} (hw : Ext2BodyWf .sctList (.scts items))
    (hsz : ext2BodySize .sctList (.scts items) < 256 ^ 2) :
    ItemRT (parseExt Gen.extVariantsServer) composeExt
      ⟨"TlsExtensionSignedCertificateTimestampServer", 18, .ext2 (.scts items)⟩ :=
  ext2_class_roundTrip (by decide) (by decide +kernel)
    (by rw [server_resolve _ _ (by decide)]; decide +kernel) (by decide) rfl hw hsz

/-- `TlsHandshakeCertificateRequest`, with and without `supported_signature_algorithms` -/
theorem tlsCertificateRequest : RoundTrip certificateRequestCodec CertificateRequestWf := certificateRequest_roundTrip

/-! ### non-vacuity, on the regenerated tables -/

example : Ext2BodyWf .protocolNames (.names [3, 10]) := by decide +kernel
example : composeExt ⟨"TlsExtensionApplicationLayerProtocolNegotiation", 16, .ext2 (.names [3, 10])⟩ =
    .ok [0, 16, 0, 14, 0, 12, 2, 0x68, 0x32, 8, 0x68, 0x74, 0x74, 0x70, 0x2f, 0x31, 0x2e, 0x31] := by decide +kernel
example : parseExt Gen.extVariantsClient
    ([0, 16, 0, 14, 0, 12, 2, 0x68, 0x32, 8, 0x68, 0x74, 0x74, 0x70, 0x2f, 0x31, 0x2e, 0x31] ++ [0, 23, 0, 0]) =
    .ok (⟨"TlsExtensionApplicationLayerProtocolNegotiation", 16, .ext2 (.names [3, 10])⟩, 18) := by decide +kernel
-- key_share, server side: two bytes → the HelloRetryRequest class; a share → the ServerHello class
example : parseExt Gen.extVariantsServer [0, 51, 0, 2, 0, 29] =
    .ok (⟨"TlsExtensionKeyShareClientHelloRetry", 51, .ext2 (.group 28)⟩, 6) := by decide +kernel
example : parseExt Gen.extVariantsServer [0, 51, 0, 6, 0, 29, 0, 2, 0xaa, 0xbb] =
    .ok (⟨"TlsExtensionKeyShareServer", 51, .ext2 (.keyShare 28 [0xaa, 0xbb])⟩, 10) := by decide +kernel
example : Ext2BodyWf .keyShareServer (.keyShare 28 [0xaa, 0xbb]) := by decide +kernel
example : CertificateRequestWf ⟨[1, 64], some [.known 0], [[0x30, 0]]⟩ := by
  refine ⟨by decide +kernel, by decide +kernel, by decide +kernel, ?_, by decide +kernel, by decide +kernel,
    by decide +kernel⟩
  intro a ha
  cases ha
  decide +kernel

end Cp.C01
