import CpModel.Dns.Msg
import CpSpec.Dns
import CpProofs.Dns
import CpProofs.DnsSpec
/-
  C08 — DNSSEC and mail-related record data follow the RFCs, key tag included.

  Three artefacts: `Cp.Spec.Dns` (RFC 1035 §3.1/§3.3, RFC 3110 §2, RFC 4034 §2.1/§3.1/§5.1/App. B,
  RFC 6605 §4, RFC 8080 §3), `Cp.Dns` (the model of `cryptoparser/dnsrec/record.py`, tied to the code by
  the correspondence check), and the theorems below: what the model composes IS the specification's
  encoding, the model's parser reads the specification's encoding back to the same value consuming all
  of it, the specification's decoder inverts its encoder, and the key tag of a record is the RFC 4034
  Appendix B value of its RDATA.

  Where the code violates the full statement, the full statement stays as a `def …_full : Prop`, its
  negation is proved with a concrete witness, and the part that does hold is a `…_partial` theorem.
  Three such statements remain, each pinned by a test of the repository: the key tag over RDATA of odd
  length (`test_asdict`), the key tag of a received record whose RSA modulus has leading zero octets
  or whose Flags field has reserved bits (`test_key_tag` parses such a modulus; the record type keeps
  integers and known flags only), and the 57 octets of an Ed448 key (`test_parse_eddsa_key`).
  Statements that were false of the code before its repair (`fix:` commits of the DNS record classes)
  are theorems now; their former counterexamples are kept as regression `example`s.
-/
namespace Cp.C08
open Cp Cp.Dns

/-! ### key tag (RFC 4034 Appendix B) -/

/-- The key tag of a record equals the RFC 4034 Appendix B value of the record's composed RDATA —
for every record whose algorithm is not RSA/MD5.  FALSE of the code (odd-length RDATA; the
repository's `test_asdict` asserts a tag computed this way, 1540 for 391 octets of RDATA). -/
def keyTag_conforms_full : Prop :=
  ∀ (k : Dnskey) (rd : Bytes), k.algCode ≠ algRsaMd5 → composeDnskey k = .ok rd →
    keyTag k = .ok (Spec.Dns.keyTag rd)

/-- an RSA/SHA-256 zone key with exponent 3 and the three-octet modulus 0x010203: nine octets of RDATA -/
def oddWitness : Dnskey := ⟨[256], 7, .rsa 3 0x010203, 3⟩

theorem keyTag_conforms_full_fails : ¬ keyTag_conforms_full := fun h =>
  absurd (h oddWitness [1, 0, 3, 8, 1, 3, 1, 2, 3] (by decide) (by decide)) (by decide)

/-- For RDATA of even length the reported key tag is the RFC 4034 Appendix B value. -/
theorem keyTag_conforms_even_partial (k : Dnskey) (rd : Bytes) (h1 : k.algCode ≠ algRsaMd5)
    (hc : composeDnskey k = .ok rd) (hl : rd.length % 2 = 0) :
    keyTag k = .ok (Spec.Dns.keyTag rd) := by
  rw [keyTag_of_compose h1 hc, keyTagSum_even rd 0 0 rfl hl, spec_keyTag_eq]

/-- What is reported for RDATA of odd length `b ++ [x]`: the last octet enters the sum as it is,
where Appendix B shifts it left by eight — the two values are the folds of sums that differ by
`255 * x`. -/
theorem keyTag_odd_deviation (k : Dnskey) (b : Bytes) (x : UInt8) (h1 : k.algCode ≠ algRsaMd5)
    (hc : composeDnskey k = .ok (b ++ [x])) (hl : b.length % 2 = 0) :
    keyTag k = .ok (foldTag (Spec.Dns.keyTagAcc 0 b 0 + x.toNat)) ∧
    Spec.Dns.keyTag (b ++ [x]) = foldTag (Spec.Dns.keyTagAcc 0 b 0 + x.toNat <<< 8) := by
  obtain ⟨h2, h3⟩ := keyTagSum_odd b x 0 hl
  exact ⟨by rw [keyTag_of_compose h1 hc, h2], by rw [spec_keyTag_eq, h3]⟩

/-- RFC 4034 Appendix B.1: for algorithm 1 the reported tag is "the most significant 16 of the least
significant 24 bits of the modulus", the modulus being the octets RFC 3110 puts at the end of the
public key field (recovered from the composed RDATA by the specification's own decoders). -/
theorem keyTag_rsamd5 (k : Dnskey) (e m : Nat) (hk : DnskeyOk k) (h1 : k.algCode = algRsaMd5) (hkey : k.key = .rsa e m) :
    ∃ rd eo mo, composeDnskey k = .ok rd ∧
      (Spec.Dns.decodeDnskey rd).bind (fun r => Spec.Dns.decodeRsaOctets r.publicKey) = some (eo, mo) ∧
      Spec.fromBytesBE mo = m ∧ keyTag k = .ok (Spec.Dns.keyTagAlg1 mo) := by
  refine ⟨_, Spec.minBytesBE e, Spec.minBytesBE m, composeDnskey_eq_spec hk, ?_, natOfBE_minBytesBE m,
    keyTag_rsamd5_eq h1 hkey⟩
  obtain ⟨sel, hsub, hfl⟩ := hk.flags
  have hflags : k.flags.sum < 256 ^ 2 := by rw [hfl]; exact (dnskey_flags sel hsub []).1
  have hcode : k.algCode < 256 := by rw [h1]; decide
  have hkeyok := hk.key
  rw [hkey] at hkeyok
  rw [Spec.Dns.decodeDnskey_encode hflags (by show k.protocol < 256; rw [hk.protocol]; decide) hcode]
  simp only [Option.bind, Dnskey.toSpec, hkey, keySpecBytes]
  exact Spec.Dns.decodeRsa_encode e m hkeyok.2.2.1

/-- The key tag of a RECEIVED record is the Appendix B value of the RDATA it was parsed from.  FALSE
of the code even for RDATA of even length: the tag is computed over the re-composition, which drops
reserved flag bits (RFC 4034 §2.1.1: to be ignored on receipt, so they cannot be refused) and the
leading zero octets of an RSA exponent or modulus (the repository's `test_key_tag` parses a modulus
with 124 of them).  Octets after a fixed-size key are no longer dropped: they are `TooMuchData`. -/
def keyTag_received_full : Prop :=
  ∀ (rd : Bytes) (k : Dnskey) (n : Nat), parseDnskey rd = .ok (k, n) → k.algCode ≠ algRsaMd5 →
    rd.length % 2 = 0 → keyTag k = .ok (Spec.Dns.keyTag rd)

/-- an Ed25519 key (36 octets of RDATA) whose Flags field has the reserved bit 0x0200 set -/
def reservedFlagWitness : Bytes := [2, 0, 3, 15] ++ (List.range 32).map UInt8.ofNat

theorem keyTag_received_full_fails : ¬ keyTag_received_full := fun h =>
  absurd (h reservedFlagWitness ⟨[], 12, .eddsa 0 ((List.range 32).map UInt8.ofNat), 3⟩ 36 (by decide) (by decide)
    (by decide)) (by decide)

/-- the other way to lose octets: an RSA/SHA-256 key whose modulus is written with a leading zero
octet (RFC 3110 §2 prohibits it) is accepted as the key with the three-octet modulus -/
example : parseDnskey [1, 0, 3, 8, 1, 3, 0, 1, 2, 3] = .ok (⟨[256], 7, .rsa 3 0x010203, 3⟩, 10) ∧
    keyTag ⟨[256], 7, .rsa 3 0x010203, 3⟩ ≠ .ok (Spec.Dns.keyTag [1, 0, 3, 8, 1, 3, 0, 1, 2, 3]) := by decide

/-- For conformant RDATA of even length that the library reproduces (`DnskeyOk`), the key tag of the
parsed record is the Appendix B value of the received RDATA. -/
theorem keyTag_received_even_partial (k : Dnskey) (hk : DnskeyOk k) (h1 : k.algCode ≠ algRsaMd5)
    (hl : (Spec.Dns.encodeDnskey k.toSpec).length % 2 = 0) :
    ∃ k', parseDnskey (Spec.Dns.encodeDnskey k.toSpec) = .ok (k', (Spec.Dns.encodeDnskey k.toSpec).length) ∧
      keyTag k' = .ok (Spec.Dns.keyTag (Spec.Dns.encodeDnskey k.toSpec)) :=
  ⟨k, parseDnskey_spec hk, keyTag_conforms_even_partial k _ h1 (composeDnskey_eq_spec hk) hl⟩

/-- Whenever the parsed record composes back to the RDATA it was read from (no reserved flag bits, no
leading zero octets, the one-octet exponent length wherever it applies) the key tag is that of the
received RDATA — for RDATA of even length. -/
theorem keyTag_received_canonical_partial (rd : Bytes) (k : Dnskey) (n : Nat) (_hp : parseDnskey rd = .ok (k, n))
    (hc : composeDnskey k = .ok rd) (h1 : k.algCode ≠ algRsaMd5) (hl : rd.length % 2 = 0) :
    keyTag k = .ok (Spec.Dns.keyTag rd) := keyTag_conforms_even_partial k rd h1 hc hl

/-- `key_tag` of a parsed record never raises: every accepted record composes (it used to raise
whenever `compose()` did — no modulus octets, a modulus equal to a power of 256, a DSA prime with a
leading zero octet). -/
theorem keyTag_total_full (rd : Bytes) (k : Dnskey) (n : Nat) (hp : parseDnskey rd = .ok (k, n)) :
    ∃ t, keyTag k = .ok t := by
  obtain ⟨hk, _⟩ := parseDnskey_ok_inv hp
  by_cases h1 : k.algCode = algRsaMd5
  · have hkey := hk.key
    rw [h1] at hkey
    cases hkk : k.key with
    | rsa e m => exact ⟨_, keyTag_rsamd5_eq h1 hkk⟩
    | dsa p g q y => rw [hkk] at hkey; exact absurd hkey.1 (by decide)
    | ec g x y => rw [hkk] at hkey; exact absurd hkey.1 (by simp [keyKindOfCode, algRsaMd5])
    | eddsa c d => rw [hkk] at hkey; exact absurd hkey.1 (by simp [keyKindOfCode, algRsaMd5])
  · exact ⟨_, keyTag_of_compose h1 (composeDnskey_eq_spec hk)⟩

/-! ### DNSKEY RDATA (RFC 4034 §2.1) and public key formats -/

/-- A DNSKEY value the library reproduces composes to exactly the RFC 4034 §2.1 RDATA, that RDATA
parses back to the value with every octet consumed, and the specification's decoder reads the
same fields from it. -/
theorem dnskey_conforms (k : Dnskey) (hk : DnskeyOk k) :
    composeDnskey k = .ok (Spec.Dns.encodeDnskey k.toSpec) ∧
    parseDnskey (Spec.Dns.encodeDnskey k.toSpec) = .ok (k, (Spec.Dns.encodeDnskey k.toSpec).length) ∧
    Spec.Dns.decodeDnskey (Spec.Dns.encodeDnskey k.toSpec) = some k.toSpec := by
  refine ⟨composeDnskey_eq_spec hk, parseDnskey_spec hk, ?_⟩
  obtain ⟨sel, hsub, hfl⟩ := hk.flags
  have hflags : k.flags.sum < 256 ^ 2 := by rw [hfl]; exact (dnskey_flags sel hsub []).1
  have hget : Gen.DnsSecAlgorithm.codes[k.algorithm]? = some k.algCode := by
    simp [Dnskey.algCode, List.getD, List.getElem?_eq_getElem hk.alg]
  have hcode : k.algCode < 256 := alg_tableOk.fits _ (List.mem_of_getElem? hget)
  exact Spec.Dns.decodeDnskey_encode hflags (by show k.protocol < 256; rw [hk.protocol]; decide) hcode

/-- The Flags field is the sum (= OR) of the RFC's flag values: Zone Key (bit 7), Secure Entry Point
(bit 15), REVOKE (bit 8, RFC 5011) — the members of `DnsSecFlag` are exactly those. -/
theorem dnskey_flag_values :
    Gen.DnsSecFlag.codes = [Spec.Dns.flagSecureEntryPoint, Spec.Dns.flagRevoke, Spec.Dns.flagZoneKey] := by decide

/-- Only the documented parse errors escape `DnsRecordDnskey` (C02): whatever the input, the only
"crash" the model can report is its own boundary marker (EC coordinates in the float zone of
asn1crypto's point-size computation).  Algorithms without a signature key type (0 and 2), a zero
coordinate and a wider coordinate equal to a power of 256 are `InvalidValue`. -/
theorem dnskey_noCrash_full (bs : Bytes) (k : String) (h : parseDnskey bs = .error (.crash k)) :
    k = "UNMODELLED" := parseDnskey_crash h

/-- Whatever `DnsRecordDnskey._parse` accepts lies in the domain the library reproduces: flags that
are members of `DnsSecFlag`, protocol 3, a key of the type the algorithm calls for — RSA with a
non-zero exponent and modulus, DSA with a prime that fills the octets announced by T, EC coordinates
asn1crypto can build a point from, EdDSA keys of the fixed size. -/
theorem dnskey_parse_wf_full (bs : Bytes) (k : Dnskey) (n : Nat) (h : parseDnskey bs = .ok (k, n)) :
    DnskeyOk k := (parseDnskey_ok_inv h).1

/-- C05 for `DnsRecordDnskey`: every accepted record was read from ALL of its RDATA, composes — to
the RFC 4034 §2.1 encoding of its fields — and that composition parses back to the same record with
every octet consumed.  (It used to be false: no modulus octets, a zero-length exponent, a modulus
equal to a power of 256 and a DSA prime with a leading zero octet were accepted and not composable.) -/
theorem dnskey_recomposable_full (bs : Bytes) (k : Dnskey) (n : Nat) (h : parseDnskey bs = .ok (k, n)) :
    n = bs.length ∧ composeDnskey k = .ok (Spec.Dns.encodeDnskey k.toSpec) ∧
    parseDnskey (Spec.Dns.encodeDnskey k.toSpec) = .ok (k, (Spec.Dns.encodeDnskey k.toSpec).length) :=
  ⟨(parseDnskey_ok_inv h).2, composeDnskey_eq_spec (parseDnskey_ok_inv h).1, parseDnskey_spec (parseDnskey_ok_inv h).1⟩

/-- RFC 3110 §2: an RSA key composes to the exponent length (one octet for 1..255, otherwise zero and
two octets), the exponent and the modulus, both as minimal big-endian octets — whatever the modulus,
powers of 256 included; it parses back, and the specification's decoder recovers exactly those
octets. -/
theorem rsa_key_conforms (e m : Nat) (h : RsaOk e m) :
    composeKeyRsa e m = .ok (Spec.Dns.encodeRsa e m) ∧
    parseKeyRsa (Spec.Dns.encodeRsa e m) = .ok (.rsa e m, (Spec.Dns.encodeRsa e m).length) ∧
    Spec.Dns.decodeRsaOctets (Spec.Dns.encodeRsa e m) = some (Spec.minBytesBE e, Spec.minBytesBE m) :=
  ⟨composeKeyRsa_eq_spec h, parseKeyRsa_spec h, Spec.Dns.decodeRsa_encode e m h.2.1⟩

/-- Both exponent length forms are read, whatever the exponent and modulus octets are as long as
neither integer is zero (the parser does not insist on the canonical form); every octet of the key
field is consumed. -/
theorem rsa_key_forms (n : Nat) (eb mb : Bytes) (hn : eb.length = n) (he : Spec.fromBytesBE eb ≠ 0)
    (hm : Spec.fromBytesBE mb ≠ 0) :
    (1 ≤ n → n ≤ 255 →
      parseKeyRsa (Spec.toBytesBE 1 n ++ (eb ++ mb)) = .ok (.rsa (Spec.fromBytesBE eb) (Spec.fromBytesBE mb), 1 + n + mb.length)) ∧
    (n < 256 ^ 2 →
      parseKeyRsa ([0] ++ (Spec.toBytesBE 2 n ++ (eb ++ mb))) = .ok (.rsa (Spec.fromBytesBE eb) (Spec.fromBytesBE mb), 3 + n + mb.length)) :=
  ⟨fun h1 h2 => parseKeyRsa_short h1 h2 eb mb hn he hm, fun h => parseKeyRsa_long h eb mb hn he hm⟩

/-- An RSA key that is accepted has a non-zero exponent (of at most 65535 octets) and a non-zero
modulus, and was read from all of the key field: an exponent or modulus of no octets, or of zero
octets only, is an `InvalidValue`. -/
theorem rsa_key_nonzero_full (kb : Bytes) (k : Key) (n : Nat) (h : parseKeyRsa kb = .ok (k, n)) :
    ∃ e m, k = .rsa e m ∧ RsaOk e m ∧ n = kb.length := parseKeyRsa_ok_inv h

/-- RFC 2536 §2: a DSA key whose prime has exactly `64 + 8 * T` octets composes to
`T | Q | P | G | Y` and parses back with every octet consumed; and whatever the DSA key parser
accepts is such a key. -/
theorem dsa_key_conforms (p g q y : Nat) (h : DsaOk p g q y) :
    composeKeyDsa p g q y = .ok (Spec.Dns.encodeDsa (dsaT p) q p g y) ∧
    parseKeyDsa (Spec.Dns.encodeDsa (dsaT p) q p g y) = .ok (.dsa p g q y, (Spec.Dns.encodeDsa (dsaT p) q p g y).length) :=
  ⟨composeKeyDsa_eq_spec h, parseKeyDsa_spec h⟩

theorem dsa_key_wf_full (kb : Bytes) (k : Key) (n : Nat) (h : parseKeyDsa kb = .ok (k, n)) :
    ∃ p g q y, k = .dsa p g q y ∧ DsaOk p g q y ∧ n = 1 + 20 + 3 * byteLen p := parseKeyDsa_ok_inv h

/-- RFC 6605 §4: every pair of coordinates that fit the curve's width composes to `x | y`, each in
exactly that width — leading zero octets included. -/
theorem ec_key_full (g x y : Nat) (hx : x < 256 ^ groupBytes g) (hy : y < 256 ^ groupBytes g) :
    composeKeyEc g x y = .ok (Spec.Dns.encodeEcdsa (groupBytes g) x y) := composeKeyEc_eq_spec hx hy

/-- … and for coordinates the library can build a key object from (`EcOk`: see
`ec_key_constructible` for what that excludes) the RDATA form parses back, whatever follows, and the
specification's decoder reads the same coordinates. -/
theorem ec_key_conforms (g x y : Nat) (h : EcOk (groupBytes g) x y) (s : Bytes) :
    composeKeyEc g x y = .ok (Spec.Dns.encodeEcdsa (groupBytes g) x y) ∧
    parseKeyEc g (Spec.Dns.encodeEcdsa (groupBytes g) x y ++ s) = .ok (.ec g x y, 2 * groupBytes g) ∧
    Spec.Dns.decodeEcdsa (groupBytes g) (Spec.Dns.encodeEcdsa (groupBytes g) x y) = some (x, y) :=
  ⟨composeKeyEc_eq_spec h.1 h.2.1, parseKeyEc_spec h s, Spec.Dns.decodeEcdsa_encode h.1 h.2.1⟩

/-- Non-zero coordinates that are not powers of 256 (away from the float zone of the point-size
computation) are accepted, with any number of leading zero octets.  A zero coordinate or a wider
coordinate equal to a power of 256 makes asn1crypto raise; `_parse_public_key_ecdsa` reports both as
`InvalidValue` (`dnskey_noCrash_full`). -/
theorem ec_key_constructible (n x y : Nat) (hx : x < 256 ^ n) (hy : y < 256 ^ n) (hx1 : 1 ≤ x) (hy1 : 1 ≤ y)
    (hrx : floatRisk x = false) (hry : floatRisk y = false) (hpx : ∀ k, x ≠ 256 ^ k) (hpy : ∀ k, y ≠ 256 ^ k) :
    EcOk n x y := ⟨hx, hy, ecWidth_of_not_pow hx1 hy1 hrx hry hpx hpy⟩

/-- "No trailing key bytes dropped": what `parse_key` accepts was read from ALL of the public key
field, for every algorithm (octets after a fixed-size key are `TooMuchData`; they used to be
ignored). -/
theorem parseKey_consumes_all_full (code : Nat) (kb : Bytes) (k : Key) (h : parseKey code kb = .ok k) :
    parseKeyN code kb = .ok (k, kb.length) := (parseKey_ok_inv h).2

/-- the former counterexample — 57 octets offered as an Ed448 key — is refused now; the key parser
still reads 56 of them (see `eddsa_key_octets_full_fails`) -/
example : parseKey 16 ((List.range 57).map UInt8.ofNat) = .error (.tooMuch 1) ∧
    parseKeyN 16 ((List.range 57).map UInt8.ofNat) = .ok (.eddsa 1 ((List.range 56).map UInt8.ofNat), 56) := by decide
example : parseDnskey ([1, 1, 3, 15] ++ (List.range 32).map UInt8.ofNat ++ [0xaa, 0xbb]) = .error (.tooMuch 2) := by decide

/-- The key octets per EdDSA algorithm are those of RFC 8080 §3.  FALSE of the code for Ed448: 56
octets are read (the repository's `test_parse_eddsa_key` parses and composes a 56-octet vector with
`parse_exact_size`), so a conformant 57-octet key is refused (`TooMuchData(1)`). -/
def eddsa_key_octets_full : Prop :=
  ∀ code c n, keyKindOfCode code = some (.eddsa c) → Spec.Dns.eddsaKeyOctets code = some n → curveBytes c = n

theorem eddsa_key_octets_full_fails : ¬ eddsa_key_octets_full := fun h =>
  absurd (h 16 1 57 rfl rfl) (by decide)

theorem eddsa_key_octets_ed25519_partial : keyKindOfCode 15 = some (.eddsa 0) ∧
    Spec.Dns.eddsaKeyOctets 15 = some (curveBytes 0) := ⟨rfl, rfl⟩

/-- Fixed-size key types: exactly the fixed size is read by the key parser itself. -/
theorem parseKey_fixed_size (kb : Bytes) (k : Key) (n : Nat) :
    (∀ g, parseKeyEc g kb = .ok (k, n) → n = 2 * groupBytes g) ∧
    (∀ c, parseKeyEddsa c kb = .ok (k, n) → n = curveBytes c ∧ k = .eddsa c (kb.take (curveBytes c))) :=
  ⟨fun _ h => parseKeyEc_consumed h, fun _ h => ⟨(parseKeyEddsa_consumed h).1, (parseKeyEddsa_consumed h).2.1⟩⟩

/-! ### uncompressed names (RFC 1035 §3.1) -/

/-- A sequence of labels (1..63 ASCII octets each, 255 octets in all with the length octets) composes
to length-prefixed labels closed by the root's zero octet, parses back whatever follows, and is what
the specification's decoder reads. -/
theorem name_conforms (labels : List Bytes) (h : NameOk labels) (s : Bytes) :
    composeName labels = .ok (Spec.Dns.encodeName labels) ∧
    parseName (Spec.Dns.encodeName labels ++ s) = .ok (labels, (Spec.Dns.encodeName labels).length) ∧
    Spec.Dns.decodeName (Spec.Dns.encodeName labels ++ s) = some (labels, s) :=
  ⟨composeName_ok h, parseName_encode h s, Spec.Dns.decodeName_encode (nameWf_of_labelOk h.1 h.2) s⟩

/-- the encoded length is one octet per label, the labels, and the root octet -/
theorem name_length (labels : List Bytes) :
    (Spec.Dns.encodeName labels).length = (labels.map (fun l => 1 + l.length)).sum + 1 := by
  induction labels with
  | nil => rfl
  | cons l ls ih =>
    rw [Spec.Dns.encodeName_cons, List.length_append, ih, Spec.Dns.encodeLabel, List.length_append,
      Spec.Dns.toBE_length, List.map_cons, List.sum_cons]
    omega

/-- RFC 1035 §2.3.4: what is accepted as a name has labels of 1..63 octets and at most 255 octets in
all — and is exactly what the specification's decoder reads from the same octets.  (It used to be
false: neither limit was enforced by the parser.) -/
theorem name_limits_full (bs : Bytes) (labels : List Bytes) (n : Nat) (h : parseName bs = .ok (labels, n)) :
    (∀ l ∈ labels, 1 ≤ l.length ∧ l.length ≤ 63) ∧ n ≤ 255 ∧
    Spec.Dns.decodeName bs = some (labels, bs.drop n) := by
  obtain ⟨_, h2, h3, h4⟩ := parseName_ok_inv h
  refine ⟨fun l hl => ⟨(h4.1 l hl).1, (h4.1 l hl).2.1⟩, h2, ?_⟩
  have := Spec.Dns.decodeName_encode (nameWf_of_labelOk h4.1 h4.2) (bs.drop n)
  rwa [← h3, List.take_append_drop] at this

/-- … and what is composed as a name keeps the same limits. -/
theorem name_compose_limits_full (labels : List Bytes) (b : Bytes) (h : composeName labels = .ok b) :
    b = Spec.Dns.encodeName labels ∧ b.length ≤ 255 ∧ ∀ l ∈ labels, l.length ≤ 63 := composeName_ok_inv h

/-- C05 for `DnsNameUncompressed`: a name that is accepted composes back to exactly the octets that
were read (it used to raise `InvalidValue` for labels the `idna` codec refuses to encode). -/
theorem name_recomposable_full (bs : Bytes) (labels : List Bytes) (n : Nat) (h : parseName bs = .ok (labels, n)) :
    n ≤ bs.length ∧ composeName labels = .ok (bs.take n) := name_canonical bs labels n h

/-- the former counterexamples are refused: a 64-octet "label" (length octet 0x40, which RFC 1035
§4.1.4 reserves), a label holding dots, and a name of 256 octets -/
example : parseName ([64] ++ List.replicate 64 0x61 ++ [0]) = .error .invalidValue := by decide
example : parseName [4, 0x61, 0x2e, 0x2e, 0x62, 0] = .error .invalidValue := by decide
example : parseName [3, 0x61, 0x2e, 0x62, 0] = .error .invalidValue ∧
    composeName [[0x61, 0x2e, 0x62]] = .error .invalidValue := by decide
example : parseName ([63] ++ List.replicate 63 0x61 ++ [0]) = .ok ([List.replicate 63 0x61], 65) := by decide

/-! ### MX (RFC 1035 §3.3.9), DS (RFC 4034 §5.1) -/

theorem mx_conforms (m : Mx) (h : MxOk m) (s : Bytes) :
    composeMx m = .ok (Spec.Dns.encodeMx m.toSpec) ∧
    parseMx (Spec.Dns.encodeMx m.toSpec ++ s) = .ok (m, (Spec.Dns.encodeMx m.toSpec).length) ∧
    Spec.Dns.decodeMx (Spec.Dns.encodeMx m.toSpec) = some m.toSpec := by
  obtain ⟨b, hb, hp⟩ := mx_roundTrip m h
  have hc := composeMx_eq_spec h
  have : b = Spec.Dns.encodeMx m.toSpec := by
    simp only [composeMx] at hc
    rw [hb] at hc
    exact Except.ok.inj hc
  subst this
  exact ⟨hc, hp s, Spec.Dns.decodeMx_encode h.1 (nameWf_of_labelOk h.2.1 h.2.2)⟩

/-- C05 for `DnsRecordMx` / `DnsRecordDs`: what is accepted composes back to exactly the octets that
were read (for MX it used to raise `InvalidValue` on exchange names the composer refuses). -/
theorem mx_recomposable_full (bs : Bytes) (m : Mx) (n : Nat) (h : parseMx bs = .ok (m, n)) :
    n ≤ bs.length ∧ composeMx m = .ok (bs.take n) := mx_canonical bs m n h

theorem ds_recomposable_full (bs : Bytes) (d : Ds) (n : Nat) (h : parseDs bs = .ok (d, n)) :
    n = bs.length ∧ composeDs d = .ok bs := ds_canonicalExact bs d n h

theorem ds_conforms (d : Ds) (h : DsOk d) :
    composeDs d = .ok (Spec.Dns.encodeDs d.toSpec) ∧
    parseDs (Spec.Dns.encodeDs d.toSpec) = .ok (d, (Spec.Dns.encodeDs d.toSpec).length) ∧
    Spec.Dns.decodeDs (Spec.Dns.encodeDs d.toSpec) = some d.toSpec := by
  obtain ⟨b, hb, hp⟩ := ds_roundTripExact d h
  have hc := composeDs_eq_spec h
  have : b = Spec.Dns.encodeDs d.toSpec := by
    simp only [composeDs] at hc
    rw [hb] at hc
    exact Except.ok.inj hc
  subst this
  have ha : Gen.DnsSecAlgorithm.codes.getD d.algorithm 0 < 256 := by
    have hget : Gen.DnsSecAlgorithm.codes[d.algorithm]? = some (Gen.DnsSecAlgorithm.codes.getD d.algorithm 0) := by
      simp [List.getD, List.getElem?_eq_getElem h.2.1]
    exact alg_tableOk.fits _ (List.mem_of_getElem? hget)
  have ht : Gen.DnsSecDigestType.codes.getD d.digestType 0 < 256 := by
    have hget : Gen.DnsSecDigestType.codes[d.digestType]? = some (Gen.DnsSecDigestType.codes.getD d.digestType 0) := by
      simp [List.getD, List.getElem?_eq_getElem h.2.2]
    exact digestType_tableOk.fits _ (List.mem_of_getElem? hget)
  exact ⟨hc, hp, Spec.Dns.decodeDs_encode h.1 ha ht⟩

/-! ### RRSIG (RFC 4034 §3.1) -/

/-- Composition is the RFC layout for every field value that fits its width — the instants over the
full 32-bit range. -/
theorem rrsig_compose_conforms (r : Rrsig) (h : RrsigComposable r) :
    composeRrsig r = .ok (Spec.Dns.encodeRrsig r.toSpec) := composeRrsig_eq_spec h

/-- Every RRSIG value whose fields fit their widths (instants: any 32-bit value, `ff ff ff ff`
included; the signer's name within the limits of RFC 1035) composes to the RFC layout, is read back
from it with every octet consumed, and is read identically by the specification's decoder — whatever
the size of the signature.  (It used to be false: RDATA of 19 to 23 octets was rejected,
`HEADER_SIZE` being 24 where the fixed part has 18 octets.) -/
theorem rrsig_roundtrip_full (r : Rrsig) (h : RrsigComposable r) :
    composeRrsig r = .ok (Spec.Dns.encodeRrsig r.toSpec) ∧
    parseRrsig (Spec.Dns.encodeRrsig r.toSpec) = .ok (r, (Spec.Dns.encodeRrsig r.toSpec).length) ∧
    Spec.Dns.decodeRrsig (Spec.Dns.encodeRrsig r.toSpec) = some r.toSpec := by
  obtain ⟨b, hb, hp⟩ := rrsig_roundTripExact r h
  have hc := composeRrsig_eq_spec h
  have : b = Spec.Dns.encodeRrsig r.toSpec := by
    simp only [composeRrsig] at hc
    rw [hb] at hc
    exact Except.ok.inj hc
  subst this
  refine ⟨hc, hp, ?_⟩
  obtain ⟨h1, h2, h3, h4, h5, h6, h7, h8⟩ := h
  have htc : typeCoveredCode r.typeCovered < 256 ^ 2 := by
    cases hr : r.typeCovered with
    | known i =>
      rw [hr] at h1
      have hget : Gen.DnsRrType.codes[i]? = some (Gen.DnsRrType.codes.getD i 0) := by
        simp [List.getD, List.getElem?_eq_getElem h1]
      exact rrType_tableOk.fits _ (List.mem_of_getElem? hget)
    | unknown v =>
      rw [hr] at h1
      have := h1.2
      simp only [privateTypeMax] at this
      simp only [typeCoveredCode]
      omega
  have halg : Gen.DnsSecAlgorithm.codes.getD r.algorithm 0 < 256 ^ 1 := by
    have hget : Gen.DnsSecAlgorithm.codes[r.algorithm]? = some (Gen.DnsSecAlgorithm.codes.getD r.algorithm 0) := by
      simp [List.getD, List.getElem?_eq_getElem h2]
    exact alg_tableOk.fits _ (List.mem_of_getElem? hget)
  exact Spec.Dns.decodeRrsig_encode htc halg h3 h4 h5 h6 h7 (nameWf_of_labelOk h8.1 h8.2)

/-- the former counterexample: a valid RRSIG (root signer, four signature octets) of 23 octets -/
def rrsigShortWitness : Rrsig := ⟨.known 0, 7, 0, 3600, 1600000000, 1500000000, 7, [], [1, 2, 3, 4]⟩

example : parseRrsig (Spec.Dns.encodeRrsig rrsigShortWitness.toSpec) = .ok (rrsigShortWitness, 23) := by decide
-- the smallest RRSIG RDATA there is: 19 octets (root signer, no signature octets); 18 octets lack the name
example : parseRrsig [0, 1, 8, 0, 0, 0, 14, 16, 0, 0, 0, 2, 0, 0, 0, 1, 0, 7, 0]
    = .ok (⟨.known 0, 7, 0, 3600, 2, 1, 7, [], []⟩, 19) := by decide
example : parseRrsig [0, 1, 8, 0, 0, 0, 14, 16, 0, 0, 0, 2, 0, 0, 0, 1, 0, 7] = .error (.notEnough 1) := by decide

/-- C05 for `DnsRecordRrsig`: what is accepted was read from ALL of the RDATA and composes back to
exactly that RDATA; its signer's name is within the limits of RFC 1035 §2.3.4. -/
theorem rrsig_recomposable_full (bs : Bytes) (r : Rrsig) (n : Nat) (h : parseRrsig bs = .ok (r, n)) :
    n = bs.length ∧ composeRrsig r = .ok bs ∧ NameOk r.signersName :=
  ⟨(rrsig_canonicalExact bs r n h).1, (rrsig_canonicalExact bs r n h).2, parseRrsig_name_ok h⟩

/-- Only the four documented parse errors escape `DnsRecordRrsig` (C02): whatever the input, the only
"crash" the model can report is its own boundary marker for labels outside the ASCII fast path of
the `idna` codec. -/
theorem rrsig_noCrash_full (bs : Bytes) (k : String) (h : parseRrsig bs = .error (.crash k)) :
    k = "UNMODELLED" := rrsig_crashOnly bs k h

/-! ### TXT (RFC 1035 §3.3.14) -/

/-- One or more character-strings of at most 255 ASCII octets are accepted; the value is their
concatenation and every octet is consumed. -/
theorem txt_parse_conforms (strs : List Bytes) (hne : strs ≠ [])
    (h : ∀ v ∈ strs, isAscii v = true ∧ v.length ≤ 255) :
    parseTxt (Spec.Dns.encodeTxt strs) = .ok (strs.flatten, (Spec.Dns.encodeTxt strs).length) ∧
    Spec.Dns.decodeTxt (Spec.Dns.encodeTxt strs) = some strs :=
  ⟨parseTxt_encode hne h, Spec.Dns.decodeTxt_encode ⟨hne, fun v hv => (h v hv).2⟩⟩

/-- Every ASCII value — of any length — composes to conformant TXT RDATA (one or more
character-strings of at most 255 octets, RFC 1035 §3.3.14) that holds exactly the value, and that
RDATA parses back to the value with every octet consumed. -/
theorem txt_compose_full (v : Bytes) (ha : isAscii v = true) :
    ∃ strs, Spec.Dns.TxtWf strs ∧ strs.flatten = v ∧ composeTxt v = .ok (Spec.Dns.encodeTxt strs) ∧
      parseTxt (Spec.Dns.encodeTxt strs) = .ok (v, (Spec.Dns.encodeTxt strs).length) ∧
      Spec.Dns.decodeTxt (Spec.Dns.encodeTxt strs) = some strs := by
  obtain ⟨h1, h2, h3⟩ := txtChunks_spec v ha
  have hwf : Spec.Dns.TxtWf (txtChunks v) := ⟨h2, fun c hc => (h3 c hc).2⟩
  refine ⟨txtChunks v, hwf, h1, composeTxt_eq_spec ha, ?_, Spec.Dns.decodeTxt_encode hwf⟩
  have := parseTxt_encode h2 h3
  rwa [h1] at this

/-- Values of at most 255 octets compose to one character-string. -/
theorem txt_compose_short (v : Bytes) (ha : isAscii v = true) (hl : v.length ≤ 255) :
    composeTxt v = .ok (Spec.Dns.encodeTxt [v]) := by
  rw [composeTxt_eq_spec ha, txtChunks_short hl]

/-! ### non-vacuity: concrete values satisfying the hypotheses -/

/-- a 2048-bit-style RSA/SHA-256 key-signing key (a short odd modulus stands in for the real one) -/
def exampleKsk : Dnskey := ⟨[1, 256], 7, .rsa 65537 0xc5a3b1f907, 3⟩

example : DnskeyOk exampleKsk :=
  ⟨⟨[0, 8], by decide, rfl⟩, rfl, by decide,
    ⟨rfl, by decide, Nat.lt_of_lt_of_le (by decide : 65537 < 256 ^ 3) (Nat.pow_le_pow_right (by decide) (by decide)),
      by decide⟩⟩
example : composeDnskey exampleKsk = .ok [1, 1, 3, 8, 3, 1, 0, 1, 0xc5, 0xa3, 0xb1, 0xf9, 0x07] := by decide
example : exampleKsk.algCode ≠ algRsaMd5 := by decide
-- 13 octets (odd): the reported tag and the Appendix B tag differ
example : keyTag exampleKsk = .ok 32431 ∧ Spec.Dns.keyTag [1, 1, 3, 8, 3, 1, 0, 1, 0xc5, 0xa3, 0xb1, 0xf9, 0x07] = 34216 := by
  decide
-- an even-length record: they agree
example : composeDnskey ⟨[256], 7, .rsa 3 0x01020304, 3⟩ = .ok [1, 0, 3, 8, 1, 3, 1, 2, 3, 4] ∧
    keyTag ⟨[256], 7, .rsa 3 0x01020304, 3⟩ = .ok (Spec.Dns.keyTag [1, 0, 3, 8, 1, 3, 1, 2, 3, 4]) := by decide
-- RSA/MD5
example : keyTag ⟨[256], 1, .rsa 3 0x01020304, 3⟩ = .ok 0x0203 := by decide
-- an Ed25519 zone key
example : DnskeyOk ⟨[256], 12, .eddsa 0 ((List.range 32).map UInt8.ofNat), 3⟩ :=
  ⟨⟨[8], by decide, rfl⟩, rfl, by decide, ⟨rfl, by decide⟩⟩
-- a P-256 key with full-width coordinates
example : EcOk (groupBytes 0) (2 ^ 255 + 2 ^ 250) (2 ^ 200 + 2 ^ 190) := ⟨by decide, by decide, 32, by decide⟩
-- both coordinates with leading zero octets
example : EcOk (groupBytes 0) (2 ^ 240 + 2 ^ 230) (2 ^ 100 + 12345) := ⟨by decide, by decide, 31, by decide⟩
example : composeKeyEc 0 5 7 = .ok (Spec.Dns.encodeEcdsa 32 5 7) := by decide
example : LabelOk [0x77, 0x77, 0x77] := ⟨by decide, by decide, by decide, by decide⟩
example : MxOk ⟨10, [[0x6d, 0x78], [0x65, 0x78, 0x61, 0x6d, 0x70, 0x6c, 0x65], [0x63, 0x6f, 0x6d]]⟩ :=
  ⟨by decide, by
    intro l hl
    simp only [List.mem_cons, List.not_mem_nil, or_false] at hl
    rcases hl with rfl | rfl | rfl <;> exact ⟨by decide, by decide, by decide, by decide⟩, by decide⟩
example : composeMx ⟨10, [[0x6d, 0x78], [0x63, 0x6f, 0x6d]]⟩ = .ok [0, 10, 2, 0x6d, 0x78, 3, 0x63, 0x6f, 0x6d, 0] := by decide
example : DsOk ⟨60485, 4, 1, List.replicate 32 0xab⟩ := ⟨by decide, by decide, by decide⟩
-- signature expiration 2^32 - 1 (2106-02-07 06:28:15 UTC), a private RR type
example : RrsigOk ⟨.unknown 0xff00, 7, 2, 3600, 2 ^ 32 - 1, 0, 7, [[0x61]], List.replicate 64 1⟩ :=
  ⟨⟨by decide, by decide⟩, by decide, by decide, by decide, by decide, by decide, by decide,
    by
      intro l hl
      simp only [List.mem_singleton] at hl
      subst hl
      exact ⟨by decide, by decide, by decide, by decide⟩,
    by decide⟩
example : parseRrsig ([0, 1, 8, 2, 0, 0, 14, 16, 255, 255, 255, 255, 0, 0, 0, 0, 0, 7, 1, 0x61, 0] ++ [1, 2, 3, 4])
    = .ok (⟨.known 0, 7, 2, 3600, 2 ^ 32 - 1, 0, 7, [[0x61]], [1, 2, 3, 4]⟩, 25) := by decide
-- the slicing of `range(0, len, n)` (n = 255 in `DnsRecordTxt.compose`), shown with n = 3
example : chunks 3 7 [1, 2, 3, 4, 5, 6, 7] = [[1, 2, 3], [4, 5, 6], [7]] := by decide
example : parseTxt [2, 0x61, 0x62, 1, 0x63] = .ok ([0x61, 0x62, 0x63], 5) := by decide
example : Spec.Dns.TxtWf [[0x61, 0x62], [0x63]] := ⟨by simp, by decide⟩
example : composeTxt [0x61, 0x62] = .ok [2, 0x61, 0x62] ∧ composeTxt [] = .ok [0] := by decide

/-! ### regression: inputs that used to raise foreign exceptions or to be accepted and not composable -/

-- algorithms without a signature key type (0 = DELETE, 2 = DH) used to raise AttributeError
example : parseDnskey [1, 1, 3, 0, 0, 0, 0, 0] = .error .invalidValue ∧
    parseDnskey [1, 1, 3, 2, 0, 0, 0, 0] = .error .invalidValue := by decide
-- a zero coordinate used to raise ValueError, a wider coordinate equal to a power of 256 OverflowError
example : ecWidth 0 5 = .error .invalidValue ∧ ecWidth 5 0 = .error .invalidValue ∧
    ecWidth 256 1 = .error .invalidValue ∧ ecWidth 1 1 = .error .invalidValue ∧ ecWidth 256 257 = .ok 2 := by decide
example : parseDnskey ([1, 1, 3, 13] ++ List.replicate 32 0 ++ List.replicate 32 1) = .error .invalidValue := by decide
-- RSA: no modulus octets (compose raised ValueError), an exponent of no octets (the composition was
-- mis-read), a modulus of zero octets only: refused
example : parseDnskey [1, 1, 3, 8, 3, 1, 0, 1] = .error .invalidValue ∧
    parseDnskey [1, 1, 3, 8, 0, 0, 0, 1, 2, 3] = .error .invalidValue ∧
    parseDnskey [1, 1, 3, 8, 1, 3, 0, 0] = .error .invalidValue := by decide
-- RSA: a modulus equal to a power of 256 (compose raised InvalidValue) is composed in its own size
example : parseDnskey [1, 0, 3, 8, 1, 3, 1, 0, 0] = .ok (⟨[256], 7, .rsa 3 (256 ^ 2), 3⟩, 9) ∧
    composeDnskey ⟨[256], 7, .rsa 3 (256 ^ 2), 3⟩ = .ok [1, 0, 3, 8, 1, 3, 1, 0, 0] ∧
    keyTag ⟨[256], 7, .rsa 3 (256 ^ 2), 3⟩ = .ok 1547 := by decide
example : RsaOk 3 (256 ^ 2) := ⟨by decide, Nat.lt_of_lt_of_le (by decide : 3 < 256 ^ 1) (Nat.pow_le_pow_right (by decide) (by decide)), by decide⟩

end Cp.C08
