import CpProofs.Ssh
/-
  C16 — HASSH / HASSH-server and host-key fingerprints equal their definitions over the wire bytes.

  The digest function is a parameter `H : Bytes → Bytes`: what is proved is that the code hashes
  exactly the bytes the definitions name (the ';'-joined name-list strings of the KEXINIT; the
  RFC 4253 §6.6 public-key blob) and renders the digest as the definitions say (RFC 4648 base 64,
  colon-separated lower-case hex).  That `hashlib` is applied to those bytes is the harness's part.
-/
namespace Cp.C16
open Cp Cp.Codec Cp.Ssh

/-! ### HASSH -/

/-- tie to the code: which attributes `hassh` / `hassh_server` join, in which order -/
theorem hassh_field_selection :
    Gen.Ssh.hasshFields = ["kex_algorithms", "encryption_algorithms_client_to_server",
      "mac_algorithms_client_to_server", "compression_algorithms_client_to_server"] ∧
    Gen.Ssh.hasshServerFields = ["kex_algorithms", "encryption_algorithms_server_to_client",
      "mac_algorithms_server_to_client", "compression_algorithms_server_to_client"] := by
  decide +kernel

/-- FULL statement (it was false while a name-list with a trailing comma was accepted): for EVERY
accepted KEXINIT the HASSH and HASSH-server preimages are the name-list strings of the wire,
';'-joined — unknown names, empty lists, order and all -/
theorem hassh_conforms (b : Bytes) (k : KexInit) (n : Nat) (h : kexInitCodec.parse b = .ok (k, n)) :
    (∃ p, hasshPreimage k = .ok p ∧ Spec.Ssh.hasshPreimageOfWire b = some p) ∧
    (∃ p, hasshServerPreimage k = .ok p ∧ Spec.Ssh.hasshServerPreimageOfWire b = some p) :=
  Ssh.hassh_conforms h

/-- a KEXINIT whose `kex_algorithms` string is `a,` (trailing comma; not a conformant name-list) -/
def trailingCommaKexInit : Bytes :=
  [20] ++ List.replicate 16 0 ++ [0, 0, 0, 2, 0x61, 0x2c] ++ List.replicate 36 0 ++ [0] ++ [0, 0, 0, 0]

/-- the former counter-example is rejected now -/
theorem trailing_comma_rejected : kexInitCodec.parse trailingCommaKexInit = .error .invalidValue := by
  decide +kernel

/-- every accepted KEXINIT carries ten complete name-list strings and each algorithm list of the
parsed object, joined by commas, is exactly its wire string -/
theorem kexinit_lists_are_wire_strings (b : Bytes) (k : KexInit) (n : Nat) (h : kexInitCodec.parse b = .ok (k, n)) :
    ∃ s1 s2 s3 s4 s5 s6 s7 s8 s9 s10 rest,
      Spec.Ssh.kexInitStrings b = some ([s1, s2, s3, s4, s5, s6, s7, s8, s9, s10], rest) ∧
      Matches Gen.Ssh.SshKexAlgorithm k.kex s1 ∧ Matches Gen.Ssh.SshHostKeyAlgorithm k.hostKey s2 ∧
      Matches Gen.Ssh.SshEncryptionAlgorithm k.encC2S s3 ∧ Matches Gen.Ssh.SshEncryptionAlgorithm k.encS2C s4 ∧
      Matches Gen.Ssh.SshMacAlgorithm k.macC2S s5 ∧ Matches Gen.Ssh.SshMacAlgorithm k.macS2C s6 ∧
      Matches Gen.Ssh.SshCompressionAlgorithm k.compC2S s7 ∧ Matches Gen.Ssh.SshCompressionAlgorithm k.compS2C s8 :=
  kexInit_wire_strings h

/-! ### host-key fingerprints and `known_hosts` -/

/-- `key_bytes` of the plain key classes is the RFC public-key blob (from C07) -/
theorem key_bytes_is_blob :
    (∀ e n, MpintOk e → MpintOk n → keyBytes ⟨"SshHostKeyRSA", 4, .rsa e n⟩ = .ok (Spec.Ssh.rsaBlob e n)) ∧
    (∀ p q g y, MpintOk p → MpintOk q → MpintOk g → MpintOk y →
      keyBytes ⟨"SshHostKeyDSS", 13, .dss p q g y⟩ = .ok (Spec.Ssh.dssBlob p q g y)) ∧
    (∀ key, key.length < 2 ^ 32 → keyBytes ⟨"SshHostKeyEDDSA", 0, .eddsa key⟩ = .ok (Spec.Ssh.ed25519Blob key)) :=
  ⟨fun e n he hn => rsa_blob 4 (by decide +kernel) e n he hn,
   fun p q g y hp hq hg hy => dss_blob 13 (by decide +kernel) p q g y hp hq hg hy,
   fun key hk => ed25519_blob 0 (by decide +kernel) key hk⟩

/-- for EVERY digest function `H`: the three fingerprints are the prefix followed by the RFC 4648
base 64 (with `=` padding) resp. the colon-separated lower-case hex of `H(blob)`, and `known_hosts` is
the base 64 of the blob itself -/
theorem fingerprint_format (H : Bytes → Bytes) (k : HostKey) (blob : Bytes) (hb : keyBytes k = .ok blob) :
    fingerprint H .sha256 k = .ok (Spec.Ssh.prefixSha256 ++ Spec.Ssh.base64 (H blob)) ∧
    fingerprint H .sha1 k = .ok (Spec.Ssh.prefixSha1 ++ Spec.Ssh.base64 (H blob)) ∧
    fingerprint H .md5 k = .ok (Spec.Ssh.prefixMd5 ++ Spec.Ssh.colonHex (H blob)) ∧
    knownHosts k = .ok (Spec.Ssh.base64 blob) := by
  obtain ⟨h1, h2, h3⟩ := renderFingerprint_spec (H blob)
  simp [fingerprint, knownHosts, hb, Except.map, h1, h2, h3, b64encode_eq_spec]

/-- the renderings themselves, for every byte string -/
theorem base64_and_hex_are_rfc (d : Bytes) :
    b64encode d = Spec.Ssh.base64 d ∧ joinItems 0x3a (wrap2 (hexlify d)) = Spec.Ssh.colonHex d :=
  ⟨b64encode_eq_spec d, colonHex_eq_spec d⟩

/-! ### key parameters read from the wire are re-serialised canonically

`key_bytes` (what the fingerprints digest) is composed from the parsed integers.  After the repair of
`compose_ssh_mpint` every integer — also one whose data starts with a byte `≥ 0x80` and therefore
reads as negative, e.g. `00 00 00 01 80` — is written as the shortest two's complement, so the
parameters of an accepted key are re-serialised byte for byte when they were canonical on the wire
(before, `80 ..` came back as `ff 80 ..` and the fingerprint was not the digest of the wire blob),
and shortened to the canonical form when they were not. -/

theorem mpint_reserialise {data : Bytes} {v : Int} {n : Nat} (h : parseSshMpint data = .ok (v, n)) :
    composeSshMpint v = .ok (Spec.sshMpint v) ∧ (Spec.sshMpint v).length ≤ n ∧
      ((Spec.sshMpint v).length = n → data.take n = Spec.sshMpint v) := by
  obtain ⟨h1, h2, h3, _⟩ := C11.ssh_mpint_recompose_canonical data v n [] h
  exact ⟨h1, h2, h3.mp⟩

/-- `ssh-rsa` parameters: whatever `e`, `n` the parser accepts (any sign, canonical or not), the
composer writes `mpint e ‖ mpint n` in canonical form; never longer than what was read, and exactly
what was read when the lengths agree. -/
theorem rsa_params_reserialise (data : Bytes) (e n : Int) (m : Nat)
    (h : parseKeyParams .rsa data = .ok (.rsa e n, m)) :
    composeKeyParams (.rsa e n) = .ok (Spec.sshMpint e ++ Spec.sshMpint n) ∧
    (Spec.sshMpint e ++ Spec.sshMpint n).length ≤ m ∧
    ((Spec.sshMpint e ++ Spec.sshMpint n).length = m →
      data.take m = Spec.sshMpint e ++ Spec.sshMpint n) := by
  unfold parseKeyParams at h
  simp only [bind, Except.bind] at h
  cases h1 : parseSshMpint data with
  | error x => rw [h1] at h; simp at h
  | ok r1 =>
    obtain ⟨e', n1⟩ := r1
    rw [h1] at h
    simp only at h
    cases h2 : parseSshMpint (data.drop n1) with
    | error x => rw [h2] at h; simp at h
    | ok r2 =>
      obtain ⟨n', n2⟩ := r2
      rw [h2] at h
      simp only [pure, Except.pure, Except.ok.injEq, Prod.mk.injEq, KeyParams.rsa.injEq] at h
      obtain ⟨⟨he, hn⟩, hm⟩ := h
      subst he hn hm
      obtain ⟨a1, a2, a3⟩ := mpint_reserialise h1
      obtain ⟨b1, b2, b3⟩ := mpint_reserialise h2
      refine ⟨?_, ?_, ?_⟩
      · simp [composeKeyParams, bind, Except.bind, a1, b1, pure, Except.pure]
      · rw [List.length_append]; omega
      · intro hl
        rw [List.length_append] at hl
        rw [List.take_add, a3 (by omega), b3 (by omega)]

/-- `ssh-dss` parameters `p`, `q`, `g`, `y`: the same. -/
theorem dss_params_reserialise (data : Bytes) (p q g y : Int) (m : Nat)
    (h : parseKeyParams .dss data = .ok (.dss p q g y, m)) :
    composeKeyParams (.dss p q g y) =
      .ok (Spec.sshMpint p ++ Spec.sshMpint q ++ Spec.sshMpint g ++ Spec.sshMpint y) ∧
    (Spec.sshMpint p ++ Spec.sshMpint q ++ Spec.sshMpint g ++ Spec.sshMpint y).length ≤ m ∧
    ((Spec.sshMpint p ++ Spec.sshMpint q ++ Spec.sshMpint g ++ Spec.sshMpint y).length = m →
      data.take m = Spec.sshMpint p ++ Spec.sshMpint q ++ Spec.sshMpint g ++ Spec.sshMpint y) := by
  unfold parseKeyParams at h
  simp only [bind, Except.bind] at h
  cases h1 : parseSshMpint data with
  | error x => rw [h1] at h; simp at h
  | ok r1 =>
    obtain ⟨p', n1⟩ := r1
    rw [h1] at h
    simp only at h
    cases h2 : parseSshMpint (data.drop n1) with
    | error x => rw [h2] at h; simp at h
    | ok r2 =>
      obtain ⟨q', n2⟩ := r2
      rw [h2] at h
      simp only at h
      cases h3 : parseSshMpint (data.drop (n1 + n2)) with
      | error x => rw [h3] at h; simp at h
      | ok r3 =>
        obtain ⟨g', n3⟩ := r3
        rw [h3] at h
        simp only at h
        cases h4 : parseSshMpint (data.drop (n1 + n2 + n3)) with
        | error x => rw [h4] at h; simp at h
        | ok r4 =>
          obtain ⟨y', n4⟩ := r4
          rw [h4] at h
          simp only [pure, Except.pure, Except.ok.injEq, Prod.mk.injEq, KeyParams.dss.injEq] at h
          obtain ⟨⟨hp, hq, hg, hy⟩, hm⟩ := h
          subst hp hq hg hy hm
          obtain ⟨a1, a2, a3⟩ := mpint_reserialise h1
          obtain ⟨b1, b2, b3⟩ := mpint_reserialise h2
          obtain ⟨c1, c2, c3⟩ := mpint_reserialise h3
          obtain ⟨d1, d2, d3⟩ := mpint_reserialise h4
          refine ⟨?_, ?_, ?_⟩
          · simp [composeKeyParams, bind, Except.bind, a1, b1, c1, d1, pure, Except.pure]
          · simp only [List.length_append]; omega
          · intro hl
            simp only [List.length_append] at hl
            rw [List.take_add, List.take_add, List.take_add, a3 (by omega), b3 (by omega), c3 (by omega),
              d3 (by omega)]

/-! ### non-vacuity -/

-- RFC 4648 §10 test vectors: "" "f" "fo" "foo" "foob" "fooba" "foobar"
example : Spec.Ssh.base64 [] = [] ∧
    Spec.Ssh.base64 [0x66] = [0x5a, 0x67, 0x3d, 0x3d] ∧
    Spec.Ssh.base64 [0x66, 0x6f] = [0x5a, 0x6d, 0x38, 0x3d] ∧
    Spec.Ssh.base64 [0x66, 0x6f, 0x6f] = [0x5a, 0x6d, 0x39, 0x76] ∧
    Spec.Ssh.base64 [0x66, 0x6f, 0x6f, 0x62, 0x61, 0x72] = [0x5a, 0x6d, 0x39, 0x76, 0x59, 0x6d, 0x46, 0x79] := by decide
example : Spec.Ssh.colonHex [0x00, 0xff, 0x1a] = [0x30, 0x30, 0x3a, 0x66, 0x66, 0x3a, 0x31, 0x61] := by decide

/-- an accepted KEXINIT with two unknown kex names and otherwise empty lists -/
def sampleWire : Bytes :=
  [20] ++ List.replicate 16 9 ++ [0, 0, 0, 5, 0x61, 0x2c, 0x62, 0x40, 0x63] ++ List.replicate 36 0 ++ [1] ++ [0, 0, 0, 0]

example : (kexInitCodec.parse sampleWire).toOption.map (·.2) = some 67 := by decide +kernel
example : Spec.Ssh.hasshPreimageOfWire sampleWire = some [0x61, 0x2c, 0x62, 0x40, 0x63, 0x3b, 0x3b, 0x3b] := by
  decide +kernel
-- the repaired case: a modulus sent without the leading `00` (data `80 01`, read as -32767) is
-- re-serialised as it was read (it came back as `00 00 00 03 ff 80 01`), a redundant `ff` is dropped
example : parseKeyParams .rsa [0, 0, 0, 1, 3, 0, 0, 0, 2, 0x80, 0x01] = .ok (.rsa 3 (-32767), 11) ∧
    composeKeyParams (.rsa 3 (-32767)) = .ok [0, 0, 0, 1, 3, 0, 0, 0, 2, 0x80, 0x01] := by decide +kernel
example : parseKeyParams .rsa [0, 0, 0, 1, 3, 0, 0, 0, 1, 0x80] = .ok (.rsa 3 (-128), 10) ∧
    composeKeyParams (.rsa 3 (-128)) = .ok [0, 0, 0, 1, 3, 0, 0, 0, 1, 0x80] := by decide +kernel
example : parseKeyParams .rsa [0, 0, 0, 1, 3, 0, 0, 0, 2, 0xff, 0x80] = .ok (.rsa 3 (-128), 11) := by decide +kernel
example : keyBytes ⟨"SshHostKeyEDDSA", 0, .eddsa [1, 2, 3]⟩ =
    .ok [0, 0, 0, 11, 115, 115, 104, 45, 101, 100, 50, 53, 53, 49, 57, 0, 0, 0, 3, 1, 2, 3] := by decide +kernel

end Cp.C16
