import CpProofs.Ssl2
import CpProps.C05
/-
  C05 for the SSL 2.0 record layer — re-serialising an accepted input is a stable canonical form.

  The three message classes: unconditional (`Canonical`, CpProps/C05.lean).  What is normalised: a
  version other than SSL 2.0 in a hello message is dropped (compose writes 0x0002), a non-zero
  SESSION-ID-HIT byte becomes 1, a 3-byte record header (padding, is-escape bit) becomes the 2-byte form.

  The record: the full statement is FALSE on the real code.  The message parser is not confined to
  `record_length`, so a header declaring little in front of a hello message of 32767 bytes or more is
  accepted, while `SslRecord.compose` (rightly) refuses a body that does not fit fifteen bits.
  Proved: re-composable exactly when the body fits, in particular whenever the parse stayed inside
  the declared record length.
-/
namespace Cp.C05Ssl2
open Cp Cp.Codec Cp.Ssl2

theorem sslErrorMessage_canonical : C05.Canonical errorCodec := C05.of_laws error_roundTrip error_parseWf
theorem sslHandshakeClientHello_canonical : C05.Canonical clientHelloCodec :=
  C05.of_laws clientHello_roundTrip clientHello_parseWf
theorem sslHandshakeServerHello_canonical : C05.Canonical serverHelloCodec :=
  C05.of_laws serverHello_roundTrip serverHello_parseWf

/-- full strength — FALSE on the real code -/
def ssl2_canonical_full : Prop :=
  ∀ bs r n, parseRecord bs = .ok (r, n) → ∃ b', composeRecord r = .ok b' ∧ parseRecord b' = .ok (r, b'.length)

/-- witness `80 00 | 01 | 00 02 00 00 00 00 80 00 | 00 × 32768` (32779 bytes): accepted with
n = 32779, the parsed record is refused by compose -/
theorem ssl2_canonical_full_fails : ¬ ssl2_canonical_full := not_canonical

/-- what the record parser accepts always carries a constructible message … -/
theorem sslRecord_message_wf (bs : Bytes) (r : Record) (n : Nat) (h : parseRecord bs = .ok (r, n)) :
    r.message.wf := record_message_wf h

/-- … and it can be composed again exactly when the body fits the 15-bit length -/
theorem ssl2_recomposable_iff (bs : Bytes) (r : Record) (n : Nat) (h : parseRecord bs = .ok (r, n)) :
    (∃ b', composeRecord r = .ok b') ↔ 1 + r.message.size < 32768 := record_canonical_iff h

/-- partial: body fits ⇒ compose succeeds, the composition parses back to the same record consuming
everything, and composing that again is stable -/
theorem ssl2_canonical_partial (bs : Bytes) (r : Record) (n : Nat) (h : parseRecord bs = .ok (r, n))
    (hs : 1 + r.message.size < 32768) :
    ∃ b', composeRecord r = .ok b' ∧ parseRecord b' = .ok (r, b'.length) ∧
      ∀ r'' n'', parseRecord b' = .ok (r'', n'') → composeRecord r'' = .ok b' :=
  record_canonical_of_fits h hs

/-- partial: in particular whenever the parse stayed inside the declared record length (both header
forms: the 15-bit and the 14-bit length are below the guard) -/
theorem ssl2_canonical_within_declared (bs : Bytes) (r : Record) (n : Nat) (h : parseRecord bs = .ok (r, n))
    (hd : n ≤ headerSize bs + declaredLength bs) :
    ∃ b', composeRecord r = .ok b' ∧ parseRecord b' = .ok (r, b'.length) ∧
      ∀ r'' n'', parseRecord b' = .ok (r'', n'') → composeRecord r'' = .ok b' :=
  record_canonical_of_within h hd

/-! non-vacuity: a 3-byte-header input with padding, another version and hit = 0x80 re-composes into the 2-byte form -/
example : parseRecord [0x40, 0x0e, 0x03, 4, 0x80, 1, 3, 3, 0, 1, 0, 0, 0, 0, 0xcc, 9, 9, 9] =
    .ok (⟨.serverHello [0xcc] [] [] true⟩, 18) := by decide +kernel
example : composeRecord ⟨.serverHello [0xcc] [] [] true⟩ = .ok [0x80, 0x0c, 4, 1, 1, 0, 2, 0, 1, 0, 0, 0, 0, 0xcc] := by
  decide +kernel
example : parseRecord [0x80, 0x0c, 4, 1, 1, 0, 2, 0, 1, 0, 0, 0, 0, 0xcc] = .ok (⟨.serverHello [0xcc] [] [] true⟩, 14) := by
  decide +kernel
/-- the witness: what it starts with, how long it is, what it parses to and that compose refuses -/
example : canonicalWitness.take 11 = [0x80, 0, 1, 0, 2, 0, 0, 0, 0, 0x80, 0] ∧ canonicalWitness.length = 32779 ∧
    parseRecord canonicalWitness = .ok (⟨bigHello⟩, 32779) ∧ composeRecord ⟨bigHello⟩ = .error .invalidValue :=
  ⟨canonicalWitness_head, canonicalWitness_length, canonicalWitness_parse, canonicalWitness_compose⟩

end Cp.C05Ssl2
