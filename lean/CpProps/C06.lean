import CpProofs.Tls2
import CpSpec.Tls
/-
  C06 — SSL/TLS messages are laid out exactly as the RFCs specify.
  The model's composers are proved equal to the independent RFC-level encoders of `CpSpec/Tls.lean`,
  and the length-prefix width of every vector class is checked against the RFC ceiling.
-/
namespace Cp.C06
open Cp Cp.Codec Cp.Tls

theorem enc_is_spec (k v : Nat) : encNat .network k v = Spec.toBytesBE k v := by
  simp [encNat, ByteOrder.isBig, beBytes_eq_spec]

/-- Every vector class the library defines for a TLS structure has the RFC's ceiling and therefore
the RFC's length-prefix width — computed here from the RFC ceiling, compared with the
`item_num_size` the code derives with floating-point `math.log`. -/
theorem vector_prefix_widths_match_rfc :
    Spec.Tls.rfcVectors.all (fun (name, _, ceiling) =>
      Gen.vecParams.any (fun g => g.name == name && g.max == ceiling &&
        g.numSize == Spec.Tls.prefixWidth ceiling)) = true := by
  decide +kernel

/-- floors: the classes whose `min_byte_num` differs from the RFC floor (recorded deviations; a
too-low floor accepts more than the RFC allows, a too-high floor rejects a conformant encoding) -/
def floorDeviations : List String :=
  (Spec.Tls.rfcVectors.filter (fun (name, floor, _) =>
    !(Gen.vecParams.any (fun g => g.name == name && g.min == floor)))).map (·.1)


theorem floor_deviations_are_exactly :
    floorDeviations = ["TlsEllipticCurveVector"] := by
  decide +kernel

/-- TLSPlaintext: type, version, uint16 length, fragment (RFC 5246 §6.2.1) -/
theorem record_compose_is_spec (r : Record) (h : recordWf r) :
    recordCodec.compose r =
      .ok (Spec.Tls.encodeRecord r.contentType (Gen.TlsVersion.codes.getD r.version 0) r.fragment) := by
  obtain ⟨h1, h2, h3⟩ := h
  have hget : Gen.TlsVersion.codes[r.version]? = some (Gen.TlsVersion.codes[r.version]) :=
    List.getElem?_eq_getElem h2
  have hc : Gen.TlsVersion.codes[r.version] < 256 ^ 2 := versions_tableOk.fits _ (List.getElem_mem h2)
  have hct := contentType_fits _ h1
  have hv : composeVersion r.version = .ok (encNat .network 2 (Gen.TlsVersion.codes[r.version])) := by
    rw [composeVersion_eq h2]
    simp [composeCoded, hget, composeNum_ok (by rfl) hc]
  show (do
    let p ← composeNum .network 1 (r.contentType : Int)
    let q ← (do
      let p ← composeVersion r.version
      let q ← composeBytes .network 2 r.fragment
      pure (p ++ q))
    pure (p ++ q)) = _
  rw [composeNum_ok (by rfl) hct, hv, composeBytes_ok (by rfl) r.fragment h3]
  simp only [bind, Except.bind, pure, Except.pure, Spec.Tls.encodeRecord, Spec.Tls.u8, Spec.Tls.u16,
    enc_is_spec, List.getD_eq_getElem?_getD, hget, Option.getD_some, List.append_assoc]

/-- Alert: level, description (RFC 5246 §7.2) -/
theorem alert_compose_is_spec (a : Alert) (h : alertWf a) :
    alertCodec.compose a = .ok (Spec.Tls.encodeAlert a.level a.description) := by
  show (do
    let p ← composeNum .network 1 (a.level : Int)
    let q ← composeNum .network 1 (a.description : Int)
    pure (p ++ q)) = _
  rw [composeNum_ok (by rfl) (alertLevels_fit _ h.1), composeNum_ok (by rfl) (alertDescriptions_fit _ h.2)]
  simp [bind, Except.bind, pure, Except.pure, Spec.Tls.encodeAlert, Spec.Tls.u8, enc_is_spec]

/-- ChangeCipherSpec (RFC 5246 §7.1): the single byte 1 -/
theorem ccs_compose_is_spec : ccsCodec.compose 1 = .ok Spec.Tls.encodeChangeCipherSpec := by
  decide

/-- Handshake: msg_type, uint24 length, body (RFC 5246 §7.4) — for EVERY handshake message class:
whatever the class composes is its body behind the RFC header. -/
theorem handshake_compose_is_spec {α : Type} (typ : Nat) (inner : Codec α) (v : α) (b : Bytes)
    (h : (hsFramed typ inner).compose v = .ok b) :
    ∃ body, inner.compose v = .ok body ∧ b = Spec.Tls.encodeHandshake typ body := by
  simp only [hsFramed, framed] at h
  cases h1 : inner.compose v with
  | error e => simp [h1, bind, Except.bind] at h
  | ok body =>
    simp only [h1, bind, Except.bind] at h
    refine ⟨body, rfl, ?_⟩
    simp only [hsHeaderCodec, minSize, mapE, seq, guardE, intEnum, bytesPrefixed] at h
    cases h2 : composeNum .network 1 (typ : Int) with
    | error e => simp [h2, bind, Except.bind] at h
    | ok a =>
      simp only [h2, bind, Except.bind] at h
      cases h3 : composeBytes .network 3 body with
      | error e => simp [h3] at h
      | ok q =>
        simp [h3, pure, Except.pure] at h
        subst h
        have hl := composeBytes_ok_inv (by rfl) h3
        rw [composeBytes_ok (by rfl) body hl] at h3
        cases h3
        have ht : typ < 256 ^ 1 := by
          by_cases ht : typ < 256 ^ 1
          · exact ht
          · exfalso
            unfold composeNum at h2
            have : 256 ^ 1 ≤ typ := by omega
            simp [validSize, this] at h2
        rw [composeNum_ok (by rfl) ht] at h2
        cases h2
        simp [Spec.Tls.encodeHandshake, Spec.Tls.u8, Spec.Tls.u24, enc_is_spec]

/-- and the spec encoding of a record is recovered by the parser (decode ∘ encode = id) -/
theorem record_parse_of_spec (r : Record) (h : recordWf r) (s : Bytes) :
    recordCodec.parse
      (Spec.Tls.encodeRecord r.contentType (Gen.TlsVersion.codes.getD r.version 0) r.fragment ++ s) =
      .ok (r, 5 + r.fragment.length) := by
  obtain ⟨b, hb, hbb⟩ := record_roundTrip r h
  rw [record_compose_is_spec r h] at hb
  cases hb
  rw [hbb s]
  congr 2
  simp [Spec.Tls.encodeRecord, Spec.Tls.u8, Spec.Tls.u16, Spec.toBytesBE]
  omega

/-! non-vacuity -/
example : recordCodec.compose ⟨22, 4, [1, 2, 3]⟩ = .ok [22, 3, 3, 0, 3, 1, 2, 3] := by decide +kernel
example : recordWf ⟨22, 4, [1, 2, 3]⟩ := ⟨by decide +kernel, by decide +kernel, by decide⟩

end Cp.C06
