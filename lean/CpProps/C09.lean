import CpModel.Opp.Msg
import CpSpec.Opp
import CpProofs.Opp
/-
  C09 — opportunistic-TLS application messages.

  For every modelled class (MySQL packet / SSLRequest / HandshakeV10, TPKT, X.224 CR/CC, RDP
  negotiation request/response, the OpenVPN control-channel packets and the TCP wrapper, PostgreSQL
  SSLRequest and Sync):
    * `…_layout`    the model's `compose` of a constructible value IS the specification's encoding
                    (`CpSpec/Opp.lean`, written from the protocol documents);
    * `…_roundtrip` the model's parser recovers the value from that encoding, whatever follows it,
                    consumes exactly the encoding, and returns the CLASS that is on the wire;
    * `…_spec`      the specification's own decoder inverts its encoder (the specification is
                    consistent and carries the same information);
    * `…_framing`   for the stream framing units: consumed ≤ available, > 0, self-delimiting, every
                    proper prefix rejected with a missing-byte count between 1 and the truth.
  One clause is FALSE of the code as it stands (known finding `cotp-ref-order`, pinned by the
  repository's test_rdp); it is kept at full strength as a `def …_full`, refuted with a concrete
  witness, and accompanied by the strongest true `_partial`.
  Two former findings are repaired in the code and are theorems now: the round trip of an RDP
  negotiation message over EVERYTHING the constructor accepts (`rdpNeg_roundtrip_full`: the
  constructor drops the zero-valued `RDPProtocol.RDP`), and the second part of the MySQL auth plugin
  data (`mysql_handshakeV10_part2_parsed`, `…_composed`, `…_len_rule`: `MAX(13, len - 8)` bytes with
  `CLIENT_PLUGIN_AUTH`, 13 with `CLIENT_SECURE_CONNECTION` alone as servers before 5.5.7 send it);
  the former witnesses are kept as regression `example`s.
  LDAP StartTLS is outside the model (asn1crypto); its two encodings are specification constants
  compared with the implementation by the correspondence check.
-/
namespace Cp.C09
open Cp Cp.Codec Cp.Opp Cp.Spec Cp.Spec.Opp

/-! ### PostgreSQL -/

/-- `SSLRequest` is `Int32(8) Int32(80877103)`. -/
theorem pg_sslRequest_layout : composeSslRequest () = .ok encodePgSslRequest ∧
    encodePgSslRequest = [0, 0, 0, 8, 0x04, 0xd2, 0x16, 0x2f] := ⟨sslRequest_compose_spec, by decide⟩

theorem pg_sslRequest_roundtrip (s : Bytes) : parseSslRequest (encodePgSslRequest ++ s) = .ok ((), 8) := by
  obtain ⟨b, hb, hbb⟩ := sslRequest_roundTrip () trivial
  have e : b = encodePgSslRequest := by
    have := sslRequest_compose_spec
    rw [show composeSslRequest () = sslRequestUnitCodec.compose () from rfl, hb] at this
    exact Except.ok.inj this
  subst e
  exact hbb s

theorem pg_sslRequest_spec (s : Bytes) : decodePgSslRequest (encodePgSslRequest ++ s) = some 8 :=
  pgSslRequest_spec_roundtrip s

theorem pg_sslRequest_framing :
    LenBound sslRequestUnitCodec ∧ Positive sslRequestUnitCodec ∧ SelfDelim sslRequestUnitCodec ∧
    PrefixReject sslRequestUnitCodec (fun _ => True) ∧ NoCrash sslRequestUnitCodec :=
  ⟨sslRequest_lenBound, sslRequest_positive, sslRequest_selfDelim, sslRequest_prefixReject, sslRequest_noCrash⟩

/-- `Sync` is the single octet `S`. -/
theorem pg_sync_layout_roundtrip (s : Bytes) :
    composeSync () = .ok encodePgSync ∧ parseSync (encodePgSync ++ s) = .ok ((), 1) := sync_roundTrip s

/-! ### OpenVPN over TCP -/

theorem ovpn_tcp_layout (v : Bytes) (hv : v.length < 65536) : wrapperTcpCodec.compose v = .ok (encodeOvpnTcp v) :=
  wrapper_compose_spec v hv

theorem ovpn_tcp_roundtrip (v s : Bytes) (hv : v.length < 65536) :
    wrapperTcpCodec.parse (encodeOvpnTcp v ++ s) = .ok (v, (encodeOvpnTcp v).length) := by
  obtain ⟨b, hb, hbb⟩ := wrapper_roundTrip v hv
  rw [wrapper_compose_spec v hv] at hb
  cases hb
  exact hbb s

theorem ovpn_tcp_spec (v s : Bytes) (hv : v.length < 65536) :
    decodeOvpnTcp (encodeOvpnTcp v ++ s) = some (v, 2 + v.length) := ovpnTcp_spec_roundtrip v s hv

theorem ovpn_tcp_framing :
    LenBound wrapperTcpCodec ∧ Positive wrapperTcpCodec ∧ SelfDelim wrapperTcpCodec ∧
    PrefixReject wrapperTcpCodec (fun v => v.length < 65536) ∧ NoCrash wrapperTcpCodec ∧
    ParseWf wrapperTcpCodec (fun v => v.length < 65536) :=
  ⟨wrapper_lenBound, wrapper_positive, wrapper_selfDelim, wrapper_prefixReject, wrapper_noCrash, wrapper_parseWf⟩

/-! ### TPKT -/

/-- version 3, reserved 0, 16-bit length of the whole packet (header included), the TPDU -/
theorem tpkt_layout (t : Tpkt) (h : tpktWf t) : composeTpkt t = .ok (encodeTpkt t.message) :=
  composeTpkt_spec t h

theorem tpkt_roundtrip (msg s : Bytes) (h : msg.length + 4 < 65536) :
    parseTpkt (encodeTpkt msg ++ s) = .ok (⟨3, msg⟩, (encodeTpkt msg).length) := by
  rw [parseTpkt_encode msg s h, encodeTpkt_eq]; simp; omega

theorem tpkt_spec (msg s : Bytes) (h : msg.length + 4 < 65536) :
    decodeTpkt (encodeTpkt msg ++ s) = some (msg, msg.length + 4) := tpkt_spec_roundtrip msg s h

theorem tpkt_framing :
    LenBound tpktCodec ∧ Positive tpktCodec ∧ SelfDelim tpktCodec ∧ PrefixReject tpktCodec tpktWf ∧
    NoCrash tpktCodec ∧ ParseWf tpktCodec tpktWf :=
  ⟨tpkt_lenBound, tpkt_positive, tpkt_selfDelim, tpkt_prefixReject, tpkt_noCrash, tpkt_parseWf⟩

/-- the consumed length is the length the header declares -/
theorem tpkt_declared_length (bs : Bytes) (t : Tpkt) (n : Nat) (h : parseTpkt bs = .ok (t, n)) :
    n = decNat .network ((bs.drop 2).take 2) ∧ t.message.length = n - 4 := by
  obtain ⟨h4, _, hn, hn4, hnl, ht⟩ := parseTpkt_ok_inv h
  refine ⟨hn, ?_⟩
  subst ht
  simp only [List.length_take, List.length_drop]
  omega

/-! ### MySQL packet -/

/-- `int<3> payload_length` (little-endian), `int<1> sequence_id`, payload -/
theorem mysql_packet_layout (r : MySqlRecord) (h : mySqlRecordWf r) :
    composeMySqlRecord r = .ok (encodeMySqlPacket r.toSpec) := composeMySqlRecord_spec r h

theorem mysql_packet_roundtrip (r : MySqlRecord) (s : Bytes) (h : mySqlRecordWf r) :
    parseMySqlRecord (encodeMySqlPacket r.toSpec ++ s) = .ok (r, (encodeMySqlPacket r.toSpec).length) :=
  parseMySqlRecord_encode r s h

theorem mysql_packet_spec (p : MySqlPacket) (s : Bytes) (h : p.wf) :
    decodeMySqlPacket (encodeMySqlPacket p ++ s) = some (p, 4 + p.payload.length) :=
  mySqlPacket_spec_roundtrip p s h

theorem mysql_packet_framing :
    LenBound mySqlRecordCodec ∧ Positive mySqlRecordCodec ∧ SelfDelim mySqlRecordCodec ∧
    PrefixReject mySqlRecordCodec mySqlRecordWf ∧ NoCrash mySqlRecordCodec ∧ ParseWf mySqlRecordCodec mySqlRecordWf :=
  ⟨mySqlRecord_lenBound, mySqlRecord_positive, mySqlRecord_selfDelim, mySqlRecord_prefixReject, mySqlRecord_noCrash,
    mySqlRecord_parseWf⟩

/-- the consumed length is 4 + the three-byte little-endian length of the header -/
theorem mysql_packet_declared_length (bs : Bytes) (r : MySqlRecord) (n : Nat)
    (h : parseMySqlRecord bs = .ok (r, n)) : n = 4 + decNat .little (bs.take 3) :=
  (parseMySqlRecord_ok_inv h).2.1

/-! ### MySQL `SSLRequest` and the capability-flag split -/

theorem mysql_sslRequest_layout (r : Cp.Opp.MySqlSslRequest) (h : mySqlSslWf r) :
    composeMySqlSslRequest r = .ok (encodeMySqlSslRequest r.toSpec) := composeMySqlSslRequest_spec r h

theorem mysql_sslRequest_roundtrip (r : Cp.Opp.MySqlSslRequest) (s : Bytes) (h : mySqlSslWf r) :
    parseMySqlSslRequest (encodeMySqlSslRequest r.toSpec ++ s) = .ok (r, (encodeMySqlSslRequest r.toSpec).length) :=
  parseMySqlSslRequest_encode r s h

theorem mysql_sslRequest_spec (x : Spec.Opp.MySqlSslRequest) (s : Bytes) (h : x.wf) :
    decodeMySqlSslRequest (encodeMySqlSslRequest x ++ s) = some (x, (encodeMySqlSslRequest x).length) :=
  mySqlSslRequest_spec_roundtrip x s h

/-- The split of the 32-bit capability word: for every selection of capability members the four
little-endian octets of the word are the two octets of its lower half followed by the two of its
upper half; the lower field parses (shift 0) to the members below bit 16, the upper field (shift
16) to the members from bit 16, and together they are the selection. -/
theorem mysql_capability_split (sel : List Nat) (hsub : sel.Sublist capExps) (X : Bytes) :
    toBytesLE 4 (flagWord 0 sel) = toBytesLE 2 (flagWord 0 sel % 2 ^ 16) ++ toBytesLE 2 (flagWord 0 sel / 2 ^ 16) ∧
    flagWord 0 sel % 2 ^ 16 = flagWord 0 (sel.filter (· < 16)) ∧
    flagWord 0 sel / 2 ^ 16 = flagWord 16 (sel.filter (16 ≤ ·)) ∧
    parseFlags .little 2 0 Gen.MySQLCapability.codes
        (encNat .little 2 (flagWord 0 sel % 2 ^ 16) ++ X) = .ok ((sel.filter (· < 16)).map (2 ^ ·), 2) ∧
    parseFlags .little 2 16 Gen.MySQLCapability.codes
        (encNat .little 2 (flagWord 0 sel / 2 ^ 16) ++ X) = .ok ((sel.filter (16 ≤ ·)).map (2 ^ ·), 2) ∧
    (sel.filter (· < 16)).map (2 ^ ·) ++ (sel.filter (16 ≤ ·)).map (2 ^ ·) = sel.map (2 ^ ·) :=
  ⟨toBytesLE_split4 _, flagWord_mod sel, flagWord_div sel, caps_split_parse sel hsub X⟩

/-! ### MySQL `HandshakeV10` -/

/-- The three kinds of greeting (`mySqlV10Wf`): with `CLIENT_PLUGIN_AUTH` a second part of 13..247
octets, its length + 8 in the length octet, and the plugin name; with `CLIENT_SECURE_CONNECTION`
alone (servers before 5.5.7) the length octet `00` and a second part of 13 octets; with neither, no
second part.  The composed octets are the specification's. -/
theorem mysql_handshakeV10_layout (h : Cp.Opp.MySqlHandshakeV10) (hw : mySqlV10Wf h) :
    composeMySqlHandshakeV10 h = .ok (encodeMySqlHandshakeV10 h.toSpec) := composeMySqlHandshakeV10_spec h hw

theorem mysql_handshakeV10_roundtrip (h : Cp.Opp.MySqlHandshakeV10) (hw : mySqlV10Wf h) (s : Bytes) :
    parseMySqlHandshakeV10 (encodeMySqlHandshakeV10 h.toSpec ++ s) =
      .ok (h, (encodeMySqlHandshakeV10 h.toSpec).length) := by
  rw [← encV10_spec h hw]; exact parseMySqlHandshakeV10_enc h hw s

theorem mysql_handshakeV10_spec (x : Spec.Opp.MySqlHandshakeV10) (s : Bytes) (h : x.wf) :
    decodeMySqlHandshakeV10 (encodeMySqlHandshakeV10 x ++ s) = some (x, (encodeMySqlHandshakeV10 x).length) :=
  mySqlHandshakeV10_spec_roundtrip x s h

/-- The length rule of `auth-plugin-data-part-2` (repaired; it used to be `len - 8` octets, read only
with `CLIENT_PLUGIN_AUTH`): `MAX(13, len - 8)` octets with `CLIENT_PLUGIN_AUTH` — 13 for every length
octet up to 21 —; 13 octets with `CLIENT_SECURE_CONNECTION` alone, whatever the filler in the length
octet; none with neither capability. -/
theorem mysql_handshakeV10_len_rule (caps : List Nat) (len : Nat) :
    (caps.contains CLIENT_PLUGIN_AUTH = true → authPluginData2Len caps len = max 13 (len - 8)) ∧
    (caps.contains CLIENT_PLUGIN_AUTH = true → len ≤ 21 → authPluginData2Len caps len = 13) ∧
    (caps.contains CLIENT_PLUGIN_AUTH = false → caps.contains CLIENT_SECURE_CONNECTION = true →
      authPluginData2Len caps len = 13) ∧
    (caps.contains CLIENT_PLUGIN_AUTH = false → caps.contains CLIENT_SECURE_CONNECTION = false →
      authPluginData2Len caps len = 0) := by
  unfold authPluginData2Len
  refine ⟨fun h => by rw [if_pos h], fun h hl => by rw [if_pos h]; omega, fun h h' => ?_, fun h h' => ?_⟩
  · rw [if_neg (by rw [h]; decide), if_pos h']
  · rw [if_neg (by rw [h]; decide), if_neg (by rw [h']; decide)]

/-- Every greeting the parser accepts has the second part the documentation gives it: 13..247 octets
and a plugin name with `CLIENT_PLUGIN_AUTH`, 13 octets and no name with `CLIENT_SECURE_CONNECTION`
alone, neither otherwise; its length is the rule's value at a length octet below 256. -/
theorem mysql_handshakeV10_part2_parsed (bs : Bytes) (h : Cp.Opp.MySqlHandshakeV10) (n : Nat)
    (hp : parseMySqlHandshakeV10 bs = .ok (h, n)) :
    v10Part2Ok h ∧ ∃ len, len < 256 ∧
      (data2Bytes h.authPluginData2).length = authPluginData2Len h.capabilities len :=
  parseMySqlHandshakeV10_part2 hp

/-- `compose` writes only what `_parse` reads back (repaired: a second part without either capability
used to be written behind a zero length octet, one shorter than 13 octets behind its own length):
whenever it succeeds, the second part has the length the capabilities call for. -/
theorem mysql_handshakeV10_part2_composed (h : Cp.Opp.MySqlHandshakeV10) (b : Bytes)
    (hc : composeMySqlHandshakeV10 h = .ok b) :
    (if h.capabilities.contains CLIENT_PLUGIN_AUTH = true then
      13 ≤ (data2Bytes h.authPluginData2).length ∧ (data2Bytes h.authPluginData2).length ≤ 247 ∧
        ∃ nm, h.authPluginName = some nm
     else if h.capabilities.contains CLIENT_SECURE_CONNECTION = true then (data2Bytes h.authPluginData2).length = 13
     else (data2Bytes h.authPluginData2).length = 0) := composeMySqlHandshakeV10_part2 hc

/-- Null-terminated strings: every text the composer accepts comes back, with exactly the composed
octets consumed, whatever follows. -/
theorem strNul_roundtrip (v b s : Bytes) (h : composeStrNul v = .ok b) :
    parseStrNul (b ++ s) = .ok (v, b.length) := by
  obtain ⟨ha, h0, hb⟩ := composeStrNul_ok_inv h
  subst hb
  rw [(Cp.Opp.strNul_roundtrip v s ha h0).2]
  simp

/-- a text with an embedded NUL is rejected by the composer (it used to be written as it was) -/
theorem strNul_rejects_nul (v : Bytes) (h0 : (0 : UInt8) ∈ v) : composeStrNul v = .error .invalidValue :=
  composeStrNul_nul v h0

/-- and an ASCII text without NUL is accepted: the text followed by `00` -/
theorem strNul_layout (v : Bytes) (ha : isAscii v = true) (h0 : (0 : UInt8) ∉ v) :
    composeStrNul v = .ok (v ++ [0]) := composeStrNul_ok v ha h0

/-! ### X.224 connection request / confirm -/

/-- Layout, full statement: `src_ref` is the SRC-REF of X.224 §13.3 and `dst_ref` its DST-REF.
False: the code writes `src_ref` into the DST-REF octets (3-4) and `dst_ref` into the SRC-REF
octets (5-6). -/
def cotp_layout_full : Prop := ∀ c : Cotp, cotpWf c → composeCotp c = .ok (encodeX224 c.toSpec)

theorem cotp_layout_full_fails : ¬ cotp_layout_full := by
  intro h
  have := h ⟨.request, 1, 2, 0, []⟩ ⟨by decide, by decide, rfl, by decide⟩
  exact absurd this (by decide)

/-- What does hold: the octets are the X.224 TPDU of the value with the two references exchanged;
they are the specified ones exactly when the two references are equal. -/
theorem cotp_layout_partial (c : Cotp) (h : cotpWf c) :
    composeCotp c = .ok (encodeX224 c.toSpecSwapped) ∧
    (c.srcRef = c.dstRef → composeCotp c = .ok (encodeX224 c.toSpec)) := by
  refine ⟨composeCotp_swapped c h, fun e => ?_⟩
  rw [composeCotp_swapped c h]
  unfold Cotp.toSpec Cotp.toSpecSwapped
  rw [e]

/-- Type preservation: a connection PDU parsed by its own class comes back with its class and every
field, exactly the encoding is consumed, whatever follows it. -/
theorem cotp_type_preserved (c : Cotp) (h : cotpWf c) (s : Bytes) :
    ∃ b, composeCotp c = .ok b ∧ parseCotp c.cls (b ++ s) = .ok (c, b.length) := by
  refine ⟨_, composeCotp_swapped c h, ?_⟩
  obtain ⟨hs, hd, ho, hl⟩ := h
  have := parseCotp_encode c.toSpecSwapped c.cls s rfl ⟨hs, hd, hl⟩
  rw [this]
  obtain ⟨k, sr, ds, co, ud⟩ := c
  simp only at ho
  subst ho
  rfl

/-- the class of a parsed connection PDU is the class the parser was called on … -/
theorem cotp_type_on_wire (want : CotpClass) (bs : Bytes) (c : Cotp) (n : Nat)
    (h : parseCotp want bs = .ok (c, n)) : c.cls = want := parseCotp_tag want bs c n h

/-- … and a PDU whose type code is the other class's is refused with `InvalidType`: a confirm is
never returned as a request, nor a request as a confirm. -/
theorem cotp_other_class_rejected (x : X224Connection) (want : CotpClass) (s : Bytes) (hk : want.kind ≠ x.kind)
    (h : x.wf) : parseCotp want (encodeX224 x ++ s) = .error .invalidType := parseCotp_other x want s hk h

theorem x224_spec (x : X224Connection) (s : Bytes) (h : x.wf) :
    decodeX224 (encodeX224 x ++ s) = some (x, (encodeX224 x).length) := x224_spec_roundtrip x s h

theorem cotp_lenBound_noCrash (want : CotpClass) :
    LenBound ⟨parseCotp want, composeCotp⟩ ∧ NoCrash ⟨parseCotp want, composeCotp⟩ :=
  ⟨cotp_lenBound want, cotp_noCrash want⟩

/-! ### RDP negotiation request / response -/

theorem rdpNeg_layout (r : Cp.Opp.RdpNeg) (h : rdpNegWf r) : composeRdpNeg r = .ok (encodeRdpNeg r.toSpec) :=
  composeRdpNeg_spec r h

/-- the value AND its class come back -/
theorem rdpNeg_roundtrip (r : Cp.Opp.RdpNeg) (s : Bytes) (h : rdpNegWf r) :
    parseRdpNeg r.cls (encodeRdpNeg r.toSpec ++ s) = .ok (r, 8) := parseRdpNeg_encode r s h

/-- the class of a parsed negotiation PDU is the one whose type octet is on the wire: a response is
never returned as a request (and conversely) -/
theorem rdpNeg_type_on_wire (want : RdpNegClass) (bs : Bytes) (r : Cp.Opp.RdpNeg) (n : Nat)
    (h : parseRdpNeg want bs = .ok (r, n)) :
    r.cls = want ∧ n = 8 ∧ decNat .little (bs.take 1) = want.typeCode := parseRdpNeg_tag want bs r n h

theorem rdpNeg_spec (x : Spec.Opp.RdpNeg) (s : Bytes) (h : x.wf) : decodeRdpNeg (encodeRdpNeg x ++ s) = some (x, 8) :=
  rdpNeg_spec_roundtrip x s h

/-- Round trip over EVERYTHING the constructor accepts (`rdpNegConstructible`: flags of the class's
enumeration and members of `RDPProtocol`, the zero-valued `RDP` included, in any order and with
repetitions — the arguments are Python iterables).  Repaired: the constructor drops `RDPProtocol.RDP`
(`RdpNeg.construct`), so the constructed value composes, and its octets — whatever follows them —
parse to a message of the same class with the same SET of flags and the same SET of protocols, in
member order (`rdpNegWf`).  It used to be false: `{RDP}` composed to the zero field and parsed back
as the empty set. -/
theorem rdpNeg_roundtrip_full (cls : RdpNegClass) (flags protocol : List Nat)
    (hc : rdpNegConstructible cls flags protocol) (s : Bytes) :
    ∃ b r', composeRdpNeg (RdpNeg.construct cls flags protocol) = .ok b ∧ b.length = 8 ∧
      parseRdpNeg cls (b ++ s) = .ok (r', 8) ∧ r'.cls = cls ∧ rdpNegWf r' ∧
      (∀ x, x ∈ r'.flags ↔ x ∈ (RdpNeg.construct cls flags protocol).flags) ∧
      (∀ x, x ∈ r'.protocol ↔ x ∈ (RdpNeg.construct cls flags protocol).protocol) := by
  have hw := rdpNegCanon_wf cls flags protocol
  refine ⟨encodeRdpNeg (rdpNegCanon cls flags protocol).toSpec, rdpNegCanon cls flags protocol, ?_, ?_, ?_, rfl, hw, ?_, ?_⟩
  · rw [composeRdpNeg_canon cls flags protocol hc]; exact composeRdpNeg_spec _ hw
  · simp [encodeRdpNeg]
  · exact parseRdpNeg_encode _ s hw
  · intro x
    exact mem_canonSel_map _ _ (fun v hv => by rw [← rdp_flagCodes]; exact hc.1 v hv) x
  · intro x
    exact mem_canonSel_map _ _ (rdp_protocol_nonzero hc.2) x

/-- `{RDP}` and `set()` are one value: the zero-valued member changes nothing in what is constructed -/
theorem rdpNeg_zero_member_dropped (cls : RdpNegClass) (flags protocol : List Nat) :
    RdpNeg.construct cls flags (0 :: protocol) = RdpNeg.construct cls flags protocol ∧
    0 ∉ (RdpNeg.construct cls flags protocol).protocol := by
  refine ⟨by simp [RdpNeg.construct], ?_⟩
  intro h
  have := (List.mem_filter.mp h).2
  simp at this

/-- and a message given in member order comes back as the very same value -/
theorem rdpNeg_roundtrip_exact (cls : RdpNegClass) (fsel psel : List Nat) (hf : fsel.Sublist cls.flagExps)
    (hp : psel.Sublist rdpProtocolExps) (zeros : Nat) (s : Bytes) :
    let r := RdpNeg.construct cls (fsel.map (2 ^ ·)) (List.replicate zeros 0 ++ psel.map (2 ^ ·))
    ∃ b, composeRdpNeg r = .ok b ∧ parseRdpNeg cls (b ++ s) = .ok (r, 8) := by
  have hr : RdpNeg.construct cls (fsel.map (2 ^ ·)) (List.replicate zeros 0 ++ psel.map (2 ^ ·)) =
      ⟨cls, fsel.map (2 ^ ·), psel.map (2 ^ ·)⟩ := by
    unfold RdpNeg.construct
    rw [List.filter_append, filter_pow_ne_zero]
    have : (List.replicate zeros 0).filter (· != 0) = [] := by
      rw [List.filter_eq_nil_iff]; intro a ha; rw [List.eq_of_mem_replicate ha]; decide
    rw [this, List.nil_append]
  have hw : rdpNegWf ⟨cls, fsel.map (2 ^ ·), psel.map (2 ^ ·)⟩ := ⟨fsel, psel, hf, hp, rfl, rfl⟩
  simp only [hr]
  exact ⟨_, composeRdpNeg_spec _ hw, parseRdpNeg_encode _ s hw⟩

/-- no parse of any flag field ever yields a zero-valued member (any member table, any width) -/
theorem flags_never_zero (bo : ByteOrder) (k sh : Nat) (members : List Nat) (rest : Bytes) (hits : List Nat) (n : Nat)
    (h : parseFlags bo k sh members rest = .ok (hits, n)) : 0 ∉ hits :=
  fun h0 => ((parseFlags_ok_inv bo k sh members rest hits n h).2 0 h0).1 rfl

/-! ### OpenVPN control channel -/

theorem ovpn_layout (p : Cp.Opp.OvpnPacket) (h : ovpnWf p) : composeOvpn p = .ok (encodeOvpn p.toSpec) :=
  composeOvpn_spec p h

/-- acknowledgement and hard-reset packets: value and class come back, with any suffix, both
through the class's own parser and through the variant parser (which selects by the op code) -/
theorem ovpn_roundtrip_fixed (p : Cp.Opp.OvpnPacket) (h : ovpnWf p) (hnc : ∀ hd pid pl, p ≠ .control hd pid pl) (s : Bytes) :
    ∃ b, composeOvpn p = .ok b ∧ ovpnParserOf p (b ++ s) = .ok (p, b.length) ∧
      parseOvpnVariant (b ++ s) = .ok (p, b.length) := by
  refine ⟨encOvpn p, composeOvpn_enc p h, parseOvpn_enc_fixed p h hnc s, ?_⟩
  rw [parseOvpnVariant_enc p h s]
  exact parseOvpn_enc_fixed p h hnc s

/-- control packets: the payload is the rest of the datagram, so what follows the composed octets
joins the payload; with nothing following, the packet round-trips -/
theorem ovpn_roundtrip_control (hd : OvpnHeader) (pid : Nat) (pl s : Bytes) (hh : ovpnHeaderWf hd) (hp : pid < 2 ^ 32) :
    ∃ b, composeOvpn (.control hd pid pl) = .ok b ∧
      parseOvpnControl (b ++ s) = .ok (.control hd pid (pl ++ s), b.length + s.length) ∧
      parseOvpnVariant (b ++ s) = .ok (.control hd pid (pl ++ s), b.length + s.length) := by
  have hw : ovpnWf (.control hd pid pl) := ⟨hh, hp⟩
  refine ⟨encOvpn (.control hd pid pl), composeOvpn_enc _ hw, parseOvpnControl_enc hd pid pl s hh hp, ?_⟩
  rw [parseOvpnVariant_enc _ hw s]
  exact parseOvpnControl_enc hd pid pl s hh hp

theorem ovpn_spec (x : Spec.Opp.OvpnPacket) (h : x.wf) : decodeOvpn (encodeOvpn x) = some x :=
  ovpn_spec_roundtrip x h

/-! ### C04 for the four framing units: a reader driven by the missing-byte counts reassembles any
stream of records from any fragmentation (generic theorem of `CpProofs/Reader.lean`) -/

theorem tpkt_reader_reassembles (rs : List Tpkt) (hwf : ∀ r ∈ rs, tpktWf r) (chunks : List Bytes)
    (h : chunks.flatten = Reader.enc tpktCodec rs) :
    (chunks.foldl (Reader.feed tpktCodec) Reader.init).out = rs ∧
    (chunks.foldl (Reader.feed tpktCodec) Reader.init).buf = [] ∧
    (chunks.foldl (Reader.feed tpktCodec) Reader.init).failed = none :=
  Reader.reader_reassembles tpkt_roundTrip tpkt_prefixReject tpkt_composePos rs hwf chunks h

theorem mysql_packet_reader_reassembles (rs : List MySqlRecord) (hwf : ∀ r ∈ rs, mySqlRecordWf r) (chunks : List Bytes)
    (h : chunks.flatten = Reader.enc mySqlRecordCodec rs) :
    (chunks.foldl (Reader.feed mySqlRecordCodec) Reader.init).out = rs ∧
    (chunks.foldl (Reader.feed mySqlRecordCodec) Reader.init).buf = [] ∧
    (chunks.foldl (Reader.feed mySqlRecordCodec) Reader.init).failed = none :=
  Reader.reader_reassembles mySqlRecord_roundTrip mySqlRecord_prefixReject mySqlRecord_composePos rs hwf chunks h

theorem ovpn_tcp_reader_reassembles (rs : List Bytes) (hwf : ∀ r ∈ rs, r.length < 65536) (chunks : List Bytes)
    (h : chunks.flatten = Reader.enc wrapperTcpCodec rs) :
    (chunks.foldl (Reader.feed wrapperTcpCodec) Reader.init).out = rs ∧
    (chunks.foldl (Reader.feed wrapperTcpCodec) Reader.init).buf = [] ∧
    (chunks.foldl (Reader.feed wrapperTcpCodec) Reader.init).failed = none :=
  Reader.reader_reassembles wrapper_roundTrip wrapper_prefixReject wrapper_composePos rs hwf chunks h

theorem pg_sslRequest_reader_reassembles (rs : List Unit) (chunks : List Bytes)
    (h : chunks.flatten = Reader.enc sslRequestUnitCodec rs) :
    (chunks.foldl (Reader.feed sslRequestUnitCodec) Reader.init).out = rs ∧
    (chunks.foldl (Reader.feed sslRequestUnitCodec) Reader.init).buf = [] ∧
    (chunks.foldl (Reader.feed sslRequestUnitCodec) Reader.init).failed = none :=
  Reader.reader_reassembles sslRequest_roundTrip sslRequest_prefixReject sslRequest_composePos rs
    (fun _ _ => trivial) chunks h

/-! ### LDAP StartTLS: the specification constants (no model counterpart) -/

theorem ldap_startTls_constants :
    ldapStartTlsRequest.length = 31 ∧ (ldapStartTlsResponse 0).length = 14 ∧
    ldapStartTlsRequest.take 2 = [0x30, 0x1d] ∧ (ldapStartTlsResponse 0).take 2 = [0x30, 0x0c] := by decide

/-! ### non-vacuity: concrete values satisfying the hypotheses, concrete octets -/

example : tpktWf ⟨3, [1, 2, 3]⟩ := ⟨rfl, by decide⟩
example : composeTpkt ⟨3, [1, 2, 3]⟩ = .ok [3, 0, 0, 7, 1, 2, 3] := by decide
example : parseTpkt [3, 0, 0, 7, 1, 2, 3, 9, 9] = .ok (⟨3, [1, 2, 3]⟩, 7) := by decide
example : parseTpkt [3, 0, 0, 7, 1, 2] = .error (.notEnough 1) := by decide
example : parseTpkt [3, 0, 0, 3] = .error .invalidValue := by decide

example : mySqlRecordWf ⟨1, [0x78, 0x78, 0x78]⟩ := ⟨by decide, by decide⟩
example : composeMySqlRecord ⟨1, [0x78, 0x78, 0x78]⟩ = .ok [3, 0, 0, 1, 0x78, 0x78, 0x78] := by decide
example : parseMySqlRecord [3, 0, 0, 1, 0x78, 0x78, 0x78, 7] = .ok (⟨1, [0x78, 0x78, 0x78]⟩, 7) := by decide

example : cotpWf ⟨.confirm, 1, 2, 0, [0x61]⟩ := ⟨by decide, by decide, rfl, by decide⟩
example : composeCotp ⟨.request, 0x0102, 0x0304, 0, [9]⟩ = .ok [7, 0xe0, 1, 2, 3, 4, 0, 9] := by decide
example : encodeX224 ⟨.cr, 0x0102, 0x0304, [9]⟩ = [7, 0xe0, 1, 2, 3, 4, 0, 9] := by decide
-- a confirm is refused by the request class (`InvalidType`) and accepted, as a confirm, by its own
example : parseCotp .request [0x07, 0xd0, 0, 1, 0, 2, 0, 0x61] = .error .invalidType := by decide
example : parseCotp .confirm [0x07, 0xd0, 0, 1, 0, 2, 0, 0x61] = .ok (⟨.confirm, 1, 2, 0, [0x61]⟩, 8) := by decide
example : composeStrNul [0x35, 0x00, 0x37] = .error .invalidValue := by decide
example : composeStrNul [0x35, 0x2e, 0x37] = .ok [0x35, 0x2e, 0x37, 0x00] := by decide

example : rdpNegWf ⟨.response, [2 ^ 0, 2 ^ 3], [2 ^ 1]⟩ :=
  ⟨[0, 3], [1], by decide, by decide, rfl, rfl⟩
example : composeRdpNeg ⟨.response, [1, 8], [2]⟩ = .ok [2, 9, 8, 0, 2, 0, 0, 0] := by decide
example : parseRdpNeg .response [2, 9, 8, 0, 2, 0, 0, 0] = .ok (⟨.response, [1, 8], [2]⟩, 8) := by decide
example : parseRdpNeg .request [2, 9, 8, 0, 2, 0, 0, 0] = .error .invalidType := by decide
-- the former witness of `rdp-zero-flag`: `RDPNegotiationRequest(set(), {RDPProtocol.RDP})` is constructible, is the
-- value with the empty protocol set, composes to the zero field and parses back as itself
example : rdpNegConstructible .request [] [0] := ⟨by decide, by decide⟩
example : RdpNeg.construct .request [] [0] = ⟨.request, [], []⟩ := by decide
example : composeRdpNeg (RdpNeg.construct .request [] [0]) = .ok [1, 0, 8, 0, 0, 0, 0, 0] := by decide
example : parseRdpNeg .request [1, 0, 8, 0, 0, 0, 0, 0] = .ok (RdpNeg.construct .request [] [0], 8) := by decide
example : RdpNeg.construct .response [] [2, 0, 1, 0] = ⟨.response, [], [2, 1]⟩ := by decide
example : parseRdpNeg .response [2, 0, 8, 0, 3, 0, 0, 0] = .ok (⟨.response, [], [1, 2]⟩, 8) := by decide

example : ovpnWf (.hardResetServer ⟨1, [3, 4], some 2⟩ 9) := by
  refine ⟨⟨by decide, by decide, by decide, by decide, by decide⟩, by decide⟩
example : composeOvpn (.hardResetClient 0x1122334455667788 5) =
    .ok [0x38, 0x11, 0x22, 0x33, 0x44, 0x55, 0x66, 0x77, 0x88, 0, 0, 0, 0, 5] := by decide
example : parseOvpnVariant [0x38, 0x11, 0x22, 0x33, 0x44, 0x55, 0x66, 0x77, 0x88, 0, 0, 0, 0, 5, 0xaa] =
    .ok (.hardResetClient 0x1122334455667788 5, 14) := by decide
example : parseOvpnHardResetServer [0x38, 0, 0, 0, 0, 0, 0, 0, 1, 0, 0, 0, 0, 5] = .error .invalidType := by decide

example : mySqlSslWf ⟨[2 ^ 9, 2 ^ 11, 2 ^ 19], 2 ^ 24, some 8⟩ :=
  ⟨[9, 11, 19], by decide, rfl, by decide⟩
example : composeMySqlSslRequest ⟨[2 ^ 9, 2 ^ 11, 2 ^ 19], 2 ^ 24, some 8⟩ =
    .ok ([0x00, 0x0a, 0x08, 0x00, 0, 0, 0, 1, 8] ++ List.replicate 23 0) := by decide
example : mySqlSslWf ⟨[2 ^ 11], 0xffffff, none⟩ := ⟨[11], by decide, rfl, by decide⟩
example : parseMySqlSslRequest [0x00, 0x08, 0xff, 0xff, 0xff] = .ok (⟨[2048], 0xffffff, none⟩, 5) := by decide

/-! ### MySQL `HandshakeV10`: the former findings as regression examples -/

/-- `0a "5.1.73" 00 | 09000000 | "abcdefgh" | 00 | caps lo | 08 | 0200 | caps hi | len | 10 x 00` -/
def v10Head (capsLo capsHi len : Bytes) : Bytes :=
  [0x0a, 0x35, 0x2e, 0x31, 0x2e, 0x37, 0x33, 0x00, 0x09, 0, 0, 0, 0x61, 0x62, 0x63, 0x64, 0x65, 0x66, 0x67, 0x68, 0x00] ++
    capsLo ++ [0x08, 0x02, 0x00] ++ capsHi ++ len ++ List.replicate 10 0

/-- twelve scramble octets and the terminating NUL: what a server sends as `auth-plugin-data-part-2` -/
def v10Scramble : Bytes := [0x69, 0x6a, 0x6b, 0x6c, 0x6d, 0x6e, 0x6f, 0x70, 0x71, 0x72, 0x73, 0x74, 0x00]

/-- second part, plugin name, consumed length -/
def v10View (r : Except PErr (Cp.Opp.MySqlHandshakeV10 × Nat)) : Except PErr (Option Bytes × Option Bytes × Nat) :=
  r.map fun (h, n) => (h.authPluginData2, h.authPluginName, n)

-- the greeting of a MySQL 5.1 server (capabilities 0xf7ff: CLIENT_SECURE_CONNECTION, no CLIENT_PLUGIN_AUTH): the 13
-- octets behind the reserved ones are read (it used to be TooMuchData under parse_exact_size: 39 of 52 consumed)
example : v10View (parseMySqlHandshakeV10 (v10Head [0xff, 0xf7] [0, 0] [0] ++ v10Scramble)) =
    .ok (some v10Scramble, none, 52) := by decide
-- the length octet is a filler there
example : v10View (parseMySqlHandshakeV10 (v10Head [0xff, 0xf7] [0, 0] [77] ++ v10Scramble ++ [1, 2])) =
    .ok (some v10Scramble, none, 52) := by decide
example : parseMySqlHandshakeV10 (v10Head [0xff, 0xf7] [0, 0] [0] ++ v10Scramble.take 12) = .error (.notEnough 1) := by decide
-- CLIENT_PLUGIN_AUTH (bit 19), length octet 21, 8 and 3: MAX(13, len - 8) = 13 octets, then the plugin name "x"
-- (with 8 the thirteen octets used to be taken for the plugin name; 3 used to be an InvalidValue)
example : v10View (parseMySqlHandshakeV10 (v10Head [0x00, 0x80] [0x08, 0] [21] ++ v10Scramble ++ [0x78, 0])) =
    .ok (some v10Scramble, some [0x78], 54) := by decide
example : v10View (parseMySqlHandshakeV10 (v10Head [0x00, 0x80] [0x08, 0] [8] ++ v10Scramble ++ [0x78, 0])) =
    .ok (some v10Scramble, some [0x78], 54) := by decide
example : v10View (parseMySqlHandshakeV10 (v10Head [0x00, 0x00] [0x08, 0] [3] ++ v10Scramble ++ [0x78, 0])) =
    .ok (some v10Scramble, some [0x78], 54) := by decide
example : v10View (parseMySqlHandshakeV10 (v10Head [0x00, 0x00] [0x08, 0] [22] ++ 0x41 :: v10Scramble ++ [0x78, 0])) =
    .ok (some (0x41 :: v10Scramble), some [0x78], 55) := by decide
-- CLIENT_PLUGIN_AUTH with the length octet 0 stays an InvalidValue (pinned by test_mysql)
example : parseMySqlHandshakeV10 (v10Head [0x00, 0x80] [0x08, 0] [0] ++ v10Scramble ++ [0x78, 0]) = .error .invalidValue := by
  decide
-- neither capability: nothing behind the reserved octets
example : v10View (parseMySqlHandshakeV10 (v10Head [0x00, 0x08] [0, 0] [0] ++ v10Scramble)) = .ok (none, none, 39) := by decide
-- compose refuses a second part that would not be read back as written
example : composeMySqlHandshakeV10 ⟨10, [0x35], 9, [1, 2, 3, 4, 5, 6, 7, 8], [2 ^ 19], 8, [], some [1, 2, 3], some [0x78]⟩ =
    .error .invalidValue := by decide
example : composeMySqlHandshakeV10 ⟨10, [0x35], 9, [1, 2, 3, 4, 5, 6, 7, 8], [2 ^ 15], 8, [], none, none⟩ =
    .error .invalidValue := by decide
example : composeMySqlHandshakeV10 ⟨10, [0x35], 9, [1, 2, 3, 4, 5, 6, 7, 8], [2 ^ 15], 8, [], some (0x41 :: v10Scramble), none⟩ =
    .error .invalidValue := by decide
example : composeMySqlHandshakeV10 ⟨10, [0x35], 9, [1, 2, 3, 4, 5, 6, 7, 8], [2 ^ 11], 8, [], some [1], none⟩ =
    .error .invalidValue := by decide
-- and writes a pre-5.5.7 greeting as the documentation lays it out: length octet 00, thirteen octets
example : composeMySqlHandshakeV10 ⟨10, [0x35], 9, [1, 2, 3, 4, 5, 6, 7, 8], [2 ^ 15], 8, [2], some v10Scramble, none⟩ =
    .ok ([0x0a, 0x35, 0, 9, 0, 0, 0, 1, 2, 3, 4, 5, 6, 7, 8, 0, 0x00, 0x80, 8, 2, 0, 0, 0, 0] ++ List.replicate 10 0 ++
      v10Scramble) := by decide
-- both kinds are inside the domain of the round-trip theorem
example : mySqlV10Wf ⟨10, [0x35], 9, [1, 2, 3, 4, 5, 6, 7, 8], [2 ^ 11, 2 ^ 15], 8, [2 ^ 1], some v10Scramble, none⟩ :=
  ⟨by decide, by decide, by decide, by decide, rfl, by decide, [11, 15], [1], by decide, rfl, by decide, rfl,
    by simp [v10Scramble]⟩
example : mySqlV10Wf ⟨10, [0x35], 9, [1, 2, 3, 4, 5, 6, 7, 8], [2 ^ 15, 2 ^ 19], 8, [], some v10Scramble, some [0x78]⟩ :=
  ⟨by decide, by decide, by decide, by decide, rfl, by decide, [15, 19], [], by decide, rfl, by decide, rfl,
    by simp [v10Scramble, isAscii]⟩

-- two TPKTs delivered in three arbitrary pieces
example : (Reader.run tpktCodec [[3, 0, 0], [5, 9, 3, 0, 0], [4]]).out = [⟨3, [9]⟩, ⟨3, []⟩] := by decide
example : wrapperTcpCodec.parse [0, 3, 0x61, 0x62, 0x63, 0x64] = .ok ([0x61, 0x62, 0x63], 5) := by decide
example : parseSslRequest [0, 0, 0, 8, 0x04, 0xd2, 0x16, 0x2f, 1] = .ok ((), 8) := by decide
example : parseSslRequest [0, 0, 0, 8, 0x04, 0xd2, 0x16] = .error (.notEnough 1) := by decide

end Cp.C09
