import CpProofs.Tls2
/-
  C03 — reported consumed length is exact and framing units are self-delimiting.
-/
namespace Cp.C03
open Cp Cp.Codec Cp.Tls

/-! the entry points, for every codec -/

/-- the in-place variant removes exactly the first `n` bytes and nothing else -/
theorem mutable_removes_exactly {α : Type} {c : Codec α} (hl : LenBound c) {b : Bytes} {v : α} {n : Nat}
    (h : c.parse b = .ok (v, n)) :
    parseMutable c b = (.ok v, b.drop n) ∧ b = b.take n ++ (parseMutable c b).2 ∧ n ≤ b.length :=
  ⟨parseMutable_ok h, (parseMutable_removes_prefix hl h).2, hl b v n h⟩

/-- a failed parse leaves the caller's buffer untouched -/
theorem mutable_failure_untouched {α : Type} {c : Codec α} {b : Bytes} {e : PErr} (h : c.parse b = .error e) :
    parseMutable c b = (.error e, b) := parseMutable_err h

/-- the exact-size variant succeeds precisely when the consumed length equals the buffer length -/
theorem exact_iff {α : Type} {c : Codec α} (hl : LenBound c) (b : Bytes) :
    (∃ v, parseExact c b = .ok v) ↔ ∃ v, c.parse b = .ok (v, b.length) := parseExact_iff hl b

/-! consumed length never exceeds the buffer: primitives and combinators -/

theorem num (bo : ByteOrder) (k : Nat) : LenBound (Codec.num bo k) := num_lenBound bo k
theorem bytesPrefixed (bo : ByteOrder) (k : Nat) : LenBound (Codec.bytesPrefixed bo k) :=
  bytesPrefixed_lenBound bo k

/-- `parse_raw`: a negative size is rejected, so the cursor can never move backwards -/
theorem parseRaw_bound (size : Int) (rest v : Bytes) (n : Nat) (h : Cp.parseRaw size rest = .ok (v, n)) :
    0 ≤ size ∧ n = size.toNat ∧ n ≤ rest.length := by
  obtain ⟨h1, h2, h3, _⟩ := parseRaw_ok_inv h
  exact ⟨h1, h2, h3⟩

theorem seq {α β : Type} {a : Codec α} {b : Codec β} (ha : LenBound a) (hb : LenBound b) :
    LenBound (Codec.seq a b) := seq_lenBound ha hb

/-! TLS record: a framing unit -/

theorem tlsRecord_lenBound : LenBound recordCodec := record_lenBound
theorem tlsRecord_positive : Positive recordCodec := record_positive
theorem tlsRecord_selfDelim : SelfDelim recordCodec := record_selfDelim

/-- n equals the length the record header declares: 5 + the 16-bit length field at offset 3 -/
theorem tlsRecord_declared (bs : Bytes) (r : Record) (t : Nat) (h : recordCodec.parse bs = .ok (r, t)) :
    t = 5 + decNat .network ((bs.drop 3).take 2) := (record_declared_length bs r t h).1

/-! TLS handshake messages: EVERY class (any payload parser) -/

theorem tlsHandshake_lenBound {α : Type} (typ : Nat) (inner : Codec α) : LenBound (hsFramed typ inner) :=
  hs_lenBound typ inner
theorem tlsHandshake_positive {α : Type} (typ : Nat) (inner : Codec α) : Positive (hsFramed typ inner) :=
  hs_positive typ inner
theorem tlsHandshake_selfDelim {α : Type} (typ : Nat) (inner : Codec α) : SelfDelim (hsFramed typ inner) :=
  hs_selfDelim typ inner

/-- n = 4 + the 24-bit length field at offset 1 -/
theorem tlsHandshake_declared {α : Type} (typ : Nat) (inner : Codec α) (bs : Bytes) (v : α) (t : Nat)
    (h : (hsFramed typ inner).parse bs = .ok (v, t)) : t = 4 + decNat .network ((bs.drop 1).take 3) :=
  hs_declared_length typ inner bs v t h

theorem tlsAlert_lenBound : LenBound alertCodec := alert_lenBound
theorem tlsChangeCipherSpec_lenBound : LenBound ccsCodec := ccs_lenBound

/-! non-vacuity: two records back to back; the first parse sees only its own 8 bytes -/
example : recordCodec.parse ([22, 3, 3, 0, 3, 1, 2, 3] ++ [21, 3, 3, 0, 2, 2, 40]) = .ok (⟨22, 4, [1, 2, 3]⟩, 8) := by
  decide +kernel

end Cp.C03
