import CpProofs.Hello
/-
  C02 for the TLS handshake messages with structured payloads: parsing untrusted bytes fails only
  with the documented parse errors.

  The model reports a class it does not cover (`TlsHandshakeCertificateRequest`; the SNI, ALPN,
  key-share, … extension classes) with the pseudo-error `crash "UNMODELLED"`, so the law is stated
  as "the only crash kind reachable is UNMODELLED".  In particular the fuel-exhaustion crash
  `"NonTermination"` of the item loops is unreachable: every item parser consumes at least one byte.
-/
namespace Cp.C02
open Cp Cp.Codec Cp.Tls Cp.Hello

theorem tlsClientHello : NoCrashButUnmodelled clientHelloCodec := clientHello_noCrash

theorem tlsServerHello (typ : Nat) : NoCrashButUnmodelled (serverHelloCodec typ) := serverHello_noCrash typ

/-- the certificate message touches no unmodelled class: no crash at all -/
theorem tlsCertificateMessage : NoCrash certificateCodec := certificate_noCrash

/-- `TlsHandshakeMessageVariant` -/
theorem tlsHandshakeVariant : NoCrashButUnmodelled handshakeCodec := handshake_noCrash

/-- the item loops of the vectors inside the hello messages always terminate -/
theorem tlsHandshakeVariant_terminates (b : Bytes) :
    handshakeCodec.parse b ≠ .error (.crash "NonTermination") := by
  intro h
  have := handshake_noCrash b _ h
  exact absurd this (by decide)

/-- every error of one position of the extension vector is a documented one or the marker -/
theorem tlsExtensionItem {variants : List (String × Nat)} {bs : Bytes} {e : PErr}
    (h : parseExt variants bs = .error e) : Benign e ∨ e = unmodelled := parseExt_err h

/-! non-vacuity: the marker is reachable, and so are the documented errors -/
example : handshakeCodec.parse [13, 0, 0, 0] = .error (.crash "UNMODELLED") := by decide +kernel
example : handshakeCodec.parse [1, 0, 0, 1, 3] = .error (.notEnough 1) := by decide +kernel
example : handshakeCodec.parse [99, 0, 0, 0] = .error .invalidValue := by decide +kernel

end Cp.C02
