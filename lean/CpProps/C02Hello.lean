import CpProofs.Hello
/-
  C02 for the TLS handshake messages with structured payloads: parsing untrusted bytes fails only
  with the documented parse errors.

  The model reports what it does not cover (a server name the idna codec would not leave unchanged)
  with the pseudo-error `crash "UNMODELLED"`, so the law is stated as "the only crash kind reachable
  is UNMODELLED".  The server side reaches no class at that boundary: no crash at all
  (`tlsServerHello_full`; the SCT list's `TypeError` for the all-ones timestamp is repaired in the
  code, the input that raised it is kept below as a regression example).  The fuel-exhaustion crash
  `"NonTermination"` of the item loops is unreachable: every item parser consumes at least one byte.
-/
namespace Cp.C02
open Cp Cp.Codec Cp.Tls Cp.Hello

/-- the client side: the only crash kind is the model's boundary marker (a server name the idna
codec would not leave unchanged) -/
theorem tlsClientHello : NoCrashButUnmodelled clientHelloCodec := clientHello_noCrash

/-- the server side, full strength: no exception outside the four documented parse errors -/
theorem tlsServerHello_full (typ : Nat) : NoCrash (serverHelloCodec typ) := serverHello_noCrash typ

theorem tlsServerHello (typ : Nat) : NoCrashButUnmodelled (serverHelloCodec typ) :=
  fun b k h => absurd h (serverHello_noCrash typ b k)

/-- the certificate message touches no unmodelled class: no crash at all -/
theorem tlsCertificateMessage : NoCrash certificateCodec := certificate_noCrash

/-- `TlsHandshakeCertificateRequest`: no crash at all -/
theorem tlsCertificateRequest : NoCrash certificateRequestCodec := certificateRequest_noCrash

/-- `TlsHandshakeMessageVariant`: the only crash kind is the boundary marker (through ClientHello) -/
theorem tlsHandshakeVariant_full : NoCrashButUnmodelled handshakeCodec := handshake_noCrash

/-- the item loops of the vectors inside the hello messages always terminate -/
theorem tlsHandshakeVariant_terminates (b : Bytes) :
    handshakeCodec.parse b ≠ .error (.crash "NonTermination") := by
  intro h
  have := handshake_noCrash b _ h
  exact absurd this (by decide)

/-- every error of one position of the extension vector is a documented one, or — only when the
variant list has a class at the model's boundary — the marker -/
theorem tlsExtensionItem {variants : List (String × Nat)} {bs : Bytes} {e : PErr}
    (h : parseExt variants bs = .error e) :
    Benign e ∨ (e = unmodelled ∧ hasBoundary variants = true) := parseExt_err h

/-- the server variant has no such class: documented errors only -/
theorem tlsExtensionItemServer {bs : Bytes} {e : PErr}
    (h : parseExt Gen.extVariantsServer bs = .error e) : Benign e := by
  rcases parseExt_err h with hb | ⟨_, hs⟩
  · exact hb
  · rw [server_has_no_boundary] at hs; cases hs

/-! ### which error: an extension that is there in full is never `NotEnoughData`

The variant reports a class that runs short of data inside a COMPLETE extension as `InvalidValue`, and
the list keeps that extension by the fallback class.  `HoldsExt bs`: `bs` has the four header bytes and
the data the header declares. -/

/-- `TlsExtensionVariantClient/Server`: never `NotEnoughData` on a whole extension -/
theorem tlsExtensionVariant_complete (variants : List (String × Nat)) {bs : Bytes} (h : HoldsExt bs) (n : Int) :
    parseExtVariant variants bs ≠ .error (.notEnough n) := parseExtVariant_complete variants h n

/-- one position of `TlsExtensionsClient/Server` on a whole extension: it parses, or a vector nested in
the body raises `TooMuchData`, or (client side only) the model's boundary is reached — neither
`NotEnoughData` nor `InvalidValue` -/
theorem tlsExtensionItem_complete {variants : List (String × Nat)} {bs : Bytes} (h : HoldsExt bs) {e : PErr}
    (he : parseExt variants bs = .error e) :
    (∃ n, e = .tooMuch n) ∨ (e = unmodelled ∧ hasBoundary variants = true) := parseExt_complete h he

/-- the converse reading: `NotEnoughData` at a position means the list does not hold a whole extension there -/
theorem tlsExtensionItem_notEnough {variants : List (String × Nat)} {bs : Bytes} {n : Int}
    (h : parseExt variants bs = .error (.notEnough n)) : ¬ HoldsExt bs := parseExt_notEnough_inv h

/-- the extension list of the client hello fails with `NotEnoughData` only when the list is cut short or,
at a position the item loop reaches, what is left of the list does not hold a whole extension -/
theorem tlsExtensionsClient_notEnough {bs : Bytes} {n : Int}
    (h : parseExtensions Gen.extVariantsClient (vp Gen.vec_TlsExtensionsClient) bs = .error (.notEnough n)) :
    bs.length < 2 ∨ (bs.drop 2).length < decNat .network (bs.take 2) ∨
    ∃ k, k < decNat .network (bs.take 2) ∧
      ¬ HoldsExt (((bs.drop 2).take (decNat .network (bs.take 2))).drop k) :=
  parseExtensions_notEnough_inv clientHello_size_facts.2.1 (by decide +kernel) h

theorem tlsExtensionsServer_notEnough {bs : Bytes} {n : Int}
    (h : parseExtensions Gen.extVariantsServer (vp Gen.vec_TlsExtensionsServer) bs = .error (.notEnough n)) :
    bs.length < 2 ∨ (bs.drop 2).length < decNat .network (bs.take 2) ∨
    ∃ k, k < decNat .network (bs.take 2) ∧
      ¬ HoldsExt (((bs.drop 2).take (decNat .network (bs.take 2))).drop k) :=
  parseExtensions_notEnough_inv serverHello_size_facts.2.1 (by decide +kernel) h

/-- an ALPN extension of length 0 in front of another extension: kept by the fallback class -/
example : parseExtensions Gen.extVariantsClient (vp Gen.vec_TlsExtensionsClient) [0, 8, 0, 16, 0, 0, 0, 23, 0, 0] =
    .ok ([⟨"TlsExtensionUnparsed", 16, .raw []⟩, ⟨"TlsExtensionExtendedMasterSecret", 23, .empty⟩], 10) := by
  decide +kernel

/-- the variant itself reports it as an invalid value; the class parsed directly is short of data -/
example : parseExtVariant Gen.extVariantsClient [0, 16, 0, 0, 0, 23, 0, 0] = .error .invalidValue := by
  decide +kernel
example : parseExtBody (.ext2 .protocolNames) 0 [] = .error (.notEnough 2) := by decide +kernel

/-- a truncated extension is still `NotEnoughData` -/
example : parseExtVariant Gen.extVariantsClient [0, 16, 0, 5, 0, 3, 2] = .error (.notEnough 9) := by
  decide +kernel

/-! regression: the input that used to raise `TypeError` -/

/-- a ServerHello whose signed_certificate_timestamp extension carries an SCT with the all-ones
timestamp: the SCT is an invalid value, the extension is kept by the fallback class -/
def sctSentinelHello : Bytes :=
  let sct : Bytes := [0] ++ List.replicate 32 0x11 ++ List.replicate 8 0xff ++ [0, 0, 4, 3, 0, 0]
  let list : Bytes := [0, 47] ++ sct
  let ext : Bytes := [0, 18, 0, 51, 0, 49] ++ list
  let body : Bytes := [3, 3] ++ List.replicate 32 7 ++ [0, 0x13, 0x01, 0] ++ [0, 55] ++ ext
  [2, 0, 0, 95] ++ body

example : (serverHelloCodec 2).parse sctSentinelHello =
    .ok (⟨2, 4, ⟨0x07070707, List.replicate 28 7⟩, [], 361, 0,
      [⟨"TlsExtensionUnparsed", 18, .raw ([0, 49, 0, 47, 0] ++ List.replicate 32 0x11 ++ List.replicate 8 0xff ++
        [0, 0, 4, 3, 0, 0])⟩]⟩, 99) := by decide +kernel

/-! non-vacuity: the marker is reachable, and so are the documented errors -/

/-- a ClientHello with a server_name extension whose host name is `xn--a` (an ACE label: the idna
codec would decode it) -/
def aceHello : Bytes :=
  let ext : Bytes := [0, 0, 0, 10, 0, 8, 0, 0, 5, 0x78, 0x6e, 0x2d, 0x2d, 0x61]
  let body : Bytes := [3, 3] ++ List.replicate 32 7 ++ [0, 0, 2, 0x13, 0x01, 1, 0] ++ [0, 14] ++ ext
  [1, 0, 0, 57] ++ body

example : handshakeCodec.parse aceHello = .error (.crash "UNMODELLED") := by decide +kernel
example : handshakeCodec.parse [13, 0, 0, 0] = .error (.notEnough 1) := by decide +kernel
example : handshakeCodec.parse [1, 0, 0, 1, 3] = .error (.notEnough 1) := by decide +kernel
example : handshakeCodec.parse [99, 0, 0, 0] = .error .invalidValue := by decide +kernel

end Cp.C02
