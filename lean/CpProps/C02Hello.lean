import CpProofs.Hello
/-
  C02 for the TLS handshake messages with structured payloads: parsing untrusted bytes fails only
  with the documented parse errors.

  The model reports what it does not cover (a server name the idna codec would not leave unchanged)
  with the pseudo-error `crash "UNMODELLED"`, so the law is stated as "the only crash kind reachable
  is UNMODELLED".  On the server side the code HAS a crash that the model reproduces: the SCT list
  (`TlsExtensionSignedCertificateTimestampServer`) raises `TypeError` for the all-ones timestamp; the
  full statement is kept as a `def … : Prop` with a witness, and what holds is proved.  The
  fuel-exhaustion crash `"NonTermination"` of the item loops is unreachable: every item parser
  consumes at least one byte.
-/
namespace Cp.C02
open Cp Cp.Codec Cp.Tls Cp.Hello

/-- the client side: the only crash kind is the model's boundary marker (a server name the idna
codec would not leave unchanged) -/
theorem tlsClientHello : NoCrashButUnmodelled clientHelloCodec := clientHello_noCrash

/-- the full statement for the server side — FALSE of the code: the SCT list's constructor raises a
`TypeError` for the "no timestamp" sentinel (`tlsServerHello_fails`) -/
def tlsServerHello_full : Prop := ∀ typ, NoCrashButUnmodelled (serverHelloCodec typ)

/-- a ServerHello whose signed_certificate_timestamp extension carries an SCT with the all-ones
timestamp: `parse_timestamp` returns `None`, the attrs validator of `SignedCertificateTimestamp`
raises `TypeError` -/
def sctSentinelHello : Bytes :=
  let sct : Bytes := [0] ++ List.replicate 32 0x11 ++ List.replicate 8 0xff ++ [0, 0, 4, 3, 0, 0]
  let list : Bytes := [0, 47] ++ sct
  let ext : Bytes := [0, 18, 0, 51, 0, 49] ++ list
  let body : Bytes := [3, 3] ++ List.replicate 32 7 ++ [0, 0x13, 0x01, 0] ++ [0, 55] ++ ext
  [2, 0, 0, 95] ++ body

theorem tlsServerHello_fails : ¬ tlsServerHello_full := by
  intro h
  have h1 : (serverHelloCodec 2).parse sctSentinelHello = .error (.crash "TypeError") := by decide +kernel
  exact absurd (h 2 _ _ h1) (by decide)

/-- what holds: besides the boundary marker only that `TypeError` is reachable -/
theorem tlsServerHello_partial (typ : Nat) : NoCrashButTypeError (serverHelloCodec typ) := serverHello_noCrash typ

/-- the certificate message touches no unmodelled class: no crash at all -/
theorem tlsCertificateMessage : NoCrash certificateCodec := certificate_noCrash

/-- `TlsHandshakeCertificateRequest`: no crash at all -/
theorem tlsCertificateRequest : NoCrash certificateRequestCodec := certificateRequest_noCrash

/-- `TlsHandshakeMessageVariant`, full statement — false for the same reason -/
def tlsHandshakeVariant_full : Prop := NoCrashButUnmodelled handshakeCodec

theorem tlsHandshakeVariant_fails : ¬ tlsHandshakeVariant_full := by
  intro h
  have h1 : handshakeCodec.parse sctSentinelHello = .error (.crash "TypeError") := by decide +kernel
  exact absurd (h _ _ h1) (by decide)

theorem tlsHandshakeVariant_partial : NoCrashButTypeError handshakeCodec := handshake_noCrash

/-- the item loops of the vectors inside the hello messages always terminate -/
theorem tlsHandshakeVariant_terminates (b : Bytes) :
    handshakeCodec.parse b ≠ .error (.crash "NonTermination") := by
  intro h
  have := handshake_noCrash b _ h
  exact absurd this (by decide)

/-- every error of one position of the extension vector is a documented one, the marker, or — only
when the variant list has the SCT class — that class's `TypeError` -/
theorem tlsExtensionItem {variants : List (String × Nat)} {bs : Bytes} {e : PErr}
    (h : parseExt variants bs = .error e) :
    Benign e ∨ e = unmodelled ∨ (e = .crash "TypeError" ∧ hasSct variants = true) := by
  rcases parseExt_err h with (hb | hu) | ht
  · exact .inl hb
  · exact .inr (.inl hu)
  · exact .inr (.inr ht)

/-- the client variant has no SCT class: no `TypeError` on that side -/
theorem tlsExtensionItemClient {bs : Bytes} {e : PErr}
    (h : parseExt Gen.extVariantsClient bs = .error e) : Benign e ∨ e = unmodelled := by
  rcases tlsExtensionItem h with hb | hu | ⟨_, hs⟩
  · exact .inl hb
  · exact .inr hu
  · rw [client_has_no_sct] at hs; cases hs

/-! non-vacuity: the marker is reachable, and so are the documented errors -/

/-- a ClientHello with a server_name extension whose host name is `xn--a` (an ACE label: the idna
codec would decode it) -/
def aceHello : Bytes :=
  let ext : Bytes := [0, 0, 0, 10, 0, 8, 0, 0, 5, 0x78, 0x6e, 0x2d, 0x2d, 0x61]
  let body : Bytes := [3, 3] ++ List.replicate 32 7 ++ [0, 0, 2, 0x13, 0x01, 1, 0] ++ [0, 14] ++ ext
  [1, 0, 0, 57] ++ body

example : handshakeCodec.parse aceHello = .error (.crash "UNMODELLED") := by decide +kernel
example : handshakeCodec.parse [13, 0, 0, 0] = .error (.notEnough 1) := by decide +kernel
example : handshakeCodec.parse [1, 0, 0, 1, 3] = .error (.notEnough 1) := by decide +kernel
example : handshakeCodec.parse [99, 0, 0, 0] = .error .invalidValue := by decide +kernel

end Cp.C02
