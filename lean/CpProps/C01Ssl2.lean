import CpProofs.Ssl2
/-
  C01 for the SSL 2.0 record layer — compose then parse returns the same message and consumes every
  byte, whatever follows (`RoundTrip`, CpModel/Codec.lean), for every constructible value:
  `Record.wf` / `Msg.wf` (CpModel/Tls/Ssl2.lean) say that the cipher kinds are members of
  `SslCipherKind`, the error code is a member of `SslErrorType`, every length fits its 16-bit field
  and the record body (type byte + message) fits the 15-bit length of the 2-byte header.
  Outside that domain `SslRecord.compose` refuses (the guard); it never emits a wrapped header.
-/
namespace Cp.C01Ssl2
open Cp Cp.Codec Cp.Ssl2

/-- `SslRecord`: for every well-formed record, `composeRecord r = ok b` and
`parseRecord (b ++ s) = ok (r, |b|)` for every suffix `s` -/
theorem sslRecord_roundTrip : RoundTrip recordCodec Record.wf := record_roundTrip

/-- the same with the composed bytes written out -/
theorem sslRecord_roundTrip_explicit (r : Record) (h : r.wf) :
    composeRecord r = .ok (encRecord r) ∧ ∀ s, parseRecord (encRecord r ++ s) = .ok (r, (encRecord r).length) :=
  record_roundTrip_explicit r h

theorem sslErrorMessage_roundTrip : RoundTrip errorCodec (fun m => m.wf ∧ m.type = 0) := error_roundTrip
theorem sslHandshakeClientHello_roundTrip : RoundTrip clientHelloCodec (fun m => m.wf ∧ m.type = 1) :=
  clientHello_roundTrip
theorem sslHandshakeServerHello_roundTrip : RoundTrip serverHelloCodec (fun m => m.wf ∧ m.type = 4) :=
  serverHello_roundTrip

/-- the guard: a record whose body has 2^15 bytes or more is refused with `InvalidValue` -/
theorem sslRecord_oversize_refused (r : Record) (hm : r.message.wf) (hs : 32768 ≤ 1 + r.message.size) :
    composeRecord r = .error .invalidValue := composeRecord_guard hm hs

/-- … and whatever `SslRecord.compose` does return, for ANY record, is the 2-byte header
`2^15 + |body|` in front of a body of fewer than 2^15 bytes: never a header that wrapped around -/
theorem sslRecord_never_wrong_header (r : Record) (b : Bytes) (h : composeRecord r = .ok b) :
    ∃ body, b = encNat .network 2 (2 ^ 15 + body.length) ++ body ∧ body.length < 2 ^ 15 :=
  composeRecord_shape h

/-! non-vacuity: concrete values satisfy the hypotheses -/
example : Record.wf ⟨.clientHello [1, 3] [0xaa] [1, 2, 3]⟩ := by decide +kernel
example : composeRecord ⟨.clientHello [1, 3] [0xaa] [1, 2, 3]⟩ =
    .ok [0x80, 19, 1, 0, 2, 0, 6, 0, 1, 0, 3, 1, 0, 0x80, 3, 0, 0x80, 0xaa, 1, 2, 3] := by decide +kernel
example : parseRecord ([0x80, 19, 1, 0, 2, 0, 6, 0, 1, 0, 3, 1, 0, 0x80, 3, 0, 0x80, 0xaa, 1, 2, 3] ++ [9, 9]) =
    .ok (⟨.clientHello [1, 3] [0xaa] [1, 2, 3]⟩, 21) := by decide +kernel
example : (Msg.error 2).wf ∧ (Msg.error 2).type = 0 := by decide +kernel
example : (Msg.serverHello [7] [0] [8, 9] true).wf ∧ (Msg.serverHello [7] [0] [8, 9] true).type = 4 := by
  decide +kernel
example : bigHello.wf ∧ 32768 ≤ 1 + bigHello.size := ⟨bigHello_wf, by rw [bigHello_size]; omega⟩

end Cp.C01Ssl2
