import CpProofs.ArrayOps
/-
  C12 — length-prefixed vectors stay within bounds through any edit sequence.

  The vector is `Cp.ArrayOps.step` (the sequence interface of `ArrayBase`, with `_items_size`
  maintained incrementally as the code does), the reference is `Cp.ArrayOps.listSpec` (what a plain
  Python list does).  Both are tied to /repo by the correspondence check of harness/props/c12.py.
-/
namespace Cp.C12
open Cp Cp.ArrayOps

/-- the counter is the sum over the items, and that sum is within the protocol's bounds -/
def Inv (s : VState) : Prop :=
  s.itemsSize = (s.items.map (·.size)).sum ∧ s.min ≤ s.itemsSize ∧ s.itemsSize ≤ s.max

/-- **refinement of a plain list, one operation.**  Where a plain list raises, the vector raises
(`IndexError`/`ValueError`) and is unchanged.  Otherwise: if the edited list is within the bounds
the vector holds exactly that list (and its counter is that list's size); if not, the edit is
refused with `NotEnoughData(min)` / `TooMuchData(max)` and the vector is unchanged. -/
theorem step_refines {s : VState} (h : Inv s) (op : Op) :
    match listSpec s.items op with
    | none => (step s op).1 = s ∧ ((step s op).2 = .indexError ∨ (step s op).2 = .valueError)
    | some l' =>
      if s.min ≤ sizes l' ∧ sizes l' ≤ s.max then
        (step s op).1 = { s with items := l', itemsSize := sizes l' } ∧ (step s op).2.accepted = true
      else
        (step s op).1 = s ∧
          (step s op).2 = (if sizes l' < s.min then .notEnough s.min else .tooMuch s.max) :=
  step_spec s op h.1 h.2.1 h.2.2

/-- the bookkeeping never drifts and the bounds hold after every operation -/
theorem step_inv {s : VState} (h : Inv s) (op : Op) : Inv (step s op).1 := by
  obtain ⟨a, b, c, _, _⟩ := stepSpec_inv h.1 h.2.1 h.2.2 (step_spec s op h.1 h.2.1 h.2.2)
  exact ⟨a, b, c⟩

/-- the bounds themselves are never edited -/
theorem step_bounds {s : VState} (h : Inv s) (op : Op) :
    (step s op).1.min = s.min ∧ (step s op).1.max = s.max := by
  obtain ⟨_, _, _, d, e⟩ := stepSpec_inv h.1 h.2.1 h.2.2 (step_spec s op h.1 h.2.1 h.2.2)
  exact ⟨d, e⟩

/-- an operation that is not accepted changes nothing -/
theorem refused_unchanged {s : VState} (h : Inv s) (op : Op) (hr : (step s op).2.accepted = false) :
    (step s op).1 = s := by
  have hs := step_refines h op
  split at hs
  · exact hs.1
  · split at hs
    · rw [hs.2] at hr; cases hr
    · exact hs.1

/-- the refusals are the data-length errors carrying the bound, or the list's own errors -/
theorem refusal_kind {s : VState} (h : Inv s) (op : Op) (hr : (step s op).2.accepted = false) :
    (step s op).2 = .indexError ∨ (step s op).2 = .valueError ∨
      (step s op).2 = .notEnough s.min ∨ (step s op).2 = .tooMuch s.max := by
  have hs := step_refines h op
  split at hs
  · rcases hs.2 with e | e
    · exact Or.inl e
    · exact Or.inr (Or.inl e)
  · split at hs
    · rw [hs.2] at hr; cases hr
    · rw [hs.2]; split
      · exact Or.inr (Or.inr (Or.inl rfl))
      · exact Or.inr (Or.inr (Or.inr rfl))

/-- `pop` hands back the item a plain list would hand back -/
theorem pop_value {s : VState} (i : Option Int) (x : Item)
    (hp : (step s (.pop i)).2 = .popped x) :
    ∃ k, normIdx s.items.length (i.getD (-1)) = some k ∧ s.items[k]? = some x := by
  simp only [step, delItem] at hp
  cases hn : normIdx s.items.length (i.getD (-1)) with
  | none => simp [getItem_none hn] at hp
  | some k =>
    obtain ⟨y, hy, hg⟩ := getItem_some hn
    refine ⟨k, rfl, ?_⟩
    simp only [hg, commit] at hp
    split at hp
    · next e he =>
      simp only at hp
      rcases updSize_error he with h | h <;> rw [h] at hp <;> cases hp
    · simp only [Out.popped.injEq] at hp
      rw [hy, hp]

/-- every reachable state satisfies the invariant -/
theorem reachable_inv {s₀ : VState} (h : Inv s₀) (ops : List Op) :
    Inv (ops.foldl (fun s o => (step s o).1) s₀) := by
  induction ops generalizing s₀ with
  | nil => exact h
  | cons op ops ih => exact ih (step_inv h op)

/-- after any history the vector holds exactly what a plain list holds after the operations that
were accepted (and a plain list raises on none of those) -/
theorem reachable_matches_list {s₀ : VState} (h : Inv s₀) (ops : List Op) :
    plainFold s₀.items (acceptedOps s₀ ops) = some (ops.foldl (fun s o => (step s o).1) s₀).items :=
  plainFold_accepted ops s₀ h.1 h.2.1 h.2.2

/-- the constructor establishes the invariant or refuses with the bound -/
theorem mk_inv {items : List Item} {mn mx : Nat} {s : VState} (h : mk items mn mx = .ok s) :
    Inv s ∧ s.items = items ∧ s.min = mn ∧ s.max = mx := by
  unfold mk at h
  simp only [updSize_nil] at h
  by_cases h1 : sizes items < mn
  · simp [h1] at h
  · by_cases h2 : mx < sizes items
    · simp [h1, h2] at h
    · simp only [h1, h2, if_false, Except.ok.injEq] at h
      subst h
      refine ⟨⟨rfl, ?_, ?_⟩, rfl, rfl, rfl⟩ <;> simp only <;> omega

theorem mk_refuses {items : List Item} {mn mx : Nat} {e : Out} (h : mk items mn mx = .error e) :
    (sizes items < mn ∧ e = .notEnough mn) ∨ (mx < sizes items ∧ e = .tooMuch mx) := by
  unfold mk at h
  simp only [updSize_nil] at h
  by_cases h1 : sizes items < mn
  · simp only [h1, if_true, Except.error.injEq] at h
    exact Or.inl ⟨h1, h.symm⟩
  · by_cases h2 : mx < sizes items
    · simp only [h1, h2, if_true, if_false, Except.error.injEq] at h
      exact Or.inr ⟨h2, h.symm⟩
    · simp [h1, h2] at h

/-! ### the composed length prefix -/

/-- The conclusion of "the composed length prefix equals the number of body bytes and fits the
prefix width", for a vector kind with framing `f`, prefix width `k` and item encoder `enc`. -/
def PrefixFits (f : Framing) (k : Nat) (enc : Item → Bytes) (s : VState) : Prop :=
  (body f enc s.items).length = s.itemsSize ∧ s.itemsSize < 256 ^ k ∧
    compose f k enc s = .ok (beBytes k s.itemsSize ++ body f enc s.items) ∧
    beVal (beBytes k s.itemsSize) = (body f enc s.items).length

/-- the full claim: for every kind of framing the library uses -/
def prefix_fits_full : Prop :=
  ∀ (f : Framing) (k : Nat) (enc : Item → Bytes) (s : VState),
    Inv s → s.max < 256 ^ k → validSize k = true → (∀ x, (enc x).length = x.size) → PrefixFits f k enc s

/-- **partial**: the claim holds for the kinds whose body is the plain concatenation of the item
encodings (`Vector`, `Opaque`, `VectorParsable`, `VectorParsableDerived`, `VectorEnumCodeNumeric`):
the body has `itemsSize` bytes, that number fits the `k`-byte prefix, and `compose` writes it. -/
theorem prefix_fits {s : VState} (h : Inv s) (k : Nat) (enc : Item → Bytes)
    (hk : s.max < 256 ^ k) (hv : validSize k = true) (henc : ∀ x, (enc x).length = x.size) :
    PrefixFits Framing.plain k enc s := by
  have hlen : (body Framing.plain enc s.items).length = s.itemsSize := by
    rw [body_plain_length enc henc]; exact h.1.symm
  have hlt : s.itemsSize < 256 ^ k := Nat.lt_of_le_of_lt h.2.2 hk
  refine ⟨hlen, hlt, ?_, ?_⟩
  · have h1 : ¬ ((s.itemsSize : Int) < 0) := by omega
    have h3 : ¬ (256 ^ k ≤ s.itemsSize) := by omega
    simp only [compose, hlen, composeNum, hv, bind, Except.bind]
    simp [h1, h3, encNat, ByteOrder.isBig, pure, Except.pure]
  · rw [beVal_beBytes, Nat.mod_eq_of_lt hlt, hlen]

/-- What does hold for every framing: the body is longer than the counted size by exactly the
framing, so the bound that is enforced on `itemsSize` is not a bound on the body. -/
theorem body_size (f : Framing) (enc : Item → Bytes) (henc : ∀ x, (enc x).length = x.size) (s : VState)
    (h : Inv s) :
    (body f enc s.items).length = s.itemsSize + f.itemPrefix * s.items.length + f.sep.length * (s.items.length - 1) := by
  rw [body_length f enc henc]
  have : sizes s.items = s.itemsSize := h.1.symm
  omega

/-- The full claim FAILS: with a per-item length byte (`VectorEnumCodeString`, i.e. the ALPN/NPN
protocol name lists) 128 one-byte names are accepted by a vector bounded by 255, but their body
has 256 bytes, which neither equals the counted 128 nor fits the one-byte prefix: `compose` is an
`InvalidValue`.  (Live code: `TlsProtocolNameList([TlsProtocolName.HTTP_1_1] * 7282)` is
accepted with `_items_size` 58256 <= 65535 and `compose()` raises on a body of 65538 bytes.) -/
theorem prefix_fits_full_fails : ¬ prefix_fits_full := by
  intro hfull
  have h := hfull ⟨1, []⟩ 1 (fun x => List.replicate x.size 0)
    { items := List.replicate 128 ⟨0, 1⟩, itemsSize := 128, min := 0, max := 255 }
    (by unfold Inv; simp) (by decide) (by decide) (by intro x; simp)
  have hb := h.1
  rw [body_length _ _ (by intro x; simp)] at hb
  simp at hb

/-! ### non-vacuity -/

/-- a concrete state satisfying the invariant -/
example : Inv { items := [⟨1, 1⟩, ⟨2, 2⟩, ⟨3, 1⟩], itemsSize := 4, min := 1, max := 5 } := by
  unfold Inv; decide

/-- the constructor accepts it -/
example : mk [⟨1, 1⟩, ⟨2, 2⟩, ⟨3, 1⟩] 1 5 =
    .ok { items := [⟨1, 1⟩, ⟨2, 2⟩, ⟨3, 1⟩], itemsSize := 4, min := 1, max := 5 } := by decide

/-- a three-operation history touching the upper bound: accepted, refused (unchanged), accepted -/
example :
    let s₀ : VState := { items := [⟨1, 1⟩, ⟨2, 2⟩, ⟨3, 1⟩], itemsSize := 4, min := 1, max := 5 }
    let r₁ := step s₀ (.append ⟨4, 1⟩)
    let r₂ := step r₁.1 (.insert 0 ⟨5, 1⟩)
    let r₃ := step r₂.1 (.setSlice none none (some (-2)) [⟨6, 1⟩, ⟨7, 1⟩])
    r₁ = ({ s₀ with items := [⟨1, 1⟩, ⟨2, 2⟩, ⟨3, 1⟩, ⟨4, 1⟩], itemsSize := 5 }, .ok) ∧
    r₂ = (r₁.1, .tooMuch 5) ∧
    r₃ = ({ s₀ with items := [⟨1, 1⟩, ⟨7, 1⟩, ⟨3, 1⟩, ⟨6, 1⟩], itemsSize := 4 }, .ok) := by decide

/-- a history touching the lower bound: `clear` and a whole-slice deletion are refused, `pop` works once -/
example :
    let s₀ : VState := { items := [⟨1, 1⟩, ⟨2, 1⟩], itemsSize := 2, min := 1, max := 5 }
    (step s₀ .clear) = (s₀, .notEnough 1) ∧
    (step s₀ (.delSlice none none (some (-1)))) = (s₀, .notEnough 1) ∧
    (step s₀ (.pop none)) = ({ s₀ with items := [⟨1, 1⟩], itemsSize := 1 }, .popped ⟨2, 1⟩) ∧
    (step (step s₀ (.pop none)).1 (.pop none)) = ((step s₀ (.pop none)).1, .notEnough 1) ∧
    (step s₀ (.delItem 2)) = (s₀, .indexError) ∧
    (step s₀ (.delSlice none none (some 0))) = (s₀, .valueError) := by decide

/-- the plain-list replay of the accepted operations of that first history -/
example :
    let s₀ : VState := { items := [⟨1, 1⟩, ⟨2, 2⟩, ⟨3, 1⟩], itemsSize := 4, min := 1, max := 5 }
    let ops : List Op := [.append ⟨4, 1⟩, .insert 0 ⟨5, 1⟩, .setSlice none none (some (-2)) [⟨6, 1⟩, ⟨7, 1⟩]]
    acceptedOps s₀ ops = [.append ⟨4, 1⟩, .setSlice none none (some (-2)) [⟨6, 1⟩, ⟨7, 1⟩]] ∧
    plainFold s₀.items (acceptedOps s₀ ops) = some [⟨1, 1⟩, ⟨7, 1⟩, ⟨3, 1⟩, ⟨6, 1⟩] := by decide

/-- the prefix of a composed plain vector -/
example : compose Framing.plain 1 (fun x => List.replicate x.size 0xab)
    { items := [⟨1, 1⟩, ⟨2, 2⟩], itemsSize := 3, min := 1, max := 255 } = .ok [3, 0xab, 0xab, 0xab] := by decide

/-- the overflowing composition behind `prefix_fits_full_fails` -/
example : compose ⟨1, []⟩ 1 (fun x => List.replicate x.size 0)
    { items := List.replicate 128 ⟨0, 1⟩, itemsSize := 128, min := 0, max := 255 } = .error .invalidValue := by
  decide +kernel

end Cp.C12
