import CpProofs.Tls2
import CpProofs.Reader
import CpProofs.Variant
/-
  C04 — incremental reads guided by the missing-byte count reassemble the stream.
  (a) every proper prefix of a composed record is rejected with not-enough-data and a missing
  count m with 1 ≤ m ≤ bytes really missing; (b) the generic reader theorems of
  `CpProofs/Reader.lean`, instantiated.
-/
namespace Cp.C04
open Cp Cp.Codec Cp.Tls Cp.Reader

theorem tlsRecord_prefixReject : PrefixReject recordCodec recordWf := record_prefixReject

/-- every TLS handshake message class: decided by the four-byte header alone -/
theorem tlsHandshake_prefixReject {α : Type} {typ : Nat} (hm : typ ∈ Gen.TlsHandshakeType.memberCodes)
    (inner : Codec α) : PrefixReject (hsFramed typ inner) (fun _ => True) := hs_prefixReject hm inner

/-- `TlsHandshakeMessageVariant` (what a client feeds with the concatenated fragments of handshake
records): every proper prefix of a composed message of ANY class in the variant list is rejected with
not-enough-data, 1 ≤ missing ≤ really missing — also for classes whose payload is not modelled. -/
theorem tlsHandshakeVariant_prefixReject {α : Type} {t : Nat} (inner : Codec α) (v : α) (b : Bytes)
    (ht : t ∈ Gen.TlsHandshakeType.memberCodes) (hin : ∃ e ∈ Gen.handshakeVariants, e.2 = t)
    (hc : (hsFramed t inner).compose v = .ok b) (j : Nat) (hj : j < b.length) :
    ∃ m : Nat, parseHandshakeVariant (b.take j) = .error (.notEnough m) ∧ 1 ≤ m ∧ m ≤ b.length - j :=
  variant_prefixReject inner v b ht hin hc j hj

/-- … and on a complete message the variant is exactly the parser of the class whose type byte
leads the message -/
theorem tlsHandshakeVariant_dispatch (c : HsClass) (rest : Bytes) (hlen : 3 ≤ rest.length)
    (hok : parseHsClass c (encNat .network 1 c.typ ++ rest) ≠ .error .invalidType) :
    parseHandshakeVariant (encNat .network 1 c.typ ++ rest) = parseHsClass c (encNat .network 1 c.typ ++ rest) :=
  variant_eq_class c rest hlen hok

theorem tlsRecord_nonempty : ∀ v b, recordWf v → recordCodec.compose v = .ok b → 0 < b.length := by
  intro v b hv hb
  obtain ⟨b', hb', hbb⟩ := record_roundTrip v hv
  rw [hb] at hb'; cases hb'
  have := record_positive _ _ _ (hbb [])
  simpa using this

/-- The reader fed arbitrary chunks of a stream of TLS records ends up with exactly the original
records, an empty buffer and no failure — whatever the fragmentation. -/
theorem tlsRecord_reader_reassembles (rs : List Record) (hwf : ∀ r ∈ rs, recordWf r) (chunks : List Bytes)
    (hchunks : chunks.flatten = enc recordCodec rs) :
    (chunks.foldl (feed recordCodec) init).out = rs ∧
    (chunks.foldl (feed recordCodec) init).buf = [] ∧
    (chunks.foldl (feed recordCodec) init).failed = none :=
  reader_reassembles record_roundTrip record_prefixReject tlsRecord_nonempty rs hwf chunks hchunks

/-- … and while the stream is not fully delivered the reader waits for at least one and at most
the number of bytes still to come (it cannot block forever), never for more than the record in
progress contains. -/
theorem tlsRecord_reader_never_overasks (rs : List Record) (hwf : ∀ r ∈ rs, recordWf r)
    (pre post : List Bytes) (hchunks : (pre ++ post).flatten = enc recordCodec rs)
    (hmore : post.flatten ≠ []) :
    (pre.foldl (feed recordCodec) init).buf.length < (pre.foldl (feed recordCodec) init).want ∧
    (pre.foldl (feed recordCodec) init).want ≤
      (pre.foldl (feed recordCodec) init).buf.length + post.flatten.length :=
  reader_wait_is_satisfiable record_roundTrip record_prefixReject tlsRecord_nonempty rs hwf pre post hchunks hmore

/-- the same for handshake messages with opaque payload (ServerKeyExchange), as an instance of a
handshake class: fragments of records concatenated -/
theorem tlsServerKeyExchange_reader_reassembles (rs : List Bytes) (hwf : ∀ r ∈ rs, r.length < 256 ^ 3)
    (chunks : List Bytes) (hchunks : chunks.flatten = enc serverKeyExchangeCodec rs) :
    (chunks.foldl (feed serverKeyExchangeCodec) init).out = rs ∧
    (chunks.foldl (feed serverKeyExchangeCodec) init).buf = [] ∧
    (chunks.foldl (feed serverKeyExchangeCodec) init).failed = none := by
  have hp : PrefixReject serverKeyExchangeCodec (fun p => p.length < 256 ^ 3) := by
    intro v b _ hc j hj
    exact hs_prefixReject hsMember_12 appDataCodec v b trivial hc j hj
  have hne : ∀ v b, v.length < 256 ^ 3 → serverKeyExchangeCodec.compose v = .ok b → 0 < b.length := by
    intro v b hv hb
    obtain ⟨b', hb', hbb⟩ := serverKeyExchange_roundTrip v hv
    rw [hb] at hb'; cases hb'
    have := hs_positive 12 appDataCodec _ _ _ (hbb [])
    simpa using this
  exact reader_reassembles serverKeyExchange_roundTrip hp hne rs hwf chunks hchunks

/-! non-vacuity: the reader on two records cut into single bytes -/
example :
    (run recordCodec ([[22], [3], [3], [0], [1], [7], [21, 3], [3, 0, 2, 2], [40]])).out =
      [⟨22, 4, [7]⟩, ⟨21, 4, [2, 40]⟩] := by
  decide +kernel

end Cp.C04
