import CpProofs.Hello
import CpProps.C05
import CpProps.C01Ext
/-
  C05 for the hello extension classes with structured bodies and for CertificateRequest: what the
  parser accepts can be composed again, the composition is accepted, gives the same value and
  consumes everything.

  Body level: `extBody_parseWf` (whatever a body parser returns is a constructible body) and
  `extBody_canonical_full`: it re-composes to a payload the parser reads back to the same body,
  whatever follows — for every input a class can be given: `_check_header` hands it the declared
  extension data, at most 2^16-1 bytes.  Without that bound the statement is false of the body
  parser taken alone (`extBody_unconfined_fails`: a server name of 65533 bytes is accepted, `compose`
  raises `InvalidValue`); before the parsers were confined to their extension such an input could be
  reached through the variant.
  CertificateRequest: unconditional (`certificateRequest_canonical`).
-/
namespace Cp.C05
open Cp Cp.Codec Cp.Tls Cp.Hello

/-- whatever a body parser returns is a body a caller could have built -/
theorem extBody_parseWf {k : Ext2Kind} {len : Nat} {rest : Bytes} {b : Ext2Body} {m : Nat}
    (h : parseExt2Body k len rest = .ok (b, m)) : Ext2BodyWf k b := parseExt2Body_ok_wf h

/-- the statement without a bound on what the class is given -/
def extBody_canonical_unconfined : Prop :=
  ∀ (k : Ext2Kind) (len : Nat) (rest : Bytes) (b : Ext2Body) (m : Nat), parseExt2Body k len rest = .ok (b, m) →
    ∃ payload, composeExt2Body k b = .ok payload ∧
      ∀ s, parseExt2Body k payload.length (payload ++ s) = .ok (b, payload.length)

/-- the witness: a server_name body around the 65533-byte host name of `C01.longHost` (the parser is
not confined to the extension, so such a body is accepted wherever 65538 bytes are present) -/
theorem extBody_unconfined_fails : ¬ extBody_canonical_unconfined := by
  intro h
  obtain ⟨hn, hpm⟩ := serverNameParam_ok
  have hns : serverNameParam.numSize = 2 := ext2_numSizes.1
  have hmin : serverNameParam.min ≤ C01.longHost.length := by rw [C01.longHost_length]; decide +kernel
  have hmax : C01.longHost.length ≤ serverNameParam.max := by rw [C01.longHost_length]; decide +kernel
  have ho := (parseOpaque_roundTrip hn hpm C01.longHost hmin hmax []).2
  rw [hns, List.append_nil] at ho
  have hp : parseExt2Body .serverName 0
      (encNat .network 2 0 ++ (encNat .network 1 0 ++ (encNat .network 2 C01.longHost.length ++ C01.longHost))) =
      .ok (.hostName C01.longHost, 2 + 1 + (2 + C01.longHost.length)) := by
    simp only [parseExt2Body]
    rw [parseNum_enc (by rfl) (by decide)]
    simp only [bind, Except.bind, drop_eq_append _ _ (show 2 = (encNat ByteOrder.network 2 0).length by simp)]
    rw [parseIntEnum_of_num (parseNum_enc (by rfl) (by decide) _) (by decide +kernel)]
    simp only [drop_eq_append _ _ (show 1 = (encNat ByteOrder.network 1 0).length by simp)]
    rw [ho]
    simp only [C01.longHost_plain, if_true, pure, Except.pure]
  obtain ⟨payload, hc, _⟩ := h _ _ _ _ _ hp
  have hbig : composeNum .network 2 ((3 + C01.longHost.length : Nat) : Int) = .error .invalidValue :=
    composeNum_too_big (by rfl) (by rw [C01.longHost_length]; decide)
  simp only [composeExt2Body, C01.longHost_plain, if_true, hbig, bind, Except.bind] at hc
  cases hc

/-- a parsed server name occupies exactly its composed size -/
theorem serverName_consumed {len : Nat} {rest : Bytes} {h : Bytes} {m : Nat}
    (hp : parseExt2Body .serverName len rest = .ok (.hostName h, m)) : m = 5 + h.length := by
  simp only [parseExt2Body] at hp
  obtain ⟨⟨l, n1⟩, h1, hp⟩ := exceptBind_ok_inv hp
  simp only at hp
  obtain ⟨⟨ty, n2⟩, h2, hp⟩ := exceptBind_ok_inv hp
  simp only at hp
  obtain ⟨⟨host, n3⟩, h3, hp⟩ := exceptBind_ok_inv hp
  simp only at hp
  split at hp
  · simp only [pure, Except.pure] at hp
    cases hp
    obtain ⟨hn1, _, _⟩ := parseNum_ok_inv h1
    obtain ⟨hp2, _⟩ := parseIntEnum_ok_inv h2
    obtain ⟨hn2, _, _⟩ := parseNum_ok_inv hp2
    obtain ⟨_, _, _, hn3, _⟩ := parseOpaque_ok_full h3
    have := ext2_numSizes.1
    omega
  · cases hp

/-- FULL: every body a class accepts from the data it can be given (an extension holds at most
2^16-1 bytes) re-composes, and the composition reads back to the same body whatever follows -/
theorem extBody_canonical_full {k : Ext2Kind} {len : Nat} {rest : Bytes} {b : Ext2Body} {m : Nat}
    (h : parseExt2Body k len rest = .ok (b, m)) (hr : rest.length < 256 ^ 2) :
    ∃ payload, composeExt2Body k b = .ok payload ∧ payload.length = ext2BodySize k b ∧
      ∀ s, parseExt2Body k payload.length (payload ++ s) = .ok (b, payload.length) := by
  have hw := parseExt2Body_ok_wf h
  have hle := parseExt2Body_lenBound h
  refine ext2_body_roundTrip' hw (fun host hb => ?_)
  subst hb
  cases k <;> try exact absurd hw id
  have := serverName_consumed h
  omega

/-- the same under the weaker, checkable condition that the payload fits the extension length -/
theorem extBody_canonical {k : Ext2Kind} {len : Nat} {rest : Bytes} {b : Ext2Body} {m : Nat}
    (h : parseExt2Body k len rest = .ok (b, m)) (hsz : ext2BodySize k b < 256 ^ 2) :
    ∃ payload, composeExt2Body k b = .ok payload ∧ payload.length = ext2BodySize k b ∧
      ∀ s, parseExt2Body k payload.length (payload ++ s) = .ok (b, payload.length) :=
  ext2_body_roundTrip (parseExt2Body_ok_wf h) hsz

/-- … and otherwise the only thing that can happen is the refusal of an over-long server name -/
theorem extBody_recompose {k : Ext2Kind} {len : Nat} {rest : Bytes} {b : Ext2Body} {m : Nat}
    (h : parseExt2Body k len rest = .ok (b, m)) :
    (∃ payload, composeExt2Body k b = .ok payload ∧ payload.length = ext2BodySize k b) ∨
      (composeExt2Body k b = .error .invalidValue ∧ 256 ^ 2 ≤ ext2BodySize k b) :=
  ext2_body_compose (parseExt2Body_ok_wf h)

/-- the consumed length never exceeds the buffer -/
theorem extBody_lenBound {k : Ext2Kind} {len : Nat} {rest : Bytes} {b : Ext2Body} {m : Nat}
    (h : parseExt2Body k len rest = .ok (b, m)) : m ≤ rest.length := parseExt2Body_lenBound h

/-- `TlsHandshakeCertificateRequest`: what the parser accepts is constructible … -/
theorem certificateRequest_parseWf : ParseWf certificateRequestCodec CertificateRequestWf :=
  Tls.certificateRequest_parseWf

/-- … hence re-serialising an accepted CertificateRequest is a stable canonical form -/
theorem certificateRequest_canonical : Canonical certificateRequestCodec :=
  of_laws certificateRequest_roundTrip Tls.certificateRequest_parseWf

/-! ### accepted inputs that are not in canonical form (evaluated on the model) -/

/-- server_name: the list length is read and never used — `ff ff` is accepted and recomposed as `00 04` -/
example : parseExt2Body .serverName 6 [0xff, 0xff, 0, 0, 1, 0x61] = .ok (.hostName [0x61], 6) := by decide +kernel
example : composeExt2Body .serverName (.hostName [0x61]) = .ok [0, 4, 0, 0, 1, 0x61] := by decide +kernel

/-- key_share (ServerHello): the class reads the share wherever it ends — 3 declared bytes, 7 consumed -/
example : parseExt2Body .keyShareServer 3 [0, 29, 0, 3, 1, 2, 3] = .ok (.keyShare 28 [1, 2, 3], 7) := by
  decide +kernel

/-- CertificateRequest: what follows the three vectors inside the payload is ignored -/
example : ∃ r, parseCertificateRequest [13, 0, 0, 9, 1, 1, 0, 2, 4, 3, 0, 0, 9] = .ok (r, 13) ∧
    composeCertificateRequest r = .ok [13, 0, 0, 8, 1, 1, 0, 2, 4, 3, 0, 0] :=
  ⟨⟨[1], some [.known 25], []⟩, by decide +kernel, by decide +kernel⟩

end Cp.C05
