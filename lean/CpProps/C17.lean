import CpModel.Tls.Version
/-
  C17 — TLS protocol versions form a strict total order consistent with equality.
  The domain is the regenerated table `Gen.TlsVersion` (every defined version); the statements
  are decided by the kernel over all pairs and all triples.
-/
namespace Cp.C17
open Cp Cp.Tls

abbrev versions : List Nat := Gen.TlsVersion.codes

/-- exactly one of "less", "equal", "greater" -/
theorem trichotomy : ∀ a ∈ versions, ∀ b ∈ versions,
    (lt a b && !(eq a b) && !(lt b a)) || (!(lt a b) && eq a b && !(lt b a)) ||
    (!(lt a b) && !(eq a b) && lt b a) = true := by
  decide +kernel

theorem transitive : ∀ a ∈ versions, ∀ b ∈ versions, ∀ c ∈ versions,
    lt a b = true → lt b c = true → lt a c = true := by
  decide +kernel

theorem irreflexive : ∀ a ∈ versions, lt a a = false := by
  decide +kernel

/-- equal versions hash equally, and distinct table entries are distinct versions -/
theorem eq_hash : ∀ a ∈ versions, ∀ b ∈ versions, eq a b = true → hashKey a = hashKey b := by
  decide +kernel

theorem versions_nodup : versions.Nodup := by
  decide +kernel

/-- the derived operators of `functools.total_ordering` agree with the strict order -/
theorem derived_operators : ∀ a ∈ versions, ∀ b ∈ versions,
    (le a b = !(lt b a)) ∧ (gt a b = lt b a) ∧ (ge a b = !(lt a b)) := by
  decide +kernel

/-- SSL 2.0 < SSL 3.0 < TLS 1.0 < 1.1 < 1.2 < every experimental and draft version < TLS 1.3 -/
theorem chain :
    lt (versionCode "SSL2") (versionCode "SSL3") = true ∧
    lt (versionCode "SSL3") (versionCode "TLS1") = true ∧
    lt (versionCode "TLS1") (versionCode "TLS1_1") = true ∧
    lt (versionCode "TLS1_1") (versionCode "TLS1_2") = true ∧
    lt (versionCode "TLS1_2") (versionCode "TLS1_3") = true ∧
    (∀ p ∈ versions, (isDraft p || isGoogleExperimental p) = true →
      lt (versionCode "TLS1_2") p = true ∧ lt p (versionCode "TLS1_3") = true) := by
  decide +kernel

/-- the named versions are where the specifications put them -/
theorem named_codes :
    versionCode "SSL2" = 0x0002 ∧ versionCode "SSL3" = 0x0300 ∧ versionCode "TLS1" = 0x0301 ∧
    versionCode "TLS1_1" = 0x0302 ∧ versionCode "TLS1_2" = 0x0303 ∧ versionCode "TLS1_3" = 0x0304 := by
  decide +kernel

/-- every version is one of the six named ones or a pre-release -/
theorem classification : ∀ v ∈ versions,
    v ∈ [0x0002, 0x0300, 0x0301, 0x0302, 0x0303, 0x0304] ∨ (isDraft v || isGoogleExperimental v) = true := by
  decide +kernel

theorem drafts_by_number : ∀ d ∈ versions, ∀ d' ∈ versions,
    isDraft d = true → isDraft d' = true → draftNumber d < draftNumber d' → lt d d' = true := by
  decide +kernel

/-- Consequence used by callers: the maximum and minimum of the whole table do not depend on the
order of arrival — there is a unique greatest and a unique least element. -/
theorem unique_extremes :
    (∀ v ∈ versions, v = versionCode "TLS1_3" ∨ lt v (versionCode "TLS1_3") = true) ∧
    (∀ v ∈ versions, v = versionCode "SSL2" ∨ lt (versionCode "SSL2") v = true) := by
  decide +kernel

/-! non-vacuity: the table is the real one -/
example : versions.length ≥ 38 ∧ (0x7f1c ∈ versions) ∧ (0x7e01 ∈ versions) := by decide +kernel

end Cp.C17
