import CpModel.Tls.Version
/-
  C17 — TLS protocol versions form a strict total order consistent with equality.
  The domain is the regenerated table `Gen.TlsVersion` (every defined version); the statements
  are decided by the kernel over all pairs and all triples.
-/
namespace Cp.C17
open Cp Cp.Tls

abbrev versions : List Nat := Gen.TlsVersion.codes

/-- exactly one of "less", "equal", "greater" -/
theorem trichotomy : ∀ a ∈ versions, ∀ b ∈ versions,
    (lt a b && !(eq a b) && !(lt b a)) || (!(lt a b) && eq a b && !(lt b a)) ||
    (!(lt a b) && !(eq a b) && lt b a) = true := by
  decide +kernel

theorem transitive : ∀ a ∈ versions, ∀ b ∈ versions, ∀ c ∈ versions,
    lt a b = true → lt b c = true → lt a c = true := by
  decide +kernel

theorem irreflexive : ∀ a ∈ versions, lt a a = false := by
  decide +kernel

/-- equal versions hash equally, and distinct table entries are distinct versions -/
theorem eq_hash : ∀ a ∈ versions, ∀ b ∈ versions, eq a b = true → hashKey a = hashKey b := by
  decide +kernel

theorem versions_nodup : versions.Nodup := by
  decide +kernel

/-- the derived operators of `functools.total_ordering` agree with the strict order -/
theorem derived_operators : ∀ a ∈ versions, ∀ b ∈ versions,
    (le a b = !(lt b a)) ∧ (gt a b = lt b a) ∧ (ge a b = !(lt a b)) := by
  decide +kernel

/-- SSL 2.0 < SSL 3.0 < TLS 1.0 < 1.1 < 1.2 < every experimental and draft version < TLS 1.3 -/
theorem chain :
    lt (versionCode "SSL2") (versionCode "SSL3") = true ∧
    lt (versionCode "SSL3") (versionCode "TLS1") = true ∧
    lt (versionCode "TLS1") (versionCode "TLS1_1") = true ∧
    lt (versionCode "TLS1_1") (versionCode "TLS1_2") = true ∧
    lt (versionCode "TLS1_2") (versionCode "TLS1_3") = true ∧
    (∀ p ∈ versions, (isDraft p || isGoogleExperimental p) = true →
      lt (versionCode "TLS1_2") p = true ∧ lt p (versionCode "TLS1_3") = true) := by
  decide +kernel

/-- the named versions are where the specifications put them -/
theorem named_codes :
    versionCode "SSL2" = 0x0002 ∧ versionCode "SSL3" = 0x0300 ∧ versionCode "TLS1" = 0x0301 ∧
    versionCode "TLS1_1" = 0x0302 ∧ versionCode "TLS1_2" = 0x0303 ∧ versionCode "TLS1_3" = 0x0304 := by
  decide +kernel

/-- every version is one of the six named ones or a pre-release -/
theorem classification : ∀ v ∈ versions,
    v ∈ [0x0002, 0x0300, 0x0301, 0x0302, 0x0303, 0x0304] ∨ (isDraft v || isGoogleExperimental v) = true := by
  decide +kernel

theorem drafts_by_number : ∀ d ∈ versions, ∀ d' ∈ versions,
    isDraft d = true → isDraft d' = true → draftNumber d < draftNumber d' → lt d d' = true := by
  decide +kernel

/-- Consequence used by callers: the maximum and minimum of the whole table do not depend on the
order of arrival — there is a unique greatest and a unique least element. -/
theorem unique_extremes :
    (∀ v ∈ versions, v = versionCode "TLS1_3" ∨ lt v (versionCode "TLS1_3") = true) ∧
    (∀ v ∈ versions, v = versionCode "SSL2" ∨ lt (versionCode "SSL2") v = true) := by
  decide +kernel

/-! ### `sorted`, `min`, `max` do not depend on the order of arrival

For the versions of the table (`V`), sorting with the library's `<=` gives the same list whatever
permutation of the same versions is sorted: the order is total, transitive and antisymmetric, so a sorted
list is determined by its elements. -/

/-- a version of the table -/
abbrev V := { c : Nat // c ∈ versions }

/-- `a <= b` of `functools.total_ordering` on table versions -/
def leV (a b : V) : Bool := le a.1 b.1

theorem leV_total (a b : V) : (leV a b || leV b a) = true := by
  have h := trichotomy a.1 a.2 b.1 b.2
  unfold leV le
  revert h
  cases lt a.1 b.1 <;> cases lt b.1 a.1 <;> cases eq a.1 b.1 <;> cases hb : eq b.1 a.1 <;> simp_all [eq]

theorem le_trans_table : ∀ a ∈ versions, ∀ b ∈ versions, ∀ c ∈ versions,
    le a b = true → le b c = true → le a c = true := by
  decide +kernel

theorem leV_trans (a b c : V) (h1 : leV a b = true) (h2 : leV b c = true) : leV a c = true :=
  le_trans_table a.1 a.2 b.1 b.2 c.1 c.2 h1 h2

theorem le_antisymm_table : ∀ a ∈ versions, ∀ b ∈ versions, le a b = true → le b a = true → a = b := by
  decide +kernel

theorem leV_antisymm (a b : V) (h1 : leV a b = true) (h2 : leV b a = true) : a = b :=
  Subtype.ext (le_antisymm_table a.1 a.2 b.1 b.2 h1 h2)

/-- sorting any two arrangements of the same versions gives the same list -/
theorem sorted_independent_of_arrival (l₁ l₂ : List V) (h : l₁.Perm l₂) :
    l₁.mergeSort leV = l₂.mergeSort leV := by
  have s1 := List.pairwise_mergeSort leV_trans leV_total l₁
  have s2 := List.pairwise_mergeSort leV_trans leV_total l₂
  have p : (l₁.mergeSort leV).Perm (l₂.mergeSort leV) :=
    (List.mergeSort_perm l₁ leV).trans (h.trans (List.mergeSort_perm l₂ leV).symm)
  exact List.Perm.eq_of_pairwise (fun a b _ _ hab hba => leV_antisymm a b hab hba) s1 s2 p

/-- … and so do its first and last element (`min`, `max`) -/
theorem min_max_independent_of_arrival (l₁ l₂ : List V) (h : l₁.Perm l₂) :
    (l₁.mergeSort leV).head? = (l₂.mergeSort leV).head? ∧
    (l₁.mergeSort leV).getLast? = (l₂.mergeSort leV).getLast? := by
  rw [sorted_independent_of_arrival l₁ l₂ h]
  exact ⟨rfl, rfl⟩


/-- concrete instance: TLS 1.3 and a draft, in the two arrival orders (the hypothesis is satisfiable) -/
example (a b : V) : [a, b].mergeSort leV = [b, a].mergeSort leV :=
  sorted_independent_of_arrival _ _ (List.Perm.swap b a [])

example : leV ⟨0x7f1c, by decide +kernel⟩ ⟨0x0304, by decide +kernel⟩ = true ∧
    leV ⟨0x0304, by decide +kernel⟩ ⟨0x7f1c, by decide +kernel⟩ = false ∧
    leV ⟨0x7e02, by decide +kernel⟩ ⟨0x7f1c, by decide +kernel⟩ = true := by decide +kernel

/-! non-vacuity: the table is the real one -/
example : versions.length ≥ 38 ∧ (0x7f1c ∈ versions) ∧ (0x7e01 ∈ versions) := by decide +kernel

end Cp.C17
