import CpProofs.Serial
/-
  C14 — JSON and Markdown output is always well-formed, deterministic and faithful.

  The model (`CpModel/Serial.lean`) transcribes `Serializable._json_traverse`, `json.dumps` and
  `Serializable._markdown_result*`; it is tied to the code by the `JS`/`MD`/`MDS` correspondence ops.
  Proofs are in `CpProofs/Serial.lean`.  Statements that are false of the code as it stands are kept
  visible as `…_full : Prop`, refuted by a concrete witness (`…_full_fails`) and proved in the weaker
  `…_partial` form.
-/
namespace Cp.C14
open Cp Cp.Serial

/-! ## no value makes serialisation fail -/

/-- `_json_traverse` succeeds on every value whose plain dicts have `sorted()`-able keys.  `Json` is the type
`json.dumps` encodes without calling `default` again, so membership in `Json` is well-formedness of the tree. -/
theorem json_total (v : PyVal) : KeysOrderable v → ∃ j, jsonTraverse v = .ok j :=
  jsonTraverse_total v

/-- `obj.as_json()` (`json.dumps(obj)`) succeeds and yields a text -/
theorem as_json_total (v : PyVal) : KeysOrderableNative v → ∃ s, asJson v = .ok s := by
  intro h
  obtain ⟨j, hj⟩ := jsonNative_total v h
  exact ⟨Json.render j, by simp [asJson, hj, Except.map]⟩

/-- `_markdown_result(v, level)` succeeds -/
theorem md_total (v : PyVal) (lvl : Nat) : KeysOrderable v → ∃ r, markdown v lvl = .ok r := by
  intro h
  obtain ⟨r, hr⟩ := mdResult_total v false h baseCls lvl EncState.init
  exact ⟨r.1, by simp [markdown, markdownSt, hr, Except.map]⟩

/-- `obj.as_markdown()` succeeds and yields a text, whatever encoder state it starts from -/
theorem as_markdown_total (v : PyVal) (σ : EncState) : KeysOrderable v → ∃ r, asMarkdownSt v σ = .ok r := by
  intro h
  unfold asMarkdownSt
  split
  · obtain ⟨r, hr⟩ := mdAsMarkdown_total v false h v.clsOf 0 σ
    exact ⟨_, by rw [hr]; rfl⟩
  · obtain ⟨r, hr⟩ := mdResult_total v false h baseCls 0 σ
    exact ⟨_, by rw [hr]; rfl⟩

/-- the hypothesis is needed: a dict with a `str` and an `int` key makes `sorted()` raise -/
theorem json_total_needs_orderable_keys :
    jsonTraverse (.dict false [(.int 1, .str "a"), (.str "b", .int 2)]) = .error (.crash "TypeError") := by
  rfl

/-! ## the text is well-formed JSON -/

/-- The text `json.dumps` writes for a document without non-finite floats is accepted by a strict RFC 8259
parser (`Json.parse`: no `NaN`/`Infinity`, no leading zeros, no raw control characters, no lone surrogates),
and the parser reads back exactly the document. -/
theorem render_wellformed (j : Json) : floatsOk j = true → Json.parse (Json.render j) = some j :=
  parse_render j

/-- the string-escaping part on its own: `unescape (escape s) = s` for every string, including control
characters, quotes, backslashes and characters outside the BMP (surrogate pairs) -/
theorem escape_roundtrip (s rest : List Char) : parseStrBody (escape s ++ '"' :: rest) = some (s, rest) :=
  parseStrBody_escape s rest

/-- no `NaN` / `Infinity` can appear unless a float field holds one -/
theorem json_no_nonfinite (v : PyVal) (j : Json) : floatsFinite v = true → jsonTraverse v = .ok j → floatsOk j = true :=
  jsonTraverse_finite v j

/-- `obj.as_json()` succeeds and yields a document that the strict parser accepts -/
theorem as_json_wellformed (v : PyVal) : KeysOrderableNative v → floatsFinite v = true →
    ∃ s j, asJson v = .ok s ∧ Json.parse s = some j := by
  intro hk hf
  obtain ⟨j, hj⟩ := jsonNative_total v hk
  exact ⟨Json.render j, j, by simp [asJson, hj, Except.map], parse_render j (jsonNative_finite v j hf hj)⟩

/-- the hypothesis is needed: `json.dumps` writes `NaN` for a NaN float, which is not JSON -/
theorem nan_is_not_json : asJson (.seq false [.float "nan"]) = .ok "[NaN]" ∧ Json.parse "[NaN]" = none := by
  decide +kernel

/-- different documents never render to the same text -/
theorem render_faithful (j j' : Json) : floatsOk j = true → floatsOk j' = true → Json.render j = Json.render j' → j = j' :=
  render_injective j j'

/-! ## determinism: equal values, equal output -/

/-- FULL statement: values that differ only in the order in which equal sets list their elements serialise
identically.  FALSE of the code: `_json_traverse` and `_markdown_result_list` emit sets in iteration order. -/
def json_deterministic_up_to_sets_full : Prop := ∀ v v' : PyVal, v ≈ₛ v' → jsonTraverse v = jsonTraverse v'

def md_deterministic_up_to_sets_full : Prop := ∀ (v v' : PyVal) (lvl : Nat), v ≈ₛ v' → markdown v lvl = markdown v' lvl

def twoFlags : PyVal := .seq true [.enumPlain "REVOKE" true (.int 128), .enumPlain "DNS_ZONE_KEY" true (.int 256)]
def twoFlags' : PyVal := .seq true [.enumPlain "DNS_ZONE_KEY" true (.int 256), .enumPlain "REVOKE" true (.int 128)]

theorem twoFlags_equiv : twoFlags ≈ₛ twoFlags' :=
  .step (.here _ _ (List.Perm.swap _ _ _)) (.refl _)

theorem json_set_order_full_fails : ¬ json_deterministic_up_to_sets_full := by
  intro h
  have := congrArg (fun r => r.map Json.render) (h _ _ twoFlags_equiv)
  revert this
  decide +kernel

theorem md_set_order_full_fails : ¬ md_deterministic_up_to_sets_full := by
  intro h
  have := h _ _ 0 twoFlags_equiv
  revert this
  decide +kernel

/-- PARTIAL: proved for values in which no set has two or more elements.  Missing: invariance under the order
of larger sets, which the code does not have. -/
theorem json_deterministic_up_to_sets_partial (v v' : PyVal) :
    noBigSets v = true → v ≈ₛ v' → jsonTraverse v = jsonTraverse v' := by
  intro h e
  rw [setEquiv_eq e h]

theorem md_deterministic_up_to_sets_partial (v v' : PyVal) (lvl : Nat) :
    noBigSets v = true → v ≈ₛ v' → markdown v lvl = markdown v' lvl := by
  intro h e
  rw [setEquiv_eq e h]

/- The model's JSON side is a pure function of the value: there is no state by which an earlier serialisation could
influence a later one.  Markdown has the class-level encoder state, treated next. -/

/-! ## the class-level encoder state -/

/-- FULL statement: after a successful Markdown call the class state is what it was.  FALSE of the code:
`_markdown_human_readable_names` assigns `cls.post_text_encoder`, which creates an attribute on the class of
the object being rendered. -/
def md_encoder_restored_full : Prop :=
  ∀ (v : PyVal) (σ σ' : EncState) (t : String), asMarkdownSt v σ = .ok (t, σ') → σ' = σ

def report : PyVal :=
  .hasAsdict ⟨"app.Report", "", false, true, false, none, false, none⟩
    (some [⟨"table", true, none⟩, ⟨"note", true, none⟩]) none ""
    (.dict true [(.str "table", .dict false [(.enumPlain "A" false (.int 1), .str "x")]), (.str "note", .str "hello")])

theorem md_encoder_restored_full_fails : ¬ md_encoder_restored_full := by
  intro h
  have := h report EncState.init ⟨Enc.dflt, [("app.Report", Enc.dflt)]⟩ "* Table:\n    * A: x\n* Note: hello\n" (by decide +kernel)
  revert this
  decide +kernel

/-- PARTIAL: every class still resolves to the encoder it resolved to before, and `Serializable`'s own
encoder is unchanged (attributes may have been added to classes).  Hypotheses: no object claims to be of class
`Serializable` itself, and the call is made as a proper subclass (`obj.as_markdown()` always is).  Missing:
equality of the state, refuted above. -/
theorem md_encoder_restored_partial (v : PyVal) (cls : String) (lvl : Nat) (σ σ' : EncState) (r : MdRes) :
    allHdrs properCls v = true → cls ≠ baseCls → mdResult v cls lvl σ = .ok (r, σ') → SameEncoders σ σ' :=
  fun h hc hr => mdResult_preserves v h cls lvl σ r σ' hc hr

theorem as_markdown_encoder_restored_partial (v : PyVal) (σ σ' : EncState) (t : String) :
    allHdrs properCls v = true → v.isSer = true → asMarkdownSt v σ = .ok (t, σ') → SameEncoders σ σ' := by
  intro h hs hr
  unfold asMarkdownSt at hr
  rw [if_pos hs] at hr
  match hm : mdAsMarkdown v v.clsOf 0 σ with
  | .error e => rw [hm] at hr; cases hr
  | .ok (r, σ₁) =>
    rw [hm] at hr
    cases hr
    exact mdAsMarkdown_preserves v h 0 σ r _ hm

/-- The added attribute is observable: with the same encoder installed on `Serializable`, `as_markdown()` of the
same object gives a different text in a process where the object's class has rendered Markdown before. -/
theorem md_encoder_pin_observable :
    let installed : Enc := ⟨"<<", ">>"⟩
    let fresh := (asMarkdownSt report ⟨installed, []⟩).map (·.1)
    let after := (asMarkdownSt report EncState.init).bind fun r => (asMarkdownSt report { r.2 with base := installed }).map (·.1)
    fresh = .ok "* Table:\n    * A: <<x>>\n* Note: <<hello>>\n" ∧ after = .ok "* Table:\n    * A: x\n* Note: hello\n" := by
  decide +kernel

/-! ## non-vacuity: a realistic object -/

/-- an attrs object holding a coded enum, bytes, a nested list and `None` -/
def sample : PyVal :=
  .hasAsdict ⟨"cryptoparser.tls.extension.TlsExtensionUnparsed", "", false, true, false, none, false, none⟩
    (some [⟨"extension_type", true, none⟩, ⟨"extension_data", true, none⟩, ⟨"groups", true, some "Named Groups"⟩,
           ⟨"comment", false, none⟩]) none ""
    (.dict true [
      (.str "extension_type", .enumParams "SERVER_NAME" "server_name" none),
      (.str "extension_data", .bytes [0x00, 0xab, 0xff]),
      (.str "groups", .seq false [.seq false [.int 23, .int 24], .seq false []]),
      (.str "comment", .none)])

example : KeysOrderable sample ∧ KeysOrderableNative sample ∧ noBigSets sample = true ∧ allHdrs properCls sample = true := by
  unfold KeysOrderable KeysOrderableNative
  decide +kernel

example : asJson sample = .ok
    "{\"extension_type\": \"SERVER_NAME\", \"extension_data\": \"00:AB:FF\", \"groups\": [[23, 24], []], \"comment\": null}" := by
  decide +kernel

example : asMarkdown sample = .ok
    "* Extension Type: server_name\n* Extension Data: 00:AB:FF\n* Named Groups:\n    1.\n        1. 23\n        2. 24\n    2. -\n" := by
  decide +kernel

example : ∃ j, jsonTraverse sample = .ok j ∧ floatsOk j = true ∧ Json.parse (Json.render j) = some j := by
  obtain ⟨j, hj⟩ := json_total sample (by unfold KeysOrderable; decide +kernel)
  refine ⟨j, hj, ?_, ?_⟩
  all_goals
    have : j = .obj [("extension_type", .str "SERVER_NAME"), ("extension_data", .str "00:AB:FF"),
        ("groups", .arr [.arr [.int 23, .int 24], .arr []]), ("comment", .null)] := by
      have h2 : jsonTraverse sample = .ok (.obj [("extension_type", .str "SERVER_NAME"), ("extension_data", .str "00:AB:FF"),
        ("groups", .arr [.arr [.int 23, .int 24], .arr []]), ("comment", .null)]) := by rfl
      rw [h2] at hj
      exact (Except.ok.inj hj).symm
    subst this
  · decide +kernel
  · exact render_wellformed _ (by decide +kernel)

/-- escaping: quotes, backslash, control characters, BMP and astral characters -/
example : Json.render (.str "a\"\\\n\x01é😀") = "\"a\\\"\\\\\\n\\u0001\\u00e9\\ud83d\\ude00\"" := by decide +kernel

example : Json.parse "\"a\\\"\\\\\\n\\u0001\\u00e9\\ud83d\\ude00\"" = some (.str "a\"\\\n\x01é😀") :=
  render_wellformed (.str "a\"\\\n\x01é😀") (by decide +kernel)

/-- the strict parser does reject what is not JSON -/
example : Json.parse "[NaN]" = none ∧ Json.parse "[01]" = none ∧ Json.parse "{\"a\": 1,}" = none ∧
    Json.parse "\"\\ud83d\"" = none := by decide +kernel

end Cp.C14
