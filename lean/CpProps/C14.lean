import CpProofs.Serial
/-
  C14 — JSON and Markdown output is always well-formed, deterministic and faithful.

  The model (`CpModel/Serial.lean`) transcribes `Serializable._json_traverse`, `json.dumps` and
  `Serializable._markdown_result*`; it is tied to the code by the `JS`/`MD`/`MDS` correspondence ops.
  Proofs are in `CpProofs/Serial.lean`.  Three statements that were false of the code (set iteration order,
  the encoder pinned on a class, Markdown returning a raw object) are theorems since the code was repaired;
  their former counterexamples are kept as regression `example`s.
-/
namespace Cp.C14
open Cp Cp.Serial

/-! ## no value makes serialisation fail -/

/-- `_json_traverse` succeeds on every value whose plain dicts have `sorted()`-able keys.  `Json` is the type
`json.dumps` encodes without calling `default` again, so membership in `Json` is well-formedness of the tree. -/
theorem json_total (v : PyVal) : KeysOrderable v → ∃ j, jsonTraverse v = .ok j :=
  jsonTraverse_total v

/-- `obj.as_json()` (`json.dumps(obj)`) succeeds and yields a text -/
theorem as_json_total (v : PyVal) : KeysOrderableNative v → ∃ s, asJson v = .ok s := by
  intro h
  obtain ⟨j, hj⟩ := jsonNative_total v h
  exact ⟨Json.render j, by simp [asJson, hj, Except.map]⟩

/-- `_markdown_result(v, level)` succeeds -/
theorem md_total (v : PyVal) (lvl : Nat) : KeysOrderable v → ∃ r, markdown v lvl = .ok r := by
  intro h
  obtain ⟨r, hr⟩ := mdResult_total v false h baseCls lvl EncState.init
  exact ⟨r.1, by simp [markdown, markdownSt, hr, Except.map]⟩

/-- `obj.as_markdown()` succeeds and yields a text, whatever encoder state it starts from -/
theorem as_markdown_total (v : PyVal) (σ : EncState) : KeysOrderable v → ∃ r, asMarkdownSt v σ = .ok r := by
  intro h
  unfold asMarkdownSt
  split
  · obtain ⟨r, hr⟩ := mdAsMarkdown_total v false h v.clsOf 0 σ
    exact ⟨_, by rw [hr]; rfl⟩
  · obtain ⟨r, hr⟩ := mdResult_total v false h baseCls 0 σ
    exact ⟨_, by rw [hr]; rfl⟩

/-- the hypothesis is needed: a dict with a `str` and an `int` key makes `sorted()` raise -/
theorem json_total_needs_orderable_keys :
    jsonTraverse (.dict false [(.int 1, .str "a"), (.str "b", .int 2)]) = .error (.crash "TypeError") := by
  rfl

/-! ## the text is well-formed JSON -/

/-- The text `json.dumps` writes for a document without non-finite floats is accepted by a strict RFC 8259
parser (`Json.parse`: no `NaN`/`Infinity`, no leading zeros, no raw control characters, no lone surrogates),
and the parser reads back exactly the document. -/
theorem render_wellformed (j : Json) : floatsOk j = true → Json.parse (Json.render j) = some j :=
  parse_render j

/-- the string-escaping part on its own: `unescape (escape s) = s` for every string, including control
characters, quotes, backslashes and characters outside the BMP (surrogate pairs) -/
theorem escape_roundtrip (s rest : List Char) : parseStrBody (escape s ++ '"' :: rest) = some (s, rest) :=
  parseStrBody_escape s rest

/-- no `NaN` / `Infinity` can appear unless a float field holds one -/
theorem json_no_nonfinite (v : PyVal) (j : Json) : floatsFinite v = true → jsonTraverse v = .ok j → floatsOk j = true :=
  jsonTraverse_finite v j

/-- `obj.as_json()` succeeds and yields a document that the strict parser accepts -/
theorem as_json_wellformed (v : PyVal) : KeysOrderableNative v → floatsFinite v = true →
    ∃ s j, asJson v = .ok s ∧ Json.parse s = some j := by
  intro hk hf
  obtain ⟨j, hj⟩ := jsonNative_total v hk
  exact ⟨Json.render j, j, by simp [asJson, hj, Except.map], parse_render j (jsonNative_finite v j hf hj)⟩

/-- the hypothesis is needed: `json.dumps` writes `NaN` for a NaN float, which is not JSON -/
theorem nan_is_not_json : asJson (.seq false [.float "nan"]) = .ok "[NaN]" ∧ Json.parse "[NaN]" = none := by
  decide +kernel

/-- different documents never render to the same text -/
theorem render_faithful (j j' : Json) : floatsOk j = true → floatsOk j' = true → Json.render j = Json.render j' → j = j' :=
  render_injective j j'

/-! ## determinism: equal values, equal output -/

/- `v ≈ₛ v'`: the two values differ only in the order in which equal sets list their elements (any number of sets,
at any depth, dict keys included).  `distinctKeys v`: in every set inside `v`, different elements have
different JSON documents — the key `_get_ordered_set` sorts by.  These were `…_full : Prop` statements refuted
by `twoFlags` while `_json_traverse` / `_markdown_result_list` emitted sets in iteration order. -/

/-- the JSON tree does not depend on the iteration order of sets -/
theorem json_deterministic_up_to_sets (v v' : PyVal) : distinctKeys v = true → v ≈ₛ v' → jsonTraverse v = jsonTraverse v' :=
  fun h e => (setEquiv_inv e h).1

/-- `obj.as_json()` does not depend on the iteration order of sets -/
theorem as_json_deterministic_up_to_sets (v v' : PyVal) : distinctKeys v = true → v ≈ₛ v' → asJson v = asJson v' := by
  intro h e
  unfold asJson
  rw [(setEquiv_inv e h).2.1]

/-- `_markdown_result(v, level)` does not depend on the iteration order of sets -/
theorem md_deterministic_up_to_sets (v v' : PyVal) (lvl : Nat) : distinctKeys v = true → v ≈ₛ v' → markdown v lvl = markdown v' lvl := by
  intro h e
  unfold markdown markdownSt
  rw [(setEquiv_inv e h).2.2.1]

/-- `obj.as_markdown()` does not depend on the iteration order of sets, whatever encoder state it starts from -/
theorem as_markdown_deterministic_up_to_sets (v v' : PyVal) (σ : EncState) :
    distinctKeys v = true → v ≈ₛ v' → asMarkdownSt v σ = asMarkdownSt v' σ := by
  intro h e
  obtain ⟨_, _, h3, h4, h5⟩ := setEquiv_inv e h
  unfold asMarkdownSt
  rw [isSer_congr h5, clsOf_congr h5, h3, h4]

def twoFlags : PyVal := .seq true [.enumPlain "REVOKE" true (.int 128), .enumPlain "DNS_ZONE_KEY" true (.int 256)]
def twoFlags' : PyVal := .seq true [.enumPlain "DNS_ZONE_KEY" true (.int 256), .enumPlain "REVOKE" true (.int 128)]

theorem twoFlags_equiv : twoFlags ≈ₛ twoFlags' :=
  .step (.here _ _ (List.Perm.swap _ _ _)) (.refl _)

/-- regression: the former counterexample (DNSKEY flags inserted in two orders) now renders identically, ordered by
member name -/
example : distinctKeys twoFlags = true ∧ asJson twoFlags = asJson twoFlags' ∧
    asJson twoFlags = .ok "[{\"DNS_ZONE_KEY\": 256}, {\"REVOKE\": 128}]" ∧
    asMarkdown twoFlags = asMarkdown twoFlags' ∧ asMarkdown twoFlags = .ok "1. DNS_ZONE_KEY\n2. REVOKE\n" := by
  decide +kernel

/-- the order is the order of the JSON texts of the items: strings by their literal, numbers by their digits,
mixed content too -/
example : asJson (.seq true [.int 9, .str "a", .int 10, .none, .bytes [1], .seq false [.int 1, .int 2]]) =
    .ok "[\"01\", \"a\", 10, 9, [1, 2], null]" := by
  decide +kernel

/-- The hypothesis is needed for Markdown: two members of different enumerations with the same name and value code
but different value texts have the same JSON document (`"A"`), so the sort keeps them in iteration order, and their
Markdown differs. -/
theorem md_deterministic_needs_distinct_keys :
    let v : PyVal := .seq true [.enumParams "A" "x" none, .enumParams "A" "y" none]
    let v' : PyVal := .seq true [.enumParams "A" "y" none, .enumParams "A" "x" none]
    v ≈ₛ v' ∧ distinctKeys v = false ∧ asJson v = asJson v' ∧ asMarkdown v ≠ asMarkdown v' := by
  refine ⟨.step (.here _ _ (List.Perm.swap _ _ _)) (.refl _), ?_⟩
  decide +kernel

/- The model's JSON side is a pure function of the value: there is no state by which an earlier serialisation could
influence a later one.  Markdown has the class-level encoder state, treated next. -/

/-! ## the class-level encoder state -/

/- These were `md_encoder_restored_full : Prop`, refuted by `report` while `_markdown_human_readable_names`
assigned `cls.post_text_encoder` (which created an attribute on the class of the object being rendered). -/

/-- after a successful `cls._markdown_result(v, level)` the class state is what it was: no class has gained a
`post_text_encoder` attribute and `Serializable.post_text_encoder` is the encoder it was -/
theorem md_encoder_restored (v : PyVal) (cls : String) (lvl : Nat) (σ σ' : EncState) (r : MdRes) :
    mdResult v cls lvl σ = .ok (r, σ') → σ' = σ :=
  mdResult_restores v cls lvl σ r σ'

/-- the same for `obj.as_markdown()` -/
theorem as_markdown_encoder_restored (v : PyVal) (σ σ' : EncState) (t : String) :
    asMarkdownSt v σ = .ok (t, σ') → σ' = σ := by
  intro hr
  unfold asMarkdownSt at hr
  split at hr
  · match hm : mdAsMarkdown v v.clsOf 0 σ with
    | .error e => rw [hm] at hr; cases hr
    | .ok (r, σ₁) =>
      rw [hm] at hr
      cases hr
      exact mdAsMarkdown_restores v _ 0 σ r _ hm
  · match hm : mdResult v baseCls 0 σ with
    | .error e => rw [hm] at hr; cases hr
    | .ok (r, σ₁) =>
      rw [hm] at hr
      cases hr
      exact mdResult_restores v _ 0 σ r _ hm

/-- the output does not depend on what was serialised before: `as_markdown()` of `v` after any successful
`as_markdown()` of any `w` is `as_markdown()` of `v` without it -/
theorem as_markdown_independent_of_history (w v : PyVal) (σ σ₁ : EncState) (t : String) :
    asMarkdownSt w σ = .ok (t, σ₁) → asMarkdownSt v σ₁ = asMarkdownSt v σ := by
  intro h
  rw [as_markdown_encoder_restored w σ σ₁ t h]

/-- … and neither does it depend on it through an encoder installed afterwards: installing `e` on `Serializable`
after serialising `w` gives the state installing it before would have given -/
theorem encoder_installed_later_is_honoured (w v : PyVal) (σ σ₁ : EncState) (t : String) (e : Enc) :
    asMarkdownSt w σ = .ok (t, σ₁) → asMarkdownSt v { σ₁ with base := e } = asMarkdownSt v { σ with base := e } := by
  intro h
  rw [as_markdown_encoder_restored w σ σ₁ t h]

def report : PyVal :=
  .hasAsdict ⟨"app.Report", "", false, true, false, none, false, none⟩
    (some [⟨"table", true, none⟩, ⟨"note", true, none⟩]) none
    (.dict true [(.str "table", .dict false [(.enumPlain "A" false (.int 1), .str "x")]), (.str "note", .str "hello")])

/-- regression: the former counterexample (a dict with an enum key) leaves the state untouched … -/
example : asMarkdownSt report EncState.init = .ok ("* Table:\n    * A: x\n* Note: hello\n", EncState.init) := by
  decide +kernel

/-- … and an encoder installed on `Serializable` afterwards is used (it was ignored: `* A: x`, `* Note: hello`).
The key `A` itself is rendered with the default encoder, as before. -/
example :
    let installed : Enc := ⟨"<<", ">>"⟩
    let fresh := (asMarkdownSt report ⟨installed, []⟩).map (·.1)
    let after := (asMarkdownSt report EncState.init).bind fun r => (asMarkdownSt report { r.2 with base := installed }).map (·.1)
    fresh = .ok "* Table:\n    * A: <<x>>\n* Note: <<hello>>\n" ∧ after = fresh := by
  decide +kernel

/-! ## Markdown is text: a single-valued `_asdict()` is rendered, not returned -/

/- `asMarkdown : PyVal → Except PErr String`: in the model the result is text by construction.  What made the code
return a `Url` / `Base64Data` object was `_markdown_result_complex` handing back the raw non-dict value of
`_asdict()`; the statement that corresponds to the repair is that this value goes through `_markdown_result`. -/

/-- for an object whose `_asdict()` is not a dict (and whose class does not override `_as_markdown`),
`obj._as_markdown(level)` is `cls._markdown_result(obj._asdict(), level)` -/
theorem md_single_value_is_rendered (h : ObjHdr) (metas : Option (List FieldMeta)) (inner : PyVal) :
    h.mdLit = none → (∀ o kvs, inner ≠ .dict o kvs) → mdAsMarkdown (.hasAsdict h metas none inner) = mdResult inner := by
  intro hl hnd
  simp only [mdAsMarkdown, asMarkdownOf, hl]
  cases inner with
  | dict o kvs => exact absurd rfl (hnd o kvs)
  | _ => simp only [mdComplexAsdict]

/-- in particular a `str` value passes through `post_text_encoder` like every other leaf (it used to bypass it) -/
theorem md_single_str_is_encoded (h : ObjHdr) (metas : Option (List FieldMeta)) (s : String) (σ : EncState) :
    h.mdLit = none → h.serializable = true →
    asMarkdownSt (.hasAsdict h metas none (.str s)) σ = .ok ((σ.get h.cls).pre ++ s ++ (σ.get h.cls).post, σ) := by
  intro hl hs
  simp only [asMarkdownSt, PyVal.isSer, PyVal.hdr?, hs, if_true, PyVal.clsOf, mdAsMarkdown, asMarkdownOf, hl, mdComplexAsdict,
    mdResult, encode, Except.map]

/-- regression: a CSP host source (`_asdict()` is a urllib3 `Url`) renders as the text of the URL -/
example : asMarkdown (.hasAsdict ⟨"cryptoparser.httpx.header.ContentSecurityPolicySourceHost", "", false, true, false, none, false, none⟩
    (some [⟨"value", true, none⟩]) none
    (.hasAsdict ⟨"urllib3.util.url.Url", "https://example.com/x", false, false, true, none, false, none⟩ none none
      (.dict true [(.str "scheme", .str "https"), (.str "host", .str "example.com"), (.str "path", .str "/x")]))) =
    .ok "https://example.com/x" := by
  decide +kernel

/-! ## non-vacuity: a realistic object -/

/-- an attrs object holding a coded enum, bytes, a nested list and `None` -/
def sample : PyVal :=
  .hasAsdict ⟨"cryptoparser.tls.extension.TlsExtensionUnparsed", "", false, true, false, none, false, none⟩
    (some [⟨"extension_type", true, none⟩, ⟨"extension_data", true, none⟩, ⟨"groups", true, some "Named Groups"⟩,
           ⟨"comment", false, none⟩]) none
    (.dict true [
      (.str "extension_type", .enumParams "SERVER_NAME" "server_name" none),
      (.str "extension_data", .bytes [0x00, 0xab, 0xff]),
      (.str "groups", .seq false [.seq false [.int 23, .int 24], .seq false []]),
      (.str "comment", .none)])

example : KeysOrderable sample ∧ KeysOrderableNative sample ∧ distinctKeys sample = true := by
  unfold KeysOrderable KeysOrderableNative
  decide +kernel

example : asJson sample = .ok
    "{\"extension_type\": \"SERVER_NAME\", \"extension_data\": \"00:AB:FF\", \"groups\": [[23, 24], []], \"comment\": null}" := by
  decide +kernel

example : asMarkdown sample = .ok
    "* Extension Type: server_name\n* Extension Data: 00:AB:FF\n* Named Groups:\n    1.\n        1. 23\n        2. 24\n    2. -\n" := by
  decide +kernel

example : ∃ j, jsonTraverse sample = .ok j ∧ floatsOk j = true ∧ Json.parse (Json.render j) = some j := by
  obtain ⟨j, hj⟩ := json_total sample (by unfold KeysOrderable; decide +kernel)
  refine ⟨j, hj, ?_, ?_⟩
  all_goals
    have : j = .obj [("extension_type", .str "SERVER_NAME"), ("extension_data", .str "00:AB:FF"),
        ("groups", .arr [.arr [.int 23, .int 24], .arr []]), ("comment", .null)] := by
      have h2 : jsonTraverse sample = .ok (.obj [("extension_type", .str "SERVER_NAME"), ("extension_data", .str "00:AB:FF"),
        ("groups", .arr [.arr [.int 23, .int 24], .arr []]), ("comment", .null)]) := by rfl
      rw [h2] at hj
      exact (Except.ok.inj hj).symm
    subst this
  · decide +kernel
  · exact render_wellformed _ (by decide +kernel)

/-- escaping: quotes, backslash, control characters, BMP and astral characters -/
example : Json.render (.str "a\"\\\n\x01é😀") = "\"a\\\"\\\\\\n\\u0001\\u00e9\\ud83d\\ude00\"" := by decide +kernel

example : Json.parse "\"a\\\"\\\\\\n\\u0001\\u00e9\\ud83d\\ude00\"" = some (.str "a\"\\\n\x01é😀") :=
  render_wellformed (.str "a\"\\\n\x01é😀") (by decide +kernel)

/-- the strict parser does reject what is not JSON -/
example : Json.parse "[NaN]" = none ∧ Json.parse "[01]" = none ∧ Json.parse "{\"a\": 1,}" = none ∧
    Json.parse "\"\\ud83d\"" = none := by decide +kernel

end Cp.C14
