import CpModel.Text.Scan
import CpProofs.Text
/-
  C18 (scanner layer) — insignificant spelling never changes what `ParserText._parse_string_array` returns.

  `parseStringArray`, `parseStringUntilSeparator`, `checkSeparators` (CpModel/Text/Scan.lean) transcribe the
  imperative scanner with its offsets; `splitTrimDrop` is the offset-free specification: split on the separator,
  trim the whitespace bytes at both ends of every element, drop the empty elements (`skip_empty=True`) or reject
  them (a final empty element after a separator is tolerated, as the code does).

  1. refinement      the scanner computes exactly the specification and consumes the whole buffer
  2. total, no crash  only `InvalidValue` can be raised; the out-of-contract backward scan and fuel exhaustion are
                      unreachable, for EVERY separator set, whitespace set, `skip_empty`, `max_item_num`
  3. invariance      whitespace runs before/after separators and at both ends, empty elements under `skip_empty`;
                      the canonical spellings parse back
  4. cost            interpreter steps are linear; the bytes copied by the search's slices are quadratic
  5. quote-aware     the same for `quote_aware=True` (`parseStringArrayQ`, used by the header value lists): refinement to
                      the split outside quoted-strings, totality, invariance, canonical spelling,
                      `quoted_separator_not_split`
-/
namespace Cp.C18
open Cp Cp.Text

/-! ## 1. refinement -/

/-- REFINEMENT.  For a single-byte separator that is not one of the whitespace bytes and no `max_item_num`, the
imperative scanner started at offset 0 returns exactly `splitTrimDrop sep ws skipEmpty b` and consumes the whole
buffer.  There is no further side condition: `b` is ANY byte string (non-ASCII bytes are `InvalidValue` on both
sides, in the same places). -/
theorem scan_refines_split (sep : UInt8) (ws : Bytes) (skipEmpty : Bool) (hsep : sep ∉ ws) (b : Bytes) :
    parseStringArray b 0 [sep] ws skipEmpty none =
      match splitTrimDrop sep ws skipEmpty b with
      | .ok items => .ok (items, b.length)
      | .error e => .error e := by
  have := array_refines_at sep ws skipEmpty hsep [] b
  simp only [List.nil_append, List.length_nil] at this
  rw [this]
  cases splitTrimDrop sep ws skipEmpty b <;> rfl

/-- The same from any `_parsed_length`: what lies before the start offset is irrelevant. -/
theorem scan_refines_split_at (sep : UInt8) (ws : Bytes) (skipEmpty : Bool) (hsep : sep ∉ ws) (pre b : Bytes) :
    parseStringArray (pre ++ b) pre.length [sep] ws skipEmpty none =
      match splitTrimDrop sep ws skipEmpty b with
      | .ok items => .ok (items, (pre ++ b).length)
      | .error e => .error e := by
  rw [array_refines_at sep ws skipEmpty hsep pre b]
  cases splitTrimDrop sep ws skipEmpty b <;> rfl

/-! ## 2. termination, no crash — every parameter combination -/

/-- `_parse_string_array` from any position inside the buffer either returns (items, a position inside the buffer)
or raises `InvalidValue`. -/
theorem array_total (b sepSet ws : Bytes) (skipEmpty : Bool) (maxItems : Option Nat) (off : Nat)
    (hoff : off ≤ b.length) :
    (∃ items off', parseStringArray b off sepSet ws skipEmpty maxItems = .ok (items, off') ∧ off' ≤ b.length) ∨
      parseStringArray b off sepSet ws skipEmpty maxItems = .error .invalidValue :=
  Cp.Text.array_total b sepSet ws skipEmpty maxItems off hoff

/-- NO CRASH: no exception other than `InvalidValue`; in particular the backward whitespace scan of
`_parse_string_until_separator` never leaves the item (`"OutOfContract"`: negative length / endless loop of the
real code), because every iteration starts behind the leading whitespace. -/
theorem array_no_crash (b sepSet ws : Bytes) (skipEmpty : Bool) (maxItems : Option Nat) (off : Nat)
    (hoff : off ≤ b.length) (kind : String) :
    parseStringArray b off sepSet ws skipEmpty maxItems ≠ .error (.crash kind) := by
  rcases Cp.Text.array_total b sepSet ws skipEmpty maxItems off hoff with ⟨items, off', h, _⟩ | h <;>
    rw [h] <;> intro hc <;> cases hc

/-- TERMINATION: `len + 1` iterations of the `while True` loop always suffice. -/
theorem array_fuel_suffices (b sepSet ws : Bytes) (skipEmpty : Bool) (maxItems : Option Nat) (off : Nat)
    (hoff : off ≤ b.length) :
    parseStringArray b off sepSet ws skipEmpty maxItems ≠ .error (.crash "Fuel") :=
  array_no_crash b sepSet ws skipEmpty maxItems off hoff "Fuel"

/-! ## 3. invariance under insignificant spelling

Stated for `scanItems`, the items the IMPERATIVE scanner returns (transported through the refinement). -/

/-- what the scanner returns is the specification -/
theorem scanItems_is_spec (sep : UInt8) (ws : Bytes) (skipEmpty : Bool) (hsep : sep ∉ ws) (b : Bytes) :
    scanItems sep ws skipEmpty b = splitTrimDrop sep ws skipEmpty b :=
  scanItems_eq sep ws skipEmpty hsep b

/-- a run of whitespace in front of the value -/
theorem ws_at_start (sep : UInt8) (ws : Bytes) (skipEmpty : Bool) (hsep : sep ∉ ws) (w b : Bytes)
    (hw : ∀ x ∈ w, x ∈ ws) : scanItems sep ws skipEmpty (w ++ b) = scanItems sep ws skipEmpty b := by
  rw [scanItems_eq _ _ _ hsep, scanItems_eq _ _ _ hsep, spec_leading_ws sep ws w b skipEmpty hsep hw]

/-- a run of whitespace behind the value -/
theorem ws_at_end (sep : UInt8) (ws : Bytes) (skipEmpty : Bool) (hsep : sep ∉ ws) (w b : Bytes)
    (hw : ∀ x ∈ w, x ∈ ws) : scanItems sep ws skipEmpty (b ++ w) = scanItems sep ws skipEmpty b := by
  rw [scanItems_eq _ _ _ hsep, scanItems_eq _ _ _ hsep, splitTrimDrop_eq, splitTrimDrop_eq,
    elems_trailing_ws sep ws b w hsep hw]

/-- a run of whitespace before any separator -/
theorem ws_before_sep (sep : UInt8) (ws : Bytes) (skipEmpty : Bool) (hsep : sep ∉ ws) (a w r : Bytes)
    (hw : ∀ x ∈ w, x ∈ ws) :
    scanItems sep ws skipEmpty (a ++ (w ++ sep :: r)) = scanItems sep ws skipEmpty (a ++ sep :: r) := by
  rw [scanItems_eq _ _ _ hsep, scanItems_eq _ _ _ hsep, splitTrimDrop_eq, splitTrimDrop_eq,
    elems_ws_before_sep sep ws a w r hsep hw]

/-- a run of whitespace after any separator -/
theorem ws_after_sep (sep : UInt8) (ws : Bytes) (skipEmpty : Bool) (hsep : sep ∉ ws) (a w r : Bytes)
    (hw : ∀ x ∈ w, x ∈ ws) :
    scanItems sep ws skipEmpty (a ++ sep :: (w ++ r)) = scanItems sep ws skipEmpty (a ++ sep :: r) := by
  rw [scanItems_eq _ _ _ hsep, scanItems_eq _ _ _ hsep, splitTrimDrop_eq, splitTrimDrop_eq,
    elems_ws_after_sep sep ws a w r hsep hw]

/-- with `skip_empty` an additional separator anywhere (an empty element `;;`) changes nothing -/
theorem empty_element (sep : UInt8) (ws : Bytes) (hsep : sep ∉ ws) (a r : Bytes) :
    scanItems sep ws true (a ++ sep :: sep :: r) = scanItems sep ws true (a ++ sep :: r) := by
  rw [scanItems_eq _ _ _ hsep, scanItems_eq _ _ _ hsep, splitTrimDrop_eq, splitTrimDrop_eq]
  exact dropItems_extra_sep sep ws a r

/-- with `skip_empty` a separator in front of the value changes nothing -/
theorem leading_separator (sep : UInt8) (ws : Bytes) (hsep : sep ∉ ws) (b : Bytes) :
    scanItems sep ws true (sep :: b) = scanItems sep ws true b := by
  rw [scanItems_eq _ _ _ hsep, scanItems_eq _ _ _ hsep, splitTrimDrop_eq, splitTrimDrop_eq]
  exact dropItems_leading_sep sep ws b

/-- with `skip_empty` a separator behind the value changes nothing -/
theorem trailing_separator (sep : UInt8) (ws : Bytes) (hsep : sep ∉ ws) (b : Bytes) :
    scanItems sep ws true (b ++ [sep]) = scanItems sep ws true b := by
  rw [scanItems_eq _ _ _ hsep, scanItems_eq _ _ _ hsep, splitTrimDrop_eq, splitTrimDrop_eq]
  exact dropItems_trailing_sep sep ws b

/-- CANONICAL SPELLING.  Trimmed, non-empty, separator-free ASCII items joined by the separator followed by any run
of whitespace `w` (`w = []`: `"a;b"`, `w = [0x20]`: `"a; b"`) parse back to exactly these items, and the whole
buffer is consumed.  (`items = []` needs `skip_empty`: the empty input is `InvalidValue` otherwise.) -/
theorem canonical_parses_back (sep : UInt8) (ws w : Bytes) (skipEmpty : Bool) (hsep : sep ∉ ws)
    (hw : ∀ x ∈ w, x ∈ ws) (items : List Bytes) (hne : items ≠ [])
    (hi : ∀ i ∈ items, sep ∉ i ∧ trim ws i = i ∧ i ≠ [] ∧ isAscii i = true) :
    parseStringArray (List.intercalate (sep :: w) items) 0 [sep] ws skipEmpty none =
      .ok (items, (List.intercalate (sep :: w) items).length) := by
  rw [scan_refines_split sep ws skipEmpty hsep, splitTrimDrop_eq, ← joinWith_eq_intercalate,
    elems_join sep ws w hsep hw items hne (fun i h => ⟨(hi i h).1, (hi i h).2.1⟩),
    specOfElems_items skipEmpty items (fun _ => hne) (fun i h => ⟨(hi i h).2.2.1, (hi i h).2.2.2⟩)]

/-- the empty list is spelled by the empty string when empty elements are skipped -/
theorem canonical_empty (sep : UInt8) (ws : Bytes) (hsep : sep ∉ ws) :
    parseStringArray [] 0 [sep] ws true none = .ok ([], 0) := by
  rw [scan_refines_split sep ws true hsep]
  simp [splitTrimDrop, splitSep, trim, trimStart, trimEnd, keepAscii]

/-! ## 4. cost (feeds C19) -/

/-- LINEAR: interpreter steps (loop-condition evaluations, loop-body passes, decodes, tests) of
`_parse_string_array` are at most `19·len + 13`. -/
theorem array_ticks_linear (sep : UInt8) (ws : Bytes) (skipEmpty : Bool) (hsep : sep ∉ ws) (b : Bytes) :
    arrayTicks b 0 [sep] ws skipEmpty none ≤ 19 * b.length + 13 :=
  Cp.Text.array_ticks_linear sep ws skipEmpty hsep b

/-- NOT LINEAR: inside those steps, `self._parsable[item_offset:separator_end].endswith(separator)` copies the
item read so far at every end position.  On a buffer without a separator (one long item) the first search alone
copies `0 + 1 + … + len = len·(len+1)/2` bytes. -/
theorem search_bytes_quadratic (sep : UInt8) (b : Bytes) (hb : sep ∉ b) :
    2 * sepSearchBytes b 0 [[sep]] (b.length + 1) 0 = b.length * (b.length + 1) :=
  Cp.Text.search_bytes_quadratic sep b hb

/-! ## 5. the quote-aware scanner (`quote_aware=True`: the value lists of header fields and TXT policy records)

`parseStringArrayQ` transcribes `_parse_string_array(…, quote_aware=True)`; its specification `splitTrimDropQ` splits
only on a separator that is read OUTSIDE an RFC 7230 quoted-string (`splitQ`; `QState`/`qNext` is the state machine
of `_get_quoted_string_state`).  Side conditions: the separator is not the double quote and not a whitespace byte, the
whitespace bytes do not contain the double quote (`,`/`;` with SP/HTAB).  Edits are made outside quoted-strings:
`qAfter .out a = .out` says that the text `a` in front of the edited place has balanced quotes. -/

/-- REFINEMENT (quote-aware).  ANY byte string: unbalanced quotes, backslashes, non-ASCII bytes. -/
theorem qa_scan_refines_split (sep : UInt8) (ws : Bytes) (skipEmpty : Bool) (hsep : sep ∉ ws) (hq : sep ≠ 0x22)
    (hqw : (0x22 : UInt8) ∉ ws) (b : Bytes) :
    parseStringArrayQ b 0 [sep] ws skipEmpty none =
      match splitTrimDropQ sep ws skipEmpty b with
      | .ok items => .ok (items, b.length)
      | .error e => .error e := by
  have := array_refines_atQ sep ws skipEmpty hsep hq hqw [] b
  simp only [List.nil_append, List.length_nil] at this
  rw [this]
  cases splitTrimDropQ sep ws skipEmpty b <;> rfl

/-- The same from any `_parsed_length`. -/
theorem qa_scan_refines_split_at (sep : UInt8) (ws : Bytes) (skipEmpty : Bool) (hsep : sep ∉ ws) (hq : sep ≠ 0x22)
    (hqw : (0x22 : UInt8) ∉ ws) (pre b : Bytes) :
    parseStringArrayQ (pre ++ b) pre.length [sep] ws skipEmpty none =
      match splitTrimDropQ sep ws skipEmpty b with
      | .ok items => .ok (items, (pre ++ b).length)
      | .error e => .error e := by
  rw [array_refines_atQ sep ws skipEmpty hsep hq hqw pre b]
  cases splitTrimDropQ sep ws skipEmpty b <;> rfl

/-- TOTAL (quote-aware): items and a position inside the buffer, or `InvalidValue` — every separator set, whitespace
set, `skip_empty`, `max_item_num`, every input. -/
theorem qa_array_total (b sepSet ws : Bytes) (skipEmpty : Bool) (maxItems : Option Nat) (off : Nat)
    (hoff : off ≤ b.length) :
    (∃ items off', parseStringArrayQ b off sepSet ws skipEmpty maxItems = .ok (items, off') ∧ off' ≤ b.length) ∨
      parseStringArrayQ b off sepSet ws skipEmpty maxItems = .error .invalidValue :=
  Cp.Text.array_totalQ b sepSet ws skipEmpty maxItems off hoff

/-- NO CRASH (quote-aware): nothing but `InvalidValue`; an unclosed quoted-string, a backslash at the end of the input
do not leave the contract of the backward scan and do not exhaust the fuel. -/
theorem qa_array_no_crash (b sepSet ws : Bytes) (skipEmpty : Bool) (maxItems : Option Nat) (off : Nat)
    (hoff : off ≤ b.length) (kind : String) :
    parseStringArrayQ b off sepSet ws skipEmpty maxItems ≠ .error (.crash kind) := by
  rcases Cp.Text.array_totalQ b sepSet ws skipEmpty maxItems off hoff with ⟨items, off', h, _⟩ | h <;>
    rw [h] <;> intro hc <;> cases hc

/-- what the quote-aware scanner returns is the specification -/
theorem qa_scanItems_is_spec (sep : UInt8) (ws : Bytes) (skipEmpty : Bool) (hsep : sep ∉ ws) (hq : sep ≠ 0x22)
    (hqw : (0x22 : UInt8) ∉ ws) (b : Bytes) :
    scanItemsQ sep ws skipEmpty b = splitTrimDropQ sep ws skipEmpty b :=
  scanItemsQ_eq sep ws skipEmpty hsep hq hqw b

/-- UNCHANGED WITHOUT QUOTES: on an input without a double quote the quote-aware scanner returns what the plain one
returns (the repair changes nothing for such values). -/
theorem qa_agrees_without_quotes (sep : UInt8) (ws : Bytes) (skipEmpty : Bool) (hsep : sep ∉ ws) (hq : sep ≠ 0x22)
    (hqw : (0x22 : UInt8) ∉ ws) (b : Bytes) (hb : (0x22 : UInt8) ∉ b) :
    parseStringArrayQ b 0 [sep] ws skipEmpty none = parseStringArray b 0 [sep] ws skipEmpty none := by
  rw [qa_scan_refines_split sep ws skipEmpty hsep hq hqw, scan_refines_split sep ws skipEmpty hsep,
    splitTrimDropQ_eq_plain sep ws skipEmpty b hb]

/-- a run of whitespace in front of the value -/
theorem qa_ws_at_start (sep : UInt8) (ws : Bytes) (skipEmpty : Bool) (hsep : sep ∉ ws) (hq : sep ≠ 0x22)
    (hqw : (0x22 : UInt8) ∉ ws) (w b : Bytes) (hw : ∀ x ∈ w, x ∈ ws) :
    scanItemsQ sep ws skipEmpty (w ++ b) = scanItemsQ sep ws skipEmpty b := by
  rw [scanItemsQ_eq _ _ _ hsep hq hqw, scanItemsQ_eq _ _ _ hsep hq hqw, specQ_leading_ws sep ws w b skipEmpty hsep hqw hw]

/-- a run of whitespace behind the value (even behind an unclosed quoted-string) -/
theorem qa_ws_at_end (sep : UInt8) (ws : Bytes) (skipEmpty : Bool) (hsep : sep ∉ ws) (hq : sep ≠ 0x22)
    (hqw : (0x22 : UInt8) ∉ ws) (w b : Bytes) (hw : ∀ x ∈ w, x ∈ ws) :
    scanItemsQ sep ws skipEmpty (b ++ w) = scanItemsQ sep ws skipEmpty b := by
  rw [scanItemsQ_eq _ _ _ hsep hq hqw, scanItemsQ_eq _ _ _ hsep hq hqw, splitTrimDropQ_eq, splitTrimDropQ_eq,
    elemsQ_trailing_ws sep ws b w hsep hw]

/-- a run of whitespace before a separator that is outside quoted-strings -/
theorem qa_ws_before_sep (sep : UInt8) (ws : Bytes) (skipEmpty : Bool) (hsep : sep ∉ ws) (hq : sep ≠ 0x22)
    (hqw : (0x22 : UInt8) ∉ ws) (a w r : Bytes) (ha : qAfter .out a = .out) (hw : ∀ x ∈ w, x ∈ ws) :
    scanItemsQ sep ws skipEmpty (a ++ (w ++ sep :: r)) = scanItemsQ sep ws skipEmpty (a ++ sep :: r) := by
  rw [scanItemsQ_eq _ _ _ hsep hq hqw, scanItemsQ_eq _ _ _ hsep hq hqw, splitTrimDropQ_eq, splitTrimDropQ_eq,
    elemsQ_ws_before_sep sep ws a w r hsep hq hqw ha hw]

/-- a run of whitespace after a separator that is outside quoted-strings -/
theorem qa_ws_after_sep (sep : UInt8) (ws : Bytes) (skipEmpty : Bool) (hsep : sep ∉ ws) (hq : sep ≠ 0x22)
    (hqw : (0x22 : UInt8) ∉ ws) (a w r : Bytes) (ha : qAfter .out a = .out) (hw : ∀ x ∈ w, x ∈ ws) :
    scanItemsQ sep ws skipEmpty (a ++ sep :: (w ++ r)) = scanItemsQ sep ws skipEmpty (a ++ sep :: r) := by
  rw [scanItemsQ_eq _ _ _ hsep hq hqw, scanItemsQ_eq _ _ _ hsep hq hqw, splitTrimDropQ_eq, splitTrimDropQ_eq,
    elemsQ_ws_after_sep sep ws a w r hsep hq hqw ha hw]

/-- with `skip_empty` an additional separator outside quoted-strings (an empty element `;;`) changes nothing -/
theorem qa_empty_element (sep : UInt8) (ws : Bytes) (hsep : sep ∉ ws) (hq : sep ≠ 0x22) (hqw : (0x22 : UInt8) ∉ ws)
    (a r : Bytes) (ha : qAfter .out a = .out) :
    scanItemsQ sep ws true (a ++ sep :: sep :: r) = scanItemsQ sep ws true (a ++ sep :: r) := by
  rw [scanItemsQ_eq _ _ _ hsep hq hqw, scanItemsQ_eq _ _ _ hsep hq hqw, splitTrimDropQ_eq, splitTrimDropQ_eq]
  exact dropItemsQ_extra_sep sep ws a r hq ha

/-- with `skip_empty` a separator in front of the value changes nothing -/
theorem qa_leading_separator (sep : UInt8) (ws : Bytes) (hsep : sep ∉ ws) (hq : sep ≠ 0x22)
    (hqw : (0x22 : UInt8) ∉ ws) (b : Bytes) :
    scanItemsQ sep ws true (sep :: b) = scanItemsQ sep ws true b := by
  rw [scanItemsQ_eq _ _ _ hsep hq hqw, scanItemsQ_eq _ _ _ hsep hq hqw, splitTrimDropQ_eq, splitTrimDropQ_eq]
  exact dropItemsQ_leading_sep sep ws b hq

/-- with `skip_empty` a separator behind a value with balanced quotes changes nothing -/
theorem qa_trailing_separator (sep : UInt8) (ws : Bytes) (hsep : sep ∉ ws) (hq : sep ≠ 0x22)
    (hqw : (0x22 : UInt8) ∉ ws) (b : Bytes) (hb : qAfter .out b = .out) :
    scanItemsQ sep ws true (b ++ [sep]) = scanItemsQ sep ws true b := by
  rw [scanItemsQ_eq _ _ _ hsep hq hqw, scanItemsQ_eq _ _ _ hsep hq hqw, splitTrimDropQ_eq, splitTrimDropQ_eq]
  exact dropItemsQ_trailing_sep sep ws b hq hb

/-- CANONICAL SPELLING (quote-aware).  Trimmed, non-empty ASCII items with balanced quotes (`qAfter .out i = .out`) and
no separator OUTSIDE a quoted-string (`freeQ`) — a separator INSIDE a quoted-string is allowed — joined by the separator
followed by any run of whitespace parse back to exactly these items, and the whole buffer is consumed. -/
theorem qa_canonical_parses_back (sep : UInt8) (ws w : Bytes) (skipEmpty : Bool) (hsep : sep ∉ ws) (hq : sep ≠ 0x22)
    (hqw : (0x22 : UInt8) ∉ ws) (hw : ∀ x ∈ w, x ∈ ws) (items : List Bytes) (hne : items ≠ [])
    (hi : ∀ i ∈ items, freeQ sep .out i = true ∧ qAfter .out i = .out ∧ trim ws i = i ∧ i ≠ [] ∧ isAscii i = true) :
    parseStringArrayQ (List.intercalate (sep :: w) items) 0 [sep] ws skipEmpty none =
      .ok (items, (List.intercalate (sep :: w) items).length) := by
  rw [qa_scan_refines_split sep ws skipEmpty hsep hq hqw, splitTrimDropQ_eq, ← joinWith_eq_intercalate,
    elemsQ_join sep ws w hsep hq hqw hw items hne (fun i h => ⟨(hi i h).1, (hi i h).2.1, (hi i h).2.2.1⟩),
    specOfElems_items skipEmpty items (fun _ => hne) (fun i h => ⟨(hi i h).2.2.2.1, (hi i h).2.2.2.2⟩)]

/-- the empty list is spelled by the empty string when empty elements are skipped -/
theorem qa_canonical_empty (sep : UInt8) (ws : Bytes) (hsep : sep ∉ ws) (hq : sep ≠ 0x22) (hqw : (0x22 : UInt8) ∉ ws) :
    parseStringArrayQ [] 0 [sep] ws true none = .ok ([], 0) := by
  rw [qa_scan_refines_split sep ws true hsep hq hqw]
  simp [splitTrimDropQ, splitQ, trim, trimStart, trimEnd, keepAscii]

/-- A SEPARATOR INSIDE A QUOTED-STRING DOES NOT SPLIT.  An element `name "body"` — `name` without separator and double
quote, `body` any run of qdtext and quoted-pairs (`quotedBody`: read inside the quotes the state never leaves them; the
separator, SP, escaped `\"` and `\\` are all allowed) — between any clean elements `pre` and `post` is returned as ONE
item, bytes unchanged, and its neighbours are returned as they are. -/
theorem quoted_separator_not_split (sep : UInt8) (ws w : Bytes) (skipEmpty : Bool) (hsep : sep ∉ ws) (hq : sep ≠ 0x22)
    (hqw : (0x22 : UInt8) ∉ ws) (hw : ∀ x ∈ w, x ∈ ws) (name body : Bytes) (pre post : List Bytes)
    (hn1 : sep ∉ name) (hn2 : (0x22 : UInt8) ∉ name) (hbody : quotedBody .inq body = true)
    (hitem : trim ws (name ++ 0x22 :: (body ++ [0x22])) = name ++ 0x22 :: (body ++ [0x22]))
    (hascii : isAscii (name ++ 0x22 :: (body ++ [0x22])) = true)
    (hi : ∀ i ∈ pre ++ post,
      freeQ sep .out i = true ∧ qAfter .out i = .out ∧ trim ws i = i ∧ i ≠ [] ∧ isAscii i = true) :
    parseStringArrayQ (List.intercalate (sep :: w) (pre ++ (name ++ 0x22 :: (body ++ [0x22])) :: post)) 0 [sep] ws
        skipEmpty none =
      .ok (pre ++ (name ++ 0x22 :: (body ++ [0x22])) :: post,
        (List.intercalate (sep :: w) (pre ++ (name ++ 0x22 :: (body ++ [0x22])) :: post)).length) := by
  apply qa_canonical_parses_back sep ws w skipEmpty hsep hq hqw hw _ (by simp)
  intro i hmem
  rcases List.mem_append.mp hmem with h | h
  · exact hi i (List.mem_append_left _ h)
  · rcases List.mem_cons.mp h with h | h
    · subst h
      obtain ⟨h1, h2⟩ := name_quoted_free sep hq name body hn1 hn2 hbody
      exact ⟨h1, h2, hitem, by simp, hascii⟩
    · exact hi i (List.mem_append_right _ h)

/-- LINEAR (quote-aware): interpreter steps of `_parse_string_array(…, quote_aware=True)` are at most
`21·len + 15` — per end position one step more than the plain scanner (the quoted-string state update). -/
theorem qa_array_ticks_linear (sep : UInt8) (ws : Bytes) (skipEmpty : Bool) (hsep : sep ∉ ws) (b : Bytes) :
    arrayTicksQ b 0 [sep] ws skipEmpty none ≤ 21 * b.length + 15 :=
  Cp.Text.array_ticks_linearQ sep ws skipEmpty hsep b

/-! ## non-vacuity: the hypotheses are satisfiable and the statements are about the real edge cases -/

-- `;` with SP/HTAB, the parameters of `NameValuePairList` (semicolon separated header fields)
example : (0x3b : UInt8) ∉ ([0x20, 0x09] : Bytes) := by decide

-- " a ;;\tb; " → [a, b], whole buffer consumed (skip_empty)
example : parseStringArray [0x20, 0x61, 0x20, 0x3b, 0x3b, 0x09, 0x62, 0x3b, 0x20] 0 [0x3b] [0x20, 0x09] true none =
    .ok ([[0x61], [0x62]], 9) := by decide
-- the same bytes without skip_empty: InvalidValue
example : parseStringArray [0x20, 0x61, 0x20, 0x3b, 0x3b, 0x09, 0x62, 0x3b, 0x20] 0 [0x3b] [0x20, 0x09] false none =
    .error .invalidValue := by decide
-- edge cases of the specification, as the code behaves: "", " ", ";" , "a;", "a; ", ";a", "a;;b"
example : splitTrimDrop 0x3b [0x20] false [] = .error .invalidValue := by decide
example : splitTrimDrop 0x3b [0x20] true [] = .ok [] := by decide
example : splitTrimDrop 0x3b [0x20] false [0x20] = .error .invalidValue := by decide
example : splitTrimDrop 0x3b [0x20] true [0x3b] = .ok [] := by decide
example : splitTrimDrop 0x3b [0x20] false [0x61, 0x3b] = .ok [[0x61]] := by decide
example : splitTrimDrop 0x3b [0x20] false [0x61, 0x3b, 0x20] = .ok [[0x61]] := by decide
example : splitTrimDrop 0x3b [0x20] false [0x3b, 0x61] = .error .invalidValue := by decide
example : splitTrimDrop 0x3b [0x20] false [0x61, 0x3b, 0x3b, 0x62] = .error .invalidValue := by decide
example : splitTrimDrop 0x3b [0x20] true [0x61, 0x3b, 0x3b, 0x62] = .ok [[0x61], [0x62]] := by decide
-- a non-ASCII byte inside an item is InvalidValue; inside trimmed whitespace it cannot occur (ws is ASCII)
example : splitTrimDrop 0x3b [0x20] true [0x61, 0xff, 0x3b, 0x62] = .error .invalidValue := by decide
-- the canonical theorem applies: items [a=1, b] joined with "; "
example : List.intercalate [0x3b, 0x20] [[0x61, 0x3d, 0x31], [0x62]] = [0x61, 0x3d, 0x31, 0x3b, 0x20, 0x62] := by decide
example : ∀ i ∈ ([[0x61, 0x3d, 0x31], [0x62]] : List Bytes),
    (0x3b : UInt8) ∉ i ∧ trim [0x20, 0x09] i = i ∧ i ≠ [] ∧ isAscii i = true := by decide
-- the out-of-contract state exists in the model of `_parse_string_until_separator` (an item of whitespace only
-- at the very start of the buffer): `array_no_crash` is not vacuous
example : parseStringUntilSeparator [0x20, 0x20, 0x3b] 0 [[0x3b]] true [0x20] = .error (.crash "OutOfContract") := by
  decide
-- and the cost functions are not constantly zero
example : arrayTicks [0x61, 0x3b, 0x62] 0 [0x3b] [0x20] true none = 32 := by decide
example : sepSearchBytes [0x61, 0x61, 0x61, 0x61] 0 [[0x3b]] 5 0 = 10 := by decide


-- quote-aware: `x="a; b"; c` is [x="a; b", c] — and the plain scanner (quote_aware=False) still splits inside the quotes
example : parseStringArrayQ [0x78, 0x3d, 0x22, 0x61, 0x3b, 0x20, 0x62, 0x22, 0x3b, 0x20, 0x63] 0 [0x3b] [0x20, 0x09] true none =
    .ok ([[0x78, 0x3d, 0x22, 0x61, 0x3b, 0x20, 0x62, 0x22], [0x63]], 11) := by decide
example : parseStringArray [0x78, 0x3d, 0x22, 0x61, 0x3b, 0x20, 0x62, 0x22, 0x3b, 0x20, 0x63] 0 [0x3b] [0x20, 0x09] true none =
    .ok ([[0x78, 0x3d, 0x22, 0x61], [0x62, 0x22], [0x63]], 11) := by decide
-- an escaped quote does not close the string: `"a\";b"` is one item; `"a\\";b` is two
example : parseStringArrayQ [0x22, 0x61, 0x5c, 0x22, 0x3b, 0x62, 0x22] 0 [0x3b] [0x20] true none =
    .ok ([[0x22, 0x61, 0x5c, 0x22, 0x3b, 0x62, 0x22]], 7) := by decide
example : parseStringArrayQ [0x22, 0x61, 0x5c, 0x5c, 0x22, 0x3b, 0x62] 0 [0x3b] [0x20] true none =
    .ok ([[0x22, 0x61, 0x5c, 0x5c, 0x22], [0x62]], 7) := by decide
-- an unclosed quoted-string extends to the end of the input; a backslash outside quotes is an ordinary byte
example : parseStringArrayQ [0x61, 0x3b, 0x22, 0x62, 0x3b, 0x63] 0 [0x3b] [0x20] true none =
    .ok ([[0x61], [0x22, 0x62, 0x3b, 0x63]], 6) := by decide
example : parseStringArrayQ [0x5c, 0x22, 0x3b, 0x61] 0 [0x3b] [0x20] true none = .ok ([[0x5c, 0x22, 0x3b, 0x61]], 4) := by
  decide
-- the quote-aware cost function: inside the quotes no separator is tested (2 per end position), outside 3
example : arrayTicksQ [0x22, 0x3b, 0x22, 0x3b, 0x62] 0 [0x3b] [0x20] true none = 41 := by decide
-- the hypotheses of `quoted_separator_not_split` are satisfiable: body `a; \"b` of `x="a; \"b"`
example : quotedBody .inq [0x61, 0x3b, 0x20, 0x5c, 0x22, 0x62] = true := by decide
example : quotedBody .inq [0x61, 0x22, 0x62] = false := by decide

end Cp.C18
