import CpModel.Cost
import CpProofs.Cost
import CpProps.C18a
/-
  C19 — parsing work is bounded linearly by the input size.

  `CpModel/Cost.lean` gives every loop of the binary model a tick-counting counterpart: one tick per pass through a
  loop body / per evaluation of a loop condition / per primitive call — the unit interpreter line events are
  proportional to (validated by `harness/props/c19.py`: line events ≤ α·ticks + β on the real code).

  1. the item loop         at most `len + 1` iterations and no fuel exhaustion for ANY positive item parser; linear
                           total cost when every item is paid for by the bytes it consumes
  2. declared counts       a count or length taken from the input never drives more passes than bytes present:
                           `_parse_numeric_array` checks before it loops, every vector parser rejects an over-long
                           declaration before the first item
  3. variants              at most one try per alternative
  4. framing and classes   record: constant; handshake framing: inner + constant; ClientHello (all loops, the variant
                           walk of every extension, the SCSV fold), ServerHello, Certificate, the handshake variant:
                           `A * len + B` with A, B computed from the regenerated tables
  5. depth                 the class graph of the TLS model is acyclic, call chains have at most 8 classes;
                           the text scanner's linear bound is C18's `array_ticks_linear`

  NOT claimed: bytes copied inside one step (`unparsed_bytes[parsed_length:]` is quadratic in bytes for many small
  items; `C18.search_bytes_quadratic` for the text scanner).
  The extension classes with structured bodies (CpModel/Tls/Ext2.lean: server_name, ALPN/ALPS, NPN, status_request,
  key_share, token_binding, SCT list) have tick functions of their own (`ext2BodyTicks`) and are covered by the linear
  bounds of the hello messages: every class is given its own extension data only, so a body parser — whether it accepts,
  rejects as an invalid value (the extension then stays with the fallback class) or fails — costs at most
  `ext2BodyA * len + ext2BodyC` (`structured_body_bounded_by_extension`), and an accepted one is paid for by the bytes it
  consumes (`structured_body_paid_by_consumed`).
-/
namespace Cp.C19
open Cp Cp.Codec Cp.Tls Cp.Cost

variable {α : Type}

/-! ## 1. the item loop (`_parse_parsable_derived_array`) -/

/-- ITERATIONS.  For ANY item parser whose successful parses consume at least one byte: the loop on a slice of length
`L` evaluates its condition at most `L + 1` times (for every fuel), and with fuel `≥ L` every failure of the loop is
the failure of an item — the modelled fuel exhaustion / zero-progress crash `NonTermination` is unreachable. -/
theorem items_iterations_bounded (item : Bytes → Except PErr (α × Nat))
    (hpos : ∀ bs x n, item bs = .ok (x, n) → 0 < n) (fuel : Nat) (b : Bytes) :
    itemIterations item fuel b ≤ b.length + 1 ∧
      (b.length ≤ fuel → ∀ e, parseItems item fuel b = .error e → ∃ b', item b' = .error e) :=
  ⟨itemIterations_le item fuel b, fun hf _ h => parseItems_error_is_item hpos hf h⟩

/-- in particular the loop as the vector parsers run it (fuel = slice length) never reports `NonTermination` unless
an item parser does -/
theorem items_never_exhaust_fuel (item : Bytes → Except PErr (α × Nat))
    (hpos : ∀ bs x n, item bs = .ok (x, n) → 0 < n)
    (hitem : ∀ bs, item bs ≠ .error (.crash "NonTermination")) (b : Bytes) :
    parseItems item b.length b ≠ .error (.crash "NonTermination") := by
  intro h
  obtain ⟨b', hb'⟩ := parseItems_error_is_item hpos (Nat.le_refl _) h
  exact hitem b' hb'

/-- COST.  If a successful item parse costs at most `a * consumed + c` ticks (and consumes no more than it is given)
and a failing one at most `a * available + c`, the whole loop on a slice of length `L` costs at most
`(a + c + 1) * L + 1` ticks — for every fuel. -/
theorem items_cost_linear {item : Bytes → Except PErr (α × Nat)} {itemTicks : Bytes → Nat} {a c : Nat}
    (hlen : ∀ bs x n, item bs = .ok (x, n) → n ≤ bs.length)
    (hok : ∀ bs x n, item bs = .ok (x, n) → itemTicks bs ≤ a * n + c)
    (herr : ∀ bs e, item bs = .error e → itemTicks bs ≤ a * bs.length + c) (fuel : Nat) (b : Bytes) :
    parseItemsTicks item itemTicks fuel b ≤ (a + c + 1) * b.length + 1 :=
  parseItemsTicks_le hlen hok herr fuel b

/-- and it returns at most `L` items -/
theorem items_count_bounded {item : Bytes → Except PErr (α × Nat)} {fuel : Nat} {b : Bytes} {xs : List α}
    (h : parseItems item fuel b = .ok xs) : xs.length ≤ b.length :=
  parseItems_ok_length_le h

/-! ## 2. declared counts and lengths -/

/-- `_parse_numeric_array` succeeds only when all `n * k` bytes are present: a count from the input never yields more
items than bytes (k ≥ 1) -/
theorem declared_count_bounded {bo : ByteOrder} {n k : Nat} {rest : Bytes} {xs : List Nat} {m : Nat}
    (h : parseNumArray bo n k rest = .ok (xs, m)) :
    n * k ≤ rest.length ∧ m = n * k ∧ xs.length = n ∧ (0 < k → n ≤ rest.length) := by
  obtain ⟨h1, h2, h3⟩ := parseNumArray_ok_count h
  refine ⟨h1, h2, h3, fun hk => ?_⟩
  have : n ≤ n * k := Nat.le_mul_of_pos_right n hk
  omega

/-- … and its loop runs at most `available` times whatever count is declared: the check comes first -/
theorem declared_count_ticks_bounded {k : Nat} (hk : 0 < k) (n : Nat) (rest : Bytes) :
    numItemsTicks n k rest ≤ rest.length + 1 :=
  numItemsTicks_le hk n rest

/-- an over-long count costs exactly the check -/
theorem declared_count_rejected_early (bo : ByteOrder) {n k : Nat} {rest : Bytes} (h : rest.length < n * k) :
    parseNumArray bo n k rest = .error (.notEnough ((n * k - rest.length : Nat) : Int)) ∧ numItemsTicks n k rest = 1 := by
  unfold parseNumArray numItemsTicks
  simp [h]

/-- `VectorParsable` / `VectorParsableDerived` / enum-coded vectors: a declared length larger than the data is
rejected with `NotEnoughData` BEFORE any item is parsed — for any item parser, any tick function -/
theorem vector_declared_length_rejected_early (p : VecParam) (item : Bytes → Except PErr (α × Nat))
    (sizeOf : α → Except PErr Nat) (itemTicks : Bytes → Nat) {bs : Bytes} {len n : Nat}
    (hp : parseNum .network p.numSize bs = .ok (len, n)) (hshort : (bs.drop n).length < len) :
    parseVecItems p item sizeOf bs = .error (.notEnough ((len - (bs.drop n).length : Nat) : Int)) ∧
      vecItemsTicks p item itemTicks bs = 2 := by
  have hs : bs.length - n < len := by simpa using hshort
  unfold parseVecItems vecItemsTicks
  simp [hp, hs, bind, Except.bind]

/-- `Vector` (numeric items): the same, the count `len / itemSize` is checked against the bytes present -/
theorem numeric_vector_declared_length_rejected_early (p : VecParam) (itemSize : Nat) (conv : Nat → Except PErr Nat)
    {bs : Bytes} {len n : Nat} (hp : parseNum .network p.numSize bs = .ok (len, n))
    (hshort : (bs.drop n).length < len / itemSize * itemSize) :
    parseVecNum p itemSize conv bs =
        .error (.notEnough ((len / itemSize * itemSize - (bs.drop n).length : Nat) : Int)) ∧
      vecNumTicks p itemSize bs = 2 := by
  have hs : bs.length - n < len / itemSize * itemSize := by simpa using hshort
  unfold parseVecNum vecNumTicks parseNumArray numItemsTicks
  simp [hp, hs, bind, Except.bind]

/-- `Opaque`: the same -/
theorem opaque_declared_length_rejected_early (p : VecParam) {bs : Bytes} {len n : Nat}
    (hp : parseNum .network p.numSize bs = .ok (len, n)) (hshort : (bs.drop n).length < len) :
    parseOpaque p bs = .error (.notEnough ((len : Int) - ((bs.drop n).length : Nat))) ∧ opaqueTicks p bs = 2 := by
  unfold parseOpaque opaqueTicks parseRaw
  have h1 : ¬ ((len : Int) < 0) := by omega
  have hs : bs.length - n < len := by simpa using hshort
  simp [hp, hs, h1, bind, Except.bind]

/-- whatever length the prefix declares, a vector parser's ticks are bounded by the bytes actually present -/
theorem vector_ticks_bounded_by_bytes_present {p : VecParam} {item : Bytes → Except PErr (α × Nat)}
    {itemTicks : Bytes → Nat} {a c : Nat}
    (hlen : ∀ bs x n, item bs = .ok (x, n) → n ≤ bs.length)
    (hok : ∀ bs x n, item bs = .ok (x, n) → itemTicks bs ≤ a * n + c)
    (herr : ∀ bs e, item bs = .error e → itemTicks bs ≤ a * bs.length + c) (bs : Bytes) :
    vecItemsTicks p item itemTicks bs ≤ (a + c + 1 + 1) * bs.length + 4 :=
  vecItemsTicks_le hlen hok herr bs

theorem numeric_vector_ticks_bounded_by_bytes_present (p : VecParam) {itemSize : Nat} (hk : 0 < itemSize) (bs : Bytes) :
    vecNumTicks p itemSize bs ≤ 2 * bs.length + 3 :=
  vecNumTicks_le p hk bs

theorem opaque_ticks_bounded_by_bytes_present (p : VecParam) (bs : Bytes) : opaqueTicks p bs ≤ 2 * bs.length + 3 :=
  opaqueTicks_le p bs

/-! ## 3. variants -/

/-- `VariantParsable._parse` tries every alternative at most once -/
theorem variant_alternatives_bounded (ps : List (Bytes → Except PErr (α × Nat))) (bs : Bytes) :
    firstNotInvalidTypeTicks ps bs ≤ ps.length :=
  firstNotInvalidTypeTicks_le ps bs

/-- the walk over the extension variant list tries every class at most once -/
theorem extension_variant_alternatives_bounded (t len : Nat) (bs : Bytes) (variants : List (String × Nat)) :
    walkExtVariantsTicks t len bs variants ≤ variants.length :=
  walkExtVariantsTicks_le t len bs variants

/-- with costs: rejected alternatives cost at most `h` each, the deciding one at most `m` -/
theorem variant_cost_bounded {ps : List ((Bytes → Except PErr (α × Nat)) × (Bytes → Nat))} {bs : Bytes} {h m : Nat}
    (hrej : ∀ q ∈ ps, q.1 bs = .error .invalidType → q.2 bs ≤ h) (hany : ∀ q ∈ ps, q.2 bs ≤ m) :
    variantTicks ps bs ≤ ps.length * (1 + h) + m :=
  variantTicks_le hrej hany

/-! ## 4. framing and classes: `ticks ≤ A * len + B` -/

/-- `TlsRecord._parse` costs a constant: the fragment is one `parse_bytes` however long it is -/
theorem record_linear (bs : Bytes) : recordTicks bs ≤ 0 * bs.length + recordB := by
  have := recordTicks_le bs
  omega

/-- the handshake framing adds a constant to whatever the payload parser costs — for ANY payload parser that is
linear in the payload, hence for every present and future handshake message class -/
theorem handshake_linear {typ : Nat} {innerTicks : Bytes → Nat} {A B : Nat}
    (hin : ∀ pl, innerTicks pl ≤ A * pl.length + B) (bs : Bytes) :
    hsFramedTicks typ innerTicks bs ≤ A * bs.length + (B + hsHeaderTicks) :=
  hsFramedTicks_le hin bs

/-- FLAGSHIP.  `TlsHandshakeClientHello._parse` on the payload — hello header with the session-id vector, the
cipher-suite and compression-method loops with their member searches and fallbacks, the extension loop with the
variant walk and the body parser of every extension (coded vectors, opaque, padding scan, …), the fallback to the
unparsed class, the SCSV fold — costs at most `clientHelloA * len + clientHelloB` ticks, on EVERY input, accepted or
rejected. -/
theorem clientHello_payload_linear (pl : Bytes) :
    clientHelloInnerTicks pl ≤ clientHelloA * pl.length + clientHelloB :=
  clientHelloInnerTicks_le pl

/-- the whole message -/
theorem clientHello_linear (bs : Bytes) :
    clientHelloTicks bs ≤ clientHelloA * bs.length + (clientHelloB + hsHeaderTicks) :=
  clientHelloTicks_le bs

theorem serverHello_linear (typ : Nat) (bs : Bytes) :
    serverHelloTicks typ bs ≤ serverHelloA * bs.length + (serverHelloB + hsHeaderTicks) :=
  hsFramedTicks_le serverHelloInnerTicks_le bs

theorem certificate_linear (bs : Bytes) :
    certificateTicks bs ≤ certificatesA * bs.length + (certificatesB + hsHeaderTicks) :=
  hsFramedTicks_le certificatesTicks_le bs

/-- a structured extension body that is accepted is paid for by the bytes it consumes -/
theorem structured_body_paid_by_consumed {k : Ext2Kind} {len : Nat} {rest : Bytes} {b : Ext2Body} {m : Nat}
    (h : parseExt2Body k len rest = .ok (b, m)) : ext2BodyTicks k len rest ≤ ext2BodyA * m + ext2BodyC :=
  ext2BodyTicks_ok h

/-- … and whatever the outcome it costs at most linearly in the data the class is given — which is the declared
extension data (`walkExtVariants` passes `(bs.drop 4).take len`), never what follows the extension -/
theorem structured_body_bounded_by_extension (k : Ext2Kind) (len : Nat) (rest : Bytes) :
    ext2BodyTicks k len rest ≤ ext2BodyA * rest.length + ext2BodyC :=
  ext2BodyTicks_any k len rest

/-- one extension is paid for by the bytes it consumes (the hypothesis `items_cost_linear` needs) -/
theorem extension_paid_by_consumed {variants : List (String × Nat)} {bs : Bytes} {e : Ext} {n : Nat}
    (h : parseExt variants bs = .ok (e, n)) :
    extTicks variants bs ≤ extBodyA * n + extItemC variants ∧ n ≤ bs.length :=
  extTicks_ok h

theorem extensions_linear (variants : List (String × Nat)) (p : VecParam) (bs : Bytes) :
    extensionsTicks variants p bs ≤ extVecA variants * bs.length + 4 :=
  extensionsTicks_le variants p bs

/-- `TlsHandshakeMessageVariant._parse`: every alternative at most once, each linear -/
theorem handshakeVariant_linear (bs : Bytes) :
    handshakeVariantTicks bs ≤ (Gen.handshakeVariants.length + 1) * (1 + (hsA * bs.length + hsB)) :=
  handshakeVariantTicks_le bs

/-! ## 5. depth -/

/-- the class graph is ACYCLIC: every invoked class has a strictly smaller rank -/
theorem class_graph_acyclic : ∀ c : Cls, ∀ d ∈ c.calls, d.rank < c.rank :=
  fun c => rank_decreases c (all_complete c)

/-- DEPTH.  Every chain of nested class parsers of the TLS model has at most 8 classes (handshake variant → hello →
extension vector → extension variant → extension class → key share / SCT vector → entry → group code or opaque
field; 7 through the classes with coded vectors). -/
theorem depth_bounded (c : Cls) (l : List Cls) (h : CallChain (c :: l)) : (c :: l).length ≤ 8 := by
  have h1 := callChain_length_le l c h
  have h2 := rank_le_seven c
  omega

/-- the same, computed: the longest chain from every class, with fuel = number of classes -/
theorem depth_computed : ∀ c ∈ Cls.all, Cls.depth Cls.all.length c ≤ 8 := by decide

/-- the text scanner (`ParserText._parse_string_array`, behind every header field and TXT policy parser) is linear
in interpreter steps: C18's theorem, restated -/
theorem text_array_linear (sep : UInt8) (ws : Bytes) (skipEmpty : Bool) (hsep : sep ∉ ws) (b : Bytes) :
    Cp.Text.arrayTicks b 0 [sep] ws skipEmpty none ≤ 19 * b.length + 13 :=
  Cp.C18.array_ticks_linear sep ws skipEmpty hsep b

/-! ## non-vacuity -/

-- the crash `items_iterations_bounded` excludes exists in the model: an item parser that consumes nothing
example : parseItems (fun _ => (.ok ((), 0) : Except PErr (Unit × Nat))) 3 [1] = .error (.crash "NonTermination") := by
  decide
-- … and fuel exhaustion: fuel 1 on two one-byte items
example : parseItems (fun _ => (.ok ((), 1) : Except PErr (Unit × Nat))) 1 [1, 2] = .error (.crash "NonTermination") := by
  decide
-- the bound `L + 1` on the iterations is attained: three one-byte items, four evaluations of the condition
example : itemIterations (fun _ => (.ok ((), 1) : Except PErr (Unit × Nat))) 3 [1, 2, 3] = 4 := by decide
-- a positive item parser exists (hypothesis of 1. is satisfiable): `parseNum` of one byte
example : ∀ bs x n, parseNum .network 1 bs = .ok (x, n) → 0 < n := fun _ _ _ h => by
  have := (parseNum_ok_inv h).1; omega
-- declared count 0xffff over two bytes of data: rejected by the check, one tick
example : parseNumArray .network 0xffff 2 [0, 1] = .error (.notEnough 131068) ∧ numItemsTicks 0xffff 2 [0, 1] = 1 := by
  decide
-- declared vector length 0xfffe over two bytes: NotEnoughData(65532) after two ticks, no item parsed
example : parseVecCoded cipherSuiteParam [0x2f] 2 [0xff, 0xfe, 0x00, 0x2f] = .error (.notEnough 65532) ∧
    vecCodedTicks cipherSuiteParam [0x2f] 2 [0xff, 0xfe, 0x00, 0x2f] = 2 := by decide
-- a vector of two coded items (second one through the fallback): 2 + loop (3 + 3 + 4) + constructor 3
example : vecCodedTicks cipherSuiteParam [0x2f, 0x35] 2 [0x00, 0x04, 0x00, 0x35, 0x0a, 0x0a] = 15 := by decide
-- the variant walk stops at the first alternative that does not answer InvalidType
example : firstNotInvalidTypeTicks
    [fun _ => (.error .invalidType : Except PErr (Unit × Nat)), fun _ => .ok ((), 1), fun _ => .error .invalidType] [0] = 2 := by
  decide
-- a TLS record: five primitive steps and the search through the version table
example : recordTicks [0x16, 0x03, 0x01, 0x00, 0x01, 0xaa] ≤ recordB := recordTicks_le _
example : 5 ≤ recordTicks [0x16, 0x03, 0x01, 0x00, 0x01, 0xaa] := by decide
-- the graph has the depth the theorem states: handshake variant → … → coded item
example : CallChain [.handshakeVariant, .clientHello, .extensionsClient, .extensionVariantClient, .extensionParsed,
    .codedVector, .codedItem] :=
  ⟨by decide, by decide, by decide, by decide, by decide, by decide, trivial⟩
example : CallChain [.handshakeVariant, .serverHello, .extensionsServer, .extensionVariantServer, .extensionStructured,
    .sctList, .sct, .opaqueLeaf] :=
  ⟨by decide, by decide, by decide, by decide, by decide, by decide, by decide, trivial⟩
example : Cls.depth Cls.all.length .handshakeVariant = 8 := by decide

end Cp.C19
