import CpProps.C15
import CpProofs.Hello
/-
  C15 (partial, object level) — outside the three pinned deviation classes the JA3 string of EVERY
  client hello the parser can return is the last stage of the published definition
  (`Spec.Ja3.ja3OfFields`: GREASE filtered from every section, decimal, "-" and ",") applied to the
  hello's own wire-order code lists.

  The three hypotheses of `C15_partial_fields` are exactly the negations of the three known findings
  (`ja3-grease-cipher-kept`, `ja3-scsv-dropped`, `ja3-pointformat-grease8`); everything else about the
  hello comes from `clientHello_parseWf` (whatever the parser accepts is well-formed), so the theorem
  quantifies over all parser outputs.  What it does NOT contain is the extraction of the code lists
  from the bytes (`Spec.Ja3.ja3Ref` is a second parser): that link is the C01/C05 round-trip theorems
  plus the correspondence run, which feeds the composed bytes to `ja3Ref`.
-/
namespace Cp.C15
open Cp Cp.Tls

/-- one section of coded items: the model's filter is the published filter on the wire codes as soon
as no table member is a GREASE value and the two GREASE predicates agree on the wrappers present -/
theorem items_section {codes : List Nat} {k : Nat} {grease spec : Nat → Bool}
    (hcodes : codes.all (fun c => !spec c) = true)
    (items : List Coded) (hw : ∀ x ∈ items, CodedWf codes k x)
    (hg : ∀ c, Coded.unknown c ∈ items → grease c = spec c) :
    ja3Items codes grease items =
      ((items.map (codeOf codes)).filter (fun c => !spec c)).map toString := by
  induction items with
  | nil => rfl
  | cons x xs ih =>
    have ihx := ih (fun y hy => hw y (List.mem_cons_of_mem _ hy))
      (fun c hc => hg c (List.mem_cons_of_mem _ hc))
    have hx := hw x (List.mem_cons_self ..)
    cases x with
    | known i =>
      have hi : i < codes.length := hx
      have hmem : codes.getD i 0 ∈ codes := by
        rw [List.getD_eq_getElem?_getD, List.getElem?_eq_getElem hi]
        exact List.getElem_mem hi
      have hng : (!spec (codes.getD i 0)) = true := List.all_eq_true.mp hcodes _ hmem
      simp only [ja3Items, List.filterMap_cons, List.map_cons, codeOf, List.filter_cons, hng, if_true]
      exact congrArg _ ihx
    | unknown c =>
      have hgc := hg c (List.mem_cons_self ..)
      simp only [ja3Items, List.filterMap_cons, List.map_cons, codeOf, List.filter_cons, hgc]
      cases hs : spec c
      · simp only [Bool.false_eq_true, if_false, Bool.not_false, if_true, List.map_cons]
        exact congrArg _ ihx
      · simp only [if_true, Bool.not_true, Bool.false_eq_true, if_false]
        exact ihx

theorem greaseTwo_eq (c : Nat) : greaseTwo c = Spec.Ja3.isGrease16 c := by
  unfold greaseTwo Spec.Ja3.isGrease16
  rw [isGrease_eq_contains, greaseTwo_is_rfc8701]

/-- extension-type section, one extension: a parsed class never carries a GREASE type, an unparsed
one is dropped exactly when its type is an RFC 8701 value -/
theorem extType_wf {variants : List (String × Nat)} {e : Ext} (hw : ExtWf variants e) :
    ja3ExtType e = if Spec.Ja3.isGrease16 e.typ then none else some (toString e.typ) := by
  have hu : ∀ (t : Nat) (b : ExtBody), ja3ExtType ⟨"TlsExtensionUnparsed", t, b⟩ =
      if Spec.Ja3.isGrease16 t then none else some (toString t) := by
    intro t b
    simp [ja3ExtType, greaseTwo_eq]
  cases hw with
  | unknownType => exact hu _ _
  | unparsed => exact hu _ _
  | noClass => exact hu _ _
  | rejected => exact hu _ _
  | @parsed cls t body kind ht hmem hr hne hk hb hsz =>
    have hng := List.all_eq_true.mp extension_types_not_grease _ hmem
    have hf : Spec.Ja3.isGrease16 t = false := by simpa using hng
    have hb' : (cls == "TlsExtensionUnparsed") = false := by simpa using hne
    simp [ja3ExtType, hf, hb']

theorem extTypes_section {variants : List (String × Nat)} (exts : List Ext)
    (hw : ∀ e ∈ exts, ExtWf variants e) :
    exts.filterMap ja3ExtType =
      ((exts.map (·.typ)).filter (fun c => !Spec.Ja3.isGrease16 c)).map toString := by
  induction exts with
  | nil => rfl
  | cons e es ih =>
    have ihx := ih (fun y hy => hw y (List.mem_cons_of_mem _ hy))
    have he := extType_wf (hw e (List.mem_cons_self ..))
    simp only [List.filterMap_cons, he, List.map_cons, List.filter_cons]
    cases Spec.Ja3.isGrease16 e.typ
    · simp only [Bool.false_eq_true, if_false, Bool.not_false, if_true, List.map_cons]
      exact congrArg _ ihx
    · simp only [if_true, Bool.not_true, Bool.false_eq_true, if_false]
      exact ihx

/-! ### "the last extension of the class wins" -/

/-- the coded items of an extension of class `cls` -/
def codedOf (cls : String) (e : Ext) : Option (List Coded) :=
  if e.cls = cls then
    match e.body with
    | .coded items => some items
    | _ => none
  else none

/-- the items of the LAST extension of class `cls` in wire order (none: the empty list) -/
def lastCoded (cls : String) (exts : List Ext) : List Coded :=
  ((exts.filterMap (codedOf cls)).getLast?).getD []

theorem foldl_last {α β : Type} (sel : α → Option β) (g : β → List String) (l : List α) (acc : List String) :
    l.foldl (fun acc e => ((sel e).map g).getD acc) acc =
      (((l.filterMap sel).getLast?).map g).getD acc := by
  induction l generalizing acc with
  | nil => rfl
  | cons e es ih =>
    rw [List.foldl_cons, ih, List.filterMap_cons]
    cases hs : sel e with
    | none => rfl
    | some x =>
      simp only [Option.map_some, Option.getD_some]
      cases hl : (es.filterMap sel).getLast? with
      | none =>
        have : es.filterMap sel = [] := List.getLast?_eq_none_iff.mp hl
        simp [this]
      | some y =>
        have : (x :: es.filterMap sel).getLast? = some y := by
          rw [List.getLast?_cons, hl]; rfl
        rw [this]
        rfl

theorem ja3Groups_eq (exts : List Ext) :
    ja3Groups exts =
      ja3Items Gen.TlsNamedCurve.codes greaseTwo (lastCoded "TlsExtensionEllipticCurves" exts) := by
  have hstep : ja3Groups exts = exts.foldl (fun acc e => ((codedOf "TlsExtensionEllipticCurves" e).map (ja3Items Gen.TlsNamedCurve.codes greaseTwo)).getD acc) [] := by
    unfold ja3Groups
    congr 1
    funext acc e
    obtain ⟨cls, t, body⟩ := e
    unfold codedOf
    by_cases hc : cls = "TlsExtensionEllipticCurves"
    · subst hc
      cases body <;> simp
    · simp only [hc, if_false]
      split
      · exact absurd rfl hc
      · rfl
  rw [hstep, foldl_last (codedOf "TlsExtensionEllipticCurves") (ja3Items Gen.TlsNamedCurve.codes greaseTwo) exts []]
  unfold lastCoded
  cases (exts.filterMap (codedOf "TlsExtensionEllipticCurves")).getLast? <;> rfl

theorem ja3Formats_eq (exts : List Ext) :
    ja3Formats exts =
      ja3Items Gen.TlsECPointFormat.codes greaseOne (lastCoded "TlsExtensionECPointFormats" exts) := by
  have hstep : ja3Formats exts = exts.foldl (fun acc e => ((codedOf "TlsExtensionECPointFormats" e).map (ja3Items Gen.TlsECPointFormat.codes greaseOne)).getD acc) [] := by
    unfold ja3Formats
    congr 1
    funext acc e
    obtain ⟨cls, t, body⟩ := e
    unfold codedOf
    by_cases hc : cls = "TlsExtensionECPointFormats"
    · subst hc
      cases body <;> simp
    · simp only [hc, if_false]
      split
      · exact absurd rfl hc
      · rfl
  rw [hstep, foldl_last (codedOf "TlsExtensionECPointFormats") (ja3Items Gen.TlsECPointFormat.codes greaseOne) exts []]
  unfold lastCoded
  cases (exts.filterMap (codedOf "TlsExtensionECPointFormats")).getLast? <;> rfl

/-- the items of the last extension of a vector-of-codes class are canonical -/
theorem lastCoded_wf {variants : List (String × Nat)} {cls : String} {p : VecParam} {codes : List Nat} {k : Nat}
    (hk : extKindOf cls = some (.vecCoded p codes k)) (hne : cls ≠ "TlsExtensionUnparsed")
    (exts : List Ext) (hw : ∀ e ∈ exts, ExtWf variants e) :
    ∀ x ∈ lastCoded cls exts, CodedWf codes k x := by
  unfold lastCoded
  cases hl : (exts.filterMap (codedOf cls)).getLast? with
  | none => intro x hx; simp at hx
  | some items =>
    have hm : items ∈ exts.filterMap (codedOf cls) := List.mem_of_getLast? hl
    obtain ⟨e, he, hce⟩ := List.mem_filterMap.mp hm
    have hwe := hw e he
    unfold codedOf at hce
    by_cases hc : e.cls = cls
    · rw [if_pos hc] at hce
      cases hwe with
      | unknownType => exact absurd hc.symm hne
      | unparsed => exact absurd hc.symm hne
      | noClass => exact absurd hc.symm hne
      | rejected => exact absurd hc.symm hne
      | parsed ht hmem hr hne' hk' hb hsz =>
        simp only at hc
        subst hc
        rw [hk] at hk'
        cases hk'
        cases hbody : ‹ExtBody› with
        | coded its =>
          rw [hbody] at hb hce
          simp only [Option.some.injEq] at hce
          subst hce
          exact hb.1
        | _ => rw [hbody] at hce; simp at hce
    · rw [if_neg hc] at hce
      cases hce

/-- no point format is a GREASE value in the published definition -/
theorem formats_all : Gen.TlsECPointFormat.codes.all (fun c => !Spec.Ja3.isGrease8 c) = true := by
  simp [Spec.Ja3.isGrease8]

/-- wire-order codes of the hello's sections -/
def suiteCodes (h : ClientHello) : List Nat := h.cipherSuites.map codeOfSuite
def extTypeCodes (h : ClientHello) : List Nat := h.extensions.map (·.typ)
def groupCodes (h : ClientHello) : List Nat :=
  (lastCoded "TlsExtensionEllipticCurves" h.extensions).map (codeOf Gen.TlsNamedCurve.codes)
def formatCodes (h : ClientHello) : List Nat :=
  (lastCoded "TlsExtensionECPointFormats" h.extensions).map (codeOf Gen.TlsECPointFormat.codes)

/-- the three pinned deviation classes, as predicates on the hello -/
def NoGreaseSuite (h : ClientHello) : Prop := ∀ c ∈ h.cipherSuites, Spec.Ja3.isGrease16 (codeOfSuite c) = false
def NoGrease8Format (h : ClientHello) : Prop :=
  ∀ c, Coded.unknown c ∈ lastCoded "TlsExtensionECPointFormats" h.extensions → greaseOne c = false

/-- for every well-formed hello outside the deviation classes, JA3 is the published last stage on
the hello's wire-order code lists -/
theorem C15_partial_wf (h : ClientHello) (hw : ClientHelloWf h)
    (hs : NoGreaseSuite h) (hf : NoGrease8Format h) :
    ja3 h = Spec.Ja3.ja3OfFields (Gen.TlsVersion.codes.getD h.version 0)
      (suiteCodes h) (extTypeCodes h) (groupCodes h) (formatCodes h) := by
  have h2 : (h.cipherSuites.map fun c => toString (codeOfSuite c)) =
      ((suiteCodes h).filter (fun c => !Spec.Ja3.isGrease16 c)).map toString := by
    unfold suiteCodes
    have : (h.cipherSuites.map codeOfSuite).filter (fun c => !Spec.Ja3.isGrease16 c) = h.cipherSuites.map codeOfSuite := by
      rw [List.filter_eq_self]
      intro c hc
      obtain ⟨x, hx, rfl⟩ := List.mem_map.mp hc
      simp [hs x hx]
    rw [this, List.map_map]
    rfl
  have h3 := extTypes_section h.extensions hw.extensions.each
  have h4 : ja3Groups h.extensions = ((groupCodes h).filter (fun c => !Spec.Ja3.isGrease16 c)).map toString := by
    rw [ja3Groups_eq]
    exact items_section named_groups_not_grease _
      (lastCoded_wf (variants := Gen.extVariantsClient) rfl (by decide) h.extensions hw.extensions.each)
      (fun c _ => greaseTwo_eq c)
  have h5 : ja3Formats h.extensions = ((formatCodes h).filter (fun c => !Spec.Ja3.isGrease8 c)).map toString := by
    rw [ja3Formats_eq]
    exact items_section formats_all _
      (lastCoded_wf (variants := Gen.extVariantsClient) rfl (by decide) h.extensions hw.extensions.each)
      (fun c hc => by rw [hf c hc]; rfl)
  unfold ja3 Spec.Ja3.ja3OfFields Spec.Ja3.dec
  rw [h2, h3, h4, h5]
  rfl

/-- … and therefore for every hello the parser returns -/
theorem C15_partial_fields (b : Bytes) (h : ClientHello) (n : Nat)
    (hp : clientHelloCodec.parse b = .ok (h, n)) (hs : NoGreaseSuite h) (hf : NoGrease8Format h) :
    ja3 h = Spec.Ja3.ja3OfFields (Gen.TlsVersion.codes.getD h.version 0)
      (suiteCodes h) (extTypeCodes h) (groupCodes h) (formatCodes h) :=
  C15_partial_wf h (clientHello_parseWf b h n hp) hs hf

/-- JA3 is a function of the message alone, stable under compose-and-parse (second sentence of the
property) for every well-formed hello: the round trip returns the very same value -/
theorem ja3_stable (h : ClientHello) (hw : ClientHelloWf h) :
    ∃ bs, clientHelloCodec.compose h = .ok bs ∧
      ∀ rest, (clientHelloCodec.parse (bs ++ rest)).toOption.map (fun r => ja3 r.1) = some (ja3 h) := by
  obtain ⟨bs, hc, hp⟩ := clientHello_roundTrip h hw
  exact ⟨bs, hc, fun rest => by rw [hp rest]; rfl⟩

/-! ### non-vacuity: a hello with GREASE in the extension and group sections meets the hypotheses -/

def noGrease8FormatB (h : ClientHello) : Bool :=
  (lastCoded "TlsExtensionECPointFormats" h.extensions).all fun x =>
    match x with
    | .unknown c => !greaseOne c
    | .known _ => true

theorem noGrease8Format_of_B {h : ClientHello} (hb : noGrease8FormatB h = true) : NoGrease8Format h := by
  intro c hc
  have := List.all_eq_true.mp hb _ hc
  simpa using this

instance (h : ClientHello) : Decidable (NoGreaseSuite h) := by unfold NoGreaseSuite; infer_instance

/-- TLS 1.2, suites 0x002f 0xc02b, supported_groups [GREASE 0x0a0a, x25519, unknown 0x1234],
ec_point_formats [0], a GREASE extension 0x1a1a -/
def witnessPartial : Bytes :=
  [1, 0, 0, 67, 3, 3] ++ List.replicate 32 0 ++ [0, 0, 4, 0x00, 0x2f, 0xc0, 0x2b, 1, 0, 0, 22,
    0, 10, 0, 8, 0, 6, 0x0a, 0x0a, 0, 0x1d, 0x12, 0x34,
    0, 11, 0, 2, 1, 0,
    0x1a, 0x1a, 0, 0]

theorem witnessPartial_meets_hypotheses :
    (clientHelloCodec.parse witnessPartial).toOption.map
      (fun r => (decide (NoGreaseSuite r.1), noGrease8FormatB r.1, ja3 r.1, r.2)) =
      some (true, true, "771,47-49195,10-11,29-4660,0", 71) ∧
    Spec.Ja3.ja3Ref witnessPartial = some "771,47-49195,10-11,29-4660,0" := by
  decide +kernel

end Cp.C15
