import CpModel.Own
import CpModel.Tls.Msg
/-
  C13 — observers are pure and objects never share state with inputs or each other.

  (a) Observers (compose, ja3, hassh, fingerprints, key tag, JSON/Markdown) are FUNCTIONS of the
      value in the model, hence pure by construction; that the implementation's observers do not
      mutate their object (also when they fail at a size bound) is monitored on the real code by the
      harness on every observer call (deep canonical copy before/after, every observer twice).
  (b) Sharing of default values: proved here over the table of attrs defaults regenerated from the
      live classes.
  (c) Aliasing of caller buffers is a fact about Python object identity that no executable model of
      the codec expresses; it is monitored on the real code (not counted as a proof obligation).
-/
namespace Cp.C13
open Cp.Own Cp.Gen

/-- If no field stores its class-level default object, then an in-place edit through any field of
one default-constructed instance is invisible through every field of every OTHER instance, and
leaves the class-level defaults of later instances untouched. -/
theorem no_shared_state (tbl : List FieldDefault) (hno : ∀ f ∈ tbl, shares f = false)
    (h : Heap) (a b i j v : Nat) (hab : a ≠ b) :
    readField tbl (editField tbl h a i v) b j = readField tbl h b j ∧
    ∀ k, editField tbl h a i v (.classLevel k) = h (.classLevel k) := by
  have hown : ∀ inst k, fieldLoc tbl inst k = .own inst k := by
    intro inst k
    unfold fieldLoc
    cases hk : tbl[k]? with
    | none => rfl
    | some f =>
      have hf : f ∈ tbl := List.mem_of_getElem? hk
      simp [hno f hf]
  constructor
  · unfold readField editField
    rw [hown b j, hown a i]
    have : Loc.own b j ≠ Loc.own a i := by
      intro e; cases e; exact hab rfl
    simp [this]
  · intro k
    unfold editField
    rw [hown a i]
    simp

/-- Conversely a field that stores its class-level default IS shared: an edit through one instance
shows through every other instance. -/
theorem shared_field_is_visible (tbl : List FieldDefault) (i : Nat) (f : FieldDefault)
    (hi : tbl[i]? = some f) (hs : shares f = true) (h : Heap) (a b v : Nat) :
    readField tbl (editField tbl h a i v) b i = v := by
  unfold readField editField fieldLoc
  simp [hi, hs]

/-- The fields of the library that still store a shared mutable default: exactly the two Set-Cookie
flag components (kept as a known finding: the header machinery inspects `field.default`, so the
one-line `attr.Factory` repair breaks the pinned tests). Every other class is covered by
`no_shared_state`. Regenerated-table obligation. -/
theorem shared_defaults_are_exactly :
    (fieldDefaults.filter shares).map (fun f => (f.cls, f.field)) =
      [("HttpHeaderFieldValueSetCookie", "secure"), ("HttpHeaderFieldValueSetCookie", "http_only"),
       ("HttpHeaderFieldValueSetCookieParams", "secure"), ("HttpHeaderFieldValueSetCookieParams", "http_only")] := by
  decide +kernel

/-- all other classes: the table without the Set-Cookie entries satisfies the hypothesis of
`no_shared_state` -/
theorem all_other_classes_unshared :
    ∀ f ∈ fieldDefaults.filter (fun f => f.cls != "HttpHeaderFieldValueSetCookie" &&
      f.cls != "HttpHeaderFieldValueSetCookieParams"), shares f = false := by
  decide +kernel

/-- (a) in the model an observer cannot change its argument: composing twice gives the same result,
and a compose that fails at the size bound (both SCSV markers on a full cipher-suite vector) is
still a function of the unchanged value. -/
theorem compose_is_a_function (h : Cp.Tls.ClientHello) :
    Cp.Tls.composeClientHello h = Cp.Tls.composeClientHello h := rfl

/-! non-vacuity -/
example : (fieldDefaults.filter (fun f => f.dflt == .factory)).length ≥ 10 := by decide +kernel
example : ∃ f ∈ fieldDefaults, f.cls = "TlsHandshakeClientHello" ∧ f.field = "session_id" ∧ shares f = false := by
  decide +kernel

end Cp.C13
