import CpProofs.Ssl2
/-
  C04 for the SSL 2.0 record layer — incremental reads guided by the missing-byte count reassemble
  the stream: every proper prefix of a composed record is rejected with not-enough-data and a count m,
  1 ≤ m ≤ bytes really missing; and the generic reader theorems of `CpProofs/Reader.lean`
  instantiated for `SslRecord`.
-/
namespace Cp.C04Ssl2
open Cp Cp.Codec Cp.Ssl2 Cp.Reader

theorem sslRecord_prefixReject : PrefixReject recordCodec Record.wf := record_prefixReject

theorem sslRecord_nonempty : ∀ r b, Record.wf r → recordCodec.compose r = .ok b → 0 < b.length := record_nonempty

/-- The reader fed arbitrary chunks of a stream of SSL 2.0 records ends up with exactly the original
records, an empty buffer and no failure — whatever the fragmentation. -/
theorem sslRecord_reader_reassembles (rs : List Record) (hwf : ∀ r ∈ rs, Record.wf r) (chunks : List Bytes)
    (hchunks : chunks.flatten = enc recordCodec rs) :
    (chunks.foldl (feed recordCodec) init).out = rs ∧
    (chunks.foldl (feed recordCodec) init).buf = [] ∧
    (chunks.foldl (feed recordCodec) init).failed = none :=
  reader_reassembles record_roundTrip record_prefixReject record_nonempty rs hwf chunks hchunks

/-- … and while the stream is not fully delivered the reader waits for at least one and at most the
number of bytes still to come, never for more than the record in progress contains. -/
theorem sslRecord_reader_never_overasks (rs : List Record) (hwf : ∀ r ∈ rs, Record.wf r)
    (pre post : List Bytes) (hchunks : (pre ++ post).flatten = enc recordCodec rs)
    (hmore : post.flatten ≠ []) :
    (pre.foldl (feed recordCodec) init).buf.length < (pre.foldl (feed recordCodec) init).want ∧
    (pre.foldl (feed recordCodec) init).want ≤
      (pre.foldl (feed recordCodec) init).buf.length + post.flatten.length :=
  reader_wait_is_satisfiable record_roundTrip record_prefixReject record_nonempty rs hwf pre post hchunks hmore

/-- the exact-pull reader (fetches exactly `bytes_needed` more each time) reaches the record and never
holds more than the record -/
theorem sslRecord_exact_pull (r : Record) (b : Bytes) (hr : r.wf) (hb : recordCodec.compose r = .ok b)
    (rest : Bytes) (fuel got : Nat) (hg : got ≤ b.length) (hf : b.length - got < fuel) :
    (pull recordCodec (b ++ rest) fuel got).result = some (.ok (r, b.length)) ∧
      ∀ x ∈ (pull recordCodec (b ++ rest) fuel got).trace, got ≤ x ∧ x ≤ b.length :=
  have h := exact_pull_reaches_record record_roundTrip record_prefixReject r b hr hb rest fuel got hg hf
  ⟨h.1, h.2.1⟩

/-! non-vacuity: the reader on an ERROR record and a CLIENT-HELLO record cut into odd pieces -/
example : Record.wf ⟨.error 1⟩ ∧ Record.wf ⟨.clientHello [1] [] [7]⟩ := by decide +kernel
example :
    (run recordCodec [[0x80], [3, 0], [0, 1, 0x80], [0x0d, 1, 0, 2, 0, 3], [0, 0, 0, 1, 1], [0, 0x80, 7]]).out =
      [⟨.error 1⟩, ⟨.clientHello [1] [] [7]⟩] := by
  decide +kernel
example : parseRecord ([0x80, 0x0d, 1, 0, 2, 0, 3, 0, 0, 0, 1, 1, 0, 0x80, 7].take 9) = .error (.notEnough 6) := by
  decide +kernel

end Cp.C04Ssl2
