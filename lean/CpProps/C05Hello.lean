import CpProofs.Hello
import CpProps.C05
/-
  C05 for the TLS handshake messages with structured payloads: what the parser accepts can be
  composed again, the composition is accepted, gives the same object and consumes everything
  (`Canonical`, CpProps/C05.lean).  It follows from `RoundTrip` and `ParseWf` for ONE predicate.

  Certificate: unconditional.
  The hello messages: `ParseWf` holds up to the accepted values whose re-parse depends on their
  neighbour (`Stray` = `ShortSVS` ∨ `Ext2Stray`): the body parsers of the extension classes are not
  confined to the declared extension length.  `TlsExtensionSupportedVersionsServer` reads a fixed two
  bytes; when fewer than two are declared it reads into the NEXT extension, and if that does not
  spell a known version the extension is kept as `TlsExtensionUnparsed` (`ShortSVS`, server side only).
  The classes with structured bodies (server_name, ALPN, key_share, status_request, SCT list, …) read
  length prefixes and items wherever they lead; when that ends in `InvalidValue` without the data
  itself being rejectable (`Ext2Rejects`), the extension is kept raw (`Ext2Stray`, both sides).  The
  full statements are kept as `def … : Prop`; the client one has a witness.
-/
namespace Cp.C05
open Cp Cp.Codec Cp.Tls Cp.Hello

/-- the full statement for the client side: whatever `TlsHandshakeClientHello._parse` accepts is a
constructible value — FALSE of the code once the structured extension classes are looked at -/
def clientHello_parseWf_full : Prop := ParseWf clientHelloCodec ClientHelloWf

/-- a ClientHello whose ALPN extension declares NO data, followed by an extension of type 2 with 256
bytes of data: the ALPN parser reads the `00 02` of the next header as the length of its name list
and the `01 00` after it as a one-byte name `00`, which the table lacks → `InvalidValue`; the ALPN
extension is kept raw with empty data — a value that is not constructible as such (an empty ALPN
body reads on into whatever follows it) -/
def strayAlpnHello : Bytes :=
  let exts : Bytes := [0, 16, 0, 0] ++ [0, 2, 1, 0] ++ List.replicate 256 0
  let body : Bytes := [3, 3] ++ List.replicate 32 7 ++ [0, 0, 2, 0x13, 0x01, 1, 0] ++ [1, 8] ++ exts
  [1, 0, 1, 51] ++ body

theorem clientHello_parseWf_fails : ¬ clientHello_parseWf_full := by
  intro h
  have hp : clientHelloCodec.parse strayAlpnHello =
      .ok (⟨4, ⟨0x07070707, List.replicate 28 7⟩, [], [.known 361], [.known 0],
        [⟨"TlsExtensionUnparsed", 16, .raw []⟩, ⟨"TlsExtensionUnparsed", 2, .raw (List.replicate 256 0)⟩],
        false, false⟩, 311) := by
    decide +kernel
  have hw := h _ _ _ hp
  have he := hw.extensions.each ⟨"TlsExtensionUnparsed", 16, .raw []⟩ (List.mem_cons_self ..)
  cases he with
  | unknownType _ _ hno => exact absurd (by decide +kernel) hno
  | unparsed _ _ hr => exact absurd hr (by decide +kernel)
  | noClass _ _ hr => exact absurd hr (by decide +kernel)
  | rejected _ _ hr hne hk hrej =>
    have hcls : resolve Gen.extVariantsClient 16 ([] : Bytes).length =
        some "TlsExtensionApplicationLayerProtocolNegotiation" := by decide +kernel
    rw [hcls] at hr
    cases hr
    cases hk
    exact hrej
  | parsed _ _ _ hne _ _ _ => exact absurd rfl hne

/-- what holds: the accepted value is constructible unless it contains such a stray extension -/
theorem clientHello_parseWf_partial (b : Bytes) (v : ClientHello) (n : Nat)
    (h : clientHelloCodec.parse b = .ok (v, n)) :
    ClientHelloWf v ∨ ∃ e ∈ v.extensions, Ext2Stray Gen.extVariantsClient e :=
  Tls.clientHello_parseWf_partial b v n h

/-- the full canonical-form statement for the client side; not proved (a stray extension recomposes
to the same bytes in the same place, so no counterexample either) -/
def clientHello_canonical_full : Prop := Canonical clientHelloCodec

theorem clientHello_canonical_partial (b : Bytes) (v : ClientHello) (n : Nat)
    (h : clientHelloCodec.parse b = .ok (v, n))
    (hno : ∀ e ∈ v.extensions, ¬ Ext2Stray Gen.extVariantsClient e) :
    ∃ b', clientHelloCodec.compose v = .ok b' ∧ clientHelloCodec.parse b' = .ok (v, b'.length) ∧
      ∀ v'' n'', clientHelloCodec.parse b' = .ok (v'', n'') → clientHelloCodec.compose v'' = .ok b' := by
  rcases Tls.clientHello_parseWf_partial b v n h with hw | ⟨e, he, hs⟩
  · obtain ⟨b', hb', hbb⟩ := Tls.clientHello_roundTrip v hw
    have hp := hbb []
    rw [List.append_nil] at hp
    refine ⟨b', hb', hp, ?_⟩
    intro v'' n'' h2
    rw [hp] at h2
    cases h2
    exact hb'
  · exact absurd hs (hno e he)

theorem certificate_parseWf : ParseWf certificateCodec CertificatesWf := Tls.certificate_parseWf

theorem certificate_canonical : Canonical certificateCodec :=
  of_laws Tls.certificate_roundTrip Tls.certificate_parseWf

/-- the full statement for the server side; not proved (see the header) -/
def serverHello_canonical_full : Prop :=
  ∀ typ, typ = 2 ∨ typ = 6 → Canonical (serverHelloCodec typ)

/-- what the server-side parser accepts is constructible and canonical, unless it contains a
`supported_versions` extension kept raw with fewer than two data bytes -/
theorem serverHello_parseWf_partial (typ : Nat) (b : Bytes) (v : ServerHello) (n : Nat)
    (h : (serverHelloCodec typ).parse b = .ok (v, n)) :
    ServerHelloWf typ v ∨ ∃ e ∈ v.extensions, Stray Gen.extVariantsServer e :=
  Tls.serverHello_parseWf_partial typ b v n h

theorem serverHello_canonical_partial {typ : Nat} (htyp : typ = 2 ∨ typ = 6) (b : Bytes) (v : ServerHello)
    (n : Nat) (h : (serverHelloCodec typ).parse b = .ok (v, n))
    (hno : ∀ e ∈ v.extensions, ¬ Stray Gen.extVariantsServer e) :
    ∃ b', (serverHelloCodec typ).compose v = .ok b' ∧ (serverHelloCodec typ).parse b' = .ok (v, b'.length) ∧
      ∀ v'' n'', (serverHelloCodec typ).parse b' = .ok (v'', n'') → (serverHelloCodec typ).compose v'' = .ok b' := by
  rcases Tls.serverHello_parseWf_partial typ b v n h with hw | ⟨e, he, hs⟩
  · obtain ⟨b', hb', hbb⟩ := Tls.serverHello_roundTrip htyp v hw
    have hp := hbb []
    rw [List.append_nil] at hp
    refine ⟨b', hb', hp, ?_⟩
    intro v'' n'' h2
    rw [hp] at h2
    cases h2
    exact hb'
  · exact absurd hs (hno e he)

/-- on the client side the `supported_versions` shape cannot occur: no class of the client variant
reads a fixed-size value that can be rejected -/
theorem client_has_no_shortSVS (e : Ext) : ¬ ShortSVS Gen.extVariantsClient e := client_no_shortSVS e

/-! ### accepted inputs that are not in canonical form (evaluated on the model) -/

/-- a ServerHello around an extension block -/
def serverHelloWith (exts : Bytes) : Bytes :=
  let body : Bytes := [3, 3] ++ List.replicate 32 7 ++ [0, 0x13, 0x01, 0] ++ encNat .network 2 exts.length ++ exts
  [2] ++ encNat .network 3 body.length ++ body

/-- the exceptional shape is reachable: `supported_versions` with ONE data byte followed by
`renegotiation_info` is accepted, the first extension kept raw -/
example : (serverHelloCodec 2).parse (serverHelloWith [0, 43, 0, 1, 3, 0xff, 0x01, 0, 1, 0]) =
    .ok (⟨2, 4, ⟨0x07070707, List.replicate 28 7⟩, [], 361, 0,
      [⟨"TlsExtensionUnparsed", 43, .raw [3]⟩, ⟨"TlsExtensionRenegotiationInfo", 65281, .opaque []⟩]⟩, 54) := by
  decide +kernel

/-- … and the same raw extension in front of another neighbour does NOT survive compose → parse:
the class reads `03 04` across the extension boundary (C01 fails for this non-canonical value) -/
example : ∃ b, (serverHelloCodec 2).compose ⟨2, 4, ⟨0x07070707, List.replicate 28 7⟩, [], 361, 0,
      [⟨"TlsExtensionUnparsed", 43, .raw [3]⟩, ⟨"TlsExtensionUnparsed", 0x0401, .raw []⟩,
       ⟨"TlsExtensionUnparsed", 0x0401, .raw []⟩]⟩ = .ok b ∧
    (serverHelloCodec 2).parse b = .error (.notEnough 8) :=
  ⟨serverHelloWith [0, 43, 0, 1, 3, 4, 1, 0, 0, 4, 1, 0, 0], by decide +kernel, by decide +kernel⟩

/-- the declared extension length is not enforced: six declared bytes of `ec_point_formats`, of
which the class uses two; the remaining four are parsed as a further extension -/
example : (serverHelloCodec 2).parse (serverHelloWith [0, 11, 0, 6, 1, 0, 0, 23, 0, 0]) =
    .ok (⟨2, 4, ⟨0x07070707, List.replicate 28 7⟩, [], 361, 0,
      [⟨"TlsExtensionECPointFormats", 11, .coded [.known 0]⟩,
       ⟨"TlsExtensionExtendedMasterSecret", 23, .empty⟩]⟩, 54) := by
  decide +kernel

/-- … and one declared byte of which the class reads four (the canonical form differs from the
input, and is stable) -/
example : ∃ v, (serverHelloCodec 2).parse (serverHelloWith [0, 11, 0, 1, 3, 0, 1, 2]) = .ok (v, 52) ∧
    (serverHelloCodec 2).compose v = .ok (serverHelloWith [0, 11, 0, 4, 3, 0, 1, 2]) :=
  ⟨⟨2, 4, ⟨0x07070707, List.replicate 28 7⟩, [], 361, 0,
      [⟨"TlsExtensionECPointFormats", 11, .coded [.known 0, .known 1, .known 2]⟩]⟩,
    by decide +kernel, by decide +kernel⟩

end Cp.C05
