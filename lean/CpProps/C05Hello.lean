import CpProofs.Hello
import CpProps.C05
/-
  C05 for the TLS handshake messages with structured payloads: what the parser accepts can be
  composed again, the composition is accepted, gives the same object and consumes everything
  (`Canonical`, CpProps/C05.lean).  It follows from `RoundTrip` and `ParseWf` for ONE predicate.

  ClientHello, ServerHello / HelloRetryRequest, Certificate: unconditional.  Every extension class
  reads its own extension only (`_check_header` hands it a parser confined to the declared data), so
  nothing an extension is parsed to depends on its neighbours: data a class refuses — as an invalid
  value, or because its body declares more than the extension holds (the variant reports that as an
  invalid value once the extension is there in full) — is refused wherever it stands (`KindRejects`)
  and kept by the fallback class.

  What is still NOT canonical on the wire (accepted, recomposed differently, the recomposition
  stable): a class may consume LESS than the extension declares; the rest is parsed as a further
  extension (last examples).
-/
namespace Cp.C05
open Cp Cp.Codec Cp.Tls Cp.Hello

/-- whatever `TlsHandshakeClientHello._parse` accepts is a constructible, canonical value -/
theorem clientHello_parseWf : ParseWf clientHelloCodec ClientHelloWf := Tls.clientHello_parseWf

theorem clientHello_canonical : Canonical clientHelloCodec :=
  of_laws Tls.clientHello_roundTrip Tls.clientHello_parseWf

theorem certificate_parseWf : ParseWf certificateCodec CertificatesWf := Tls.certificate_parseWf

theorem certificate_canonical : Canonical certificateCodec :=
  of_laws Tls.certificate_roundTrip Tls.certificate_parseWf

/-- whatever `TlsHandshakeServerHello._parse` / `TlsHandshakeHelloRetryRequest._parse` accept is a
constructible, canonical value -/
theorem serverHello_parseWf (typ : Nat) : ParseWf (serverHelloCodec typ) (ServerHelloWf typ) :=
  Tls.serverHello_parseWf typ

theorem serverHello_canonical {typ : Nat} (htyp : typ = 2 ∨ typ = 6) : Canonical (serverHelloCodec typ) :=
  of_laws (Tls.serverHello_roundTrip htyp) (Tls.serverHello_parseWf typ)

/-- one position of the extension vector of either side: the value is constructible as it stands -/
theorem extension_parseWf {variants : List (String × Nat)} (hst : stableB variants = true) {p : VecParam}
    {bs : Bytes} {exts : List Ext} {n : Nat} (h : parseExtensions variants p bs = .ok (exts, n)) :
    ExtsWf variants p exts := parseExtensions_ok_inv hst h

/-! ### inputs that used to be parsed by reading across extension boundaries

Confined to its own data, the class runs short inside a complete extension; the variant reports that as
an invalid value and the list keeps the extension by the fallback class — whatever follows it. -/

/-- a ClientHello whose ALPN extension declares NO data, followed by an extension of type 2: the ALPN
parser used to read the next header as its name list; now both extensions are kept raw, each with its
own data -/
def strayAlpnHello : Bytes :=
  let exts : Bytes := [0, 16, 0, 0] ++ [0, 2, 1, 0] ++ List.replicate 256 0
  let body : Bytes := [3, 3] ++ List.replicate 32 7 ++ [0, 0, 2, 0x13, 0x01, 1, 0] ++ [1, 8] ++ exts
  [1, 0, 1, 51] ++ body

example : clientHelloCodec.parse strayAlpnHello =
    .ok (⟨4, ⟨0x07070707, List.replicate 28 7⟩, [], [.known 361], [.known 0],
      [⟨"TlsExtensionUnparsed", 16, .raw []⟩, ⟨"TlsExtensionUnparsed", 2, .raw (List.replicate 256 0)⟩],
      false, false⟩, 311) := by decide +kernel

/-- a ServerHello around an extension block -/
def serverHelloWith (exts : Bytes) : Bytes :=
  let body : Bytes := [3, 3] ++ List.replicate 32 7 ++ [0, 0x13, 0x01, 0] ++ encNat .network 2 exts.length ++ exts
  [2] ++ encNat .network 3 body.length ++ body

/-- `supported_versions` with ONE data byte followed by `renegotiation_info`: the class used to read
`03 ff` across the boundary; now the one byte is kept raw and the neighbour is parsed as what it is -/
example : (serverHelloCodec 2).parse (serverHelloWith [0, 43, 0, 1, 3, 0xff, 0x01, 0, 1, 0]) =
    .ok (⟨2, 4, ⟨0x07070707, List.replicate 28 7⟩, [], 361, 0,
      [⟨"TlsExtensionUnparsed", 43, .raw [3]⟩, ⟨"TlsExtensionRenegotiationInfo", 65281, .opaque []⟩]⟩, 54) := by
  decide +kernel

/-- one declared byte of `ec_point_formats` that announces three formats, followed by
`extended_master_secret` -/
example : (serverHelloCodec 2).parse (serverHelloWith [0, 11, 0, 1, 3, 0, 23, 0, 0]) =
    .ok (⟨2, 4, ⟨0x07070707, List.replicate 28 7⟩, [], 361, 0,
      [⟨"TlsExtensionUnparsed", 11, .raw [3]⟩, ⟨"TlsExtensionExtendedMasterSecret", 23, .empty⟩]⟩, 53) := by
  decide +kernel

/-- an extension that is cut short by the end of the list is still `NotEnoughData` -/
example : (serverHelloCodec 2).parse (serverHelloWith [0, 11, 0, 1, 3, 0, 23, 0]) = .error (.notEnough 1) := by
  decide +kernel

/-- a rejected value stays rejected wherever it stands: `supported_versions` with an unknown version
is kept by the fallback class, in front of any neighbour -/
example : (serverHelloCodec 2).parse (serverHelloWith [0, 43, 0, 2, 9, 9, 0xff, 0x01, 0, 1, 0]) =
    .ok (⟨2, 4, ⟨0x07070707, List.replicate 28 7⟩, [], 361, 0,
      [⟨"TlsExtensionUnparsed", 43, .raw [9, 9]⟩, ⟨"TlsExtensionRenegotiationInfo", 65281, .opaque []⟩]⟩, 55) := by
  decide +kernel

/-! ### accepted inputs that are not in canonical form (evaluated on the model) -/

/-- the declared extension length is not enforced from below: six declared bytes of
`ec_point_formats`, of which the class uses two; the remaining four are parsed as a further extension -/
example : (serverHelloCodec 2).parse (serverHelloWith [0, 11, 0, 6, 1, 0, 0, 23, 0, 0]) =
    .ok (⟨2, 4, ⟨0x07070707, List.replicate 28 7⟩, [], 361, 0,
      [⟨"TlsExtensionECPointFormats", 11, .coded [.known 0]⟩,
       ⟨"TlsExtensionExtendedMasterSecret", 23, .empty⟩]⟩, 54) := by
  decide +kernel

end Cp.C05
