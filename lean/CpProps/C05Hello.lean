import CpProofs.Hello
import CpProps.C05
/-
  C05 for the TLS handshake messages with structured payloads: what the parser accepts can be
  composed again, the composition is accepted, gives the same object and consumes everything
  (`Canonical`, CpProps/C05.lean).  It follows from `RoundTrip` and `ParseWf` for ONE predicate.

  ClientHello and Certificate: unconditional.
  ServerHello / HelloRetryRequest: `ParseWf` holds up to one shape of accepted value (`ShortSVS`):
  the body parsers of the extension classes are not confined to the declared extension length, and
  `TlsExtensionSupportedVersionsServer` reads a fixed two bytes; when fewer than two bytes are
  declared it reads into the NEXT extension, and if that does not spell a known version the
  extension is kept as `TlsExtensionUnparsed` — a value whose re-parse depends on its neighbour.
-/
namespace Cp.C05
open Cp Cp.Codec Cp.Tls Cp.Hello

/-- whatever `TlsHandshakeClientHello._parse` accepts is a constructible, canonical value -/
theorem clientHello_parseWf : ParseWf clientHelloCodec ClientHelloWf := Tls.clientHello_parseWf

theorem clientHello_canonical : Canonical clientHelloCodec :=
  of_laws Tls.clientHello_roundTrip Tls.clientHello_parseWf

theorem certificate_parseWf : ParseWf certificateCodec CertificatesWf := Tls.certificate_parseWf

theorem certificate_canonical : Canonical certificateCodec :=
  of_laws Tls.certificate_roundTrip Tls.certificate_parseWf

/-- the full statement for the server side; not proved (see the header) -/
def serverHello_canonical_full : Prop :=
  ∀ typ, typ = 2 ∨ typ = 6 → Canonical (serverHelloCodec typ)

/-- what the server-side parser accepts is constructible and canonical, unless it contains a
`supported_versions` extension kept raw with fewer than two data bytes -/
theorem serverHello_parseWf_partial (typ : Nat) (b : Bytes) (v : ServerHello) (n : Nat)
    (h : (serverHelloCodec typ).parse b = .ok (v, n)) :
    ServerHelloWf typ v ∨ ∃ e ∈ v.extensions, ShortSVS Gen.extVariantsServer e :=
  Tls.serverHello_parseWf_partial typ b v n h

theorem serverHello_canonical_partial {typ : Nat} (htyp : typ = 2 ∨ typ = 6) (b : Bytes) (v : ServerHello)
    (n : Nat) (h : (serverHelloCodec typ).parse b = .ok (v, n))
    (hno : ∀ e ∈ v.extensions, ¬ ShortSVS Gen.extVariantsServer e) :
    ∃ b', (serverHelloCodec typ).compose v = .ok b' ∧ (serverHelloCodec typ).parse b' = .ok (v, b'.length) ∧
      ∀ v'' n'', (serverHelloCodec typ).parse b' = .ok (v'', n'') → (serverHelloCodec typ).compose v'' = .ok b' := by
  rcases Tls.serverHello_parseWf_partial typ b v n h with hw | ⟨e, he, hs⟩
  · obtain ⟨b', hb', hbb⟩ := Tls.serverHello_roundTrip htyp v hw
    have hp := hbb []
    rw [List.append_nil] at hp
    refine ⟨b', hb', hp, ?_⟩
    intro v'' n'' h2
    rw [hp] at h2
    cases h2
    exact hb'
  · exact absurd hs (hno e he)

/-- on the client side the exceptional shape cannot occur: no class of the client variant reads a
fixed-size value that can be rejected -/
theorem client_has_no_exception (e : Ext) : ¬ ShortSVS Gen.extVariantsClient e := client_no_shortSVS e

/-! ### accepted inputs that are not in canonical form (evaluated on the model) -/

/-- a ServerHello around an extension block -/
def serverHelloWith (exts : Bytes) : Bytes :=
  let body : Bytes := [3, 3] ++ List.replicate 32 7 ++ [0, 0x13, 0x01, 0] ++ encNat .network 2 exts.length ++ exts
  [2] ++ encNat .network 3 body.length ++ body

/-- the exceptional shape is reachable: `supported_versions` with ONE data byte followed by
`renegotiation_info` is accepted, the first extension kept raw -/
example : (serverHelloCodec 2).parse (serverHelloWith [0, 43, 0, 1, 3, 0xff, 0x01, 0, 1, 0]) =
    .ok (⟨2, 4, ⟨0x07070707, List.replicate 28 7⟩, [], 361, 0,
      [⟨"TlsExtensionUnparsed", 43, .raw [3]⟩, ⟨"TlsExtensionRenegotiationInfo", 65281, .opaque []⟩]⟩, 54) := by
  decide +kernel

/-- … and the same raw extension in front of another neighbour does NOT survive compose → parse:
the class reads `03 04` across the extension boundary (C01 fails for this non-canonical value) -/
example : ∃ b, (serverHelloCodec 2).compose ⟨2, 4, ⟨0x07070707, List.replicate 28 7⟩, [], 361, 0,
      [⟨"TlsExtensionUnparsed", 43, .raw [3]⟩, ⟨"TlsExtensionUnparsed", 0x0401, .raw []⟩,
       ⟨"TlsExtensionUnparsed", 0x0401, .raw []⟩]⟩ = .ok b ∧
    (serverHelloCodec 2).parse b = .error (.notEnough 8) :=
  ⟨serverHelloWith [0, 43, 0, 1, 3, 4, 1, 0, 0, 4, 1, 0, 0], by decide +kernel, by decide +kernel⟩

/-- the declared extension length is not enforced: six declared bytes of `ec_point_formats`, of
which the class uses two; the remaining four are parsed as a further extension -/
example : (serverHelloCodec 2).parse (serverHelloWith [0, 11, 0, 6, 1, 0, 0, 23, 0, 0]) =
    .ok (⟨2, 4, ⟨0x07070707, List.replicate 28 7⟩, [], 361, 0,
      [⟨"TlsExtensionECPointFormats", 11, .coded [.known 0]⟩,
       ⟨"TlsExtensionExtendedMasterSecret", 23, .empty⟩]⟩, 54) := by
  decide +kernel

/-- … and one declared byte of which the class reads four (the canonical form differs from the
input, and is stable) -/
example : ∃ v, (serverHelloCodec 2).parse (serverHelloWith [0, 11, 0, 1, 3, 0, 1, 2]) = .ok (v, 52) ∧
    (serverHelloCodec 2).compose v = .ok (serverHelloWith [0, 11, 0, 4, 3, 0, 1, 2]) :=
  ⟨⟨2, 4, ⟨0x07070707, List.replicate 28 7⟩, [], 361, 0,
      [⟨"TlsExtensionECPointFormats", 11, .coded [.known 0, .known 1, .known 2]⟩]⟩,
    by decide +kernel, by decide +kernel⟩

end Cp.C05
