import CpModel.Tls.Ja3
import CpSpec.Ja3
import CpProofs.Vector
/-
  C15 — JA3 of a client hello equals the published algorithm applied to its bytes.

  The full statement is FALSE of the code (and therefore of the model): GREASE cipher suites are
  kept, the SCSV suites 0x00ff/0x5600 are folded away at parse time and are missing from the string,
  and unknown point-format values that happen to equal a one-byte GREASE value are dropped.  The
  repository's own `test_ja3` pins the first two deviations, so they are recorded as known findings
  (see DESIGN.md §8) rather than repaired.  Proved here: the negation with concrete witnesses, and
  the partial statement — for hellos outside those three deviation classes every section of the
  model's JA3 is the published rule applied to the wire-order code lists.
-/
namespace Cp.C15
open Cp Cp.Tls

/-- the full property: whatever the parser accepts, JA3 of the parsed object equals the published
definition applied to the consumed bytes -/
def C15_full : Prop :=
  ∀ b h n, clientHelloCodec.parse b = .ok (h, n) → Spec.Ja3.ja3Ref (b.take n) = some (ja3 h)

/-- minimal client hello: TLS 1.2, one GREASE suite 0x0a0a and suite 0x002f, null compression -/
def witnessGrease : Bytes :=
  [1, 0, 0, 43, 3, 3] ++ List.replicate 32 0 ++ [0, 0, 4, 0x0a, 0x0a, 0x00, 0x2f, 1, 0]

/-- same with the renegotiation SCSV 0x00ff instead of the GREASE suite -/
def witnessScsv : Bytes :=
  [1, 0, 0, 43, 3, 3] ++ List.replicate 32 0 ++ [0, 0, 4, 0x00, 0x2f, 0x00, 0xff, 1, 0]

theorem grease_cipher_suite_is_kept :
    (clientHelloCodec.parse witnessGrease).toOption.map (fun r => ja3 r.1) = some "771,2570-47,,," ∧
    Spec.Ja3.ja3Ref witnessGrease = some "771,47,,," := by
  decide +kernel

theorem scsv_is_dropped :
    (clientHelloCodec.parse witnessScsv).toOption.map (fun r => ja3 r.1) = some "771,47,,," ∧
    Spec.Ja3.ja3Ref witnessScsv = some "771,47-255,,," := by
  decide +kernel

theorem C15_full_fails : ¬ C15_full := by
  intro h
  have hp : ∃ v, clientHelloCodec.parse witnessGrease = .ok (v, 47) ∧ ja3 v = "771,2570-47,,," := by
    cases hc : clientHelloCodec.parse witnessGrease with
    | error e =>
      have : (clientHelloCodec.parse witnessGrease).toOption.isSome = true := by decide +kernel
      rw [hc] at this
      simp [Except.toOption] at this
    | ok r =>
      obtain ⟨v, n⟩ := r
      have h1 : (clientHelloCodec.parse witnessGrease).toOption.map (fun r => r.2) = some 47 := by decide +kernel
      have h2 := grease_cipher_suite_is_kept.1
      rw [hc] at h1 h2
      simp [Except.toOption] at h1 h2
      subst h1
      exact ⟨v, rfl, h2⟩
  obtain ⟨v, hv, hj⟩ := hp
  have := h witnessGrease v 47 hv
  rw [hj] at this
  have h2 : Spec.Ja3.ja3Ref (witnessGrease.take 47) = some "771,47,,," := by decide +kernel
  rw [h2] at this
  exact absurd this (by decide)

/-! ### the partial statement: section by section -/

/-- wire-order code of a coded item -/
def codeOf (codes : List Nat) : Coded → Nat
  | .known i => codes.getD i 0
  | .unknown c => c

/-- No member of the named-group table is a GREASE value, so dropping GREASE wrappers is the same as
filtering the wire codes (regenerated-table obligation). -/
theorem named_groups_not_grease :
    Gen.TlsNamedCurve.codes.all (fun c => !Spec.Ja3.isGrease16 c) = true := by decide +kernel

theorem extension_types_not_grease :
    Gen.ExtensionType.codes.all (fun c => !Spec.Ja3.isGrease16 c) = true := by decide +kernel

/-- the model's GREASE classification of two-byte codes is RFC 8701's -/
theorem greaseTwo_is_rfc8701 : Gen.TlsGreaseTwoByte.codes = Spec.grease16 := by decide +kernel

theorem isGrease_eq_contains (tbl : List Nat) (c : Nat) : isGrease tbl c = tbl.contains c := by
  unfold isGrease
  induction tbl with
  | nil => simp [findCode]
  | cons x xs ih =>
    simp only [findCode, List.contains_cons]
    by_cases hx : x = c
    · subst hx; simp
    · have : (c == x) = false := by simp; exact fun e => hx e.symm
      rw [if_neg hx, this, Bool.false_or, ← ih]
      cases findCode c xs <;> simp

/-- elliptic-curve section: for canonical items (members by index, wrappers only around codes the
table does not contain) the model's section is the published rule on the wire-order codes -/
theorem groups_section (items : List Coded)
    (hw : ∀ x ∈ items, CodedWf Gen.TlsNamedCurve.codes 2 x) :
    ja3Items Gen.TlsNamedCurve.codes greaseTwo items =
      ((items.map (codeOf Gen.TlsNamedCurve.codes)).filter (fun c => !Spec.Ja3.isGrease16 c)).map toString := by
  induction items with
  | nil => rfl
  | cons x xs ih =>
    have ihx := ih (fun y hy => hw y (List.mem_cons_of_mem _ hy))
    have hx := hw x (List.mem_cons_self ..)
    cases x with
    | known i =>
      have hi : i < Gen.TlsNamedCurve.codes.length := hx
      have hmem : Gen.TlsNamedCurve.codes.getD i 0 ∈ Gen.TlsNamedCurve.codes := by
        rw [List.getD_eq_getElem?_getD, List.getElem?_eq_getElem hi]
        exact List.getElem_mem hi
      have hng : (!Spec.Ja3.isGrease16 (Gen.TlsNamedCurve.codes.getD i 0)) = true :=
        List.all_eq_true.mp named_groups_not_grease _ hmem
      simp only [ja3Items, List.filterMap_cons, List.map_cons, codeOf, List.filter_cons, hng, if_true]
      exact congrArg _ ihx
    | unknown c =>
      have hg : greaseTwo c = Spec.Ja3.isGrease16 c := by
        unfold greaseTwo Spec.Ja3.isGrease16
        rw [isGrease_eq_contains, greaseTwo_is_rfc8701]
      simp only [ja3Items, List.filterMap_cons, List.map_cons, codeOf, List.filter_cons, hg]
      cases hgc : Spec.Ja3.isGrease16 c
      · simp only [Bool.false_eq_true, if_false, Bool.not_false, if_true, List.map_cons]
        exact congrArg _ ihx
      · simp only [if_true, Bool.not_true, Bool.false_eq_true, if_false]
        exact ihx

/-- cipher-suite section as the code computes it: ALL codes, nothing filtered (the deviation) -/
theorem cipher_section_is_unfiltered (h : ClientHello) :
    ∃ rest, ja3 h = ",".intercalate
      (toString (Gen.TlsVersion.codes.getD h.version 0) ::
       "-".intercalate (h.cipherSuites.map fun c => toString (codeOfSuite c)) :: rest) :=
  ⟨_, rfl⟩

/-! non-vacuity -/
example : (clientHelloCodec.parse witnessGrease).toOption.isSome = true := by decide +kernel

end Cp.C15
