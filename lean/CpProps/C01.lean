import CpProofs.Tls2
/-
  C01 — compose then parse returns the same message and consumes every byte.
  `RoundTrip c wf` says: for every constructible value (`wf`), compose succeeds and parsing the
  composed bytes FOLLOWED BY ANY SUFFIX returns the value and consumes exactly the composed bytes.
  Proved per combinator (CpProofs/Codec*.lean) and instantiated for the modelled classes.
-/
namespace Cp.C01
open Cp Cp.Codec Cp.Tls

/-- fixed-width integers, every width and byte order -/
theorem num (bo : ByteOrder) {k : Nat} (hk : validSize k = true) :
    RoundTrip (Codec.num bo k) (fun v => v < 256 ^ k) := num_roundTrip bo hk

/-- length-prefixed opaque byte strings (`parse_bytes` / `compose_bytes`) -/
theorem bytesPrefixed (bo : ByteOrder) {k : Nat} (hk : validSize k = true) :
    RoundTrip (Codec.bytesPrefixed bo k) (fun v => v.length < 256 ^ k) := bytesPrefixed_roundTrip bo hk

/-- a strictly decoded coded-enumeration position: every member of a table with pairwise distinct
codes that fit the width (the table obligations are discharged on the regenerated data in C10) -/
theorem codedMember {codes : List Nat} {k : Nat} (ht : TableOk codes k) :
    RoundTrip (codedStrict codes k) (fun i => i < codes.length) := codedStrict_roundTrip ht

/-- two consecutive fields (nested values inherit the law: it is compositional) -/
theorem seq {α β : Type} {a : Codec α} {b : Codec β} {wa : α → Prop} {wb : β → Prop}
    (ha : RoundTrip a wa) (hb : RoundTrip b wb) :
    RoundTrip (Codec.seq a b) (fun p => wa p.1 ∧ wb p.2) := seq_roundTrip ha hb

/-- a frame around a payload parser -/
theorem framed {α : Type} {F : Codec Bytes} {wfF : Bytes → Prop} {inner : Codec α} {wf : α → Prop}
    (hF : RoundTrip F wfF)
    (hi : ∀ v, wf v → ∃ p, inner.compose v = .ok p ∧ wfF p ∧ ∃ m, inner.parse p = .ok (v, m)) :
    RoundTrip (Codec.framed F inner) wf := framed_roundTrip hF hi

theorem tlsProtocolVersion : RoundTrip versionCodec (fun i => i < Gen.TlsVersion.codes.length) :=
  version_roundTrip

/-- `TlsRecord`: every content type, every protocol version, fragments of 0..65535 bytes -/
theorem tlsRecord : RoundTrip recordCodec recordWf := record_roundTrip

theorem tlsAlert : RoundTrip alertCodec alertWf := alert_roundTrip

theorem tlsChangeCipherSpec :
    RoundTrip ccsCodec (fun v => v ∈ Gen.TlsChangeCipherSpecType.memberCodes) := ccs_roundTrip

theorem tlsServerKeyExchange : RoundTrip serverKeyExchangeCodec (fun p => p.length < 256 ^ 3) :=
  serverKeyExchange_roundTrip

theorem tlsServerHelloDone : RoundTrip serverHelloDoneCodec (fun _ => True) := serverHelloDone_roundTrip

theorem tlsCertificateStatus :
    RoundTrip certificateStatusCodec
      (fun x => x.1 ∈ Gen.TlsCertificateStatusType.memberCodes ∧ x.2.length + 4 < 256 ^ 3) :=
  certificateStatus_roundTrip

-- The hello messages (vectors, SCSV folding, extension lists), the certificate chain and the
-- extension classes are in `CpProps/C01Hello.lean` (`clientHello_roundTrip`, `serverHello_roundTrip`, …).

/-! non-vacuity: a concrete record satisfies the hypothesis and round-trips -/
example : recordCodec.parse ([22, 3, 3, 0, 3, 1, 2, 3] ++ [9, 9]) = .ok (⟨22, 4, [1, 2, 3]⟩, 8) := by
  decide +kernel

end Cp.C01
