import CpProofs.Ssl2
/-
  C02 for the SSL 2.0 record layer — parsing untrusted bytes fails only with the documented parse
  errors.  In the model every Python operation that can raise something else has a `crash` branch
  (`parse_numeric` with an unknown size, the enum member lookup, the item loop of
  `_parse_parsable_derived_array` spinning on an item that consumes nothing); `NoCrash c` says that
  no input reaches one.  For every input, no bounds.
-/
namespace Cp.C02Ssl2
open Cp Cp.Codec Cp.Ssl2

theorem sslRecord_noCrash : NoCrash recordCodec := record_noCrash
theorem sslErrorMessage_noCrash : NoCrash errorCodec := error_noCrash
theorem sslHandshakeClientHello_noCrash : NoCrash clientHelloCodec := clientHello_noCrash
theorem sslHandshakeServerHello_noCrash : NoCrash serverHelloCodec := serverHello_noCrash

/-- the subprotocol dispatch for EVERY message-type value, registered or not -/
theorem sslSubprotocolParser_noCrash (typ : Nat) (bs : Bytes) (k : String) :
    parseMsg typ bs ≠ .error (.crash k) := parseMsg_noCrash typ bs k

/-- the cipher-kind array (`parse_parsable_array` with `SslCipherKindFactory`, no fallback class):
an unknown code is `InvalidValue`, a trailing fragment `NotEnoughData`, never the `ValueError` -/
theorem sslCipherKinds_noCrash (size : Nat) (rest : Bytes) (k : String) :
    parseKinds size rest ≠ .error (.crash k) := parseKinds_no_crash size rest k

/-! non-vacuity: malformed inputs and what they give -/
example : parseRecord [0x80, 0x00, 0xff] = .error .invalidValue := by decide +kernel          -- not a message type
example : parseRecord [0x80, 0x01, 0x02] = .error .invalidValue := by decide +kernel          -- unregistered type
example : parseRecord [0x80, 0x03, 0x00, 0x00, 0x09] = .error .invalidValue := by decide +kernel   -- unknown error code
example : parseRecord [0x00, 0x03, 0x05, 0x00, 0x00, 0x01] = .error (.notEnough 5) := by decide +kernel  -- padding missing
example : parseRecord [0x80, 0x0c, 0x01, 0x00, 0x02, 0x00, 0x02, 0x00, 0x00, 0x00, 0x00, 0x01, 0x00] =
    .error (.notEnough 1) := by decide +kernel                                                  -- kinds length 2
example : parseRecord [0x80, 0x0c, 0x01, 0x00, 0x02, 0x00, 0x03, 0x00, 0x00, 0x00, 0x00, 0x01, 0x00, 0x81] =
    .error .invalidValue := by decide +kernel                                                   -- unknown cipher kind

end Cp.C02Ssl2
