import CpModel.Opp.Ldap
import CpSpec.Wire
import CpSpec.Opp
import CpProofs.DnsSpec
/-
  C09 (LDAP framing) — `_get_message_size` returns exactly the number of octets of the outer BER
  TLV, for EVERY length form X.690 §8.1.3 allows: the short form, and the long form with any number
  (1..127) of length octets, minimal or padded with leading zero octets (Active Directory writes
  `30 84 00 00 00 nn`).  So whatever follows a conformant LDAP message in the buffer is left for the
  next parser, and a conformant message alone is consumed completely.
  (The decoding of the message itself is asn1crypto's and outside the model; see DESIGN.md.)
-/
namespace Cp.C09Ldap
open Cp Cp.Opp

theorem shiftOr (a : Nat) (x : UInt8) : (a <<< 8) ||| x.toNat = a * 256 + x.toNat := by
  have hx : x.toNat < 2 ^ 8 := x.toNat_lt
  rw [← Nat.shiftLeft_add_eq_or_of_lt hx, Nat.shiftLeft_eq]

/-- the loop computes the big-endian value of the length octets -/
theorem ldapLenFold_eq (ls : Bytes) : ldapLenFold ls = Spec.fromBytesBE ls := by
  unfold ldapLenFold Spec.fromBytesBE
  congr 1
  funext a x
  exact shiftOr a x

theorem size_short (tag n : UInt8) (rest : Bytes) (h : n.toNat < 128) :
    ldapMessageSize (tag :: n :: rest) = .ok (2 + n.toNat) := by
  simp [ldapMessageSize, h]

theorem size_long (tag : UInt8) (ls rest : Bytes) (hk : ls.length < 128) :
    ldapMessageSize (tag :: UInt8.ofNat (0x80 + ls.length) :: (ls ++ rest)) =
      .ok (2 + ls.length + Spec.fromBytesBE ls) := by
  have hn : (UInt8.ofNat (0x80 + ls.length)).toNat = 128 + ls.length := by
    rw [UInt8.toNat_ofNat']
    omega
  have hm : (128 + ls.length) &&& 0x7f = ls.length := by
    have := Nat.and_two_pow_sub_one_eq_mod (128 + ls.length) 7
    simp only [Nat.reducePow, Nat.add_one_sub_one] at this
    rw [show (0x7f : Nat) = 127 from rfl, this]
    omega
  have hge : ¬ (128 + ls.length < 128) := by omega
  simp only [ldapMessageSize, hn, hm, hge, if_false, List.take_left', ldapLenFold_eq]

/-- short form: the reported size is the length of the TLV, whatever follows it -/
theorem size_is_tlv_length_short (tag : UInt8) (content tail : Bytes) (h : content.length < 128) :
    ldapMessageSize (tag :: UInt8.ofNat content.length :: (content ++ tail)) =
      .ok ((tag :: UInt8.ofNat content.length :: content).length) := by
  have hn : (UInt8.ofNat content.length).toNat = content.length := by
    rw [UInt8.toNat_ofNat']
    omega
  rw [size_short _ _ _ (by rw [hn]; exact h), hn]
  simp only [List.length_cons]
  congr 1
  omega

/-- long form, any number of length octets (minimal or not): the reported size is the length of the
TLV, whatever follows it -/
theorem size_is_tlv_length_long (tag : UInt8) (ls content tail : Bytes) (hk : ls.length < 128)
    (hc : content.length = Spec.fromBytesBE ls) :
    ldapMessageSize (tag :: UInt8.ofNat (0x80 + ls.length) :: (ls ++ (content ++ tail))) =
      .ok ((tag :: UInt8.ofNat (0x80 + ls.length) :: (ls ++ content)).length) := by
  rw [size_long tag ls (content ++ tail) hk, ← hc]
  simp only [List.length_cons, List.length_append]
  congr 1
  omega

/-- the same without a side condition on the length octets: the content length `content.length` written
as X.690 writes it, big-endian on `k` octets — the minimal `k` (DER, what asn1crypto composes) or any
larger one (BER, zero-padded) -/
theorem size_is_tlv_length_ber (tag : UInt8) (k : Nat) (content tail : Bytes) (hk : k < 128)
    (hfit : content.length < 256 ^ k) :
    ldapMessageSize (tag :: UInt8.ofNat (0x80 + k) :: (Spec.toBytesBE k content.length ++ (content ++ tail))) =
      .ok ((tag :: UInt8.ofNat (0x80 + k) :: (Spec.toBytesBE k content.length ++ content)).length) := by
  have hl : (Spec.toBytesBE k content.length).length = k := Spec.Dns.toBE_length k content.length
  have := size_is_tlv_length_long tag (Spec.toBytesBE k content.length) content tail (by rw [hl]; exact hk)
    (Spec.Dns.fromBE_toBE hfit).symm
  rw [hl] at this
  exact this

/-- the two RFC 4511 encodings of `CpSpec/Opp.lean` (what the library composes) are consumed completely,
whatever follows them and whatever the result code -/
theorem size_of_spec_request (tail : Bytes) :
    ldapMessageSize (Spec.Opp.ldapStartTlsRequest ++ tail) = .ok Spec.Opp.ldapStartTlsRequest.length := by
  rfl

theorem size_of_spec_response (rc : Nat) (tail : Bytes) :
    ldapMessageSize (Spec.Opp.ldapStartTlsResponse rc ++ tail) = .ok (Spec.Opp.ldapStartTlsResponse rc).length := by
  rfl

/-! non-vacuity: the Active Directory form `30 84 00 00 00 03` and the minimal `30 81 80` -/
example : ldapMessageSize [0x30, 0x84, 0, 0, 0, 3, 1, 2, 3, 0x16, 0x03] = .ok 9 := by decide
example : ldapMessageSize ([0x30, 0x81, 0x80] ++ List.replicate 130 7) = .ok 131 := by decide
example : ldapMessageSize [0x30, 0x0c, 2, 1, 1] = .ok 14 := by decide

end Cp.C09Ldap
