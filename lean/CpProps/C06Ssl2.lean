import CpProofs.Ssl2
/-
  C06 for the SSL 2.0 record layer — messages are laid out exactly as the protocol text specifies.
  The model's composers are proved equal to the independent encoders of `CpSpec/Ssl2.lean` (written
  from the SSL 2.0 specification: record header `1 | 15-bit length`, CLIENT-HELLO, SERVER-HELLO,
  ERROR), and the spec's 3-byte header form (is-escape bit, padding) is decoded to the same message.
-/
namespace Cp.C06Ssl2
open Cp Cp.Codec Cp.Ssl2

/-- `SslRecord.compose` = 2-byte header of the protocol text around the message of the protocol text -/
theorem sslRecord_compose_is_spec (r : Record) (h : r.wf) :
    composeRecord r = .ok (Spec.Ssl2.encodeRecord2 (specMsg r.message)) := record_compose_is_spec r h

/-- each message class: type byte + `compose()` is the message of the protocol text -/
theorem sslMessage_compose_is_spec (m : Msg) (h : m.wf) :
    ∃ b, composeMsg m = .ok b ∧ Spec.Ssl2.u8 m.type ++ b = specMsg m := msg_compose_is_spec m h

theorem sslErrorMessage_is_spec (c : Nat) :
    specMsg (.error c) = Spec.Ssl2.encodeError c := rfl
theorem sslHandshakeClientHello_is_spec (kinds : List Nat) (sid ch : Bytes) :
    specMsg (.clientHello kinds sid ch) =
      Spec.Ssl2.encodeClientHello Spec.Ssl2.VERSION (kinds.map kindCode) sid ch := rfl
theorem sslHandshakeServerHello_is_spec (cert : Bytes) (kinds : List Nat) (cid : Bytes) (hit : Bool) :
    specMsg (.serverHello cert kinds cid hit) =
      Spec.Ssl2.encodeServerHello hit Spec.Ssl2.CT_X509_CERTIFICATE Spec.Ssl2.VERSION cert (kinds.map kindCode) cid := rfl

/-- the declared length in the composed header is the length of the body that follows; 2-byte form, no padding -/
theorem sslRecord_declares_body (r : Record) (h : r.wf) (s : Bytes) :
    headerSize (encRecord r ++ s) = 2 ∧ declaredLength (encRecord r ++ s) = (specMsg r.message).length ∧
      declaredPadding (encRecord r ++ s) = 0 := composed_header_declares_body h s

/-- the record length the parser reads from ANY header (masks `0x80`/`0x7f`/`0x3f`) is the one the
protocol text defines for both header forms -/
theorem sslRecord_declaredLength_is_spec (bs : Bytes) :
    declaredLength bs = Spec.Ssl2.declaredLength (bs.getD 0 0).toNat (bs.getD 1 0).toNat := declaredLength_is_spec bs

/-- decode ∘ encode = id for the 2-byte form of the protocol text … -/
theorem sslRecord_parse_of_spec2 (r : Record) (h : r.wf) (s : Bytes) :
    parseRecord (Spec.Ssl2.encodeRecord2 (specMsg r.message) ++ s) = .ok (r, 2 + (specMsg r.message).length) :=
  record_parse_of_spec2 r h s

/-- … and for the 3-byte form (is-escape bit either way, 0..255 bytes of padding, 14-bit length) -/
theorem sslRecord_parse_of_spec3 (m : Msg) (hm : m.wf) (esc : Bool) (pad s : Bytes) (hp : pad.length < 256)
    (hL : (specMsg m).length + pad.length < 2 ^ 14) :
    parseRecord (Spec.Ssl2.encodeRecord3 esc (specMsg m) pad ++ s) = .ok (⟨m⟩, 3 + (specMsg m).length + pad.length) :=
  parse_spec_record3 hm esc pad s hp hL

/-! non-vacuity -/
example : Spec.Ssl2.encodeRecord2 (Spec.Ssl2.encodeClientHello 2 [0x010080, 0x0700c0] [0xaa] [1, 2, 3]) =
    [0x80, 19, 1, 0, 2, 0, 6, 0, 1, 0, 3, 1, 0, 0x80, 7, 0, 0xc0, 0xaa, 1, 2, 3] := by decide +kernel
example : composeRecord ⟨.clientHello [1, 8] [0xaa] [1, 2, 3]⟩ =
    .ok [0x80, 19, 1, 0, 2, 0, 6, 0, 1, 0, 3, 1, 0, 0x80, 7, 0, 0xc0, 0xaa, 1, 2, 3] := by decide +kernel
example : Record.wf ⟨.clientHello [1, 8] [0xaa] [1, 2, 3]⟩ := by decide +kernel
example : parseRecord (Spec.Ssl2.encodeRecord3 true (Spec.Ssl2.encodeError 3) [5, 5] ++ [9]) = .ok (⟨.error 3⟩, 8) := by
  decide +kernel

end Cp.C06Ssl2
