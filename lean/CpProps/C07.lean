import CpProofs.Ssh
/-
  C07 — SSH identification string, binary packets, KEXINIT, DH / DH-group-exchange messages and
  host public keys follow RFC 4251 / 4253 / 4419 / 5656 / 8709.

  Three-way shape: the executable model of the code (`CpModel/Ssh`), an independent encoder and
  decoder written from the RFC text (`CpSpec/Ssh`), and theorems that (i) what the model composes IS
  the RFC encoding and (ii) parsing an RFC encoding gives the encoded values back.  Statements the
  code violates stay in the file as `…_full : Prop` with a proved negation and the strongest
  `…_partial`.
-/
namespace Cp.C07
open Cp Cp.Codec Cp.Ssh

/-! ### a. the padding rule, for every payload length -/

/-- `4 ≤ padding ≤ 255`, the packet is a multiple of 8 long, and the padding is the least admissible -/
theorem ssh_padding (payload : Nat) :
    4 ≤ padLen payload ∧ padLen payload ≤ 255 ∧ (4 + 1 + payload + padLen payload) % 8 = 0 ∧
      padLen payload = Spec.Ssh.paddingLength payload := by
  obtain ⟨h1, h2, h3, h4⟩ := padLen_spec payload
  exact ⟨h1, by omega, h3, h4⟩

/-! ### b. name-lists -/

/-- the name tables extracted from the live enumerations are usable: codes pairwise distinct, each a
non-empty ASCII text without a comma -/
theorem ssh_name_tables_ok :
    tableOk Gen.Ssh.SshKexAlgorithm = true ∧ tableOk Gen.Ssh.SshHostKeyAlgorithm = true ∧
    tableOk Gen.Ssh.SshEncryptionAlgorithm = true ∧ tableOk Gen.Ssh.SshMacAlgorithm = true ∧
    tableOk Gen.Ssh.SshCompressionAlgorithm = true :=
  ⟨kex_tableOk, hostKey_tableOk, enc_tableOk, mac_tableOk, comp_tableOk⟩

/-- compose ∘ parse on every list of well-formed names, whatever follows: order kept, a known name
comes back as the same member, an unknown name as the same text.  `nameListOk` is the explicit
decidable domain: members of the table; `str` names non-empty, ASCII, comma-free and NOT equal to a
member's code (such a string parses back as the member). -/
theorem namelist_roundtrip (codes : List Bytes) (ht : tableOk codes = true) :
    RoundTrip (nameListCodec codes) (fun ns => nameListOk codes ns = true) :=
  nameList_roundTrip ht

/-- the composed name-list is the RFC 4251 §5 `name-list`: uint32 length, names joined by commas -/
theorem namelist_compose_is_rfc (codes : List Bytes) (ns : List Name) (texts : List Bytes)
    (h1 : nameTexts codes ns = .ok texts) (h2 : (Spec.Ssh.joinNames texts).length < 2 ^ 32) :
    composeNameList codes ns = .ok (Spec.Ssh.nameList texts) :=
  composeNameList_eq_spec ns texts h1 (by rw [joinItems_eq_spec]; exact h2)

/-- parsing the RFC encoding of ANY list of conformant names (non-empty, comma-free, ASCII) recovers
exactly those names, in order: a name of the table as that member, any other name verbatim -/
theorem namelist_parse_of_rfc (codes : List Bytes) (texts : List Bytes)
    (hv : ∀ t ∈ texts, Spec.Ssh.validName t = true) (hl : (Spec.Ssh.joinNames texts).length < 2 ^ 32)
    (s : Bytes) :
    parseNameList codes (Spec.Ssh.nameList texts ++ s) =
      .ok (texts.map (classify codes), (Spec.Ssh.nameList texts).length) ∧
    (∀ t ∈ texts, (classify codes t).text codes = some t) ∧
    (∀ t ∈ texts, t ∉ codes → classify codes t = .other t) := by
  have hg : GoodItems comma texts := by
    intro t ht
    have := hv t ht
    simp only [Spec.Ssh.validName, Bool.and_eq_true, Bool.not_eq_true', List.isEmpty_eq_false_iff,
      List.all_eq_true, bne_iff_ne, ne_eq, decide_eq_true_eq] at this
    exact ⟨this.1, fun hm => (this.2 _ hm).1 rfl⟩
  have ha : ∀ t ∈ texts, isAscii t = true := by
    intro t ht
    have := hv t ht
    simp only [Spec.Ssh.validName, Bool.and_eq_true, List.all_eq_true, decide_eq_true_eq] at this
    simp only [isAscii, List.all_eq_true, decide_eq_true_eq]
    exact fun x hx => (this.2 x hx).2
  refine ⟨?_, fun t _ => classify_text codes t, fun t _ hn => by simp [classify, findName_not_mem hn]⟩
  rw [parseNameList_join texts hg ha (by rw [joinItems_eq_spec]; exact hl) s]
  simp [Spec.Ssh.nameList, Spec.Ssh.string, Spec.sshString, Spec.toBytesBE, joinItems_eq_spec]

theorem namelist_len_bound (codes : List Bytes) : LenBound (nameListCodec codes) := nameList_lenBound codes
theorem namelist_positive (codes : List Bytes) : Positive (nameListCodec codes) := nameList_positive codes
theorem namelist_no_crash (codes : List Bytes) : NoCrash (nameListCodec codes) := nameList_noCrash codes

/-- FULL statement (it was false before the repair of `SshNameListBase._parse`): a name-list whose
declared length exceeds the data is never accepted; an accepted one consumed exactly the 4-byte
header plus the declared length, and its body does not end in a comma -/
theorem namelist_rejects_truncation (codes : List Bytes) (bs : Bytes) (v : List Name) (n : Nat)
    (h : parseNameList codes bs = .ok (v, n)) :
    4 + beVal (bs.take 4) ≤ bs.length ∧ n = 4 + beVal (bs.take 4) ∧
      ((bs.drop 4).take (beVal (bs.take 4))).getLast? ≠ some comma := by
  obtain ⟨body, _, hb, _⟩ := parseNameList_ok_inv h
  obtain ⟨_, h2, h3, _, h5, h6⟩ := nameListBody_ok_inv hb
  exact ⟨h2, h5, h3 ▸ h6⟩

/-- an accepted name-list is exactly its names joined by commas: the wire string is recovered from
the parsed value (no trailing comma, nothing dropped) -/
theorem namelist_value_is_wire_string (codes : List Bytes) (bs : Bytes) (v : List Name) (n : Nat)
    (h : parseNameList codes bs = .ok (v, n)) :
    ∃ items, nameTexts codes v = .ok items ∧ Spec.Ssh.takeString bs = some (joinItems comma items, bs.drop n) := by
  obtain ⟨body, items, hb, ht, _, hj⟩ := parseNameList_ok_inv h
  exact ⟨items, ht, hj ▸ nameListBody_complete hb⟩

/-- every proper prefix of an RFC 4251 `string` is `NotEnoughData(m)` with `1 ≤ m ≤` really missing,
at the name-list header (C04 for name-lists; false before the repair) -/
theorem namelist_prefix_reject (body : Bytes) (hl : body.length < 2 ^ 32) (j : Nat) (hj : j < 4 + body.length) :
    ∃ m : Nat, nameListBody ((Spec.Ssh.string body).take j) = .error (.notEnough m) ∧ 1 ≤ m ∧
      m ≤ 4 + body.length - j := nameListBody_prefix body hl j hj

/-! ### c. the binary packet, around any message codec -/

/-- the composed packet is `uint32 packet_length ‖ byte padding_length ‖ payload ‖ padding` with
`packet_length = 1 + payload + padding`, the least admissible padding, zero padding bytes — and it is
a conformant RFC 4253 §6 packet -/
theorem packet_compose_is_rfc {α : Type} (m : Codec α) (v : α) (payload : Bytes) (h : m.compose v = .ok payload)
    (hl : payload.length + 12 < 2 ^ 32) :
    (recordCodec m).compose v = .ok (Spec.Ssh.binaryPacket payload) ∧
    Spec.Ssh.IsBinaryPacket (Spec.Ssh.binaryPacket payload) payload ∧
    (Spec.Ssh.binaryPacket payload).length = 4 + (1 + payload.length + Spec.Ssh.paddingLength payload.length) :=
  ⟨record_compose_spec h hl, binaryPacket_conformant payload, binaryPacket_length payload⟩

theorem packet_roundtrip {α : Type} (m : Codec α) (wf : α → Prop) (hm : RoundTrip m wf) :
    RoundTrip (recordCodec m) (fun v => wf v ∧ ∀ b, m.compose v = .ok b → b.length + 12 < 2 ^ 32) :=
  record_roundTrip hm

theorem packet_len_bound {α : Type} (m : Codec α) : LenBound (recordCodec m) := record_lenBound m
theorem packet_positive {α : Type} (m : Codec α) : Positive (recordCodec m) := record_positive m
theorem packet_no_crash {α : Type} (m : Codec α) (hm : NoCrash m) : NoCrash (recordCodec m) := record_noCrash hm

/-- every proper prefix of a composed packet is rejected with `NotEnoughData(m)`, `1 ≤ m ≤` the
number of bytes really missing — for ANY message codec -/
theorem packet_prefix_reject {α : Type} (m : Codec α) :
    PrefixReject (recordCodec m) (fun v => ∀ b, m.compose v = .ok b → b.length + 12 < 2 ^ 32) :=
  record_prefixReject m

/-- the three record classes of the code: consumed length within the buffer, at least 5 bytes -/
theorem records_len_bound_positive :
    (LenBound recordInit ∧ LenBound recordKexDH ∧ LenBound recordKexDHGroup) ∧
    (Positive recordInit ∧ Positive recordKexDH ∧ Positive recordKexDHGroup) :=
  ⟨records_lenBound, record_positive _, record_positive _, record_positive _⟩

/-- the three record classes reject every proper prefix of a packet they composed (C04) -/
theorem records_prefix_reject :
    PrefixReject recordInit (fun v => ∀ b, composeMsg v = .ok b → b.length + 12 < 2 ^ 32) ∧
    PrefixReject recordKexDH (fun v => ∀ b, composeMsg v = .ok b → b.length + 12 < 2 ^ 32) ∧
    PrefixReject recordKexDHGroup (fun v => ∀ b, composeMsg v = .ok b → b.length + 12 < 2 ^ 32) :=
  ⟨record_prefixReject _, record_prefixReject _, record_prefixReject _⟩

/-- C02 for the first exchange: name-lists, KEXINIT and the `SshRecordInit` packet (disconnect,
unimplemented, KEXINIT inside) fail only with the four documented parse errors -/
theorem ssh_init_no_crash :
    (∀ codes, NoCrash (nameListCodec codes)) ∧ NoCrash kexInitCodec ∧ NoCrash recordInit :=
  ⟨nameList_noCrash, kexInit_noCrash, recordInit_noCrash⟩

/-- FULL statement (C03 for the packet; false before the repair of `SshRecordBase._parse`): the packet
is self-delimiting — for EVERY message codec, the message parser being confined to the payload -/
theorem packet_self_delimiting {α : Type} (m : Codec α) : SelfDelim (recordCodec m) := record_selfDelim m

/-- FULL statement (false before the repair): the consumed length is `4 + packet_length`, within the
buffer and at least 5 -/
theorem packet_consumes_declared {α : Type} (m : Codec α) (b : Bytes) (v : α) (n : Nat)
    (h : (recordCodec m).parse b = .ok (v, n)) : n = 4 + declaredLength b ∧ n ≤ b.length ∧ 5 ≤ n :=
  record_consumes_declared m b v n h

/-- the three record classes of the code are self-delimiting and consume `4 + packet_length` -/
theorem records_self_delimiting :
    SelfDelim recordInit ∧ SelfDelim recordKexDH ∧ SelfDelim recordKexDHGroup ∧
    (∀ b v n, recordInit.parse b = .ok (v, n) → n = 4 + declaredLength b) ∧
    (∀ b v n, recordKexDH.parse b = .ok (v, n) → n = 4 + declaredLength b) ∧
    (∀ b v n, recordKexDHGroup.parse b = .ok (v, n) → n = 4 + declaredLength b) :=
  ⟨record_selfDelim _, record_selfDelim _, record_selfDelim _,
    fun b v n h => (record_consumes_declared _ b v n h).1, fun b v n h => (record_consumes_declared _ b v n h).1,
    fun b v n h => (record_consumes_declared _ b v n h).1⟩

/-- the former counter-examples: inner lengths that disagree with the header are an invalid value -/
theorem packet_inconsistent_lengths_rejected :
    recordInit.parse [0, 0, 0, 2, 0, 3, 0, 0, 0, 1] = .error .invalidValue ∧
    recordInit.parse ([0, 0, 0, 12, 200, 3, 0, 0, 0, 1] ++ List.replicate 200 0) = .error .invalidValue ∧
    recordInit.parse ([0, 0, 0, 34, 0, 3, 0, 0, 0, 1] ++ List.replicate 28 0) = .error .invalidValue ∧
    recordInit.parse [0, 0, 0, 6, 0, 3, 0, 0, 0, 1] = .ok (.unimplemented 1, 10) := by
  decide +kernel

/-- the former `ValueError`: a KEXDH_REPLY whose ECDSA host key has a compressed point is an invalid value -/
theorem kexdh_reply_compressed_point_rejected :
    recordKexDH.parse
      [0, 0, 0, 55, 0, 31, 0, 0, 0, 41, 0, 0, 0, 19, 101, 99, 100, 115, 97, 45, 115, 104, 97, 50, 45, 110, 105, 115,
       116, 112, 50, 53, 54, 0, 0, 0, 8, 110, 105, 115, 116, 112, 50, 53, 54, 0, 0, 0, 2, 3, 1, 0, 0, 0, 0, 0, 0, 0, 0] =
      .error .invalidValue := by decide +kernel

/-! ### d. KEXINIT -/

/-- tie to the code: the ten vectors of `_get_cipher_attributes`, in wire order, with their item classes -/
theorem kexinit_field_order :
    Gen.Ssh.kexInitVectors.map (fun x => (x.1, x.2.2)) =
      [("kex_algorithms", "SshKexAlgorithm"), ("host_key_algorithms", "SshHostKeyAlgorithm"),
       ("encryption_algorithms_client_to_server", "SshEncryptionAlgorithm"),
       ("encryption_algorithms_server_to_client", "SshEncryptionAlgorithm"),
       ("mac_algorithms_client_to_server", "SshMacAlgorithm"), ("mac_algorithms_server_to_client", "SshMacAlgorithm"),
       ("compression_algorithms_client_to_server", "SshCompressionAlgorithm"),
       ("compression_algorithms_server_to_client", "SshCompressionAlgorithm"),
       ("languages_client_to_server", "LanguageTag"), ("languages_server_to_client", "LanguageTag")] := by
  decide +kernel

/-- language-tag lists round-trip as well -/
theorem language_list_roundtrip : RoundTrip languageListCodec (fun tags => languageListOk tags = true) :=
  languageList_roundTrip

theorem kexinit_roundtrip : RoundTrip kexInitCodec (fun k => kexInitOk k = true) := kexInit_roundTrip

/-- the composed KEXINIT is `byte 20 ‖ cookie ‖ ten name-lists ‖ boolean ‖ uint32 0`, RFC 4253 §7.1 -/
theorem kexinit_compose_is_rfc (k : KexInit) (hk : kexInitOk k = true) :
    kexInitCodec.compose k = .ok (Spec.Ssh.encodeKexInit (specOf k)) := kexInit_compose_spec k hk

/-- parsing that encoding, with anything after it, gives the value back and consumes exactly it -/
theorem kexinit_parse_of_rfc (k : KexInit) (hk : kexInitOk k = true) (s : Bytes) :
    kexInitCodec.parse (Spec.Ssh.encodeKexInit (specOf k) ++ s) =
      .ok (k, (Spec.Ssh.encodeKexInit (specOf k)).length) := kexInit_parse_spec k hk s

theorem kexinit_len_bound_positive : LenBound kexInitCodec ∧ Positive kexInitCodec :=
  ⟨kexInit_lenBound, kexInit_positive⟩

/-- KEXINIT inside a binary packet through the real message variants of the three record classes -/
theorem kexinit_in_packet (k : KexInit) (hk : kexInitOk k = true)
    (hl : (Spec.Ssh.encodeKexInit (specOf k)).length + 12 < 2 ^ 32) :
    (recordInit.compose (.kexInit k) = .ok (Spec.Ssh.binaryPacket (Spec.Ssh.encodeKexInit (specOf k))) ∧
      ∀ s, recordInit.parse (Spec.Ssh.binaryPacket (Spec.Ssh.encodeKexInit (specOf k)) ++ s) =
        .ok (.kexInit k, (Spec.Ssh.binaryPacket (Spec.Ssh.encodeKexInit (specOf k))).length)) ∧
    (recordKexDH.compose (.kexInit k) = .ok (Spec.Ssh.binaryPacket (Spec.Ssh.encodeKexInit (specOf k))) ∧
      ∀ s, recordKexDH.parse (Spec.Ssh.binaryPacket (Spec.Ssh.encodeKexInit (specOf k)) ++ s) =
        .ok (.kexInit k, (Spec.Ssh.binaryPacket (Spec.Ssh.encodeKexInit (specOf k))).length)) ∧
    (recordKexDHGroup.compose (.kexInit k) = .ok (Spec.Ssh.binaryPacket (Spec.Ssh.encodeKexInit (specOf k))) ∧
      ∀ s, recordKexDHGroup.parse (Spec.Ssh.binaryPacket (Spec.Ssh.encodeKexInit (specOf k)) ++ s) =
        .ok (.kexInit k, (Spec.Ssh.binaryPacket (Spec.Ssh.encodeKexInit (specOf k))).length)) :=
  ⟨record_kexInit _ (.inl rfl) k hk hl, record_kexInit _ (.inr (.inl rfl)) k hk hl,
    record_kexInit _ (.inr (.inr rfl)) k hk hl⟩

/-! ### e. DH, DH group exchange, disconnect, unimplemented, newkeys; key blobs -/

theorem dh_init_roundtrip :
    RoundTrip (dhInitCodec 30) (fun p => True ∧ p.2.length < 256 ^ 4) ∧
    RoundTrip (dhInitCodec 32) (fun p => True ∧ p.2.length < 256 ^ 4) :=
  ⟨dhInit_roundTrip 30 (by decide) (by decide), dhInit_roundTrip 32 (by decide) (by decide)⟩

/-- `byte 30 ‖ mpint e` (RFC 4253 §8) and `byte 32 ‖ mpint e` (RFC 4419 §3) when the ephemeral key
bytes are the `mpint` data of `e` (the library carries them as an opaque string) -/
theorem dh_init_compose_is_rfc (e : Nat) (h : (Spec.sshMpintBodyNonneg e).length < 2 ^ 32) :
    (dhInitCodec 30).compose ((), Spec.sshMpintBodyNonneg e) = .ok (Spec.Ssh.encodeKexdhInit e) ∧
    (dhInitCodec 32).compose ((), Spec.sshMpintBodyNonneg e) = .ok (Spec.Ssh.encodeGexInit e) :=
  dhInit_compose_spec e h

theorem gex_request_roundtrip :
    RoundTrip gexRequestCodec (fun p => True ∧ p.2.1 < 256 ^ 4 ∧ p.2.2.1 < 256 ^ 4 ∧ p.2.2.2 < 256 ^ 4) :=
  gexRequest_roundTrip

theorem gex_request_compose_is_rfc (a b c : Nat) (ha : a < 2 ^ 32) (hb : b < 2 ^ 32) (hc : c < 2 ^ 32) :
    gexRequestCodec.compose ((), a, b, c) = .ok (Spec.Ssh.encodeGexRequest a b c) :=
  gexRequest_compose_spec a b c ha hb hc

theorem gex_group_roundtrip :
    RoundTrip gexGroupCodec (fun p => True ∧ p.2.1.length < 256 ^ 4 ∧ p.2.2.length < 256 ^ 4) := gexGroup_roundTrip

theorem gex_group_compose_is_rfc (p g : Nat) (hp : (Spec.sshMpintBodyNonneg p).length < 2 ^ 32)
    (hg : (Spec.sshMpintBodyNonneg g).length < 2 ^ 32) :
    gexGroupCodec.compose ((), Spec.sshMpintBodyNonneg p, Spec.sshMpintBodyNonneg g) =
      .ok (Spec.Ssh.encodeGexGroup p g) := gexGroup_compose_spec p g hp hg

theorem disconnect_roundtrip :
    RoundTrip disconnectCodec (fun p => True ∧ Gen.SshReasonCode.memberCodes.contains p.2.1 = true ∧
      (validUtf8 p.2.2.1 = true ∧ p.2.2.1.length < 256 ^ 4) ∧ (isAscii p.2.2.2 = true ∧ p.2.2.2.length < 256 ^ 4)) :=
  disconnect_roundTrip

theorem disconnect_compose_is_rfc (r : Nat) (d l : Bytes) (hr : r < 2 ^ 32) (hd : d.length < 2 ^ 32)
    (hl : l.length < 2 ^ 32) :
    disconnectCodec.compose ((), r, d, l) = .ok (Spec.Ssh.encodeDisconnect r d l) :=
  disconnect_compose_spec r d l hr hd hl

theorem unimplemented_newkeys :
    RoundTrip unimplementedCodec (fun p => True ∧ p.2 < 256 ^ 4) ∧ RoundTrip newKeysCodec (fun _ => True) ∧
    (∀ s, s < 2 ^ 32 → unimplementedCodec.compose ((), s) = .ok (Spec.Ssh.encodeUnimplemented s)) ∧
    newKeysCodec.compose () = .ok Spec.Ssh.encodeNewKeys :=
  ⟨unimplemented_roundTrip, newKeys_roundTrip, unimplemented_compose_spec, newKeys_compose_spec⟩

/-- `ssh-rsa`: the composed blob is `string "ssh-rsa" ‖ mpint e ‖ mpint n` (RFC 4253 §6.6) and that
encoding parses back, through `SshHostPublicKeyVariant`, to the same key -/
theorem rsa_key_blob (e n : Nat) (he : MpintOk e) (hn : MpintOk n) (s : Bytes) :
    keyBytes ⟨"SshHostKeyRSA", 4, .rsa e n⟩ = .ok (Spec.Ssh.rsaBlob e n) ∧
    parseHostKeyVariant (Spec.Ssh.rsaBlob e n ++ s) =
      .ok (⟨"SshHostKeyRSA", 4, .rsa e n⟩, (Spec.Ssh.rsaBlob e n).length) :=
  ⟨rsa_blob 4 (by decide +kernel) e n he hn, rsa_parse e n he hn s⟩

theorem dss_key_blob (p q g y : Nat) (hp : MpintOk p) (hq : MpintOk q) (hg : MpintOk g) (hy : MpintOk y)
    (s : Bytes) :
    keyBytes ⟨"SshHostKeyDSS", 13, .dss p q g y⟩ = .ok (Spec.Ssh.dssBlob p q g y) ∧
    parseHostKeyVariant (Spec.Ssh.dssBlob p q g y ++ s) =
      .ok (⟨"SshHostKeyDSS", 13, .dss p q g y⟩, (Spec.Ssh.dssBlob p q g y).length) :=
  ⟨dss_blob 13 (by decide +kernel) p q g y hp hq hg hy, dss_parse p q g y hp hq hg hy s⟩

theorem ed25519_key_blob (key : Bytes) (hk : key.length < 2 ^ 32) (s : Bytes) :
    keyBytes ⟨"SshHostKeyEDDSA", 0, .eddsa key⟩ = .ok (Spec.Ssh.ed25519Blob key) ∧
    parseHostKeyVariant (Spec.Ssh.ed25519Blob key ++ s) =
      .ok (⟨"SshHostKeyEDDSA", 0, .eddsa key⟩, (Spec.Ssh.ed25519Blob key).length) :=
  ⟨ed25519_blob 0 (by decide +kernel) key hk, ed25519_parse key hk s⟩

/-- ECDSA: the framing `string "ecdsa-sha2-<id>" ‖ string <id> ‖ string Q` (RFC 5656 §3.1); the
point conversion is asn1crypto's and outside the model -/
theorem ecdsa_key_blob_framing (i c : Nat) (ident q : Bytes)
    (hi : Gen.Ssh.SshHostKeyAlgorithm[i]? = some (Spec.Ssh.ecdsaSha2 ++ ident))
    (hc : Gen.Ssh.SshEllipticCurveIdentifier[c]? = some ident) (hcc : Gen.Ssh.curveCanonical[c]? = some c)
    (hil : ident.length < 2 ^ 31) (hq : q.length < 2 ^ 32) :
    keyBytes ⟨"SshHostKeyECDSA", i, .ecdsa c q⟩ = .ok (Spec.Ssh.ecdsaBlob ident q) :=
  ecdsa_blob i c ident q hi hc hcc hil hq

/-! ### certificate options (PROTOCOL.certkeys) -/

/-- flag extensions and options the library does not know are `string name ‖ string data` -/
theorem cert_option_compose_is_spec :
    (∀ i name, Gen.Ssh.certExtensionNames[i]? = some name → name.length < 2 ^ 32 →
      composeOpt (.noData i) = .ok (Spec.Ssh.certFlag name)) ∧
    (∀ name data : Bytes, name.length < 2 ^ 32 → data.length < 2 ^ 32 →
      composeOpt (.unparsed name data) = .ok (Spec.Ssh.certOption name data)) := certOpt_compose_spec

/-- FULL statement: `force-command` is composed as PROTOCOL.certkeys (and ssh-keygen) encode it —
the data field is a buffer holding the command as a `string` -/
def cert_force_command_full : Prop :=
  ∀ cmd : Bytes, cmd.length < 2 ^ 16 →
    composeOpt (.forceCommand cmd) = .ok (Spec.Ssh.certStringOption Spec.Ssh.forceCommand cmd)

/-- false: the code writes the command directly as the data (`… 00 00 00 02 'ls'` instead of
`… 00 00 00 06 00 00 00 02 'ls'`); the pinned tests assert that form -/
theorem cert_force_command_full_fails : ¬ cert_force_command_full := by
  intro h
  have := h [0x6c, 0x73] (by decide)
  revert this
  decide +kernel

/-! ### the identification string -/

/-- the composed identification string is `SSH-protoversion-softwareversion SP comments CR LF`
(RFC 4253 §4.2), and nothing is composed beyond the 255 bytes the RFC allows (repaired) -/
theorem banner_compose_is_rfc (major minor : Nat) (raw : Bytes) (comment : Option Bytes) :
    composeBanner ⟨major, minor, ⟨"SshSoftwareVersionUnparsed", some raw⟩, comment⟩ =
      if (Spec.Ssh.identification major minor raw comment).length ≤ 255
      then .ok (Spec.Ssh.identification major minor raw comment)
      else .error (.tooMuch (((Spec.Ssh.identification major minor raw comment).length - 255 : Nat) : Int)) :=
  banner_compose_spec major minor raw comment

/-- compose ∘ parse for the identification string, protocol versions 2.0 and 1.99 (the ones in
use), an opaque software version (`SshSoftwareVersionUnparsed`: `hsw` says the text is not one a
vendor class claims) and any comment: the composed bytes are the RFC string, at most 255 long, and
parse back to the banner consuming exactly them — whatever follows -/
theorem banner_roundtrip (raw : Bytes) (comment : Option Bytes) (ht : bannerTextOk raw comment = true)
    (hsw : parseSoftwareVersion raw = .ok ⟨"SshSoftwareVersionUnparsed", some raw⟩) (s : Bytes) :
    (∀ b, composeBanner ⟨2, 0, ⟨"SshSoftwareVersionUnparsed", some raw⟩, comment⟩ = .ok b →
      b = Spec.Ssh.identification 2 0 raw comment ∧ b.length ≤ 255 ∧
      parseBanner (b ++ s) = .ok (⟨2, 0, ⟨"SshSoftwareVersionUnparsed", some raw⟩, comment⟩, b.length)) ∧
    (∀ b, composeBanner ⟨1, 99, ⟨"SshSoftwareVersionUnparsed", some raw⟩, comment⟩ = .ok b →
      b = Spec.Ssh.identification 1 99 raw comment ∧ b.length ≤ 255 ∧
      parseBanner (b ++ s) = .ok (⟨1, 99, ⟨"SshSoftwareVersionUnparsed", some raw⟩, comment⟩, b.length)) :=
  ⟨fun b hc => banner_roundTrip_of_version 2 0 3 bannerVersion_2_0 (by decide) raw comment ht hsw b hc s,
   fun b hc => banner_roundTrip_of_version 1 99 4 bannerVersion_1_99 (by decide) raw comment ht hsw b hc s⟩

/-- C03 for the banner: an accepted identification string consumed between 1 and 255 bytes (RFC 4253
§4.2: "The maximum length of the string is 255 characters, including the Carriage Return and Line
Feed"), all inside the buffer -/
theorem banner_consumed_length (bs : Bytes) (b : Banner) (n : Nat) (h : parseBanner bs = .ok (b, n)) :
    0 < n ∧ n ≤ bs.length ∧ n ≤ 255 := banner_len_bound bs b n h

/-- C02 for the banner (false before the repair: `SSH-3.0-x` was a `ValueError`, `SSH-2.0-x \n` an
`IndexError`): no exception outside the four parse errors -/
theorem banner_no_crash : NoCrash bannerCodec := banner_noCrash

theorem banner_former_crashes_rejected :
    parseBanner [0x53, 0x53, 0x48, 0x2d, 0x33, 0x2e, 0x30, 0x2d, 0x78, 0x0d, 0x0a] = .error .invalidValue ∧
    parseBanner [0x53, 0x53, 0x48, 0x2d, 0x32, 0x2e, 0x30, 0x2d, 0x78, 0x20, 0x0a] =
      .ok (⟨2, 0, ⟨"SshSoftwareVersionUnparsed", some [0x78]⟩, some []⟩, 11) := by decide +kernel

/-- `SshProtocolVersion` parsed on its own still raises the bare `ValueError` (pinned by the test-suite) -/
theorem protocol_version_value_error_witness :
    parseProtocolVersion [0x33, 0x2e, 0x30] = .error (.crash "ValueError") := by decide +kernel

/-- FULL statement (C03; false while `parse_separator('\n')` swallowed every line feed after the string):
the identification string is self-delimiting — it ends at its first line feed -/
theorem banner_self_delimiting : SelfDelim bannerCodec := banner_selfDelim

/-- the former counter-example: a second line feed is no longer consumed; and the 255-byte limit is on
the composed (CR LF) form: 254 bytes ended by a bare LF are accepted, 255 are `TooMuchData(1)` -/
theorem banner_line_feed_and_limit :
    parseBanner [0x53, 0x53, 0x48, 0x2d, 0x32, 0x2e, 0x30, 0x2d, 0x78, 0x0a, 0x0a] =
      .ok (⟨2, 0, ⟨"SshSoftwareVersionUnparsed", some [0x78]⟩, none⟩, 10) ∧
    (parseBanner ([0x53, 0x53, 0x48, 0x2d, 0x32, 0x2e, 0x30, 0x2d] ++ List.replicate 245 0x78 ++ [0x0a])).toOption.map (·.2) =
      some 254 ∧
    parseBanner ([0x53, 0x53, 0x48, 0x2d, 0x32, 0x2e, 0x30, 0x2d] ++ List.replicate 246 0x78 ++ [0x0a]) =
      .error (.tooMuch 1) := by decide +kernel

/-- FULL statement (C04 for the banner): every proper prefix of a composed identification string is
rejected as not enough data with `1 ≤ m ≤` really missing -/
def banner_prefix_reject_full : Prop :=
  ∀ (b : Banner) (bytes : Bytes), composeBanner b = .ok bytes → ∀ k, k < bytes.length →
    ∃ m : Nat, parseBanner (bytes.take k) = .error (.notEnough m) ∧ 1 ≤ m ∧ m ≤ bytes.length - k

/-- false, and pinned by the repository's own tests (`b'SSH-2.0-software_version\r'` must raise
`InvalidValue`): a prefix without its line feed is an invalid value, not "not enough data" — a reader
has to delimit the banner by its line end.  `SSH-2.0-x` (9 of the 11 bytes of `SSH-2.0-x\r\n`): -/
theorem banner_prefix_reject_full_fails : ¬ banner_prefix_reject_full := by
  intro h
  have hc : composeBanner ⟨2, 0, ⟨"SshSoftwareVersionUnparsed", some [0x78]⟩, none⟩ =
      .ok [0x53, 0x53, 0x48, 0x2d, 0x32, 0x2e, 0x30, 0x2d, 0x78, 0x0d, 0x0a] := by decide +kernel
  obtain ⟨m, hm, _, _⟩ := h _ _ hc 9 (by decide)
  have hp : parseBanner (([0x53, 0x53, 0x48, 0x2d, 0x32, 0x2e, 0x30, 0x2d, 0x78, 0x0d, 0x0a] : Bytes).take 9) =
      .error .invalidValue := by decide +kernel
  rw [hp] at hm
  cases hm

/-- what does hold: the prefixes shorter than three bytes are `NotEnoughData(3 - k)` -/
theorem banner_prefix_reject_partial (b : Banner) (bytes : Bytes) (h : composeBanner b = .ok bytes) (k : Nat)
    (hk : k < 3) :
    ∃ m : Nat, parseBanner (bytes.take k) = .error (.notEnough m) ∧ 1 ≤ m ∧ m ≤ bytes.length - k :=
  banner_prefix_partial b bytes h k hk

/-! ### non-vacuity -/

-- "OpenSSH-like" text that no vendor class claims, with a two-word comment
example : bannerTextOk [0x78, 0x5f, 0x39] (some [0x61, 0x20, 0x62]) = true ∧
    parseSoftwareVersion [0x78, 0x5f, 0x39] = .ok ⟨"SshSoftwareVersionUnparsed", some [0x78, 0x5f, 0x39]⟩ := by
  decide +kernel

example : padLen 0 = 11 ∧ padLen 3 = 8 ∧ padLen 7 = 4 ∧ padLen 35000 = 11 := by decide

-- a list with two known names and an unknown one is inside the round-trip domain
example : nameListOk Gen.Ssh.SshKexAlgorithm [.known 0, .other [0x66, 0x6f, 0x6f], .known 5] = true := by
  decide +kernel
-- a `str` that shadows a member's code is outside it
example : nameListOk Gen.Ssh.SshCompressionAlgorithm [.other [0x6e, 0x6f, 0x6e, 0x65]] = false := by decide +kernel
example : parseNameList Gen.Ssh.SshCompressionAlgorithm [0, 0, 0, 8, 0x6e, 0x6f, 0x6e, 0x65, 0x2c, 0x66, 0x6f, 0x6f, 9] =
    .ok ([.known 3, .other [0x66, 0x6f, 0x6f]], 12) := by decide +kernel

/-- a concrete well-formed KEXINIT (known and unknown names, an empty list, a language tag `en-US`) -/
def sampleKexInit : KexInit :=
  ⟨List.replicate 16 7, [.known 0, .other [0x78, 0x40, 0x79]], [.known 4], [.known 0, .known 1], [.known 0], [.known 2],
    [], [.known 1], [.known 1, .known 0], [[[0x65, 0x6e], [0x55, 0x53]]], [], false, 0⟩

example : kexInitOk sampleKexInit = true := by decide +kernel
example : (Spec.Ssh.encodeKexInit (specOf sampleKexInit)).length + 12 < 2 ^ 32 := by decide +kernel
example : MpintOk 65537 := ⟨4, by decide, by decide⟩
example : MpintOk (2 ^ 2047 + 12345) := ⟨300, by decide, by decide +kernel⟩
example : (recordCodec (dhInitCodec 30)).compose ((), [1, 2, 3]) =
    .ok [0, 0, 0, 20, 11, 30, 0, 0, 0, 3, 1, 2, 3, 0, 0, 0, 0, 0, 0, 0, 0, 0, 0, 0] := by decide +kernel

end Cp.C07
