import CpProofs.Ssl2
/-
  C03 for the SSL 2.0 record layer — reported consumed length and self-delimitation.

  What holds for every input: 0 < n ≤ |input|; n = header + 1 + |message| + padding (the message's
  OWN length, read from its inner length fields).
  What does NOT hold on the real code: `record_length` is used only for the
  `record_length > unparsed_length` check, the message parser then runs on the whole rest of the
  buffer.  So n is not tied to the declared length, and when the header declares MORE than was
  consumed the result depends on bytes beyond the consumed ones.  Both full-strength statements are
  kept below as `def … : Prop`, refuted with concrete witnesses, and proved under the hypothesis that
  separates the good inputs (every composed record is one).  Confining the message to
  `record_length` is not possible without breaking the pinned unit test
  `SslRecord.parse_exact_size(b'\x80\x00\xff')` ("0xff is not a valid SslMessageType"), which reads
  the type byte beyond a declared length of 0.
-/
namespace Cp.C03Ssl2
open Cp Cp.Codec Cp.Ssl2

theorem sslRecord_lenBound : LenBound recordCodec := record_lenBound
theorem sslRecord_positive : Positive recordCodec := record_positive

/-- the consumed length, exactly: header (2 or 3) + type byte + the message's own length + the
declared padding; the message accepted is constructible and the declared length was available -/
theorem sslRecord_consumed (bs : Bytes) (r : Record) (n : Nat) (h : parseRecord bs = .ok (r, n)) :
    r.message.wf ∧ n = headerSize bs + 1 + r.message.size + declaredPadding bs ∧ n ≤ bs.length ∧
      declaredLength bs ≤ bs.length - headerSize bs := record_consumed h

/-! #### n equals the length the frame header declares -/

/-- full strength — FALSE on the real code -/
def ssl2_consumes_declared_full : Prop :=
  ∀ bs r n, parseRecord bs = .ok (r, n) → n = headerSize bs + declaredLength bs

/-- witness `80 00 | 00 | 00 01`: declared 2 + 0, consumed 5 -/
theorem ssl2_consumes_declared_full_fails : ¬ ssl2_consumes_declared_full := not_consumes_declared

/-- partial: whenever message and padding fill the declared record length exactly
(i.e. the message consumed `record_length - 1 - padding` bytes) — and only then -/
theorem ssl2_consumes_declared_partial (bs : Bytes) (r : Record) (n : Nat) (h : parseRecord bs = .ok (r, n)) :
    n = headerSize bs + declaredLength bs ↔ 1 + r.message.size + declaredPadding bs = declaredLength bs :=
  record_declared_iff h

/-- partial: every record produced by `composeRecord`, followed by anything -/
theorem ssl2_consumes_declared_composed (r : Record) (hr : r.wf) (b : Bytes) (hb : composeRecord r = .ok b)
    (s : Bytes) (r' : Record) (n : Nat) (h : parseRecord (b ++ s) = .ok (r', n)) :
    r' = r ∧ n = b.length ∧ n = headerSize (b ++ s) + declaredLength (b ++ s) :=
  composed_consumes_declared hr hb s h

/-! #### the result depends on the consumed bytes only -/

/-- full strength — FALSE on the real code -/
def ssl2_selfDelim_full : Prop := SelfDelim recordCodec

/-- witness `80 05 | 00 | 00 01` + `ff ff`: n = 5, but the first five bytes alone give NotEnoughData(2) -/
theorem ssl2_selfDelim_full_fails : ¬ ssl2_selfDelim_full := not_selfDelim

/-- partial: whenever the header declares no more than was consumed (in particular when it declares
exactly what was consumed: every composed record) -/
theorem ssl2_selfDelim_partial (bs : Bytes) (r : Record) (n : Nat) (h : parseRecord bs = .ok (r, n))
    (hd : headerSize bs + declaredLength bs ≤ n) (s : Bytes) : parseRecord (bs.take n ++ s) = .ok (r, n) :=
  record_selfDelim_of_declared_le h hd s

/-! #### the message classes are self-delimiting and length-exact without exception -/

theorem sslErrorMessage_lenBound : LenBound errorCodec := error_lenBound
theorem sslHandshakeClientHello_lenBound : LenBound clientHelloCodec := clientHello_lenBound
theorem sslHandshakeServerHello_lenBound : LenBound serverHelloCodec := serverHello_lenBound
theorem sslErrorMessage_selfDelim : SelfDelim errorCodec := error_selfDelim
theorem sslHandshakeClientHello_selfDelim : SelfDelim clientHelloCodec := clientHello_selfDelim
theorem sslHandshakeServerHello_selfDelim : SelfDelim serverHelloCodec := serverHello_selfDelim

/-- the consumed length of a message is the length of its own composition -/
theorem sslMessage_consumed (t : Nat) (bs : Bytes) (m : Msg) (n : Nat) (h : parseMsg t bs = .ok (m, n)) :
    composeMsg m = .ok (encMsg m) ∧ n = (encMsg m).length := msg_consumed_is_size h

/-! non-vacuity and the witnesses, evaluated -/
example : parseRecord declaredWitness = .ok (⟨.error 1⟩, 5) ∧
    headerSize declaredWitness + declaredLength declaredWitness = 2 := ⟨declaredWitness_parse, declaredWitness_header⟩
example : parseRecord selfDelimWitness = .ok (⟨.error 1⟩, 5) ∧
    parseRecord (selfDelimWitness.take 5 ++ []) = .error (.notEnough 2) := ⟨selfDelimWitness_parse, selfDelimWitness_cut⟩
/-- a 3-byte-header record with two bytes of padding satisfies the hypotheses of both partial theorems -/
example : parseRecord [0x00, 0x05, 0x02, 0x00, 0x00, 0x01, 0xaa, 0xbb, 0x77] = .ok (⟨.error 1⟩, 8) ∧
    headerSize [0x00, 0x05, 0x02, 0x00, 0x00, 0x01, 0xaa, 0xbb, 0x77] +
      declaredLength [0x00, 0x05, 0x02, 0x00, 0x00, 0x01, 0xaa, 0xbb, 0x77] = 8 ∧
    declaredPadding [0x00, 0x05, 0x02, 0x00, 0x00, 0x01, 0xaa, 0xbb, 0x77] = 2 := by decide +kernel

end Cp.C03Ssl2
