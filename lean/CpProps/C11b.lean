import CpModel.Prim
import CpProofs.Num
import CpProofs.Enum
import CpProofs.Flags
import CpProofs.Mpint
import CpSpec.Wire
import CpSpec.Mpint
/-
  C11 (second part) — flag sets and multiple-precision integers.
  Flag sets map to the OR of their members and back; fixed-length and SSH multiple-precision
  integers round-trip and the SSH form of EVERY integer is the canonical RFC 4251 one: the shortest
  two's complement (repaired: a negative power of two, `-2^(8k-1)`, used to get a leading `ff`).
-/
namespace Cp.C11
open Cp

/-! ### flag sets -/

/-- A flag class with the pairwise distinct single-bit members `2^e`, `e ∈ es` (declaration order);
a selection `sel` of them in member order; the field holds the bits above `sh` in `k` bytes.
Composing gives exactly `k` bytes that hold the OR — which is the sum — of the shifted members, in
the byte order's digits, and parsing returns exactly the selection (with any trailing bytes). -/
theorem flags_roundtrip (bo : ByteOrder) (k sh : Nat) (es sel : List Nat) (s : Bytes)
    (hn : es.Nodup) (hsub : sel.Sublist es) (hsh : ∀ e ∈ sel, sh ≤ e)
    (hk : validSize k = true) (hw : ∀ e ∈ sel, e - sh < 8 * k) :
    ∃ b, composeFlags bo k sh (sel.map (2 ^ ·)) = .ok b ∧ b.length = k ∧
      b = (if bo.isBig then Spec.toBytesBE k ((sel.map fun e => 2 ^ (e - sh)).sum)
           else Spec.toBytesLE k ((sel.map fun e => 2 ^ (e - sh)).sum)) ∧
      (sel.map fun e => 2 ^ (e - sh)).sum = sel.foldl (fun a e => a ||| 2 ^ (e - sh)) 0 ∧
      parseFlags bo k sh (es.map (2 ^ ·)) (b ++ s) = .ok (sel.map (2 ^ ·), k) := by
  have hnsel : sel.Nodup := hsub.nodup hn
  have hlt := flagWord_lt sh k sel hw
  have hsum := flagWord_eq_sum sh sel hnsel hsh
  refine ⟨encNat bo k (flagWord sh sel), ?_, encNat_length _ _ _, ?_, ?_, ?_⟩
  · exact composeNum_ok hk hlt
  · rw [← hsum]; unfold encNat
    split <;> simp [beBytes_eq_spec, leBytes_eq_spec]
  · rw [← hsum, flagWord_eq_or sh sel hsh]
  · rw [parseFlags_single bo k sh es _ _ _ (parseNum_enc hk hlt s)]
    have : (fun e => (flagWord sh sel <<< sh).testBit e) = fun e => decide (e ∈ sel) := by
      funext e; exact flagWord_shiftLeft_testBit sh sel hsh e
    rw [this, filter_mem_of_sublist hsub hn]

/-- Whatever `parseFlags` returns for single-bit members is the sub-list of the members whose bit is
set in the shifted word, exactly the width is consumed, and bits that belong to no member are
dropped. -/
theorem flags_parse_subset (bo : ByteOrder) (k sh : Nat) (es : List Nat) (rest : Bytes)
    (hits : List Nat) (n : Nat)
    (h : parseFlags bo k sh (es.map (2 ^ ·)) rest = .ok (hits, n)) :
    n = k ∧ hits.Sublist (es.map (2 ^ ·)) ∧
      ∃ v, parseNum bo k rest = .ok (v, k) ∧
        hits = (es.filter fun e => (v <<< sh).testBit e).map (2 ^ ·) ∧
        (∀ x ∈ hits, ∃ e ∈ es, x = 2 ^ e ∧ (v <<< sh).testBit e = true) ∧
        (∀ e ∈ es, (v <<< sh).testBit e = true → 2 ^ e ∈ hits) := by
  cases hp : parseNum bo k rest with
  | error e => rw [parseFlags_error bo k sh _ rest e hp] at h; simp at h
  | ok r =>
    obtain ⟨v, m⟩ := r
    have hm := (parseNum_ok_inv hp).1
    subst hm
    rw [parseFlags_single bo m sh es rest v m hp] at h
    simp only [Except.ok.injEq, Prod.mk.injEq] at h
    obtain ⟨h1, h2⟩ := h
    subst h1; subst h2
    refine ⟨rfl, (List.filter_sublist).map _, v, rfl, rfl, ?_, ?_⟩
    · intro x hx
      obtain ⟨e, he, rfl⟩ := List.mem_map.mp hx
      exact ⟨e, (List.mem_filter.mp he).1, rfl, (List.mem_filter.mp he).2⟩
    · intro e he hb
      exact List.mem_map.mpr ⟨e, List.mem_filter.mpr ⟨he, hb⟩, rfl⟩

/-- Parsing flags with single-bit members fails only when reading the fixed-width number fails
(short buffer or unsupported width); no bit pattern is rejected. -/
theorem flags_parse_no_crash (bo : ByteOrder) (k sh : Nat) (es : List Nat) (rest : Bytes) :
    (∃ v, parseNum bo k rest = .ok (v, k) ∧ ∃ hits, parseFlags bo k sh (es.map (2 ^ ·)) rest = .ok (hits, k)) ∨
    (∃ e, parseNum bo k rest = .error e ∧ parseFlags bo k sh (es.map (2 ^ ·)) rest = .error e) := by
  cases hp : parseNum bo k rest with
  | error e => exact .inr ⟨e, rfl, parseFlags_error bo k sh _ rest e hp⟩
  | ok r =>
    obtain ⟨v, m⟩ := r
    have hm := (parseNum_ok_inv hp).1
    subst hm
    exact .inl ⟨v, rfl, _, parseFlags_single bo m sh es rest v m hp⟩

/-- For arbitrary (also multi-bit or zero-valued) members: a returned value is a non-zero member
value, so a zero-valued member is never returned. -/
theorem flags_parse_nonzero (bo : ByteOrder) (k sh : Nat) (members : List Nat) (rest : Bytes)
    (hits : List Nat) (n : Nat) (h : parseFlags bo k sh members rest = .ok (hits, n)) :
    n = k ∧ 0 ∉ hits ∧ ∀ x ∈ hits, x ∈ members := by
  obtain ⟨h1, h2⟩ := parseFlags_ok_inv bo k sh members rest hits n h
  exact ⟨h1, fun h0 => (h2 0 h0).1 rfl, fun x hx => (h2 x hx).2⟩

/-! ### fixed-length multiple-precision integers -/

/-- A non-negative integer that fits `len` bytes composes to exactly its `len` big-endian digits and
parses back, with any trailing bytes. -/
theorem mpint_fixed_roundtrip (v len : Nat) (s : Bytes) (hv : v < 256 ^ len) :
    ∃ b, composeMpint (v : Int) len = .ok b ∧ b.length = len ∧ b = Spec.toBytesBE len v ∧
      parseMpint len (b ++ s) = .ok ((v : Int), len) := by
  have hle : 256 ^ len ≤ 256 ^ (4 * len) := Nat.pow_le_pow_right (by decide) (by omega)
  have hcore := composeMpintCore_nonneg (v := v) (words := len) (by omega)
  have hlen := (minBytesBE_length_le_iff v len).mpr hv
  refine ⟨beBytes len v, ?_, beBytes_length _ _, beBytes_eq_spec _ _, ?_⟩
  · unfold composeMpint
    have hg : ¬ (bitLength (v : Int) > 8 * len) := by rw [bitLength_gt_iff]; omega
    have h0 : ¬ ((v : Int) < 0) := by omega
    have h1 : ¬ (len < (Spec.minBytesBE v).length) := by omega
    simp only [hg, hcore, h1, h0, if_false]
    rw [pad_minBytesBE hv]
  · have := parseMpint_append (beBytes len v) s
    rw [beBytes_length, natOfBE_beBytes, Nat.mod_eq_of_lt hv] at this
    exact this

/-- A non-negative value that does not fit `len` bytes is rejected, whatever its size (after the
repair: values of `2^(32*len)` and above used to be reduced modulo `2^(32*len)` silently). -/
theorem mpint_fixed_rejects (v len : Nat) (hv : 256 ^ len ≤ v) :
    composeMpint (v : Int) len = .error .invalidValue := by
  unfold composeMpint
  rw [if_pos ((bitLength_gt_iff v len).mpr hv)]

/-- The exact behaviour of the fixed-length composer on every non-negative integer: the `len`
big-endian digits when the value fits, an invalid-value error otherwise — never a truncation. -/
theorem mpint_fixed_compose_eq (v len : Nat) :
    composeMpint (v : Int) len =
      if v < 256 ^ len then .ok (Spec.toBytesBE len v) else .error .invalidValue := by
  split
  · next h =>
    obtain ⟨b, hb, _, hs, _⟩ := mpint_fixed_roundtrip v len [] h
    rw [hb, hs]
  · next h => exact mpint_fixed_rejects v len (by omega)

/-- The exact behaviour of the fixed-length composer on every NEGATIVE integer: the `len`-byte two's
complement (`int.to_bytes(len, 'big', signed=True)`, the digits of `2^(8 len) + v`) when
`-2^(8 len - 1) ≤ v`, an invalid-value error otherwise.  After the repair the boundary value
`-2^(8 len - 1)` itself is accepted (it used to be an error). -/
theorem mpint_fixed_compose_neg_eq (v : Int) (hv : v < 0) (len : Nat) :
    composeMpint v len =
      if 2 * v.natAbs ≤ 256 ^ len then .ok (Spec.toBytesBE len (256 ^ len - v.natAbs))
      else .error .invalidValue := by
  rw [composeMpint_neg v hv len, beBytes_eq_spec]

/-- … and on EVERY integer, in the specification's words: the `len`-byte two's complement when a
negative value is in the signed range, the `len` unsigned digits when a non-negative value is below
`2^(8 len)`, an invalid-value error in every other case — never a truncation. -/
theorem mpint_fixed_compose_int_eq (v : Int) (len : Nat) :
    composeMpint v len =
      if (v < 0 ∧ -((256 ^ len : Nat) : Int) ≤ 2 * v) ∨ (0 ≤ v ∧ v < ((256 ^ len : Nat) : Int)) then
        .ok (Spec.twosComplementBE len v)
      else .error .invalidValue := by
  by_cases hv : v < 0
  · rw [mpint_fixed_compose_neg_eq v hv len]
    by_cases hf : 2 * v.natAbs ≤ 256 ^ len
    · rw [if_pos hf, if_pos (Or.inl ⟨hv, by omega⟩)]
      unfold Spec.twosComplementBE
      rw [if_pos hv]
      congr 2
      omega
    · rw [if_neg hf, if_neg (by omega)]
  · have hc : v = ((v.natAbs : Nat) : Int) := by omega
    rw [hc, mpint_fixed_compose_eq]
    by_cases hf : v.natAbs < 256 ^ len
    · rw [if_pos hf, if_pos (Or.inr ⟨by omega, by omega⟩)]
      unfold Spec.twosComplementBE
      rw [if_neg (by omega), Int.toNat_natCast]
    · rw [if_neg hf, if_neg (by omega)]

/-- What the known finding below amounts to, for every accepted negative value: the composed bytes
are read back as the unsigned `2^(8 len) + v`, not as `v` (`parse_mpint` has no sign). -/
theorem mpint_fixed_negative_parses_unsigned (v : Int) (hv : v < 0) (len : Nat) (s : Bytes)
    (hf : 2 * v.natAbs ≤ 256 ^ len) :
    ∃ b, composeMpint v len = .ok b ∧ b.length = len ∧
      parseMpint len (b ++ s) = .ok (((256 ^ len : Nat) : Int) + v, len) := by
  refine ⟨beBytes len (256 ^ len - v.natAbs), ?_, beBytes_length _ _, ?_⟩
  · rw [composeMpint_neg v hv len, if_pos hf]
  · have hpos : 0 < 256 ^ len := Nat.pow_pos (by decide)
    have := parseMpint_append (beBytes len (256 ^ len - v.natAbs)) s
    rw [beBytes_length, natOfBE_beBytes, Nat.mod_eq_of_lt (by omega)] at this
    rw [this]
    congr 2
    omega

/-- The round-trip claim over ALL integers; it is false (known finding): `parse_mpint` never sets
the sign, so fixed-length integers round-trip only when non-negative. -/
def mpint_fixed_roundtrip_full : Prop :=
  ∀ (v : Int) (len : Nat) b, composeMpint v len = .ok b → parseMpint len b = .ok (v, len)

/-- `-1` in four bytes composes to `ff ff ff ff`, which parses back as `4294967295`. -/
theorem mpint_fixed_negative_not_roundtrip : ¬ mpint_fixed_roundtrip_full := by
  intro h
  have h1 : composeMpint (-1) 4 = .ok [255, 255, 255, 255] := by decide
  have h2 := h (-1) 4 _ h1
  have h3 : parseMpint 4 [255, 255, 255, 255] = .ok (4294967295, 4) := by decide
  rw [h3] at h2
  exact absurd h2 (by decide)

/-! ### SSH multiple-precision integers -/

/-- Every non-negative integer whose RFC 4251 form fits the 32-bit length field (`v < 2^(8n-1)` for
some `n < 2^32`) round-trips, with any trailing bytes. -/
theorem ssh_mpint_roundtrip_nonneg (v n : Nat) (s : Bytes) (hn : n < 2 ^ 32) (hv : 2 * v < 256 ^ n) :
    ∃ b, composeSshMpint (v : Int) = .ok b ∧
      parseSshMpint (b ++ s) = .ok ((v : Int), b.length) := by
  have hlen := (sshBody_length_le_iff v n).mpr hv
  have hlt : (Spec.sshMpintBodyNonneg v).length < 256 ^ 4 := by
    have : (256 : Nat) ^ 4 = 2 ^ 32 := by decide
    omega
  refine ⟨beBytes 4 (Spec.sshMpintBodyNonneg v).length ++ Spec.sshMpintBodyNonneg v, ?_, ?_⟩
  · rw [composeSshMpint_nonneg, composeNum_ok (by rfl) hlt]; rfl
  · rw [List.append_assoc, parseSshMpint_string_nonneg _ s (by omega) (sshBody_head_lt v),
      natOfBE_sshBody]
    simp

/-- The composed form of a non-negative integer is the canonical one of RFC 4251: the `uint32`
length followed by the minimal big-endian digits (none for zero), preceded by one `00` exactly when
the top bit of the first digit is set. -/
theorem ssh_mpint_minimal_nonneg (v n : Nat) (hn : n < 2 ^ 32) (hv : 2 * v < 256 ^ n) :
    composeSshMpint (v : Int) = .ok (Spec.sshMpintNonneg v) := by
  have hlen := (sshBody_length_le_iff v n).mpr hv
  have hlt : (Spec.sshMpintBodyNonneg v).length < 256 ^ 4 := by
    have : (256 : Nat) ^ 4 = 2 ^ 32 := by decide
    omega
  rw [composeSshMpint_nonneg, composeNum_ok (by rfl) hlt, encNat_network, beBytes_eq_spec]
  rfl

/-- The specification's minimal digits are what the name says: they have the value `v`, no leading
zero digit, and they are the only such byte string. -/
theorem spec_minBytesBE_sound (v : Nat) :
    Spec.fromBytesBE (Spec.minBytesBE v) = v ∧
    (∀ x t, Spec.minBytesBE v = x :: t → x ≠ 0) ∧
    (∀ b : Bytes, Spec.fromBytesBE b = v → (∀ x t, b = x :: t → x ≠ 0) → b = Spec.minBytesBE v) :=
  ⟨natOfBE_minBytesBE v, fun _ _ h => minBytesBE_head_ne_zero h,
    fun b hb h0 => hb ▸ minBytesBE_unique b h0⟩

/-- A non-negative integer whose form would need `2^32` or more data bytes is rejected. -/
theorem ssh_mpint_too_large (v n : Nat) (hn : 2 ^ 32 - 1 ≤ n) (hv : 256 ^ n ≤ 2 * v) :
    composeSshMpint (v : Int) = .error .invalidValue := by
  have hlen : ¬ (Spec.sshMpintBodyNonneg v).length ≤ n := fun h => by
    have := (sshBody_length_le_iff v n).mp h; omega
  rw [composeSshMpint_nonneg]
  unfold composeNum
  have h0 : ¬ (((Spec.sshMpintBodyNonneg v).length : Int) < 0) := by omega
  have h1 : (256 : Nat) ^ 4 ≤ (Spec.sshMpintBodyNonneg v).length := by
    have : (256 : Nat) ^ 4 = 2 ^ 32 := by decide
    omega
  have hvs : validSize 4 = true := rfl
  simp only [hvs, h0, Int.toNat_natCast, ge_iff_le, h1]
  rfl

/-! #### every integer: the shortest two's complement -/

/-- **Canonical form.** Every integer that can be sent at all (it fits the two's complement range of
some `n < 2^32` bytes — the `uint32` length field is the only limit) is composed as the RFC 4251
`mpint`: the `uint32` length and the shortest two's complement (`spec_sshMpint_sound` below says
what that is in elementary terms). -/
theorem ssh_mpint_canonical (v : Int) (n : Nat) (hn : n < 2 ^ 32) (hfit : Spec.FitsSigned v n) :
    composeSshMpint v = .ok (Spec.sshMpint v) := by
  have hlen := minSignedLen_le hfit
  have hlt : (Spec.sshMpintBody v).length < 256 ^ 4 := by
    have : (256 : Nat) ^ 4 = 2 ^ 32 := by decide
    rw [sshMpintBody_length]; omega
  rw [composeSshMpint_eq_spec, composeNum_ok (by rfl) hlt, encNat_network, beBytes_eq_spec]
  rfl

/-- The exact behaviour of the composer on EVERY integer: the canonical `mpint` when the minimal
length fits the `uint32`, an invalid-value error otherwise. -/
theorem ssh_mpint_compose_eq (v : Int) :
    composeSshMpint v =
      if Spec.minSignedLen v < 2 ^ 32 then .ok (Spec.sshMpint v) else .error .invalidValue := by
  split
  · next h => exact ssh_mpint_canonical v _ h (minSignedLen_spec v).1
  · next h =>
    rw [composeSshMpint_eq_spec, sshMpintBody_length]
    unfold composeNum
    have h0 : ¬ ((Spec.minSignedLen v : Int) < 0) := by omega
    have h1 : (256 : Nat) ^ 4 ≤ Spec.minSignedLen v := by
      have : (256 : Nat) ^ 4 = 2 ^ 32 := by decide
      omega
    have hvs : validSize 4 = true := rfl
    simp only [hvs, h0, Int.toNat_natCast, ge_iff_le, h1]
    rfl

/-- What "the shortest two's complement" means, for the specification's data bytes of any integer
`v` (so, by `ssh_mpint_canonical`, for what the composer sends):
* their number `L` is minimal with `-2^(8L-1) ≤ v < 2^(8L-1)` — `v` fits `L` bytes and no fewer;
* zero has no data bytes, and only zero;
* the top bit of the first byte is the sign;
* they denote `v` (big-endian two's complement);
* there is no unnecessary leading byte: the first byte is not `00` before a byte with the top bit
  clear, not `ff` before a byte with the top bit set, and the data is not the single byte `00`. -/
theorem spec_sshMpint_sound (v : Int) :
    (Spec.sshMpintBody v).length = Spec.minSignedLen v ∧
    Spec.FitsSigned v (Spec.sshMpintBody v).length ∧
    (∀ L', L' < (Spec.sshMpintBody v).length → ¬ Spec.FitsSigned v L') ∧
    (Spec.sshMpintBody v = [] ↔ v = 0) ∧
    (∀ x t, Spec.sshMpintBody v = x :: t → (128 ≤ x.toNat ↔ v < 0)) ∧
    Spec.fromBytesSigned (Spec.sshMpintBody v) = v ∧
    (∀ x y t, Spec.sshMpintBody v = x :: y :: t →
      ¬ (x = 0 ∧ y.toNat < 128) ∧ ¬ (x = 0xff ∧ 128 ≤ y.toNat)) ∧
    Spec.sshMpintBody v ≠ [0] := by
  have hlen := sshMpintBody_length v
  have hspec := minSignedLen_spec v
  have hval := fromBytesSigned_sshMpintBody v
  refine ⟨hlen, hlen ▸ hspec.1, hlen ▸ hspec.2, ?_, sshMpintBody_head v, hval, ?_, ?_⟩
  · constructor
    · intro h; rw [h] at hval; exact hval.symm
    · intro h
      have h0 : Spec.FitsSigned v 0 := by subst h; unfold Spec.FitsSigned; simp
      have := minSignedLen_le h0
      exact List.eq_nil_of_length_eq_zero (by omega)
  · intro x y t hb
    refine ⟨fun ⟨hx, hy⟩ => ?_, fun ⟨hx, hy⟩ => ?_⟩
    · subst hx
      have h1 := fromBytesSigned_cons_zero (y :: t) (by
        intro a u hau; simp only [List.cons.injEq] at hau; rw [← hau.1]; exact hy)
      rw [← hb, hval] at h1
      have h2 := fromBytesSigned_fits (y :: t)
      rw [← h1] at h2
      have := minSignedLen_le h2
      rw [← hlen, hb] at this
      simp at this
      omega
    · subst hx
      have h1 := fromBytesSigned_cons_ff y t hy
      rw [← hb, hval] at h1
      have h2 := fromBytesSigned_fits (y :: t)
      rw [← h1] at h2
      have := minSignedLen_le h2
      rw [← hlen, hb] at this
      simp at this
      omega
  · intro hb
    rw [hb] at hval
    have h0 : Spec.FitsSigned v 0 := by rw [← hval]; decide
    have := minSignedLen_le h0
    rw [← hlen, hb] at this
    simp at this

/-- Shortest, stated against ALL byte strings: any data bytes that denote `v` are at least as long
as the specification's, and the only ones of that length are the specification's. -/
theorem spec_sshMpint_shortest (v : Int) (b : Bytes) (hb : Spec.fromBytesSigned b = v) :
    (Spec.sshMpintBody v).length ≤ b.length ∧
    (b.length = (Spec.sshMpintBody v).length → b = Spec.sshMpintBody v) := by
  have hfit := fromBytesSigned_fits b
  rw [hb] at hfit
  refine ⟨by rw [sshMpintBody_length]; exact minSignedLen_le hfit, fun hl => ?_⟩
  exact fromBytesSigned_inj hl (by rw [hb, fromBytesSigned_sshMpintBody])

/-- On non-negative integers the general form is the `00`-rule form used by the SSH key and
key-exchange specifications. -/
theorem spec_sshMpint_nonneg (v : Nat) : Spec.sshMpint (v : Int) = Spec.sshMpintNonneg v :=
  sshMpint_nonneg v

/-- Parsing the canonical form of any integer, with any trailing bytes, gives the integer back and
consumes exactly the form. -/
theorem ssh_mpint_parse_canonical (v : Int) (n : Nat) (s : Bytes) (hn : n < 2 ^ 32)
    (hfit : Spec.FitsSigned v n) :
    parseSshMpint (Spec.sshMpint v ++ s) = .ok (v, (Spec.sshMpint v).length) := by
  have hlen := minSignedLen_le hfit
  have hl : (Spec.sshMpintBody v).length < 2 ^ 32 := by rw [sshMpintBody_length]; omega
  have hp := parseSshMpint_string (Spec.sshMpintBody v) s hl
  rw [fromBytesSigned_sshMpintBody] at hp
  unfold Spec.sshMpint Spec.sshString
  rw [← beBytes_eq_spec, List.append_assoc, hp]
  simp

/-- **Round trip, every integer** within the `uint32` limit, with any trailing bytes; the composed
bytes are the canonical form. -/
theorem ssh_mpint_roundtrip_int (v : Int) (n : Nat) (s : Bytes) (hn : n < 2 ^ 32)
    (hfit : Spec.FitsSigned v n) :
    ∃ b, composeSshMpint v = .ok b ∧ b = Spec.sshMpint v ∧
      parseSshMpint (b ++ s) = .ok (v, b.length) :=
  ⟨_, ssh_mpint_canonical v n hn hfit, rfl, ssh_mpint_parse_canonical v n s hn hfit⟩

/-- What the composer produces for a negative integer: the `L = bit_length(~v) / 8 + 1` byte two's
complement of `v` (top bit set, no padding byte), and `L` is the least length whose range holds `v`
(`2^(8(L-1)) < 2|v| ≤ 2^(8L)`) — after the repair also at `v = -2^(8k-1)` (`-128` is `80`, not
`ff 80`). -/
theorem ssh_mpint_neg_form (v : Int) (n : Nat) (hv : v < 0) (hn : n < 2 ^ 32)
    (hb : 2 * v.natAbs ≤ 256 ^ n) :
    ∃ L, L = bitLength (-v - 1) / 8 + 1 ∧ L ≤ n ∧
      256 ^ (L - 1) < 2 * v.natAbs ∧ 2 * v.natAbs ≤ 256 ^ L ∧
      composeSshMpint v = .ok (Spec.sshString (Spec.toBytesBE L (256 ^ L - v.natAbs))) := by
  have hfit : Spec.FitsSigned v n := by
    have : 0 < 256 ^ n := Nat.pow_pos (by decide)
    unfold Spec.FitsSigned; omega
  have hle := minSignedLen_le hfit
  rw [minSignedLen_neg v hv] at hle
  refine ⟨_, rfl, hle, by simpa using neg_two_mul_gt v hv, neg_two_mul_le v hv, ?_⟩
  rw [ssh_mpint_canonical v n hn hfit]
  unfold Spec.sshMpint
  rw [sshMpintBody_neg v hv, beBytes_eq_spec]

/-- Every negative integer with `-2^(8n-1) ≤ v` for some `n < 2^32` round-trips, with any trailing
bytes (the boundary `v = -2^(8n-1)` included). -/
theorem ssh_mpint_roundtrip_neg (v : Int) (n : Nat) (s : Bytes) (hv : v < 0) (hn : n < 2 ^ 32)
    (hb : 2 * v.natAbs ≤ 256 ^ n) :
    ∃ b, composeSshMpint v = .ok b ∧ parseSshMpint (b ++ s) = .ok (v, b.length) := by
  have hfit : Spec.FitsSigned v n := by
    have : 0 < 256 ^ n := Nat.pow_pos (by decide)
    unfold Spec.FitsSigned; omega
  obtain ⟨b, h1, _, h2⟩ := ssh_mpint_roundtrip_int v n s hn hfit
  exact ⟨b, h1, h2⟩

/-- The full statement in terms of the magnitude: every integer whose magnitude is below `2^(8n-1)`
for some `n < 2^32` round-trips through the SSH `mpint` codec. -/
theorem ssh_mpint_roundtrip (v : Int) (n : Nat) (s : Bytes) (hn : n < 2 ^ 32)
    (hb : 2 * v.natAbs < 256 ^ n) :
    ∃ b, composeSshMpint v = .ok b ∧ parseSshMpint (b ++ s) = .ok (v, b.length) := by
  have hfit : Spec.FitsSigned v n := by unfold Spec.FitsSigned; omega
  obtain ⟨b, h1, _, h2⟩ := ssh_mpint_roundtrip_int v n s hn hfit
  exact ⟨b, h1, h2⟩

/-! #### what the parser accepts, and canonical re-encoding -/

/-- Whatever `parseSshMpint` accepts is an SSH `string` (`uint32` length, that many data bytes) at
the front of the input, consumed exactly, and the value is the integer the data bytes denote. -/
theorem ssh_mpint_parse_sound (data : Bytes) (v : Int) (n : Nat)
    (h : parseSshMpint data = .ok (v, n)) :
    ∃ body, data.take n = Spec.sshString body ∧ n = 4 + body.length ∧ body.length < 2 ^ 32 ∧
      n ≤ data.length ∧ v = Spec.fromBytesSigned body := by
  obtain ⟨body, rest, hd, hl, hn, hv⟩ := parseSshMpint_ok_inv h
  refine ⟨body, ?_, hn, hl, ?_, hv⟩
  · have hlen : (beBytes 4 body.length ++ body).length = n := by simp; omega
    rw [hd, ← List.append_assoc, List.take_left' hlen]
    unfold Spec.sshString
    rw [beBytes_eq_spec]
  · rw [hd]; simp; omega

/-- **Canonical re-encoding.** Any accepted input — canonical or not — re-composes to the canonical
form of its value: never an error, never longer than what was read, identical to what was read
exactly when that had the canonical length, and parsing the result gives the same value again. -/
theorem ssh_mpint_recompose_canonical (data : Bytes) (v : Int) (n : Nat) (s : Bytes)
    (h : parseSshMpint data = .ok (v, n)) :
    composeSshMpint v = .ok (Spec.sshMpint v) ∧
    (Spec.sshMpint v).length ≤ n ∧
    ((Spec.sshMpint v).length = n ↔ data.take n = Spec.sshMpint v) ∧
    parseSshMpint (Spec.sshMpint v ++ s) = .ok (v, (Spec.sshMpint v).length) := by
  obtain ⟨body, htake, hn, hl, hdl, hv⟩ := ssh_mpint_parse_sound data v n h
  have hfit : Spec.FitsSigned v body.length := by rw [hv]; exact fromBytesSigned_fits body
  have hshort := spec_sshMpint_shortest v body hv.symm
  have hlen : (Spec.sshMpint v).length = 4 + (Spec.sshMpintBody v).length := by
    unfold Spec.sshMpint Spec.sshString
    rw [List.length_append, toBytesBE_length]
  refine ⟨ssh_mpint_canonical v _ hl hfit, by omega, ?_, ssh_mpint_parse_canonical v _ s hl hfit⟩
  constructor
  · intro he
    have := hshort.2 (by omega)
    rw [htake, this]
    rfl
  · intro he
    have : (data.take n).length = n := by rw [List.length_take]; omega
    rw [← he, this]

/-- The non-canonical encodings of `v` — the canonical data preceded by `k` redundant sign bytes
(`ff` for a negative value, `00` otherwise) — are accepted with the value `v`, consumed exactly, and
`v` re-composes to the canonical form, which is `k` bytes shorter. -/
theorem ssh_mpint_padded_recompose (v : Int) (k : Nat) (s : Bytes)
    (hl : k + (Spec.sshMpintBody v).length < 2 ^ 32) :
    let input := Spec.sshString (List.replicate k (if v < 0 then (0xff : UInt8) else 0) ++ Spec.sshMpintBody v)
    parseSshMpint (input ++ s) = .ok (v, input.length) ∧
    composeSshMpint v = .ok (Spec.sshMpint v) ∧
    input.length = (Spec.sshMpint v).length + k := by
  intro input
  have hval : Spec.fromBytesSigned
      (List.replicate k (if v < 0 then (0xff : UInt8) else 0) ++ Spec.sshMpintBody v) = v := by
    by_cases hv : v < 0
    · rw [if_pos hv]
      cases hb : Spec.sshMpintBody v with
      | nil =>
        have := (spec_sshMpint_sound v).2.2.2.1.mp hb
        omega
      | cons x t =>
        have hx := (sshMpintBody_head v x t hb).mpr hv
        rw [fromBytesSigned_replicate_ff k x t hx, ← hb, fromBytesSigned_sshMpintBody]
    · rw [if_neg hv, fromBytesSigned_replicate_zero k _ ?_, fromBytesSigned_sshMpintBody]
      intro x t hb
      have := sshMpintBody_head v x t hb
      omega
  have hlen : (List.replicate k (if v < 0 then (0xff : UInt8) else 0) ++ Spec.sshMpintBody v).length
      = k + (Spec.sshMpintBody v).length := by simp
  have hp := parseSshMpint_string _ s (by rw [hlen]; exact hl)
  rw [hval] at hp
  have hin : input.length = 4 + (k + (Spec.sshMpintBody v).length) := by
    show (Spec.sshString _).length = _
    unfold Spec.sshString
    rw [List.length_append, toBytesBE_length, hlen]
  have hout : (Spec.sshMpint v).length = 4 + (Spec.sshMpintBody v).length := by
    unfold Spec.sshMpint Spec.sshString
    rw [List.length_append, toBytesBE_length]
  refine ⟨?_, ?_, by omega⟩
  · show parseSshMpint (Spec.sshString _ ++ s) = _
    rw [hin]
    unfold Spec.sshString
    rw [← beBytes_eq_spec, List.append_assoc, hp, hlen]
  · have hfit := (spec_sshMpint_sound v).2.1
    exact ssh_mpint_canonical v _ (by omega) hfit

/-- An integer that does not fit `2^32 - 1` data bytes is rejected, whatever its sign. -/
theorem ssh_mpint_too_large_int (v : Int) (n : Nat) (hn : 2 ^ 32 - 1 ≤ n) (hv : ¬ Spec.FitsSigned v n) :
    composeSshMpint v = .error .invalidValue := by
  rw [ssh_mpint_compose_eq, if_neg]
  intro hlt
  exact hv (fitsSigned_mono (minSignedLen_spec v).1 (by omega))

/-! ### non-vacuity and concrete instances -/

-- a three-flag set over bits 16, 20, 31 of a class that also has bit 17, field = upper 16 bits
example : composeFlags .big 2 16 [2 ^ 16, 2 ^ 20, 2 ^ 31] = .ok [0x80, 0x11] := by decide
example : parseFlags .big 2 16 [2 ^ 16, 2 ^ 17, 2 ^ 20, 2 ^ 31] [0x80, 0x11, 7]
    = .ok ([2 ^ 16, 2 ^ 20, 2 ^ 31], 2) := by decide
-- bits that belong to no member are dropped
example : parseFlags .little 1 0 [1, 4] [0xff] = .ok ([1, 4], 1) := by decide
-- a multi-bit member hit partially is a crash (`ValueError`) — why single-bit members are assumed
example : parseFlags .big 1 0 [3] [1] = .error (.crash "ValueError") := by decide

example : composeMpint (0x0102 : Nat) 4 = .ok [0, 0, 1, 2] := by decide
example : parseMpint 4 [0, 0, 1, 2, 9] = .ok (0x0102, 4) := by decide
example : composeMpint (256 : Nat) 1 = .error .invalidValue := by decide
-- values of 2^(32*len) and above are rejected too (they used to be truncated silently)
example : composeMpint (2 ^ 32 + 5 : Nat) 1 = .error .invalidValue := by decide
-- negative fixed-length values do not round-trip (the parser never sets the sign)
example : composeMpint (-1) 4 = .ok [255, 255, 255, 255] ∧
    parseMpint 4 [255, 255, 255, 255] = .ok (4294967295, 4) := by decide

example : composeSshMpint 0 = .ok [0, 0, 0, 0] := by decide
example : composeSshMpint 128 = .ok [0, 0, 0, 2, 0x00, 0x80] := by decide
example : Spec.sshMpintNonneg 128 = [0, 0, 0, 2, 0x00, 0x80] := by decide
example : composeSshMpint 0x9a378f9b2e332a7 = .ok [0, 0, 0, 8, 0x09, 0xa3, 0x78, 0xf9, 0xb2, 0xe3, 0x32, 0xa7] := by
  decide
example : parseSshMpint [0, 0, 0, 2, 0x00, 0x80, 1] = .ok (128, 6) := by decide
-- the RFC 4251 §5 examples with a negative value
example : composeSshMpint (-0xdeadbeef) = .ok [0, 0, 0, 5, 0xff, 0x21, 0x52, 0x41, 0x11] := by decide
example : composeSshMpint (-0x1234) = .ok [0, 0, 0, 2, 0xed, 0xcc] := by decide
example : Spec.sshMpint (-0xdeadbeef) = [0, 0, 0, 5, 0xff, 0x21, 0x52, 0x41, 0x11] := by decide
example : Spec.sshMpint (-0x1234) = [0, 0, 0, 2, 0xed, 0xcc] := by decide
-- regression for the repair: the boundaries -2^(8k-1) take k bytes (they took k+1: `ff 80`, `ff 80 00`)
example : composeSshMpint (-128) = .ok [0, 0, 0, 1, 0x80] := by decide
example : composeSshMpint (-32768) = .ok [0, 0, 0, 2, 0x80, 0] := by decide
example : composeSshMpint (-129) = .ok [0, 0, 0, 2, 0xff, 0x7f] := by decide
example : composeSshMpint (-1) = .ok [0, 0, 0, 1, 0xff] := by decide
example : composeSshMpint (-127) = .ok [0, 0, 0, 1, 0x81] := by decide
example : composeSshMpint (-8388608) = .ok [0, 0, 0, 3, 0x80, 0, 0] := by decide
example : Spec.sshMpint (-128) = [0, 0, 0, 1, 0x80] ∧ Spec.sshMpint (-32768) = [0, 0, 0, 2, 0x80, 0] ∧
    Spec.sshMpint (-129) = [0, 0, 0, 2, 0xff, 0x7f] ∧ Spec.sshMpint (-1) = [0, 0, 0, 1, 0xff] ∧
    Spec.sshMpint 0 = [0, 0, 0, 0] ∧ Spec.sshMpint 127 = [0, 0, 0, 1, 0x7f] ∧
    Spec.sshMpint 128 = [0, 0, 0, 2, 0, 0x80] := by decide
example : Spec.minSignedLen (-128) = 1 ∧ Spec.minSignedLen (-129) = 2 ∧ Spec.minSignedLen 127 = 1 ∧
    Spec.minSignedLen 128 = 2 ∧ Spec.minSignedLen 0 = 0 ∧ Spec.minSignedLen (-1) = 1 := by decide
example : parseSshMpint [0, 0, 0, 1, 0x80] = .ok (-128, 5) := by decide
example : parseSshMpint [0, 0, 0, 2, 0x80, 0x00, 7] = .ok (-32768, 6) := by decide
-- non-canonical input (what the code used to send) is accepted and re-composed canonically
example : parseSshMpint [0, 0, 0, 2, 0xff, 0x80] = .ok (-128, 6) ∧
    composeSshMpint (-128) = .ok [0, 0, 0, 1, 0x80] := by decide
example : parseSshMpint [0, 0, 0, 3, 0xff, 0x80, 0x00] = .ok (-32768, 7) := by decide
example : parseSshMpint [0, 0, 0, 3, 0x00, 0x00, 0x05] = .ok (5, 7) ∧
    composeSshMpint 5 = .ok [0, 0, 0, 1, 5] := by decide
-- fixed length: the boundary is accepted in `len` bytes after the repair, one below is not
example : composeMpint (-128) 1 = .ok [0x80] := by decide
example : composeMpint (-129) 1 = .error .invalidValue := by decide
example : composeMpint (-32768) 2 = .ok [0x80, 0] ∧ composeMpint (-32768) 3 = .ok [0xff, 0x80, 0] := by decide
example : composeMpint (-1024) 10 = .ok [0xff, 0xff, 0xff, 0xff, 0xff, 0xff, 0xff, 0xff, 0xfc, 0x00] := by decide

end Cp.C11
