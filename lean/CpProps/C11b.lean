import CpModel.Prim
import CpProofs.Num
import CpProofs.Enum
import CpProofs.Flags
import CpProofs.Mpint
import CpSpec.Wire
import CpSpec.Mpint
/-
  C11 (second part) — flag sets and multiple-precision integers.
  Flag sets map to the OR of their members and back; fixed-length and SSH multiple-precision
  integers round-trip and the SSH form of a non-negative integer is the canonical RFC 4251 one.
-/
namespace Cp.C11
open Cp

/-! ### flag sets -/

/-- A flag class with the pairwise distinct single-bit members `2^e`, `e ∈ es` (declaration order);
a selection `sel` of them in member order; the field holds the bits above `sh` in `k` bytes.
Composing gives exactly `k` bytes that hold the OR — which is the sum — of the shifted members, in
the byte order's digits, and parsing returns exactly the selection (with any trailing bytes). -/
theorem flags_roundtrip (bo : ByteOrder) (k sh : Nat) (es sel : List Nat) (s : Bytes)
    (hn : es.Nodup) (hsub : sel.Sublist es) (hsh : ∀ e ∈ sel, sh ≤ e)
    (hk : validSize k = true) (hw : ∀ e ∈ sel, e - sh < 8 * k) :
    ∃ b, composeFlags bo k sh (sel.map (2 ^ ·)) = .ok b ∧ b.length = k ∧
      b = (if bo.isBig then Spec.toBytesBE k ((sel.map fun e => 2 ^ (e - sh)).sum)
           else Spec.toBytesLE k ((sel.map fun e => 2 ^ (e - sh)).sum)) ∧
      (sel.map fun e => 2 ^ (e - sh)).sum = sel.foldl (fun a e => a ||| 2 ^ (e - sh)) 0 ∧
      parseFlags bo k sh (es.map (2 ^ ·)) (b ++ s) = .ok (sel.map (2 ^ ·), k) := by
  have hnsel : sel.Nodup := hsub.nodup hn
  have hlt := flagWord_lt sh k sel hw
  have hsum := flagWord_eq_sum sh sel hnsel hsh
  refine ⟨encNat bo k (flagWord sh sel), ?_, encNat_length _ _ _, ?_, ?_, ?_⟩
  · exact composeNum_ok hk hlt
  · rw [← hsum]; unfold encNat
    split <;> simp [beBytes_eq_spec, leBytes_eq_spec]
  · rw [← hsum, flagWord_eq_or sh sel hsh]
  · rw [parseFlags_single bo k sh es _ _ _ (parseNum_enc hk hlt s)]
    have : (fun e => (flagWord sh sel <<< sh).testBit e) = fun e => decide (e ∈ sel) := by
      funext e; exact flagWord_shiftLeft_testBit sh sel hsh e
    rw [this, filter_mem_of_sublist hsub hn]

/-- Whatever `parseFlags` returns for single-bit members is the sub-list of the members whose bit is
set in the shifted word, exactly the width is consumed, and bits that belong to no member are
dropped. -/
theorem flags_parse_subset (bo : ByteOrder) (k sh : Nat) (es : List Nat) (rest : Bytes)
    (hits : List Nat) (n : Nat)
    (h : parseFlags bo k sh (es.map (2 ^ ·)) rest = .ok (hits, n)) :
    n = k ∧ hits.Sublist (es.map (2 ^ ·)) ∧
      ∃ v, parseNum bo k rest = .ok (v, k) ∧
        hits = (es.filter fun e => (v <<< sh).testBit e).map (2 ^ ·) ∧
        (∀ x ∈ hits, ∃ e ∈ es, x = 2 ^ e ∧ (v <<< sh).testBit e = true) ∧
        (∀ e ∈ es, (v <<< sh).testBit e = true → 2 ^ e ∈ hits) := by
  cases hp : parseNum bo k rest with
  | error e => rw [parseFlags_error bo k sh _ rest e hp] at h; simp at h
  | ok r =>
    obtain ⟨v, m⟩ := r
    have hm := (parseNum_ok_inv hp).1
    subst hm
    rw [parseFlags_single bo m sh es rest v m hp] at h
    simp only [Except.ok.injEq, Prod.mk.injEq] at h
    obtain ⟨h1, h2⟩ := h
    subst h1; subst h2
    refine ⟨rfl, (List.filter_sublist).map _, v, rfl, rfl, ?_, ?_⟩
    · intro x hx
      obtain ⟨e, he, rfl⟩ := List.mem_map.mp hx
      exact ⟨e, (List.mem_filter.mp he).1, rfl, (List.mem_filter.mp he).2⟩
    · intro e he hb
      exact List.mem_map.mpr ⟨e, List.mem_filter.mpr ⟨he, hb⟩, rfl⟩

/-- Parsing flags with single-bit members fails only when reading the fixed-width number fails
(short buffer or unsupported width); no bit pattern is rejected. -/
theorem flags_parse_no_crash (bo : ByteOrder) (k sh : Nat) (es : List Nat) (rest : Bytes) :
    (∃ v, parseNum bo k rest = .ok (v, k) ∧ ∃ hits, parseFlags bo k sh (es.map (2 ^ ·)) rest = .ok (hits, k)) ∨
    (∃ e, parseNum bo k rest = .error e ∧ parseFlags bo k sh (es.map (2 ^ ·)) rest = .error e) := by
  cases hp : parseNum bo k rest with
  | error e => exact .inr ⟨e, rfl, parseFlags_error bo k sh _ rest e hp⟩
  | ok r =>
    obtain ⟨v, m⟩ := r
    have hm := (parseNum_ok_inv hp).1
    subst hm
    exact .inl ⟨v, rfl, _, parseFlags_single bo m sh es rest v m hp⟩

/-- For arbitrary (also multi-bit or zero-valued) members: a returned value is a non-zero member
value, so a zero-valued member is never returned. -/
theorem flags_parse_nonzero (bo : ByteOrder) (k sh : Nat) (members : List Nat) (rest : Bytes)
    (hits : List Nat) (n : Nat) (h : parseFlags bo k sh members rest = .ok (hits, n)) :
    n = k ∧ 0 ∉ hits ∧ ∀ x ∈ hits, x ∈ members := by
  obtain ⟨h1, h2⟩ := parseFlags_ok_inv bo k sh members rest hits n h
  exact ⟨h1, fun h0 => (h2 0 h0).1 rfl, fun x hx => (h2 x hx).2⟩

/-! ### fixed-length multiple-precision integers -/

/-- A non-negative integer that fits `len` bytes composes to exactly its `len` big-endian digits and
parses back, with any trailing bytes. -/
theorem mpint_fixed_roundtrip (v len : Nat) (s : Bytes) (hv : v < 256 ^ len) :
    ∃ b, composeMpint (v : Int) len = .ok b ∧ b.length = len ∧ b = Spec.toBytesBE len v ∧
      parseMpint len (b ++ s) = .ok ((v : Int), len) := by
  have hle : 256 ^ len ≤ 256 ^ (4 * len) := Nat.pow_le_pow_right (by decide) (by omega)
  have hcore := composeMpintCore_nonneg (v := v) (words := len) (by omega)
  have hlen := (minBytesBE_length_le_iff v len).mpr hv
  refine ⟨beBytes len v, ?_, beBytes_length _ _, beBytes_eq_spec _ _, ?_⟩
  · unfold composeMpint
    have hg : ¬ (bitLength (v : Int) > 8 * len) := by rw [bitLength_gt_iff]; omega
    have h0 : ¬ ((v : Int) < 0) := by omega
    have h1 : ¬ (len < (Spec.minBytesBE v).length) := by omega
    simp only [hg, hcore, h1, h0, if_false]
    rw [pad_minBytesBE hv]
  · have := parseMpint_append (beBytes len v) s
    rw [beBytes_length, natOfBE_beBytes, Nat.mod_eq_of_lt hv] at this
    exact this

/-- A non-negative value that does not fit `len` bytes is rejected, whatever its size (after the
repair: values of `2^(32*len)` and above used to be reduced modulo `2^(32*len)` silently). -/
theorem mpint_fixed_rejects (v len : Nat) (hv : 256 ^ len ≤ v) :
    composeMpint (v : Int) len = .error .invalidValue := by
  unfold composeMpint
  rw [if_pos ((bitLength_gt_iff v len).mpr hv)]

/-- The exact behaviour of the fixed-length composer on every non-negative integer: the `len`
big-endian digits when the value fits, an invalid-value error otherwise — never a truncation. -/
theorem mpint_fixed_compose_eq (v len : Nat) :
    composeMpint (v : Int) len =
      if v < 256 ^ len then .ok (Spec.toBytesBE len v) else .error .invalidValue := by
  split
  · next h =>
    obtain ⟨b, hb, _, hs, _⟩ := mpint_fixed_roundtrip v len [] h
    rw [hb, hs]
  · next h => exact mpint_fixed_rejects v len (by omega)

/-- The round-trip claim over ALL integers; it is false (known finding): `parse_mpint` never sets
the sign, so fixed-length integers round-trip only when non-negative. -/
def mpint_fixed_roundtrip_full : Prop :=
  ∀ (v : Int) (len : Nat) b, composeMpint v len = .ok b → parseMpint len b = .ok (v, len)

/-- `-1` in four bytes composes to `ff ff ff ff`, which parses back as `4294967295`. -/
theorem mpint_fixed_negative_not_roundtrip : ¬ mpint_fixed_roundtrip_full := by
  intro h
  have h1 : composeMpint (-1) 4 = .ok [255, 255, 255, 255] := by decide
  have h2 := h (-1) 4 _ h1
  have h3 : parseMpint 4 [255, 255, 255, 255] = .ok (4294967295, 4) := by decide
  rw [h3] at h2
  exact absurd h2 (by decide)

/-! ### SSH multiple-precision integers -/

/-- Every non-negative integer whose RFC 4251 form fits the 32-bit length field (`v < 2^(8n-1)` for
some `n < 2^32`) round-trips, with any trailing bytes. -/
theorem ssh_mpint_roundtrip_nonneg (v n : Nat) (s : Bytes) (hn : n < 2 ^ 32) (hv : 2 * v < 256 ^ n) :
    ∃ b, composeSshMpint (v : Int) = .ok b ∧
      parseSshMpint (b ++ s) = .ok ((v : Int), b.length) := by
  have hlen := (sshBody_length_le_iff v n).mpr hv
  have hlt : (Spec.sshMpintBodyNonneg v).length < 256 ^ 4 := by
    have : (256 : Nat) ^ 4 = 2 ^ 32 := by decide
    omega
  refine ⟨beBytes 4 (Spec.sshMpintBodyNonneg v).length ++ Spec.sshMpintBodyNonneg v, ?_, ?_⟩
  · rw [composeSshMpint_nonneg, composeNum_ok (by rfl) hlt]; rfl
  · rw [List.append_assoc, parseSshMpint_string_nonneg _ s (by omega) (sshBody_head_lt v),
      natOfBE_sshBody]
    simp

/-- The composed form of a non-negative integer is the canonical one of RFC 4251: the `uint32`
length followed by the minimal big-endian digits (none for zero), preceded by one `00` exactly when
the top bit of the first digit is set. -/
theorem ssh_mpint_minimal_nonneg (v n : Nat) (hn : n < 2 ^ 32) (hv : 2 * v < 256 ^ n) :
    composeSshMpint (v : Int) = .ok (Spec.sshMpintNonneg v) := by
  have hlen := (sshBody_length_le_iff v n).mpr hv
  have hlt : (Spec.sshMpintBodyNonneg v).length < 256 ^ 4 := by
    have : (256 : Nat) ^ 4 = 2 ^ 32 := by decide
    omega
  rw [composeSshMpint_nonneg, composeNum_ok (by rfl) hlt, encNat_network, beBytes_eq_spec]
  rfl

/-- The specification's minimal digits are what the name says: they have the value `v`, no leading
zero digit, and they are the only such byte string. -/
theorem spec_minBytesBE_sound (v : Nat) :
    Spec.fromBytesBE (Spec.minBytesBE v) = v ∧
    (∀ x t, Spec.minBytesBE v = x :: t → x ≠ 0) ∧
    (∀ b : Bytes, Spec.fromBytesBE b = v → (∀ x t, b = x :: t → x ≠ 0) → b = Spec.minBytesBE v) :=
  ⟨natOfBE_minBytesBE v, fun _ _ h => minBytesBE_head_ne_zero h,
    fun b hb h0 => hb ▸ minBytesBE_unique b h0⟩

/-- A non-negative integer whose form would need `2^32` or more data bytes is rejected. -/
theorem ssh_mpint_too_large (v n : Nat) (hn : 2 ^ 32 - 1 ≤ n) (hv : 256 ^ n ≤ 2 * v) :
    composeSshMpint (v : Int) = .error .invalidValue := by
  have hlen : ¬ (Spec.sshMpintBodyNonneg v).length ≤ n := fun h => by
    have := (sshBody_length_le_iff v n).mp h; omega
  rw [composeSshMpint_nonneg]
  unfold composeNum
  have h0 : ¬ (((Spec.sshMpintBodyNonneg v).length : Int) < 0) := by omega
  have h1 : (256 : Nat) ^ 4 ≤ (Spec.sshMpintBodyNonneg v).length := by
    have : (256 : Nat) ^ 4 = 2 ^ 32 := by decide
    omega
  have hvs : validSize 4 = true := rfl
  simp only [hvs, h0, Int.toNat_natCast, ge_iff_le, h1]
  rfl

/-- What the composer produces for a negative integer: the `L = bit_length(|v|) / 8 + 1` byte two's
complement of `v` (top bit set, no padding byte).  This is a valid two's complement form but not
always the shortest one (`-128` is sent as `ff 80`, see the example below). -/
theorem ssh_mpint_neg_form (v : Int) (n : Nat) (hv : v < 0) (hn : n < 2 ^ 32)
    (hb : 2 * v.natAbs < 256 ^ n) :
    ∃ L, L = bitLength v / 8 + 1 ∧ L ≤ n ∧ v.natAbs < 256 ^ L ∧
      composeSshMpint v = .ok (Spec.sshString (Spec.toBytesBE L (256 ^ L - v.natAbs))) := by
  have h1 := two_pow_bitLength_le v (by omega)
  have h2 : 2 ^ bitLength v < 2 ^ (8 * n) := by rw [← pow_256_eq]; omega
  have h3 := (Nat.pow_lt_pow_iff_right (by decide)).mp h2
  have h4 := neg_two_mul_lt v
  obtain ⟨x, t, hm, hx, hc⟩ := composeSshMpint_neg v hv _ rfl
  refine ⟨bitLength v / 8 + 1, rfl, by omega, by omega, ?_⟩
  have hlt : bitLength v / 8 + 1 < 256 ^ 4 := by
    have : (256 : Nat) ^ 4 = 2 ^ 32 := by decide
    omega
  rw [hc, composeNum_ok (by rfl) hlt, encNat_network]
  unfold Spec.sshString
  rw [← beBytes_eq_spec, ← beBytes_eq_spec, beBytes_length]
  rfl

/-- Every negative integer with `|v| < 2^(8n-1)` for some `n < 2^32` round-trips, with any trailing
bytes. -/
theorem ssh_mpint_roundtrip_neg (v : Int) (n : Nat) (s : Bytes) (hv : v < 0) (hn : n < 2 ^ 32)
    (hb : 2 * v.natAbs < 256 ^ n) :
    ∃ b, composeSshMpint v = .ok b ∧ parseSshMpint (b ++ s) = .ok (v, b.length) := by
  have h1 := two_pow_bitLength_le v (by omega)
  have h2 : 2 ^ bitLength v < 2 ^ (8 * n) := by rw [← pow_256_eq]; omega
  have h3 := (Nat.pow_lt_pow_iff_right (by decide)).mp h2
  have h4 := neg_two_mul_lt v
  obtain ⟨x, t, hm, hx, hc⟩ := composeSshMpint_neg v hv _ rfl
  generalize hL : bitLength v / 8 + 1 = L at *
  have hlt : L < 256 ^ 4 := by
    have : (256 : Nat) ^ 4 = 2 ^ 32 := by decide
    omega
  have hposlt : 256 ^ L - v.natAbs < 256 ^ L := by
    have : 0 < 256 ^ L := Nat.pow_pos (by decide)
    omega
  refine ⟨beBytes 4 L ++ beBytes L (256 ^ L - v.natAbs), ?_, ?_⟩
  · rw [hc, composeNum_ok (by rfl) hlt]; rfl
  · have hp := parseSshMpint_string_neg (beBytes L (256 ^ L - v.natAbs)) s
      (by rw [beBytes_length]; omega) x t hm hx
    rw [beBytes_length, natOfBE_beBytes, Nat.mod_eq_of_lt hposlt] at hp
    rw [List.append_assoc, hp]
    have hval : (((256 ^ L - v.natAbs : Nat) : Int) - ((256 ^ L : Nat) : Int)) = v := by omega
    rw [hval]
    simp

/-- The full statement: every integer whose magnitude is below `2^(8n-1)` for some `n < 2^32`
round-trips through the SSH `mpint` codec. -/
theorem ssh_mpint_roundtrip (v : Int) (n : Nat) (s : Bytes) (hn : n < 2 ^ 32)
    (hb : 2 * v.natAbs < 256 ^ n) :
    ∃ b, composeSshMpint v = .ok b ∧ parseSshMpint (b ++ s) = .ok (v, b.length) := by
  by_cases hv : v < 0
  · exact ssh_mpint_roundtrip_neg v n s hv hn hb
  · have : v = ((v.natAbs : Nat) : Int) := by omega
    rw [this]
    exact ssh_mpint_roundtrip_nonneg v.natAbs n s hn (by omega)

/-! ### non-vacuity and concrete instances -/

-- a three-flag set over bits 16, 20, 31 of a class that also has bit 17, field = upper 16 bits
example : composeFlags .big 2 16 [2 ^ 16, 2 ^ 20, 2 ^ 31] = .ok [0x80, 0x11] := by decide
example : parseFlags .big 2 16 [2 ^ 16, 2 ^ 17, 2 ^ 20, 2 ^ 31] [0x80, 0x11, 7]
    = .ok ([2 ^ 16, 2 ^ 20, 2 ^ 31], 2) := by decide
-- bits that belong to no member are dropped
example : parseFlags .little 1 0 [1, 4] [0xff] = .ok ([1, 4], 1) := by decide
-- a multi-bit member hit partially is a crash (`ValueError`) — why single-bit members are assumed
example : parseFlags .big 1 0 [3] [1] = .error (.crash "ValueError") := by decide

example : composeMpint (0x0102 : Nat) 4 = .ok [0, 0, 1, 2] := by decide
example : parseMpint 4 [0, 0, 1, 2, 9] = .ok (0x0102, 4) := by decide
example : composeMpint (256 : Nat) 1 = .error .invalidValue := by decide
-- values of 2^(32*len) and above are rejected too (they used to be truncated silently)
example : composeMpint (2 ^ 32 + 5 : Nat) 1 = .error .invalidValue := by decide
-- negative fixed-length values do not round-trip (the parser never sets the sign)
example : composeMpint (-1) 4 = .ok [255, 255, 255, 255] ∧
    parseMpint 4 [255, 255, 255, 255] = .ok (4294967295, 4) := by decide

example : composeSshMpint 0 = .ok [0, 0, 0, 0] := by decide
example : composeSshMpint 128 = .ok [0, 0, 0, 2, 0x00, 0x80] := by decide
example : Spec.sshMpintNonneg 128 = [0, 0, 0, 2, 0x00, 0x80] := by decide
example : composeSshMpint 0x9a378f9b2e332a7 = .ok [0, 0, 0, 8, 0x09, 0xa3, 0x78, 0xf9, 0xb2, 0xe3, 0x32, 0xa7] := by
  decide
example : parseSshMpint [0, 0, 0, 2, 0x00, 0x80, 1] = .ok (128, 6) := by decide
example : composeSshMpint (-32768) = .ok [0, 0, 0, 3, 0xff, 0x80, 0x00] := by decide
example : parseSshMpint [0, 0, 0, 3, 0xff, 0x80, 0x00] = .ok (-32768, 7) := by decide
example : composeSshMpint (-0xdeadbeef) = .ok [0, 0, 0, 5, 0xff, 0x21, 0x52, 0x41, 0x11] := by decide
example : composeSshMpint (-0x1234) = .ok [0, 0, 0, 2, 0xed, 0xcc] := by decide
-- RFC 4251 gives `00 00 00 01 80` for -128; the parser accepts it, the composer sends `ff 80`
example : composeSshMpint (-128) = .ok [0, 0, 0, 2, 0xff, 0x80] := by decide
example : parseSshMpint [0, 0, 0, 1, 0x80] = .ok (-128, 5) := by decide

end Cp.C11
