import CpProofs.Tls2
/-
  C02 — parsing untrusted bytes fails only with the documented parse errors.
  In the model every Python operation that can raise something else has a `crash` branch;
  `NoCrash c` says no input reaches one.
-/
namespace Cp.C02
open Cp Cp.Codec Cp.Tls

theorem num (bo : ByteOrder) {k : Nat} (hk : validSize k = true) : NoCrash (Codec.num bo k) :=
  num_noCrash bo hk

theorem bytesPrefixed (bo : ByteOrder) {k : Nat} (hk : validSize k = true) :
    NoCrash (Codec.bytesPrefixed bo k) := bytesPrefixed_noCrash bo hk

/-- `parse_raw` never crashes — including for a negative size (repaired: `InvalidValue`) -/
theorem parseRaw (size : Int) (rest : Bytes) (k : String) : Cp.parseRaw size rest ≠ .error (.crash k) :=
  parseRaw_no_crash size rest k

theorem codedEnum (codes : List Nat) {k : Nat} (hk : validSize k = true) : NoCrash (codedStrict codes k) :=
  codedStrict_noCrash codes hk

theorem intEnumConverter (members : List Nat) {k : Nat} (hk : validSize k = true) :
    NoCrash (intEnum members k) := intEnum_noCrash members hk

theorem seq {α β : Type} {a : Codec α} {b : Codec β} (ha : NoCrash a) (hb : NoCrash b) :
    NoCrash (Codec.seq a b) := seq_noCrash ha hb

theorem framed {α : Type} {F : Codec Bytes} {inner : Codec α} (hF : NoCrash F) (hi : NoCrash inner) :
    NoCrash (Codec.framed F inner) := framed_noCrash hF hi

theorem tlsProtocolVersion : NoCrash versionCodec := version_noCrash
theorem tlsRecord : NoCrash recordCodec := record_noCrash
theorem tlsAlert : NoCrash alertCodec := alert_noCrash
theorem tlsChangeCipherSpec : NoCrash ccsCodec := ccs_noCrash

/-- every handshake message class whose payload parser is crash-free -/
theorem tlsHandshakeFraming {α : Type} (typ : Nat) {inner : Codec α} (hi : NoCrash inner) :
    NoCrash (hsFramed typ inner) := hs_noCrash typ hi

theorem tlsServerKeyExchange : NoCrash serverKeyExchangeCodec := serverKeyExchange_noCrash
theorem tlsServerHelloDone : NoCrash serverHelloDoneCodec := serverHelloDone_noCrash
theorem tlsCertificateStatus : NoCrash certificateStatusCodec := certificateStatus_noCrash

/-- `parse_ssh_mpint` on a truncated value is not-enough-data (repaired: it was an IndexError) -/
theorem sshMpint_truncated (rest : Bytes) (h4 : 4 ≤ rest.length)
    (hshort : rest.length < 4 + beVal (rest.take 4)) :
    parseSshMpint rest = .error (.notEnough ((4 + beVal (rest.take 4) - rest.length : Nat) : Int)) := by
  unfold parseSshMpint
  have h1 : ¬ rest.length < 4 := by omega
  simp [h1, hshort]

/-! non-vacuity -/
example : recordCodec.parse [0xff, 3, 3, 0, 0] = .error .invalidValue := by decide +kernel
example : Cp.parseRaw (-2) [1, 2, 3] = .error .invalidValue := by decide

end Cp.C02
