import CpProofs.Codec2
/-
  Laws of the coded-enumeration codecs `codedStrict` and `intEnum`.
-/
namespace Cp
open Cp.Codec

theorem parseCoded_ok_inv {codes : List Nat} {k : Nat} {bs : Bytes} {i n : Nat}
    (h : parseCoded codes k bs = .ok (i, n)) :
    ∃ c, parseNum .network k bs = .ok (c, n) ∧ findCode c codes = some i := by
  unfold parseCoded at h
  cases hp : parseNum .network k bs with
  | error e => simp [hp, bind, Except.bind] at h
  | ok r =>
    obtain ⟨c, m⟩ := r
    simp only [hp, bind, Except.bind] at h
    cases hf : findCode c codes with
    | none => simp [hf] at h
    | some j =>
      simp [hf, pure, Except.pure] at h
      obtain ⟨h1, h2⟩ := h
      subst h1; subst h2
      exact ⟨c, rfl, hf⟩

theorem parseCoded_of_num {codes : List Nat} {k : Nat} {bs : Bytes} {c n i : Nat}
    (hp : parseNum .network k bs = .ok (c, n)) (hf : findCode c codes = some i) :
    parseCoded codes k bs = .ok (i, n) := by
  unfold parseCoded
  simp [hp, bind, Except.bind, hf, pure, Except.pure]

structure TableOk (codes : List Nat) (k : Nat) : Prop where
  size : validSize k = true
  nodup : codes.Nodup
  fits : ∀ c ∈ codes, c < 256 ^ k

theorem codedStrict_roundTrip {codes : List Nat} {k : Nat} (ht : TableOk codes k) :
    RoundTrip (codedStrict codes k) (fun i => i < codes.length) := by
  intro i hi
  have hget : codes[i]? = some codes[i] := List.getElem?_eq_getElem hi
  have hc : codes[i] < 256 ^ k := ht.fits _ (List.getElem_mem hi)
  refine ⟨encNat .network k codes[i], ?_, ?_⟩
  · simp [codedStrict, composeCoded, hget, composeNum_ok ht.size hc]
  · intro s
    simp only [codedStrict, encNat_length]
    exact parseCoded_of_num (parseNum_enc ht.size hc s) (findCode_of_nodup ht.nodup hget)

theorem codedStrict_parseWf (codes : List Nat) (k : Nat) :
    ParseWf (codedStrict codes k) (fun i => i < codes.length) := by
  intro bs i n h
  obtain ⟨c, _, hf⟩ := parseCoded_ok_inv h
  exact findCode_lt hf

theorem codedStrict_lenBound (codes : List Nat) (k : Nat) : LenBound (codedStrict codes k) := by
  intro bs i n h
  obtain ⟨c, hp, _⟩ := parseCoded_ok_inv h
  exact num_lenBound .network k bs c n hp

theorem codedStrict_positive (codes : List Nat) {k : Nat} (hk : 0 < k) : Positive (codedStrict codes k) := by
  intro bs i n h
  obtain ⟨c, hp, _⟩ := parseCoded_ok_inv h
  exact num_positive .network hk bs c n hp

theorem codedStrict_selfDelim (codes : List Nat) (k : Nat) : SelfDelim (codedStrict codes k) := by
  intro bs i n h s
  obtain ⟨c, hp, hf⟩ := parseCoded_ok_inv h
  exact parseCoded_of_num (num_selfDelim .network k bs c n hp s) hf

theorem codedStrict_noCrash (codes : List Nat) {k : Nat} (hk : validSize k = true) :
    NoCrash (codedStrict codes k) := by
  intro bs c
  simp only [codedStrict]
  unfold parseCoded
  cases hp : parseNum .network k bs with
  | error e =>
    simp only [bind, Except.bind]
    intro h; cases h
    exact parseNum_no_crash hk bs c hp
  | ok r =>
    obtain ⟨v, n⟩ := r
    simp only [bind, Except.bind]
    cases hf : findCode v codes <;> simp [pure, Except.pure]

theorem codedStrict_prefixReject {codes : List Nat} {k : Nat} (ht : TableOk codes k) :
    PrefixReject (codedStrict codes k) (fun i => i < codes.length) := by
  intro i b hi hc j hj
  have hget : codes[i]? = some codes[i] := List.getElem?_eq_getElem hi
  have hcl : codes[i] < 256 ^ k := ht.fits _ (List.getElem_mem hi)
  simp only [codedStrict, composeCoded, hget, composeNum_ok ht.size hcl] at hc
  cases hc
  simp only [encNat_length] at hj
  refine ⟨k - j, ?_, by omega, by simp⟩
  have hl : ((encNat .network k codes[i]).take j).length = j := by simp; omega
  simp only [codedStrict]
  unfold parseCoded
  rw [parseNum_short (by omega), hl]
  rfl

/-! ### `intEnum` -/

theorem parseIntEnum_ok_inv {members : List Nat} {k : Nat} {bs : Bytes} {v n : Nat}
    (h : parseIntEnum members k bs = .ok (v, n)) :
    parseNum .network k bs = .ok (v, n) ∧ v ∈ members := by
  unfold parseIntEnum at h
  cases hp : parseNum .network k bs with
  | error e => simp [hp, bind, Except.bind] at h
  | ok r =>
    obtain ⟨c, m⟩ := r
    simp only [hp, bind, Except.bind] at h
    split at h
    · next hm =>
      simp [pure, Except.pure] at h
      obtain ⟨h1, h2⟩ := h
      subst h1; subst h2
      exact ⟨rfl, by simpa using hm⟩
    · simp at h

theorem parseIntEnum_of_num {members : List Nat} {k : Nat} {bs : Bytes} {v n : Nat}
    (hp : parseNum .network k bs = .ok (v, n)) (hm : v ∈ members) :
    parseIntEnum members k bs = .ok (v, n) := by
  unfold parseIntEnum
  simp [hp, bind, Except.bind, hm, pure, Except.pure]

theorem intEnum_roundTrip {members : List Nat} {k : Nat} (hk : validSize k = true)
    (hfit : ∀ v ∈ members, v < 256 ^ k) : RoundTrip (intEnum members k) (fun v => v ∈ members) := by
  intro v hv
  refine ⟨encNat .network k v, composeNum_ok hk (hfit v hv), ?_⟩
  intro s
  simp only [intEnum, encNat_length]
  exact parseIntEnum_of_num (parseNum_enc hk (hfit v hv) s) hv

theorem intEnum_parseWf (members : List Nat) (k : Nat) :
    ParseWf (intEnum members k) (fun v => v ∈ members) :=
  fun _ _ _ h => (parseIntEnum_ok_inv h).2

theorem intEnum_lenBound (members : List Nat) (k : Nat) : LenBound (intEnum members k) :=
  fun bs v n h => num_lenBound .network k bs v n (parseIntEnum_ok_inv h).1

theorem intEnum_positive (members : List Nat) {k : Nat} (hk : 0 < k) : Positive (intEnum members k) :=
  fun bs v n h => num_positive .network hk bs v n (parseIntEnum_ok_inv h).1

theorem intEnum_selfDelim (members : List Nat) (k : Nat) : SelfDelim (intEnum members k) := by
  intro bs v n h s
  obtain ⟨hp, hm⟩ := parseIntEnum_ok_inv h
  exact parseIntEnum_of_num (num_selfDelim .network k bs v n hp s) hm

theorem intEnum_noCrash (members : List Nat) {k : Nat} (hk : validSize k = true) :
    NoCrash (intEnum members k) := by
  intro bs c
  simp only [intEnum]
  unfold parseIntEnum
  cases hp : parseNum .network k bs with
  | error e =>
    simp only [bind, Except.bind]
    intro h; cases h
    exact parseNum_no_crash hk bs c hp
  | ok r =>
    obtain ⟨v, n⟩ := r
    simp only [bind, Except.bind]
    split <;> simp [pure, Except.pure]

theorem intEnum_prefixReject {members : List Nat} {k : Nat} (hk : validSize k = true)
    (hfit : ∀ v ∈ members, v < 256 ^ k) : PrefixReject (intEnum members k) (fun v => v ∈ members) := by
  intro v b hv hc j hj
  simp only [intEnum, composeNum_ok hk (hfit v hv)] at hc
  cases hc
  simp only [encNat_length] at hj
  refine ⟨k - j, ?_, by omega, by simp⟩
  have hl : ((encNat .network k v).take j).length = j := by simp; omega
  simp only [intEnum]
  unfold parseIntEnum
  rw [parseNum_short (by omega), hl]
  rfl

end Cp
