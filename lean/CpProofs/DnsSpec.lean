import CpSpec.Dns
import CpProofs.Mpint
/-
  The RFC-level definitions of `CpSpec/Dns.lean` are consistent: every decoder inverts its encoder
  on the values the RFCs allow.  (Nothing here refers to the model of the code.)
-/
namespace Cp.Spec.Dns
open Cp

theorem toBE_length (k v : Nat) : (toBytesBE k v).length = k := by simp [toBytesBE]

theorem toBE_one (n : Nat) (h : n < 256) : toBytesBE 1 n = [UInt8.ofNat n] := by
  simp [toBytesBE, Nat.mod_eq_of_lt h]

theorem ofNat_toNat' (n : Nat) (h : n < 256) : (UInt8.ofNat n).toNat = n := by
  simp [UInt8.toNat_ofNat', Nat.mod_eq_of_lt h]

theorem fromBE_toBE {k v : Nat} (hv : v < 256 ^ k) : fromBytesBE (toBytesBE k v) = v := by
  have := natOfBE_beBytes k v
  rwa [beBytes_eq_spec, Nat.mod_eq_of_lt hv] at this

theorem toBE_two (v : Nat) : ∃ a b, toBytesBE 2 v = [a, b] :=
  ⟨UInt8.ofNat (v / 256 % 256), UInt8.ofNat (v % 256), by simp [toBytesBE, List.range, List.range.loop]⟩

theorem take_left_of_length {p q : Bytes} {k : Nat} (h : p.length = k) : (p ++ q).take k = p := by
  rw [← h, List.take_left]

theorem drop_left_of_length {p q : Bytes} {k : Nat} (h : p.length = k) : (p ++ q).drop k = q := by
  rw [← h, List.drop_left]

/-! ### names -/

theorem encodeName_cons (l : Bytes) (ls : List Bytes) : encodeName (l :: ls) = encodeLabel l ++ encodeName ls := by
  simp [encodeName, List.append_assoc]

theorem decodeLabels_encode (labels : List Bytes) (h : ∀ l ∈ labels, 1 ≤ l.length ∧ l.length ≤ 63) (s : Bytes) :
    ∀ fuel, labels.length < fuel → decodeLabels fuel (encodeName labels ++ s) = some (labels, s) := by
  induction labels with
  | nil =>
    intro fuel hf
    cases fuel with
    | zero => omega
    | succ f => simp [encodeName, decodeLabels]
  | cons l ls ih =>
    intro fuel hf
    cases fuel with
    | zero => omega
    | succ f =>
      obtain ⟨h1, h2⟩ := h l (by simp)
      have hn : (UInt8.ofNat l.length).toNat = l.length := ofNat_toNat' _ (by omega)
      rw [encodeName_cons, encodeLabel, toBE_one _ (by omega)]
      simp only [List.cons_append, List.nil_append, List.append_assoc, decodeLabels, hn]
      have h0 : ¬ (l.length = 0) := by omega
      have h63 : ¬ (63 < l.length) := by omega
      have hlen : ¬ ((l ++ (encodeName ls ++ s)).length < l.length) := by simp
      simp only [h0, h63, hlen, if_false, List.drop_left, List.take_left]
      rw [ih (fun x hx => h x (List.mem_cons_of_mem _ hx)) f (by simp only [List.length_cons] at hf; omega)]
      rfl

theorem labels_le_length (labels : List Bytes) : labels.length + 1 ≤ (encodeName labels).length := by
  induction labels with
  | nil => simp [encodeName]
  | cons l ls ih =>
    rw [encodeName_cons, List.length_append, encodeLabel, List.length_append, toBE_length]
    simp only [List.length_cons]
    omega

/-- RFC 1035 §3.1: a name made of labels of 1..63 octets, 255 octets or less in all, is read back, and
what follows it is left alone. -/
theorem decodeName_encode {labels : List Bytes} (h : NameWf labels) (s : Bytes) :
    decodeName (encodeName labels ++ s) = some (labels, s) := by
  unfold decodeName
  have hl := labels_le_length labels
  rw [decodeLabels_encode labels h.1 s _ (by simp only [List.length_append]; omega)]
  have := h.2
  simp only [List.length_append]
  have hle : (encodeName labels).length + s.length - s.length ≤ 255 := by omega
  rw [if_pos hle]

/-! ### MX, DS, DNSKEY -/

theorem decodeMx_encode {m : Mx} (hp : m.preference < 256 ^ 2) (hn : NameWf m.exchange) :
    decodeMx (encodeMx m) = some m := by
  obtain ⟨a, b, hab⟩ := toBE_two m.preference
  have hv := fromBE_toBE hp
  rw [hab] at hv
  have := decodeName_encode hn []
  rw [List.append_nil] at this
  simp [encodeMx, hab, decodeMx, this, hv]

theorem decodeDs_encode {d : Ds} (hk : d.keyTag < 256 ^ 2) (ha : d.algorithm < 256) (ht : d.digestType < 256) :
    decodeDs (encodeDs d) = some d := by
  obtain ⟨a, b, hab⟩ := toBE_two d.keyTag
  have hv := fromBE_toBE hk
  rw [hab] at hv
  simp [encodeDs, hab, toBE_one _ ha, toBE_one _ ht, decodeDs, hv, ofNat_toNat' _ ha, ofNat_toNat' _ ht]

theorem decodeDnskey_encode {k : Dnskey} (hf : k.flags < 256 ^ 2) (hp : k.protocol < 256) (ha : k.algorithm < 256) :
    decodeDnskey (encodeDnskey k) = some k := by
  obtain ⟨a, b, hab⟩ := toBE_two k.flags
  have hv := fromBE_toBE hf
  rw [hab] at hv
  simp [encodeDnskey, hab, toBE_one _ hp, toBE_one _ ha, decodeDnskey, hv, ofNat_toNat' _ hp, ofNat_toNat' _ ha]

/-! ### RRSIG -/

theorem decodeRrsig_encode {r : Rrsig} (h1 : r.typeCovered < 256 ^ 2) (h2 : r.algorithm < 256 ^ 1)
    (h3 : r.labels < 256 ^ 1) (h4 : r.originalTtl < 256 ^ 4) (h5 : r.expiration < 256 ^ 4)
    (h6 : r.inception < 256 ^ 4) (h7 : r.keyTag < 256 ^ 2) (h8 : NameWf r.signersName) :
    decodeRrsig (encodeRrsig r) = some r := by
  unfold decodeRrsig encodeRrsig
  generalize hA : toBytesBE 2 r.typeCovered = A
  generalize hB : toBytesBE 1 r.algorithm = B
  generalize hC : toBytesBE 1 r.labels = C
  generalize hD : toBytesBE 4 r.originalTtl = D
  generalize hE : toBytesBE 4 r.expiration = E
  generalize hF : toBytesBE 4 r.inception = F
  generalize hG : toBytesBE 2 r.keyTag = G
  have lA : A.length = 2 := by rw [← hA, toBE_length]
  have lB : B.length = 1 := by rw [← hB, toBE_length]
  have lC : C.length = 1 := by rw [← hC, toBE_length]
  have lD : D.length = 4 := by rw [← hD, toBE_length]
  have lE : E.length = 4 := by rw [← hE, toBE_length]
  have lF : F.length = 4 := by rw [← hF, toBE_length]
  have lG : G.length = 2 := by rw [← hG, toBE_length]
  have hre : A ++ B ++ C ++ D ++ E ++ F ++ G ++ encodeName r.signersName ++ r.signature
      = A ++ (B ++ (C ++ (D ++ (E ++ (F ++ (G ++ (encodeName r.signersName ++ r.signature))))))) := by
    simp [List.append_assoc]
  rw [hre]
  generalize hT : encodeName r.signersName ++ r.signature = T
  have d2 : (A ++ (B ++ (C ++ (D ++ (E ++ (F ++ (G ++ T))))))).drop 2 = B ++ (C ++ (D ++ (E ++ (F ++ (G ++ T))))) :=
    drop_left_of_length lA
  have d3 : (A ++ (B ++ (C ++ (D ++ (E ++ (F ++ (G ++ T))))))).drop 3 = C ++ (D ++ (E ++ (F ++ (G ++ T)))) := by
    rw [show (3 : Nat) = 2 + 1 from rfl, ← List.drop_drop, d2, drop_left_of_length lB]
  have d4 : (A ++ (B ++ (C ++ (D ++ (E ++ (F ++ (G ++ T))))))).drop 4 = D ++ (E ++ (F ++ (G ++ T))) := by
    rw [show (4 : Nat) = 3 + 1 from rfl, ← List.drop_drop, d3, drop_left_of_length lC]
  have d8 : (A ++ (B ++ (C ++ (D ++ (E ++ (F ++ (G ++ T))))))).drop 8 = E ++ (F ++ (G ++ T)) := by
    rw [show (8 : Nat) = 4 + 4 from rfl, ← List.drop_drop, d4, drop_left_of_length lD]
  have d12 : (A ++ (B ++ (C ++ (D ++ (E ++ (F ++ (G ++ T))))))).drop 12 = F ++ (G ++ T) := by
    rw [show (12 : Nat) = 8 + 4 from rfl, ← List.drop_drop, d8, drop_left_of_length lE]
  have d16 : (A ++ (B ++ (C ++ (D ++ (E ++ (F ++ (G ++ T))))))).drop 16 = G ++ T := by
    rw [show (16 : Nat) = 12 + 4 from rfl, ← List.drop_drop, d12, drop_left_of_length lF]
  have d18 : (A ++ (B ++ (C ++ (D ++ (E ++ (F ++ (G ++ T))))))).drop 18 = T := by
    rw [show (18 : Nat) = 16 + 2 from rfl, ← List.drop_drop, d16, drop_left_of_length lG]
  have hlen : ¬ ((A ++ (B ++ (C ++ (D ++ (E ++ (F ++ (G ++ T))))))).length < 18) := by
    simp only [List.length_append, lA, lB, lC, lD, lE, lF, lG]
    omega
  simp only [if_neg hlen, d18, d2, d3, d4, d8, d12, d16, take_left_of_length lA, take_left_of_length lB,
    take_left_of_length lC, take_left_of_length lD, take_left_of_length lE, take_left_of_length lF,
    take_left_of_length lG]
  rw [← hT, decodeName_encode h8]
  simp only []
  rw [← hA, ← hB, ← hC, ← hD, ← hE, ← hF, ← hG, fromBE_toBE h1, fromBE_toBE h2, fromBE_toBE h3, fromBE_toBE h4,
    fromBE_toBE h5, fromBE_toBE h6, fromBE_toBE h7]

/-! ### TXT -/

theorem encodeTxt_cons (v : Bytes) (vs : List Bytes) : encodeTxt (v :: vs) = encodeCharString v ++ encodeTxt vs := by
  simp [encodeTxt]

theorem decodeCharStrings_encode (strs : List Bytes) (h : ∀ v ∈ strs, v.length ≤ 255) :
    ∀ fuel, (encodeTxt strs).length ≤ fuel → decodeCharStrings fuel (encodeTxt strs) = some strs := by
  induction strs with
  | nil => intro fuel _; simp [encodeTxt, decodeCharStrings]
  | cons v vs ih =>
    intro fuel hf
    have hv := h v (by simp)
    rw [encodeTxt_cons, encodeCharString, toBE_one _ (by omega)] at hf ⊢
    cases fuel with
    | zero => simp at hf
    | succ f =>
      have hn : (UInt8.ofNat v.length).toNat = v.length := ofNat_toNat' _ (by omega)
      have hlen : ¬ ((v ++ encodeTxt vs).length < v.length) := by simp
      simp only [List.cons_append, List.nil_append, decodeCharStrings, hn, hlen, if_false,
        List.drop_left, List.take_left]
      rw [ih (fun x hx => h x (List.mem_cons_of_mem _ hx)) f (by
        simp only [List.cons_append, List.nil_append, List.length_cons, List.length_append] at hf; omega)]
      rfl

/-- RFC 1035 §3.3.14: one or more character-strings of at most 255 octets are read back one by one. -/
theorem decodeTxt_encode {strs : List Bytes} (h : TxtWf strs) : decodeTxt (encodeTxt strs) = some strs := by
  unfold decodeTxt
  have hne : ¬ (encodeTxt strs = []) := by
    obtain ⟨h1, h2⟩ := h
    cases strs with
    | nil => exact absurd rfl h1
    | cons v vs =>
      rw [encodeTxt_cons, encodeCharString, toBE_one _ (by have := h2 v (by simp); omega)]
      simp
  rw [if_neg hne, decodeCharStrings_encode strs h.2 _ (Nat.le_refl _)]

/-! ### public keys -/

/-- RFC 3110 §2: the exponent and modulus octets are read back, in either length form. -/
theorem decodeRsaOctets_encode (eb mb : Bytes) (h : eb.length < 256 ^ 2) :
    decodeRsaOctets (encodeRsaOctets eb mb) = some (eb, mb) := by
  unfold encodeRsaOctets rsaExponentLength
  split
  · next hs =>
    rw [toBE_one _ (by omega)]
    have hn : (UInt8.ofNat eb.length).toNat = eb.length := ofNat_toNat' _ (by omega)
    have h0 : eb.length ≠ 0 := by omega
    simp [decodeRsaOctets, hn, h0]
  · obtain ⟨a, b, hab⟩ := toBE_two eb.length
    have hv := fromBE_toBE h
    rw [hab] at hv
    simp [decodeRsaOctets, hab, hv]

theorem decodeRsa_encode (e m : Nat) (h : e < 256 ^ 65535) :
    decodeRsaOctets (encodeRsa e m) = some (minBytesBE e, minBytesBE m) := by
  apply decodeRsaOctets_encode
  have := (minBytesBE_length_le_iff e 65535).mpr h
  omega

/-- RFC 6605 §4: both coordinates are read back. -/
theorem decodeEcdsa_encode {n x y : Nat} (hx : x < 256 ^ n) (hy : y < 256 ^ n) :
    decodeEcdsa n (encodeEcdsa n x y) = some (x, y) := by
  unfold decodeEcdsa encodeEcdsa
  have hl : (toBytesBE n x ++ toBytesBE n y).length = 2 * n := by
    simp only [List.length_append, toBE_length]; omega
  rw [if_pos hl, take_left_of_length (toBE_length n x), drop_left_of_length (toBE_length n x),
    fromBE_toBE hx, fromBE_toBE hy]

end Cp.Spec.Dns
