import CpProofs.HelloBase
import CpProofs.Timestamp
/-
  Laws of the hello extension classes with structured bodies (CpModel/Tls/Ext2.lean):
  server_name, ALPN / ALPS, NPN (server), status_request, key_share (four classes), token_binding,
  signed_certificate_timestamp (server).

  Per kind: the constructible bodies (`Ext2BodyWf`), their composed size (`ext2BodySize`), RoundTrip
  (`ext2_body_roundTrip`), what the parser accepts is constructible (`parseExt2Body_ok_wf`), the
  consumed length stays inside the buffer (`parseExt2Body_lenBound`), the error classes
  (`parseExt2Body_err`) and the data a class rejects whatever follows it (`Ext2Rejects`).
  Obligations on the regenerated tables are decided by the kernel on the live data.
-/
namespace Cp.Tls
open Cp Cp.Codec Cp.Hello

/-! ### small helpers -/

theorem drop_len_append {α : Type} (a r : List α) : (a ++ r).drop a.length = r := by
  rw [List.drop_append_of_le_length (Nat.le_refl _), List.drop_length, List.nil_append]

theorem drop_eq_append {α : Type} (a r : List α) {n : Nat} (h : n = a.length) : (a ++ r).drop n = r := by
  subst h; exact drop_len_append a r

theorem take_len_append {α : Type} (a r : List α) : (a ++ r).take a.length = a := by simp

theorem except_map_ok_inv {α β : Type} {x : Except PErr α} {f : α → β} {b : β}
    (h : x.map f = .ok b) : ∃ a, x = .ok a ∧ f a = b := by
  cases x with
  | error e => simp [Except.map] at h
  | ok a => exact ⟨a, rfl, by simpa [Except.map] using h⟩

theorem except_map_err_inv' {α β : Type} {x : Except PErr α} {f : α → β} {e : PErr}
    (h : x.map f = .error e) : x = .error e := by
  cases x with
  | error e' => simpa [Except.map] using h
  | ok a => simp [Except.map] at h

theorem findCode_of_not_mem' {c : Nat} {codes : List Nat} (h : c ∉ codes) : findCode c codes = none := by
  cases hf : findCode c codes with
  | none => rfl
  | some i => exact absurd (List.mem_of_getElem? (findCode_sound hf)) h

theorem composeNum_too_big {bo : ByteOrder} {k v : Nat} (hk : validSize k = true) (hv : 256 ^ k ≤ v) :
    composeNum bo k (v : Int) = .error .invalidValue := by
  unfold composeNum
  have h1 : ¬ ((v : Int) < 0) := by omega
  simp [hk, h1, hv]

theorem parseCoded_invalidValue_inv' {codes : List Nat} {k : Nat} (hk : validSize k = true) {bs : Bytes}
    (h : parseCoded codes k bs = .error .invalidValue) :
    ∃ c, parseNum .network k bs = .ok (c, k) ∧ findCode c codes = none := by
  unfold parseCoded at h
  cases hp : parseNum .network k bs with
  | error e =>
    simp only [hp, bind, Except.bind] at h
    cases h
    exact absurd rfl (parseNum_sizeErr hk hp).ne_invalidValue
  | ok r =>
    obtain ⟨c, n⟩ := r
    simp only [hp, bind, Except.bind] at h
    have hn := (parseNum_ok_inv hp).1
    subst hn
    cases hf : findCode c codes with
    | none => exact ⟨c, rfl, hf⟩
    | some i => simp [hf, pure, Except.pure] at h

theorem parseIntEnum_benign {members : List Nat} {k : Nat} (hk : validSize k = true) {bs : Bytes} {e : PErr}
    (h : parseIntEnum members k bs = .error e) : Benign e := by
  unfold parseIntEnum at h
  rcases exceptBind_err_inv h with h1 | ⟨⟨c, n⟩, _, h⟩
  · exact (parseNum_sizeErr hk h1).benign
  · simp only at h
    split at h
    · cases h
    · cases h; exact .inr rfl

/-! ### `Opaque` in full -/

theorem parseOpaque_ok_full {p : VecParam} {bs : Bytes} {v : Bytes} {t : Nat}
    (h : parseOpaque p bs = .ok (v, t)) :
    parseNum .network p.numSize bs = .ok (v.length, p.numSize) ∧ v.length ≤ (bs.drop p.numSize).length ∧
      v = (bs.drop p.numSize).take v.length ∧ t = p.numSize + v.length ∧ p.min ≤ v.length ∧ v.length ≤ p.max ∧
      validSize p.numSize = true := by
  have hb := parseOpaque_ok_inv h
  unfold parseOpaque at h
  obtain ⟨⟨len, n⟩, h1, h⟩ := exceptBind_ok_inv h
  simp only at h
  obtain ⟨⟨body, m⟩, h2, h⟩ := exceptBind_ok_inv h
  simp only at h
  obtain ⟨u, _, h⟩ := exceptBind_ok_inv h
  simp only [pure, Except.pure] at h
  cases h
  obtain ⟨hn, _, _, _, hvs⟩ := parseNum_ok_inv h1
  subst hn
  obtain ⟨_, hm, hm2, hbody⟩ := parseRaw_ok_inv h2
  simp only [Int.toNat_natCast] at hm
  subst hm
  have hvl : v.length = m := by rw [hbody, List.length_take]; omega
  rw [hvl]
  exact ⟨h1, hm2, hbody, rfl, by omega, by omega, hvs⟩

theorem parseOpaque_lenBound {p : VecParam} {bs : Bytes} {v : Bytes} {t : Nat}
    (h : parseOpaque p bs = .ok (v, t)) : t ≤ bs.length ∧ 0 < t := by
  obtain ⟨h1, h2, _, ht, _, _, hvs⟩ := parseOpaque_ok_full h
  have hd : (bs.drop p.numSize).length = bs.length - p.numSize := List.length_drop
  have hk := (parseNum_ok_inv h1).2.1
  have := validSize_pos hvs
  omega

/-- an `Opaque` value inside its bounds is an item the array loop inverts -/
theorem opaque_itemRT {p : VecParam} (hp : ParamOk p) (d : Bytes) (hmin : p.min ≤ d.length)
    (hmax : d.length ≤ p.max) : ItemRT (parseOpaque p) (composeOpaque p) d := by
  obtain ⟨hn, hpm⟩ := hp
  have hpos := validSize_pos hn
  refine ⟨_, (parseOpaque_roundTrip hn hpm d hmin hmax []).1, by simp; omega, fun s => ?_⟩
  rw [(parseOpaque_roundTrip hn hpm d hmin hmax s).2]
  simp

theorem composeOpaque_length {p : VecParam} (hp : ParamOk p) (d : Bytes) (hmin : p.min ≤ d.length)
    (hmax : d.length ≤ p.max) : (composeOpaque p d).map (·.length) = .ok (p.numSize + d.length) := by
  rw [(parseOpaque_roundTrip hp.1 hp.2 d hmin hmax []).1]
  simp [Except.map]

/-! ### the regenerated name tables -/

/-- what the proofs need to know about an opaque-coded name table: the codes are pairwise distinct
on the wire, ASCII (the composer encodes with 'ascii'), as long in characters as in bytes, and
inside the bounds of the opaque item class -/
structure NamesOk (p : VecParam) (table : List Gen.WireName) : Prop where
  nodup : (table.map (·.wire)).Nodup
  each : ∀ e ∈ table, e.ascii = true ∧ e.chars = e.wire.length ∧ p.min ≤ e.wire.length ∧ e.wire.length ≤ p.max

theorem protocolNames_ok : NamesOk protocolNameParam Gen.TlsProtocolName_wire :=
  ⟨by decide +kernel, by decide +kernel⟩
theorem nextProtocolNames_ok : NamesOk nextProtocolNameParam Gen.TlsNextProtocolName_wire :=
  ⟨by decide +kernel, by decide +kernel⟩

theorem protocolNameParam_ok : ParamOk protocolNameParam := by decide +kernel
theorem nextProtocolNameParam_ok : ParamOk nextProtocolNameParam := by decide +kernel
theorem protocolNameListParam_ok : ParamOk protocolNameListParam := by decide +kernel
theorem nextProtocolNameListParam_ok : ParamOk nextProtocolNameListParam := by decide +kernel
theorem serverNameParam_ok : ParamOk serverNameParam := by decide +kernel
theorem responderIdParam_ok : ParamOk responderIdParam := by decide +kernel
theorem responderIdListParam_ok : ParamOk responderIdListParam := by decide +kernel
theorem requestExtensionsParam_ok : ParamOk requestExtensionsParam := by decide +kernel
theorem keyExchangeParam_ok : ParamOk keyExchangeParam := by decide +kernel
theorem keyShareListParam_ok : ParamOk keyShareListParam := by decide +kernel
theorem tokenBindingParam_ok : ParamOk tokenBindingParam := by decide +kernel
theorem sctListParam_ok : ParamOk sctListParam := by decide +kernel
theorem ctExtensionsParam_ok : ParamOk (vp Gen.vec_CtExtensions) := by decide +kernel
theorem ctSignatureParam_ok : ParamOk (vp Gen.vec_CtSignature) := by decide +kernel
theorem tokenBindingParams_tableOk : TableOk Gen.TlsTokenBindingParamater.codes 1 :=
  ⟨rfl, nodupB_sound (by decide +kernel), by decide +kernel⟩

theorem findName_sound {b : Bytes} {table : List Gen.WireName} {i : Nat} (h : findName b table = some i) :
    ∃ e, table[i]? = some e ∧ e.wire = b := by
  induction table generalizing i with
  | nil => simp [findName] at h
  | cons x xs ih =>
    simp only [findName] at h
    split at h
    · next hx => cases h; exact ⟨x, rfl, hx⟩
    · cases hf : findName b xs with
      | none => simp [hf] at h
      | some j =>
        simp only [hf, Option.map_some, Option.some.injEq] at h
        subst h
        obtain ⟨e, he, hw⟩ := ih hf
        exact ⟨e, by simpa using he, hw⟩

theorem findName_lt {b : Bytes} {table : List Gen.WireName} {i : Nat} (h : findName b table = some i) :
    i < table.length := by
  obtain ⟨e, he, _⟩ := findName_sound h
  exact (List.getElem?_eq_some_iff.mp he).1

theorem findName_of_nodup {table : List Gen.WireName} (hn : (table.map (·.wire)).Nodup) {i : Nat}
    {e : Gen.WireName} (h : table[i]? = some e) : findName e.wire table = some i := by
  induction table generalizing i with
  | nil => simp at h
  | cons x xs ih =>
    simp only [List.map_cons, List.nodup_cons] at hn
    cases i with
    | zero =>
      simp only [List.getElem?_cons_zero, Option.some.injEq] at h
      subst h
      simp [findName]
    | succ j =>
      simp only [List.getElem?_cons_succ] at h
      have hne : ¬ x.wire = e.wire := by
        intro heq
        apply hn.1
        rw [heq]
        exact List.mem_map.mpr ⟨e, List.mem_of_getElem? h, rfl⟩
      simp only [findName, hne, if_false, ih hn.2 h, Option.map_some]

/-- a member of the name table is an item the array loop inverts -/
theorem name_itemRT {p : VecParam} {table : List Gen.WireName} (hp : ParamOk p) (ht : NamesOk p table)
    (i : Nat) (hi : i < table.length) : ItemRT (parseName p table) (composeName p table) i := by
  obtain ⟨hn, hpm⟩ := hp
  have hpos := validSize_pos hn
  have hget : table[i]? = some table[i] := List.getElem?_eq_getElem hi
  obtain ⟨ha, _, hmin, hmax⟩ := ht.each _ (List.getElem_mem hi)
  have hfit : (table[i]).wire.length < 256 ^ p.numSize := by omega
  refine ⟨encNat .network p.numSize (table[i]).wire.length ++ (table[i]).wire, ?_, by simp; omega, fun s => ?_⟩
  · simp only [composeName, hget, ha, if_true]
    exact composeBytes_ok hn _ hfit
  · unfold parseName
    rw [(parseOpaque_roundTrip hn hpm _ hmin hmax s).2]
    simp only [bind, Except.bind, findName_of_nodup ht.nodup hget, pure, Except.pure, List.length_append,
      encNat_length]

theorem nameSize_eq {p : VecParam} {table : List Gen.WireName} (hp : ParamOk p) (ht : NamesOk p table)
    {i : Nat} (hi : i < table.length) : nameSize p table i = (composeName p table i).map (·.length) := by
  have hget : table[i]? = some table[i] := List.getElem?_eq_getElem hi
  obtain ⟨ha, hc, hmin, hmax⟩ := ht.each _ (List.getElem_mem hi)
  have hfit : (table[i]).wire.length < 256 ^ p.numSize := by have := hp.2; omega
  simp only [nameSize, composeName, hget, ha, if_true, composeBytes_ok hp.1 _ hfit, Except.map,
    List.length_append, encNat_length, hc]

theorem parseName_ok_inv {p : VecParam} {table : List Gen.WireName} {bs : Bytes} {i n : Nat}
    (h : parseName p table bs = .ok (i, n)) : i < table.length ∧ 0 < n ∧ n ≤ bs.length := by
  unfold parseName at h
  obtain ⟨⟨raw, m⟩, h1, h⟩ := exceptBind_ok_inv h
  simp only at h
  cases hf : findName raw table with
  | none => simp [hf] at h
  | some j =>
    simp only [hf, pure, Except.pure] at h
    cases h
    have := parseOpaque_lenBound h1
    exact ⟨findName_lt hf, this.2, this.1⟩

theorem parseName_err {p : VecParam} (hk : validSize p.numSize = true) {table : List Gen.WireName} {bs : Bytes}
    {e : PErr} (h : parseName p table bs = .error e) : Benign e := by
  unfold parseName at h
  rcases exceptBind_err_inv h with h1 | ⟨⟨raw, m⟩, _, h⟩
  · exact (parseOpaque_sizeErr hk h1).benign
  · simp only at h
    split at h
    · cases h
    · cases h; exact .inr rfl

theorem sumSizes_congr {α : Type} {f g : α → Except PErr Nat} {xs : List α} (h : ∀ x ∈ xs, f x = g x) :
    sumSizes f xs = sumSizes g xs := by
  induction xs with
  | nil => rfl
  | cons x xs ih =>
    simp only [sumSizes, h x (List.mem_cons_self ..), ih (fun y hy => h y (List.mem_cons_of_mem _ hy))]

/-- the round trip of `parseVecItems` for ANY size function that agrees with the composed size -/
theorem parseVecItems_roundTrip' {α : Type} {p : VecParam} {item : Bytes → Except PErr (α × Nat)}
    {f : α → Except PErr Bytes} {sizeOf : α → Except PErr Nat} (hk : validSize p.numSize = true)
    (hmax : p.max < 256 ^ p.numSize) (xs : List α) (hx : ∀ x ∈ xs, ItemRT item f x) (body : Bytes)
    (hc : composeItems f xs = .ok body) (hs : sumSizes sizeOf xs = .ok body.length)
    (hmin : p.min ≤ body.length) (hle : body.length ≤ p.max) (s : Bytes) :
    parseVecItems p item sizeOf (encNat .network p.numSize body.length ++ body ++ s) =
      .ok (xs, p.numSize + body.length) := by
  have hfit : body.length < 256 ^ p.numSize := by omega
  unfold parseVecItems
  rw [List.append_assoc, parseNum_enc hk hfit]
  simp only [bind, Except.bind]
  have hdrop : (encNat .network p.numSize body.length ++ (body ++ s)).drop p.numSize = body ++ s :=
    drop_eq_append _ _ (by simp)
  rw [hdrop]
  have hnot : ¬ ((body ++ s).length < body.length) := by simp
  have htake : (body ++ s).take body.length = body := by simp
  simp only [hnot, if_false, htake]
  rw [parseItems_composeItems xs hx body hc body.length (Nat.le_refl _)]
  simp only [hs, checkBounds_ok hmin hle, pure, Except.pure]

/-- the same for a vector body whose length prefix was read elsewhere (NPN) -/
theorem parseVecBody_roundTrip {α : Type} {p : VecParam} {item : Bytes → Except PErr (α × Nat)}
    {f : α → Except PErr Bytes} {sizeOf : α → Except PErr Nat} (xs : List α)
    (hx : ∀ x ∈ xs, ItemRT item f x) (body : Bytes)
    (hc : composeItems f xs = .ok body) (hs : sumSizes sizeOf xs = .ok body.length)
    (hmin : p.min ≤ body.length) (hle : body.length ≤ p.max) (s : Bytes) :
    parseVecBody p item sizeOf body.length (body ++ s) = .ok (xs, body.length) := by
  unfold parseVecBody
  have hnot : ¬ ((body ++ s).length < body.length) := by simp
  have htake : (body ++ s).take body.length = body := by simp
  simp only [hnot, if_false, htake, bind, Except.bind]
  rw [parseItems_composeItems xs hx body hc body.length (Nat.le_refl _)]
  simp only [hs, checkBounds_ok hmin hle, pure, Except.pure]

theorem composeItems_ok_of_itemRT {α : Type} {item : Bytes → Except PErr (α × Nat)} {f : α → Except PErr Bytes}
    (xs : List α) (hx : ∀ x ∈ xs, ItemRT item f x) : ∃ body, composeItems f xs = .ok body := by
  induction xs with
  | nil => exact ⟨[], rfl⟩
  | cons x xs ih =>
    obtain ⟨b, hb, _, _⟩ := hx x (List.mem_cons_self ..)
    obtain ⟨r, hr⟩ := ih (fun y hy => hx y (List.mem_cons_of_mem _ hy))
    exact ⟨b ++ r, by simp [composeItems, hb, hr, bind, Except.bind, pure, Except.pure]⟩

/-! ### key shares -/

theorem keyExchangeParam_numSize : keyExchangeParam.numSize = 2 := by decide +kernel

/-- the entries a caller can put into a key share vector and that survive compose → parse: a known
group (by index) with a key inside the bounds of `TlsKeyExchangeVector`, or a wrapper around a code
`TlsNamedCurve` does NOT contain with any data that fits the 16-bit length -/
def KeyShareWf (e : KeyShare) : Prop :=
  match e.group with
  | .known g => g < Gen.TlsNamedCurve.codes.length ∧ keyExchangeParam.min ≤ e.key.length ∧
      e.key.length ≤ keyExchangeParam.max
  | .unknown c => c < 256 ^ 2 ∧ c ∉ Gen.TlsNamedCurve.codes ∧ e.key.length < 256 ^ 2

theorem codedStrict_rt2 {codes : List Nat} {k : Nat} (ht : TableOk codes k) {i : Nat} (hi : i < codes.length) :
    ∃ a, composeCoded codes k i = .ok a ∧ a.length = k ∧ ∀ s, parseCoded codes k (a ++ s) = .ok (i, a.length) := by
  obtain ⟨a, ha, haa⟩ := codedStrict_roundTrip ht i hi
  refine ⟨a, ha, ?_, haa⟩
  have h0 := haa []
  rw [List.append_nil] at h0
  obtain ⟨c, hp, _⟩ := parseCoded_ok_inv h0
  exact (parseNum_ok_inv hp).1

theorem keyShareKnown_rt {g : Nat} {key : Bytes} (hg : g < Gen.TlsNamedCurve.codes.length)
    (hmin : keyExchangeParam.min ≤ key.length) (hmax : key.length ≤ keyExchangeParam.max) :
    ∃ b, composeKeyShareKnown g key = .ok b ∧ b.length = 4 + key.length ∧
      ∀ s, parseKeyShareKnown (b ++ s) = .ok ((g, key), b.length) := by
  obtain ⟨a, ha, hal, haa⟩ := codedStrict_rt2 namedCurves_tableOk hg
  obtain ⟨hn, hpm⟩ := keyExchangeParam_ok
  have ho := parseOpaque_roundTrip hn hpm key hmin hmax
  refine ⟨a ++ (encNat .network keyExchangeParam.numSize key.length ++ key), ?_, ?_, fun s => ?_⟩
  · simp only [composeKeyShareKnown, ha, (ho []).1, bind, Except.bind, pure, Except.pure]
  · simp [hal, keyExchangeParam_numSize]; omega
  · unfold parseKeyShareKnown
    rw [List.append_assoc, haa]
    simp only [bind, Except.bind, drop_len_append]
    rw [← List.append_assoc, (ho s).2]
    simp only [pure, Except.pure, List.length_append, encNat_length, Nat.add_assoc]

theorem keyShare_itemRT (e : KeyShare) (hw : KeyShareWf e) :
    ItemRT parseKeyShare composeKeyShare e ∧ (composeKeyShare e).map (·.length) = .ok (4 + e.key.length) := by
  obtain ⟨grp, key⟩ := e
  cases grp with
  | known g =>
    obtain ⟨hg, hmin, hmax⟩ := hw
    obtain ⟨b, hb, hbl, hbb⟩ := keyShareKnown_rt hg hmin hmax
    refine ⟨⟨b, hb, by omega, fun s => ?_⟩, by simp only [composeKeyShare, hb, Except.map, hbl]⟩
    simp only [parseKeyShare, orElseInvalid, hbb s, Except.map, keyShareOfKnown]
  | unknown c =>
    obtain ⟨hc, hno, hk⟩ := hw
    have hcomp : composeKeyShare ⟨.unknown c, key⟩ =
        .ok (encNat .network 2 c ++ (encNat .network 2 key.length ++ key)) := by
      simp only [composeKeyShare, composeNum_ok (by rfl : validSize 2 = true) hc,
        composeBytes_ok (by rfl : validSize 2 = true) key hk, bind, Except.bind, pure, Except.pure]
    refine ⟨⟨_, hcomp, by simp; omega, fun s => ?_⟩, by simp [hcomp, Except.map]; omega⟩
    have hnum : parseNum .network 2 (encNat .network 2 c ++ (encNat .network 2 key.length ++ key) ++ s) = .ok (c, 2) := by
      rw [List.append_assoc]; exact parseNum_enc rfl hc _
    have hstrict : parseKeyShareKnown (encNat .network 2 c ++ (encNat .network 2 key.length ++ key) ++ s) =
        .error .invalidValue := by
      simp only [parseKeyShareKnown, parseCoded, hnum, bind, Except.bind, findCode_of_not_mem' hno]
    simp only [parseKeyShare, orElseInvalid, hstrict, Except.map]
    simp only [parseKeyShareInvalid, parseInvalidType, hnum, bind, Except.bind]
    rw [List.append_assoc, drop_eq_append _ _ (by simp), ← List.append_assoc,
      parseBytes_append (by rfl) key s hk]
    simp only [pure, Except.pure, List.length_append, encNat_length]
    congr 2
    omega

/-! ### signed certificate timestamps -/

theorem ctParams_numSize : (vp Gen.vec_CtExtensions).numSize = 2 ∧ (vp Gen.vec_CtSignature).numSize = 2 := by
  decide +kernel

/-- the SCT values a caller can construct and that survive compose → parse: a version of the
enumeration, a 32-byte log id, a timestamp (milliseconds) not later than 9999-12-31T23:59:59.999Z — the
instants `datetime` carries; this excludes the all-ones "no timestamp" value of the 8-byte field —,
extensions / signature inside their bounds, an algorithm of the table, the blob inside 16 bits -/
structure SctWf (s : Sct) : Prop where
  version : s.version ∈ Gen.CtVersion.memberCodes
  versionFits : s.version < 256 ^ 1
  log : s.log.length = 32
  timestamp : s.timestamp / 1000 ≤ maxEpochSeconds
  extMin : (vp Gen.vec_CtExtensions).min ≤ s.extensions.length
  extMax : s.extensions.length ≤ (vp Gen.vec_CtExtensions).max
  algorithm : s.algorithm < Gen.TlsSignatureAndHashAlgorithm.codes.length
  sigMin : (vp Gen.vec_CtSignature).min ≤ s.signature.length
  sigMax : s.signature.length ≤ (vp Gen.vec_CtSignature).max
  blob : 47 + s.extensions.length + s.signature.length < 256 ^ 2

/-- composed size of one SCT: the 2-byte blob length and the blob -/
def sctSize (s : Sct) : Nat := 2 + (47 + s.extensions.length + s.signature.length)

/-- an SCT timestamp of `datetime`'s range fits the 8-byte field and is not its all-ones value -/
theorem sctTimestamp_fits {t : Nat} (ht : t / 1000 ≤ maxEpochSeconds) : t < 256 ^ 8 - 1 :=
  tsSeconds_le_fits8 (ms := true) (by simpa [tsSeconds] using ht)

theorem SctWf.timestamp_not_sentinel {s : Sct} (hw : SctWf s) : s.timestamp ≠ 256 ^ 8 - 1 :=
  Nat.ne_of_lt (sctTimestamp_fits hw.timestamp)

theorem parseTimestamp_ms_enc {t : Nat} (ht : t / 1000 ≤ maxEpochSeconds) (r : Bytes) :
    parseTimestamp .network true 8 (encNat .network 8 t ++ r) = .ok (some t, 8) :=
  parseTimestamp_enc (by rfl) (sctTimestamp_fits ht) (by simpa [tsSeconds] using ht) r

/-- a millisecond value beyond `datetime`'s range (and not the sentinel) does not parse -/
theorem parseTimestamp_ms_enc_beyond {t : Nat} (hv : t < 256 ^ 8 - 1) (ht : maxEpochSeconds < t / 1000) (r : Bytes) :
    parseTimestamp .network true 8 (encNat .network 8 t ++ r) = .error .invalidValue :=
  parseTimestamp_enc_beyond (by rfl) hv (by simpa [tsSeconds] using ht) r

theorem sct_itemRT (s : Sct) (hw : SctWf s) :
    ItemRT parseSct composeSct s ∧ (composeSct s).map (·.length) = .ok (sctSize s) := by
  obtain ⟨ver, log, ts, ext, alg, sig⟩ := s
  obtain ⟨hv, hvf, hlog, hts, hemin, hemax, halg, hsmin, hsmax, hblob⟩ := hw
  simp only at hv hvf hlog hts hemin hemax halg hsmin hsmax hblob
  obtain ⟨he2, hs2⟩ := ctParams_numSize
  obtain ⟨a, ha, hal, haa⟩ := codedStrict_rt2 signatureAlgorithms_tableOk halg
  have hoe := parseOpaque_roundTrip ctExtensionsParam_ok.1 ctExtensionsParam_ok.2 ext hemin hemax
  have hos := parseOpaque_roundTrip ctSignatureParam_ok.1 ctSignatureParam_ok.2 sig hsmin hsmax
  have h8 : ts < 256 ^ 8 := by have := sctTimestamp_fits hts; omega
  -- the blob
  let E : Bytes := encNat .network (vp Gen.vec_CtExtensions).numSize ext.length ++ ext
  let S : Bytes := encNat .network (vp Gen.vec_CtSignature).numSize sig.length ++ sig
  let blob : Bytes := encNat .network 1 ver ++ log ++ encNat .network 8 ts ++ E ++ a ++ S
  have hbody : composeSctBody ⟨ver, log, ts, ext, alg, sig⟩ = .ok blob := by
    simp only [composeSctBody, composeNum_ok (by rfl : validSize 1 = true) hvf, composeTimestamp,
      composeNum_ok (by rfl : validSize 8 = true) h8, (hoe []).1, ha, (hos []).1, bind, Except.bind, pure,
      Except.pure, blob, E, S]
  have hbl : blob.length = 47 + ext.length + sig.length := by
    simp only [blob, E, S, List.length_append, encNat_length, hlog, hal, he2, hs2]; omega
  have hfit : blob.length < 256 ^ 2 := by omega
  have hcomp : composeSct ⟨ver, log, ts, ext, alg, sig⟩ = .ok (encNat .network 2 blob.length ++ blob) := by
    simp only [composeSct, hbody, bind, Except.bind]
    exact composeBytes_ok (by rfl) blob hfit
  refine ⟨⟨_, hcomp, by simp; omega, fun s => ?_⟩, by simp [hcomp, Except.map, sctSize, hbl]⟩
  unfold parseSct
  rw [parseBytes_append (by rfl) blob s hfit]
  simp only [bind, Except.bind]
  -- field by field on the blob
  have hA : blob = encNat .network 1 ver ++ (log ++ (encNat .network 8 ts ++ (E ++ (a ++ (S ++ []))))) := by
    simp only [blob, List.append_assoc, List.append_nil]
  rw [hA]
  rw [parseIntEnum_of_num (parseNum_enc (by rfl) hvf _) hv]
  simp only [drop_eq_append _ _ (show 1 = (encNat ByteOrder.network 1 ver).length by simp)]
  have hraw : ∀ r, parseRaw (32 : Int) (log ++ r) = .ok (log, 32) := by
    intro r
    have := parseRaw_nat_append log r
    rw [hlog] at this
    exact this
  rw [hraw]
  simp only [drop_eq_append _ _ hlog.symm]
  rw [parseTimestamp_ms_enc hts]
  simp only [drop_eq_append _ _ (show 8 = (encNat ByteOrder.network 8 ts).length by simp)]
  have hE : ∀ r, parseOpaque (vp Gen.vec_CtExtensions) (E ++ r) = .ok (ext, E.length) := by
    intro r
    have := (hoe r).2
    simp only [E, List.length_append, encNat_length]
    exact this
  rw [hE]
  simp only [drop_len_append]
  rw [haa]
  simp only [drop_len_append]
  have hS : parseOpaque (vp Gen.vec_CtSignature) (S ++ []) = .ok (sig, S.length) := by
    have := (hos []).2
    simp only [S, List.length_append, encNat_length]
    exact this
  rw [hS]
  simp only [pure, Except.pure, List.length_append, encNat_length, List.append_nil]

/-! ### the constructible bodies -/

/-- items with a known composed size: the body of the vector and what the constructor adds up -/
theorem composeItems_sized {α : Type} {item : Bytes → Except PErr (α × Nat)} {f : α → Except PErr Bytes}
    {sz : α → Nat} (xs : List α)
    (hx : ∀ x ∈ xs, ItemRT item f x ∧ (f x).map (·.length) = .ok (sz x)) :
    ∃ body, composeItems f xs = .ok body ∧ body.length = (xs.map sz).sum ∧
      sumSizes (fun c => (f c).map (·.length)) xs = .ok body.length := by
  induction xs with
  | nil => exact ⟨[], rfl, rfl, rfl⟩
  | cons x xs ih =>
    obtain ⟨⟨b, hb, _, _⟩, hsz⟩ := hx x (List.mem_cons_self ..)
    obtain ⟨r, hr, hrl, hrs⟩ := ih (fun y hy => hx y (List.mem_cons_of_mem _ hy))
    have hbl : b.length = sz x := by
      rw [hb] at hsz
      simpa [Except.map] using hsz
    refine ⟨b ++ r, by simp [composeItems, hb, hr, bind, Except.bind, pure, Except.pure], ?_, ?_⟩
    · simp [hbl, hrl]
    · have h1 : (f x).map (·.length) = .ok b.length := by rw [hb]; rfl
      simp only [sumSizes, bind, Except.bind, h1, hrs, pure, Except.pure, List.length_append]

/-- wire size of a name of the table behind its length prefix -/
def nameWireSize (p : VecParam) (table : List Gen.WireName) (i : Nat) : Nat :=
  p.numSize + ((table[i]?).map (·.wire.length)).getD 0

def namesSize (p : VecParam) (table : List Gen.WireName) (items : List Nat) : Nat :=
  (items.map (nameWireSize p table)).sum

theorem name_sized {p : VecParam} {table : List Gen.WireName} (hp : ParamOk p) (ht : NamesOk p table)
    {i : Nat} (hi : i < table.length) :
    (composeName p table i).map (·.length) = .ok (nameWireSize p table i) := by
  have hget : table[i]? = some table[i] := List.getElem?_eq_getElem hi
  obtain ⟨ha, hc, hmin, hmax⟩ := ht.each _ (List.getElem_mem hi)
  have hfit : (table[i]).wire.length < 256 ^ p.numSize := by have := hp.2; omega
  simp only [composeName, hget, ha, if_true, composeBytes_ok hp.1 _ hfit, Except.map, List.length_append,
    encNat_length, nameWireSize, Option.map_some, Option.getD_some]

/-- a list of table members: the composed body and the size the list constructor computes -/
theorem names_body {p : VecParam} {table : List Gen.WireName} (hp : ParamOk p) (ht : NamesOk p table)
    (items : List Nat) (hi : ∀ i ∈ items, i < table.length) :
    ∃ body, composeItems (composeName p table) items = .ok body ∧ body.length = namesSize p table items ∧
      sumSizes (nameSize p table) items = .ok body.length ∧
      ∀ i ∈ items, ItemRT (parseName p table) (composeName p table) i := by
  have hx : ∀ i ∈ items, ItemRT (parseName p table) (composeName p table) i ∧
      (composeName p table i).map (·.length) = .ok (nameWireSize p table i) :=
    fun i h => ⟨name_itemRT hp ht i (hi i h), name_sized hp ht (hi i h)⟩
  obtain ⟨body, hb, hbl, hs⟩ := composeItems_sized items hx
  refine ⟨body, hb, hbl, ?_, fun i h => (hx i h).1⟩
  rw [sumSizes_congr (g := fun c => (composeName p table c).map (·.length))
    (fun i h => nameSize_eq hp ht (hi i h))]
  exact hs

def idsSize (p : VecParam) (ids : List Bytes) : Nat := (ids.map (fun d => p.numSize + d.length)).sum
def sharesSize (entries : List KeyShare) : Nat := (entries.map (fun e => 4 + e.key.length)).sum
def sctsSize (items : List Sct) : Nat := (items.map sctSize).sum

/-- the bodies a caller can give an extension class of the given layout and that the class's parser
returns (canonical items, sizes inside the bounds of the regenerated parameters) -/
def Ext2BodyWf : Ext2Kind → Ext2Body → Prop
  | .serverName, .hostName h =>
    hostPlain h = true ∧ serverNameParam.min ≤ h.length ∧ h.length ≤ serverNameParam.max
  | .protocolNames, .names items =>
    (∀ i ∈ items, i < Gen.TlsProtocolName_wire.length) ∧
      protocolNameListParam.min ≤ namesSize protocolNameParam Gen.TlsProtocolName_wire items ∧
      namesSize protocolNameParam Gen.TlsProtocolName_wire items ≤ protocolNameListParam.max
  | .nextProtocolNames, .names items =>
    (∀ i ∈ items, i < Gen.TlsNextProtocolName_wire.length) ∧
      nextProtocolNameListParam.min ≤ namesSize nextProtocolNameParam Gen.TlsNextProtocolName_wire items ∧
      namesSize nextProtocolNameParam Gen.TlsNextProtocolName_wire items ≤ nextProtocolNameListParam.max
  | .statusRequest, .statusRequest ids exts =>
    (∀ d ∈ ids, responderIdParam.min ≤ d.length ∧ d.length ≤ responderIdParam.max) ∧
      responderIdListParam.min ≤ idsSize responderIdParam ids ∧ idsSize responderIdParam ids ≤ responderIdListParam.max ∧
      requestExtensionsParam.min ≤ exts.length ∧ exts.length ≤ requestExtensionsParam.max
  | .keyShareClient, .keyShares entries =>
    (∀ e ∈ entries, KeyShareWf e) ∧ keyShareListParam.min ≤ sharesSize entries ∧
      sharesSize entries ≤ keyShareListParam.max
  | .keyShareServer, .keyShare g key =>
    g < Gen.TlsNamedCurve.codes.length ∧ keyExchangeParam.min ≤ key.length ∧ key.length ≤ keyExchangeParam.max
  | .keyShareHelloRetry, .group g => g < Gen.TlsNamedCurve.codes.length
  | .tokenBinding, .tokenBinding major minor params =>
    major < 256 ^ 1 ∧ minor < 256 ^ 1 ∧ (∀ x ∈ params, CodedWf Gen.TlsTokenBindingParamater.codes 1 x) ∧
      tokenBindingParam.min ≤ params.length * 1 ∧ params.length * 1 ≤ tokenBindingParam.max
  | .sctList, .scts items =>
    (∀ s ∈ items, SctWf s) ∧ sctListParam.min ≤ sctsSize items ∧ sctsSize items ≤ sctListParam.max
  | _, _ => False

/-- the payload size of a body (what goes into the extension's 16-bit length) -/
def ext2BodySize : Ext2Kind → Ext2Body → Nat
  | .serverName, .hostName h => 2 + 1 + (serverNameParam.numSize + h.length)
  | .protocolNames, .names items =>
    protocolNameListParam.numSize + namesSize protocolNameParam Gen.TlsProtocolName_wire items
  | .nextProtocolNames, .names items => namesSize nextProtocolNameParam Gen.TlsNextProtocolName_wire items
  | .statusRequest, .statusRequest ids exts =>
    1 + (responderIdListParam.numSize + idsSize responderIdParam ids) + (requestExtensionsParam.numSize + exts.length)
  | .keyShareClient, .keyShares entries => keyShareListParam.numSize + sharesSize entries
  | .keyShareServer, .keyShare _ key => 4 + key.length
  | .keyShareHelloRetry, .group _ => 2
  | .tokenBinding, .tokenBinding _ _ params => 2 + (tokenBindingParam.numSize + params.length * 1)
  | .sctList, .scts items => sctListParam.numSize + sctsSize items
  | _, _ => 0

/-! ### RoundTrip of the bodies -/

theorem ext2_numSizes :
    serverNameParam.numSize = 2 ∧ protocolNameListParam.numSize = 2 ∧ responderIdListParam.numSize = 2 ∧
    requestExtensionsParam.numSize = 2 ∧ keyShareListParam.numSize = 2 ∧ tokenBindingParam.numSize = 1 ∧
    sctListParam.numSize = 2 ∧ responderIdParam.numSize = 2 ∧ protocolNameParam.numSize = 1 ∧
    nextProtocolNameParam.numSize = 1 := by decide +kernel

theorem hostNameType_facts :
    hostNameType ∈ Gen.TlsServerNameType.memberCodes ∧ hostNameType < 256 ^ 1 ∧
    ocspStatusType ∈ Gen.TlsCertificateStatusType.memberCodes ∧ ocspStatusType < 256 ^ 1 := by decide +kernel

theorem responderIds_sized (ids : List Bytes)
    (hi : ∀ d ∈ ids, responderIdParam.min ≤ d.length ∧ d.length ≤ responderIdParam.max) :
    ∀ d ∈ ids, ItemRT (parseOpaque responderIdParam) (composeOpaque responderIdParam) d ∧
      (composeOpaque responderIdParam d).map (·.length) = .ok (responderIdParam.numSize + d.length) :=
  fun d h => ⟨opaque_itemRT responderIdParam_ok d (hi d h).1 (hi d h).2,
    composeOpaque_length responderIdParam_ok d (hi d h).1 (hi d h).2⟩

/-- every well-formed body (for a server name: one whose list length `3 + len` fits 16 bits)
composes to `ext2BodySize` bytes, and the body parser of the class reads exactly those bytes back,
whatever follows them -/
theorem ext2_body_roundTrip' {k : Ext2Kind} {b : Ext2Body} (hw : Ext2BodyWf k b)
    (hsn : ∀ h, b = .hostName h → 3 + h.length < 256 ^ 2) :
    ∃ payload, composeExt2Body k b = .ok payload ∧ payload.length = ext2BodySize k b ∧
      ∀ s, parseExt2Body k payload.length (payload ++ s) = .ok (b, payload.length) := by
  obtain ⟨nsn, npl, nril, nre, nksl, ntb, nsct, nri, npn, nnpn⟩ := ext2_numSizes
  cases k with
  | serverName =>
    cases b <;> try exact absurd hw id
    next h =>
    obtain ⟨hplain, hmin, hmax⟩ := hw
    obtain ⟨hm, hf, _, _⟩ := hostNameType_facts
    have h3 : 3 + h.length < 256 ^ 2 := hsn h rfl
    have hl : h.length < 256 ^ 2 := by omega
    have ho := parseOpaque_roundTrip serverNameParam_ok.1 serverNameParam_ok.2 h hmin hmax
    rw [nsn] at ho
    refine ⟨encNat .network 2 (3 + h.length) ++ encNat .network 1 hostNameType ++ (encNat .network 2 h.length ++ h),
      ?_, by simp [ext2BodySize, nsn]; omega, fun s => ?_⟩
    · simp only [composeExt2Body, hplain, if_true, composeNum_ok (by rfl : validSize 2 = true) h3,
        composeNum_ok (by rfl : validSize 1 = true) hf, composeBytes_ok (by rfl : validSize 2 = true) h hl, bind,
        Except.bind, pure, Except.pure]
    · simp only [parseExt2Body, List.append_assoc]
      rw [parseNum_enc (by rfl) h3]
      simp only [bind, Except.bind, drop_eq_append _ _ (show 2 = (encNat ByteOrder.network 2 (3 + h.length)).length by simp)]
      rw [parseIntEnum_of_num (parseNum_enc (by rfl) hf _) hm]
      simp only [drop_eq_append _ _ (show 1 = (encNat ByteOrder.network 1 hostNameType).length by simp)]
      rw [← List.append_assoc, (ho s).2]
      simp only [hplain, if_true, pure, Except.pure, List.length_append, encNat_length]
      congr 2
      omega
  | protocolNames =>
    cases b <;> try exact absurd hw id
    next items =>
    obtain ⟨hi, hmin, hmax⟩ := hw
    obtain ⟨body, hb, hbl, hs, hx⟩ := names_body protocolNameParam_ok protocolNames_ok items hi
    rw [← hbl] at hmin hmax
    obtain ⟨hn, hpm⟩ := protocolNameListParam_ok
    have hfit : body.length < 256 ^ protocolNameListParam.numSize := by omega
    refine ⟨encNat .network protocolNameListParam.numSize body.length ++ body, ?_,
      by simp [ext2BodySize, hbl], fun s => ?_⟩
    · simp only [composeExt2Body, composeVecItems, hb, composeNum_ok hn hfit, bind, Except.bind, pure, Except.pure]
    · simp only [parseExt2Body]
      rw [parseVecItems_roundTrip' hn hpm items hx body hb hs hmin hmax s]
      simp only [bind, Except.bind, pure, Except.pure, List.length_append, encNat_length]
  | nextProtocolNames =>
    cases b <;> try exact absurd hw id
    next items =>
    obtain ⟨hi, hmin, hmax⟩ := hw
    obtain ⟨body, hb, hbl, hs, hx⟩ := names_body nextProtocolNameParam_ok nextProtocolNames_ok items hi
    rw [← hbl] at hmin hmax
    refine ⟨body, by simp only [composeExt2Body, hb], by simp [ext2BodySize, hbl], fun s => ?_⟩
    simp only [parseExt2Body]
    rw [parseVecBody_roundTrip items hx body hb hs hmin hmax s]
    simp only [bind, Except.bind, pure, Except.pure]
  | statusRequest =>
    cases b <;> try exact absurd hw id
    next ids exts =>
    obtain ⟨hi, hmin, hmax, hemin, hemax⟩ := hw
    obtain ⟨_, _, hm, hf⟩ := hostNameType_facts
    obtain ⟨body, hb, hbl, hs⟩ := composeItems_sized ids (responderIds_sized ids hi)
    have hbl' : body.length = idsSize responderIdParam ids := hbl
    rw [← hbl'] at hmin hmax
    obtain ⟨hn, hpm⟩ := responderIdListParam_ok
    have hv := parseVecItems_roundTrip hn hpm ids (fun d h => (responderIds_sized ids hi d h).1) body hb hmin hmax
    have ho := parseOpaque_roundTrip requestExtensionsParam_ok.1 requestExtensionsParam_ok.2 exts hemin hemax
    refine ⟨encNat .network 1 ocspStatusType ++ (encNat .network responderIdListParam.numSize body.length ++ body) ++
        (encNat .network requestExtensionsParam.numSize exts.length ++ exts), ?_,
      by simp [ext2BodySize, hbl']; omega, fun s => ?_⟩
    · simp only [composeExt2Body, composeNum_ok (by rfl : validSize 1 = true) hf, (hv []).1, (ho []).1, bind,
        Except.bind, pure, Except.pure]
    · simp only [parseExt2Body, List.append_assoc]
      rw [parseIntEnum_of_num (parseNum_enc (by rfl) hf _) hm]
      simp only [bind, Except.bind, drop_eq_append _ _ (show 1 = (encNat ByteOrder.network 1 ocspStatusType).length by simp)]
      have hv2 := (hv (encNat .network requestExtensionsParam.numSize exts.length ++ (exts ++ s))).2
      rw [List.append_assoc] at hv2
      rw [hv2]
      have hd : (encNat ByteOrder.network responderIdListParam.numSize body.length ++
          (body ++ (encNat ByteOrder.network requestExtensionsParam.numSize exts.length ++ (exts ++ s)))).drop
            (responderIdListParam.numSize + body.length) =
          encNat ByteOrder.network requestExtensionsParam.numSize exts.length ++ (exts ++ s) := by
        rw [← List.append_assoc]
        exact drop_eq_append _ _ (by simp)
      simp only [hd]
      rw [← List.append_assoc, (ho s).2]
      simp only [pure, Except.pure, List.length_append, encNat_length]
      congr 2
      omega
  | keyShareClient =>
    cases b <;> try exact absurd hw id
    next entries =>
    obtain ⟨hi, hmin, hmax⟩ := hw
    obtain ⟨body, hb, hbl, hs⟩ := composeItems_sized (sz := fun e => 4 + e.key.length) entries
      (fun e h => keyShare_itemRT e (hi e h))
    have hbl' : body.length = sharesSize entries := hbl
    rw [← hbl'] at hmin hmax
    obtain ⟨hn, hpm⟩ := keyShareListParam_ok
    have hv := parseVecItems_roundTrip hn hpm entries (fun e h => (keyShare_itemRT e (hi e h)).1) body hb hmin hmax
    refine ⟨_, by simp only [composeExt2Body]; exact (hv []).1, by simp [ext2BodySize, hbl'], fun s => ?_⟩
    simp only [parseExt2Body]
    rw [(hv s).2]
    simp only [bind, Except.bind, pure, Except.pure, List.length_append, encNat_length]
  | keyShareServer =>
    cases b <;> try exact absurd hw id
    next g key =>
    obtain ⟨hg, hmin, hmax⟩ := hw
    obtain ⟨p, hp, hpl, hpp⟩ := keyShareKnown_rt hg hmin hmax
    refine ⟨p, by simp only [composeExt2Body, hp], by simp [ext2BodySize, hpl], fun s => ?_⟩
    simp only [parseExt2Body, hpp s, bind, Except.bind, pure, Except.pure]
  | keyShareHelloRetry =>
    cases b <;> try exact absurd hw id
    next g =>
    have hg : g < Gen.TlsNamedCurve.codes.length := hw
    obtain ⟨a, ha, hal, haa⟩ := codedStrict_rt2 namedCurves_tableOk hg
    refine ⟨a, by simp only [composeExt2Body, ha], by simp [ext2BodySize, hal], fun s => ?_⟩
    simp only [parseExt2Body, hal, bne_self_eq_false, Bool.false_eq_true, if_false]
    rw [haa s]
    simp only [bind, Except.bind, pure, Except.pure, hal]
  | tokenBinding =>
    cases b <;> try exact absurd hw id
    next major minor params =>
    obtain ⟨hmaj, hmin', hx, hmin, hmax⟩ := hw
    obtain ⟨hn, hpm⟩ := tokenBindingParam_ok
    obtain ⟨body, hb, hbl, _⟩ := parseVecCoded_roundTrip tokenBindingParams_tableOk (by decide) hn hpm params hx hmin hmax []
    refine ⟨encNat .network 1 major ++ encNat .network 1 minor ++
        (encNat .network tokenBindingParam.numSize (params.length * 1) ++ body), ?_,
      by simp [ext2BodySize, hbl, ntb]; omega, fun s => ?_⟩
    · simp only [composeExt2Body, tokenBindingVersionCodec, minSize, seq, num,
        composeNum_ok (by rfl : validSize 1 = true) hmaj, composeNum_ok (by rfl : validSize 1 = true) hmin', hb,
        bind, Except.bind, pure, Except.pure]
    · obtain ⟨body', hb', _, hp⟩ := parseVecCoded_roundTrip tokenBindingParams_tableOk (by decide) hn hpm params hx hmin hmax s
      rw [hb] at hb'
      have hbe : body = body' := List.append_cancel_left (Except.ok.inj hb')
      subst hbe
      simp only [parseExt2Body, tokenBindingVersionCodec, minSize, seq, num, List.append_assoc]
      have hlen : ¬ ((encNat ByteOrder.network 1 major ++ (encNat ByteOrder.network 1 minor ++
          (encNat ByteOrder.network tokenBindingParam.numSize (params.length * 1) ++ (body ++ s)))).length < 2) := by
        simp; omega
      simp only [hlen, if_false]
      rw [parseNum_enc (by rfl) hmaj]
      simp only [bind, Except.bind, drop_eq_append _ _ (show 1 = (encNat ByteOrder.network 1 major).length by simp)]
      rw [parseNum_enc (by rfl) hmin']
      simp only [pure, Except.pure]
      have hd : (encNat ByteOrder.network 1 major ++ (encNat ByteOrder.network 1 minor ++
          (encNat ByteOrder.network tokenBindingParam.numSize (params.length * 1) ++ (body ++ s)))).drop (1 + 1) =
          encNat ByteOrder.network tokenBindingParam.numSize (params.length * 1) ++ (body ++ s) := by
        rw [← List.append_assoc]
        exact drop_eq_append _ _ (by simp)
      simp only [hd]
      rw [← List.append_assoc, hp]
      simp only [List.length_append, encNat_length, hbl]
      congr 2
      omega
  | sctList =>
    cases b <;> try exact absurd hw id
    next items =>
    obtain ⟨hi, hmin, hmax⟩ := hw
    obtain ⟨body, hb, hbl, hs⟩ := composeItems_sized (sz := sctSize) items (fun e h => sct_itemRT e (hi e h))
    have hbl' : body.length = sctsSize items := hbl
    rw [← hbl'] at hmin hmax
    obtain ⟨hn, hpm⟩ := sctListParam_ok
    have hv := parseVecItems_roundTrip hn hpm items (fun e h => (sct_itemRT e (hi e h)).1) body hb hmin hmax
    refine ⟨_, by simp only [composeExt2Body]; exact (hv []).1, by simp [ext2BodySize, hbl'], fun s => ?_⟩
    simp only [parseExt2Body]
    rw [(hv s).2]
    simp only [bind, Except.bind, pure, Except.pure, List.length_append, encNat_length]

theorem ext2_body_roundTrip {k : Ext2Kind} {b : Ext2Body} (hw : Ext2BodyWf k b)
    (hsz : ext2BodySize k b < 256 ^ 2) :
    ∃ payload, composeExt2Body k b = .ok payload ∧ payload.length = ext2BodySize k b ∧
      ∀ s, parseExt2Body k payload.length (payload ++ s) = .ok (b, payload.length) := by
  refine ext2_body_roundTrip' hw (fun h hb => ?_)
  subst hb
  cases k <;> first
    | exact absurd hw id
    | (simp only [ext2BodySize, ext2_numSizes.1] at hsz; omega)

/-- composing a well-formed body either succeeds with `ext2BodySize` bytes or (a server name whose
list length does not fit 16 bits) is refused with `InvalidValue` — and then the payload would not
have fitted the extension length either -/
theorem ext2_body_compose {k : Ext2Kind} {b : Ext2Body} (hw : Ext2BodyWf k b) :
    (∃ payload, composeExt2Body k b = .ok payload ∧ payload.length = ext2BodySize k b) ∨
      (composeExt2Body k b = .error .invalidValue ∧ 256 ^ 2 ≤ ext2BodySize k b) := by
  by_cases hsn : ∀ h, b = .hostName h → 3 + h.length < 256 ^ 2
  · obtain ⟨p, hp, hl, _⟩ := ext2_body_roundTrip' hw hsn
    exact .inl ⟨p, hp, hl⟩
  · right
    have ⟨h, hb, h3⟩ : ∃ h, b = .hostName h ∧ ¬ 3 + h.length < 256 ^ 2 := by
      apply Classical.byContradiction
      intro hne
      apply hsn
      intro h hb
      apply Classical.byContradiction
      intro h3
      exact hne ⟨h, hb, h3⟩
    subst hb
    cases k <;> try exact absurd hw id
    obtain ⟨hplain, _, _⟩ := hw
    refine ⟨?_, by simp only [ext2BodySize, ext2_numSizes.1]; omega⟩
    have hbig : composeNum .network 2 ((3 + h.length : Nat) : Int) = .error .invalidValue :=
      composeNum_too_big (by rfl) (by omega)
    simp only [composeExt2Body, hplain, if_true, hbig, bind, Except.bind]

/-! ### what the item parsers accept, and how they fail -/

theorem parseBytes_sizeErr {k : Nat} (hk : validSize k = true) {bs : Bytes} {e : PErr}
    (h : parseBytes .network k bs = .error e) : SizeErr e := by
  unfold parseBytes at h
  rcases exceptBind_err_inv h with h1 | ⟨⟨len, n⟩, _, h⟩
  · exact parseNum_sizeErr hk h1
  · simp only at h
    rcases exceptBind_err_inv h with h2 | ⟨⟨body, m⟩, _, h⟩
    · exact parseRaw_nat_sizeErr h2
    · cases h

theorem parseKeyShareKnown_ok_inv {bs : Bytes} {g : Nat} {key : Bytes} {n : Nat}
    (h : parseKeyShareKnown bs = .ok ((g, key), n)) :
    g < Gen.TlsNamedCurve.codes.length ∧ keyExchangeParam.min ≤ key.length ∧ key.length ≤ keyExchangeParam.max ∧
      0 < n ∧ n ≤ bs.length := by
  unfold parseKeyShareKnown at h
  obtain ⟨⟨g', n1⟩, h1, h⟩ := exceptBind_ok_inv h
  simp only at h
  obtain ⟨⟨key', n2⟩, h2, h⟩ := exceptBind_ok_inv h
  simp only [pure, Except.pure] at h
  cases h
  obtain ⟨c, hc, hf⟩ := parseCoded_ok_inv h1
  obtain ⟨hn1, hk1, _⟩ := parseNum_ok_inv hc
  obtain ⟨hb1, hb2⟩ := parseOpaque_ok_inv h2
  have hl := parseOpaque_lenBound h2
  have hd : (bs.drop n1).length = bs.length - n1 := List.length_drop
  exact ⟨findCode_lt hf, hb1, hb2, by omega, by omega⟩

theorem parseKeyShareKnown_err {bs : Bytes} {e : PErr} (h : parseKeyShareKnown bs = .error e) : Benign e := by
  unfold parseKeyShareKnown at h
  rcases exceptBind_err_inv h with h1 | ⟨⟨g, n1⟩, _, h⟩
  · exact parseCoded_benign (by rfl) h1
  · simp only at h
    rcases exceptBind_err_inv h with h2 | ⟨⟨key, n2⟩, _, h⟩
    · exact (parseOpaque_sizeErr keyExchangeParam_ok.1 h2).benign
    · cases h

theorem parseKeyShareInvalid_err {bs : Bytes} {e : PErr} (h : parseKeyShareInvalid bs = .error e) : SizeErr e := by
  unfold parseKeyShareInvalid parseInvalidType at h
  rcases exceptBind_err_inv h with h1 | ⟨⟨c, n1⟩, _, h⟩
  · exact parseNum_sizeErr (by rfl) h1
  · simp only at h
    rcases exceptBind_err_inv h with h2 | ⟨⟨d, n2⟩, _, h⟩
    · exact parseBytes_sizeErr (by rfl) h2
    · cases h

theorem parseKeyShare_err {bs : Bytes} {e : PErr} (h : parseKeyShare bs = .error e) : SizeErr e := by
  unfold parseKeyShare orElseInvalid at h
  split at h
  · exact parseKeyShareInvalid_err h
  · next hne =>
    have hk := except_map_err_inv' h
    rcases parseKeyShareKnown_err hk with hs | rfl
    · exact hs
    · exact absurd (by show Except.map keyShareOfKnown (parseKeyShareKnown bs) = _; rw [hk]; rfl) hne

theorem parseKeyShare_ok_wf {bs : Bytes} {e : KeyShare} {n : Nat} (h : parseKeyShare bs = .ok (e, n)) :
    KeyShareWf e ∧ 0 < n ∧ n ≤ bs.length := by
  unfold parseKeyShare orElseInvalid at h
  split at h
  · next hinv =>
    -- the strict class refused the group code: the fallback keeps it
    have hk := except_map_err_inv' hinv
    unfold parseKeyShareKnown at hk
    have hcoded : parseCoded Gen.TlsNamedCurve.codes 2 bs = .error .invalidValue := by
      rcases exceptBind_err_inv hk with h1 | ⟨⟨g, n1⟩, _, hk⟩
      · exact h1
      · simp only at hk
        rcases exceptBind_err_inv hk with h2 | ⟨⟨key, n2⟩, _, hk⟩
        · exact absurd rfl (parseOpaque_sizeErr keyExchangeParam_ok.1 h2).ne_invalidValue
        · cases hk
    obtain ⟨c, hp, hf⟩ := parseCoded_invalidValue_inv' (by rfl) hcoded
    unfold parseKeyShareInvalid parseInvalidType at h
    rw [hp] at h
    simp only [bind, Except.bind] at h
    cases hb : parseBytes .network 2 (bs.drop 2) with
    | error e' => simp [hb] at h
    | ok r =>
      obtain ⟨d, n2⟩ := r
      simp only [hb, pure, Except.pure] at h
      cases h
      obtain ⟨_, _, hn2, hn2le, _, _, hdl⟩ := parseBytes_ok_inv hb
      obtain ⟨_, hk2, hc2, _⟩ := parseNum_ok_inv hp
      have hd : (bs.drop 2).length = bs.length - 2 := List.length_drop
      exact ⟨⟨hc2, findCode_none hf, hdl⟩, by omega, by omega⟩
  · obtain ⟨⟨⟨g, key⟩, n'⟩, hk, he⟩ := except_map_ok_inv h
    simp only [keyShareOfKnown] at he
    cases he
    obtain ⟨hg, h1, h2, hn, hnl⟩ := parseKeyShareKnown_ok_inv hk
    exact ⟨⟨hg, h1, h2⟩, hn, hnl⟩

theorem parseTimestamp_ms_ok_inv {rest : Bytes} {t : Option Nat} {n : Nat}
    (h : parseTimestamp .network true 8 rest = .ok (t, n)) :
    n = 8 ∧ 8 ≤ rest.length ∧ ∀ v, t = some v → v / 1000 ≤ maxEpochSeconds := by
  obtain ⟨hn, hk, _, v, _, ht, hle⟩ := parseTimestamp_ok_inv h
  refine ⟨hn, hk, fun w hw => ?_⟩
  subst hw
  by_cases hs : v = 256 ^ 8 - 1
  · rw [if_pos hs] at ht; cases ht
  · rw [if_neg hs] at ht
    cases ht
    simpa [tsSeconds] using hle hs

theorem parseSct_ok_wf {bs : Bytes} {s : Sct} {n : Nat} (h : parseSct bs = .ok (s, n)) :
    SctWf s ∧ 0 < n ∧ n ≤ bs.length := by
  unfold parseSct at h
  obtain ⟨⟨blob, n0⟩, h0, h⟩ := exceptBind_ok_inv h
  simp only at h
  obtain ⟨⟨ver, a⟩, h1, h⟩ := exceptBind_ok_inv h
  simp only at h
  obtain ⟨⟨log, b⟩, h2, h⟩ := exceptBind_ok_inv h
  simp only at h
  obtain ⟨⟨ts, c⟩, h3, h⟩ := exceptBind_ok_inv h
  simp only at h
  obtain ⟨⟨ext, d⟩, h4, h⟩ := exceptBind_ok_inv h
  simp only at h
  obtain ⟨⟨alg, e⟩, h5, h⟩ := exceptBind_ok_inv h
  simp only at h
  obtain ⟨⟨sig, f⟩, h6, h⟩ := exceptBind_ok_inv h
  simp only at h
  cases ts with
  | none => cases h
  | some t =>
    simp only [pure, Except.pure] at h
    cases h
    obtain ⟨_, _, hn0, hn0le, _, _, hblob⟩ := parseBytes_ok_inv h0
    obtain ⟨hp1, hv⟩ := parseIntEnum_ok_inv h1
    obtain ⟨ha, hka, hvf, _⟩ := parseNum_ok_inv hp1
    obtain ⟨_, hb, hble, hlog⟩ := parseRaw_ok_inv h2
    obtain ⟨hc, hcle, hts⟩ := parseTimestamp_ms_ok_inv h3
    obtain ⟨hpe, hextle, _, hd, hemin, hemax, _⟩ := parseOpaque_ok_full h4
    have hke4 := (parseNum_ok_inv hpe).2.1
    obtain ⟨cc, hp5, hf5⟩ := parseCoded_ok_inv h5
    obtain ⟨he, hke, _⟩ := parseNum_ok_inv hp5
    obtain ⟨hps, hsigle, _, hf, hsmin, hsmax, _⟩ := parseOpaque_ok_full h6
    have hke6 := (parseNum_ok_inv hps).2.1
    obtain ⟨he2, hs2⟩ := ctParams_numSize
    have hb32 : b = 32 := by simpa using hb
    rw [he2] at hd hextle hke4
    rw [hs2] at hf hsigle hke6
    subst ha; subst hb32; subst hc; subst hd; subst he
    have hlogl : log.length = 32 := by rw [hlog, List.length_take]; omega
    simp only [List.length_drop] at hble hcle hextle hsigle hke hke4 hke6
    refine ⟨⟨hv, hvf, hlogl, hts t rfl, hemin, hemax, findCode_lt hf5, hsmin, hsmax, ?_⟩, by omega, hn0le⟩
    show 47 + ext.length + sig.length < 256 ^ 2
    omega

theorem parseSct_err {bs : Bytes} {e : PErr} (h : parseSct bs = .error e) : Benign e := by
  unfold parseSct at h
  rcases exceptBind_err_inv h with h0 | ⟨⟨blob, n0⟩, _, h⟩
  · exact (parseBytes_sizeErr (by rfl) h0).benign
  simp only at h
  rcases exceptBind_err_inv h with h1 | ⟨⟨ver, a⟩, _, h⟩
  · exact parseIntEnum_benign (by rfl) h1
  simp only at h
  rcases exceptBind_err_inv h with h2 | ⟨⟨log, b⟩, _, h⟩
  · exact parseRaw_benign h2
  simp only at h
  rcases exceptBind_err_inv h with h3 | ⟨⟨ts, c⟩, _, h⟩
  · rcases parseTimestamp_err_inv h3 with h31 | ⟨h31, _⟩
    · exact (parseNum_sizeErr (by rfl) h31).benign
    · exact .inr h31
  simp only at h
  rcases exceptBind_err_inv h with h4 | ⟨⟨ext, d⟩, _, h⟩
  · exact (parseOpaque_sizeErr ctExtensionsParam_ok.1 h4).benign
  simp only at h
  rcases exceptBind_err_inv h with h5 | ⟨⟨alg, e'⟩, _, h⟩
  · exact parseCoded_benign (by rfl) h5
  simp only at h
  rcases exceptBind_err_inv h with h6 | ⟨⟨sig, f⟩, _, h⟩
  · exact (parseOpaque_sizeErr ctSignatureParam_ok.1 h6).benign
  simp only at h
  cases ts with
  | none => cases h; exact .inr rfl
  | some t => cases h

/-! ### what the body parsers accept -/

theorem parseVecItems_ok_full {α : Type} {p : VecParam} {item : Bytes → Except PErr (α × Nat)}
    {sizeOf : α → Except PErr Nat} {bs : Bytes} {xs : List α} {t : Nat}
    (h : parseVecItems p item sizeOf bs = .ok (xs, t)) :
    (∀ x ∈ xs, ∃ b' n, item b' = .ok (x, n)) ∧ (∃ sz, sumSizes sizeOf xs = .ok sz ∧ p.min ≤ sz ∧ sz ≤ p.max) ∧
      t ≤ bs.length ∧ p.numSize ≤ t := by
  obtain ⟨len, sz, hn, hle, hi, hs, hmin, hmax, ht⟩ := parseVecItems_ok_inv h
  have hk := (parseNum_ok_inv hn).2.1
  have hd : (bs.drop p.numSize).length = bs.length - p.numSize := List.length_drop
  exact ⟨parseItems_ok_forall hi, ⟨sz, hs, hmin, hmax⟩, by omega, by omega⟩

theorem parseVecBody_ok_full {α : Type} {p : VecParam} {item : Bytes → Except PErr (α × Nat)}
    {sizeOf : α → Except PErr Nat} {len : Nat} {rest : Bytes} {xs : List α} {t : Nat}
    (h : parseVecBody p item sizeOf len rest = .ok (xs, t)) :
    (∀ x ∈ xs, ∃ b' n, item b' = .ok (x, n)) ∧ (∃ sz, sumSizes sizeOf xs = .ok sz ∧ p.min ≤ sz ∧ sz ≤ p.max) ∧
      t ≤ rest.length ∧ t = len := by
  unfold parseVecBody at h
  split at h
  · cases h
  · next hshort =>
    obtain ⟨items, hi, h⟩ := exceptBind_ok_inv h
    obtain ⟨sz, hs, h⟩ := exceptBind_ok_inv h
    obtain ⟨u, hc, h⟩ := exceptBind_ok_inv h
    simp only [pure, Except.pure] at h
    cases h
    obtain ⟨hmin, hmax⟩ := checkBounds_ok_inv hc
    exact ⟨parseItems_ok_forall hi, ⟨sz, hs, hmin, hmax⟩, by omega, rfl⟩

theorem names_parsed_size {p : VecParam} {table : List Gen.WireName} (hp : ParamOk p) (ht : NamesOk p table)
    {items : List Nat} (hi : ∀ i ∈ items, ∃ b' n, parseName p table b' = .ok (i, n)) {sz : Nat}
    (hs : sumSizes (nameSize p table) items = .ok sz) :
    (∀ i ∈ items, i < table.length) ∧ sz = namesSize p table items := by
  have hlt : ∀ i ∈ items, i < table.length := fun i h => by
    obtain ⟨b', n, hb⟩ := hi i h
    exact (parseName_ok_inv hb).1
  obtain ⟨body, _, hbl, hs', _⟩ := names_body hp ht items hlt
  rw [hs] at hs'
  cases hs'
  exact ⟨hlt, hbl⟩

theorem ids_parsed_size {p : VecParam} (hp : ParamOk p) {ids : List Bytes}
    (hi : ∀ d ∈ ids, ∃ b' n, parseOpaque p b' = .ok (d, n)) {sz : Nat}
    (hs : sumSizes (fun d => (composeOpaque p d).map (·.length)) ids = .ok sz) :
    (∀ d ∈ ids, p.min ≤ d.length ∧ d.length ≤ p.max) ∧ sz = idsSize p ids := by
  have hb : ∀ d ∈ ids, p.min ≤ d.length ∧ d.length ≤ p.max := fun d h => by
    obtain ⟨b', n, hb⟩ := hi d h
    exact parseOpaque_ok_inv hb
  obtain ⟨body, _, hbl, hs'⟩ := composeItems_sized (sz := fun d => p.numSize + d.length) ids
    (fun d h => ⟨opaque_itemRT hp d (hb d h).1 (hb d h).2, composeOpaque_length hp d (hb d h).1 (hb d h).2⟩)
  rw [hs] at hs'
  cases hs'
  exact ⟨hb, hbl⟩

theorem shares_parsed_size {entries : List KeyShare}
    (hi : ∀ e ∈ entries, ∃ b' n, parseKeyShare b' = .ok (e, n)) {sz : Nat}
    (hs : sumSizes (fun e => (composeKeyShare e).map (·.length)) entries = .ok sz) :
    (∀ e ∈ entries, KeyShareWf e) ∧ sz = sharesSize entries := by
  have hw : ∀ e ∈ entries, KeyShareWf e := fun e h => by
    obtain ⟨b', n, hb⟩ := hi e h
    exact (parseKeyShare_ok_wf hb).1
  obtain ⟨body, _, hbl, hs'⟩ := composeItems_sized (sz := fun e => 4 + e.key.length) entries
    (fun e h => keyShare_itemRT e (hw e h))
  rw [hs] at hs'
  cases hs'
  exact ⟨hw, hbl⟩

theorem scts_parsed_size {items : List Sct}
    (hi : ∀ s ∈ items, ∃ b' n, parseSct b' = .ok (s, n)) {sz : Nat}
    (hs : sumSizes (fun s => (composeSct s).map (·.length)) items = .ok sz) :
    (∀ s ∈ items, SctWf s) ∧ sz = sctsSize items := by
  have hw : ∀ s ∈ items, SctWf s := fun s h => by
    obtain ⟨b', n, hb⟩ := hi s h
    exact (parseSct_ok_wf hb).1
  obtain ⟨body, _, hbl, hs'⟩ := composeItems_sized (sz := sctSize) items (fun s h => sct_itemRT s (hw s h))
  rw [hs] at hs'
  cases hs'
  exact ⟨hw, hbl⟩

/-- a body the class's parser returned is one a caller could have built, and the parser stayed
inside the buffer -/
theorem parseExt2Body_ok {k : Ext2Kind} {len : Nat} {rest : Bytes} {b : Ext2Body} {m : Nat}
    (h : parseExt2Body k len rest = .ok (b, m)) : Ext2BodyWf k b ∧ m ≤ rest.length := by
  cases k with
  | serverName =>
    simp only [parseExt2Body] at h
    obtain ⟨⟨l, n1⟩, h1, h⟩ := exceptBind_ok_inv h
    simp only at h
    obtain ⟨⟨ty, n2⟩, h2, h⟩ := exceptBind_ok_inv h
    simp only at h
    obtain ⟨⟨host, n3⟩, h3, h⟩ := exceptBind_ok_inv h
    simp only at h
    split at h
    · next hplain =>
      simp only [pure, Except.pure] at h
      cases h
      obtain ⟨hn1, hk1, _⟩ := parseNum_ok_inv h1
      obtain ⟨hp2, _⟩ := parseIntEnum_ok_inv h2
      obtain ⟨hn2, hk2, _⟩ := parseNum_ok_inv hp2
      obtain ⟨hmin, hmax⟩ := parseOpaque_ok_inv h3
      have hl3 := (parseOpaque_lenBound h3).1
      subst hn1; subst hn2
      simp only [List.length_drop] at hk2 hl3
      exact ⟨⟨hplain, hmin, hmax⟩, by omega⟩
    · cases h
  | protocolNames =>
    simp only [parseExt2Body] at h
    obtain ⟨⟨items, m'⟩, h1, h⟩ := exceptBind_ok_inv h
    simp only [pure, Except.pure] at h
    cases h
    obtain ⟨hi, ⟨sz, hs, hmin, hmax⟩, hle, _⟩ := parseVecItems_ok_full h1
    obtain ⟨hlt, hsz⟩ := names_parsed_size protocolNameParam_ok protocolNames_ok hi hs
    subst hsz
    exact ⟨⟨hlt, hmin, hmax⟩, hle⟩
  | nextProtocolNames =>
    simp only [parseExt2Body] at h
    obtain ⟨⟨items, m'⟩, h1, h⟩ := exceptBind_ok_inv h
    simp only [pure, Except.pure] at h
    cases h
    obtain ⟨hi, ⟨sz, hs, hmin, hmax⟩, hle, _⟩ := parseVecBody_ok_full h1
    obtain ⟨hlt, hsz⟩ := names_parsed_size nextProtocolNameParam_ok nextProtocolNames_ok hi hs
    subst hsz
    exact ⟨⟨hlt, hmin, hmax⟩, hle⟩
  | statusRequest =>
    simp only [parseExt2Body] at h
    obtain ⟨⟨ty, n1⟩, h1, h⟩ := exceptBind_ok_inv h
    simp only at h
    obtain ⟨⟨ids, n2⟩, h2, h⟩ := exceptBind_ok_inv h
    simp only at h
    obtain ⟨⟨exts, n3⟩, h3, h⟩ := exceptBind_ok_inv h
    simp only [pure, Except.pure] at h
    cases h
    obtain ⟨hp1, _⟩ := parseIntEnum_ok_inv h1
    obtain ⟨hn1, hk1, _⟩ := parseNum_ok_inv hp1
    obtain ⟨hi, ⟨sz, hs, hmin, hmax⟩, hle2, _⟩ := parseVecItems_ok_full h2
    obtain ⟨hb, hsz⟩ := ids_parsed_size responderIdParam_ok hi hs
    obtain ⟨hemin, hemax⟩ := parseOpaque_ok_inv h3
    have hl3 := (parseOpaque_lenBound h3).1
    subst hsz; subst hn1
    simp only [List.length_drop] at hle2 hl3
    exact ⟨⟨hb, hmin, hmax, hemin, hemax⟩, by omega⟩
  | keyShareClient =>
    simp only [parseExt2Body] at h
    obtain ⟨⟨entries, m'⟩, h1, h⟩ := exceptBind_ok_inv h
    simp only [pure, Except.pure] at h
    cases h
    obtain ⟨hi, ⟨sz, hs, hmin, hmax⟩, hle, _⟩ := parseVecItems_ok_full h1
    obtain ⟨hw, hsz⟩ := shares_parsed_size hi hs
    subst hsz
    exact ⟨⟨hw, hmin, hmax⟩, hle⟩
  | keyShareServer =>
    simp only [parseExt2Body] at h
    obtain ⟨⟨⟨g, key⟩, m'⟩, h1, h⟩ := exceptBind_ok_inv h
    simp only [pure, Except.pure] at h
    cases h
    obtain ⟨hg, hmin, hmax, _, hle⟩ := parseKeyShareKnown_ok_inv h1
    exact ⟨⟨hg, hmin, hmax⟩, hle⟩
  | keyShareHelloRetry =>
    simp only [parseExt2Body] at h
    split at h
    · cases h
    · obtain ⟨⟨g, m'⟩, h1, h⟩ := exceptBind_ok_inv h
      simp only [pure, Except.pure] at h
      cases h
      obtain ⟨c, hc, hf⟩ := parseCoded_ok_inv h1
      obtain ⟨hn, hk, _⟩ := parseNum_ok_inv hc
      exact ⟨findCode_lt hf, by omega⟩
  | tokenBinding =>
    simp only [parseExt2Body, tokenBindingVersionCodec, minSize, seq, num] at h
    obtain ⟨⟨⟨major, minor⟩, n1⟩, h1, h⟩ := exceptBind_ok_inv h
    simp only at h
    obtain ⟨⟨params, n2⟩, h2, h⟩ := exceptBind_ok_inv h
    simp only [pure, Except.pure] at h
    cases h
    split at h1
    · cases h1
    · obtain ⟨⟨ma, a⟩, ha, h1⟩ := exceptBind_ok_inv h1
      simp only at h1
      obtain ⟨⟨mi, b'⟩, hb, h1⟩ := exceptBind_ok_inv h1
      simp only [pure, Except.pure] at h1
      cases h1
      obtain ⟨hna, hka, hva, _⟩ := parseNum_ok_inv ha
      obtain ⟨hnb, hkb, hvb, _⟩ := parseNum_ok_inv hb
      obtain ⟨hx, hmin, hmax, _⟩ := parseVecCoded_ok_inv h2
      obtain ⟨_, _, hle, _⟩ := parseVecItems_ok_full h2
      subst hna; subst hnb
      simp only [List.length_drop] at hkb hle
      exact ⟨⟨hva, hvb, hx, hmin, hmax⟩, by omega⟩
  | sctList =>
    simp only [parseExt2Body] at h
    obtain ⟨⟨items, m'⟩, h1, h⟩ := exceptBind_ok_inv h
    simp only [pure, Except.pure] at h
    cases h
    obtain ⟨hi, ⟨sz, hs, hmin, hmax⟩, hle, _⟩ := parseVecItems_ok_full h1
    obtain ⟨hw, hsz⟩ := scts_parsed_size hi hs
    subst hsz
    exact ⟨⟨hw, hmin, hmax⟩, hle⟩

theorem parseExt2Body_ok_wf {k : Ext2Kind} {len : Nat} {rest : Bytes} {b : Ext2Body} {m : Nat}
    (h : parseExt2Body k len rest = .ok (b, m)) : Ext2BodyWf k b := (parseExt2Body_ok h).1

theorem parseExt2Body_lenBound {k : Ext2Kind} {len : Nat} {rest : Bytes} {b : Ext2Body} {m : Nat}
    (h : parseExt2Body k len rest = .ok (b, m)) : m ≤ rest.length := (parseExt2Body_ok h).2

/-! ### how the body parsers fail -/

theorem parseVecBody_errP {α : Type} {P : PErr → Prop} (hP : HasSizeErrs P) {p : VecParam}
    {item : Bytes → Except PErr (α × Nat)} {sizeOf : α → Except PErr Nat}
    (hb : ∀ b e, item b = .error e → P e) (hpos : ∀ b x n, item b = .ok (x, n) → 0 < n)
    (hs : ∀ x e, (∃ b n, item b = .ok (x, n)) → sizeOf x = .error e → P e)
    {len : Nat} {rest : Bytes} {e : PErr} (h : parseVecBody p item sizeOf len rest = .error e) : P e := by
  unfold parseVecBody at h
  split at h
  · cases h; exact hP.notEnough _
  · next hlen =>
    simp only [bind, Except.bind] at h
    cases hi : parseItems item len (rest.take len) with
    | error e' =>
      simp only [hi] at h
      cases h
      exact parseItems_errP hb hpos (by simp; omega) hi
    | ok items =>
      simp only [hi] at h
      cases hss : sumSizes sizeOf items with
      | error e' =>
        simp only [hss] at h
        cases h
        obtain ⟨x, hxm, hx⟩ := sumSizes_err_inv hss
        exact hs x _ (parseItems_ok_forall hi x hxm) hx
      | ok sz =>
        simp only [hss] at h
        cases hc : checkBounds p sz with
        | error e' =>
          simp only [hc] at h
          cases h
          exact (checkBounds_sizeErr hc).of hP
        | ok u => simp [hc, pure, Except.pure] at h

/-- the errors a body parser of Ext2.lean can end in, besides the documented ones -/
def Ext2Special (k : Ext2Kind) (len : Nat) (e : PErr) : Prop :=
  (k = .serverName ∧ e = unmodelled) ∨ (k.declines len = true ∧ e = .invalidType)

theorem nameSize_ok_of_parsed {p : VecParam} {table : List Gen.WireName} {i : Nat} {e : PErr}
    (hx : ∃ b n, parseName p table b = .ok (i, n)) (h : nameSize p table i = .error e) : False := by
  obtain ⟨b, n, hb⟩ := hx
  have hi := (parseName_ok_inv hb).1
  simp [nameSize, List.getElem?_eq_getElem hi] at h

/-- every error of a body parser is a documented parse error, or — for one class each — the
model's boundary marker (a server name the idna codec would change), the `InvalidType` by which the
HelloRetryRequest form of `key_share` declines an extension that is not two bytes long -/
theorem parseExt2Body_err {k : Ext2Kind} {len : Nat} {rest : Bytes} {e : PErr}
    (h : parseExt2Body k len rest = .error e) : Benign e ∨ Ext2Special k len e := by
  cases k with
  | serverName =>
    simp only [parseExt2Body] at h
    rcases exceptBind_err_inv h with h1 | ⟨⟨l, n1⟩, _, h⟩
    · exact .inl (parseNum_sizeErr (by rfl) h1).benign
    simp only at h
    rcases exceptBind_err_inv h with h2 | ⟨⟨ty, n2⟩, _, h⟩
    · exact .inl (parseIntEnum_benign (by rfl) h2)
    simp only at h
    rcases exceptBind_err_inv h with h3 | ⟨⟨host, n3⟩, _, h⟩
    · exact .inl (parseOpaque_sizeErr serverNameParam_ok.1 h3).benign
    simp only at h
    split at h
    · cases h
    · cases h; exact .inr (.inl ⟨rfl, rfl⟩)
  | protocolNames =>
    simp only [parseExt2Body] at h
    rcases exceptBind_err_inv h with h1 | ⟨_, _, h⟩
    · exact .inl (parseVecItems_errP Benign.hasSizeErrs protocolNameListParam_ok.1
        (fun _ _ h => parseName_err protocolNameParam_ok.1 h) (fun _ _ _ h => (parseName_ok_inv h).2.1)
        (fun _ _ hx h => (nameSize_ok_of_parsed hx h).elim) h1)
    · cases h
  | nextProtocolNames =>
    simp only [parseExt2Body] at h
    rcases exceptBind_err_inv h with h1 | ⟨_, _, h⟩
    · exact .inl (parseVecBody_errP Benign.hasSizeErrs
        (fun _ _ h => parseName_err nextProtocolNameParam_ok.1 h) (fun _ _ _ h => (parseName_ok_inv h).2.1)
        (fun _ _ hx h => (nameSize_ok_of_parsed hx h).elim) h1)
    · cases h
  | statusRequest =>
    simp only [parseExt2Body] at h
    rcases exceptBind_err_inv h with h1 | ⟨⟨ty, n1⟩, _, h⟩
    · exact .inl (parseIntEnum_benign (by rfl) h1)
    simp only at h
    rcases exceptBind_err_inv h with h2 | ⟨⟨ids, n2⟩, _, h⟩
    · refine .inl (parseVecItems_errP Benign.hasSizeErrs responderIdListParam_ok.1
        (fun _ _ h => (parseOpaque_sizeErr responderIdParam_ok.1 h).benign)
        (fun _ _ _ h => (parseOpaque_lenBound h).2) ?_ h2)
      intro d e' ⟨b, n, hb⟩ hs
      obtain ⟨hmin, hmax⟩ := parseOpaque_ok_inv hb
      rw [composeOpaque_length responderIdParam_ok d hmin hmax] at hs
      cases hs
    simp only at h
    rcases exceptBind_err_inv h with h3 | ⟨_, _, h⟩
    · exact .inl (parseOpaque_sizeErr requestExtensionsParam_ok.1 h3).benign
    · cases h
  | keyShareClient =>
    simp only [parseExt2Body] at h
    rcases exceptBind_err_inv h with h1 | ⟨_, _, h⟩
    · refine .inl (parseVecItems_errP Benign.hasSizeErrs keyShareListParam_ok.1
        (fun _ _ h => (parseKeyShare_err h).benign) (fun _ _ _ h => (parseKeyShare_ok_wf h).2.1) ?_ h1)
      intro x e' ⟨b, n, hb⟩ hs
      rw [(keyShare_itemRT x (parseKeyShare_ok_wf hb).1).2] at hs
      cases hs
    · cases h
  | keyShareServer =>
    simp only [parseExt2Body] at h
    rcases exceptBind_err_inv h with h1 | ⟨_, _, h⟩
    · exact .inl (parseKeyShareKnown_err h1)
    · cases h
  | keyShareHelloRetry =>
    simp only [parseExt2Body] at h
    split at h
    · next hl =>
      cases h
      exact .inr (.inr ⟨by simpa [Ext2Kind.declines] using hl, rfl⟩)
    · rcases exceptBind_err_inv h with h1 | ⟨_, _, h⟩
      · exact .inl (parseCoded_benign (by rfl) h1)
      · cases h
  | tokenBinding =>
    simp only [parseExt2Body, tokenBindingVersionCodec, minSize, seq, num] at h
    rcases exceptBind_err_inv h with h1 | ⟨⟨⟨major, minor⟩, n1⟩, _, h⟩
    · split at h1
      · cases h1; exact .inl (Benign.hasSizeErrs.notEnough _)
      · rcases exceptBind_err_inv h1 with ha | ⟨⟨ma, a⟩, _, h1⟩
        · exact .inl (parseNum_sizeErr (by rfl) ha).benign
        simp only at h1
        rcases exceptBind_err_inv h1 with hb | ⟨_, _, h1⟩
        · exact .inl (parseNum_sizeErr (by rfl) hb).benign
        · cases h1
    simp only at h
    rcases exceptBind_err_inv h with h2 | ⟨_, _, h⟩
    · exact .inl (parseVecCoded_sizeErr tokenBindingParam_ok.1 (by rfl) h2).benign
    · cases h
  | sctList =>
    simp only [parseExt2Body] at h
    rcases exceptBind_err_inv h with h1 | ⟨_, _, h⟩
    · exact .inl (parseVecItems_errP Benign.hasSizeErrs sctListParam_ok.1
        (fun _ _ h => parseSct_err h) (fun _ _ _ h => (parseSct_ok_wf h).2.1)
        (fun x e' ⟨b, n, hb⟩ hs => by
          rw [(sct_itemRT x (parseSct_ok_wf hb).1).2] at hs
          cases hs) h1)
    · cases h

/-- a class that declines the declared length answers `InvalidType` whatever the data -/
theorem ext2_declines_parse {k : Ext2Kind} {len : Nat} (hd : k.declines len = true) (rest : Bytes) :
    parseExt2Body k len rest = .error .invalidType := by
  cases k <;> simp [Ext2Kind.declines] at hd
  simp [parseExt2Body, hd]

/-- … and a class that does not decline it never answers `InvalidType` -/
theorem ext2_not_declines {k : Ext2Kind} {len : Nat} (hd : k.declines len = false) (rest : Bytes) :
    parseExt2Body k len rest ≠ .error .invalidType := by
  intro h
  rcases parseExt2Body_err h with hb | ⟨_, he⟩ | ⟨hd', _⟩
  · exact hb.not_invalidType rfl
  · simp [unmodelled] at he
  · rw [hd] at hd'; cases hd'

/-! ### extension data a class rejects whatever follows it -/

/-- data under the type of a class of Ext2.lean that the class's parser rejects with `InvalidValue`
WHATEVER follows it in the buffer (the extension is then kept by the fallback class
`TlsExtensionUnparsed`, and comes back as such from compose → parse): a server name entry of a type
other than host_name, a status request of a type other than OCSP, a key share of an unknown group -/
def Ext2Rejects : Ext2Kind → Bytes → Prop
  | .serverName, d =>
    3 ≤ d.length ∧ decNat .network ((d.drop 2).take 1) ∉ Gen.TlsServerNameType.memberCodes
  | .statusRequest, d => 1 ≤ d.length ∧ decNat .network (d.take 1) ∉ Gen.TlsCertificateStatusType.memberCodes
  | .keyShareServer, d => 2 ≤ d.length ∧ findCode (decNat .network (d.take 2)) Gen.TlsNamedCurve.codes = none
  | .keyShareHelloRetry, d =>
    d.length = 2 ∧ findCode (decNat .network (d.take 2)) Gen.TlsNamedCurve.codes = none
  | _, _ => False

theorem parseNum_prefix {k : Nat} (hk : validSize k = true) {d : Bytes} (hd : k ≤ d.length) (s : Bytes) :
    parseNum .network k (d ++ s) = .ok (decNat .network (d.take k), k) := by
  have hsplit : d ++ s = d.take k ++ (d.drop k ++ s) := by
    rw [← List.append_assoc, List.take_append_drop]
  have hl : (d.take k).length = k := by simp; omega
  rw [hsplit]
  exact parseNum_append hk _ _ hl

theorem drop_append_of_le {α : Type} {d s : List α} {n : Nat} (h : n ≤ d.length) :
    (d ++ s).drop n = d.drop n ++ s := List.drop_append_of_le_length h

theorem parseIntEnum_reject {members : List Nat} {k : Nat} {bs : Bytes} {v : Nat}
    (hp : parseNum .network k bs = .ok (v, k)) (hm : v ∉ members) :
    parseIntEnum members k bs = .error .invalidValue := by
  have : members.contains v = false := by simpa using hm
  simp only [parseIntEnum, hp, bind, Except.bind, this]
  rfl

theorem ext2Rejects_parse {k : Ext2Kind} {d : Bytes} (h : Ext2Rejects k d) (s : Bytes) :
    parseExt2Body k d.length (d ++ s) = .error .invalidValue := by
  cases k <;> try exact absurd h id
  · -- serverName
    obtain ⟨h3, hm⟩ := h
    have h1 := parseNum_prefix (k := 2) (by rfl) (by omega) (d := d) s
    have hd2 : 1 ≤ (d.drop 2).length := by simp; omega
    have h2 := parseNum_prefix (k := 1) (by rfl) hd2 s
    simp only [parseExt2Body, h1, bind, Except.bind, drop_append_of_le (show 2 ≤ d.length by omega),
      parseIntEnum_reject h2 hm]
  · -- statusRequest
    obtain ⟨h1, hm⟩ := h
    have hp := parseNum_prefix (k := 1) (by rfl) h1 s
    simp only [parseExt2Body, parseIntEnum_reject hp hm, bind, Except.bind]
  · -- keyShareServer
    obtain ⟨h2, hf⟩ := h
    have hp := parseNum_prefix (k := 2) (by rfl) h2 s
    simp only [parseExt2Body, parseKeyShareKnown, parseCoded, hp, hf, bind, Except.bind]
  · -- keyShareHelloRetry
    obtain ⟨h2, hf⟩ := h
    have hp := parseNum_prefix (k := 2) (by rfl) (show 2 ≤ d.length by omega) s
    simp only [parseExt2Body, h2, bne_self_eq_false, Bool.false_eq_true, if_false, parseCoded, hp, hf, bind,
      Except.bind]

/-! ### decidability of the well-formedness predicates (for the non-vacuity examples) -/

instance (codes : List Nat) (k : Nat) (c : Coded) : Decidable (CodedWf codes k c) := by
  cases c <;> (simp only [CodedWf]; infer_instance)

instance (e : KeyShare) : Decidable (KeyShareWf e) := by
  obtain ⟨g, key⟩ := e
  cases g <;> (simp only [KeyShareWf]; infer_instance)

theorem sctWf_iff (s : Sct) : SctWf s ↔
    (s.version ∈ Gen.CtVersion.memberCodes ∧ s.version < 256 ^ 1 ∧ s.log.length = 32 ∧
      s.timestamp / 1000 ≤ maxEpochSeconds ∧ (vp Gen.vec_CtExtensions).min ≤ s.extensions.length ∧
      s.extensions.length ≤ (vp Gen.vec_CtExtensions).max ∧
      s.algorithm < Gen.TlsSignatureAndHashAlgorithm.codes.length ∧
      (vp Gen.vec_CtSignature).min ≤ s.signature.length ∧ s.signature.length ≤ (vp Gen.vec_CtSignature).max ∧
      47 + s.extensions.length + s.signature.length < 256 ^ 2) :=
  ⟨fun ⟨a, b, c, d, e, f, g, h, i, j⟩ => ⟨a, b, c, d, e, f, g, h, i, j⟩,
   fun ⟨a, b, c, d, e, f, g, h, i, j⟩ => ⟨a, b, c, d, e, f, g, h, i, j⟩⟩

instance (s : Sct) : Decidable (SctWf s) := decidable_of_iff _ (sctWf_iff s).symm

instance (k : Ext2Kind) (b : Ext2Body) : Decidable (Ext2BodyWf k b) := by
  cases k <;> cases b <;> (simp only [Ext2BodyWf]; infer_instance)

end Cp.Tls
