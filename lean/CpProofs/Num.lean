import CpModel.Prim
import CpSpec.Wire
/-
  Helper lemmas about the fixed-width integer primitives.
-/
namespace Cp

@[simp] theorem leBytes_length (k v : Nat) : (leBytes k v).length = k := by
  induction k generalizing v with
  | zero => rfl
  | succ k ih => simp [leBytes, ih]

@[simp] theorem beBytes_length (k v : Nat) : (beBytes k v).length = k := by
  simp [beBytes]

@[simp] theorem encNat_length (bo : ByteOrder) (k v : Nat) : (encNat bo k v).length = k := by
  unfold encNat; split <;> simp

theorem leVal_leBytes (k v : Nat) : leVal (leBytes k v) = v % 256 ^ k := by
  induction k generalizing v with
  | zero => simp [leBytes, leVal, Nat.mod_one]
  | succ k ih =>
    simp only [leBytes, leVal, ih]
    have h : (UInt8.ofNat (v % 256)).toNat = v % 256 := by
      simp [UInt8.toNat_ofNat']
    rw [h, Nat.pow_succ, Nat.mul_comm (256 ^ k) 256, Nat.mod_mul]

theorem leVal_lt (b : Bytes) : leVal b < 256 ^ b.length := by
  induction b with
  | nil => simp [leVal]
  | cons x xs ih =>
    simp only [leVal, List.length_cons, Nat.pow_succ]
    have := x.toNat_lt
    omega

theorem leBytes_leVal (b : Bytes) : leBytes b.length (leVal b) = b := by
  induction b with
  | nil => rfl
  | cons x xs ih =>
    simp only [List.length_cons, leBytes, leVal]
    have hx := x.toNat_lt
    have h1 : (x.toNat + 256 * leVal xs) % 256 = x.toNat := by omega
    have h2 : (x.toNat + 256 * leVal xs) / 256 = leVal xs := by omega
    rw [h1, h2, ih]
    simp

theorem beVal_beBytes (k v : Nat) : beVal (beBytes k v) = v % 256 ^ k := by
  simp [beVal, beBytes, leVal_leBytes]

theorem beBytes_beVal (b : Bytes) : beBytes b.length (beVal b) = b := by
  have := leBytes_leVal b.reverse
  simp only [List.length_reverse] at this
  simp [beBytes, beVal, this]

theorem beVal_lt (b : Bytes) : beVal b < 256 ^ b.length := by
  have := leVal_lt b.reverse
  simpa [beVal] using this

theorem decNat_encNat (bo : ByteOrder) (k v : Nat) : decNat bo (encNat bo k v) = v % 256 ^ k := by
  unfold decNat encNat
  split <;> simp [beVal_beBytes, leVal_leBytes]

theorem decNat_encNat_of_lt (bo : ByteOrder) (k v : Nat) (h : v < 256 ^ k) :
    decNat bo (encNat bo k v) = v := by
  rw [decNat_encNat, Nat.mod_eq_of_lt h]

theorem encNat_decNat (bo : ByteOrder) (b : Bytes) : encNat bo b.length (decNat bo b) = b := by
  unfold decNat encNat
  split <;> simp [beBytes_beVal, leBytes_leVal]

theorem decNat_lt (bo : ByteOrder) (b : Bytes) : decNat bo b < 256 ^ b.length := by
  unfold decNat; split
  · exact beVal_lt b
  · exact leVal_lt b

theorem leBytes_eq_spec (k v : Nat) : leBytes k v = Spec.toBytesLE k v := by
  induction k generalizing v with
  | zero => rfl
  | succ k ih =>
    simp only [leBytes, Spec.toBytesLE, List.range_succ_eq_map, List.map_cons, List.map_map]
    rw [ih]
    simp only [Spec.toBytesLE, Nat.pow_zero, Nat.div_one, List.cons.injEq, true_and]
    apply List.map_congr_left
    intro i _
    simp [Function.comp, Nat.pow_succ, Nat.div_div_eq_div_mul, Nat.mul_comm]

theorem beBytes_eq_spec (k v : Nat) : beBytes k v = Spec.toBytesBE k v := by
  unfold beBytes
  rw [leBytes_eq_spec]
  unfold Spec.toBytesLE Spec.toBytesBE
  apply List.ext_getElem
  · simp
  · intro i h1 h2
    simp at h1 h2
    simp [List.getElem_reverse]

end Cp
