import CpModel.Prim
import CpProofs.Num
import CpProofs.Enum
import CpSpec.Mpint
/-
  Helper lemmas about the multiple-precision integer primitives (`natOfBE`, `stripLeadingZeros`,
  `bitLength`, `parseMpintCore`, `composeMpintCore`, `parseSshMpint`, `composeSshMpint`).
-/
namespace Cp

/-! ### `natOfBE` -/

theorem foldl_natOfBE (a : Nat) (b : Bytes) :
    b.foldl (fun a x => a * 256 + x.toNat) a = a * 256 ^ b.length + natOfBE b := by
  unfold natOfBE
  induction b generalizing a with
  | nil => simp
  | cons x xs ih =>
    simp only [List.foldl_cons, List.length_cons]
    rw [ih (a * 256 + x.toNat), ih (0 * 256 + x.toNat)]
    simp only [Nat.zero_mul, Nat.zero_add, Nat.pow_succ, Nat.add_mul, Nat.mul_assoc,
      Nat.mul_comm (256 ^ xs.length) 256, Nat.add_assoc]

@[simp] theorem natOfBE_nil : natOfBE [] = 0 := rfl

theorem natOfBE_cons (x : UInt8) (xs : Bytes) :
    natOfBE (x :: xs) = x.toNat * 256 ^ xs.length + natOfBE xs := by
  have := foldl_natOfBE (0 * 256 + x.toNat) xs
  simp only [Nat.zero_mul, Nat.zero_add] at this
  simpa [natOfBE] using this

theorem natOfBE_append (a b : Bytes) :
    natOfBE (a ++ b) = natOfBE a * 256 ^ b.length + natOfBE b := by
  have := foldl_natOfBE (natOfBE a) b
  simpa [natOfBE, List.foldl_append] using this

theorem natOfBE_lt (b : Bytes) : natOfBE b < 256 ^ b.length := by
  induction b with
  | nil => simp
  | cons x xs ih =>
    rw [natOfBE_cons, List.length_cons, Nat.pow_succ]
    have hx := x.toNat_lt
    have : x.toNat * 256 ^ xs.length ≤ 255 * 256 ^ xs.length :=
      Nat.mul_le_mul_right _ (by omega)
    omega

theorem leVal_append (a b : Bytes) : leVal (a ++ b) = leVal a + 256 ^ a.length * leVal b := by
  induction a with
  | nil => simp [leVal]
  | cons x xs ih =>
    simp only [List.cons_append, leVal, ih, List.length_cons, Nat.pow_succ, Nat.mul_add,
      Nat.mul_assoc, Nat.mul_comm (256 ^ xs.length) 256, Nat.add_assoc]

theorem natOfBE_eq_beVal (b : Bytes) : natOfBE b = beVal b := by
  induction b with
  | nil => rfl
  | cons x xs ih =>
    rw [natOfBE_cons, ih]
    simp only [beVal, List.reverse_cons, leVal_append, leVal, List.length_reverse,
      Nat.mul_zero, Nat.add_zero, Nat.mul_comm (256 ^ xs.length) x.toNat]
    omega

theorem natOfBE_eq_spec (b : Bytes) : natOfBE b = Spec.fromBytesBE b := rfl

theorem natOfBE_beBytes (k v : Nat) : natOfBE (beBytes k v) = v % 256 ^ k := by
  rw [natOfBE_eq_beVal, beVal_beBytes]

theorem beBytes_natOfBE (b : Bytes) : beBytes b.length (natOfBE b) = b := by
  rw [natOfBE_eq_beVal, beBytes_beVal]

theorem natOfBE_replicate_zero (k : Nat) : natOfBE (List.replicate k (0 : UInt8)) = 0 := by
  induction k with
  | zero => rfl
  | succ k ih => simp [List.replicate_succ, natOfBE_cons, ih]

theorem natOfBE_replicate_ff (k : Nat) :
    natOfBE (List.replicate k (0xff : UInt8)) + 1 = 256 ^ k := by
  induction k with
  | zero => rfl
  | succ k ih =>
    rw [List.replicate_succ, natOfBE_cons, List.length_replicate, Nat.pow_succ]
    have : (0xff : UInt8).toNat = 255 := rfl
    rw [this]
    omega

theorem beBytes_succ (k v : Nat) :
    beBytes (k + 1) v = beBytes k (v / 256) ++ [UInt8.ofNat (v % 256)] := by
  simp [beBytes, leBytes]

/-! ### `stripLeadingZeros` -/

theorem strip_append_singleton (xs : Bytes) (y : UInt8) :
    stripLeadingZeros (xs ++ [y]) =
      if stripLeadingZeros xs = [] then (if y = 0 then [] else [y])
      else stripLeadingZeros xs ++ [y] := by
  induction xs with
  | nil =>
    simp only [List.nil_append, stripLeadingZeros, beq_iff_eq]
    split <;> simp
  | cons x xs ih =>
    simp only [List.cons_append, stripLeadingZeros]
    split
    · exact ih
    · simp

theorem natOfBE_strip (b : Bytes) : natOfBE (stripLeadingZeros b) = natOfBE b := by
  induction b with
  | nil => rfl
  | cons x xs ih =>
    simp only [stripLeadingZeros]
    split
    · next h =>
      have : x = 0 := by simpa using h
      subst this
      rw [ih, natOfBE_cons]; simp
    · rfl

theorem strip_length_le (b : Bytes) : (stripLeadingZeros b).length ≤ b.length := by
  induction b with
  | nil => simp [stripLeadingZeros]
  | cons x xs ih =>
    simp only [stripLeadingZeros]
    split
    · simp only [List.length_cons]; omega
    · simp

theorem strip_pad (b : Bytes) :
    List.replicate (b.length - (stripLeadingZeros b).length) (0 : UInt8) ++ stripLeadingZeros b = b := by
  induction b with
  | nil => simp [stripLeadingZeros]
  | cons x xs ih =>
    simp only [stripLeadingZeros]
    split
    · next h =>
      have hx : x = 0 := by simpa using h
      have hl := strip_length_le xs
      have : (x :: xs).length - (stripLeadingZeros xs).length
          = (xs.length - (stripLeadingZeros xs).length) + 1 := by
        simp only [List.length_cons]; omega
      rw [this, List.replicate_succ, List.cons_append, ih, hx]
    · simp

theorem strip_head_ne_zero (b : Bytes) (x : UInt8) (t : Bytes)
    (h : stripLeadingZeros b = x :: t) : x ≠ 0 := by
  induction b with
  | nil => simp [stripLeadingZeros] at h
  | cons y ys ih =>
    simp only [stripLeadingZeros] at h
    split at h
    · exact ih h
    · next hy =>
      simp only [List.cons.injEq] at h
      rw [← h.1]
      simpa using hy

/-! ### the minimal big-endian digits of the specification -/

theorem minAux_zero (f : Nat) : Spec.minBytesBEAux f 0 = [] := by
  cases f <;> simp [Spec.minBytesBEAux]

theorem minAux_eq_nil {f u : Nat} (hf : u ≤ f) (h : Spec.minBytesBEAux f u = []) : u = 0 := by
  cases f with
  | zero => omega
  | succ f =>
    simp only [Spec.minBytesBEAux] at h
    split at h
    · assumption
    · simp at h

theorem ofNat_mod_ne_zero {v : Nat} (h0 : v ≠ 0) (h : v / 256 = 0) :
    UInt8.ofNat (v % 256) ≠ 0 := by
  intro e
  have h1 : (UInt8.ofNat (v % 256)).toNat = v % 256 := by simp [UInt8.toNat_ofNat']
  rw [e] at h1
  have : (0 : UInt8).toNat = 0 := rfl
  omega

/-- Stripping the leading zeros of any sufficiently wide fixed-width form gives the specification's
minimal digits, whatever the fuel. -/
theorem strip_beBytes_aux (k : Nat) : ∀ (v f : Nat), v < 256 ^ k → v ≤ f →
    stripLeadingZeros (beBytes k v) = Spec.minBytesBEAux f v := by
  induction k with
  | zero =>
    intro v f hv _
    have : v = 0 := by simpa using hv
    subst this
    rw [minAux_zero]; rfl
  | succ k ih =>
    intro v f hv hf
    have hv' : v / 256 < 256 ^ k := by
      rw [Nat.pow_succ] at hv; omega
    rw [beBytes_succ, strip_append_singleton]
    cases f with
    | zero =>
      have : v = 0 := by omega
      subst this
      rw [ih (0 / 256) 0 (by simpa using Nat.pow_pos (by decide)) (by simp)]
      simp [Spec.minBytesBEAux]
    | succ f =>
      have hf' : v / 256 ≤ f := by omega
      rw [ih (v / 256) f hv' hf']
      simp only [Spec.minBytesBEAux]
      by_cases h0 : v = 0
      · subst h0; simp [minAux_zero]
      · simp only [h0, if_false]
        split
        · next hnil =>
          have hz := minAux_eq_nil hf' hnil
          rw [hnil, if_neg (ofNat_mod_ne_zero h0 hz)]; rfl
        · rfl

theorem strip_beBytes {k v : Nat} (hv : v < 256 ^ k) :
    stripLeadingZeros (beBytes k v) = Spec.minBytesBE v :=
  strip_beBytes_aux k v v hv (Nat.le_refl v)

theorem minBytesBE_eq_strip (v : Nat) : Spec.minBytesBE v = stripLeadingZeros (beBytes v v) :=
  (strip_beBytes (Nat.lt_pow_self (by decide))).symm

theorem natOfBE_minBytesBE (v : Nat) : natOfBE (Spec.minBytesBE v) = v := by
  rw [minBytesBE_eq_strip, natOfBE_strip, natOfBE_beBytes,
    Nat.mod_eq_of_lt (Nat.lt_pow_self (by decide))]

theorem minBytesBE_head_ne_zero {v : Nat} {x : UInt8} {t : Bytes}
    (h : Spec.minBytesBE v = x :: t) : x ≠ 0 := by
  rw [minBytesBE_eq_strip] at h
  exact strip_head_ne_zero _ _ _ h

theorem minBytesBE_length_le_iff (v n : Nat) : (Spec.minBytesBE v).length ≤ n ↔ v < 256 ^ n := by
  constructor
  · intro h
    have h1 := natOfBE_lt (Spec.minBytesBE v)
    rw [natOfBE_minBytesBE] at h1
    exact Nat.lt_of_lt_of_le h1 (Nat.pow_le_pow_right (by decide) h)
  · intro h
    rw [← strip_beBytes h]
    have := strip_length_le (beBytes n v)
    simpa using this

/-- Left-padding the minimal digits to a width that fits gives the fixed-width form. -/
theorem pad_minBytesBE {k v : Nat} (hv : v < 256 ^ k) :
    List.replicate (k - (Spec.minBytesBE v).length) (0 : UInt8) ++ Spec.minBytesBE v = beBytes k v := by
  have := strip_pad (beBytes k v)
  rwa [strip_beBytes hv, beBytes_length] at this

/-- A minimal form of exactly `n` digits is the `n`-digit fixed-width form. -/
theorem minBytesBE_eq_beBytes {v n : Nat} (h : (Spec.minBytesBE v).length = n) :
    Spec.minBytesBE v = beBytes n v := by
  have := beBytes_natOfBE (Spec.minBytesBE v)
  rw [natOfBE_minBytesBE, h] at this
  exact this.symm

/-- The top bit of the first byte is set exactly when the value fills the upper half of the range
of its length. -/
theorem head_ge_iff (x : UInt8) (t : Bytes) :
    128 ≤ x.toNat ↔ 256 ^ (x :: t).length ≤ 2 * natOfBE (x :: t) := by
  rw [natOfBE_cons, List.length_cons, Nat.pow_succ]
  have ht := natOfBE_lt t
  constructor
  · intro h
    have := Nat.mul_le_mul_right (256 ^ t.length) h
    omega
  · intro h
    apply Classical.byContradiction
    intro hn
    have : x.toNat * 256 ^ t.length ≤ 127 * 256 ^ t.length :=
      Nat.mul_le_mul_right _ (by omega)
    omega

/-! ### `bitLength` -/

theorem bitLength_natCast (v : Nat) : bitLength (v : Int) = if v = 0 then 0 else Nat.log2 v + 1 := by
  unfold bitLength
  simp [Int.natAbs_natCast]

theorem lt_two_pow_bitLength (v : Int) : v.natAbs < 2 ^ bitLength v := by
  unfold bitLength
  split
  · next h => simp [h]
  · exact Nat.lt_log2_self

theorem two_pow_bitLength_le (v : Int) (h : v ≠ 0) : 2 ^ bitLength v ≤ 2 * v.natAbs := by
  unfold bitLength
  rw [if_neg h, Nat.pow_succ]
  have : v.natAbs ≠ 0 := by omega
  have := Nat.log2_self_le this
  omega

/-- `bit_length` of a non-negative integer is at most `m` exactly when the value is below `2^m`. -/
theorem bitLength_natCast_le_iff (v m : Nat) : bitLength (v : Int) ≤ m ↔ v < 2 ^ m := by
  have h1 := lt_two_pow_bitLength (v : Int)
  rw [Int.natAbs_natCast] at h1
  constructor
  · intro h
    exact Nat.lt_of_lt_of_le h1 (Nat.pow_le_pow_right (by decide) h)
  · intro h
    by_cases h0 : v = 0
    · subst h0; simp [bitLength]
    · have h2 := two_pow_bitLength_le (v : Int) (by omega)
      rw [Int.natAbs_natCast] at h2
      have h3 : 2 ^ bitLength (v : Int) < 2 ^ (m + 1) := by rw [Nat.pow_succ]; omega
      have := (Nat.pow_lt_pow_iff_right (by decide)).mp h3
      omega

theorem pow_256_eq (n : Nat) : 256 ^ n = 2 ^ (8 * n) := by
  rw [Nat.pow_mul]

/-- the width guard of `compose_mpint` on a non-negative value -/
theorem bitLength_gt_iff (v len : Nat) : bitLength (v : Int) > 8 * len ↔ 256 ^ len ≤ v := by
  have := bitLength_natCast_le_iff v (8 * len)
  rw [pow_256_eq]
  omega

/-- the word count `compose_ssh_mpint` hands to `_compose_mpint` covers the bit length -/
theorem words_cover (bl : Nat) : bl ≤ 8 * (4 * (bl / 32 + (if (bl % 32 == 0) = true then 0 else 1))) := by
  split
  · next h => have : bl % 32 = 0 := by simpa using h
              omega
  · omega

/-! ### parsing -/

theorem parseMpintCore_append_nonneg (b s : Bytes) :
    parseMpintCore b.length false (b ++ s) = .ok (natOfBE b : Int) := by
  unfold parseMpintCore
  have h1 : ¬ ((b ++ s).length < b.length) := by simp
  simp only [h1, if_false, List.take_left' rfl, Bool.false_eq_true]
  rw [natOfBE_append, natOfBE_replicate_zero]
  simp

theorem int_pow_cast (n : Nat) : ((2 : Int) ^ (8 * n)) = ((256 ^ n : Nat) : Int) := by
  rw [pow_256_eq]; simp

theorem parseMpintCore_append_neg (b s : Bytes) :
    parseMpintCore b.length true (b ++ s) = .ok ((natOfBE b : Int) - ((256 ^ b.length : Nat) : Int)) := by
  unfold parseMpintCore
  have h1 : ¬ ((b ++ s).length < b.length) := by simp
  simp only [h1, if_false, List.take_left' rfl, if_true]
  generalize (if (b.length % 4 == 0) = true then 0 else 4 - b.length % 4) = p
  rw [natOfBE_append, int_pow_cast, Nat.add_comm b.length p, Nat.pow_add]
  have h2 := natOfBE_replicate_ff p
  have h3 : (natOfBE (List.replicate p (0xff : UInt8)) + 1) * 256 ^ b.length
      = 256 ^ p * 256 ^ b.length := by rw [h2]
  rw [Nat.add_mul, Nat.one_mul] at h3
  congr 1
  omega

theorem parseMpint_append (b s : Bytes) :
    parseMpint b.length (b ++ s) = .ok ((natOfBE b : Int), b.length) := by
  unfold parseMpint
  rw [parseMpintCore_append_nonneg]
  rfl

theorem getD_four (h body s : Bytes) (hh : h.length = 4) (x : UInt8) (t : Bytes)
    (hb : body = x :: t) : (h ++ (body ++ s)).getD 4 0 = x := by
  subst hb
  match h, hh with
  | [a, b, c, d], _ => rfl

/-- `parseSshMpint` on an SSH string whose data does not start with a byte `≥ 0x80`. -/
theorem parseSshMpint_string_nonneg (body s : Bytes) (hl : body.length < 2 ^ 32)
    (hh : ∀ x t, body = x :: t → x.toNat < 128) :
    parseSshMpint (beBytes 4 body.length ++ (body ++ s)) = .ok ((natOfBE body : Int), 4 + body.length) := by
  unfold parseSshMpint
  have hlen : (beBytes 4 body.length ++ (body ++ s)).length = 4 + body.length + s.length := by
    simp; omega
  have h1 : ¬ ((beBytes 4 body.length ++ (body ++ s)).length < 4) := by omega
  have htake : (beBytes 4 body.length ++ (body ++ s)).take 4 = beBytes 4 body.length :=
    List.take_left' (beBytes_length _ _)
  have hval : beVal (beBytes 4 body.length) = body.length := by
    rw [beVal_beBytes]; exact Nat.mod_eq_of_lt (by omega)
  have hdrop : (beBytes 4 body.length ++ (body ++ s)).drop 4 = body ++ s :=
    List.drop_left' (beBytes_length _ _)
  simp only [h1, if_false, htake, hval, hdrop]
  have h2 : ¬ ((beBytes 4 body.length ++ (body ++ s)).length < 4 + body.length) := by omega
  simp only [h2, if_false]
  have hneg : (body.length != 0 &&
      decide ((List.getD (beBytes 4 body.length ++ (body ++ s)) 4 0).toNat ≥ 0x80)) = false := by
    cases hb : body with
    | nil => simp
    | cons x t =>
      have := hh x t hb
      rw [← hb, getD_four _ body s (beBytes_length _ _) x t hb]
      simp; omega
  rw [hneg, parseMpintCore_append_nonneg]

/-- `parseSshMpint` on an SSH string whose data starts with a byte `≥ 0x80`: two's complement. -/
theorem parseSshMpint_string_neg (body s : Bytes) (hl : body.length < 2 ^ 32)
    (x : UInt8) (t : Bytes) (hb : body = x :: t) (hx : 128 ≤ x.toNat) :
    parseSshMpint (beBytes 4 body.length ++ (body ++ s)) =
      .ok ((natOfBE body : Int) - ((256 ^ body.length : Nat) : Int), 4 + body.length) := by
  unfold parseSshMpint
  have hlen : (beBytes 4 body.length ++ (body ++ s)).length = 4 + body.length + s.length := by
    simp; omega
  have h1 : ¬ ((beBytes 4 body.length ++ (body ++ s)).length < 4) := by omega
  have htake : (beBytes 4 body.length ++ (body ++ s)).take 4 = beBytes 4 body.length :=
    List.take_left' (beBytes_length _ _)
  have hval : beVal (beBytes 4 body.length) = body.length := by
    rw [beVal_beBytes]; exact Nat.mod_eq_of_lt (by omega)
  have hdrop : (beBytes 4 body.length ++ (body ++ s)).drop 4 = body ++ s :=
    List.drop_left' (beBytes_length _ _)
  simp only [h1, if_false, htake, hval, hdrop]
  have h2 : ¬ ((beBytes 4 body.length ++ (body ++ s)).length < 4 + body.length) := by omega
  simp only [h2, if_false]
  have hneg : (body.length != 0 &&
      decide ((List.getD (beBytes 4 body.length ++ (body ++ s)) 4 0).toNat ≥ 0x80)) = true := by
    rw [getD_four _ body s (beBytes_length _ _) x t hb]
    subst hb
    simp; omega
  rw [hneg, parseMpintCore_append_neg]

/-! ### composing -/

theorem composeMpintCore_nonneg {v words : Nat} (hv : v < 256 ^ (4 * words)) :
    composeMpintCore (v : Int) words = Spec.minBytesBE v := by
  unfold composeMpintCore
  have h0 : ¬ ((v : Int) < 0) := by omega
  simp only [h0, if_false, Int.toNat_natCast]
  exact strip_beBytes hv

/-- In general the fixed word count silently reduces the value modulo `2^(32*words)`. -/
theorem composeMpintCore_nonneg_mod (v words : Nat) :
    composeMpintCore (v : Int) words = Spec.minBytesBE (v % 256 ^ (4 * words)) := by
  unfold composeMpintCore
  have h0 : ¬ ((v : Int) < 0) := by omega
  simp only [h0, if_false, Int.toNat_natCast]
  have hm : v % 256 ^ (4 * words) < 256 ^ (4 * words) := Nat.mod_lt _ (Nat.pow_pos (by decide))
  rw [← strip_beBytes hm]
  congr 1
  have := beBytes_natOfBE (beBytes (4 * words) v)
  rw [beBytes_length, natOfBE_beBytes] at this
  exact this.symm

theorem ssh_assemble (pad m : Bytes) :
    (do let h ← composeNum .network 4 ((pad.length + m.length : Nat) : Int)
        pure (h ++ pad ++ m) : Except PErr Bytes)
    = (composeNum .network 4 (((pad ++ m).length : Nat) : Int)).map (fun h => h ++ (pad ++ m)) := by
  rw [List.length_append]
  cases composeNum .network 4 ((pad.length + m.length : Nat) : Int) <;>
    simp [Except.map, bind, Except.bind, pure, Except.pure]

theorem composeSshMpint_nonneg (v : Nat) :
    composeSshMpint (v : Int) =
      (composeNum .network 4 ((Spec.sshMpintBodyNonneg v).length : Nat)).map
        (fun h => h ++ Spec.sshMpintBodyNonneg v) := by
  unfold composeSshMpint
  have h0 : ¬ ((v : Int) < 0) := by omega
  simp only [h0, if_false, decide_false]
  have hv : v < 256 ^ (4 * (bitLength (v : Int) / 32 +
      (if (bitLength (v : Int) % 32 == 0) = true then 0 else 1))) := by
    have h1 := lt_two_pow_bitLength (v : Int)
    rw [Int.natAbs_natCast] at h1
    rw [pow_256_eq]
    exact Nat.lt_of_lt_of_le h1 (Nat.pow_le_pow_right (by decide) (words_cover _))
  rw [composeMpintCore_nonneg hv]
  clear hv
  unfold Spec.sshMpintBodyNonneg
  cases hm : Spec.minBytesBE v with
  | nil => exact ssh_assemble [] []
  | cons x t =>
    by_cases hx : 128 ≤ x.toNat
    · have hpad : (if (decide (x.toNat ≥ 0x80) != false) = true then [if false = true then (255 : UInt8) else 0] else []) = [0] := by
        simp [hx]
      simp only [hpad, if_pos hx]
      exact ssh_assemble [0] (x :: t)
    · have hpad : (if (decide (x.toNat ≥ 0x80) != false) = true then [if false = true then (255 : UInt8) else 0] else []) = [] := by
        simp [hx]
      simp only [hpad, if_neg hx]
      exact ssh_assemble [] (x :: t)

/-! ### negative values: two's complement over `bitLength (-v - 1) / 8 + 1` bytes -/

theorem bitLength_eq_natAbs (v : Int) : bitLength v = bitLength (v.natAbs : Int) := by
  unfold bitLength
  by_cases h : v = 0
  · subst h; rfl
  · have h' : ¬ ((v.natAbs : Nat) : Int) = 0 := by omega
    rw [if_neg h, if_neg h', Int.natAbs_natCast]

/-- `bit_length` of any integer is at most `m` exactly when its magnitude is below `2^m`. -/
theorem bitLength_le_iff (v : Int) (m : Nat) : bitLength v ≤ m ↔ v.natAbs < 2 ^ m := by
  rw [bitLength_eq_natAbs]; exact bitLength_natCast_le_iff _ _

/-- `~v = -v - 1` of a negative integer is the natural number `|v| - 1`. -/
theorem neg_pred_eq (v : Int) (hv : v < 0) : -v - 1 = ((v.natAbs - 1 : Nat) : Int) := by omega

/-- A negative `v` fits the two's complement range of `L = bit_length(~v) / 8 + 1` bytes … -/
theorem neg_two_mul_le (v : Int) (hv : v < 0) : 2 * v.natAbs ≤ 256 ^ (bitLength (-v - 1) / 8 + 1) := by
  rw [neg_pred_eq v hv]
  generalize hu : v.natAbs - 1 = u
  have h1 := lt_two_pow_bitLength (u : Int)
  rw [Int.natAbs_natCast] at h1
  have h2 : bitLength (u : Int) + 1 ≤ 8 * (bitLength (u : Int) / 8 + 1) := by omega
  have h3 : 2 ^ (bitLength (u : Int) + 1) ≤ 2 ^ (8 * (bitLength (u : Int) / 8 + 1)) :=
    Nat.pow_le_pow_right (by decide) h2
  rw [pow_256_eq]
  rw [Nat.pow_succ] at h3
  omega

/-- … and does not fit one byte less: `L` is the least such length. -/
theorem neg_two_mul_gt (v : Int) (hv : v < 0) : 256 ^ (bitLength (-v - 1) / 8) < 2 * v.natAbs := by
  rw [neg_pred_eq v hv]
  generalize hu : v.natAbs - 1 = u
  by_cases h0 : u = 0
  · subst h0
    have : bitLength ((0 : Nat) : Int) = 0 := rfl
    rw [this]
    simp
    omega
  · have h1 := two_pow_bitLength_le (u : Int) (by omega)
    rw [Int.natAbs_natCast] at h1
    have h2 : 8 * (bitLength (u : Int) / 8) ≤ bitLength (u : Int) := by omega
    have h3 : 2 ^ (8 * (bitLength (u : Int) / 8)) ≤ 2 ^ bitLength (u : Int) :=
      Nat.pow_le_pow_right (by decide) h2
    rw [pow_256_eq]
    omega

/-- What `compose_ssh_mpint` produces for a negative value: no padding byte, and the
`L = bitLength (-v - 1) / 8 + 1` byte two's complement of `v`, whose top bit is set. -/
theorem composeSshMpint_neg (v : Int) (hv : v < 0) (L : Nat) (hL : L = bitLength (-v - 1) / 8 + 1) :
    ∃ x t, beBytes L (256 ^ L - v.natAbs) = x :: t ∧ 128 ≤ x.toNat ∧
      composeSshMpint v =
        (composeNum .network 4 (L : Nat)).map (fun h => h ++ beBytes L (256 ^ L - v.natAbs)) := by
  have hb := neg_two_mul_le v hv
  rw [← hL] at hb
  have hbl : bitLength (-v - 1) / 8 * 8 + 8 = 8 * L := by omega
  have hLpos : 1 ≤ L := by omega
  -- the adjusted positive value
  have hpos : (((2 : Int) ^ (8 * L)) + v).toNat = 256 ^ L - v.natAbs := by
    rw [int_pow_cast]; omega
  have hposlt : 256 ^ L - v.natAbs < 256 ^ L := by
    have : 0 < 256 ^ L := Nat.pow_pos (by decide)
    omega
  have hlen : (Spec.minBytesBE (256 ^ L - v.natAbs)).length = L := by
    have h1 := (minBytesBE_length_le_iff _ L).mpr hposlt
    have h2 : ¬ (Spec.minBytesBE (256 ^ L - v.natAbs)).length ≤ L - 1 := by
      rw [minBytesBE_length_le_iff]
      have : 256 ^ L = 256 ^ (L - 1) * 256 := by
        rw [← Nat.pow_succ]; congr 1; omega
      omega
    omega
  have hmin := minBytesBE_eq_beBytes hlen
  unfold composeSshMpint
  simp only [hv, if_true, decide_true, hbl]
  have hcore : composeMpintCore v ((8 * L) / 32 + (if ((8 * L) % 32 == 0) = true then 0 else 1))
      = beBytes L (256 ^ L - v.natAbs) := by
    unfold composeMpintCore
    simp only [hv, if_true, hbl, hpos]
    rw [← hmin]
    apply strip_beBytes
    refine Nat.lt_of_lt_of_le hposlt ?_
    rw [pow_256_eq, pow_256_eq]
    exact Nat.pow_le_pow_right (by decide) (words_cover (8 * L))
  rw [hcore]
  cases hm : beBytes L (256 ^ L - v.natAbs) with
  | nil =>
    have := beBytes_length L (256 ^ L - v.natAbs)
    rw [hm] at this
    simp at this; omega
  | cons x t =>
    have hx : 128 ≤ x.toNat := by
      rw [head_ge_iff x t, ← hm, natOfBE_beBytes, Nat.mod_eq_of_lt hposlt, beBytes_length]
      omega
    refine ⟨x, t, rfl, hx, ?_⟩
    have hpad : (if (decide (x.toNat ≥ 0x80) != true) = true
        then [(255 : UInt8)] else []) = [] := by
      simp [hx]
    simp only [hpad]
    have h3 := ssh_assemble [] (x :: t)
    have h4 : (x :: t).length = L := by rw [← hm, beBytes_length]
    simp only [List.nil_append, h4] at h3
    rw [← h3]
    simp only [List.length_nil, List.append_nil, h4]

/-! ### the RFC 4251 body of a non-negative value -/

theorem natOfBE_sshBody (v : Nat) : natOfBE (Spec.sshMpintBodyNonneg v) = v := by
  unfold Spec.sshMpintBodyNonneg
  have h := natOfBE_minBytesBE v
  cases hm : Spec.minBytesBE v with
  | nil => rw [hm] at h; exact h
  | cons x t =>
    rw [hm] at h
    simp only []
    split
    · rw [natOfBE_cons]; simpa using h
    · exact h

theorem sshBody_head_lt (v : Nat) (x : UInt8) (t : Bytes)
    (h : Spec.sshMpintBodyNonneg v = x :: t) : x.toNat < 128 := by
  unfold Spec.sshMpintBodyNonneg at h
  cases hm : Spec.minBytesBE v with
  | nil => rw [hm] at h; simp at h
  | cons y u =>
    rw [hm] at h
    simp only [] at h
    split at h
    · simp only [List.cons.injEq] at h
      rw [← h.1]; decide
    · next hy =>
      simp only [List.cons.injEq] at h
      rw [← h.1]; omega

/-- The body fits `n` bytes exactly when `v < 2^(8n-1)`. -/
theorem sshBody_length_le_iff (v n : Nat) :
    (Spec.sshMpintBodyNonneg v).length ≤ n ↔ 2 * v < 256 ^ n := by
  unfold Spec.sshMpintBodyNonneg
  have hval := natOfBE_minBytesBE v
  have hlen := minBytesBE_length_le_iff v
  cases hm : Spec.minBytesBE v with
  | nil =>
    rw [hm] at hval
    have : v = 0 := by simpa using hval.symm
    subst this
    have : 0 < 256 ^ n := Nat.pow_pos (by decide)
    simp; omega
  | cons x t =>
    rw [hm] at hval hlen
    have hh := head_ge_iff x t
    have hlt := natOfBE_lt (x :: t)
    rw [hval] at hh hlt
    simp only []
    split
    · next hx =>
      have h1 := hh.mp hx
      constructor
      · intro hl
        have hl' : (x :: t).length + 1 ≤ n := by simpa using hl
        have := Nat.pow_le_pow_right (n := 256) (by decide) hl'
        rw [Nat.pow_succ] at this
        omega
      · intro h2
        have : 256 ^ (x :: t).length < 256 ^ n := by omega
        have := (Nat.pow_lt_pow_iff_right (by decide)).mp this
        simp only [List.length_cons] at this ⊢
        omega
    · next hx =>
      have h1 : 2 * v < 256 ^ (x :: t).length := by
        apply Classical.byContradiction
        intro hc
        exact hx (hh.mpr (by omega))
      constructor
      · intro hl
        have := Nat.pow_le_pow_right (n := 256) (by decide) hl
        omega
      · intro h2
        exact (hlen n).mpr (by omega)

theorem strip_of_head_ne_zero (b : Bytes) (h : ∀ x t, b = x :: t → x ≠ 0) :
    stripLeadingZeros b = b := by
  cases b with
  | nil => rfl
  | cons x t =>
    have := h x t rfl
    simp [stripLeadingZeros, this]

/-- The specification's minimal form is the only byte string of its value without a leading zero. -/
theorem minBytesBE_unique (b : Bytes) (h : ∀ x t, b = x :: t → x ≠ 0) :
    b = Spec.minBytesBE (Spec.fromBytesBE b) := by
  have h1 := strip_of_head_ne_zero b h
  have h2 := beBytes_natOfBE b
  have h3 := strip_beBytes (k := b.length) (natOfBE_lt b)
  rw [h2, h1] at h3
  exact h3

/-! ### the shortest two's complement of the specification (`Spec.sshMpintBody`, any integer) -/

theorem fitsSigned_mono {v : Int} {L L' : Nat} (h : Spec.FitsSigned v L) (hl : L ≤ L') :
    Spec.FitsSigned v L' := by
  have := Nat.pow_le_pow_right (n := 256) (by decide) hl
  unfold Spec.FitsSigned at *
  omega

theorem not_fits_bound {v : Int} {L : Nat} (h : ¬ Spec.FitsSigned v L) : 256 ^ L ≤ 2 * v.natAbs := by
  unfold Spec.FitsSigned at h
  omega

theorem minSignedLenAux_eq (v : Int) (L : Nat) (hfit : Spec.FitsSigned v L) :
    ∀ fuel start, start ≤ L → L - start < fuel →
      (∀ L', start ≤ L' → L' < L → ¬ Spec.FitsSigned v L') →
      Spec.minSignedLenAux fuel start v = L := by
  intro fuel
  induction fuel with
  | zero => intro start _ h; omega
  | succ f ih =>
    intro start hs hf hmin
    simp only [Spec.minSignedLenAux]
    by_cases he : start = L
    · subst he; rw [if_pos hfit]
    · rw [if_neg (hmin start (Nat.le_refl _) (by omega))]
      exact ih (start + 1) (by omega) (by omega) (fun L' h1 h2 => hmin L' (by omega) h2)

/-- The bounded search of the specification finds the least fitting length, whenever one exists. -/
theorem minSignedLen_eq {v : Int} {L : Nat} (hfit : Spec.FitsSigned v L)
    (hmin : ∀ L', L' < L → ¬ Spec.FitsSigned v L') : Spec.minSignedLen v = L := by
  unfold Spec.minSignedLen
  apply minSignedLenAux_eq v L hfit _ 0 (Nat.zero_le _) _ (fun L' _ h => hmin L' h)
  cases L with
  | zero => omega
  | succ k =>
    have h1 := not_fits_bound (hmin k (by omega))
    have h2 : k < 256 ^ k := Nat.lt_pow_self (by decide)
    omega

theorem minSignedLen_neg (v : Int) (hv : v < 0) :
    Spec.minSignedLen v = bitLength (-v - 1) / 8 + 1 := by
  have h1 := neg_two_mul_le v hv
  have h2 := neg_two_mul_gt v hv
  apply minSignedLen_eq
  · have : 0 < 256 ^ (bitLength (-v - 1) / 8 + 1) := Nat.pow_pos (by decide)
    unfold Spec.FitsSigned
    omega
  · intro L' hl hf
    have hf' := fitsSigned_mono hf (show L' ≤ bitLength (-v - 1) / 8 by omega)
    unfold Spec.FitsSigned at hf'
    omega

theorem minSignedLen_nonneg (v : Nat) :
    Spec.minSignedLen (v : Int) = (Spec.sshMpintBodyNonneg v).length := by
  apply minSignedLen_eq
  · have := (sshBody_length_le_iff v _).mp (Nat.le_refl (Spec.sshMpintBodyNonneg v).length)
    unfold Spec.FitsSigned
    omega
  · intro L' hl hf
    have : 2 * v < 256 ^ L' := by unfold Spec.FitsSigned at hf; omega
    have := (sshBody_length_le_iff v L').mpr this
    omega

/-- `Spec.minSignedLen v` is what its name says: `v` fits that many bytes and no fewer. -/
theorem minSignedLen_spec (v : Int) :
    Spec.FitsSigned v (Spec.minSignedLen v) ∧ ∀ L', L' < Spec.minSignedLen v → ¬ Spec.FitsSigned v L' := by
  by_cases hv : v < 0
  · have h1 := neg_two_mul_le v hv
    have h2 := neg_two_mul_gt v hv
    rw [minSignedLen_neg v hv]
    refine ⟨?_, ?_⟩
    · have : 0 < 256 ^ (bitLength (-v - 1) / 8 + 1) := Nat.pow_pos (by decide)
      unfold Spec.FitsSigned
      omega
    · intro L' hl hf
      have hf' := fitsSigned_mono hf (show L' ≤ bitLength (-v - 1) / 8 by omega)
      unfold Spec.FitsSigned at hf'
      omega
  · have hc : v = ((v.natAbs : Nat) : Int) := by omega
    rw [hc, minSignedLen_nonneg]
    refine ⟨?_, ?_⟩
    · have := (sshBody_length_le_iff v.natAbs _).mp (Nat.le_refl (Spec.sshMpintBodyNonneg v.natAbs).length)
      unfold Spec.FitsSigned
      omega
    · intro L' hl hf
      have : 2 * v.natAbs < 256 ^ L' := by unfold Spec.FitsSigned at hf; omega
      have := (sshBody_length_le_iff v.natAbs L').mpr this
      omega

theorem minSignedLen_le {v : Int} {L : Nat} (h : Spec.FitsSigned v L) : Spec.minSignedLen v ≤ L := by
  apply Classical.byContradiction
  intro hn
  exact (minSignedLen_spec v).2 L (by omega) h

theorem toBytesBE_length (k v : Nat) : (Spec.toBytesBE k v).length = k := by
  rw [← beBytes_eq_spec, beBytes_length]

theorem sshMpintBody_length (v : Int) : (Spec.sshMpintBody v).length = Spec.minSignedLen v := by
  unfold Spec.sshMpintBody Spec.twosComplementBE
  exact toBytesBE_length _ _

/-- For a non-negative integer the general form is the `00`-rule form. -/
theorem sshMpintBody_nonneg (v : Nat) : Spec.sshMpintBody (v : Int) = Spec.sshMpintBodyNonneg v := by
  unfold Spec.sshMpintBody Spec.twosComplementBE
  have h0 : ¬ ((v : Int) < 0) := by omega
  rw [if_neg h0, Int.toNat_natCast, minSignedLen_nonneg, ← beBytes_eq_spec]
  have := beBytes_natOfBE (Spec.sshMpintBodyNonneg v)
  rw [natOfBE_sshBody] at this
  exact this

theorem sshMpint_nonneg (v : Nat) : Spec.sshMpint (v : Int) = Spec.sshMpintNonneg v := by
  unfold Spec.sshMpint Spec.sshMpintNonneg
  rw [sshMpintBody_nonneg]

/-- For a negative integer it is the `L = bit_length(~v) / 8 + 1` byte two's complement. -/
theorem sshMpintBody_neg (v : Int) (hv : v < 0) :
    Spec.sshMpintBody v = beBytes (bitLength (-v - 1) / 8 + 1)
      (256 ^ (bitLength (-v - 1) / 8 + 1) - v.natAbs) := by
  unfold Spec.sshMpintBody Spec.twosComplementBE
  rw [if_pos hv, minSignedLen_neg v hv, ← beBytes_eq_spec]
  congr 1
  omega

/-- The model composer on EVERY integer: the `uint32` length of the specification's shortest two's
complement, then those bytes (an error only when the length does not fit the `uint32`). -/
theorem composeSshMpint_eq_spec (v : Int) :
    composeSshMpint v =
      (composeNum .network 4 ((Spec.sshMpintBody v).length : Nat)).map
        (fun h => h ++ Spec.sshMpintBody v) := by
  by_cases hv : v < 0
  · obtain ⟨x, t, _, _, hc⟩ := composeSshMpint_neg v hv _ rfl
    rw [hc, sshMpintBody_neg v hv, beBytes_length]
  · have hc : v = ((v.natAbs : Nat) : Int) := by omega
    rw [hc, composeSshMpint_nonneg, sshMpintBody_nonneg]

/-! ### the integer denoted by `mpint` data bytes -/

theorem fromBytesSigned_nil : Spec.fromBytesSigned [] = 0 := rfl

theorem fromBytesSigned_cons (x : UInt8) (t : Bytes) :
    Spec.fromBytesSigned (x :: t) =
      if 128 ≤ x.toNat then (natOfBE (x :: t) : Int) - ((256 ^ (x :: t).length : Nat) : Int)
      else (natOfBE (x :: t) : Int) := rfl

theorem fromBytesSigned_cons_eq (b : Bytes) (x : UInt8) (t : Bytes) (hb : b = x :: t) :
    Spec.fromBytesSigned b =
      if 128 ≤ x.toNat then (natOfBE b : Int) - ((256 ^ b.length : Nat) : Int) else (natOfBE b : Int) := by
  subst hb; rfl

/-- The value of `L` data bytes lies in the `L`-byte two's complement range. -/
theorem fromBytesSigned_fits (b : Bytes) : Spec.FitsSigned (Spec.fromBytesSigned b) b.length := by
  cases b with
  | nil => unfold Spec.FitsSigned; simp [fromBytesSigned_nil]
  | cons x t =>
    have hh := head_ge_iff x t
    have hlt := natOfBE_lt (x :: t)
    rw [fromBytesSigned_cons]
    unfold Spec.FitsSigned
    split
    · next hx => have := hh.mp hx; omega
    · next hx =>
      have : ¬ (256 ^ (x :: t).length ≤ 2 * natOfBE (x :: t)) := fun h => hx (hh.mpr h)
      omega

/-- The sign is the top bit of the first byte. -/
theorem fromBytesSigned_neg_iff (x : UInt8) (t : Bytes) :
    Spec.fromBytesSigned (x :: t) < 0 ↔ 128 ≤ x.toNat := by
  have hlt := natOfBE_lt (x :: t)
  rw [fromBytesSigned_cons]
  split
  · next hx => constructor
               · intro _; exact hx
               · intro _; omega
  · next hx => constructor
               · intro h; omega
               · intro h; exact absurd h hx

/-- Byte strings of the same length that denote the same integer are equal. -/
theorem fromBytesSigned_inj {a b : Bytes} (hl : a.length = b.length)
    (hv : Spec.fromBytesSigned a = Spec.fromBytesSigned b) : a = b := by
  have key : natOfBE a = natOfBE b := by
    cases a with
    | nil =>
      cases b with
      | nil => rfl
      | cons y u => simp at hl
    | cons x t =>
      cases b with
      | nil => simp at hl
      | cons y u =>
        have h1 := fromBytesSigned_neg_iff x t
        have h2 := fromBytesSigned_neg_iff y u
        rw [hv] at h1
        have hs : 128 ≤ x.toNat ↔ 128 ≤ y.toNat := h1.symm.trans h2
        rw [fromBytesSigned_cons, fromBytesSigned_cons, hl] at hv
        by_cases hx : 128 ≤ x.toNat
        · rw [if_pos hx, if_pos (hs.mp hx)] at hv; omega
        · rw [if_neg hx, if_neg (fun h => hx (hs.mpr h))] at hv; omega
  have h1 := beBytes_natOfBE a
  have h2 := beBytes_natOfBE b
  rw [key, hl] at h1
  exact h1.symm.trans h2

theorem sshMpintBody_head (v : Int) (x : UInt8) (t : Bytes) (h : Spec.sshMpintBody v = x :: t) :
    128 ≤ x.toNat ↔ v < 0 := by
  by_cases hv : v < 0
  · obtain ⟨y, u, hm, hy, _⟩ := composeSshMpint_neg v hv _ rfl
    rw [sshMpintBody_neg v hv, hm] at h
    simp only [List.cons.injEq] at h
    rw [← h.1]
    exact ⟨fun _ => hv, fun _ => hy⟩
  · have hc : v = ((v.natAbs : Nat) : Int) := by omega
    rw [hc, sshMpintBody_nonneg] at h
    have := sshBody_head_lt v.natAbs x t h
    constructor
    · intro hx; omega
    · intro hx; exact absurd hx hv

/-- The specification's data bytes denote `v`. -/
theorem fromBytesSigned_sshMpintBody (v : Int) : Spec.fromBytesSigned (Spec.sshMpintBody v) = v := by
  by_cases hv : v < 0
  · have hb := neg_two_mul_le v hv
    obtain ⟨y, u, hm, hy, _⟩ := composeSshMpint_neg v hv _ rfl
    rw [sshMpintBody_neg v hv]
    generalize hL : bitLength (-v - 1) / 8 + 1 = L at *
    have hpos : 0 < 256 ^ L := Nat.pow_pos (by decide)
    have hval := natOfBE_beBytes L (256 ^ L - v.natAbs)
    rw [Nat.mod_eq_of_lt (by omega)] at hval
    have hlen := beBytes_length L (256 ^ L - v.natAbs)
    rw [hm] at hval hlen ⊢
    rw [fromBytesSigned_cons, if_pos hy, hval, hlen]
    omega
  · have hc : v = ((v.natAbs : Nat) : Int) := by omega
    rw [hc, sshMpintBody_nonneg]
    have hval := natOfBE_sshBody v.natAbs
    cases hm : Spec.sshMpintBodyNonneg v.natAbs with
    | nil => rw [hm] at hval; rw [fromBytesSigned_nil]; simp at hval; omega
    | cons x t =>
      have := sshBody_head_lt v.natAbs x t hm
      rw [hm] at hval
      rw [fromBytesSigned_cons, if_neg (by omega), hval]

/-- A leading `00` before data whose top bit is clear does not change the value … -/
theorem fromBytesSigned_cons_zero (b : Bytes) (h : ∀ x t, b = x :: t → x.toNat < 128) :
    Spec.fromBytesSigned (0 :: b) = Spec.fromBytesSigned b := by
  have h0 : ¬ (128 ≤ (0 : UInt8).toNat) := by decide
  rw [fromBytesSigned_cons, if_neg h0, natOfBE_cons]
  have hz : (0 : UInt8).toNat = 0 := rfl
  rw [hz, Nat.zero_mul, Nat.zero_add]
  cases b with
  | nil => rfl
  | cons x t =>
    have := h x t rfl
    rw [fromBytesSigned_cons, if_neg (by omega)]

/-- … and neither does a leading `ff` before data whose top bit is set. -/
theorem fromBytesSigned_cons_ff (x : UInt8) (t : Bytes) (hx : 128 ≤ x.toNat) :
    Spec.fromBytesSigned (0xff :: x :: t) = Spec.fromBytesSigned (x :: t) := by
  have hf : 128 ≤ (0xff : UInt8).toNat := by decide
  rw [fromBytesSigned_cons, if_pos hf, fromBytesSigned_cons, if_pos hx, natOfBE_cons,
    List.length_cons (a := (0xff : UInt8)), Nat.pow_succ]
  have hz : (0xff : UInt8).toNat = 255 := rfl
  rw [hz]
  omega

/-- `parseSshMpint` on any SSH string: the integer its data bytes denote, with any trailing bytes. -/
theorem parseSshMpint_string (body s : Bytes) (hl : body.length < 2 ^ 32) :
    parseSshMpint (beBytes 4 body.length ++ (body ++ s)) =
      .ok (Spec.fromBytesSigned body, 4 + body.length) := by
  cases hb : body with
  | nil =>
    have := parseSshMpint_string_nonneg [] s (by simp) (by intro x t h; simp at h)
    simpa [fromBytesSigned_nil] using this
  | cons x t =>
    rw [← hb, fromBytesSigned_cons_eq body x t hb]
    by_cases hx : 128 ≤ x.toNat
    · rw [if_pos hx]
      exact parseSshMpint_string_neg body s hl x t hb hx
    · rw [if_neg hx]
      apply parseSshMpint_string_nonneg body s hl
      intro y u hy
      rw [hb] at hy
      simp only [List.cons.injEq] at hy
      rw [← hy.1]; omega

/-- Whatever `parseSshMpint` accepts is an SSH string whose data bytes denote the returned integer. -/
theorem parseSshMpint_ok_inv {data : Bytes} {v : Int} {n : Nat} (h : parseSshMpint data = .ok (v, n)) :
    ∃ body rest, data = beBytes 4 body.length ++ (body ++ rest) ∧ body.length < 2 ^ 32 ∧
      n = 4 + body.length ∧ v = Spec.fromBytesSigned body := by
  by_cases h4 : data.length < 4
  · simp [parseSshMpint, h4] at h
  · by_cases hlen : data.length < 4 + beVal (data.take 4)
    · simp [parseSshMpint, h4, hlen] at h
    · have ht4 : (data.take 4).length = 4 := by rw [List.length_take]; omega
      have hlt : beVal (data.take 4) < 2 ^ 32 := by
        have := natOfBE_lt (data.take 4)
        rw [natOfBE_eq_beVal, ht4] at this
        exact this
      have hbl : ((data.drop 4).take (beVal (data.take 4))).length = beVal (data.take 4) := by
        rw [List.length_take, List.length_drop]; omega
      have hhead : beBytes 4 ((data.drop 4).take (beVal (data.take 4))).length = data.take 4 := by
        rw [hbl]
        have := beBytes_beVal (data.take 4)
        rwa [ht4] at this
      have heq : data = beBytes 4 ((data.drop 4).take (beVal (data.take 4))).length ++
          ((data.drop 4).take (beVal (data.take 4)) ++ (data.drop 4).drop (beVal (data.take 4))) := by
        rw [hhead, List.take_append_drop, List.take_append_drop]
      have hp := parseSshMpint_string ((data.drop 4).take (beVal (data.take 4)))
        ((data.drop 4).drop (beVal (data.take 4))) (by rw [hbl]; exact hlt)
      rw [← heq, h] at hp
      simp only [Except.ok.injEq, Prod.mk.injEq] at hp
      exact ⟨_, _, heq, by rw [hbl]; exact hlt, hp.2, hp.1⟩

/-! ### redundant sign bytes, and the fixed-length form of a negative value -/

theorem fromBytesSigned_replicate_zero (k : Nat) (b : Bytes) (h : ∀ x t, b = x :: t → x.toNat < 128) :
    Spec.fromBytesSigned (List.replicate k (0 : UInt8) ++ b) = Spec.fromBytesSigned b := by
  induction k with
  | zero => rfl
  | succ k ih =>
    rw [List.replicate_succ, List.cons_append, fromBytesSigned_cons_zero _ ?_, ih]
    intro x t hx
    cases k with
    | zero => exact h x t hx
    | succ j =>
      rw [List.replicate_succ, List.cons_append] at hx
      simp only [List.cons.injEq] at hx
      rw [← hx.1]; decide

theorem fromBytesSigned_replicate_ff (k : Nat) (x : UInt8) (t : Bytes) (hx : 128 ≤ x.toNat) :
    Spec.fromBytesSigned (List.replicate k (0xff : UInt8) ++ x :: t) = Spec.fromBytesSigned (x :: t) := by
  induction k with
  | zero => rfl
  | succ k ih =>
    rw [← ih]
    cases k with
    | zero => exact fromBytesSigned_cons_ff x t hx
    | succ j =>
      simp only [List.replicate_succ, List.cons_append]
      exact fromBytesSigned_cons_ff 0xff _ (by decide)

/-- Sign extension: `k` bytes `ff` before the `L`-byte two's complement give the `k + L` byte one. -/
theorem beBytes_neg_pad (k L a : Nat) (h1 : 1 ≤ a) (h2 : a ≤ 256 ^ L) :
    List.replicate k (0xff : UInt8) ++ beBytes L (256 ^ L - a) = beBytes (k + L) (256 ^ (k + L) - a) := by
  have hpos : 0 < 256 ^ L := Nat.pow_pos (by decide)
  have hlen : (List.replicate k (0xff : UInt8) ++ beBytes L (256 ^ L - a)).length = k + L := by simp
  have hval : natOfBE (List.replicate k (0xff : UInt8) ++ beBytes L (256 ^ L - a)) = 256 ^ (k + L) - a := by
    rw [natOfBE_append, beBytes_length, natOfBE_beBytes, Nat.mod_eq_of_lt (by omega), Nat.pow_add]
    have h3 := natOfBE_replicate_ff k
    generalize natOfBE (List.replicate k (0xff : UInt8)) = r at *
    rw [← h3, Nat.add_mul, Nat.one_mul]
    omega
  have := beBytes_natOfBE (List.replicate k (0xff : UInt8) ++ beBytes L (256 ^ L - a))
  rw [hlen, hval] at this
  exact this.symm

/-- `_compose_mpint` on a negative value, when the word count covers its two's complement: exactly
the `L = bit_length(~v) / 8 + 1` byte two's complement (nothing to strip: its top bit is set). -/
theorem composeMpintCore_neg (v : Int) (hv : v < 0) (words : Nat)
    (hw : bitLength (-v - 1) / 8 + 1 ≤ 4 * words) :
    composeMpintCore v words = beBytes (bitLength (-v - 1) / 8 + 1)
      (256 ^ (bitLength (-v - 1) / 8 + 1) - v.natAbs) := by
  have hb := neg_two_mul_le v hv
  generalize hL : bitLength (-v - 1) / 8 + 1 = L at *
  have hbl : bitLength (-v - 1) / 8 * 8 + 8 = 8 * L := by omega
  have hpos : (((2 : Int) ^ (8 * L)) + v).toNat = 256 ^ L - v.natAbs := by
    rw [int_pow_cast]; omega
  have hposlt : 256 ^ L - v.natAbs < 256 ^ L := by
    have : 0 < 256 ^ L := Nat.pow_pos (by decide)
    omega
  have hlen : (Spec.minBytesBE (256 ^ L - v.natAbs)).length = L := by
    have h1 := (minBytesBE_length_le_iff _ L).mpr hposlt
    have h2 : ¬ (Spec.minBytesBE (256 ^ L - v.natAbs)).length ≤ L - 1 := by
      rw [minBytesBE_length_le_iff]
      have : 256 ^ L = 256 ^ (L - 1) * 256 := by
        rw [← Nat.pow_succ]; congr 1; omega
      omega
    omega
  unfold composeMpintCore
  simp only [hv, if_true, hbl, hpos]
  rw [← minBytesBE_eq_beBytes hlen]
  apply strip_beBytes
  exact Nat.lt_of_lt_of_le hposlt (Nat.pow_le_pow_right (by decide) hw)

/-- `compose_mpint(v, len)` on EVERY negative integer: the `len`-byte two's complement when
`-2^(8 len - 1) ≤ v`, an invalid-value error otherwise. -/
theorem composeMpint_neg (v : Int) (hv : v < 0) (len : Nat) :
    composeMpint v len =
      if 2 * v.natAbs ≤ 256 ^ len then .ok (beBytes len (256 ^ len - v.natAbs))
      else .error .invalidValue := by
  unfold composeMpint
  by_cases hg : bitLength v > 8 * len
  · rw [if_pos hg]
    have h1 : ¬ (bitLength v ≤ 8 * len) := by omega
    rw [bitLength_le_iff, ← pow_256_eq] at h1
    rw [if_neg (by omega)]
  · rw [if_neg hg]
    have hlt : v.natAbs < 256 ^ len := by
      have := (bitLength_le_iff v (8 * len)).mp (by omega)
      rwa [← pow_256_eq] at this
    have hlen1 : 1 ≤ len := by
      cases len with
      | zero => simp at hlt; omega
      | succ j => omega
    have hle := neg_two_mul_le v hv
    have hgt := neg_two_mul_gt v hv
    have hL : bitLength (-v - 1) / 8 < len + 1 := by
      have h1 : 256 ^ (bitLength (-v - 1) / 8) < 256 ^ (len + 1) := by
        rw [Nat.pow_succ]; omega
      exact (Nat.pow_lt_pow_iff_right (by decide)).mp h1
    have hcore := composeMpintCore_neg v hv len (by omega)
    simp only [hcore, beBytes_length]
    generalize hLL : bitLength (-v - 1) / 8 + 1 = L at *
    by_cases hf : 2 * v.natAbs ≤ 256 ^ len
    · have hLle : L ≤ len := by
        apply Classical.byContradiction
        intro hn
        have : bitLength (-v - 1) / 8 = len := by omega
        rw [this] at hgt
        omega
      rw [if_neg (by omega), if_pos hf, if_pos hv]
      have h3 := beBytes_neg_pad (len - L) L v.natAbs (by omega) (by omega)
      have h4 : len - L + L = len := by omega
      rw [h4] at h3
      rw [h3]
    · have hLgt : len < L := by
        apply Classical.byContradiction
        intro hn
        have := Nat.pow_le_pow_right (n := 256) (by decide) (show L ≤ len by omega)
        omega
      rw [if_pos hLgt, if_neg hf]

theorem encNat_network (k v : Nat) : encNat .network k v = beBytes k v := rfl

end Cp
