import CpProofs.HelloBase
import CpProofs.Ext2
/-
  Laws of `TlsHandshakeCertificateRequest` (RFC 5246 §7.4.4): RoundTrip for the constructible
  values (with and without `supported_signature_algorithms`, the look-ahead that tells them apart),
  what the parser accepts is constructible, and no crash.
-/
namespace Cp.Tls
open Cp Cp.Codec Cp.Hello

/-! ### `Vector` of fixed-width numbers with a converting `numeric_class` -/

theorem mapM_ok_of {conv : Nat → Except PErr Nat} (xs : List Nat) (h : ∀ x ∈ xs, conv x = .ok x) :
    xs.mapM conv = .ok xs := by
  induction xs with
  | nil => rfl
  | cons x xs ih =>
    simp [List.mapM_cons, h x (List.mem_cons_self ..), ih (fun y hy => h y (List.mem_cons_of_mem _ hy)), bind,
      Except.bind, pure, Except.pure]

theorem parseVecNum_roundTrip_conv {p : VecParam} {k : Nat} {conv : Nat → Except PErr Nat}
    (hk : validSize k = true) (hn : validSize p.numSize = true) (hmax : p.max < 256 ^ p.numSize) (xs : List Nat)
    (hx : ∀ x ∈ xs, x < 256 ^ k) (hc : ∀ x ∈ xs, conv x = .ok x) (hmin : p.min ≤ xs.length * k)
    (hle : xs.length * k ≤ p.max) :
    ∃ b, composeVecNum p k xs = .ok b ∧ b.length = p.numSize + xs.length * k ∧
      ∀ s, parseVecNum p k conv (b ++ s) = .ok (xs, b.length) := by
  have hfit : xs.length * k < 256 ^ p.numSize := by omega
  have hk0 := validSize_pos hk
  refine ⟨encNat .network p.numSize (xs.length * k) ++ encNums .network k xs, ?_, ?_, ?_⟩
  · simp only [composeVecNum, composeNum_ok hn hfit, composeNumArray_ok hk xs hx, bind, Except.bind,
      pure, Except.pure]
  · simp [encNums_length]
  · intro s
    unfold parseVecNum
    rw [List.append_assoc, parseNum_enc hn hfit]
    simp only [bind, Except.bind]
    have hdrop : (encNat .network p.numSize (xs.length * k) ++ (encNums .network k xs ++ s)).drop p.numSize
        = encNums .network k xs ++ s := by
      rw [List.drop_append_of_le_length (by simp)]
      rw [List.drop_of_length_le (by simp)]; rfl
    have hcnt : xs.length * k / k = xs.length := Nat.mul_div_cancel _ hk0
    rw [hdrop, hcnt]
    have hlen : ¬ ((encNums .network k xs ++ s).length < xs.length * k) := by
      simp [encNums_length]
    have hvs : (!validSize k) = false := by simp [hk]
    simp only [parseNumArray, hlen, if_false, hvs, Bool.false_eq_true, numItems_encNums xs hx s,
      mapM_ok_of xs hc, checkBounds_ok hmin hle, pure, Except.pure]
    simp only [List.length_append, encNat_length, encNums_length]

/-! ### the constructible certificate requests -/

theorem certReq_params :
    ParamOk clientCertificateTypeParam ∧ ParamOk distinguishedNameParam ∧ ParamOk distinguishedNameListParam ∧
    ParamOk signatureAlgorithmsParam ∧ clientCertificateTypeParam.numSize = 1 ∧
    distinguishedNameParam.numSize = 2 ∧ distinguishedNameListParam.numSize = 2 ∧
    signatureAlgorithmsParam.numSize = 2 ∧ 2 ≤ signatureAlgorithmsParam.min ∧
    (∀ t ∈ Gen.TlsClientCertificateType.memberCodes, t < 256 ^ 1) := by decide +kernel

/-- the certificate requests a caller can construct: certificate types of the enumeration inside
the vector bounds, optional signature algorithms (canonical items, inside the bounds — in
particular at least one), distinguished names inside their bounds, the payload inside 24 bits -/
structure CertificateRequestWf (r : CertificateRequest) : Prop where
  types : ∀ t ∈ r.certificateTypes, t ∈ Gen.TlsClientCertificateType.memberCodes
  typesMin : clientCertificateTypeParam.min ≤ r.certificateTypes.length * 1
  typesMax : r.certificateTypes.length * 1 ≤ clientCertificateTypeParam.max
  algs : ∀ a, r.signatureAlgorithms = some a →
    (∀ x ∈ a, CodedWf Gen.TlsSignatureAndHashAlgorithm.codes 2 x) ∧
      signatureAlgorithmsParam.min ≤ a.length * 2 ∧ a.length * 2 ≤ signatureAlgorithmsParam.max
  names : ∀ d ∈ r.authorities, distinguishedNameParam.min ≤ d.length ∧ d.length ≤ distinguishedNameParam.max
  namesMin : distinguishedNameListParam.min ≤ idsSize distinguishedNameParam r.authorities
  namesMax : idsSize distinguishedNameParam r.authorities ≤ distinguishedNameListParam.max

theorem convCertificateType_ok {t : Nat} (h : t ∈ Gen.TlsClientCertificateType.memberCodes) :
    convCertificateType t = .ok t := by
  have : Gen.TlsClientCertificateType.memberCodes.contains t = true := by simpa using h
  simp only [convCertificateType, this, if_true]

theorem distinguishedNames_rt (names : List Bytes)
    (hn : ∀ d ∈ names, distinguishedNameParam.min ≤ d.length ∧ d.length ≤ distinguishedNameParam.max)
    (hmin : distinguishedNameListParam.min ≤ idsSize distinguishedNameParam names)
    (hmax : idsSize distinguishedNameParam names ≤ distinguishedNameListParam.max) :
    ∃ c, composeVecItems distinguishedNameListParam (composeOpaque distinguishedNameParam) names = .ok c ∧
      c.length = distinguishedNameListParam.numSize + idsSize distinguishedNameParam names ∧
      decNat .network (c.take 2) = idsSize distinguishedNameParam names ∧
      ∀ s, parseDistinguishedNames (c ++ s) = .ok (names, c.length) := by
  obtain ⟨hp1, hp2, hp3, _, _, _, hn3, _⟩ := certReq_params
  have hx : ∀ d ∈ names, ItemRT (parseOpaque distinguishedNameParam) (composeOpaque distinguishedNameParam) d ∧
      (composeOpaque distinguishedNameParam d).map (·.length) = .ok (distinguishedNameParam.numSize + d.length) :=
    fun d h => ⟨opaque_itemRT hp2 d (hn d h).1 (hn d h).2, composeOpaque_length hp2 d (hn d h).1 (hn d h).2⟩
  obtain ⟨body, hb, hbl, _⟩ := composeItems_sized names hx
  have hbl' : body.length = idsSize distinguishedNameParam names := hbl
  rw [← hbl'] at hmin hmax
  have hv := parseVecItems_roundTrip hp3.1 hp3.2 names (fun d h => (hx d h).1) body hb hmin hmax
  refine ⟨_, (hv []).1, by simp [hbl'], ?_, fun s => ?_⟩
  · rw [hn3]
    have hfit : body.length < 256 ^ 2 := by have := hp3.2; rw [hn3] at this; omega
    rw [List.take_append_of_le_length (by simp), List.take_of_length_le (by simp),
      decNat_encNat_of_lt _ _ _ hfit, hbl']
  · unfold parseDistinguishedNames
    rw [(hv s).2]
    simp

/-- `TlsHandshakeCertificateRequest`, payload part -/
theorem certificateRequestInner_roundTrip {r : CertificateRequest} (hw : CertificateRequestWf r) :
    ∃ p, composeCertificateRequestInner r = .ok p ∧ ∃ m, parseCertificateRequestInner p = .ok (r, m) := by
  obtain ⟨hp1, hp2, hp3, hp4, hn1, hn2, hn3, hn4, hsmin, htf⟩ := certReq_params
  obtain ⟨types, algs, names⟩ := r
  obtain ⟨ht, htmin, htmax, ha, hnm, hnmin, hnmax⟩ := hw
  simp only at ht htmin htmax ha hnm hnmin hnmax
  obtain ⟨a, hca, hal, haa⟩ := parseVecNum_roundTrip_conv (p := clientCertificateTypeParam) (k := 1)
    (conv := convCertificateType) rfl hp1.1 hp1.2 types (fun t h => htf t (ht t h))
    (fun t h => convCertificateType_ok (ht t h)) htmin htmax
  obtain ⟨c, hcc, hcl, hcdec, hcp⟩ := distinguishedNames_rt names hnm hnmin hnmax
  have hc2 : 2 ≤ c.length := by rw [hcl, hn3]; omega
  have hpnum : ∀ s, parseNum .network 2 (c ++ s) = .ok (idsSize distinguishedNameParam names, 2) := by
    intro s
    rw [parseNum_prefix (by rfl) hc2 s, hcdec]
  cases algs with
  | none =>
    refine ⟨a ++ [] ++ c, ?_, a.length + c.length, ?_⟩
    · simp only [composeCertificateRequestInner, hca, hcc, bind, Except.bind, pure, Except.pure]
    · unfold parseCertificateRequestInner
      rw [List.append_nil, haa c]
      simp only [bind, Except.bind, drop_len_append]
      have h0 := hpnum []
      rw [List.append_nil] at h0
      rw [h0]
      have hlook : (idsSize distinguishedNameParam names + 2 == c.length) = true := by
        rw [hcl, hn3]; simp; omega
      simp only [hlook, if_true]
      have hc0 := hcp []
      rw [List.append_nil] at hc0
      rw [hc0]
      simp only [pure, Except.pure]
  | some al =>
    obtain ⟨hx, hamin, hamax⟩ := ha al rfl
    obtain ⟨body, hb, hbl, hbp⟩ := parseVecCoded_roundTrip signatureAlgorithms_tableOk (by decide) hp4.1 hp4.2 al hx
      hamin hamax c
    have hfit : al.length * 2 < 256 ^ 2 := by have := hp4.2; rw [hn4] at this; omega
    refine ⟨a ++ (encNat .network signatureAlgorithmsParam.numSize (al.length * 2) ++ body) ++ c, ?_,
      a.length + (signatureAlgorithmsParam.numSize + al.length * 2) + c.length, ?_⟩
    · obtain ⟨body', hb', _, _⟩ := parseVecCoded_roundTrip signatureAlgorithms_tableOk (by decide) hp4.1 hp4.2 al hx
        hamin hamax []
      rw [hb] at hb'
      simp only [composeCertificateRequestInner, hca, hb, hcc, bind, Except.bind, pure, Except.pure]
    · unfold parseCertificateRequestInner
      rw [List.append_assoc, haa]
      simp only [bind, Except.bind, drop_len_append]
      have hnum : parseNum .network 2
          (encNat .network signatureAlgorithmsParam.numSize (al.length * 2) ++ body ++ c) = .ok (al.length * 2, 2) := by
        rw [hn4, List.append_assoc]
        exact parseNum_enc (by rfl) hfit _
      rw [hnum]
      have hlook : (al.length * 2 + 2 ==
          (encNat .network signatureAlgorithmsParam.numSize (al.length * 2) ++ body ++ c).length) = false := by
        simp only [List.length_append, encNat_length, hbl, hn4]
        have : ¬ (al.length * 2 + 2 = 2 + al.length * 2 + c.length) := by omega
        simpa using this
      simp only [hlook, Bool.false_eq_true, if_false]
      rw [hbp]
      simp only
      have hd : (a ++ (encNat .network signatureAlgorithmsParam.numSize (al.length * 2) ++ body ++ c)).drop
          (a.length + (signatureAlgorithmsParam.numSize + al.length * 2)) = c := by
        rw [← List.append_assoc]
        exact drop_eq_append _ _ (by simp [hbl])
      rw [hd]
      have hc0 := hcp []
      rw [List.append_nil] at hc0
      rw [hc0]
      simp only [pure, Except.pure]

/-- the payload fits the 24-bit handshake length: the three vectors are at most 256 + 65536 + 65537 bytes -/
theorem certificateRequest_payload_fits {r : CertificateRequest} (hw : CertificateRequestWf r) {p : Bytes}
    (hc : composeCertificateRequestInner r = .ok p) : p.length < 256 ^ 3 := by
  obtain ⟨hp1, hp2, hp3, hp4, hn1, hn2, hn3, hn4, hsmin, htf⟩ := certReq_params
  obtain ⟨types, algs, names⟩ := r
  obtain ⟨ht, htmin, htmax, ha, hnm, hnmin, hnmax⟩ := hw
  simp only at ht htmin htmax ha hnm hnmin hnmax
  obtain ⟨a, hca, hal, _⟩ := parseVecNum_roundTrip_conv (p := clientCertificateTypeParam) (k := 1)
    (conv := convCertificateType) rfl hp1.1 hp1.2 types (fun t h => htf t (ht t h))
    (fun t h => convCertificateType_ok (ht t h)) htmin htmax
  obtain ⟨c, hcc, hcl, _, _⟩ := distinguishedNames_rt names hnm hnmin hnmax
  have h1 := hp1.2
  have h3 := hp3.2
  have h4 := hp4.2
  rw [hn1] at h1
  rw [hn3] at h3
  rw [hn4] at h4
  cases algs with
  | none =>
    simp only [composeCertificateRequestInner, hca, hcc, bind, Except.bind, pure, Except.pure] at hc
    cases hc
    simp only [List.length_append, List.length_nil, hal, hcl, hn1, hn3]
    omega
  | some al =>
    obtain ⟨hx, hamin, hamax⟩ := ha al rfl
    obtain ⟨body, hb, hbl, _⟩ := parseVecCoded_roundTrip signatureAlgorithms_tableOk (by decide) hp4.1 hp4.2 al hx
      hamin hamax []
    simp only [composeCertificateRequestInner, hca, hb, hcc, bind, Except.bind, pure, Except.pure] at hc
    cases hc
    simp only [List.length_append, encNat_length, hal, hcl, hbl, hn1, hn3, hn4]
    omega

theorem hsMember_13 : 13 ∈ Gen.TlsHandshakeType.memberCodes := by decide +kernel

theorem certificateRequest_roundTrip : RoundTrip certificateRequestCodec CertificateRequestWf := by
  apply hs_roundTrip hsMember_13
  intro r hw
  obtain ⟨p, hp, m, hm⟩ := certificateRequestInner_roundTrip hw
  exact ⟨p, hp, certificateRequest_payload_fits hw hp, m, hm⟩

/-! ### no crash -/

theorem mapM_conv_err {conv : Nat → Except PErr Nat} (hconv : ∀ x e, conv x = .error e → e = .invalidValue)
    {raw : List Nat} {e : PErr} (h : raw.mapM conv = .error e) : e = .invalidValue := by
  induction raw generalizing e with
  | nil => simp [List.mapM_nil, pure, Except.pure] at h
  | cons x xs ih =>
    rw [List.mapM_cons] at h
    rcases exceptBind_err_inv h with hx | ⟨y, _, h⟩
    · exact hconv _ _ hx
    · rcases exceptBind_err_inv h with hxs | ⟨ys, _, h⟩
      · exact ih hxs
      · cases h

theorem parseVecNum_conv_err {p : VecParam} {k : Nat} {conv : Nat → Except PErr Nat}
    (hn : validSize p.numSize = true) (hk : validSize k = true)
    (hconv : ∀ x e, conv x = .error e → e = .invalidValue)
    {bs : Bytes} {e : PErr} (h : parseVecNum p k conv bs = .error e) : Benign e := by
  unfold parseVecNum at h
  rcases exceptBind_err_inv h with h1 | ⟨⟨len, n⟩, _, h⟩
  · exact (parseNum_sizeErr hn h1).benign
  · simp only at h
    rcases exceptBind_err_inv h with h2 | ⟨⟨raw, m⟩, _, h⟩
    · unfold parseNumArray at h2
      split at h2
      · cases h2; exact Benign.hasSizeErrs.notEnough _
      · simp [hk] at h2
    · simp only at h
      rcases exceptBind_err_inv h with h3 | ⟨items, _, h⟩
      · exact .inr (mapM_conv_err hconv h3)
      · rcases exceptBind_err_inv h with h4 | ⟨u, _, h⟩
        · exact (checkBounds_sizeErr h4).benign
        · cases h

theorem parseDistinguishedNames_err {bs : Bytes} {e : PErr} (h : parseDistinguishedNames bs = .error e) :
    SizeErr e := by
  obtain ⟨_, hp2, hp3, _⟩ := certReq_params
  refine parseVecItems_errP SizeErr.hasSizeErrs hp3.1 (fun _ _ h => parseOpaque_sizeErr hp2.1 h)
    (fun _ _ _ h => (parseOpaque_lenBound h).2) ?_ h
  intro d e' ⟨b, n, hb⟩ hs
  obtain ⟨hmin, hmax⟩ := parseOpaque_ok_inv hb
  rw [composeOpaque_length hp2 d hmin hmax] at hs
  cases hs

theorem parseCertificateRequestInner_err {pl : Bytes} {e : PErr}
    (h : parseCertificateRequestInner pl = .error e) : Benign e := by
  obtain ⟨hp1, _, _, hp4, _⟩ := certReq_params
  unfold parseCertificateRequestInner at h
  rcases exceptBind_err_inv h with h1 | ⟨⟨types, n1⟩, _, h⟩
  · refine parseVecNum_conv_err hp1.1 (by rfl) ?_ h1
    intro x e' hx
    unfold convCertificateType at hx
    split at hx
    · cases hx
    · cases hx; rfl
  simp only at h
  rcases exceptBind_err_inv h with h2 | ⟨⟨vl, n2⟩, _, h⟩
  · exact (parseNum_sizeErr (by rfl) h2).benign
  simp only at h
  split at h
  · rcases exceptBind_err_inv h with h3 | ⟨_, _, h⟩
    · exact (parseDistinguishedNames_err h3).benign
    · cases h
  · rcases exceptBind_err_inv h with h3 | ⟨⟨algs, n3⟩, _, h⟩
    · exact (parseVecCoded_sizeErr hp4.1 (by rfl) h3).benign
    simp only at h
    rcases exceptBind_err_inv h with h4 | ⟨_, _, h⟩
    · exact (parseDistinguishedNames_err h4).benign
    · cases h

theorem certificateRequest_noCrash : NoCrash certificateRequestCodec :=
  hs_noCrash 13 (fun _ k h => (parseCertificateRequestInner_err h).not_crash k rfl)

end Cp.Tls
