import CpModel.Codec
import CpProofs.Num
import CpProofs.Enum
/-
  The codec laws, proved once per combinator.
-/
namespace Cp.Codec
open Cp

/-! ### small facts about `Except` binds used everywhere -/

theorem bind_ok {ε α β : Type} (x : α) (f : α → Except ε β) : (Except.ok x >>= f) = f x := rfl
theorem bind_err {ε α β : Type} (e : ε) (f : α → Except ε β) : (Except.error e >>= f) = Except.error e := rfl

/-! ### parseRaw / parseBytes -/

theorem parseRaw_ok_inv {size : Int} {rest : Bytes} {v : Bytes} {n : Nat}
    (h : parseRaw size rest = .ok (v, n)) :
    0 ≤ size ∧ n = size.toNat ∧ n ≤ rest.length ∧ v = rest.take n := by
  unfold parseRaw at h
  split at h
  · simp at h
  · split at h
    · simp at h
    · simp at h
      obtain ⟨h1, h2⟩ := h
      subst h1; subst h2
      refine ⟨by omega, rfl, by omega, rfl⟩

theorem parseRaw_nat_append (v s : Bytes) : parseRaw (v.length : Int) (v ++ s) = .ok (v, v.length) := by
  unfold parseRaw
  have h1 : ¬ ((v.length : Int) < 0) := by omega
  have h2 : ¬ (v.length + s.length < v.length) := by omega
  simp [h1, h2]

theorem parseNum_short {bo : ByteOrder} {k : Nat} {rest : Bytes} (h : rest.length < k) :
    parseNum bo k rest = .error (.notEnough ((k - rest.length : Nat) : Int)) := by
  unfold parseNum; simp [h]

theorem parseRaw_nat_short (n : Nat) (rest : Bytes) (h : rest.length < n) :
    parseRaw (n : Int) rest = .error (.notEnough ((n : Int) - rest.length)) := by
  unfold parseRaw
  simp [h]

theorem parseRaw_no_crash (size : Int) (rest : Bytes) (k : String) :
    parseRaw size rest ≠ .error (.crash k) := by
  unfold parseRaw
  split
  · simp
  · split <;> simp

theorem parseNum_no_crash {bo : ByteOrder} {k : Nat} (hk : validSize k = true) (rest : Bytes) (c : String) :
    parseNum bo k rest ≠ .error (.crash c) := by
  unfold parseNum
  split
  · simp
  · simp [hk]

theorem parseNum_err_inv {bo : ByteOrder} {k : Nat} (hk : validSize k = true) {rest : Bytes} {e : PErr}
    (h : parseNum bo k rest = .error e) :
    rest.length < k ∧ e = .notEnough ((k - rest.length : Nat) : Int) := by
  unfold parseNum at h
  split at h
  · next hl => simp at h; exact ⟨hl, h.symm⟩
  · simp [hk] at h

theorem parseBytes_ok_inv {bo : ByteOrder} {k : Nat} {rest : Bytes} {v : Bytes} {n : Nat}
    (h : parseBytes bo k rest = .ok (v, n)) :
    validSize k = true ∧ k ≤ rest.length ∧ n = k + v.length ∧ n ≤ rest.length ∧
      v = (rest.drop k).take v.length ∧ v.length = decNat bo (rest.take k) ∧ v.length < 256 ^ k := by
  unfold parseBytes at h
  cases hp : parseNum bo k rest with
  | error e => simp [hp, bind, Except.bind] at h
  | ok r =>
    obtain ⟨len, n1⟩ := r
    simp only [hp, bind, Except.bind] at h
    obtain ⟨hn1, hk, hlen, henc, hvs⟩ := parseNum_ok_inv hp
    subst hn1
    cases hr : parseRaw (len : Int) (rest.drop n1) with
    | error e => simp [hr] at h
    | ok r2 =>
      obtain ⟨body, m⟩ := r2
      simp [hr, pure, Except.pure] at h
      obtain ⟨hb, hn⟩ := h
      subst hb
      obtain ⟨_, hm, hm2, hbody⟩ := parseRaw_ok_inv hr
      simp at hm hm2
      subst hm
      have hbl : body.length = m := by rw [hbody]; simp; omega
      have hdec : m = decNat bo (rest.take n1) := by
        have := decNat_encNat_of_lt bo n1 m hlen
        rw [henc] at this; exact this.symm
      refine ⟨hvs, hk, by omega, by omega, ?_, ?_, ?_⟩
      · rw [hbl]; exact hbody
      · rw [hbl]; exact hdec
      · rw [hbl]; exact hlen

theorem composeBytes_ok {bo : ByteOrder} {k : Nat} (hk : validSize k = true) (v : Bytes)
    (hv : v.length < 256 ^ k) : composeBytes bo k v = .ok (encNat bo k v.length ++ v) := by
  unfold composeBytes
  rw [composeNum_ok hk hv]
  rfl

theorem parseBytes_append {bo : ByteOrder} {k : Nat} (hk : validSize k = true) (v s : Bytes)
    (hv : v.length < 256 ^ k) :
    parseBytes bo k (encNat bo k v.length ++ v ++ s) = .ok (v, k + v.length) := by
  unfold parseBytes
  rw [List.append_assoc, parseNum_enc hk hv]
  simp only [bind, Except.bind]
  have : (encNat bo k v.length ++ (v ++ s)).drop k = v ++ s := by
    rw [List.drop_append_of_le_length (by simp)]
    simp
  rw [this, parseRaw_nat_append]
  rfl

/-! ### `num` -/

theorem num_roundTrip (bo : ByteOrder) {k : Nat} (hk : validSize k = true) :
    RoundTrip (num bo k) (fun v => v < 256 ^ k) := by
  intro v hv
  refine ⟨encNat bo k v, composeNum_ok hk hv, ?_⟩
  intro s
  simp only [num, encNat_length]
  exact parseNum_enc hk hv s

theorem num_parseWf (bo : ByteOrder) (k : Nat) : ParseWf (num bo k) (fun v => v < 256 ^ k) := by
  intro b v n h
  exact (parseNum_ok_inv h).2.2.1

theorem num_lenBound (bo : ByteOrder) (k : Nat) : LenBound (num bo k) := by
  intro b v n h
  obtain ⟨h1, h2, _⟩ := parseNum_ok_inv h
  omega

theorem num_positive (bo : ByteOrder) {k : Nat} (hk : 0 < k) : Positive (num bo k) := by
  intro b v n h
  obtain ⟨h1, _⟩ := parseNum_ok_inv h
  omega

theorem num_noCrash (bo : ByteOrder) {k : Nat} (hk : validSize k = true) : NoCrash (num bo k) :=
  fun b c => parseNum_no_crash hk b c

theorem num_selfDelim (bo : ByteOrder) (k : Nat) : SelfDelim (num bo k) := by
  intro b v n h s
  obtain ⟨hn, hlen, hv, henc, hk⟩ := parseNum_ok_inv h
  subst hn
  simp only [num]
  rw [← henc]
  exact parseNum_enc hk hv s

theorem num_prefixReject (bo : ByteOrder) {k : Nat} (hk : validSize k = true) :
    PrefixReject (num bo k) (fun v => v < 256 ^ k) := by
  intro v b hv hc j hj
  simp only [num] at hc
  rw [composeNum_ok hk hv] at hc
  cases hc
  simp only [encNat_length] at hj
  refine ⟨k - j, ?_, by omega, by simp⟩
  simp only [num]
  have hl : ((encNat bo k v).take j).length = j := by simp; omega
  rw [parseNum_short (by omega), hl]

/-! ### `bytesPrefixed` -/

theorem bytesPrefixed_roundTrip (bo : ByteOrder) {k : Nat} (hk : validSize k = true) :
    RoundTrip (bytesPrefixed bo k) (fun v => v.length < 256 ^ k) := by
  intro v hv
  refine ⟨encNat bo k v.length ++ v, composeBytes_ok hk v hv, ?_⟩
  intro s
  simp only [bytesPrefixed]
  rw [parseBytes_append hk v s hv]
  simp

theorem bytesPrefixed_parseWf (bo : ByteOrder) (k : Nat) :
    ParseWf (bytesPrefixed bo k) (fun v => v.length < 256 ^ k) := by
  intro b v n h
  exact (parseBytes_ok_inv h).2.2.2.2.2.2

theorem bytesPrefixed_lenBound (bo : ByteOrder) (k : Nat) : LenBound (bytesPrefixed bo k) := by
  intro b v n h
  exact (parseBytes_ok_inv h).2.2.2.1

theorem bytesPrefixed_positive (bo : ByteOrder) {k : Nat} (hk : 0 < k) : Positive (bytesPrefixed bo k) := by
  intro b v n h
  have := (parseBytes_ok_inv h).2.2.1
  omega

theorem bytesPrefixed_noCrash (bo : ByteOrder) {k : Nat} (hk : validSize k = true) :
    NoCrash (bytesPrefixed bo k) := by
  intro b c
  simp only [bytesPrefixed]
  unfold parseBytes
  cases hp : parseNum bo k b with
  | error e =>
    simp only [bind, Except.bind]
    intro h
    cases h
    exact parseNum_no_crash hk b c hp
  | ok r =>
    obtain ⟨len, n⟩ := r
    simp only [bind, Except.bind]
    cases hr : parseRaw (len : Int) (b.drop n) with
    | error e =>
      intro h
      cases h
      exact parseRaw_no_crash _ _ c hr
    | ok r2 => simp [pure, Except.pure]

theorem bytesPrefixed_selfDelim (bo : ByteOrder) (k : Nat) : SelfDelim (bytesPrefixed bo k) := by
  intro b v n h s
  obtain ⟨hvs, hk, hn, hnl, hv, hdec, hlt⟩ := parseBytes_ok_inv h
  simp only [bytesPrefixed]
  have henc : encNat bo k v.length = b.take k := by
    rw [hdec]
    have := encNat_decNat bo (b.take k)
    simp only [List.length_take, Nat.min_eq_left hk] at this
    exact this
  have hsplit : b.take n = encNat bo k v.length ++ v := by
    rw [henc, hn, hv]
    rw [List.take_add]
    congr 1
    simp
  rw [hsplit, parseBytes_append hvs v s hlt, hn]

theorem bytesPrefixed_prefixReject (bo : ByteOrder) {k : Nat} (hk : validSize k = true) :
    PrefixReject (bytesPrefixed bo k) (fun v => v.length < 256 ^ k) := by
  intro v b hv hc j hj
  simp only [bytesPrefixed] at hc
  rw [composeBytes_ok hk v hv] at hc
  cases hc
  simp only [List.length_append, encNat_length] at hj ⊢
  simp only [bytesPrefixed]
  by_cases hjk : j < k
  · refine ⟨k - j, ?_, by omega, by omega⟩
    have hl : ((encNat bo k v.length ++ v).take j).length = j := by simp; omega
    unfold parseBytes
    rw [parseNum_short (by omega), hl]
    rfl
  · have hjk' : k ≤ j := by omega
    refine ⟨k + v.length - j, ?_, by omega, by omega⟩
    have htake : (encNat bo k v.length ++ v).take j = encNat bo k v.length ++ v.take (j - k) := by
      rw [List.take_append]
      simp [List.take_of_length_le, hjk']
    rw [htake]
    unfold parseBytes
    rw [parseNum_enc hk hv]
    simp only [bind, Except.bind]
    have hdrop : (encNat bo k v.length ++ v.take (j - k)).drop k = v.take (j - k) := by
      rw [List.drop_append_of_le_length (by simp)]
      simp
    rw [hdrop, parseRaw_nat_short]
    · simp; omega
    · simp; omega

end Cp.Codec
