import CpModel.Opp.Msg
import CpSpec.Opp
import CpProofs.Codec2
import CpProofs.Flags
import CpProofs.Mpint
import CpProofs.Reader
/-
  Lemmas behind C09: the opportunistic-TLS application messages.
  For each modelled class: the closed form of `compose` on well-formed values (which is the
  specification's encoder), the round trip through the model's parser with an arbitrary suffix, the
  specification's own decoder ∘ encoder, and for the framing units the four framing laws.
-/
namespace Cp.Opp
open Cp Cp.Codec

/-! ### helpers -/

theorem drop_enc (bo : ByteOrder) (k v : Nat) (X : Bytes) : List.drop k (encNat bo k v ++ X) = X :=
  List.drop_left' (encNat_length bo k v)

theorem encNat_big (k v : Nat) : encNat .network k v = Spec.toBytesBE k v := by
  show beBytes k v = _; exact beBytes_eq_spec k v

theorem encNat_little (k v : Nat) : encNat .little k v = Spec.toBytesLE k v := by
  show leBytes k v = _; exact leBytes_eq_spec k v

theorem parseNum_ok_of_le {bo : ByteOrder} {k : Nat} (hk : validSize k = true) {rest : Bytes}
    (h : k ≤ rest.length) : parseNum bo k rest = .ok (decNat bo (rest.take k), k) := by
  unfold parseNum
  have : ¬ rest.length < k := by omega
  simp [this, hk]

theorem parseRaw_ok_of_le {n : Nat} {rest : Bytes} (h : n ≤ rest.length) :
    parseRaw (n : Int) rest = .ok (rest.take n, n) := by
  unfold parseRaw
  have h1 : ¬ ((n : Int) < 0) := by omega
  have h2 : ¬ rest.length < n := by omega
  simp [h1, h2]

/-! ### PostgreSQL `SslRequest` and `Sync` -/

def sslWf (p : Nat × Nat) : Prop :=
  (p.1 < 256 ^ 4 ∧ (p.1 == SslRequest_MESSAGE_SIZE) = true) ∧ (p.2 < 256 ^ 4 ∧ (p.2 == SslRequest_REQUEST_CODE) = true)

theorem sslWf_const : sslWf (SslRequest_MESSAGE_SIZE, SslRequest_REQUEST_CODE) :=
  ⟨⟨by decide, by decide⟩, ⟨by decide, by decide⟩⟩

theorem sslInner_roundTrip :
    RoundTrip (seq (guardE (num .network 4) (fun l => l == SslRequest_MESSAGE_SIZE) .invalidValue)
         (guardE (num .network 4) (fun c => c == SslRequest_REQUEST_CODE) .invalidValue)) sslWf :=
  seq_roundTrip (guardE_roundTrip (num_roundTrip .network rfl)) (guardE_roundTrip (num_roundTrip .network rfl))

theorem sslRequest_compose :
    composeSslRequest () = .ok (encNat .network 4 8 ++ encNat .network 4 80877103) := by decide

theorem sslRequest_roundTrip : RoundTrip sslRequestUnitCodec (fun _ => True) := by
  intro v _
  obtain ⟨b, hb, hbb⟩ := minSize_roundTrip sslInner_roundTrip
    (n := SslRequest_MESSAGE_SIZE) (by
      intro v b hv hc
      obtain ⟨b', hb', hbb'⟩ := sslInner_roundTrip v hv
      rw [hc] at hb'; cases hb'
      have := hbb' []
      simp only [List.append_nil] at this
      obtain ⟨⟨h1, _⟩, ⟨h2, _⟩⟩ := hv
      have hl := seq_lenBound (guardE_lenBound (num_lenBound .network 4)) (guardE_lenBound (num_lenBound .network 4)) _ _ _ this
      obtain ⟨n, m, ha, hb2, hnm⟩ := seq_parse_ok_inv this
      have hn := (parseNum_ok_inv (guardE_parse_ok_inv ha).1).1
      have hm := (parseNum_ok_inv (guardE_parse_ok_inv hb2).1).1
      simp only [SslRequest_MESSAGE_SIZE]; omega)
    (SslRequest_MESSAGE_SIZE, SslRequest_REQUEST_CODE) sslWf_const
  refine ⟨b, hb, ?_⟩
  intro s
  have hlen : b.length = 8 := by
    have : composeSslRequest () = .ok b := hb
    rw [sslRequest_compose] at this; cases this; simp
  show parseSslRequest (b ++ s) = _
  unfold parseSslRequest
  show Except.map _ (sslRequestCodec.parse (b ++ s)) = _
  rw [show sslRequestCodec.parse (b ++ s) = _ from hbb s]
  simp [Except.map, hlen, SslRequest_MESSAGE_SIZE]

theorem sslInner_consumed {bs : Bytes} {v : Nat × Nat} {t : Nat}
    (h : (seq (guardE (num .network 4) (fun l => l == SslRequest_MESSAGE_SIZE) .invalidValue)
         (guardE (num .network 4) (fun c => c == SslRequest_REQUEST_CODE) .invalidValue)).parse bs = .ok (v, t)) :
    t = 8 := by
  obtain ⟨x, y⟩ := v
  obtain ⟨n, m, ha, hb, hnm⟩ := seq_parse_ok_inv h
  have hn := (parseNum_ok_inv (guardE_parse_ok_inv ha).1).1
  have hm := (parseNum_ok_inv (guardE_parse_ok_inv hb).1).1
  omega

theorem sslInner_lenBound :
    LenBound (seq (guardE (num .network 4) (fun l => l == SslRequest_MESSAGE_SIZE) .invalidValue)
         (guardE (num .network 4) (fun c => c == SslRequest_REQUEST_CODE) .invalidValue)) :=
  seq_lenBound (guardE_lenBound (num_lenBound .network 4)) (guardE_lenBound (num_lenBound .network 4))

theorem sslCodec_selfDelim : SelfDelim sslRequestCodec :=
  minSize_selfDelim
    (seq_selfDelim (guardE_selfDelim (num_selfDelim .network 4)) (guardE_lenBound (num_lenBound .network 4))
      (guardE_selfDelim (num_selfDelim .network 4)) (guardE_lenBound (num_lenBound .network 4)))
    (fun _ _ _ h => by have := sslInner_consumed h; simp only [SslRequest_MESSAGE_SIZE]; omega)
    sslInner_lenBound

theorem sslCodec_prefixReject : PrefixReject sslRequestCodec sslWf :=
  minSize_prefixReject
    (seq_prefixReject (guardE_roundTrip (num_roundTrip .network rfl))
      (guardE_prefixReject (num_prefixReject .network rfl)) (guardE_prefixReject (num_prefixReject .network rfl)))
    (by
      intro v b hv hc
      obtain ⟨b', hb', hbb'⟩ := sslInner_roundTrip v hv
      rw [hc] at hb'; cases hb'
      have := hbb' []
      simp only [List.append_nil] at this
      have h8 := sslInner_consumed this
      simp only [SslRequest_MESSAGE_SIZE]; omega)

theorem parseSslRequest_ok_inv {bs : Bytes} {v : Unit} {n : Nat} (h : parseSslRequest bs = .ok (v, n)) :
    n = 8 ∧ ∃ x, sslRequestCodec.parse bs = .ok (x, 8) := by
  unfold parseSslRequest at h
  cases hp : sslRequestCodec.parse bs with
  | error e => rw [hp] at h; simp [Except.map] at h
  | ok r =>
    obtain ⟨x, m⟩ := r
    rw [hp] at h
    simp [Except.map, SslRequest_MESSAGE_SIZE] at h
    have hm := sslInner_consumed (minSize_parse_ok_inv hp).1
    subst hm
    exact ⟨h.symm, x, rfl⟩

theorem sslRequest_lenBound : LenBound sslRequestUnitCodec := by
  intro bs v n h
  obtain ⟨hn, x, hx⟩ := parseSslRequest_ok_inv h
  have := (minSize_parse_ok_inv hx).2
  simp only [SslRequest_MESSAGE_SIZE] at this
  omega

theorem sslRequest_positive : Positive sslRequestUnitCodec := by
  intro bs v n h
  have := (parseSslRequest_ok_inv h).1
  omega

theorem sslRequest_selfDelim : SelfDelim sslRequestUnitCodec := by
  intro bs v n h s
  obtain ⟨hn, x, hx⟩ := parseSslRequest_ok_inv h
  subst hn
  have := sslCodec_selfDelim _ _ _ hx s
  show parseSslRequest _ = _
  unfold parseSslRequest
  rw [this]
  rfl

theorem sslRequest_prefixReject : PrefixReject sslRequestUnitCodec (fun _ => True) := by
  intro v b _ hc k hk
  obtain ⟨m, hm, h1, h2⟩ := sslCodec_prefixReject _ b sslWf_const hc k hk
  refine ⟨m, ?_, h1, h2⟩
  show parseSslRequest _ = _
  unfold parseSslRequest
  rw [hm]
  rfl

theorem sslRequest_noCrash : NoCrash sslRequestUnitCodec := by
  intro bs k h
  have hh : parseSslRequest bs = .error (.crash k) := h
  unfold parseSslRequest at hh
  cases hp : sslRequestCodec.parse bs with
  | ok r => rw [hp] at hh; simp [Except.map] at hh
  | error e =>
    rw [hp] at hh
    simp [Except.map] at hh
    subst hh
    exact minSize_noCrash (seq_noCrash (guardE_noCrash (num_noCrash .network rfl) rfl)
      (guardE_noCrash (num_noCrash .network rfl) rfl)) bs k hp

theorem sslRequest_compose_spec : composeSslRequest () = .ok Spec.Opp.encodePgSslRequest := by decide

theorem sync_roundTrip (s : Bytes) : composeSync () = .ok [0x53] ∧ parseSync ([0x53] ++ s) = .ok ((), 1) := by
  refine ⟨rfl, ?_⟩
  simp [parseSync, parseRaw, Sync_MESSAGE_SIZE, Sync_COMMAND, bind, Except.bind, pure, Except.pure]

/-! ### the specification's readers -/

open Cp.Spec Cp.Spec.Opp

theorem fromBytesLE_eq_leVal (b : Bytes) : fromBytesLE b = leVal b := by
  induction b with
  | nil => rfl
  | cons x xs ih => simp [fromBytesLE, leVal] at ih ⊢; rw [← ih]

theorem rdBE_enc {k v : Nat} (hv : v < 256 ^ k) (t : Bytes) : rdBE k (toBytesBE k v ++ t) = some (v, t) := by
  unfold rdBE
  rw [← beBytes_eq_spec]
  have h1 : ¬ (beBytes k v ++ t).length < k := by simp
  simp only [h1, if_false]
  rw [List.take_left' (beBytes_length k v), List.drop_left' (beBytes_length k v), ← natOfBE_eq_spec,
    natOfBE_beBytes, Nat.mod_eq_of_lt hv]

theorem rdLE_enc {k v : Nat} (hv : v < 256 ^ k) (t : Bytes) : rdLE k (toBytesLE k v ++ t) = some (v, t) := by
  unfold rdLE
  rw [← leBytes_eq_spec]
  have h1 : ¬ (leBytes k v ++ t).length < k := by simp
  simp only [h1, if_false]
  rw [List.take_left' (leBytes_length k v), List.drop_left' (leBytes_length k v), fromBytesLE_eq_leVal,
    leVal_leBytes, Nat.mod_eq_of_lt hv]

theorem rdN_app (b t : Bytes) : rdN b.length (b ++ t) = some (b, t) := by
  unfold rdN
  simp

theorem rdN_app' {n : Nat} (b t : Bytes) (h : b.length = n) : rdN n (b ++ t) = some (b, t) := by
  subst h; exact rdN_app b t

theorem rdNul_app (s t : Bytes) (h : noNul s) : rdNul (s ++ 0 :: t) = some (s, t) := by
  induction s with
  | nil => simp [rdNul]
  | cons x xs ih =>
    have hx : x ≠ 0 := fun e => h (by simp [e])
    have hxs : noNul xs := fun e => h (by simp [e])
    simp [rdNul, hx, ih hxs]

theorem rdU32s_app (xs : List Nat) (t : Bytes) (h : ∀ a ∈ xs, a < 2 ^ 32) :
    rdU32s xs.length ((xs.map (toBytesBE 4)).flatten ++ t) = some (xs, t) := by
  induction xs with
  | nil => simp [rdU32s]
  | cons x xs ih =>
    have hx : x < 256 ^ 4 := h x (by simp)
    simp only [List.length_cons, List.map_cons, List.flatten_cons, List.append_assoc, rdU32s, rdBE_enc hx]
    simp only [Option.bind_eq_bind, Option.bind_some, ih (fun a ha => h a (by simp [ha]))]
    rfl

theorem pgSslRequest_spec_roundtrip (s : Bytes) : decodePgSslRequest (encodePgSslRequest ++ s) = some 8 := by
  unfold decodePgSslRequest encodePgSslRequest
  rw [List.append_assoc, rdBE_enc (by decide)]
  simp only [Option.bind_eq_bind, Option.bind_some]
  rw [rdBE_enc (by decide)]
  simp

/-! ### OpenVPN over TCP -/

def wrapperWf (v : Bytes) : Prop := v.length < 65536

theorem wrapper_roundTrip : RoundTrip wrapperTcpCodec wrapperWf := bytesPrefixed_roundTrip .network rfl
theorem wrapper_lenBound : LenBound wrapperTcpCodec := bytesPrefixed_lenBound .network 2
theorem wrapper_positive : Positive wrapperTcpCodec := bytesPrefixed_positive .network (by decide)
theorem wrapper_selfDelim : SelfDelim wrapperTcpCodec := bytesPrefixed_selfDelim .network 2
theorem wrapper_prefixReject : PrefixReject wrapperTcpCodec wrapperWf := bytesPrefixed_prefixReject .network rfl
theorem wrapper_noCrash : NoCrash wrapperTcpCodec := bytesPrefixed_noCrash .network rfl
theorem wrapper_parseWf : ParseWf wrapperTcpCodec wrapperWf := bytesPrefixed_parseWf .network 2

theorem wrapper_compose_spec (v : Bytes) (hv : wrapperWf v) :
    wrapperTcpCodec.compose v = .ok (encodeOvpnTcp v) := by
  show composeBytes .network 2 v = _
  rw [composeBytes_ok rfl v hv, encNat_big]
  rfl

theorem ovpnTcp_spec_roundtrip (v s : Bytes) (hv : v.length < 65536) :
    decodeOvpnTcp (encodeOvpnTcp v ++ s) = some (v, 2 + v.length) := by
  unfold decodeOvpnTcp encodeOvpnTcp
  rw [List.append_assoc, rdBE_enc (by simpa using hv)]
  simp only [Option.bind_eq_bind, Option.bind_some]
  rw [rdN_app]
  rfl

/-! ### TPKT -/

theorem parseTpkt_closed (bs : Bytes) (h4 : 4 ≤ bs.length) :
    parseTpkt bs =
      if decNat .network (bs.take 1) != 3 then .error .invalidValue
      else if bs.length < decNat .network ((bs.drop 2).take 2) then
        .error (.notEnough ((decNat .network ((bs.drop 2).take 2) - bs.length : Nat) : Int))
      else if decNat .network ((bs.drop 2).take 2) < 4 then .error .invalidValue
      else .ok (⟨decNat .network (bs.take 1), (bs.drop 4).take (decNat .network ((bs.drop 2).take 2) - 4)⟩,
                decNat .network ((bs.drop 2).take 2)) := by
  unfold parseTpkt
  have h0 : ¬ bs.length < TPKT_HEADER_SIZE := by simp only [TPKT_HEADER_SIZE]; omega
  rw [if_neg h0, parseNum_ok_of_le (bo := .network) (k := 1) rfl (by omega)]
  simp only [bind, Except.bind]
  split
  · rfl
  · rw [parseNum_ok_of_le (bo := .network) (k := 1) rfl (by simp; omega)]
    simp only [List.drop_drop]
    rw [parseNum_ok_of_le (bo := .network) (k := 2) rfl (by simp; omega)]
    simp only [Nat.reduceAdd]
    generalize decNat .network ((bs.drop 2).take 2) = len
    split
    · rfl
    · next hl =>
      by_cases hlt : len < 4
      · have : parseRaw ((len : Int) - 4) (List.drop 4 bs) = .error .invalidValue := by
          unfold parseRaw; rw [if_pos (by omega)]
        simp [this, hlt]
      · have e : ((len : Int) - 4) = ((len - 4 : Nat) : Int) := by omega
        rw [e, parseRaw_ok_of_le (by simp; omega)]
        simp [hlt, pure, Except.pure]
        omega

theorem slice_take_append (bs s : Bytes) (n i j : Nat) (h : i + j ≤ n) (hn : n ≤ bs.length) :
    ((bs.take n ++ s).drop i).take j = (bs.drop i).take j := by
  rw [List.drop_append_of_le_length (by simp; omega), List.take_append_of_le_length (by simp; omega),
    List.drop_take, List.take_take]
  congr 1
  omega

def tpktWf (t : Tpkt) : Prop := t.version = 3 ∧ t.message.length + 4 < 65536

theorem composeTpkt_spec (t : Tpkt) (h : tpktWf t) : composeTpkt t = .ok (encodeTpkt t.message) := by
  obtain ⟨hv, hl⟩ := h
  unfold composeTpkt encodeTpkt
  have h0 : composeNum .network 1 0 = .ok [0] := by decide
  have h3 : composeNum .network 1 ((3 : Nat) : Int) = .ok [3] := by decide
  rw [hv, h3, h0, composeNum_ok rfl (by simpa using hl), encNat_big]
  rfl

theorem decNat_toBytesBE {k v : Nat} (hv : v < 256 ^ k) : decNat .network (toBytesBE k v) = v := by
  rw [← encNat_big, decNat_encNat_of_lt _ _ _ hv]

theorem decNat_toBytesLE {k v : Nat} (hv : v < 256 ^ k) : decNat .little (toBytesLE k v) = v := by
  rw [← encNat_little, decNat_encNat_of_lt _ _ _ hv]

@[simp] theorem toBytesBE_length (k v : Nat) : (toBytesBE k v).length = k := by simp [toBytesBE]
@[simp] theorem toBytesLE_length (k v : Nat) : (toBytesLE k v).length = k := by simp [toBytesLE]

theorem encodeTpkt_eq (msg : Bytes) : encodeTpkt msg = 3 :: 0 :: (toBytesBE 2 (msg.length + 4) ++ msg) := rfl

theorem parseTpkt_encode (msg s : Bytes) (hl : msg.length + 4 < 65536) :
    parseTpkt (encodeTpkt msg ++ s) = .ok (⟨3, msg⟩, msg.length + 4) := by
  have hlen : 4 ≤ (encodeTpkt msg ++ s).length := by simp [encodeTpkt]
  rw [parseTpkt_closed _ hlen]
  have e1 : (encodeTpkt msg ++ s).take 1 = [3] := by simp [encodeTpkt]
  have e2 : ((encodeTpkt msg ++ s).drop 2).take 2 = toBytesBE 2 (msg.length + 4) := by
    simp only [encodeTpkt_eq, List.cons_append, List.append_assoc, List.drop_succ_cons, List.drop_zero]
    rw [List.take_left' (by simp)]
  have e3 : (encodeTpkt msg ++ s).drop 4 = msg ++ s := by
    simp only [encodeTpkt_eq, List.cons_append, List.append_assoc, List.drop_succ_cons]
    rw [List.drop_left' (by simp)]
  rw [e1, e2, e3, decNat_toBytesBE (by simpa using hl)]
  have d3 : decNat .network [3] = 3 := by decide
  have hnl : ¬ (encodeTpkt msg ++ s).length < msg.length + 4 := by simp [encodeTpkt]; omega
  have hn4 : ¬ msg.length + 4 < 4 := by omega
  simp only [d3, hnl, hn4, if_false, bne_self_eq_false, Bool.false_eq_true, Nat.add_sub_cancel]
  rw [List.take_left' rfl]

theorem tpkt_roundTrip : RoundTrip tpktCodec tpktWf := by
  intro t h
  refine ⟨encodeTpkt t.message, composeTpkt_spec t h, ?_⟩
  intro s
  have := parseTpkt_encode t.message s h.2
  obtain ⟨v, m⟩ := t
  obtain ⟨hv, _⟩ := h
  simp only at hv; subst hv
  have e : (encodeTpkt m).length = m.length + 4 := by simp [encodeTpkt_eq]; omega
  rw [e]
  exact this

theorem parseTpkt_ok_inv {bs : Bytes} {t : Tpkt} {n : Nat} (h : parseTpkt bs = .ok (t, n)) :
    4 ≤ bs.length ∧ decNat .network (bs.take 1) = 3 ∧ n = decNat .network ((bs.drop 2).take 2) ∧ 4 ≤ n ∧
      n ≤ bs.length ∧ t = ⟨3, (bs.drop 4).take (n - 4)⟩ := by
  by_cases h4 : bs.length < 4
  · unfold parseTpkt at h; simp [TPKT_HEADER_SIZE, h4] at h
  · rw [parseTpkt_closed bs (by omega)] at h
    split at h
    · simp at h
    · next hv =>
      split at h
      · simp at h
      · split at h
        · simp at h
        · simp only [Except.ok.injEq, Prod.mk.injEq] at h
          obtain ⟨h1, h2⟩ := h
          have hv3 : decNat .network (bs.take 1) = 3 := by simpa using hv
          refine ⟨by omega, hv3, h2.symm, by omega, by omega, ?_⟩
          rw [← h1, hv3, h2]

theorem tpkt_lenBound : LenBound tpktCodec := fun _ _ _ h => (parseTpkt_ok_inv h).2.2.2.2.1
theorem tpkt_positive : Positive tpktCodec := fun _ _ _ h => by have := (parseTpkt_ok_inv h).2.2.2.1; omega

theorem tpkt_parseWf : ParseWf tpktCodec tpktWf := by
  intro bs t n h
  obtain ⟨h4, hv, hn, hn4, hnl, ht⟩ := parseTpkt_ok_inv h
  subst ht
  refine ⟨rfl, ?_⟩
  have := decNat_lt .network ((bs.drop 2).take 2)
  have hl : ((bs.drop 2).take 2).length = 2 := by simp; omega
  rw [hl] at this
  simp only [List.length_take, List.length_drop]
  omega

theorem tpkt_selfDelim : SelfDelim tpktCodec := by
  intro bs t n h s
  obtain ⟨h4, hv, hn, hn4, hnl, ht⟩ := parseTpkt_ok_inv h
  show parseTpkt _ = _
  have hlen : 4 ≤ (bs.take n ++ s).length := by simp; omega
  rw [parseTpkt_closed _ hlen]
  have e1 : (bs.take n ++ s).take 1 = bs.take 1 := by
    have := slice_take_append bs s n 0 1 (by omega) hnl
    simpa using this
  have e2 := slice_take_append bs s n 2 2 (by omega) hnl
  have e3 := slice_take_append bs s n 4 (n - 4) (by omega) hnl
  rw [e1, e2, hv, ← hn, e3, ht]
  have hnl' : ¬ (bs.take n ++ s).length < n := by simp; omega
  have hn4' : ¬ n < 4 := by omega
  simp only [hnl', hn4', if_false, bne_self_eq_false, Bool.false_eq_true]

theorem tpkt_prefixReject : PrefixReject tpktCodec tpktWf := by
  intro t b h hc k hk
  have hb : b = encodeTpkt t.message := by
    have := composeTpkt_spec t h
    rw [show composeTpkt t = tpktCodec.compose t from rfl, hc] at this
    exact (Except.ok.inj this)
  subst hb
  have hbl : (encodeTpkt t.message).length = t.message.length + 4 := by simp [encodeTpkt]; omega
  show ∃ m : Nat, parseTpkt _ = _ ∧ _
  by_cases hk4 : k < 4
  · refine ⟨4 - k, ?_, by omega, by omega⟩
    unfold parseTpkt
    have : ((encodeTpkt t.message).take k).length = k := by simp; omega
    simp [TPKT_HEADER_SIZE, this, hk4]
  · have hlen : 4 ≤ ((encodeTpkt t.message).take k).length := by simp; omega
    rw [parseTpkt_closed _ hlen]
    refine ⟨(encodeTpkt t.message).length - k, ?_, by omega, by omega⟩
    have e1 : ((encodeTpkt t.message).take k).take 1 = [3] := by
      rw [List.take_take, Nat.min_eq_left (by omega)]; simp [encodeTpkt]
    have e2 : (((encodeTpkt t.message).take k).drop 2).take 2 = toBytesBE 2 (t.message.length + 4) := by
      have := slice_take_append (encodeTpkt t.message) [] k 2 2 (by omega) (by omega)
      simp only [List.append_nil] at this
      rw [this]
      simp only [encodeTpkt_eq, List.drop_succ_cons, List.drop_zero]
      rw [List.take_left' (by simp)]
    rw [e1, e2, decNat_toBytesBE (by simpa using h.2)]
    have d3 : decNat .network [3] = 3 := by decide
    have hl : ((encodeTpkt t.message).take k).length = k := by simp; omega
    have hlt : k < t.message.length + 4 := by omega
    simp only [d3, hl, hlt, if_true, bne_self_eq_false, Bool.false_eq_true, if_false, hbl]

theorem tpkt_noCrash : NoCrash tpktCodec := by
  intro bs c h
  have hh : parseTpkt bs = .error (.crash c) := h
  by_cases h4 : bs.length < 4
  · unfold parseTpkt at hh; simp [TPKT_HEADER_SIZE, h4] at hh
  · rw [parseTpkt_closed bs (by omega)] at hh
    split at hh
    · simp at hh
    · split at hh
      · simp at hh
      · split at hh <;> simp at hh

theorem tpkt_spec_roundtrip (msg s : Bytes) (hl : msg.length + 4 < 65536) :
    decodeTpkt (encodeTpkt msg ++ s) = some (msg, msg.length + 4) := by
  unfold decodeTpkt encodeTpkt
  have h3 : ([3, 0] : Bytes) = toBytesBE 1 3 ++ toBytesBE 1 0 := by decide
  rw [h3]
  simp only [List.append_assoc]
  rw [rdBE_enc (by decide)]
  simp only [Option.bind_eq_bind, Option.bind_some]
  rw [rdBE_enc (by decide)]
  simp only [Option.bind_some]
  rw [rdBE_enc (by simpa using hl)]
  simp only [Option.bind_some]
  have : ¬ ((3 : Nat) ≠ 3 ∨ msg.length + 4 < 4) := by omega
  simp only [this, if_false, Nat.add_sub_cancel, rdN_app]
  rfl



/-! ### MySQL packet -/

theorem parseMySqlRecord_closed (bs : Bytes) (h4 : 4 ≤ bs.length) :
    parseMySqlRecord bs =
      if (bs.drop 4).length < decNat .little (bs.take 3) then
        .error (.notEnough ((decNat .little (bs.take 3) : Int) - ((bs.drop 4).length : Int)))
      else .ok (⟨decNat .little ((bs.drop 3).take 1), (bs.drop 4).take (decNat .little (bs.take 3))⟩,
                4 + decNat .little (bs.take 3)) := by
  unfold parseMySqlRecord
  have h0 : ¬ bs.length < MySQLRecord_HEADER_SIZE := by simp only [MySQLRecord_HEADER_SIZE]; omega
  rw [if_neg h0, parseNum_ok_of_le (bo := .little) (k := 3) rfl (by omega)]
  simp only [bind, Except.bind]
  rw [parseNum_ok_of_le (bo := .little) (k := 1) rfl (by simp; omega)]
  simp only [List.drop_drop, Nat.reduceAdd]
  generalize decNat .little (bs.take 3) = len
  by_cases hl : (bs.drop 4).length < len
  · rw [if_pos hl, parseRaw_nat_short _ _ hl]
  · rw [if_neg hl, parseRaw_ok_of_le (by omega)]; simp [pure, Except.pure]

def mySqlRecordWf (r : MySqlRecord) : Prop := r.packetNumber < 256 ∧ r.packetBytes.length < 2 ^ 24

def MySqlRecord.toSpec (r : MySqlRecord) : MySqlPacket := ⟨r.packetNumber, r.packetBytes⟩

theorem composeMySqlRecord_spec (r : MySqlRecord) (h : mySqlRecordWf r) :
    composeMySqlRecord r = .ok (encodeMySqlPacket r.toSpec) := by
  obtain ⟨hn, hl⟩ := h
  unfold composeMySqlRecord encodeMySqlPacket
  rw [composeNum_ok rfl (by simpa using hl), composeNum_ok rfl (by simpa using hn), encNat_little, encNat_little]
  rfl

theorem parseMySqlRecord_encode (r : MySqlRecord) (s : Bytes) (h : mySqlRecordWf r) :
    parseMySqlRecord (encodeMySqlPacket r.toSpec ++ s) = .ok (r, (encodeMySqlPacket r.toSpec).length) := by
  obtain ⟨hn, hl⟩ := h
  obtain ⟨num, body⟩ := r
  simp only [MySqlRecord.toSpec, encodeMySqlPacket] at *
  have hlen : 4 ≤ (toBytesLE 3 body.length ++ toBytesLE 1 num ++ body ++ s).length := by simp; omega
  rw [parseMySqlRecord_closed _ hlen]
  have e1 : (toBytesLE 3 body.length ++ toBytesLE 1 num ++ body ++ s).take 3 = toBytesLE 3 body.length := by
    simp only [List.append_assoc]; rw [List.take_left' (by simp)]
  have e2 : ((toBytesLE 3 body.length ++ toBytesLE 1 num ++ body ++ s).drop 3).take 1 = toBytesLE 1 num := by
    simp only [List.append_assoc]; rw [List.drop_left' (by simp), List.take_left' (by simp)]
  have e3 : (toBytesLE 3 body.length ++ toBytesLE 1 num ++ body ++ s).drop 4 = body ++ s := by
    rw [List.append_assoc, List.drop_left' (by simp)]
  rw [e1, e2, e3, decNat_toBytesLE (by simpa using hl), decNat_toBytesLE (by simpa using hn)]
  have : ¬ (body ++ s).length < body.length := by simp
  rw [if_neg this, List.take_left' rfl]
  simp; omega

theorem mySqlRecord_roundTrip : RoundTrip mySqlRecordCodec mySqlRecordWf := fun r h =>
  ⟨_, composeMySqlRecord_spec r h, fun s => parseMySqlRecord_encode r s h⟩

theorem parseMySqlRecord_ok_inv {bs : Bytes} {r : MySqlRecord} {n : Nat} (h : parseMySqlRecord bs = .ok (r, n)) :
    4 ≤ bs.length ∧ n = 4 + decNat .little (bs.take 3) ∧ n ≤ bs.length ∧
      r = ⟨decNat .little ((bs.drop 3).take 1), (bs.drop 4).take (n - 4)⟩ := by
  by_cases h4 : bs.length < 4
  · unfold parseMySqlRecord at h; simp [MySQLRecord_HEADER_SIZE, h4] at h
  · rw [parseMySqlRecord_closed bs (by omega)] at h
    split at h
    · simp at h
    · next hl =>
      simp only [Except.ok.injEq, Prod.mk.injEq] at h
      obtain ⟨h1, h2⟩ := h
      simp only [List.length_drop] at hl
      refine ⟨by omega, h2.symm, by omega, ?_⟩
      rw [← h1, ← h2]; simp

theorem mySqlRecord_lenBound : LenBound mySqlRecordCodec := fun _ _ _ h => (parseMySqlRecord_ok_inv h).2.2.1
theorem mySqlRecord_positive : Positive mySqlRecordCodec := fun _ _ _ h => by
  have := (parseMySqlRecord_ok_inv h).2.1; omega

theorem mySqlRecord_parseWf : ParseWf mySqlRecordCodec mySqlRecordWf := by
  intro bs r n h
  obtain ⟨h4, hn, hnl, hr⟩ := parseMySqlRecord_ok_inv h
  subst hr
  have h1 := decNat_lt .little ((bs.drop 3).take 1)
  have hl1 : ((bs.drop 3).take 1).length = 1 := by simp; omega
  have h3 := decNat_lt .little (bs.take 3)
  have hl3 : (bs.take 3).length = 3 := by simp; omega
  rw [hl1] at h1; rw [hl3] at h3
  refine ⟨by simpa using h1, ?_⟩
  simp only [List.length_take, List.length_drop]
  have : (256 : Nat) ^ 3 = 2 ^ 24 := by decide
  omega

theorem mySqlRecord_selfDelim : SelfDelim mySqlRecordCodec := by
  intro bs r n h s
  obtain ⟨h4, hn, hnl, hr⟩ := parseMySqlRecord_ok_inv h
  show parseMySqlRecord _ = _
  have hlen : 4 ≤ (bs.take n ++ s).length := by simp; omega
  rw [parseMySqlRecord_closed _ hlen]
  have e1 : (bs.take n ++ s).take 3 = bs.take 3 := by
    have := slice_take_append bs s n 0 3 (by omega) hnl
    simpa using this
  have e2 := slice_take_append bs s n 3 1 (by omega) hnl
  have e3 := slice_take_append bs s n 4 (n - 4) (by omega) hnl
  have hd : decNat .little (bs.take 3) = n - 4 := by omega
  rw [e1, e2, hd, e3, hr]
  have : ¬ ((bs.take n ++ s).drop 4).length < n - 4 := by simp; omega
  rw [if_neg this]
  congr 2
  omega

theorem mySqlRecord_prefixReject : PrefixReject mySqlRecordCodec mySqlRecordWf := by
  intro r b h hc k hk
  have hb : b = encodeMySqlPacket r.toSpec := by
    have := composeMySqlRecord_spec r h
    rw [show composeMySqlRecord r = mySqlRecordCodec.compose r from rfl, hc] at this
    exact (Except.ok.inj this)
  subst hb
  obtain ⟨hnum, hl⟩ := h
  have hbl : (encodeMySqlPacket r.toSpec).length = r.packetBytes.length + 4 := by
    simp [encodeMySqlPacket, MySqlRecord.toSpec]; omega
  show ∃ m : Nat, parseMySqlRecord _ = _ ∧ _
  by_cases hk4 : k < 4
  · refine ⟨4 - k, ?_, by omega, by omega⟩
    unfold parseMySqlRecord
    have : ((encodeMySqlPacket r.toSpec).take k).length = k := by simp; omega
    simp [MySQLRecord_HEADER_SIZE, this, hk4]
  · have hlen : 4 ≤ ((encodeMySqlPacket r.toSpec).take k).length := by simp; omega
    rw [parseMySqlRecord_closed _ hlen]
    refine ⟨(encodeMySqlPacket r.toSpec).length - k, ?_, by omega, by omega⟩
    have e1 : ((encodeMySqlPacket r.toSpec).take k).take 3 = toBytesLE 3 r.packetBytes.length := by
      rw [List.take_take, Nat.min_eq_left (by omega)]
      simp only [encodeMySqlPacket, MySqlRecord.toSpec, List.append_assoc]
      rw [List.take_left' (by simp)]
    rw [e1, decNat_toBytesLE (by simpa using hl)]
    have hd : (((encodeMySqlPacket r.toSpec).take k).drop 4).length = k - 4 := by simp; omega
    rw [hd, if_pos (by omega), hbl]
    congr 2
    omega

theorem mySqlRecord_noCrash : NoCrash mySqlRecordCodec := by
  intro bs c h
  have hh : parseMySqlRecord bs = .error (.crash c) := h
  by_cases h4 : bs.length < 4
  · unfold parseMySqlRecord at hh; simp [MySQLRecord_HEADER_SIZE, h4] at hh
  · rw [parseMySqlRecord_closed bs (by omega)] at hh
    split at hh <;> simp at hh

theorem mySqlPacket_spec_roundtrip (p : MySqlPacket) (s : Bytes) (h : p.wf) :
    decodeMySqlPacket (encodeMySqlPacket p ++ s) = some (p, 4 + p.payload.length) := by
  obtain ⟨hs, hl⟩ := h
  unfold decodeMySqlPacket encodeMySqlPacket
  simp only [List.append_assoc]
  rw [rdLE_enc (by simpa using hl)]
  simp only [Option.bind_eq_bind, Option.bind_some]
  rw [rdLE_enc (by simpa using hs)]
  simp only [Option.bind_some, rdN_app]
  rfl



/-! ### X.224 connection request / confirm -/

theorem parseCotp_closed (want : CotpClass) (bs : Bytes) (h7 : 7 ≤ bs.length) :
    parseCotp want bs =
      if bs.length - 1 < decNat .network (bs.take 1) then
        .error (.notEnough ((decNat .network (bs.take 1) - (bs.length - 1) : Nat) : Int))
      else if decNat .network ((bs.drop 1).take 1) >>> 4 != want.typeCode then .error .invalidType
      else if decNat .network (bs.take 1) < 6 then .error .invalidValue
      else if decNat .network ((bs.drop 6).take 1) != 0 then .error .invalidValue
      else .ok (⟨want, decNat .network ((bs.drop 2).take 2), decNat .network ((bs.drop 4).take 2),
                  decNat .network ((bs.drop 6).take 1), (bs.drop 7).take (decNat .network (bs.take 1) - 6)⟩,
                decNat .network (bs.take 1) + 1) := by
  unfold parseCotp
  have h0 : ¬ bs.length < COTPConnectionBase_HEADER_SIZE := by simp only [COTPConnectionBase_HEADER_SIZE]; omega
  rw [if_neg h0, parseNum_ok_of_le (bo := .network) (k := 1) rfl (by omega)]
  simp only [bind, Except.bind]
  generalize decNat .network (bs.take 1) = li
  by_cases hli : bs.length - 1 < li
  · rw [if_pos hli, if_pos hli]
  · rw [if_neg hli, if_neg hli, parseNum_ok_of_le (bo := .network) (k := 1) rfl (by simp; omega)]
    simp only []
    split
    · rfl
    · simp only [List.drop_drop, Nat.reduceAdd]
      rw [parseNum_ok_of_le (bo := .network) (k := 2) rfl (by simp; omega)]
      simp only [Nat.reduceAdd]
      rw [parseNum_ok_of_le (bo := .network) (k := 2) rfl (by simp; omega)]
      simp only [Nat.reduceAdd]
      rw [parseNum_ok_of_le (bo := .network) (k := 1) rfl (by simp; omega)]
      simp only [Nat.reduceAdd]
      by_cases hlt : li < 6
      · have : parseRaw ((li : Int) - ((7 : Nat) : Int) + 1) (List.drop 7 bs) = .error .invalidValue := by
          unfold parseRaw; rw [if_pos (by omega)]
        rw [this, if_pos hlt]
      · have e : ((li : Int) - ((7 : Nat) : Int) + 1) = ((li - 6 : Nat) : Int) := by omega
        rw [e, parseRaw_ok_of_le (by simp; omega), if_neg hlt]
        simp only []
        split
        · rfl
        · simp only [pure, Except.pure]
          congr 2
          omega

def cotpWf (c : Cotp) : Prop :=
  c.srcRef < 65536 ∧ c.dstRef < 65536 ∧ c.classOption = 0 ∧ c.userData.length ≤ 249

def CotpClass.kind : CotpClass → X224Kind
  | .request => .cr
  | .confirm => .cc

/-- the reading the attribute names ask for: `src_ref` is SRC-REF, `dst_ref` is DST-REF -/
def Cotp.toSpec (c : Cotp) : X224Connection := ⟨c.cls.kind, c.dstRef, c.srcRef, c.userData⟩
/-- what the code lays out: `src_ref` in the DST-REF octets (3-4), `dst_ref` in the SRC-REF octets (5-6) -/
def Cotp.toSpecSwapped (c : Cotp) : X224Connection := ⟨c.cls.kind, c.srcRef, c.dstRef, c.userData⟩

theorem typeCode_shift (k : CotpClass) : k.typeCode <<< 4 = k.kind.code := by cases k <;> rfl

theorem composeCotp_swapped (c : Cotp) (h : cotpWf c) : composeCotp c = .ok (encodeX224 c.toSpecSwapped) := by
  obtain ⟨hs, hd, ho, hl⟩ := h
  unfold composeCotp encodeX224 Cotp.toSpecSwapped
  have ht : c.cls.kind.code < 256 ^ 1 := by cases c.cls <;> decide
  rw [typeCode_shift, composeNum_ok rfl ht, composeNum_ok rfl (by simpa using hs), composeNum_ok rfl (by simpa using hd),
    ho, composeNum_ok (bo := .network) (k := 1) (v := 0) rfl (by decide)]
  simp only [bind, Except.bind, List.length_append, encNat_length]
  rw [composeNum_ok rfl (by simp; omega)]
  simp only [encNat_big, pure, Except.pure, List.append_assoc]

theorem parseCotp_encode (x : X224Connection) (want : CotpClass) (s : Bytes) (hk : want.kind = x.kind)
    (h : x.wf) :
    parseCotp want (encodeX224 x ++ s) =
      .ok (⟨want, x.dstRef, x.srcRef, 0, x.data⟩, (encodeX224 x).length) := by
  obtain ⟨hd, hs, hl⟩ := h
  unfold encodeX224 parseCotp
  simp only [← encNat_big, List.append_assoc]
  have hc : x.kind.code < 256 ^ 1 := by cases x.kind <;> decide
  have p1 := parseNum_enc (bo := .network) (k := 1) (v := 6 + x.data.length) rfl (by simp; omega)
  have p2 := parseNum_enc (bo := .network) (k := 1) (v := x.kind.code) rfl hc
  have p3 := parseNum_enc (bo := .network) (k := 2) (v := x.dstRef) rfl (by simpa using hd)
  have p4 := parseNum_enc (bo := .network) (k := 2) (v := x.srcRef) rfl (by simpa using hs)
  have p5 := parseNum_enc (bo := .network) (k := 1) (v := 0) rfl (by decide)
  have hlen : ¬ (encNat .network 1 (6 + x.data.length) ++ (encNat .network 1 x.kind.code ++ (encNat .network 2 x.dstRef ++
      (encNat .network 2 x.srcRef ++ (encNat .network 1 0 ++ (x.data ++ s)))))).length < COTPConnectionBase_HEADER_SIZE := by
    simp [COTPConnectionBase_HEADER_SIZE]; omega
  rw [if_neg hlen, p1]
  simp only [bind, Except.bind, drop_enc, List.length_append, encNat_length]
  rw [if_neg (by omega), p2]
  have htc : (x.kind.code >>> 4 != want.typeCode) = false := by
    rw [← hk]; cases want <;> decide
  simp only [htc, drop_enc, p3, p4, p5, Bool.false_eq_true, if_false]
  have e : (((6 + x.data.length : Nat) : Int) - ((1 + 1 + 2 + 2 + 1 : Nat) : Int) + 1) = ((x.data.length : Nat) : Int) := by omega
  rw [e, parseRaw_nat_append]
  simp [pure, Except.pure]
  omega


theorem x224_spec_roundtrip (x : X224Connection) (s : Bytes) (h : x.wf) :
    decodeX224 (encodeX224 x ++ s) = some (x, (encodeX224 x).length) := by
  obtain ⟨hd, hs, hl⟩ := h
  have hc : x.kind.code < 256 ^ 1 := by cases x.kind <;> decide
  unfold decodeX224 encodeX224
  simp only [List.append_assoc]
  rw [rdBE_enc (by simp; omega)]
  simp only [Option.bind_eq_bind, Option.bind_some]
  rw [rdBE_enc hc]
  simp only [Option.bind_some]
  rw [rdBE_enc (by simpa using hd)]
  simp only [Option.bind_some]
  rw [rdBE_enc (by simpa using hs)]
  simp only [Option.bind_some]
  rw [rdBE_enc (by decide)]
  simp only [Option.bind_some]
  have : ¬ (6 + x.data.length < 6 ∨ (0 : Nat) ≠ 0) := by omega
  simp only [this, if_false, Nat.add_sub_cancel_left, rdN_app, Option.bind_some]
  obtain ⟨k, d, sr, da⟩ := x
  cases k <;> simp [X224Kind.code, toBytesBE_length] <;> omega

theorem cotp_lenBound (want : CotpClass) : LenBound ⟨parseCotp want, composeCotp⟩ := by
  intro bs c n h
  have hh : parseCotp want bs = .ok (c, n) := h
  by_cases h7 : bs.length < 7
  · unfold parseCotp at hh; simp [COTPConnectionBase_HEADER_SIZE, h7] at hh
  · rw [parseCotp_closed want bs (by omega)] at hh
    split at hh
    · simp at hh
    · split at hh
      · simp at hh
      · split at hh
        · simp at hh
        · split at hh
          · simp at hh
          · simp only [Except.ok.injEq, Prod.mk.injEq] at hh
            omega

theorem cotp_noCrash (want : CotpClass) : NoCrash ⟨parseCotp want, composeCotp⟩ := by
  intro bs k h
  have hh : parseCotp want bs = .error (.crash k) := h
  by_cases h7 : bs.length < 7
  · unfold parseCotp at hh; simp [COTPConnectionBase_HEADER_SIZE, h7] at hh
  · rw [parseCotp_closed want bs (by omega)] at hh
    split at hh
    · simp at hh
    · split at hh
      · simp at hh
      · split at hh
        · simp at hh
        · split at hh <;> simp at hh

/-- a PDU of the other class is refused with `InvalidType` -/
theorem parseCotp_other (x : X224Connection) (want : CotpClass) (s : Bytes) (hk : want.kind ≠ x.kind)
    (h : x.wf) : parseCotp want (encodeX224 x ++ s) = .error .invalidType := by
  obtain ⟨hd, hs, hl⟩ := h
  unfold encodeX224 parseCotp
  simp only [← encNat_big, List.append_assoc]
  have hc : x.kind.code < 256 ^ 1 := by cases x.kind <;> decide
  have p1 := parseNum_enc (bo := .network) (k := 1) (v := 6 + x.data.length) rfl (by simp; omega)
  have p2 := parseNum_enc (bo := .network) (k := 1) (v := x.kind.code) rfl hc
  have hlen : ¬ (encNat .network 1 (6 + x.data.length) ++ (encNat .network 1 x.kind.code ++ (encNat .network 2 x.dstRef ++
      (encNat .network 2 x.srcRef ++ (encNat .network 1 0 ++ (x.data ++ s)))))).length < COTPConnectionBase_HEADER_SIZE := by
    simp [COTPConnectionBase_HEADER_SIZE]; omega
  rw [if_neg hlen, p1]
  simp only [bind, Except.bind, drop_enc, List.length_append, encNat_length]
  rw [if_neg (by omega), p2]
  have htc : (x.kind.code >>> 4 != want.typeCode) = true := by
    cases want <;> cases hx : x.kind <;> simp [hx, CotpClass.kind] at hk <;> decide
  simp only [htc, if_true]

/-- the class of the object the parser returns is the class it was called on -/
theorem parseCotp_tag (want : CotpClass) (bs : Bytes) (c : Cotp) (n : Nat) (h : parseCotp want bs = .ok (c, n)) :
    c.cls = want := by
  by_cases h7 : bs.length < 7
  · unfold parseCotp at h; simp [COTPConnectionBase_HEADER_SIZE, h7] at h
  · rw [parseCotp_closed want bs (by omega)] at h
    split at h
    · simp at h
    · split at h
      · simp at h
      · split at h
        · simp at h
        · split at h
          · simp at h
          · simp only [Except.ok.injEq, Prod.mk.injEq] at h
            rw [← h.1]



/-! ### flag sets -/

/-- the word a flag set stands for: the OR of its members -/
def orAll (l : List Nat) : Nat := l.foldl (fun a v => a ||| v) 0

theorem flagWord_zero (sel : List Nat) : flagWord 0 sel = orAll (sel.map (2 ^ ·)) := by
  unfold flagWord orAll
  simp

theorem composeFlags_shift0 (bo : ByteOrder) (k : Nat) (vals : List Nat) :
    composeFlags bo k 0 vals = composeNum bo k ((orAll vals : Nat) : Int) := by
  unfold composeFlags orAll
  simp

/-- single-bit members `2^e`, `e ∈ es`; a selection `sel` of them: the composed bytes are the `k`
digits of the flag word and parsing them (with any suffix) gives the selection back -/
theorem flags_rt (bo : ByteOrder) (k sh : Nat) (es sel : List Nat) (s : Bytes)
    (hn : es.Nodup) (hsub : sel.Sublist es) (hsh : ∀ e ∈ sel, sh ≤ e)
    (hk : validSize k = true) (hw : ∀ e ∈ sel, e - sh < 8 * k) :
    composeFlags bo k sh (sel.map (2 ^ ·)) = .ok (encNat bo k (flagWord sh sel)) ∧
    flagWord sh sel < 256 ^ k ∧
    parseFlags bo k sh (es.map (2 ^ ·)) (encNat bo k (flagWord sh sel) ++ s) = .ok (sel.map (2 ^ ·), k) := by
  have hlt := flagWord_lt sh k sel hw
  refine ⟨composeNum_ok hk hlt, hlt, ?_⟩
  rw [parseFlags_single bo k sh es _ _ _ (parseNum_enc hk hlt s)]
  have : (fun e => (flagWord sh sel <<< sh).testBit e) = fun e => decide (e ∈ sel) := by
    funext e; exact flagWord_shiftLeft_testBit sh sel hsh e
  rw [this, filter_mem_of_sublist hsub hn]

/-- a zero-valued member in front of single-bit members changes nothing on the parse side: it can
never be returned -/
theorem parseFlags_zero_cons (bo : ByteOrder) (k sh : Nat) (es : List Nat) (rest : Bytes) :
    parseFlags bo k sh (0 :: es.map (2 ^ ·)) rest = parseFlags bo k sh (es.map (2 ^ ·)) rest := by
  cases hp : parseNum bo k rest with
  | error e => rw [parseFlags_error _ _ _ _ _ _ hp, parseFlags_error _ _ _ _ _ _ hp]
  | ok r =>
    obtain ⟨v, n⟩ := r
    rw [parseFlags_single bo k sh es rest v n hp]
    unfold parseFlags
    rw [hp]
    simp only [bind, Except.bind]
    have hf : ((0 :: es.map (2 ^ ·)).filter fun f => f &&& v <<< sh != 0) =
        ((es.map (2 ^ ·)).filter fun f => f &&& v <<< sh != 0) := by
      simp
    rw [hf]
    have hhits : ((es.map (2 ^ ·)).filter fun f => f &&& v <<< sh != 0).map (fun f => f &&& v <<< sh)
        = (es.filter fun e => (v <<< sh).testBit e).map (2 ^ ·) := by
      rw [List.filter_map, List.map_map]
      have : ((fun f => f &&& v <<< sh != 0) ∘ fun x => 2 ^ x) = fun e => (v <<< sh).testBit e := by
        funext e; exact two_pow_and_ne_zero e _
      rw [this]
      apply List.map_congr_left
      intro e he
      have := (List.mem_filter.mp he).2
      simp only [Function.comp]
      rw [two_pow_and, this]; rfl
    rw [hhits]
    have hall : (((es.filter fun e => (v <<< sh).testBit e).map (2 ^ ·)).all
        fun h => (0 :: es.map (2 ^ ·)).contains h) = true := by
      rw [List.all_eq_true]
      intro x hx
      obtain ⟨e, he, rfl⟩ := List.mem_map.mp hx
      have : e ∈ es := (List.mem_filter.mp he).1
      simp only [List.contains_eq_mem, decide_eq_true_eq]
      exact List.mem_cons_of_mem _ (List.mem_map.mpr ⟨e, this, rfl⟩)
    rw [if_pos hall]
    rfl

/-! ### RDP negotiation request / response -/

def RdpNegClass.flagExps : RdpNegClass → List Nat
  | .request => [0, 1, 3]
  | .response => [0, 1, 2, 3, 4]

def rdpProtocolExps : List Nat := [0, 1, 2, 3]

theorem rdp_flagCodes (k : RdpNegClass) : k.flagCodes = k.flagExps.map (2 ^ ·) := by cases k <;> decide
theorem rdp_protocolCodes : Gen.RDPProtocol.codes = 0 :: rdpProtocolExps.map (2 ^ ·) := by decide

/-- the constructible domain the round trip holds on: flags of the class's own flag enumeration,
protocols without the zero-valued member `RDPProtocol.RDP` (both as selections in member order) -/
def rdpNegWf (r : RdpNeg) : Prop :=
  ∃ fsel psel : List Nat, fsel.Sublist r.cls.flagExps ∧ psel.Sublist rdpProtocolExps ∧
    r.flags = fsel.map (2 ^ ·) ∧ r.protocol = psel.map (2 ^ ·)

def RdpNegClass.kind : RdpNegClass → RdpNegKind
  | .request => .req
  | .response => .rsp

def RdpNeg.toSpec (r : RdpNeg) : Spec.Opp.RdpNeg := ⟨r.cls.kind, orAll r.flags, orAll r.protocol⟩


theorem rdp_flagExps_lt (k : RdpNegClass) : ∀ e ∈ k.flagExps, e < 8 := by cases k <;> decide
theorem rdp_flagExps_nodup (k : RdpNegClass) : k.flagExps.Nodup := by cases k <;> decide
theorem rdp_protocolExps_lt : ∀ e ∈ rdpProtocolExps, e < 32 := by decide
theorem rdp_protocolExps_nodup : rdpProtocolExps.Nodup := by decide

/-- the constructor's converter leaves single-bit members alone -/
theorem filter_pow_ne_zero (sel : List Nat) : (sel.map (2 ^ ·)).filter (· != 0) = sel.map (2 ^ ·) := by
  rw [List.filter_eq_self]
  intro x hx
  obtain ⟨e, _, rfl⟩ := List.mem_map.mp hx
  have : 0 < 2 ^ e := Nat.two_pow_pos e
  simp only [bne_iff_ne, ne_eq]
  omega

theorem construct_pow (cls : RdpNegClass) (flags psel : List Nat) :
    RdpNeg.construct cls flags (psel.map (2 ^ ·)) = ⟨cls, flags, psel.map (2 ^ ·)⟩ := by
  unfold RdpNeg.construct
  rw [filter_pow_ne_zero]

theorem composeRdpNeg_spec (r : RdpNeg) (h : rdpNegWf r) : composeRdpNeg r = .ok (encodeRdpNeg r.toSpec) := by
  obtain ⟨fsel, psel, hf, hp, ef, ep⟩ := h
  have hfw : flagWord 0 fsel < 256 ^ 1 :=
    flagWord_lt 0 1 fsel (fun e he => by have := rdp_flagExps_lt r.cls e (hf.subset he); omega)
  have hpw : flagWord 0 psel < 256 ^ 4 :=
    flagWord_lt 0 4 psel (fun e he => by have := rdp_protocolExps_lt e (hp.subset he); omega)
  have ht : r.cls.typeCode < 256 ^ 1 := by cases r.cls <;> decide
  have hkc : r.cls.typeCode = r.cls.kind.code := by cases r.cls <;> rfl
  unfold composeRdpNeg encodeRdpNeg RdpNeg.toSpec
  rw [composeFlags_shift0, composeFlags_shift0, ef, ep, ← flagWord_zero, ← flagWord_zero,
    composeNum_ok rfl ht, composeNum_ok rfl hfw, composeNum_ok rfl hpw,
    composeNum_ok (bo := .little) (k := 2) (v := RDPNegotiationBase_PACKET_LENGTH) rfl (by decide)]
  simp only [encNat_little, bind, Except.bind, pure, Except.pure, hkc, RDPNegotiationBase_PACKET_LENGTH]

theorem parseRdpNeg_encode (r : RdpNeg) (s : Bytes) (h : rdpNegWf r) :
    parseRdpNeg r.cls (encodeRdpNeg r.toSpec ++ s) = .ok (r, 8) := by
  obtain ⟨fsel, psel, hf, hp, ef, ep⟩ := h
  obtain ⟨cls, flags, protocol⟩ := r
  simp only at hf ef ep
  subst ef; subst ep
  have hF := flags_rt .little 1 0 cls.flagExps fsel
    (encNat .little 2 8 ++ (encNat .little 4 (flagWord 0 psel) ++ s)) (rdp_flagExps_nodup cls) hf
    (fun _ _ => Nat.zero_le _) rfl (fun e he => by have := rdp_flagExps_lt cls e (hf.subset he); omega)
  have hP := flags_rt .little 4 0 rdpProtocolExps psel s rdp_protocolExps_nodup hp
    (fun _ _ => Nat.zero_le _) rfl (fun e he => by have := rdp_protocolExps_lt e (hp.subset he); omega)
  have ht : cls.kind.code < 256 ^ 1 := by cases cls <;> decide
  unfold parseRdpNeg encodeRdpNeg RdpNeg.toSpec
  simp only [← flagWord_zero, ← encNat_little, List.append_assoc]
  have hlen : ¬ (encNat .little 1 cls.kind.code ++ (encNat .little 1 (flagWord 0 fsel) ++ (encNat .little 2 8 ++
      (encNat .little 4 (flagWord 0 psel) ++ s)))).length < RDPNegotiationBase_PACKET_LENGTH := by
    simp [RDPNegotiationBase_PACKET_LENGTH]; omega
  rw [if_neg hlen]
  unfold parseNumConv
  rw [parseNum_enc rfl ht]
  have hmem : Gen.RDPPacketType.memberCodes.contains cls.kind.code = true := by cases cls <;> decide
  have htc : (cls.kind.code != cls.typeCode) = false := by cases cls <;> decide
  simp only [bind, Except.bind, hmem, if_true, pure, Except.pure, htc, Bool.false_eq_true, if_false, drop_enc]
  rw [rdp_flagCodes, hF.2.2]
  simp only [drop_enc]
  rw [parseNum_enc (bo := .little) (k := 2) (v := 8) rfl (by decide)]
  have h8 : ((8 : Nat) != RDPNegotiationBase_PACKET_LENGTH) = false := by decide
  simp only [h8, Bool.false_eq_true, if_false, drop_enc]
  rw [rdp_protocolCodes, parseFlags_zero_cons, hP.2.2]
  simp only [construct_pow]

theorem rdpNeg_spec_roundtrip (x : Spec.Opp.RdpNeg) (s : Bytes) (h : x.wf) :
    decodeRdpNeg (encodeRdpNeg x ++ s) = some (x, 8) := by
  obtain ⟨hf, hp⟩ := h
  have hc : x.kind.code < 256 ^ 1 := by cases x.kind <;> decide
  unfold decodeRdpNeg encodeRdpNeg
  simp only [List.append_assoc]
  rw [rdLE_enc hc]
  simp only [Option.bind_eq_bind, Option.bind_some]
  rw [rdLE_enc (by simpa using hf)]
  simp only [Option.bind_some]
  rw [rdLE_enc (by decide)]
  simp only [Option.bind_some]
  rw [rdLE_enc (by simpa using hp)]
  obtain ⟨k, f, p⟩ := x
  cases k <;> simp [RdpNegKind.code]

/-- the class tag of a parsed negotiation PDU is the class the parser was called on, and the type
octet on the wire is that class's type -/
theorem parseRdpNeg_tag (want : RdpNegClass) (bs : Bytes) (r : RdpNeg) (n : Nat)
    (h : parseRdpNeg want bs = .ok (r, n)) :
    r.cls = want ∧ n = 8 ∧ decNat .little (bs.take 1) = want.typeCode := by
  unfold parseRdpNeg at h
  by_cases h8 : bs.length < RDPNegotiationBase_PACKET_LENGTH
  · rw [if_pos h8] at h; simp at h
  · rw [if_neg h8] at h
    simp only [RDPNegotiationBase_PACKET_LENGTH, Nat.not_lt] at h8
    unfold parseNumConv at h
    rw [parseNum_ok_of_le (bo := .little) (k := 1) rfl (by omega)] at h
    simp only [bind, Except.bind] at h
    by_cases hm : (Gen.RDPPacketType.memberCodes.contains (decNat .little (bs.take 1))) = true
    · rw [if_pos hm] at h
      simp only [pure, Except.pure] at h
      by_cases htc : (decNat .little (bs.take 1) != want.typeCode) = true
      · rw [if_pos htc] at h; simp at h
      · rw [if_neg htc] at h
        cases hf : parseFlags .little 1 0 want.flagCodes (List.drop 1 bs) with
        | error e => rw [hf] at h; simp at h
        | ok fr =>
          obtain ⟨fl, n2⟩ := fr
          have hn2 := (parseFlags_ok_inv _ _ _ _ _ _ _ hf).1
          rw [hf] at h
          simp only at h
          cases hl : parseNum .little 2 (List.drop n2 (List.drop 1 bs)) with
          | error e => rw [hl] at h; simp at h
          | ok lr =>
            obtain ⟨len, n3⟩ := lr
            have hn3 := (parseNum_ok_inv hl).1
            rw [hl] at h
            simp only at h
            by_cases hl8 : (len != RDPNegotiationBase_PACKET_LENGTH) = true
            · rw [if_pos hl8] at h; simp at h
            · rw [if_neg hl8] at h
              cases hp : parseFlags .little 4 0 Gen.RDPProtocol.codes (List.drop n3 (List.drop n2 (List.drop 1 bs))) with
              | error e => rw [hp] at h; simp at h
              | ok pr =>
                obtain ⟨pl, n4⟩ := pr
                have hn4 := (parseFlags_ok_inv _ _ _ _ _ _ _ hp).1
                rw [hp] at h
                simp only [Except.ok.injEq, Prod.mk.injEq] at h
                obtain ⟨h1, h2⟩ := h
                refine ⟨by rw [← h1]; rfl, by omega, ?_⟩
                simpa using htc
    · rw [if_neg hm] at h; simp at h



/-! ### OpenVPN control channel -/

theorem composeNumArray_ok (bo : ByteOrder) {k : Nat} (hk : validSize k = true) (xs : List Nat)
    (h : ∀ a ∈ xs, a < 256 ^ k) :
    composeNumArray bo k (xs.map Int.ofNat) = .ok ((xs.map (encNat bo k)).flatten) := by
  induction xs with
  | nil => rfl
  | cons x xs ih =>
    simp only [List.map_cons, composeNumArray, List.flatten_cons]
    rw [show (Int.ofNat x) = ((x : Nat) : Int) from rfl, composeNum_ok hk (h x (by simp)),
      ih (fun a ha => h a (by simp [ha]))]
    rfl

theorem numItems_enc (bo : ByteOrder) (k : Nat) (xs : List Nat) (s : Bytes) (h : ∀ a ∈ xs, a < 256 ^ k) :
    numItems bo k xs.length ((xs.map (encNat bo k)).flatten ++ s) = xs := by
  induction xs with
  | nil => rfl
  | cons x xs ih =>
    simp only [List.length_cons, List.map_cons, List.flatten_cons, List.append_assoc, numItems]
    rw [List.take_left' (encNat_length bo k x), drop_enc, decNat_encNat_of_lt bo k x (h x (by simp)),
      ih (fun a ha => h a (by simp [ha]))]

theorem flatten_enc_length (bo : ByteOrder) (k : Nat) (xs : List Nat) :
    ((xs.map (encNat bo k)).flatten).length = xs.length * k := by
  induction xs with
  | nil => simp
  | cons x xs ih => simp [ih, Nat.add_mul]; omega

theorem parseNumArray_enc (bo : ByteOrder) {k : Nat} (hk : validSize k = true) (xs : List Nat) (s : Bytes)
    (h : ∀ a ∈ xs, a < 256 ^ k) :
    parseNumArray bo xs.length k ((xs.map (encNat bo k)).flatten ++ s) = .ok (xs, xs.length * k) := by
  unfold parseNumArray
  have : ¬ ((xs.map (encNat bo k)).flatten ++ s).length < xs.length * k := by
    rw [List.length_append, flatten_enc_length]; omega
  rw [if_neg this]
  simp [hk, numItems_enc bo k xs s h]

def ovpnHeaderWf (h : OvpnHeader) : Prop :=
  h.sessionId < 2 ^ 64 ∧ h.packetIdArray.length < 256 ∧ (∀ a ∈ h.packetIdArray, a < 2 ^ 32) ∧
  (match h.remoteSessionId with
    | some r => h.packetIdArray ≠ [] ∧ r < 2 ^ 64
    | none => h.packetIdArray = [])

/-- the header octets: `op << 3`, session id, count, packet ids, remote session id -/
def encOvpnHeader (op : Nat) (h : OvpnHeader) : Bytes :=
  encNat .network 1 (op * 8) ++ (encNat .network 8 h.sessionId ++ (encNat .network 1 h.packetIdArray.length ++
    ((h.packetIdArray.map (encNat .network 4)).flatten ++
      (match h.remoteSessionId with
        | some r => encNat .network 8 r
        | none => []))))

theorem encOvpnHeader_length (op : Nat) (h : OvpnHeader) :
    10 ≤ (encOvpnHeader op h).length := by
  simp [encOvpnHeader]; omega

theorem composeOvpnHeader_ok (op : Nat) (hop : op < 32) (h : OvpnHeader) (hw : ovpnHeaderWf h) :
    composeOvpnHeader op h = .ok (encOvpnHeader op h) := by
  obtain ⟨hs, hl, ha, hr⟩ := hw
  unfold composeOvpnHeader encOvpnHeader
  rw [Nat.shiftLeft_eq, show (2 : Nat) ^ 3 = 8 from rfl, composeNum_ok rfl (by simp; omega),
    composeNum_ok rfl (by simpa using hs), composeNum_ok rfl (by simpa using hl)]
  simp only [bind, Except.bind]
  cases harr : h.packetIdArray with
  | nil =>
    rw [harr] at hr
    cases hrs : h.remoteSessionId with
    | some r => rw [hrs] at hr; simp at hr
    | none => simp [pure, Except.pure]
  | cons a as =>
    rw [harr] at hr ha
    cases hrs : h.remoteSessionId with
    | none => rw [hrs] at hr; simp at hr
    | some r =>
      rw [hrs] at hr
      simp only [List.isEmpty_cons, Bool.false_eq_true, if_false]
      rw [composeNumArray_ok .network rfl (a :: as) (fun x hx => by simpa using ha x hx),
        composeNum_ok rfl (by simpa using hr.2)]
      simp [pure, Except.pure]

theorem parseOvpnHeader_enc (op : Nat) (hop : op < 32) (h : OvpnHeader) (hw : ovpnHeaderWf h) (s : Bytes) :
    parseOvpnHeader op (encOvpnHeader op h ++ s) = .ok (h, (encOvpnHeader op h).length) := by
  obtain ⟨hs, hl, ha, hr⟩ := hw
  have h10 := encOvpnHeader_length op h
  unfold parseOvpnHeader
  have hlen : ¬ (encOvpnHeader op h ++ s).length < OpenVpnPacketBase_HEADER_SIZE := by
    simp only [OpenVpnPacketBase_HEADER_SIZE, List.length_append]; omega
  rw [if_neg hlen]
  unfold encOvpnHeader
  simp only [List.append_assoc]
  rw [parseNum_enc (bo := .network) (k := 1) rfl (by simp; omega)]
  have hsh : ((op * 8) >>> 3 != op) = false := by
    rw [Nat.shiftRight_eq_div_pow]; simp
  simp only [bind, Except.bind, hsh, Bool.false_eq_true, if_false, drop_enc]
  rw [parseNum_enc (bo := .network) (k := 8) rfl (by simpa using hs)]
  simp only [drop_enc]
  rw [parseNum_enc (bo := .network) (k := 1) rfl (by simpa using hl)]
  simp only [drop_enc]
  obtain ⟨sid, arr, rsid⟩ := h
  simp only at hs hl ha hr ⊢
  cases arr with
  | nil =>
    cases rsid with
    | some r => simp at hr
    | none => simp [pure, Except.pure]
  | cons a as =>
    cases rsid with
    | none => simp at hr
    | some r =>
      have hne : ((a :: as).length != 0) = true := by simp
      simp only [hne, if_true]
      rw [parseNumArray_enc .network rfl (a :: as) _ (fun x hx => by simpa using ha x hx)]
      simp only []
      rw [List.drop_left' (flatten_enc_length .network 4 (a :: as)),
        parseNum_enc (bo := .network) (k := 8) rfl (by simpa using hr.2)]
      simp only [pure, Except.pure, List.length_append, encNat_length, flatten_enc_length]
      congr 2
      simp only [List.length_cons]
      omega

/-- the constructible domain: header fields in range, remote session id present exactly with
acknowledgements, packet id in 32 bits -/
def ovpnWf : OvpnPacket → Prop
  | .control h pid _ => ovpnHeaderWf h ∧ pid < 2 ^ 32
  | .ack h => ovpnHeaderWf h
  | .hardResetClient sid pid => sid < 2 ^ 64 ∧ pid < 2 ^ 32
  | .hardResetServer h pid => ovpnHeaderWf h ∧ pid < 2 ^ 32

def OvpnPacket.toSpec : OvpnPacket → Spec.Opp.OvpnPacket
  | .control h pid pl => ⟨.controlV1, h.sessionId, h.packetIdArray, h.remoteSessionId, some pid, pl⟩
  | .ack h => ⟨.ackV1, h.sessionId, h.packetIdArray, h.remoteSessionId, none, []⟩
  | .hardResetClient sid pid => ⟨.hardResetClientV2, sid, [], none, some pid, []⟩
  | .hardResetServer h pid => ⟨.hardResetServerV2, h.sessionId, h.packetIdArray, h.remoteSessionId, some pid, []⟩

/-- which parser of the model belongs to the class of a packet -/
def ovpnParserOf : OvpnPacket → Bytes → Except PErr (OvpnPacket × Nat)
  | .control .. => parseOvpnControl
  | .ack .. => parseOvpnAck
  | .hardResetClient .. => parseOvpnHardResetClient
  | .hardResetServer .. => parseOvpnHardResetServer

theorem encOvpnHeader_spec (op : Nat) (h : OvpnHeader) :
    encOvpnHeader op h = toBytesBE 1 (op * 8) ++ toBytesBE 8 h.sessionId ++ toBytesBE 1 h.packetIdArray.length
      ++ (h.packetIdArray.map (toBytesBE 4)).flatten
      ++ (match h.remoteSessionId with
          | some r => toBytesBE 8 r
          | none => []) := by
  unfold encOvpnHeader
  have : (fun v => encNat .network 4 v) = toBytesBE 4 := by funext v; exact encNat_big 4 v
  simp only [encNat_big, List.append_assoc]
  cases h.remoteSessionId <;> simp [this]

theorem headerWf_empty {sid : Nat} (h : sid < 2 ^ 64) : ovpnHeaderWf ⟨sid, [], none⟩ :=
  ⟨h, by simp, by simp, rfl⟩

theorem composeOvpn_spec (p : OvpnPacket) (h : ovpnWf p) : composeOvpn p = .ok (encodeOvpn p.toSpec) := by
  cases p with
  | control hd pid pl =>
    obtain ⟨hh, hp⟩ := h
    simp only [composeOvpn, OvpnPacket.toSpec, encodeOvpn, OvpnOp.code]
    rw [composeNum_ok rfl (by simpa using hp), composeOvpnHeader_ok _ (by decide) hd hh, encOvpnHeader_spec]
    simp [bind, Except.bind, pure, Except.pure, encNat_big, OP_CONTROL_V1]
    cases hd.remoteSessionId <;> rfl
  | ack hd =>
    simp only [composeOvpn, OvpnPacket.toSpec, encodeOvpn, OvpnOp.code]
    rw [composeOvpnHeader_ok _ (by decide) hd h, encOvpnHeader_spec]
    simp [OP_ACK_V1]
    cases hd.remoteSessionId <;> rfl
  | hardResetClient sid pid =>
    obtain ⟨hs, hp⟩ := h
    simp only [composeOvpn, OvpnPacket.toSpec, encodeOvpn, OvpnOp.code]
    rw [composeNum_ok rfl (by simpa using hp), composeOvpnHeader_ok _ (by decide) _ (headerWf_empty hs), encOvpnHeader_spec]
    simp [bind, Except.bind, pure, Except.pure, encNat_big, OP_HARD_RESET_CLIENT_V2]
  | hardResetServer hd pid =>
    obtain ⟨hh, hp⟩ := h
    simp only [composeOvpn, OvpnPacket.toSpec, encodeOvpn, OvpnOp.code]
    rw [composeNum_ok rfl (by simpa using hp), composeOvpnHeader_ok _ (by decide) hd hh, encOvpnHeader_spec]
    simp [bind, Except.bind, pure, Except.pure, encNat_big, OP_HARD_RESET_SERVER_V2]
    cases hd.remoteSessionId <;> rfl

/-- the composed octets in the model's own terms: header, packet id (except for an acknowledgement), payload -/
def encOvpn : OvpnPacket → Bytes
  | .control h pid pl => encOvpnHeader OP_CONTROL_V1 h ++ (encNat .network 4 pid ++ pl)
  | .ack h => encOvpnHeader OP_ACK_V1 h
  | .hardResetClient sid pid => encOvpnHeader OP_HARD_RESET_CLIENT_V2 ⟨sid, [], none⟩ ++ encNat .network 4 pid
  | .hardResetServer h pid => encOvpnHeader OP_HARD_RESET_SERVER_V2 h ++ encNat .network 4 pid

theorem composeOvpn_enc (p : OvpnPacket) (h : ovpnWf p) : composeOvpn p = .ok (encOvpn p) := by
  cases p with
  | control hd pid pl =>
    obtain ⟨hh, hp⟩ := h
    simp only [composeOvpn, encOvpn]
    rw [composeNum_ok rfl (by simpa using hp), composeOvpnHeader_ok _ (by decide) hd hh]
    rfl
  | ack hd => exact composeOvpnHeader_ok _ (by decide) hd h
  | hardResetClient sid pid =>
    obtain ⟨hs, hp⟩ := h
    simp only [composeOvpn, encOvpn]
    rw [composeNum_ok rfl (by simpa using hp), composeOvpnHeader_ok _ (by decide) _ (headerWf_empty hs)]
    rfl
  | hardResetServer hd pid =>
    obtain ⟨hh, hp⟩ := h
    simp only [composeOvpn, encOvpn]
    rw [composeNum_ok rfl (by simpa using hp), composeOvpnHeader_ok _ (by decide) hd hh]
    rfl

/-- acknowledgement and hard-reset packets have a fixed layout: they round-trip with any suffix -/
theorem parseOvpn_enc_fixed (p : OvpnPacket) (h : ovpnWf p) (hnc : ∀ hd pid pl, p ≠ .control hd pid pl) (s : Bytes) :
    ovpnParserOf p (encOvpn p ++ s) = .ok (p, (encOvpn p).length) := by
  cases p with
  | control hd pid pl => exact absurd rfl (hnc hd pid pl)
  | ack hd =>
    simp only [ovpnParserOf, parseOvpnAck, encOvpn]
    rw [parseOvpnHeader_enc _ (by decide) hd h s]
    rfl
  | hardResetClient sid pid =>
    obtain ⟨hs, hp⟩ := h
    simp only [ovpnParserOf, parseOvpnHardResetClient, encOvpn, List.append_assoc]
    rw [parseOvpnHeader_enc _ (by decide) _ (headerWf_empty hs)]
    simp only [bind, Except.bind, List.isEmpty_nil, Bool.not_true, Bool.false_eq_true, if_false]
    rw [List.drop_left' rfl, parseNum_enc (bo := .network) (k := 4) rfl (by simpa using hp)]
    simp [pure, Except.pure]
  | hardResetServer hd pid =>
    obtain ⟨hh, hp⟩ := h
    simp only [ovpnParserOf, parseOvpnHardResetServer, encOvpn, List.append_assoc]
    rw [parseOvpnHeader_enc _ (by decide) hd hh]
    simp only [bind, Except.bind]
    rw [List.drop_left' rfl, parseNum_enc (bo := .network) (k := 4) rfl (by simpa using hp)]
    simp [pure, Except.pure]

/-- a control packet's payload is the rest of the datagram: what follows the composed octets is
taken into the payload -/
theorem parseOvpnControl_enc (hd : OvpnHeader) (pid : Nat) (pl s : Bytes) (hh : ovpnHeaderWf hd) (hp : pid < 2 ^ 32) :
    parseOvpnControl (encOvpn (.control hd pid pl) ++ s) =
      .ok (.control hd pid (pl ++ s), (encOvpn (.control hd pid pl)).length + s.length) := by
  simp only [parseOvpnControl, encOvpn, List.append_assoc]
  rw [parseOvpnHeader_enc _ (by decide) hd hh]
  simp only [bind, Except.bind]
  rw [List.drop_left' rfl, parseNum_enc (bo := .network) (k := 4) rfl (by simpa using hp)]
  simp only [drop_enc]
  have e : ((encNat .network 4 pid ++ (pl ++ s)).length - 4 : Nat) = (pl ++ s).length := by simp
  rw [e, parseRaw_ok_of_le (Nat.le_refl _), List.take_length]
  simp [pure, Except.pure]
  omega


theorem parseOvpnHeader_other (op op' : Nat) (hop : op' < 32) (hne : op ≠ op') (h : OvpnHeader) (s : Bytes) :
    parseOvpnHeader op (encOvpnHeader op' h ++ s) = .error .invalidType := by
  have h10 := encOvpnHeader_length op' h
  unfold parseOvpnHeader
  have hlen : ¬ (encOvpnHeader op' h ++ s).length < OpenVpnPacketBase_HEADER_SIZE := by
    simp only [OpenVpnPacketBase_HEADER_SIZE, List.length_append]; omega
  rw [if_neg hlen]
  unfold encOvpnHeader
  simp only [List.append_assoc]
  rw [parseNum_enc (bo := .network) (k := 1) rfl (by simp; omega)]
  have hsh : ((op' * 8) >>> 3 != op) = true := by
    rw [Nat.shiftRight_eq_div_pow]; simp; omega
  simp only [bind, Except.bind, hsh, if_true]

/-- the op code of a packet's class -/
def ovpnOpOfPacket : OvpnPacket → Nat
  | .control .. => OP_CONTROL_V1
  | .ack .. => OP_ACK_V1
  | .hardResetClient .. => OP_HARD_RESET_CLIENT_V2
  | .hardResetServer .. => OP_HARD_RESET_SERVER_V2

theorem encOvpn_header (p : OvpnPacket) : ∃ h t, encOvpn p = encOvpnHeader (ovpnOpOfPacket p) h ++ t := by
  cases p with
  | control h pid pl => exact ⟨h, _, rfl⟩
  | ack h => exact ⟨h, [], by simp [encOvpn, ovpnOpOfPacket]⟩
  | hardResetClient sid pid => exact ⟨_, _, rfl⟩
  | hardResetServer h pid => exact ⟨h, _, rfl⟩

theorem ovpnOp_lt (p : OvpnPacket) : ovpnOpOfPacket p < 32 := by
  cases p <;> simp [ovpnOpOfPacket, OP_CONTROL_V1, OP_ACK_V1, OP_HARD_RESET_CLIENT_V2, OP_HARD_RESET_SERVER_V2]

/-- on the octets of a well-formed packet the variant parser behaves as the parser of the packet's
own class: every class tried before it answers `InvalidType` because the op code on the wire is
not its own -/
theorem parseOvpnVariant_enc (p : OvpnPacket) (hw : ovpnWf p) (s : Bytes) :
    parseOvpnVariant (encOvpn p ++ s) = ovpnParserOf p (encOvpn p ++ s) := by
  obtain ⟨h, t, e⟩ := encOvpn_header p
  have hlt := ovpnOp_lt p
  have other : ∀ op, op ≠ ovpnOpOfPacket p →
      parseOvpnHeader op (encOvpn p ++ s) = .error .invalidType := by
    intro op hne
    rw [e, List.append_assoc]
    exact parseOvpnHeader_other op _ hlt hne h _
  unfold parseOvpnVariant
  cases p with
  | control hd pid pl =>
    have hr := parseOvpnControl_enc hd pid pl s hw.1 hw.2
    simp only [ovpnOpOfPacket] at other
    simp only [firstNotInvalidType, parseOvpnAck, other OP_ACK_V1 (by decide), bind, Except.bind, ovpnParserOf, hr]
  | ack hd =>
    have hr := parseOvpn_enc_fixed (.ack hd) hw (fun _ _ _ h => by cases h) s
    simp only [ovpnParserOf] at hr
    simp only [firstNotInvalidType, ovpnParserOf, hr]
  | hardResetClient sid pid =>
    have hr := parseOvpn_enc_fixed (.hardResetClient sid pid) hw (fun _ _ _ h => by cases h) s
    simp only [ovpnParserOf] at hr
    simp only [ovpnOpOfPacket] at other
    simp only [firstNotInvalidType, parseOvpnAck, parseOvpnControl, other OP_ACK_V1 (by decide),
      other OP_CONTROL_V1 (by decide), bind, Except.bind, ovpnParserOf, hr]
  | hardResetServer hd pid =>
    have hr := parseOvpn_enc_fixed (.hardResetServer hd pid) hw (fun _ _ _ h => by cases h) s
    simp only [ovpnParserOf] at hr
    simp only [ovpnOpOfPacket] at other
    simp only [firstNotInvalidType, parseOvpnAck, parseOvpnControl, parseOvpnHardResetClient,
      other OP_ACK_V1 (by decide), other OP_CONTROL_V1 (by decide), other OP_HARD_RESET_CLIENT_V2 (by decide),
      bind, Except.bind, ovpnParserOf, hr]

theorem rdBE_enc_nil {k v : Nat} (hv : v < 256 ^ k) : rdBE k (toBytesBE k v) = some (v, []) := by
  have := rdBE_enc hv []
  rwa [List.append_nil] at this

theorem ovpn_spec_roundtrip (x : Spec.Opp.OvpnPacket) (h : x.wf) : decodeOvpn (encodeOvpn x) = some x := by
  obtain ⟨hs, hl, ha, hr, hp, hpl⟩ := h
  obtain ⟨op, sid, acks, rsid, pid, pl⟩ := x
  simp only at hs hl ha hr hp hpl
  have hc : op.code * 8 < 256 ^ 1 := by cases op <;> decide
  have hop : ovpnOpOf (op.code * 8 / 8) = some op := by cases op <;> rfl
  unfold decodeOvpn encodeOvpn
  simp only [List.append_assoc]
  rw [rdBE_enc hc]
  simp only [Option.bind_eq_bind, Option.bind_some, hop]
  rw [rdBE_enc (by simpa using hs)]
  simp only [Option.bind_some]
  rw [rdBE_enc (by simpa using hl)]
  simp only [Option.bind_some]
  rw [rdU32s_app acks _ ha]
  simp only [Option.bind_some]
  cases acks with
  | nil =>
    cases rsid with
    | some r => simp at hr
    | none =>
      simp only [List.length_nil, if_true, List.nil_append]
      cases pid with
      | none =>
        subst hp
        simp [hpl]
      | some i =>
        have hi : i < 256 ^ 4 := by simpa using hp.2
        cases op with
        | ackV1 => simp at hp
        | controlV1 => simp [rdBE_enc hi]
        | hardResetClientV2 => simp [rdBE_enc_nil hi, hpl]
        | hardResetServerV2 => simp [rdBE_enc_nil hi, hpl]
  | cons a as =>
    cases rsid with
    | none => simp at hr
    | some r =>
      have hr8 : r < 256 ^ 8 := by simpa using hr.2
      have hne : ¬ ((a :: as).length = 0) := by simp
      simp only [hne, if_false, rdBE_enc hr8, Option.map_some, Option.bind_some]
      cases pid with
      | none =>
        subst hp
        simp [hpl]
      | some i =>
        have hi : i < 256 ^ 4 := by simpa using hp.2
        cases op with
        | ackV1 => simp at hp
        | controlV1 => simp [rdBE_enc hi]
        | hardResetClientV2 => simp [rdBE_enc_nil hi, hpl]
        | hardResetServerV2 => simp [rdBE_enc_nil hi, hpl]



/-! ### the capability-flag split: lower 16 bits | upper 16 bits << 16 -/

theorem flagWord_mod (sel : List Nat) : flagWord 0 sel % 2 ^ 16 = flagWord 0 (sel.filter (· < 16)) := by
  apply Nat.eq_of_testBit_eq
  intro i
  rw [Nat.testBit_mod_two_pow, flagWord_testBit, flagWord_testBit]
  by_cases hi : i < 16 <;> simp [hi, List.mem_filter]

theorem flagWord_div (sel : List Nat) : flagWord 0 sel / 2 ^ 16 = flagWord 16 (sel.filter (16 ≤ ·)) := by
  apply Nat.eq_of_testBit_eq
  intro i
  rw [Nat.testBit_div_two_pow, flagWord_testBit, flagWord_testBit]
  simp [List.mem_filter, Nat.add_comm]

theorem leBytes_split4 (w : Nat) : leBytes 4 w = leBytes 2 (w % 2 ^ 16) ++ leBytes 2 (w / 2 ^ 16) := by
  simp only [leBytes, List.cons_append, List.nil_append]
  have e1 : w % 2 ^ 16 % 256 = w % 256 := by omega
  have e2 : w % 2 ^ 16 / 256 % 256 = w / 256 % 256 := by omega
  have e3 : w / 2 ^ 16 % 256 = w / 256 / 256 % 256 := by omega
  have e4 : w / 2 ^ 16 / 256 % 256 = w / 256 / 256 / 256 % 256 := by omega
  rw [e1, e2, e3, e4]

theorem filter_split_of_pairwise (l : List Nat) (n : Nat) (h : l.Pairwise (· < ·)) :
    l.filter (· < n) ++ l.filter (n ≤ ·) = l := by
  induction l with
  | nil => rfl
  | cons x xs ih =>
    have hx := (List.pairwise_cons.mp h).1
    have hxs := (List.pairwise_cons.mp h).2
    by_cases hlt : x < n
    · have : ¬ n ≤ x := by omega
      simp only [List.filter_cons, hlt, decide_true, if_true, this, decide_false, Bool.false_eq_true, if_false,
        List.cons_append, ih hxs]
    · have hge : n ≤ x := by omega
      have h1 : xs.filter (· < n) = [] := by
        rw [List.filter_eq_nil_iff]; intro y hy; have := hx y hy; simp; omega
      have h2 : xs.filter (n ≤ ·) = xs := by
        rw [List.filter_eq_self]; intro y hy; have := hx y hy; simp; omega
      simp only [List.filter_cons, hlt, decide_false, Bool.false_eq_true, if_false, hge, decide_true, if_true, h1, h2,
        List.nil_append]

/-- exponents of the members of `MySQLCapability` (bits 0..24), of `MySQLStatusFlag` -/
def capExps : List Nat := List.range 25
def statusExps : List Nat := [0, 1, 3, 4, 5, 6, 7, 8, 9, 10, 11, 12, 13, 14]

theorem mysql_capCodes : Gen.MySQLCapability.codes = capExps.map (2 ^ ·) := by decide
theorem mysql_statusCodes : Gen.MySQLStatusFlag.codes = statusExps.map (2 ^ ·) := by decide
theorem capExps_nodup : capExps.Nodup := by decide
theorem capExps_lt : ∀ e ∈ capExps, e < 25 := by decide
theorem capExps_pairwise : capExps.Pairwise (· < ·) := by decide
theorem statusExps_nodup : statusExps.Nodup := by decide
theorem statusExps_lt : ∀ e ∈ statusExps, e < 16 := by decide

theorem pow2_mem_map (e : Nat) (sel : List Nat) : (sel.map (2 ^ ·)).contains (2 ^ e) = decide (e ∈ sel) := by
  simp only [List.contains_eq_mem, List.mem_map]
  by_cases h : e ∈ sel
  · simp [h]; exact ⟨e, h, rfl⟩
  · simp only [h, decide_false, decide_eq_false_iff_not, not_exists, not_and]
    intro x hx hp
    have h1 := (Nat.pow_le_pow_iff_right (a := 2) (by decide)).mp (Nat.le_of_eq hp)
    have h2 := (Nat.pow_le_pow_iff_right (a := 2) (by decide)).mp (Nat.le_of_eq hp.symm)
    have : x = e := by omega
    exact h (this ▸ hx)

/-- both capability fields of a composed 32-bit flag word parse back to the selection -/
theorem caps_split_parse (sel : List Nat) (hsub : sel.Sublist capExps) (X : Bytes) :
    parseFlags .little 2 0 Gen.MySQLCapability.codes
        (encNat .little 2 (flagWord 0 sel % 2 ^ 16) ++ X) = .ok ((sel.filter (· < 16)).map (2 ^ ·), 2) ∧
    parseFlags .little 2 16 Gen.MySQLCapability.codes
        (encNat .little 2 (flagWord 0 sel / 2 ^ 16) ++ X) = .ok ((sel.filter (16 ≤ ·)).map (2 ^ ·), 2) ∧
    (sel.filter (· < 16)).map (2 ^ ·) ++ (sel.filter (16 ≤ ·)).map (2 ^ ·) = sel.map (2 ^ ·) := by
  have hlo : (sel.filter (· < 16)).Sublist capExps := List.filter_sublist.trans hsub
  have hhi : (sel.filter (16 ≤ ·)).Sublist capExps := List.filter_sublist.trans hsub
  refine ⟨?_, ?_, ?_⟩
  · rw [flagWord_mod, mysql_capCodes]
    exact (flags_rt .little 2 0 capExps _ X capExps_nodup hlo (fun _ _ => Nat.zero_le _) rfl
      (fun e he => by have := (List.mem_filter.mp he).2; simp at this; omega)).2.2
  · rw [flagWord_div, mysql_capCodes]
    exact (flags_rt .little 2 16 capExps _ X capExps_nodup hhi
      (fun e he => by have := (List.mem_filter.mp he).2; simpa using this) rfl
      (fun e he => by have := capExps_lt e (hhi.subset he); omega)).2.2
  · rw [← List.map_append, filter_split_of_pairwise sel 16 (capExps_pairwise.sublist hsub)]


/-! ### MySQL `SSLRequest` -/

theorem encNat_one (bo bo' : ByteOrder) (v : Nat) : encNat bo 1 v = encNat bo' 1 v := by
  unfold encNat
  split <;> split <;> simp [beBytes, leBytes]

theorem charset_lt : ∀ c ∈ Gen.MySQLCharacterSet.codes, c < 256 := by decide

theorem findCode_of_mem {c : Nat} {codes : List Nat} (h : c ∈ codes) : ∃ i, findCode c codes = some i := by
  cases hf : findCode c codes with
  | some i => exact ⟨i, rfl⟩
  | none => exact absurd h (findCode_none hf)

theorem parseCharset_enc (bo : ByteOrder) (c : Nat) (hc : c ∈ Gen.MySQLCharacterSet.codes) (X : Bytes) :
    parseCharset (encNat bo 1 c ++ X) = .ok (c, 1) := by
  unfold parseCharset parseCoded
  rw [encNat_one bo .network, parseNum_enc rfl (charset_lt c hc)]
  obtain ⟨i, hi⟩ := findCode_of_mem hc
  simp only [bind, Except.bind, hi, pure, Except.pure]
  have := findCode_sound hi
  simp [List.getD, this]

theorem composeCharset_ok (bo : ByteOrder) (c : Nat) (hc : c ∈ Gen.MySQLCharacterSet.codes) :
    composeCharset c = .ok (encNat bo 1 c) := by
  unfold composeCharset
  have : Gen.MySQLCharacterSet.codes.contains c = true := by simpa using hc
  rw [if_pos this, composeNum_ok rfl (charset_lt c hc), encNat_one .network bo]

def mySqlSslWf (r : MySqlSslRequest) : Prop :=
  ∃ sel : List Nat, sel.Sublist capExps ∧ r.capabilities = sel.map (2 ^ ·) ∧
    (if 9 ∈ sel then r.maxPacketSize < 2 ^ 32 ∧ ∃ c, c ∈ Gen.MySQLCharacterSet.codes ∧ r.characterSet = some c
     else (∀ e ∈ sel, e < 16) ∧ r.maxPacketSize < 2 ^ 24 ∧ r.characterSet = none)

def MySqlSslRequest.toSpec (r : MySqlSslRequest) : Spec.Opp.MySqlSslRequest :=
  ⟨orAll r.capabilities, r.maxPacketSize, r.characterSet⟩

theorem cap41 : CLIENT_PROTOCOL_41 = 2 ^ 9 := rfl

theorem composeMySqlSslRequest_spec (r : MySqlSslRequest) (h : mySqlSslWf r) :
    composeMySqlSslRequest r = .ok (encodeMySqlSslRequest r.toSpec) := by
  obtain ⟨sel, hsub, hc, hrest⟩ := h
  obtain ⟨caps, mx, cs⟩ := r
  simp only at hc hrest
  subst hc
  unfold composeMySqlSslRequest encodeMySqlSslRequest MySqlSslRequest.toSpec Spec.Opp.MySqlSslRequest.is41
  simp only [cap41, pow2_mem_map, ← flagWord_zero, flagWord_testBit, Nat.zero_add, composeFlags_shift0]
  by_cases h9 : 9 ∈ sel
  · rw [if_pos h9] at hrest
    obtain ⟨hm, c, hcm, hcs⟩ := hrest
    subst hcs
    have hw : flagWord 0 sel < 256 ^ 4 :=
      flagWord_lt 0 4 sel (fun e he => by have := capExps_lt e (hsub.subset he); omega)
    simp only [h9, decide_true, if_true]
    rw [composeNum_ok rfl hw, composeNum_ok rfl (by simpa using hm), composeCharset_ok .little c hcm]
    simp [bind, Except.bind, pure, Except.pure, encNat_little]
  · rw [if_neg h9] at hrest
    obtain ⟨hlo, hm, hcs⟩ := hrest
    subst hcs
    have hw : flagWord 0 sel < 256 ^ 2 := flagWord_lt 0 2 sel (fun e he => by have := hlo e he; omega)
    simp only [h9, decide_false, Bool.false_eq_true, if_false]
    rw [composeNum_ok rfl hw, composeNum_ok rfl (by simpa using hm)]
    simp [bind, Except.bind, pure, Except.pure, encNat_little]

theorem parseMySqlSslRequest_encode (r : MySqlSslRequest) (s : Bytes) (h : mySqlSslWf r) :
    parseMySqlSslRequest (encodeMySqlSslRequest r.toSpec ++ s) = .ok (r, (encodeMySqlSslRequest r.toSpec).length) := by
  obtain ⟨sel, hsub, hc, hrest⟩ := h
  obtain ⟨caps, mx, cs⟩ := r
  simp only at hc hrest
  subst hc
  unfold parseMySqlSslRequest encodeMySqlSslRequest MySqlSslRequest.toSpec Spec.Opp.MySqlSslRequest.is41
  simp only [← flagWord_zero, flagWord_testBit, Nat.zero_add]
  by_cases h9 : 9 ∈ sel
  · rw [if_pos h9] at hrest
    obtain ⟨hm, c, hcm, hcs⟩ := hrest
    subst hcs
    simp only [h9, decide_true, if_true, Option.getD_some, ← leBytes_eq_spec, List.append_assoc]
    rw [leBytes_split4 (flagWord 0 sel)]
    simp only [List.append_assoc]
    obtain ⟨p1, p2, p3⟩ := caps_split_parse sel hsub
      (leBytes 4 mx ++ (leBytes 1 c ++ (List.replicate 23 0 ++ s)))
    have p1' := (caps_split_parse sel hsub (leBytes 2 (flagWord 0 sel / 2 ^ 16) ++
      (leBytes 4 mx ++ (leBytes 1 c ++ (List.replicate 23 0 ++ s))))).1
    have hlen : ¬ (leBytes 2 (flagWord 0 sel % 2 ^ 16) ++ (leBytes 2 (flagWord 0 sel / 2 ^ 16) ++
        (leBytes 4 mx ++ (leBytes 1 c ++ (List.replicate 23 0 ++ s))))).length < MySQLHandshakeSslRequest_MINIMUM_SIZE := by
      simp [MySQLHandshakeSslRequest_MINIMUM_SIZE]; omega
    rw [if_neg hlen]
    change (parseFlags .little 2 0 Gen.MySQLCapability.codes (encNat .little 2 (flagWord 0 sel % 2 ^ 16) ++ _) >>= _) = _
    rw [p1']
    have h41 : ((sel.filter (· < 16)).map (2 ^ ·)).contains CLIENT_PROTOCOL_41 = true := by
      rw [cap41, pow2_mem_map]; simp [List.mem_filter, h9]
    simp only [bind, Except.bind, h41, if_true]
    rw [show leBytes 2 (flagWord 0 sel % 2 ^ 16) = encNat .little 2 (flagWord 0 sel % 2 ^ 16) from rfl, drop_enc,
      show leBytes 2 (flagWord 0 sel / 2 ^ 16) = encNat .little 2 (flagWord 0 sel / 2 ^ 16) from rfl, p2]
    simp only [drop_enc]
    rw [show leBytes 4 mx = encNat .little 4 mx from rfl, parseNum_enc rfl (by simpa using hm)]
    simp only [drop_enc]
    rw [show leBytes 1 c = encNat .little 1 c from rfl, parseCharset_enc .little c hcm]
    simp only [drop_enc]
    rw [show ((23 : Int)) = (((List.replicate 23 (0 : UInt8)).length : Nat) : Int) by simp, parseRaw_nat_append]
    simp only [pure, Except.pure, p3]
    simp
  · rw [if_neg h9] at hrest
    obtain ⟨hlo, hm, hcs⟩ := hrest
    subst hcs
    simp only [h9, decide_false, Bool.false_eq_true, if_false, ← encNat_little, List.append_assoc]
    have hF := flags_rt .little 2 0 capExps sel (encNat .little 3 mx ++ s) capExps_nodup hsub
      (fun _ _ => Nat.zero_le _) rfl (fun e he => by have := hlo e he; omega)
    have hlen : ¬ (encNat .little 2 (flagWord 0 sel) ++ (encNat .little 3 mx ++ s)).length
        < MySQLHandshakeSslRequest_MINIMUM_SIZE := by
      simp [MySQLHandshakeSslRequest_MINIMUM_SIZE]; omega
    rw [if_neg hlen, mysql_capCodes, hF.2.2]
    have h41 : (sel.map (2 ^ ·)).contains CLIENT_PROTOCOL_41 = false := by
      rw [cap41, pow2_mem_map]; simp [h9]
    simp only [bind, Except.bind, h41, Bool.false_eq_true, if_false, drop_enc]
    rw [parseNum_enc rfl (by simpa using hm)]
    simp [pure, Except.pure]


theorem toBytesLE_split4 (w : Nat) : toBytesLE 4 w = toBytesLE 2 (w % 2 ^ 16) ++ toBytesLE 2 (w / 2 ^ 16) := by
  rw [← leBytes_eq_spec, ← leBytes_eq_spec, ← leBytes_eq_spec, leBytes_split4]

theorem mySqlSslRequest_spec_roundtrip (x : Spec.Opp.MySqlSslRequest) (s : Bytes) (h : x.wf) :
    decodeMySqlSslRequest (encodeMySqlSslRequest x ++ s) = some (x, (encodeMySqlSslRequest x).length) := by
  obtain ⟨fl, mx, cs⟩ := x
  unfold Spec.Opp.MySqlSslRequest.wf at h
  unfold decodeMySqlSslRequest encodeMySqlSslRequest
  simp only [Spec.Opp.MySqlSslRequest.is41] at h ⊢
  by_cases h9 : fl.testBit 9 = true
  · simp only [h9, if_true] at h
    obtain ⟨hf, hm, c, hc, hc256⟩ := h
    subst hc
    simp only [h9, if_true, Option.getD_some]
    rw [toBytesLE_split4 fl]
    simp only [List.append_assoc]
    have hlo : fl % 2 ^ 16 < 256 ^ 2 := by omega
    have hhi : fl / 2 ^ 16 < 256 ^ 2 := by omega
    rw [rdLE_enc hlo]
    have ht : (fl % 2 ^ 16).testBit 9 = true := by rw [Nat.testBit_mod_two_pow]; simp [h9]
    simp only [Option.bind_eq_bind, Option.bind_some, ht, if_true]
    rw [rdLE_enc hhi]
    simp only [Option.bind_some]
    rw [rdLE_enc (by simpa using hm)]
    simp only [Option.bind_some]
    rw [rdLE_enc (by simpa using hc256)]
    simp only [Option.bind_some]
    rw [rdN_app' _ _ (by simp)]
    simp only [Option.bind_some, Option.pure_def, Option.some.injEq, Prod.mk.injEq]
    refine ⟨?_, by simp⟩
    congr 1
    omega
  · have h9' : fl.testBit 9 = false := by simpa using h9
    simp only [h9', Bool.false_eq_true, if_false] at h
    obtain ⟨hf, hm, hc⟩ := h
    subst hc
    simp only [h9', Bool.false_eq_true, if_false, List.append_assoc]
    rw [rdLE_enc (by simpa using hf)]
    simp only [Option.bind_eq_bind, Option.bind_some, h9', Bool.false_eq_true, if_false]
    rw [rdLE_enc (by simpa using hm)]
    simp



/-! ### null-terminated strings -/

theorem findNul_append (v s : Bytes) (h : (0 : UInt8) ∉ v) : findNul (v ++ 0 :: s) = some v.length := by
  induction v with
  | nil => simp [findNul]
  | cons x xs ih =>
    have hx : (x == 0) = false := by
      have : x ≠ 0 := fun e => h (by simp [e])
      simpa using this
    have hxs : (0 : UInt8) ∉ xs := fun e => h (by simp [e])
    simp [findNul, hx, ih hxs]

theorem composeStrNul_ok (v : Bytes) (ha : isAscii v = true) (h0 : (0 : UInt8) ∉ v) :
    composeStrNul v = .ok (v ++ [0]) := by
  simp [composeStrNul, ha, h0]

/-- what the composer accepts is ASCII without NUL, and the output is the text and a terminator -/
theorem composeStrNul_ok_inv {v b : Bytes} (h : composeStrNul v = .ok b) :
    isAscii v = true ∧ (0 : UInt8) ∉ v ∧ b = v ++ [0] := by
  unfold composeStrNul at h
  split at h
  · simp at h
  · next ha =>
    split at h
    · simp at h
    · next hc =>
      simp only [Except.ok.injEq] at h
      exact ⟨by simpa using ha, by simpa using hc, h.symm⟩

/-- an embedded NUL is rejected -/
theorem composeStrNul_nul (v : Bytes) (h0 : (0 : UInt8) ∈ v) : composeStrNul v = .error .invalidValue := by
  unfold composeStrNul
  split
  · rfl
  · simp [h0]

/-- an ASCII text without NUL composes to itself and a terminator, and parses back (with any suffix) -/
theorem strNul_roundtrip (v s : Bytes) (ha : isAscii v = true) (h0 : (0 : UInt8) ∉ v) :
    composeStrNul v = .ok (v ++ [0]) ∧ parseStrNul (v ++ [0] ++ s) = .ok (v, v.length + 1) := by
  refine ⟨composeStrNul_ok v ha h0, ?_⟩
  unfold parseStrNul
  rw [List.append_assoc, show ([0] : Bytes) ++ s = 0 :: s from rfl, findNul_append v s h0]
  simp only [List.take_left' rfl, ha, if_true]


theorem parseRaw_of_len {z : Int} {n : Nat} (v s : Bytes) (hz : z = (n : Int)) (h : v.length = n) :
    parseRaw z (v ++ s) = .ok (v, n) := by
  subst hz; subst h; exact parseRaw_nat_append v s

/-! ### MySQL `HandshakeV10` -/

theorem capPlugin : CLIENT_PLUGIN_AUTH = 2 ^ 19 := rfl

theorem filter_pow_lt (sel : List Nat) :
    (sel.map (2 ^ ·)).filter (· < 2 ^ 16) = (sel.filter (· < 16)).map (2 ^ ·) := by
  rw [List.filter_map]
  congr 1
  apply List.filter_congr
  intro e _
  simp only [Function.comp, decide_eq_decide]
  exact Nat.pow_lt_pow_iff_right (by decide)

theorem filter_pow_ge (sel : List Nat) :
    (sel.map (2 ^ ·)).filter (· ≥ 2 ^ 16) = (sel.filter (16 ≤ ·)).map (2 ^ ·) := by
  rw [List.filter_map]
  congr 1
  apply List.filter_congr
  intro e _
  simp only [Function.comp, decide_eq_decide, ge_iff_le]
  exact Nat.pow_le_pow_iff_right (by decide)

theorem composeFlags_flagWord (bo : ByteOrder) (k sh : Nat) (sel : List Nat) :
    composeFlags bo k sh (sel.map (2 ^ ·)) = composeNum bo k ((flagWord sh sel : Nat) : Int) := rfl

theorem capSecure : CLIENT_SECURE_CONNECTION = 2 ^ 15 := rfl

/-- the length rule on a selection of capability members -/
theorem authLen_pow (sel : List Nat) (apdl : Nat) :
    authPluginData2Len (sel.map (2 ^ ·)) apdl =
      if 19 ∈ sel then max 13 (apdl - 8) else if 15 ∈ sel then 13 else 0 := by
  unfold authPluginData2Len
  simp only [capPlugin, capSecure, pow2_mem_map, decide_eq_true_eq]

/-- the constructible domain of `MySQLHandshakeV10` on which the round trip holds: with
`CLIENT_PLUGIN_AUTH` a second part of 13..247 bytes and a plugin name; with
`CLIENT_SECURE_CONNECTION` alone (servers before 5.5.7) a second part of 13 bytes and no name; with
neither, neither -/
def mySqlV10Wf (h : MySqlHandshakeV10) : Prop :=
  h.protocolVersion ∈ Gen.MySQLVersion.memberCodes ∧ isAscii h.serverVersion = true ∧ (0 : UInt8) ∉ h.serverVersion ∧
  h.connectionId < 2 ^ 32 ∧ h.authPluginData.length = 8 ∧ h.characterSet ∈ Gen.MySQLCharacterSet.codes ∧
  ∃ sel ssel : List Nat, sel.Sublist capExps ∧ h.capabilities = sel.map (2 ^ ·) ∧
    ssel.Sublist statusExps ∧ h.states = ssel.map (2 ^ ·) ∧
    (if 19 ∈ sel then
      ∃ d2 nm, h.authPluginData2 = some d2 ∧ 13 ≤ d2.length ∧ d2.length ≤ 247 ∧ h.authPluginName = some nm ∧
        isAscii nm = true ∧ (0 : UInt8) ∉ nm
     else h.authPluginName = none ∧
      (if 15 ∈ sel then ∃ d2, h.authPluginData2 = some d2 ∧ d2.length = 13 else h.authPluginData2 = none))

def MySqlHandshakeV10.toSpec (h : MySqlHandshakeV10) : Spec.Opp.MySqlHandshakeV10 :=
  ⟨h.protocolVersion, h.serverVersion, h.connectionId, h.authPluginData, orAll h.capabilities, h.characterSet,
    orAll h.states, data2Bytes h.authPluginData2, data2Bytes h.authPluginName⟩

/-- the octets `compose` produces, in the model's own terms -/
def encV10 (h : MySqlHandshakeV10) : Bytes :=
  let plugin := h.capabilities.contains CLIENT_PLUGIN_AUTH
  encNat .little 1 h.protocolVersion ++ h.serverVersion ++ [0] ++ encNat .little 4 h.connectionId ++
    h.authPluginData ++ [0] ++ encNat .little 2 (orAll h.capabilities % 2 ^ 16) ++ encNat .little 1 h.characterSet ++
    encNat .little 2 (orAll h.states) ++ encNat .little 2 (orAll h.capabilities / 2 ^ 16) ++
    encNat .little 1 (if plugin then 8 + (data2Bytes h.authPluginData2).length else 0) ++
    List.replicate 10 0 ++ data2Bytes h.authPluginData2 ++
    (if plugin then data2Bytes h.authPluginName ++ [0] else [])

theorem version_lt : ∀ v ∈ Gen.MySQLVersion.memberCodes, v < 256 := by decide

theorem composeMySqlHandshakeV10_enc (h : MySqlHandshakeV10) (hw : mySqlV10Wf h) :
    composeMySqlHandshakeV10 h = .ok (encV10 h) := by
  obtain ⟨hpv, hsa, hs0, hcid, hapd, hcs, sel, ssel, hsub, hcaps, hssub, hst, hopt⟩ := hw
  obtain ⟨pv, sv, cid, apd, caps, cs, states, d2o, nmo⟩ := h
  simp only at hpv hsa hs0 hcid hapd hcs hcaps hst hopt
  subst hcaps; subst hst
  have hlo : flagWord 0 (sel.filter (· < 16)) < 256 ^ 2 :=
    flagWord_lt 0 2 _ (fun e he => by have := (List.mem_filter.mp he).2; simp at this; omega)
  have hhi : flagWord 16 (sel.filter (16 ≤ ·)) < 256 ^ 2 :=
    flagWord_lt 16 2 _ (fun e he => by
      have := capExps_lt e ((List.filter_sublist.trans hsub).subset he); omega)
  have hsw : flagWord 0 ssel < 256 ^ 2 :=
    flagWord_lt 0 2 _ (fun e he => by have := statusExps_lt e (hssub.subset he); omega)
  unfold composeMySqlHandshakeV10 encV10
  simp only [capPlugin, pow2_mem_map, filter_pow_lt, filter_pow_ge, composeFlags_flagWord, ← flagWord_zero,
    flagWord_mod, flagWord_div]
  rw [composeNum_ok rfl (version_lt pv hpv), composeNum_ok rfl (by simpa using hcid), composeNum_ok rfl hlo,
    composeNum_ok rfl hhi, composeNum_ok rfl hsw, composeCharset_ok .little cs hcs]
  simp only [composeStrNul_ok sv hsa hs0, bind, Except.bind]
  by_cases h19 : 19 ∈ sel
  · rw [if_pos h19] at hopt
    obtain ⟨d2, nm, hd2, hd13, hd2l, hnm, hna, hn0⟩ := hopt
    subst hd2; subst hnm
    simp only [h19, decide_true, if_true, data2Bytes, composeStrNul_ok nm hna hn0, authLen_pow]
    have hne : (d2.length != max 13 (8 + d2.length - 8)) = false := by
      simp only [bne_eq_false_iff_eq]; omega
    rw [hne]
    simp only [Bool.false_eq_true, if_false]
    rw [composeNum_ok rfl (by simp; omega)]
    simp [pure, Except.pure]
  · rw [if_neg h19] at hopt
    obtain ⟨hnm, hopt⟩ := hopt
    subst hnm
    by_cases h15 : 15 ∈ sel
    · rw [if_pos h15] at hopt
      obtain ⟨d2, hd2, hd13⟩ := hopt
      subst hd2
      simp only [h19, h15, decide_false, Bool.false_eq_true, if_false, if_true, data2Bytes, authLen_pow]
      have hne : (d2.length != 13) = false := by simp only [bne_eq_false_iff_eq]; omega
      rw [hne]
      simp only [Bool.false_eq_true, if_false]
      rw [composeNum_ok rfl (by decide)]
      simp [pure, Except.pure]
    · rw [if_neg h15] at hopt
      subst hopt
      simp only [h19, h15, decide_false, Bool.false_eq_true, if_false, data2Bytes, authLen_pow]
      rw [if_neg (by simp)]
      rw [composeNum_ok rfl (by decide)]
      simp [pure, Except.pure]


theorem parseStrNul_enc (v s : Bytes) (ha : isAscii v = true) (h0 : (0 : UInt8) ∉ v) :
    parseStrNul (v ++ ([0] ++ s)) = .ok (v, v.length + 1) := by
  have := (strNul_roundtrip v s ha h0).2
  rwa [List.append_assoc] at this

theorem drop_strNul (v s : Bytes) : List.drop (v.length + 1) (v ++ ([0] ++ s)) = s := by
  rw [← List.append_assoc]; exact List.drop_left' (by simp)

theorem parseAuthData2_some (d s : Bytes) (hd : d.length ≠ 0) :
    parseAuthData2 d.length (d ++ s) = .ok (some d, d.length) := by
  unfold parseAuthData2
  have : (d.length != 0) = true := by simpa using hd
  rw [if_pos this, parseRaw_of_len (n := d.length) d s rfl rfl]
  rfl

theorem parseMySqlHandshakeV10_enc (h : MySqlHandshakeV10) (hw : mySqlV10Wf h) (s : Bytes) :
    parseMySqlHandshakeV10 (encV10 h ++ s) = .ok (h, (encV10 h).length) := by
  obtain ⟨hpv, hsa, hs0, hcid, hapd, hcs, sel, ssel, hsub, hcaps, hssub, hst, hopt⟩ := hw
  obtain ⟨pv, sv, cid, apd, caps, cs, states, d2o, nmo⟩ := h
  simp only at hpv hsa hs0 hcid hapd hcs hcaps hst hopt
  subst hcaps; subst hst
  have hS := fun X => (flags_rt .little 2 0 statusExps ssel X statusExps_nodup hssub
    (fun _ _ => Nat.zero_le _) rfl (fun e he => by have := statusExps_lt e (hssub.subset he); omega)).2.2
  have hp3 := (caps_split_parse sel hsub []).2.2
  have hP1 := fun X => (caps_split_parse sel hsub X).1
  have hP2 := fun X => (caps_split_parse sel hsub X).2.1
  have hlenE : MySQLHandshakeV10_MINIMUM_SIZE ≤ (encV10 ⟨pv, sv, cid, apd, sel.map (2 ^ ·), cs, ssel.map (2 ^ ·), d2o, nmo⟩).length := by
    simp [encV10, MySQLHandshakeV10_MINIMUM_SIZE, hapd]; omega
  unfold parseMySqlHandshakeV10
  have hlen : ¬ (encV10 ⟨pv, sv, cid, apd, sel.map (2 ^ ·), cs, ssel.map (2 ^ ·), d2o, nmo⟩ ++ s).length
      < MySQLHandshakeV10_MINIMUM_SIZE := by
    rw [List.length_append]; omega
  rw [if_neg hlen]
  clear hlen hlenE
  unfold encV10
  simp only [capPlugin, pow2_mem_map, ← flagWord_zero, List.append_assoc]
  unfold parseNumConv
  rw [parseNum_enc rfl (version_lt pv hpv)]
  have hmem : Gen.MySQLVersion.memberCodes.contains pv = true := by simpa using hpv
  simp only [bind, Except.bind, hmem, if_true, pure, Except.pure, drop_enc]
  rw [parseStrNul_enc sv _ hsa hs0]
  simp only [drop_strNul]
  rw [parseNum_enc rfl (by simpa using hcid)]
  simp only [drop_enc]
  rw [parseRaw_of_len (n := 8) apd _ (by rfl) hapd]
  simp only [List.drop_left' hapd]
  rw [parseRaw_of_len (n := 1) ([0] : Bytes) _ (by rfl) rfl]
  simp only [List.drop_left' (show ([0] : Bytes).length = 1 from rfl)]
  rw [hP1]
  simp only [drop_enc]
  rw [parseCharset_enc .little cs hcs]
  simp only [drop_enc]
  rw [mysql_statusCodes, hS]
  simp only [drop_enc]
  rw [hP2]
  simp only [drop_enc, hp3, pow2_mem_map, authLen_pow]
  have h10 : ∀ X : Bytes, parseRaw 10 (List.replicate 10 (0 : UInt8) ++ X) = .ok (List.replicate 10 0, 10) :=
    fun X => parseRaw_of_len (n := 10) (List.replicate 10 (0 : UInt8)) X (by rfl) (by simp)
  have hd10 : ∀ X : Bytes, List.drop 10 (List.replicate 10 (0 : UInt8) ++ X) = X :=
    fun X => List.drop_left' (by simp)
  by_cases h19 : 19 ∈ sel
  · rw [if_pos h19] at hopt
    obtain ⟨d2, nm, hd2, hd13, hd2l, hnm, hna, hn0⟩ := hopt
    subst hd2; subst hnm
    simp only [h19, decide_true, if_true, data2Bytes]
    rw [parseNum_enc rfl (by simp; omega)]
    simp only [drop_enc, h10, hd10]
    have hne : ((8 + d2.length) == 0) = false := by simp
    have hmax : max 13 (8 + d2.length - 8) = d2.length := by omega
    simp only [hne, Bool.and_false, Bool.false_eq_true, if_false, hmax]
    rw [parseAuthData2_some d2 _ (by omega)]
    simp only [List.drop_left' rfl]
    rw [(strNul_roundtrip nm s hna hn0).2]
    simp only [Except.ok.injEq, Prod.mk.injEq, true_and, List.length_append, encNat_length, List.length_replicate,
      List.length_cons, List.length_nil]
    omega
  · rw [if_neg h19] at hopt
    obtain ⟨hnm, hopt⟩ := hopt
    subst hnm
    simp only [h19, decide_false, Bool.false_eq_true, if_false, data2Bytes, Bool.false_and, List.append_nil]
    rw [parseNum_enc rfl (by decide)]
    simp only [drop_enc, h10, hd10]
    by_cases h15 : 15 ∈ sel
    · rw [if_pos h15] at hopt
      obtain ⟨d2, hd2, hd13⟩ := hopt
      subst hd2
      simp only [h15, if_true]
      rw [← hd13, parseAuthData2_some d2 _ (by omega)]
      simp only [Except.ok.injEq, Prod.mk.injEq, true_and, List.length_append, encNat_length,
        List.length_replicate, List.length_cons, List.length_nil]
      omega
    · rw [if_neg h15] at hopt
      subst hopt
      simp only [h15, if_false, parseAuthData2, show ((0 : Nat) != 0) = false from rfl, Bool.false_eq_true, pure, Except.pure,
        Except.ok.injEq, Prod.mk.injEq, true_and, List.length_append, encNat_length,
        List.length_replicate, List.length_cons, List.length_nil, List.nil_append]
      omega


/-- split a successful `Except` bind -/
theorem bindE_ok {α β : Type} {x : Except PErr α} {f : α → Except PErr β} {b : β} (h : (x >>= f) = .ok b) :
    ∃ a, x = .ok a ∧ f a = .ok b := by
  cases x with
  | error e => cases h
  | ok a => exact ⟨a, rfl, h⟩

/-- a composed number is in range -/
theorem composeNum_ok_lt {bo : ByteOrder} {k v : Nat} {b : Bytes} (h : composeNum bo k (v : Int) = .ok b) :
    v < 256 ^ k := by
  unfold composeNum at h
  split at h
  · cases h
  · split at h
    · cases h
    · split at h
      · cases h
      · next hv =>
        have hv' : ¬ (256 ^ k ≤ v) := by simpa using hv
        omega

/-- the second part of the auth plugin data and the plugin name are the ones the capabilities call
for: 13..247 bytes and a name with `CLIENT_PLUGIN_AUTH`; 13 bytes and no name with
`CLIENT_SECURE_CONNECTION` alone; neither otherwise -/
def v10Part2Ok (h : MySqlHandshakeV10) : Prop :=
  if h.capabilities.contains CLIENT_PLUGIN_AUTH = true then
    ∃ d nm, h.authPluginData2 = some d ∧ 13 ≤ d.length ∧ d.length ≤ 247 ∧ h.authPluginName = some nm
  else h.authPluginName = none ∧
    (if h.capabilities.contains CLIENT_SECURE_CONNECTION = true then ∃ d, h.authPluginData2 = some d ∧ d.length = 13
     else h.authPluginData2 = none)

theorem parseAuthData2_ok_inv {len2 : Nat} {rest : Bytes} {o : Option Bytes} {n : Nat}
    (h : parseAuthData2 len2 rest = .ok (o, n)) :
    (data2Bytes o).length = len2 ∧ (len2 ≠ 0 → ∃ d, o = some d) ∧ (len2 = 0 → o = none) := by
  unfold parseAuthData2 at h
  split at h
  · next hne =>
    simp only [bne_iff_ne, ne_eq] at hne
    cases hr : parseRaw (len2 : Int) rest with
    | error e => rw [hr] at h; cases h
    | ok r =>
      obtain ⟨d, m⟩ := r
      rw [hr] at h
      simp only [Except.map, Except.ok.injEq, Prod.mk.injEq] at h
      obtain ⟨rfl, _⟩ := h
      obtain ⟨_, hm, hle, hv⟩ := parseRaw_ok_inv hr
      subst hv
      simp only [Int.toNat_natCast] at hm
      refine ⟨?_, fun _ => ⟨_, rfl⟩, fun h0 => absurd h0 hne⟩
      simp only [data2Bytes, List.length_take]
      omega
  · next hne =>
    simp only [bne_iff_ne, ne_eq, Decidable.not_not] at hne
    simp only [pure, Except.pure, Except.ok.injEq, Prod.mk.injEq] at h
    obtain ⟨rfl, _⟩ := h
    exact ⟨by simp [data2Bytes, hne], fun h0 => absurd hne h0, fun _ => rfl⟩

/-- every greeting the parser accepts has the second part the documentation gives it:
`MAX(13, auth_plugin_data_len - 8)` bytes (`apdl` is the length octet) -/
theorem parseMySqlHandshakeV10_part2 {bs : Bytes} {h : MySqlHandshakeV10} {n : Nat}
    (hp : parseMySqlHandshakeV10 bs = .ok (h, n)) :
    v10Part2Ok h ∧ ∃ apdl, apdl < 256 ∧
      (data2Bytes h.authPluginData2).length = authPluginData2Len h.capabilities apdl := by
  unfold parseMySqlHandshakeV10 at hp
  split at hp
  · cases hp
  · obtain ⟨⟨pv, n1⟩, _, hp⟩ := bindE_ok hp
    obtain ⟨⟨sv, n2⟩, _, hp⟩ := bindE_ok hp
    obtain ⟨⟨cid, n3⟩, _, hp⟩ := bindE_ok hp
    obtain ⟨⟨apd, n4⟩, _, hp⟩ := bindE_ok hp
    obtain ⟨⟨fl, n5⟩, _, hp⟩ := bindE_ok hp
    obtain ⟨⟨caps1, n6⟩, _, hp⟩ := bindE_ok hp
    obtain ⟨⟨cs, n7⟩, _, hp⟩ := bindE_ok hp
    obtain ⟨⟨states, n8⟩, _, hp⟩ := bindE_ok hp
    obtain ⟨⟨caps2, n9⟩, _, hp⟩ := bindE_ok hp
    obtain ⟨⟨apdl, n10⟩, hl, hp⟩ := bindE_ok hp
    obtain ⟨⟨rs, n11⟩, _, hp⟩ := bindE_ok hp
    have hlt : apdl < 256 := by have := (parseNum_ok_inv hl).2.2.1; simpa using this
    simp only at hp
    by_cases hz : ((caps1 ++ caps2).contains CLIENT_PLUGIN_AUTH && apdl == 0) = true
    · rw [if_pos hz] at hp; cases hp
    · rw [if_neg hz] at hp
      obtain ⟨⟨apd2, n12⟩, h2, hp⟩ := bindE_ok hp
      simp only at hp
      obtain ⟨hd2, hsome, hnone⟩ := parseAuthData2_ok_inv h2
      by_cases hpl : (caps1 ++ caps2).contains CLIENT_PLUGIN_AUTH = true
      · rw [if_pos hpl] at hp
        obtain ⟨⟨name, n13⟩, _, hp⟩ := bindE_ok hp
        simp only [pure, Except.pure, Except.ok.injEq, Prod.mk.injEq] at hp
        obtain ⟨rfl, _⟩ := hp
        have hlen : authPluginData2Len (caps1 ++ caps2) apdl = max 13 (apdl - 8) := by
          unfold authPluginData2Len; rw [if_pos hpl]
        refine ⟨?_, apdl, hlt, hd2⟩
        unfold v10Part2Ok
        simp only [hpl, if_true]
        obtain ⟨d, rfl⟩ := hsome (by rw [hlen]; omega)
        simp only [data2Bytes] at hd2
        exact ⟨d, name, rfl, by omega, by omega, rfl⟩
      · rw [if_neg hpl] at hp
        simp only [pure, Except.pure, Except.ok.injEq, Prod.mk.injEq] at hp
        obtain ⟨rfl, _⟩ := hp
        refine ⟨?_, apdl, hlt, hd2⟩
        unfold v10Part2Ok
        simp only [hpl, Bool.false_eq_true, if_false, true_and]
        by_cases hsc : (caps1 ++ caps2).contains CLIENT_SECURE_CONNECTION = true
        · have hlen : authPluginData2Len (caps1 ++ caps2) apdl = 13 := by
            unfold authPluginData2Len; rw [if_neg hpl, if_pos hsc]
          simp only [hsc, if_true]
          obtain ⟨d, rfl⟩ := hsome (by rw [hlen]; omega)
          simp only [data2Bytes] at hd2
          exact ⟨d, rfl, by omega⟩
        · have hlen : authPluginData2Len (caps1 ++ caps2) apdl = 0 := by
            unfold authPluginData2Len; rw [if_neg hpl, if_neg hsc]
          simp only [hsc, Bool.false_eq_true, if_false]
          exact hnone hlen

/-- `compose` writes a second part only as `_parse` reads it back: whenever it succeeds the value has
the second part and the plugin name the capabilities call for -/
theorem composeMySqlHandshakeV10_part2 {h : MySqlHandshakeV10} {b : Bytes}
    (hc : composeMySqlHandshakeV10 h = .ok b) :
    (if h.capabilities.contains CLIENT_PLUGIN_AUTH = true then
      13 ≤ (data2Bytes h.authPluginData2).length ∧ (data2Bytes h.authPluginData2).length ≤ 247 ∧
        ∃ nm, h.authPluginName = some nm
     else if h.capabilities.contains CLIENT_SECURE_CONNECTION = true then (data2Bytes h.authPluginData2).length = 13
     else (data2Bytes h.authPluginData2).length = 0) := by
  unfold composeMySqlHandshakeV10 at hc
  obtain ⟨a, _, hc⟩ := bindE_ok hc
  obtain ⟨b', _, hc⟩ := bindE_ok hc
  obtain ⟨c, _, hc⟩ := bindE_ok hc
  obtain ⟨d, _, hc⟩ := bindE_ok hc
  obtain ⟨e, _, hc⟩ := bindE_ok hc
  obtain ⟨f, _, hc⟩ := bindE_ok hc
  obtain ⟨g, _, hc⟩ := bindE_ok hc
  simp only at hc
  by_cases hpl : h.capabilities.contains CLIENT_PLUGIN_AUTH = true
  · simp only [hpl, if_true] at hc ⊢
    by_cases hne : ((data2Bytes h.authPluginData2).length !=
        authPluginData2Len h.capabilities (8 + (data2Bytes h.authPluginData2).length)) = true
    · rw [if_pos hne] at hc; cases hc
    · rw [if_neg hne] at hc
      obtain ⟨l, hl, hc⟩ := bindE_ok hc
      simp only [bne_iff_ne, ne_eq, Decidable.not_not] at hne
      unfold authPluginData2Len at hne
      rw [if_pos hpl] at hne
      have hlt := composeNum_ok_lt hl
      refine ⟨by omega, by simp at hlt; omega, ?_⟩
      cases hn : h.authPluginName with
      | none => rw [hn] at hc; cases hc
      | some x => exact ⟨x, rfl⟩
  · simp only [hpl, Bool.false_eq_true, if_false] at hc ⊢
    by_cases hne : ((data2Bytes h.authPluginData2).length != authPluginData2Len h.capabilities 0) = true
    · rw [if_pos hne] at hc; cases hc
    · simp only [bne_iff_ne, ne_eq, Decidable.not_not] at hne
      unfold authPluginData2Len at hne
      rw [if_neg hpl] at hne
      split
      · next hsc => rw [if_pos hsc] at hne; exact hne
      · next hsc => rw [if_neg hsc] at hne; exact hne

theorem encV10_spec (h : MySqlHandshakeV10) (hw : mySqlV10Wf h) : encV10 h = encodeMySqlHandshakeV10 h.toSpec := by
  obtain ⟨_, _, _, _, _, _, sel, ssel, _, hcaps, _, _, _⟩ := hw
  unfold encV10 encodeMySqlHandshakeV10 MySqlHandshakeV10.toSpec Spec.Opp.MySqlHandshakeV10.plugin
  simp only [hcaps, capPlugin, pow2_mem_map, ← flagWord_zero, flagWord_testBit, Nat.zero_add, encNat_little]

theorem composeMySqlHandshakeV10_spec (h : MySqlHandshakeV10) (hw : mySqlV10Wf h) :
    composeMySqlHandshakeV10 h = .ok (encodeMySqlHandshakeV10 h.toSpec) := by
  rw [composeMySqlHandshakeV10_enc h hw, encV10_spec h hw]

theorem rdNul_app' (s t : Bytes) (h : noNul s) : rdNul (s ++ ([0] ++ t)) = some (s, t) := rdNul_app s t h

theorem mySqlHandshakeV10_spec_roundtrip (x : Spec.Opp.MySqlHandshakeV10) (s : Bytes) (h : x.wf) :
    decodeMySqlHandshakeV10 (encodeMySqlHandshakeV10 x ++ s) = some (x, (encodeMySqlHandshakeV10 x).length) := by
  obtain ⟨pv, sv, tid, p1, caps, cs, st, p2, nm⟩ := x
  obtain ⟨hpv, hsv, htid, hp1, hcaps, hcs, hst, hopt⟩ := h
  simp only at hpv hsv htid hp1 hcaps hcs hst hopt
  unfold decodeMySqlHandshakeV10 encodeMySqlHandshakeV10
  simp only [Spec.Opp.MySqlHandshakeV10.plugin] at hopt ⊢
  simp only [List.append_assoc]
  have hlo : caps % 2 ^ 16 < 256 ^ 2 := by omega
  have hhi : caps / 2 ^ 16 < 256 ^ 2 := by omega
  have hcomb : caps % 2 ^ 16 + 2 ^ 16 * (caps / 2 ^ 16) = caps := by omega
  rw [rdLE_enc (by simpa using hpv)]
  simp only [Option.bind_eq_bind, Option.bind_some]
  rw [rdNul_app' sv _ hsv]
  simp only [Option.bind_some]
  rw [rdLE_enc (by simpa using htid)]
  simp only [Option.bind_some]
  rw [rdN_app' (n := 8) p1 _ hp1]
  simp only [Option.bind_some]
  rw [rdN_app' (n := 1) ([0] : Bytes) _ rfl]
  simp only [Option.bind_some]
  rw [rdLE_enc hlo]
  simp only [Option.bind_some]
  rw [rdLE_enc (by simpa using hcs)]
  simp only [Option.bind_some]
  rw [rdLE_enc (by simpa using hst)]
  simp only [Option.bind_some]
  rw [rdLE_enc hhi]
  simp only [Option.bind_some, hcomb]
  by_cases h19 : caps.testBit 19 = true
  · simp only [h19, if_true] at hopt ⊢
    obtain ⟨h13, h247, hnm⟩ := hopt
    rw [rdLE_enc (by simp; omega)]
    simp only [Option.bind_some]
    rw [rdN_app' (n := 10) (List.replicate 10 (0 : UInt8)) _ (by simp)]
    simp only [Option.bind_some]
    have hmax : max 13 (8 + p2.length - 8) = p2.length := by omega
    rw [hmax, rdN_app]
    simp only [Option.bind_some]
    rw [show nm ++ [0] ++ s = nm ++ 0 :: s by simp, rdNul_app nm s hnm]
    simp only [Option.bind_some, Option.pure_def, Option.some.injEq, Prod.mk.injEq, true_and,
      List.length_append, toBytesLE_length, List.length_replicate, List.length_cons, List.length_nil, hp1]
    omega
  · have h19' : caps.testBit 19 = false := by simpa using h19
    simp only [h19', Bool.false_eq_true, if_false, Spec.Opp.MySqlHandshakeV10.secure] at hopt ⊢
    obtain ⟨hnm, hopt⟩ := hopt
    subst hnm
    rw [rdLE_enc (by decide)]
    simp only [Option.bind_some]
    rw [rdN_app' (n := 10) (List.replicate 10 (0 : UInt8)) _ (by simp)]
    by_cases h15 : caps.testBit 15 = true
    · simp only [h15, if_true] at hopt ⊢
      simp only [Option.bind_some, List.nil_append]
      rw [rdN_app' (n := 13) p2 s hopt]
      simp only [Option.bind_some, Option.pure_def, Option.some.injEq, Prod.mk.injEq, true_and,
        List.length_append, toBytesLE_length, List.length_replicate, List.length_cons, List.length_nil, hp1]
      omega
    · have h15' : caps.testBit 15 = false := by simpa using h15
      simp only [h15', Bool.false_eq_true, if_false] at hopt ⊢
      subst hopt
      simp only [Option.bind_some, Option.pure_def, Option.some.injEq, Prod.mk.injEq, true_and,
        List.length_append, toBytesLE_length, List.length_replicate, List.length_cons, List.length_nil, hp1]
      omega

/-! ### flag sets given in any order, with repetitions: the round trip up to the SET of members -/

/-- the canonical selection (member order, no repetition) behind a list of single-bit values -/
def canonSel (es vals : List Nat) : List Nat := es.filter fun e => decide (2 ^ e ∈ vals)

theorem canonSel_sublist (es vals : List Nat) : (canonSel es vals).Sublist es := List.filter_sublist

theorem two_pow_inj {a b : Nat} (h : 2 ^ a = 2 ^ b) : a = b := by
  have h1 := (Nat.pow_le_pow_iff_right (a := 2) (by decide)).mp (Nat.le_of_eq h)
  have h2 := (Nat.pow_le_pow_iff_right (a := 2) (by decide)).mp (Nat.le_of_eq h.symm)
  omega

/-- the canonical selection has the same members -/
theorem mem_canonSel_map (es vals : List Nat) (hv : ∀ v ∈ vals, v ∈ es.map (2 ^ ·)) (x : Nat) :
    x ∈ (canonSel es vals).map (2 ^ ·) ↔ x ∈ vals := by
  unfold canonSel
  simp only [List.mem_map, List.mem_filter, decide_eq_true_eq]
  constructor
  · rintro ⟨e, ⟨_, hm⟩, rfl⟩; exact hm
  · intro hx
    obtain ⟨e, he, rfl⟩ := List.mem_map.mp (hv x hx)
    exact ⟨e, ⟨he, hx⟩, rfl⟩

theorem exists_exps (es vals : List Nat) (hv : ∀ v ∈ vals, v ∈ es.map (2 ^ ·)) :
    ∃ xs : List Nat, vals = xs.map (2 ^ ·) ∧ ∀ e ∈ xs, e ∈ es := by
  induction vals with
  | nil => exact ⟨[], rfl, fun _ h => by cases h⟩
  | cons v vs ih =>
    obtain ⟨xs, hxs, hsub⟩ := ih (fun w hw => hv w (List.mem_cons_of_mem _ hw))
    obtain ⟨e, he, hev⟩ := List.mem_map.mp (hv v (List.mem_cons_self))
    refine ⟨e :: xs, by simp only [List.map_cons, hxs, ← hev], ?_⟩
    intro a ha
    rcases List.mem_cons.mp ha with rfl | h
    · exact he
    · exact hsub a h

/-- the OR of single-bit members, whatever their order and multiplicity, is the flag word of the
canonical selection -/
theorem orAll_canon (es vals : List Nat) (hv : ∀ v ∈ vals, v ∈ es.map (2 ^ ·)) :
    orAll vals = flagWord 0 (canonSel es vals) := by
  obtain ⟨xs, rfl, hsub⟩ := exists_exps es vals hv
  rw [← flagWord_zero]
  apply Nat.eq_of_testBit_eq
  intro i
  rw [flagWord_testBit, flagWord_testBit]
  simp only [Nat.zero_add, canonSel, List.mem_filter, decide_eq_true_eq]
  have hinj : (2 ^ i ∈ xs.map (2 ^ ·)) ↔ i ∈ xs := by
    simp only [List.mem_map]
    constructor
    · rintro ⟨a, ha, hp⟩; rw [← two_pow_inj hp]; exact ha
    · intro h; exact ⟨i, h, rfl⟩
  by_cases h : i ∈ xs
  · have := hinj.mpr h
    simp [h, hsub i h, this]
  · have : ¬ (2 ^ i ∈ xs.map (2 ^ ·)) := fun hh => h (hinj.mp hh)
    simp [h, this]

/-- what the validators of `RDPNegotiationBase` accept: flags of the class's flag enumeration and
members of `RDPProtocol` (the zero-valued `RDP` included), in any order, with repetitions -/
def rdpNegConstructible (cls : RdpNegClass) (flags protocol : List Nat) : Prop :=
  (∀ f ∈ flags, f ∈ cls.flagCodes) ∧ (∀ p ∈ protocol, p ∈ Gen.RDPProtocol.codes)

/-- the canonical representative (member order) of a constructed negotiation message -/
def rdpNegCanon (cls : RdpNegClass) (flags protocol : List Nat) : RdpNeg :=
  ⟨cls, (canonSel cls.flagExps flags).map (2 ^ ·), (canonSel rdpProtocolExps (protocol.filter (· != 0))).map (2 ^ ·)⟩

theorem rdpNegCanon_wf (cls : RdpNegClass) (flags protocol : List Nat) : rdpNegWf (rdpNegCanon cls flags protocol) :=
  ⟨_, _, canonSel_sublist _ _, canonSel_sublist _ _, rfl, rfl⟩

theorem rdp_protocol_nonzero {protocol : List Nat} (hp : ∀ p ∈ protocol, p ∈ Gen.RDPProtocol.codes) :
    ∀ v ∈ protocol.filter (· != 0), v ∈ rdpProtocolExps.map (2 ^ ·) := by
  intro v hv
  obtain ⟨hm, hne⟩ := List.mem_filter.mp hv
  have := hp v hm
  rw [rdp_protocolCodes] at this
  rcases List.mem_cons.mp this with rfl | h
  · simp at hne
  · exact h

/-- a constructed message composes exactly as its canonical representative does -/
theorem composeRdpNeg_canon (cls : RdpNegClass) (flags protocol : List Nat) (hc : rdpNegConstructible cls flags protocol) :
    composeRdpNeg (RdpNeg.construct cls flags protocol) = composeRdpNeg (rdpNegCanon cls flags protocol) := by
  obtain ⟨hf, hp⟩ := hc
  have hf' : ∀ v ∈ flags, v ∈ cls.flagExps.map (2 ^ ·) := fun v hv => by rw [← rdp_flagCodes]; exact hf v hv
  unfold composeRdpNeg RdpNeg.construct rdpNegCanon
  simp only [composeFlags_shift0]
  rw [orAll_canon cls.flagExps flags hf', orAll_canon rdpProtocolExps _ (rdp_protocol_nonzero hp),
    ← flagWord_zero, ← flagWord_zero]

/-! ### composed framing units are not empty (hypothesis of the generic reader theorems) -/

theorem tpkt_composePos : ∀ v b, tpktWf v → tpktCodec.compose v = .ok b → 0 < b.length := by
  intro v b h hc
  have := composeTpkt_spec v h
  rw [show composeTpkt v = tpktCodec.compose v from rfl, hc] at this
  cases this
  simp [encodeTpkt_eq]

theorem mySqlRecord_composePos : ∀ v b, mySqlRecordWf v → mySqlRecordCodec.compose v = .ok b → 0 < b.length := by
  intro v b h hc
  have := composeMySqlRecord_spec v h
  rw [show composeMySqlRecord v = mySqlRecordCodec.compose v from rfl, hc] at this
  cases this
  simp [encodeMySqlPacket]; omega

theorem wrapper_composePos : ∀ v b, wrapperWf v → wrapperTcpCodec.compose v = .ok b → 0 < b.length := by
  intro v b h hc
  rw [wrapper_compose_spec v h] at hc
  cases hc
  simp [encodeOvpnTcp]; omega

theorem sslRequest_composePos : ∀ (v : Unit) b, True → sslRequestUnitCodec.compose v = .ok b → 0 < b.length := by
  intro v b _ hc
  have := sslRequest_compose
  rw [show composeSslRequest () = sslRequestUnitCodec.compose v from rfl, hc] at this
  cases this
  simp

end Cp.Opp
