import CpModel.Tls.Ssl2
import CpProofs.Tls2
import CpProofs.Reader
import CpSpec.Ssl2
/-
  Laws of the SSL 2.0 record layer and its message classes (model: `CpModel/Tls/Ssl2.lean`).
-/
namespace Cp.Ssl2
open Cp Cp.Codec Cp.Tls

/-! ### small facts -/

theorem kinds_tableOk : TableOk Gen.SslCipherKind.codes 3 :=
  ⟨rfl, by decide +kernel, by decide +kernel⟩

theorem errorType_fits : ∀ v ∈ Gen.SslErrorType.memberCodes, v < 256 ^ 2 := by decide +kernel
theorem messageType_fits : ∀ v ∈ Gen.SslMessageType.memberCodes, v < 256 ^ 1 := by decide +kernel
theorem certType_fits : ∀ v ∈ Gen.SslCertificateType.memberCodes, v < 256 ^ 1 := by decide +kernel
theorem certType_member : x509CertificateType ∈ Gen.SslCertificateType.memberCodes := by decide +kernel

theorem ssl2Idx_lt : ssl2Idx < Gen.TlsVersion.codes.length := by decide +kernel
theorem composeVersion_ssl2 : composeVersion ssl2Idx = .ok [0, 2] := by decide +kernel

theorem parseVersion_ssl2 (s : Bytes) : ∃ i, parseVersion ([0, 2] ++ s) = .ok (i, 2) := by
  obtain ⟨b, hb, hbb⟩ := version_roundTrip ssl2Idx ssl2Idx_lt
  have hb' : composeVersion ssl2Idx = .ok b := hb
  rw [composeVersion_ssl2] at hb'
  cases hb'
  exact ⟨ssl2Idx, hbb s⟩

theorem type_member (m : Msg) : m.type ∈ Gen.SslMessageType.memberCodes := by
  cases m <;> simp only [Msg.type] <;> decide +kernel

theorem drop_app {α : Type} (a rest : List α) (n : Nat) (h : a.length = n) : (a ++ rest).drop n = rest := by
  subst h; exact List.drop_left

theorem enc_is_spec (k v : Nat) : encNat .network k v = Spec.toBytesBE k v := by
  simp [encNat, ByteOrder.isBig, beBytes_eq_spec]

/-! ### cipher kinds -/

/-- wire bytes of a list of cipher kinds -/
def encKinds (kinds : List Nat) : Bytes :=
  (kinds.map fun i => encNat .network 3 (Gen.SslCipherKind.codes.getD i 0)).flatten

@[simp] theorem encKinds_nil : encKinds [] = [] := rfl
theorem encKinds_cons (i : Nat) (ks : List Nat) :
    encKinds (i :: ks) = encNat .network 3 (Gen.SslCipherKind.codes.getD i 0) ++ encKinds ks := rfl

@[simp] theorem encKinds_length (kinds : List Nat) : (encKinds kinds).length = kinds.length * 3 := by
  induction kinds with
  | nil => rfl
  | cons i ks ih => simp [encKinds_cons, ih]; omega

theorem kindsOk_cons {i : Nat} {ks : List Nat} (h : kindsOk (i :: ks)) :
    i < Gen.SslCipherKind.codes.length ∧ kindsOk ks :=
  ⟨h i (by simp), fun j hj => h j (by simp [hj])⟩

theorem composeKind_ok {i : Nat} (hi : i < Gen.SslCipherKind.codes.length) :
    composeCoded Gen.SslCipherKind.codes 3 i = .ok (encNat .network 3 (Gen.SslCipherKind.codes.getD i 0)) := by
  have hget : Gen.SslCipherKind.codes[i]? = some Gen.SslCipherKind.codes[i] := List.getElem?_eq_getElem hi
  have hc : Gen.SslCipherKind.codes[i] < 256 ^ 3 := kinds_tableOk.fits _ (List.getElem_mem hi)
  unfold composeCoded
  simp only [hget, List.getD_eq_getElem?_getD, Option.getD_some]
  exact composeNum_ok rfl hc

theorem parseKind_enc {i : Nat} (hi : i < Gen.SslCipherKind.codes.length) (s : Bytes) :
    parseCoded Gen.SslCipherKind.codes 3 (encNat .network 3 (Gen.SslCipherKind.codes.getD i 0) ++ s) = .ok (i, 3) := by
  obtain ⟨b, hb, hbb⟩ := codedStrict_roundTrip kinds_tableOk i hi
  have hb' : composeCoded Gen.SslCipherKind.codes 3 i = .ok b := hb
  rw [composeKind_ok hi] at hb'
  cases hb'
  have := hbb s
  rw [encNat_length] at this
  exact this

theorem composeKinds_ok {kinds : List Nat} (h : kindsOk kinds) : composeKinds kinds = .ok (encKinds kinds) := by
  induction kinds with
  | nil => rfl
  | cons i ks ih =>
    obtain ⟨hi, hks⟩ := kindsOk_cons h
    have ih' := ih hks
    unfold composeKinds at ih' ⊢
    simp only [composeItems, composeKind_ok hi, ih', bind, Except.bind, pure, Except.pure, encKinds_cons]

theorem parseKindItems_enc {kinds : List Nat} (h : kindsOk kinds) :
    ∀ fuel, kinds.length * 3 ≤ fuel → parseKindItems fuel (encKinds kinds) = .ok kinds := by
  induction kinds with
  | nil => intro fuel _; cases fuel <;> simp [parseKindItems]
  | cons i ks ih =>
    intro fuel hf
    obtain ⟨hi, hks⟩ := kindsOk_cons h
    cases fuel with
    | zero => simp at hf
    | succ f =>
      have hne : (encKinds (i :: ks)).isEmpty = false := by
        rw [List.isEmpty_eq_false_iff, ← List.length_pos_iff]; simp
      simp only [parseKindItems, hne, Bool.false_eq_true, if_false]
      rw [encKinds_cons, parseKind_enc hi]
      simp only
      rw [drop_app _ _ 3 (by simp), ih hks f (by simp at hf; omega)]
      rfl

theorem parseKinds_enc {kinds : List Nat} (h : kindsOk kinds) (s : Bytes) :
    parseKinds (kinds.length * 3) (encKinds kinds ++ s) = .ok (kinds, kinds.length * 3) := by
  unfold parseKinds
  have h1 : ¬ (kinds.length * 3 > (encKinds kinds ++ s).length) := by simp
  have h2 : (encKinds kinds ++ s).take (kinds.length * 3) = encKinds kinds := by
    rw [List.take_append_of_le_length (by simp)]
    exact List.take_of_length_le (by simp)
  simp only [h1, if_false, h2, parseKindItems_enc h _ (Nat.le_refl _)]

/-- what the item loop accepts: members only, and the slice is three bytes per item -/
theorem parseKindItems_ok_inv : ∀ (fuel : Nat) (b : Bytes) (items : List Nat),
    parseKindItems fuel b = .ok items → kindsOk items ∧ b.length = items.length * 3 := by
  intro fuel
  induction fuel with
  | zero =>
    intro b items h
    simp only [parseKindItems] at h
    split at h
    · next he => cases h; exact ⟨fun i hi => by simp at hi, by simpa using he⟩
    · cases h
  | succ f ih =>
    intro b items h
    simp only [parseKindItems] at h
    split at h
    · next he => cases h; exact ⟨fun i hi => by simp at hi, by simpa using he⟩
    · cases hp : parseCoded Gen.SslCipherKind.codes 3 b with
      | error e => simp only [hp, reduceCtorEq] at h
      | ok r =>
        obtain ⟨i, n⟩ := r
        simp only [hp] at h
        cases hr : parseKindItems f (b.drop n) with
        | error e => simp [hr, Except.map] at h
        | ok rest =>
          simp only [hr, Except.map, Except.ok.injEq] at h
          subst h
          obtain ⟨c, hnum, hf⟩ := parseCoded_ok_inv hp
          obtain ⟨hn, hlen, _⟩ := parseNum_ok_inv hnum
          obtain ⟨hok, hl⟩ := ih _ _ hr
          subst hn
          refine ⟨?_, ?_⟩
          · intro j hj
            simp only [List.mem_cons] at hj
            rcases hj with rfl | hj
            · exact findCode_lt hf
            · exact hok j hj
          · simp only [List.length_drop] at hl
            simp only [List.length_cons]
            omega

theorem parseKinds_ok_inv {size : Nat} {rest : Bytes} {kinds : List Nat} {n : Nat}
    (h : parseKinds size rest = .ok (kinds, n)) :
    n = size ∧ size ≤ rest.length ∧ kindsOk kinds ∧ size = kinds.length * 3 ∧
      parseKindItems size (rest.take size) = .ok kinds := by
  unfold parseKinds at h
  split at h
  · cases h
  · next hs =>
    cases hp : parseKindItems size (rest.take size) with
    | error e => simp only [hp, reduceCtorEq] at h
    | ok items =>
      simp only [hp, Except.ok.injEq, Prod.mk.injEq] at h
      obtain ⟨h1, h2⟩ := h
      subst h1; subst h2
      obtain ⟨hok, hl⟩ := parseKindItems_ok_inv _ _ _ hp
      simp only [List.length_take] at hl
      refine ⟨rfl, by omega, hok, by omega, rfl⟩

theorem parseKindItems_no_crash : ∀ (fuel : Nat) (b : Bytes) (k : String), b.length ≤ fuel →
    parseKindItems fuel b ≠ .error (.crash k) := by
  intro fuel
  induction fuel with
  | zero =>
    intro b k hb
    have : b = [] := List.eq_nil_of_length_eq_zero (by omega)
    subst this
    simp [parseKindItems]
  | succ f ih =>
    intro b k hb
    simp only [parseKindItems]
    split
    · simp
    · cases hp : parseCoded Gen.SslCipherKind.codes 3 b with
      | error e =>
        simp only
        intro h; cases h
        exact codedStrict_noCrash Gen.SslCipherKind.codes (k := 3) rfl b k hp
      | ok r =>
        obtain ⟨i, n⟩ := r
        simp only
        obtain ⟨c, hnum, _⟩ := parseCoded_ok_inv hp
        obtain ⟨hn, hlen, _⟩ := parseNum_ok_inv hnum
        have := ih (b.drop n) k (by simp; omega)
        cases hr : parseKindItems f (b.drop n) with
        | error e => simp only [Except.map]; intro h; cases h; exact this hr
        | ok _ => simp [Except.map]

theorem parseKinds_no_crash (size : Nat) (rest : Bytes) (k : String) :
    parseKinds size rest ≠ .error (.crash k) := by
  unfold parseKinds
  split
  · simp
  · cases hp : parseKindItems size (rest.take size) with
    | error e =>
      simp only
      intro h; cases h
      exact parseKindItems_no_crash size _ k (by simp; omega) hp
    | ok _ => simp

/-! ### the wire bytes of a message -/

def hitByte (hit : Bool) : Nat := if hit then 1 else 0

/-- `compose()` of a well-formed message, written out -/
def encMsg : Msg → Bytes
  | .error c => encNat .network 2 c
  | .clientHello kinds sid ch =>
    [0, 2] ++ (encNat .network 2 (kinds.length * 3) ++ (encNat .network 2 sid.length ++
      (encNat .network 2 ch.length ++ (encKinds kinds ++ (sid ++ ch)))))
  | .serverHello cert kinds cid hit =>
    encNat .network 1 (hitByte hit) ++ (encNat .network 1 x509CertificateType ++ ([0, 2] ++
      (encNat .network 2 cert.length ++ (encNat .network 2 (kinds.length * 3) ++
        (encNat .network 2 cid.length ++ (cert ++ (encKinds kinds ++ cid)))))))

theorem encMsg_length (m : Msg) : (encMsg m).length = m.size := by
  cases m <;> simp [encMsg, Msg.size] <;> omega

theorem composeMsg_ok {m : Msg} (h : m.wf) : composeMsg m = .ok (encMsg m) := by
  cases m with
  | error c => exact composeNum_ok rfl (errorType_fits c h)
  | clientHello kinds sid ch =>
    obtain ⟨hk, h1, h2, h3⟩ := h
    simp only [composeMsg, composeVersion_ssl2, composeNum_ok (k := 2) rfl h1, composeNum_ok (k := 2) rfl h2,
      composeNum_ok (k := 2) rfl h3, composeKinds_ok hk, bind, Except.bind, pure, Except.pure, encMsg,
      List.append_assoc]
  | serverHello cert kinds cid hit =>
    obtain ⟨hk, h1, h2, h3⟩ := h
    have hh : (if hit then 1 else 0 : Nat) < 256 ^ 1 := by cases hit <;> decide
    have ht : x509CertificateType < 256 ^ 1 := by decide
    simp only [composeMsg, composeVersion_ssl2, composeNum_ok (k := 1) rfl hh, composeNum_ok (k := 1) rfl ht,
      composeNum_ok (k := 2) rfl h1, composeNum_ok (k := 2) rfl h2,
      composeNum_ok (k := 2) rfl h3, composeKinds_ok hk, bind, Except.bind, pure, Except.pure, encMsg, hitByte,
      List.append_assoc]

/-! ### reading at an offset -/

theorem parseNum_at {bo : ByteOrder} {k v off : Nat} (hk : validSize k = true) (hv : v < 256 ^ k)
    (pre rest : Bytes) (hp : pre.length = off) :
    parseNum bo k ((pre ++ (encNat bo k v ++ rest)).drop off) = .ok (v, k) := by
  rw [drop_app _ _ _ hp, parseNum_enc hk hv]

theorem parseRaw_at (pre v rest : Bytes) {off : Nat} (hp : pre.length = off) :
    parseRaw (v.length : Int) ((pre ++ (v ++ rest)).drop off) = .ok (v, v.length) := by
  rw [drop_app _ _ _ hp, parseRaw_nat_append]

theorem parseKinds_at {kinds : List Nat} (h : kindsOk kinds) (pre rest : Bytes) {off : Nat}
    (hp : pre.length = off) :
    parseKinds (kinds.length * 3) ((pre ++ (encKinds kinds ++ rest)).drop off) = .ok (kinds, kinds.length * 3) := by
  rw [drop_app _ _ _ hp, parseKinds_enc h]

/-! ### parsing the composition of a message, whatever follows -/

theorem parseError_enc {c : Nat} (h : c ∈ Gen.SslErrorType.memberCodes) (s : Bytes) :
    parseError (encNat .network 2 c ++ s) = .ok (.error c, 2) := by
  unfold parseError
  rw [parseIntEnum_of_num (parseNum_enc rfl (errorType_fits c h) s) h]

theorem parseClientHello_enc {kinds : List Nat} {sid ch : Bytes} (h : (Msg.clientHello kinds sid ch).wf)
    (s : Bytes) :
    parseClientHello (encMsg (.clientHello kinds sid ch) ++ s) =
      .ok (.clientHello kinds sid ch, (Msg.clientHello kinds sid ch).size) := by
  obtain ⟨hk, h1, h2, h3⟩ := h
  obtain ⟨vi, hv⟩ := parseVersion_ssl2
    (encNat .network 2 (kinds.length * 3) ++ (encNat .network 2 sid.length ++
      (encNat .network 2 ch.length ++ (encKinds kinds ++ (sid ++ (ch ++ s))))))
  have e0 : encMsg (.clientHello kinds sid ch) ++ s =
      [0, 2] ++ (encNat .network 2 (kinds.length * 3) ++ (encNat .network 2 sid.length ++
        (encNat .network 2 ch.length ++ (encKinds kinds ++ (sid ++ (ch ++ s)))))) := by
    simp [encMsg, List.append_assoc]
  have a1 := parseNum_at (bo := .network) (k := 2) rfl h1 [0, 2]
    (encNat .network 2 sid.length ++ (encNat .network 2 ch.length ++ (encKinds kinds ++ (sid ++ (ch ++ s))))) (off := 2) rfl
  have a2 := parseNum_at (bo := .network) (k := 2) rfl h2 ([0, 2] ++ encNat .network 2 (kinds.length * 3))
    (encNat .network 2 ch.length ++ (encKinds kinds ++ (sid ++ (ch ++ s)))) (off := 4) (by simp)
  have a3 := parseNum_at (bo := .network) (k := 2) rfl h3
    ([0, 2] ++ encNat .network 2 (kinds.length * 3) ++ encNat .network 2 sid.length)
    (encKinds kinds ++ (sid ++ (ch ++ s))) (off := 6) (by simp)
  have a4 := parseKinds_at hk
    ([0, 2] ++ encNat .network 2 (kinds.length * 3) ++ encNat .network 2 sid.length ++ encNat .network 2 ch.length)
    (sid ++ (ch ++ s)) (off := 8) (by simp)
  have a5 := parseRaw_at
    ([0, 2] ++ encNat .network 2 (kinds.length * 3) ++ encNat .network 2 sid.length ++ encNat .network 2 ch.length ++
      encKinds kinds) sid (ch ++ s) (off := 8 + kinds.length * 3) (by simp; omega)
  have a6 := parseRaw_at
    ([0, 2] ++ encNat .network 2 (kinds.length * 3) ++ encNat .network 2 sid.length ++ encNat .network 2 ch.length ++
      encKinds kinds ++ sid) ch s (off := 8 + kinds.length * 3 + sid.length) (by simp; omega)
  simp only [List.append_assoc] at a1 a2 a3 a4 a5 a6
  unfold parseClientHello
  rw [e0]
  simp only [hv, a1, a2, a3, a4, a5, a6, Msg.size]

theorem parseServerHello_enc {cert kinds cid hit} (h : (Msg.serverHello cert kinds cid hit).wf) (s : Bytes) :
    parseServerHello (encMsg (.serverHello cert kinds cid hit) ++ s) =
      .ok (.serverHello cert kinds cid hit, (Msg.serverHello cert kinds cid hit).size) := by
  obtain ⟨hk, h1, h2, h3⟩ := h
  have hh : hitByte hit < 256 ^ 1 := by cases hit <;> decide
  have ht : x509CertificateType < 256 ^ 1 := by decide
  let R6 := cert ++ (encKinds kinds ++ (cid ++ s))
  let R5 := encNat .network 2 cid.length ++ R6
  let R4 := encNat .network 2 (kinds.length * 3) ++ R5
  let R3 := encNat .network 2 cert.length ++ R4
  obtain ⟨vi, hv⟩ := parseVersion_ssl2 R3
  have e0 : encMsg (.serverHello cert kinds cid hit) ++ s =
      encNat .network 1 (hitByte hit) ++ (encNat .network 1 x509CertificateType ++ ([0, 2] ++ R3)) := by
    simp [encMsg, List.append_assoc, R3, R4, R5, R6]
  have a0 : parseNum .network 1 (encNat .network 1 (hitByte hit) ++ (encNat .network 1 x509CertificateType ++ ([0, 2] ++ R3)))
      = .ok (hitByte hit, 1) := parseNum_enc rfl hh _
  have a1 := parseNum_at (bo := .network) (k := 1) rfl ht (encNat .network 1 (hitByte hit)) ([0, 2] ++ R3) (off := 1) (by simp)
  have a1' := parseIntEnum_of_num a1 certType_member
  have av : parseVersion ((encNat .network 1 (hitByte hit) ++ (encNat .network 1 x509CertificateType ++ ([0, 2] ++ R3))).drop 2)
      = .ok (vi, 2) := by
    rw [← List.append_assoc, drop_app _ _ 2 (by simp)]; exact hv
  have a2 := parseNum_at (bo := .network) (k := 2) rfl h1
    (encNat .network 1 (hitByte hit) ++ encNat .network 1 x509CertificateType ++ [0, 2]) R4 (off := 4) (by simp)
  have a3 := parseNum_at (bo := .network) (k := 2) rfl h2
    (encNat .network 1 (hitByte hit) ++ encNat .network 1 x509CertificateType ++ [0, 2] ++ encNat .network 2 cert.length)
    R5 (off := 6) (by simp)
  have a4 := parseNum_at (bo := .network) (k := 2) rfl h3
    (encNat .network 1 (hitByte hit) ++ encNat .network 1 x509CertificateType ++ [0, 2] ++ encNat .network 2 cert.length ++
      encNat .network 2 (kinds.length * 3)) R6 (off := 8) (by simp)
  have a5 := parseRaw_at
    (encNat .network 1 (hitByte hit) ++ encNat .network 1 x509CertificateType ++ [0, 2] ++ encNat .network 2 cert.length ++
      encNat .network 2 (kinds.length * 3) ++ encNat .network 2 cid.length) cert (encKinds kinds ++ (cid ++ s))
    (off := 10) (by simp)
  have a6 := parseKinds_at hk
    (encNat .network 1 (hitByte hit) ++ encNat .network 1 x509CertificateType ++ [0, 2] ++ encNat .network 2 cert.length ++
      encNat .network 2 (kinds.length * 3) ++ encNat .network 2 cid.length ++ cert) (cid ++ s)
    (off := 10 + cert.length) (by simp; omega)
  have a7 := parseRaw_at
    (encNat .network 1 (hitByte hit) ++ encNat .network 1 x509CertificateType ++ [0, 2] ++ encNat .network 2 cert.length ++
      encNat .network 2 (kinds.length * 3) ++ encNat .network 2 cid.length ++ cert ++ encKinds kinds) cid s
    (off := 10 + cert.length + kinds.length * 3) (by simp; omega)
  simp only [List.append_assoc, R3, R4, R5, R6] at a0 a1' av a2 a3 a4 a5 a6 a7
  have hb : (hitByte hit != 0) = hit := by cases hit <;> decide
  unfold parseServerHello
  rw [e0]
  simp only [R3, R4, R5, R6, a0, a1', av, a2, a3, a4, a5, a6, a7, Msg.size, hb]

theorem parseMsg_enc {m : Msg} (h : m.wf) (s : Bytes) : parseMsg m.type (encMsg m ++ s) = .ok (m, m.size) := by
  cases m with
  | error c => simp only [parseMsg, Msg.type, if_true, encMsg, Msg.size]; exact parseError_enc h s
  | clientHello kinds sid ch =>
    simp only [parseMsg, Msg.type]
    exact parseClientHello_enc h s
  | serverHello cert kinds cid hit =>
    simp only [parseMsg, Msg.type]
    exact parseServerHello_enc h s

/-! ### what the message parsers accept (inversion) -/

theorem parseError_inv {bs : Bytes} {m : Msg} {n : Nat} (h : parseError bs = .ok (m, n)) :
    ∃ c, parseIntEnum Gen.SslErrorType.memberCodes 2 bs = .ok (c, n) ∧ m = .error c := by
  unfold parseError at h
  cases hp : parseIntEnum Gen.SslErrorType.memberCodes 2 bs with
  | error e => simp only [hp, reduceCtorEq] at h
  | ok r =>
    obtain ⟨c, k⟩ := r
    simp only [hp, Except.ok.injEq, Prod.mk.injEq] at h
    obtain ⟨h1, h2⟩ := h
    subst h1; subst h2
    exact ⟨c, rfl, rfl⟩

/-- the successive reads of `SslHandshakeClientHello._parse` on an accepted input -/
inductive ClientHelloParts (bs : Bytes) (m : Msg) (n : Nat) : Prop
  | intro (vi n0 ckLen n1 sidLen n2 chLen n3 n4 n5 n6 : Nat) (kinds : List Nat) (sid ch : Bytes)
    (hv : parseVersion bs = .ok (vi, n0))
    (h1 : parseNum .network 2 (bs.drop 2) = .ok (ckLen, n1))
    (h2 : parseNum .network 2 (bs.drop 4) = .ok (sidLen, n2))
    (h3 : parseNum .network 2 (bs.drop 6) = .ok (chLen, n3))
    (h4 : parseKinds ckLen (bs.drop 8) = .ok (kinds, n4))
    (h5 : parseRaw (sidLen : Int) (bs.drop (8 + ckLen)) = .ok (sid, n5))
    (h6 : parseRaw (chLen : Int) (bs.drop (8 + ckLen + sidLen)) = .ok (ch, n6))
    (hm : m = .clientHello kinds sid ch)
    (hn : n = 8 + ckLen + sidLen + chLen) : ClientHelloParts bs m n

theorem parseClientHello_inv {bs : Bytes} {m : Msg} {n : Nat} (h : parseClientHello bs = .ok (m, n)) :
    ClientHelloParts bs m n := by
  unfold parseClientHello at h
  cases hv : parseVersion bs with
  | error e => simp only [hv, reduceCtorEq] at h
  | ok r0 =>
  obtain ⟨vi, n0⟩ := r0
  cases h1 : parseNum .network 2 (bs.drop 2) with
  | error e => simp only [hv, h1, reduceCtorEq] at h
  | ok r1 =>
  obtain ⟨ckLen, n1⟩ := r1
  cases h2 : parseNum .network 2 (bs.drop 4) with
  | error e => simp only [hv, h1, h2, reduceCtorEq] at h
  | ok r2 =>
  obtain ⟨sidLen, n2⟩ := r2
  cases h3 : parseNum .network 2 (bs.drop 6) with
  | error e => simp only [hv, h1, h2, h3, reduceCtorEq] at h
  | ok r3 =>
  obtain ⟨chLen, n3⟩ := r3
  cases h4 : parseKinds ckLen (bs.drop 8) with
  | error e => simp only [hv, h1, h2, h3, h4, reduceCtorEq] at h
  | ok r4 =>
  obtain ⟨kinds, n4⟩ := r4
  cases h5 : parseRaw (sidLen : Int) (bs.drop (8 + ckLen)) with
  | error e => simp only [hv, h1, h2, h3, h4, h5, reduceCtorEq] at h
  | ok r5 =>
  obtain ⟨sid, n5⟩ := r5
  cases h6 : parseRaw (chLen : Int) (bs.drop (8 + ckLen + sidLen)) with
  | error e => simp only [hv, h1, h2, h3, h4, h5, h6, reduceCtorEq] at h
  | ok r6 =>
  obtain ⟨ch, n6⟩ := r6
  simp only [hv, h1, h2, h3, h4, h5, h6, Except.ok.injEq, Prod.mk.injEq] at h
  exact ⟨vi, n0, ckLen, n1, sidLen, n2, chLen, n3, n4, n5, n6, kinds, sid, ch, hv, h1, h2, h3, h4, h5, h6,
    h.1.symm, h.2.symm⟩

/-- the successive reads of `SslHandshakeServerHello._parse` on an accepted input -/
inductive ServerHelloParts (bs : Bytes) (m : Msg) (n : Nat) : Prop
  | intro (hit n0 ct nc vi nv certLen n1 ckLen n2 cidLen n3 n4 n5 n6 : Nat) (cert : Bytes) (kinds : List Nat)
    (cid : Bytes)
    (h0 : parseNum .network 1 bs = .ok (hit, n0))
    (hc : parseIntEnum Gen.SslCertificateType.memberCodes 1 (bs.drop 1) = .ok (ct, nc))
    (hv : parseVersion (bs.drop 2) = .ok (vi, nv))
    (h1 : parseNum .network 2 (bs.drop 4) = .ok (certLen, n1))
    (h2 : parseNum .network 2 (bs.drop 6) = .ok (ckLen, n2))
    (h3 : parseNum .network 2 (bs.drop 8) = .ok (cidLen, n3))
    (h4 : parseRaw (certLen : Int) (bs.drop 10) = .ok (cert, n4))
    (h5 : parseKinds ckLen (bs.drop (10 + certLen)) = .ok (kinds, n5))
    (h6 : parseRaw (cidLen : Int) (bs.drop (10 + certLen + ckLen)) = .ok (cid, n6))
    (hm : m = .serverHello cert kinds cid (hit != 0))
    (hn : n = 10 + certLen + ckLen + cidLen) : ServerHelloParts bs m n

theorem parseServerHello_inv {bs : Bytes} {m : Msg} {n : Nat} (h : parseServerHello bs = .ok (m, n)) :
    ServerHelloParts bs m n := by
  unfold parseServerHello at h
  cases h0 : parseNum .network 1 bs with
  | error e => simp only [h0, reduceCtorEq] at h
  | ok r0 =>
  obtain ⟨hit, n0⟩ := r0
  cases hc : parseIntEnum Gen.SslCertificateType.memberCodes 1 (bs.drop 1) with
  | error e => simp only [h0, hc, reduceCtorEq] at h
  | ok rc =>
  obtain ⟨ct, nc⟩ := rc
  cases hv : parseVersion (bs.drop 2) with
  | error e => simp only [h0, hc, hv, reduceCtorEq] at h
  | ok rv =>
  obtain ⟨vi, nv⟩ := rv
  cases h1 : parseNum .network 2 (bs.drop 4) with
  | error e => simp only [h0, hc, hv, h1, reduceCtorEq] at h
  | ok r1 =>
  obtain ⟨certLen, n1⟩ := r1
  cases h2 : parseNum .network 2 (bs.drop 6) with
  | error e => simp only [h0, hc, hv, h1, h2, reduceCtorEq] at h
  | ok r2 =>
  obtain ⟨ckLen, n2⟩ := r2
  cases h3 : parseNum .network 2 (bs.drop 8) with
  | error e => simp only [h0, hc, hv, h1, h2, h3, reduceCtorEq] at h
  | ok r3 =>
  obtain ⟨cidLen, n3⟩ := r3
  cases h4 : parseRaw (certLen : Int) (bs.drop 10) with
  | error e => simp only [h0, hc, hv, h1, h2, h3, h4, reduceCtorEq] at h
  | ok r4 =>
  obtain ⟨cert, n4⟩ := r4
  cases h5 : parseKinds ckLen (bs.drop (10 + certLen)) with
  | error e => simp only [h0, hc, hv, h1, h2, h3, h4, h5, reduceCtorEq] at h
  | ok r5 =>
  obtain ⟨kinds, n5⟩ := r5
  cases h6 : parseRaw (cidLen : Int) (bs.drop (10 + certLen + ckLen)) with
  | error e => simp only [h0, hc, hv, h1, h2, h3, h4, h5, h6, reduceCtorEq] at h
  | ok r6 =>
  obtain ⟨cid, n6⟩ := r6
  simp only [h0, hc, hv, h1, h2, h3, h4, h5, h6, Except.ok.injEq, Prod.mk.injEq] at h
  exact ⟨hit, n0, ct, nc, vi, nv, certLen, n1, ckLen, n2, cidLen, n3, n4, n5, n6, cert, kinds, cid,
    h0, hc, hv, h1, h2, h3, h4, h5, h6, h.1.symm, h.2.symm⟩

/-- `parse_raw(n)` returns exactly `n` bytes -/
theorem parseRaw_nat_inv {size : Nat} {rest v : Bytes} {n : Nat} (h : parseRaw (size : Int) rest = .ok (v, n)) :
    n = size ∧ size ≤ rest.length ∧ v = rest.take size ∧ v.length = size := by
  obtain ⟨_, h2, h3, h4⟩ := parseRaw_ok_inv h
  have : n = size := by simpa using h2
  subst this
  exact ⟨rfl, h3, h4, by rw [h4]; simp; omega⟩

/-- what `SslHandshakeClientHello._parse` accepts is a constructible message, and the consumed
length is the length of its composition -/
theorem parseClientHello_wf {bs : Bytes} {m : Msg} {n : Nat} (h : parseClientHello bs = .ok (m, n)) :
    m.wf ∧ n = m.size ∧ n ≤ bs.length := by
  obtain ⟨vi, n0, ckLen, n1, sidLen, n2, chLen, n3, n4, n5, n6, kinds, sid, ch, hv, h1, h2, h3, h4, h5, h6, hm, hn⟩ :=
    parseClientHello_inv h
  obtain ⟨_, l1, v1, _⟩ := parseNum_ok_inv h1
  obtain ⟨_, l2, v2, _⟩ := parseNum_ok_inv h2
  obtain ⟨_, l3, v3, _⟩ := parseNum_ok_inv h3
  obtain ⟨_, l4, k4, e4, _⟩ := parseKinds_ok_inv h4
  obtain ⟨_, l5, _, e5⟩ := parseRaw_nat_inv h5
  obtain ⟨_, l6, _, e6⟩ := parseRaw_nat_inv h6
  simp only [List.length_drop] at l1 l2 l3 l4 l5 l6
  subst hm; subst hn
  refine ⟨⟨k4, ?_, ?_, ?_⟩, ?_, ?_⟩
  · omega
  · omega
  · omega
  · simp only [Msg.size]; omega
  · omega

theorem parseServerHello_wf {bs : Bytes} {m : Msg} {n : Nat} (h : parseServerHello bs = .ok (m, n)) :
    m.wf ∧ n = m.size ∧ n ≤ bs.length := by
  obtain ⟨hit, n0, ct, nc, vi, nv, certLen, n1, ckLen, n2, cidLen, n3, n4, n5, n6, cert, kinds, cid,
    h0, hc, hv, h1, h2, h3, h4, h5, h6, hm, hn⟩ := parseServerHello_inv h
  obtain ⟨_, l1, v1, _⟩ := parseNum_ok_inv h1
  obtain ⟨_, l2, v2, _⟩ := parseNum_ok_inv h2
  obtain ⟨_, l3, v3, _⟩ := parseNum_ok_inv h3
  obtain ⟨_, l4, _, e4⟩ := parseRaw_nat_inv h4
  obtain ⟨_, l5, k5, e5, _⟩ := parseKinds_ok_inv h5
  obtain ⟨_, l6, _, e6⟩ := parseRaw_nat_inv h6
  simp only [List.length_drop] at l1 l2 l3 l4 l5 l6
  subst hm; subst hn
  refine ⟨⟨k5, ?_, ?_, ?_⟩, ?_, ?_⟩
  · omega
  · omega
  · omega
  · simp only [Msg.size]; omega
  · omega

theorem parseError_wf {bs : Bytes} {m : Msg} {n : Nat} (h : parseError bs = .ok (m, n)) :
    m.wf ∧ n = m.size ∧ n ≤ bs.length := by
  obtain ⟨c, hp, hm⟩ := parseError_inv h
  obtain ⟨hnum, hmem⟩ := parseIntEnum_ok_inv hp
  obtain ⟨hn, hl, _⟩ := parseNum_ok_inv hnum
  subst hm
  exact ⟨hmem, hn, by omega⟩

theorem parseMsg_wf {t : Nat} {bs : Bytes} {m : Msg} {n : Nat} (h : parseMsg t bs = .ok (m, n)) :
    m.wf ∧ n = m.size ∧ n ≤ bs.length ∧ m.type = t := by
  unfold parseMsg at h
  split at h
  · next ht =>
    obtain ⟨a, b, c⟩ := parseError_wf h
    obtain ⟨_, _, hm⟩ := parseError_inv h
    exact ⟨a, b, c, by subst hm; exact ht.symm⟩
  · split at h
    · next ht =>
      obtain ⟨a, b, c⟩ := parseClientHello_wf h
      obtain ⟨_, _, _, _, _, _, _, _, _, _, _, _, _, _, _, _, _, _, _, _, _, hm, _⟩ := parseClientHello_inv h
      exact ⟨a, b, c, by subst hm; exact ht.symm⟩
    · split at h
      · next ht =>
        obtain ⟨a, b, c⟩ := parseServerHello_wf h
        obtain ⟨_, _, _, _, _, _, _, _, _, _, _, _, _, _, _, _, _, _, _, _, _, _, _, _, _, _, _, hm, _⟩ :=
          parseServerHello_inv h
        exact ⟨a, b, c, by subst hm; exact ht.symm⟩
      · cases h

/-! ### the record header -/

theorem parseNum1 (bs : Bytes) : parseNum .network 1 bs =
    if bs.length < 1 then .error (.notEnough ((1 - bs.length : Nat) : Int)) else .ok ((bs.getD 0 0).toNat, 1) := by
  cases bs with
  | nil => simp [parseNum]
  | cons a r => simp [parseNum, validSize, decNat, ByteOrder.isBig, beVal, leVal]

theorem getD_drop (bs : Bytes) (i j : Nat) : (bs.drop i).getD j 0 = bs.getD (i + j) 0 := by
  simp [List.getD_eq_getElem?_getD, List.getElem?_drop]

/-- `SslRecord._parse` up to the length check, in closed form -/
theorem parseHeader_eq (bs : Bytes) : parseHeader bs =
    if bs.length < 2 then .error (.notEnough 1)
    else if (bs.getD 0 0).toNat &&& 0x80 != 0 then .ok (2, declaredLength bs, 0)
    else if bs.length < 3 then .error (.notEnough 1)
    else .ok (3, declaredLength bs, declaredPadding bs) := by
  unfold parseHeader declaredLength declaredPadding
  simp only [parseNum1, List.length_drop, getD_drop]
  match bs with
  | [] => simp
  | [a] => simp
  | [a, b] => simp; split <;> rfl
  | a :: b :: c :: r =>
    have h2 : ¬ (r.length + 1 + 1 + 1 < 2) := by omega
    have h3 : ¬ (r.length + 1 + 1 + 1 < 3) := by omega
    simp
    split <;> simp <;> omega

theorem parseHeader_ok_inv {bs : Bytes} {hdr recLen padLen : Nat} (h : parseHeader bs = .ok (hdr, recLen, padLen)) :
    hdr = headerSize bs ∧ recLen = declaredLength bs ∧ padLen = declaredPadding bs ∧ hdr ≤ bs.length ∧
      (hdr = 2 ∨ hdr = 3) := by
  rw [parseHeader_eq] at h
  split at h
  · cases h
  · split at h
    · next hl hm =>
      simp only [Except.ok.injEq, Prod.mk.injEq] at h
      obtain ⟨h1, h2, h3⟩ := h
      refine ⟨?_, h2.symm, ?_, by omega, Or.inl h1.symm⟩
      · simp only [headerSize, hm, if_true]; exact h1.symm
      · simp only [declaredPadding, hm, if_true]; exact h3.symm
    · next hl hm =>
      split at h
      · cases h
      · simp only [Except.ok.injEq, Prod.mk.injEq] at h
        obtain ⟨h1, h2, h3⟩ := h
        refine ⟨?_, h2.symm, h3.symm, by omega, Or.inr h1.symm⟩
        simp only [headerSize, hm, Bool.false_eq_true, if_false]; exact h1.symm

theorem parseHeader_no_crash (bs : Bytes) (k : String) : parseHeader bs ≠ .error (.crash k) := by
  rw [parseHeader_eq]
  split
  · simp
  · split
    · simp
    · split <;> simp

theorem bits_msb : ∀ x : Fin 256, (x.val &&& 0x80 != 0) = decide (128 ≤ x.val) := by decide +kernel
theorem bits_7f : ∀ x : Fin 256, x.val &&& 0x7f = x.val % 128 := by decide +kernel
theorem bits_3f : ∀ x : Fin 256, x.val &&& 0x3f = x.val % 64 := by decide +kernel

/-- `body_length | 2**15` is `2**15 + body_length` below the guard -/
theorem or_2_15 {L : Nat} (h : L < 2 ^ 15) : L ||| 2 ^ 15 = 2 ^ 15 + L := by
  have := Nat.two_pow_add_eq_or_of_lt h 1
  rw [Nat.or_comm]
  simpa using this.symm

theorem ofNat_toNat (v : Nat) (h : v < 256) : (UInt8.ofNat v).toNat = v := by
  simp [UInt8.toNat_ofNat', Nat.mod_eq_of_lt h]

theorem parseHeader_cons2 (a b : UInt8) (rest : Bytes) (h : 128 ≤ a.toNat) :
    parseHeader (a :: b :: rest) = .ok (2, (a.toNat % 128) * 256 + b.toNat, 0) := by
  have m1 := bits_msb ⟨a.toNat, a.toNat_lt⟩
  have m2 := bits_7f ⟨a.toNat, a.toNat_lt⟩
  simp only at m1 m2
  rw [parseHeader_eq]
  have hl : ¬ ((a :: b :: rest).length < 2) := by simp
  simp only [hl, if_false, declaredLength, List.getD_cons_zero, List.getD_cons_succ, m1, m2, h, decide_true, if_true,
    Nat.reducePow]

theorem parseHeader_cons3 (a b c : UInt8) (rest : Bytes) (h : a.toNat < 128) :
    parseHeader (a :: b :: c :: rest) = .ok (3, (a.toNat % 64) * 256 + b.toNat, c.toNat) := by
  have m1 := bits_msb ⟨a.toNat, a.toNat_lt⟩
  have m3 := bits_3f ⟨a.toNat, a.toNat_lt⟩
  simp only at m1 m3
  rw [parseHeader_eq]
  have hl2 : ¬ ((a :: b :: c :: rest).length < 2) := by simp
  have hl3 : ¬ ((a :: b :: c :: rest).length < 3) := by simp
  have hn : ¬ (128 ≤ a.toNat) := by omega
  simp only [hl2, hl3, if_false, declaredLength, declaredPadding, List.getD_cons_zero, List.getD_cons_succ, m1, m3, hn,
    decide_false, Bool.false_eq_true, Nat.reducePow]

/-- the 2-byte header in front of anything: MSB set, fifteen bits of length -/
theorem parseHeader_two {L : Nat} (h : L < 2 ^ 15) (rest : Bytes) :
    parseHeader (encNat .network 2 (L ||| 2 ^ 15) ++ rest) = .ok (2, L, 0) := by
  rw [or_2_15 h, encNat_network_two]
  have e0 : (2 ^ 15 + L) / 256 % 256 = 128 + L / 256 := by omega
  have e1 : (2 ^ 15 + L) % 256 = L % 256 := by omega
  have q : 128 + L / 256 < 256 := by omega
  simp only [List.cons_append, List.nil_append]
  rw [parseHeader_cons2 _ _ _ (by rw [e0, ofNat_toNat _ q]; omega), e0, e1, ofNat_toNat _ q,
    ofNat_toNat (L % 256) (by omega)]
  congr 3
  omega

/-- the 3-byte header in front of anything: MSB clear, the is-escape bit ignored, fourteen bits of
length, one byte of padding length -/
theorem parseHeader_three {L p : Nat} (esc : Bool) (h : L < 2 ^ 14) (hp : p < 256) (rest : Bytes) :
    parseHeader (encNat .network 2 ((if esc then 0x4000 else 0) + L) ++ (encNat .network 1 p ++ rest)) =
      .ok (3, L, p) := by
  rw [encNat_network_two, encNat_network_one]
  have e0 : ((if esc then 0x4000 else 0) + L) / 256 % 256 = (if esc then 64 else 0) + L / 256 := by
    cases esc <;> simp <;> omega
  have e1 : ((if esc then 0x4000 else 0) + L) % 256 = L % 256 := by cases esc <;> simp; omega
  have q : (if esc then 64 else 0) + L / 256 < 128 := by cases esc <;> simp <;> omega
  simp only [List.cons_append, List.nil_append]
  rw [parseHeader_cons3 _ _ _ _ (by rw [e0, ofNat_toNat _ (by omega)]; exact q), e0, e1, ofNat_toNat _ (by omega),
    ofNat_toNat (L % 256) (by omega), ofNat_toNat (p % 256) (by omega), Nat.mod_eq_of_lt hp]
  congr 3
  cases esc <;> simp <;> omega

/-! ### the record body -/

theorem parseBody_enc {m : Msg} (hm : m.wf) (pre pad s : Bytes) :
    parseBody pre.length pad.length (pre ++ (encNat .network 1 m.type ++ (encMsg m ++ (pad ++ s)))) =
      .ok (⟨m⟩, pre.length + 1 + m.size + pad.length) := by
  have ht : m.type < 256 ^ 1 := messageType_fits _ (type_member m)
  have a0 : parseIntEnum Gen.SslMessageType.memberCodes 1
      ((pre ++ (encNat .network 1 m.type ++ (encMsg m ++ (pad ++ s)))).drop pre.length) = .ok (m.type, 1) :=
    parseIntEnum_of_num (parseNum_at rfl ht pre _ rfl) (type_member m)
  have a1 : parseMsg m.type ((pre ++ (encNat .network 1 m.type ++ (encMsg m ++ (pad ++ s)))).drop (pre.length + 1)) =
      .ok (m, m.size) := by
    rw [← List.append_assoc, drop_app _ _ _ (by simp)]
    exact parseMsg_enc hm _
  have a2 : parseRaw (pad.length : Int)
      ((pre ++ (encNat .network 1 m.type ++ (encMsg m ++ (pad ++ s)))).drop (pre.length + 1 + m.size)) =
      .ok (pad, pad.length) := by
    have : pre ++ (encNat .network 1 m.type ++ (encMsg m ++ (pad ++ s))) =
        (pre ++ encNat .network 1 m.type ++ encMsg m) ++ (pad ++ s) := by simp [List.append_assoc]
    rw [this, drop_app _ _ _ (by simp [encMsg_length]; omega)]
    exact parseRaw_nat_append pad s
  unfold parseBody
  simp only [a0, a1, a2]

theorem parseBody_inv {hdr padLen : Nat} {bs : Bytes} {r : Record} {n : Nat}
    (h : parseBody hdr padLen bs = .ok (r, n)) :
    ∃ t nt k pd np, parseIntEnum Gen.SslMessageType.memberCodes 1 (bs.drop hdr) = .ok (t, nt) ∧
      parseMsg t (bs.drop (hdr + 1)) = .ok (r.message, k) ∧
      parseRaw (padLen : Int) (bs.drop (hdr + 1 + k)) = .ok (pd, np) ∧ n = hdr + 1 + k + padLen := by
  unfold parseBody at h
  cases h0 : parseIntEnum Gen.SslMessageType.memberCodes 1 (bs.drop hdr) with
  | error e => simp only [h0, reduceCtorEq] at h
  | ok r0 =>
  obtain ⟨t, nt⟩ := r0
  cases h1 : parseMsg t (bs.drop (hdr + 1)) with
  | error e => simp only [h0, h1, reduceCtorEq] at h
  | ok r1 =>
  obtain ⟨m, k⟩ := r1
  cases h2 : parseRaw (padLen : Int) (bs.drop (hdr + 1 + k)) with
  | error e => simp only [h0, h1, h2, reduceCtorEq] at h
  | ok r2 =>
  obtain ⟨pd, np⟩ := r2
  simp only [h0, h1, h2, Except.ok.injEq, Prod.mk.injEq] at h
  obtain ⟨hr, hn⟩ := h
  subst hr
  obtain ⟨e, _⟩ := parseRaw_nat_inv h2
  exact ⟨t, nt, k, pd, np, rfl, h1, h2, by omega⟩

theorem parseRecord_inv {bs : Bytes} {r : Record} {n : Nat} (h : parseRecord bs = .ok (r, n)) :
    parseHeader bs = .ok (headerSize bs, declaredLength bs, declaredPadding bs) ∧
      declaredLength bs ≤ bs.length - headerSize bs ∧
      parseBody (headerSize bs) (declaredPadding bs) bs = .ok (r, n) := by
  unfold parseRecord at h
  cases hh : parseHeader bs with
  | error e => simp only [hh, reduceCtorEq] at h
  | ok x =>
    obtain ⟨hdr, recLen, padLen⟩ := x
    obtain ⟨e1, e2, e3, _⟩ := parseHeader_ok_inv hh
    subst e1; subst e2; subst e3
    simp only [hh] at h
    split at h
    · cases h
    · next hle => exact ⟨rfl, by omega, h⟩

/-- everything an accepted input determines: the message is constructible, and the consumed length
is header + type byte + the message's own length + the padding length (NOT header + record_length) -/
theorem record_consumed {bs : Bytes} {r : Record} {n : Nat} (h : parseRecord bs = .ok (r, n)) :
    r.message.wf ∧ n = headerSize bs + 1 + r.message.size + declaredPadding bs ∧ n ≤ bs.length ∧
      declaredLength bs ≤ bs.length - headerSize bs := by
  obtain ⟨hh, hle, hb⟩ := parseRecord_inv h
  obtain ⟨t, nt, k, pd, np, h0, h1, h2, hn⟩ := parseBody_inv hb
  obtain ⟨hw, hk, hkl, _⟩ := parseMsg_wf h1
  obtain ⟨hnum, _⟩ := parseIntEnum_ok_inv h0
  obtain ⟨_, l0, _⟩ := parseNum_ok_inv hnum
  obtain ⟨_, l2, _⟩ := parseRaw_nat_inv h2
  simp only [List.length_drop] at l0 hkl l2
  exact ⟨hw, by omega, by omega, hle⟩

/-! ### composing a record -/

/-- the record a well-formed value is composed to -/
def encRecord (r : Record) : Bytes :=
  encNat .network 2 ((1 + r.message.size) ||| 2 ^ 15) ++ (encNat .network 1 r.message.type ++ encMsg r.message)

theorem encRecord_length (r : Record) : (encRecord r).length = 3 + r.message.size := by
  simp [encRecord, encMsg_length]; omega

theorem composeRecord_ok {r : Record} (h : r.wf) : composeRecord r = .ok (encRecord r) := by
  obtain ⟨hm, hs⟩ := h
  have ht : r.message.type < 256 ^ 1 := messageType_fits _ (type_member _)
  have hlt : 1 + r.message.size < 2 ^ 15 := by omega
  have hfit : (1 + r.message.size) ||| 2 ^ 15 < 256 ^ 2 := by rw [or_2_15 hlt]; omega
  have hlen : (encNat ByteOrder.network 1 r.message.type).length + (encMsg r.message).length = 1 + r.message.size := by
    simp [encMsg_length]
  have hg2 : ¬ (1 + r.message.size ≥ 2 ^ 15) := by omega
  unfold composeRecord
  simp only [composeNum_ok (k := 1) rfl ht, composeMsg_ok hm, bind, Except.bind, hg2, if_false, hlen,
    composeNum_ok (k := 2) rfl hfit, pure, Except.pure, encRecord]

/-- the guard: a body of 2^15 bytes or more is refused -/
theorem composeRecord_guard {r : Record} (hm : r.message.wf) (hs : 32768 ≤ 1 + r.message.size) :
    composeRecord r = .error .invalidValue := by
  have ht : r.message.type < 256 ^ 1 := messageType_fits _ (type_member _)
  have hguard : (encNat ByteOrder.network 1 r.message.type).length + (encMsg r.message).length ≥ 2 ^ 15 := by
    simp [encMsg_length]; omega
  unfold composeRecord
  simp only [composeNum_ok (k := 1) rfl ht, composeMsg_ok hm, bind, Except.bind, hguard, if_true]

/-- whatever `SslRecord.compose` returns is a 2-byte header `2^15 + |body|` in front of a body of
fewer than 2^15 bytes — for EVERY record, constructible or not: never a header that wrapped around -/
theorem composeRecord_shape {r : Record} {b : Bytes} (h : composeRecord r = .ok b) :
    ∃ body, b = encNat .network 2 (2 ^ 15 + body.length) ++ body ∧ body.length < 2 ^ 15 := by
  unfold composeRecord at h
  cases h1 : composeNum .network 1 ((r.message.type : Nat) : Int) with
  | error e => simp [h1, bind, Except.bind] at h
  | ok t =>
    cases h2 : composeMsg r.message with
    | error e => simp [h1, h2, bind, Except.bind] at h
    | ok m =>
      simp only [h1, h2, bind, Except.bind] at h
      split at h
      · cases h
      · next hg =>
        have hlt : t.length + m.length < 2 ^ 15 := by omega
        have hfit : (t.length + m.length) ||| 2 ^ 15 < 256 ^ 2 := by rw [or_2_15 hlt]; omega
        rw [composeNum_ok (k := 2) rfl hfit] at h
        simp only [pure, Except.pure, Except.ok.injEq] at h
        refine ⟨t ++ m, ?_, by simpa using hlt⟩
        rw [← h, or_2_15 hlt]
        simp

/-! ### parsing framed messages: the header may declare ANY length that is available -/

theorem parseRecord_frame2 {m : Msg} (hm : m.wf) {L : Nat} (hL : L < 2 ^ 15) (s : Bytes)
    (hav : L ≤ 1 + m.size + s.length) :
    parseRecord (encNat .network 2 (L ||| 2 ^ 15) ++ (encNat .network 1 m.type ++ (encMsg m ++ s))) =
      .ok (⟨m⟩, 3 + m.size) := by
  unfold parseRecord
  rw [parseHeader_two hL]
  have hlen : (encNat .network 2 (L ||| 2 ^ 15) ++ (encNat .network 1 m.type ++ (encMsg m ++ s))).length =
      3 + m.size + s.length := by simp [encMsg_length]; omega
  have hc : ¬ (L > (encNat .network 2 (L ||| 2 ^ 15) ++ (encNat .network 1 m.type ++ (encMsg m ++ s))).length - 2) := by
    rw [hlen]; omega
  simp only [hc, if_false]
  have := parseBody_enc hm (encNat .network 2 (L ||| 2 ^ 15)) [] s
  simp only [encNat_length, List.length_nil, List.nil_append, Nat.add_zero] at this
  rw [this]

theorem parseRecord_frame3 {m : Msg} (hm : m.wf) (esc : Bool) {L : Nat} (hL : L < 2 ^ 14) (pad s : Bytes)
    (hp : pad.length < 256) (hav : L ≤ 1 + m.size + pad.length + s.length) :
    parseRecord (encNat .network 2 ((if esc then 0x4000 else 0) + L) ++ (encNat .network 1 pad.length ++
        (encNat .network 1 m.type ++ (encMsg m ++ (pad ++ s))))) = .ok (⟨m⟩, 4 + m.size + pad.length) := by
  unfold parseRecord
  rw [parseHeader_three esc hL hp]
  have hlen : (encNat .network 2 ((if esc then 0x4000 else 0) + L) ++ (encNat .network 1 pad.length ++
        (encNat .network 1 m.type ++ (encMsg m ++ (pad ++ s))))).length = 4 + m.size + pad.length + s.length := by
    simp [encMsg_length]; omega
  have hc : ¬ (L > (encNat .network 2 ((if esc then 0x4000 else 0) + L) ++ (encNat .network 1 pad.length ++
        (encNat .network 1 m.type ++ (encMsg m ++ (pad ++ s))))).length - 3) := by
    rw [hlen]; omega
  simp only [hc, if_false]
  have := parseBody_enc hm (encNat .network 2 ((if esc then 0x4000 else 0) + L) ++ encNat .network 1 pad.length) pad s
  simp only [List.length_append, encNat_length, List.append_assoc] at this
  rw [this]

/-! ### C01 -/

theorem record_roundTrip : RoundTrip recordCodec Record.wf := by
  intro r hr
  refine ⟨encRecord r, composeRecord_ok hr, ?_⟩
  intro s
  have := parseRecord_frame2 hr.1 (L := 1 + r.message.size) (by have := hr.2; omega) s (by omega)
  show parseRecord (encRecord r ++ s) = _
  rw [encRecord_length]
  simp only [encRecord, List.append_assoc]
  exact this

theorem record_roundTrip_explicit (r : Record) (h : r.wf) :
    composeRecord r = .ok (encRecord r) ∧ ∀ s, parseRecord (encRecord r ++ s) = .ok (r, (encRecord r).length) := by
  obtain ⟨b, hb, hbb⟩ := record_roundTrip r h
  have hb' : composeRecord r = .ok b := hb
  rw [composeRecord_ok h] at hb'; cases hb'
  exact ⟨composeRecord_ok h, hbb⟩

theorem error_roundTrip : RoundTrip errorCodec (fun m => m.wf ∧ m.type = 0) := by
  intro m ⟨hw, ht⟩
  refine ⟨encMsg m, composeMsg_ok hw, fun s => ?_⟩
  have := parseMsg_enc hw s
  rw [ht] at this
  rw [encMsg_length]
  simpa [parseMsg, errorCodec] using this

theorem clientHello_roundTrip : RoundTrip clientHelloCodec (fun m => m.wf ∧ m.type = 1) := by
  intro m ⟨hw, ht⟩
  refine ⟨encMsg m, composeMsg_ok hw, fun s => ?_⟩
  have := parseMsg_enc hw s
  rw [ht] at this
  rw [encMsg_length]
  simpa [parseMsg, clientHelloCodec] using this

theorem serverHello_roundTrip : RoundTrip serverHelloCodec (fun m => m.wf ∧ m.type = 4) := by
  intro m ⟨hw, ht⟩
  refine ⟨encMsg m, composeMsg_ok hw, fun s => ?_⟩
  have := parseMsg_enc hw s
  rw [ht] at this
  rw [encMsg_length]
  simpa [parseMsg, serverHelloCodec] using this

/-! ### C02: no crash -/

theorem parseError_noCrash (bs : Bytes) (k : String) : parseError bs ≠ .error (.crash k) := by
  unfold parseError
  cases hp : parseIntEnum Gen.SslErrorType.memberCodes 2 bs with
  | error e => simp only; intro h; cases h; exact intEnum_noCrash _ (k := 2) rfl bs k hp
  | ok r => simp

theorem parseVersion_no_crash (bs : Bytes) (k : String) : parseVersion bs ≠ .error (.crash k) :=
  version_noCrash bs k

theorem parseClientHello_noCrash (bs : Bytes) (k : String) : parseClientHello bs ≠ .error (.crash k) := by
  unfold parseClientHello
  cases hv : parseVersion bs with
  | error e => simp only; intro h; cases h; exact parseVersion_no_crash _ k hv
  | ok r0 =>
  cases h1 : parseNum .network 2 (bs.drop 2) with
  | error e => simp only; intro h; cases h; exact parseNum_no_crash rfl _ k h1
  | ok r1 =>
  cases h2 : parseNum .network 2 (bs.drop 4) with
  | error e => simp only; intro h; cases h; exact parseNum_no_crash rfl _ k h2
  | ok r2 =>
  cases h3 : parseNum .network 2 (bs.drop 6) with
  | error e => simp only; intro h; cases h; exact parseNum_no_crash rfl _ k h3
  | ok r3 =>
  cases h4 : parseKinds r1.1 (bs.drop 8) with
  | error e => simp only [h4]; intro h; cases h; exact parseKinds_no_crash _ _ k h4
  | ok r4 =>
  cases h5 : parseRaw (r2.1 : Int) (bs.drop (8 + r1.1)) with
  | error e => simp only [h4, h5]; intro h; cases h; exact parseRaw_no_crash _ _ k h5
  | ok r5 =>
  cases h6 : parseRaw (r3.1 : Int) (bs.drop (8 + r1.1 + r2.1)) with
  | error e => simp only [h4, h5, h6]; intro h; cases h; exact parseRaw_no_crash _ _ k h6
  | ok r6 => simp [h4, h5, h6]

theorem parseServerHello_noCrash (bs : Bytes) (k : String) : parseServerHello bs ≠ .error (.crash k) := by
  unfold parseServerHello
  cases h0 : parseNum .network 1 bs with
  | error e => simp only; intro h; cases h; exact parseNum_no_crash rfl _ k h0
  | ok r0 =>
  cases hc : parseIntEnum Gen.SslCertificateType.memberCodes 1 (bs.drop 1) with
  | error e => simp only; intro h; cases h; exact intEnum_noCrash _ (k := 1) rfl _ k hc
  | ok rc =>
  cases hv : parseVersion (bs.drop 2) with
  | error e => simp only; intro h; cases h; exact parseVersion_no_crash _ k hv
  | ok rv =>
  cases h1 : parseNum .network 2 (bs.drop 4) with
  | error e => simp only; intro h; cases h; exact parseNum_no_crash rfl _ k h1
  | ok r1 =>
  cases h2 : parseNum .network 2 (bs.drop 6) with
  | error e => simp only; intro h; cases h; exact parseNum_no_crash rfl _ k h2
  | ok r2 =>
  cases h3 : parseNum .network 2 (bs.drop 8) with
  | error e => simp only; intro h; cases h; exact parseNum_no_crash rfl _ k h3
  | ok r3 =>
  cases h4 : parseRaw (r1.1 : Int) (bs.drop 10) with
  | error e => simp only [h4]; intro h; cases h; exact parseRaw_no_crash _ _ k h4
  | ok r4 =>
  cases h5 : parseKinds r2.1 (bs.drop (10 + r1.1)) with
  | error e => simp only [h4, h5]; intro h; cases h; exact parseKinds_no_crash _ _ k h5
  | ok r5 =>
  cases h6 : parseRaw (r3.1 : Int) (bs.drop (10 + r1.1 + r2.1)) with
  | error e => simp only [h4, h5, h6]; intro h; cases h; exact parseRaw_no_crash _ _ k h6
  | ok r6 => simp [h4, h5, h6]

theorem parseMsg_noCrash (t : Nat) (bs : Bytes) (k : String) : parseMsg t bs ≠ .error (.crash k) := by
  unfold parseMsg
  split
  · exact parseError_noCrash bs k
  · split
    · exact parseClientHello_noCrash bs k
    · split
      · exact parseServerHello_noCrash bs k
      · simp

theorem parseBody_noCrash (hdr padLen : Nat) (bs : Bytes) (k : String) :
    parseBody hdr padLen bs ≠ .error (.crash k) := by
  unfold parseBody
  cases h0 : parseIntEnum Gen.SslMessageType.memberCodes 1 (bs.drop hdr) with
  | error e => simp only; intro h; cases h; exact intEnum_noCrash _ (k := 1) rfl _ k h0
  | ok r0 =>
  cases h1 : parseMsg r0.1 (bs.drop (hdr + 1)) with
  | error e => simp only [h1]; intro h; cases h; exact parseMsg_noCrash _ _ k h1
  | ok r1 =>
  cases h2 : parseRaw (padLen : Int) (bs.drop (hdr + 1 + r1.2)) with
  | error e => simp only [h1, h2]; intro h; cases h; exact parseRaw_no_crash _ _ k h2
  | ok r2 => simp [h1, h2]

theorem record_noCrash : NoCrash recordCodec := by
  intro bs k
  show parseRecord bs ≠ _
  unfold parseRecord
  cases hh : parseHeader bs with
  | error e => simp only; intro h; cases h; exact parseHeader_no_crash bs k hh
  | ok x =>
    obtain ⟨hdr, recLen, padLen⟩ := x
    simp only
    split
    · simp
    · exact parseBody_noCrash _ _ _ k

/-! ### C03: consumed length -/

theorem record_lenBound : LenBound recordCodec := fun _ _ _ h => (record_consumed h).2.2.1

theorem record_positive : Positive recordCodec := by
  intro bs r n h
  have := (record_consumed h).2.1
  omega

/-- the consumed length in terms of what the header declares: equal exactly when the message and
the padding fill the declared record length -/
theorem record_declared_iff {bs : Bytes} {r : Record} {n : Nat} (h : parseRecord bs = .ok (r, n)) :
    n = headerSize bs + declaredLength bs ↔ 1 + r.message.size + declaredPadding bs = declaredLength bs := by
  have := (record_consumed h).2.1
  omega

/-! #### inputs that agree on a prefix -/

/-- `x` and `y` have the same first `k` bytes (and at least `k` bytes) -/
def Agree (k : Nat) (x y : Bytes) : Prop := x.take k = y.take k ∧ k ≤ x.length ∧ k ≤ y.length

theorem Agree.mono {j k : Nat} {x y : Bytes} (h : Agree k x y) (hj : j ≤ k) : Agree j x y := by
  obtain ⟨h1, h2, h3⟩ := h
  refine ⟨?_, by omega, by omega⟩
  have := congrArg (List.take j) h1
  simpa [List.take_take, Nat.min_eq_left hj] using this

theorem Agree.drop {k : Nat} {x y : Bytes} (h : Agree k x y) (off j : Nat) (hj : off + j ≤ k) :
    Agree j (x.drop off) (y.drop off) := by
  obtain ⟨h1, h2, h3⟩ := h.mono hj
  refine ⟨?_, by simp; omega, by simp; omega⟩
  rw [List.take_drop, List.take_drop, h1]

theorem agree_take (bs : Bytes) (n : Nat) (s : Bytes) (hn : n ≤ bs.length) : Agree n bs (bs.take n ++ s) := by
  refine ⟨?_, hn, by simp; omega⟩
  rw [List.take_append_of_le_length (by simp; omega), List.take_take, Nat.min_self]

theorem parseNum_agree {bo : ByteOrder} {k : Nat} {x y : Bytes} (h : Agree k x y) :
    parseNum bo k y = parseNum bo k x := by
  obtain ⟨h1, h2, h3⟩ := h
  unfold parseNum
  have a : ¬ (x.length < k) := by omega
  have b : ¬ (y.length < k) := by omega
  simp only [a, b, if_false, h1]

theorem parseRaw_agree {size : Nat} {x y : Bytes} (h : Agree size x y) :
    parseRaw (size : Int) y = parseRaw (size : Int) x := by
  obtain ⟨h1, h2, h3⟩ := h
  unfold parseRaw
  have z : ¬ ((size : Int) < 0) := by omega
  have a : ¬ (x.length < size) := by omega
  have b : ¬ (y.length < size) := by omega
  simp only [z, if_false, Int.toNat_natCast, a, b, h1]

theorem parseKinds_agree {size : Nat} {x y : Bytes} (h : Agree size x y) :
    parseKinds size y = parseKinds size x := by
  obtain ⟨h1, h2, h3⟩ := h
  unfold parseKinds
  have a : ¬ (size > x.length) := by omega
  have b : ¬ (size > y.length) := by omega
  simp only [a, b, if_false, h1]

theorem parseCoded_agree {codes : List Nat} {k : Nat} {x y : Bytes} (h : Agree k x y) :
    parseCoded codes k y = parseCoded codes k x := by
  unfold parseCoded
  rw [parseNum_agree h]

theorem parseIntEnum_agree {members : List Nat} {k : Nat} {x y : Bytes} (h : Agree k x y) :
    parseIntEnum members k y = parseIntEnum members k x := by
  unfold parseIntEnum
  rw [parseNum_agree h]

theorem parseError_agree {x y : Bytes} {m : Msg} {n : Nat} (h : parseError x = .ok (m, n)) (ha : Agree n x y) :
    parseError y = .ok (m, n) := by
  obtain ⟨c, hp, hm⟩ := parseError_inv h
  have hn := (parseNum_ok_inv (parseIntEnum_ok_inv hp).1).1
  rw [← h]
  unfold parseError
  rw [parseIntEnum_agree (hn ▸ ha)]

theorem parseClientHello_agree {x y : Bytes} {m : Msg} {n : Nat} (h : parseClientHello x = .ok (m, n))
    (ha : Agree n x y) : parseClientHello y = .ok (m, n) := by
  obtain ⟨vi, n0, ckLen, n1, sidLen, n2, chLen, n3, n4, n5, n6, kinds, sid, ch, hv, h1, h2, h3, h4, h5, h6, hm, hn⟩ :=
    parseClientHello_inv h
  subst hn
  have ev : parseVersion y = parseVersion x := parseCoded_agree (ha.mono (by omega))
  have e1 := parseNum_agree (bo := .network) (ha.drop 2 2 (by omega))
  have e2 := parseNum_agree (bo := .network) (ha.drop 4 2 (by omega))
  have e3 := parseNum_agree (bo := .network) (ha.drop 6 2 (by omega))
  have e4 := parseKinds_agree (ha.drop 8 ckLen (by omega))
  have e5 := parseRaw_agree (ha.drop (8 + ckLen) sidLen (by omega))
  have e6 := parseRaw_agree (ha.drop (8 + ckLen + sidLen) chLen (by omega))
  rw [← h]
  unfold parseClientHello
  simp only [ev, e1, e2, e3, hv, h1, h2, h3, e4, h4, e5, h5, e6]

theorem parseServerHello_agree {x y : Bytes} {m : Msg} {n : Nat} (h : parseServerHello x = .ok (m, n))
    (ha : Agree n x y) : parseServerHello y = .ok (m, n) := by
  obtain ⟨hit, n0, ct, nc, vi, nv, certLen, n1, ckLen, n2, cidLen, n3, n4, n5, n6, cert, kinds, cid,
    h0, hc, hv, h1, h2, h3, h4, h5, h6, hm, hn⟩ := parseServerHello_inv h
  subst hn
  have e0 := parseNum_agree (bo := .network) (k := 1) (ha.mono (by omega))
  have ec : parseIntEnum Gen.SslCertificateType.memberCodes 1 (y.drop 1) = _ :=
    parseIntEnum_agree (ha.drop 1 1 (by omega))
  have ev : parseVersion (y.drop 2) = parseVersion (x.drop 2) := parseCoded_agree (ha.drop 2 2 (by omega))
  have e1 := parseNum_agree (bo := .network) (ha.drop 4 2 (by omega))
  have e2 := parseNum_agree (bo := .network) (ha.drop 6 2 (by omega))
  have e3 := parseNum_agree (bo := .network) (ha.drop 8 2 (by omega))
  have e4 := parseRaw_agree (ha.drop 10 certLen (by omega))
  have e5 := parseKinds_agree (ha.drop (10 + certLen) ckLen (by omega))
  have e6 := parseRaw_agree (ha.drop (10 + certLen + ckLen) cidLen (by omega))
  rw [← h]
  unfold parseServerHello
  simp only [e0, ec, ev, e1, e2, e3, h0, hc, hv, h1, h2, h3, e4, h4, e5, h5, e6]

/-- the message parsers are self-delimiting: the result depends on the consumed bytes only -/
theorem parseMsg_agree {t : Nat} {x y : Bytes} {m : Msg} {n : Nat} (h : parseMsg t x = .ok (m, n))
    (ha : Agree n x y) : parseMsg t y = .ok (m, n) := by
  unfold parseMsg at h ⊢
  split
  · next ht => simp only [ht, if_true] at h; exact parseError_agree h ha
  · next ht0 =>
    simp only [ht0, if_false] at h
    split
    · next ht => simp only [ht, if_true] at h; exact parseClientHello_agree h ha
    · next ht1 =>
      simp only [ht1, if_false] at h
      split
      · next ht => simp only [ht, if_true] at h; exact parseServerHello_agree h ha
      · next ht4 => simp only [ht4, if_false, reduceCtorEq] at h

theorem getD_agree {k : Nat} {x y : Bytes} (h : Agree k x y) {i : Nat} (hi : i < k) : y.getD i 0 = x.getD i 0 := by
  have e : ∀ z : Bytes, (z.take k).getD i 0 = z.getD i 0 := by
    intro z; simp [List.getD_eq_getElem?_getD, hi]
  rw [← e y, ← e x, h.1]

theorem parseHeader_agree {x y : Bytes} {hdr recLen padLen : Nat} (h : parseHeader x = .ok (hdr, recLen, padLen))
    (ha : Agree hdr x y) : parseHeader y = .ok (hdr, recLen, padLen) := by
  obtain ⟨e1, e2, e3, hl, hc⟩ := parseHeader_ok_inv h
  rw [← h, parseHeader_eq, parseHeader_eq]
  have g0 : y.getD 0 0 = x.getD 0 0 := getD_agree ha (by omega)
  have g1 : y.getD 1 0 = x.getD 1 0 := getD_agree ha (by omega)
  have ly := ha.2.2
  have a2 : ¬ (x.length < 2) := by omega
  have b2 : ¬ (y.length < 2) := by omega
  simp only [a2, b2, if_false, declaredLength, declaredPadding, g0, g1]
  split
  · rfl
  · next hm =>
    have h3 : hdr = 3 := by
      simp only [headerSize, hm, Bool.false_eq_true, if_false] at e1; exact e1
    have g2 : y.getD 2 0 = x.getD 2 0 := getD_agree ha (by omega)
    have a3 : ¬ (x.length < 3) := by omega
    have b3 : ¬ (y.length < 3) := by omega
    simp only [a3, b3, if_false, g2]

/-- SelfDelim for the record holds whenever the declared length does not exceed what was consumed -/
theorem record_selfDelim_of_declared_le {bs : Bytes} {r : Record} {n : Nat} (h : parseRecord bs = .ok (r, n))
    (hd : headerSize bs + declaredLength bs ≤ n) (s : Bytes) : parseRecord (bs.take n ++ s) = .ok (r, n) := by
  obtain ⟨hh, hle, hb⟩ := parseRecord_inv h
  obtain ⟨hw, hn, hnl, _⟩ := record_consumed h
  have ha : Agree n bs (bs.take n ++ s) := agree_take bs n s hnl
  obtain ⟨t, nt, k, pd, np, h0, h1, h2, hn'⟩ := parseBody_inv hb
  have hk : k = r.message.size := (parseMsg_wf h1).2.1
  have hy := parseHeader_agree hh (ha.mono (by omega))
  have a0 := parseIntEnum_agree (members := Gen.SslMessageType.memberCodes) (ha.drop (headerSize bs) 1 (by omega))
  have a1 := parseMsg_agree h1 (ha.drop (headerSize bs + 1) k (by omega))
  have a2 := parseRaw_agree (ha.drop (headerSize bs + 1 + k) (declaredPadding bs) (by omega))
  have hlen : (bs.take n ++ s).length = n + s.length := by simp; omega
  have hc : ¬ (declaredLength bs > (bs.take n ++ s).length - headerSize bs) := by rw [hlen]; omega
  unfold parseRecord
  simp only [hy, hc, if_false]
  unfold parseBody
  simp only [a0, h0, a1, a2, h2]
  have hnp : np = declaredPadding bs := (parseRaw_nat_inv h2).1
  rw [hn', hnp]

/-! ### C04: prefixes of a composed record -/

theorem take_append_nil (b : Bytes) (j : Nat) : b.take j ++ [] = b.take j := List.append_nil _

theorem record_prefixReject : PrefixReject recordCodec Record.wf := by
  intro r b hr hc j hj
  have hc' : composeRecord r = .ok b := hc
  rw [composeRecord_ok hr] at hc'
  cases hc'
  rw [encRecord_length] at hj ⊢
  show ∃ m : Nat, parseRecord ((encRecord r).take j) = _ ∧ _
  have hlen : ((encRecord r).take j).length = j := by simp [encRecord_length]; omega
  by_cases hj2 : j < 2
  · refine ⟨1, ?_, by omega, by omega⟩
    unfold parseRecord
    rw [parseHeader_eq]
    have : ((encRecord r).take j).length < 2 := by omega
    simp only [this, if_true]
    rfl
  · have hL : 1 + r.message.size < 2 ^ 15 := by have := hr.2; omega
    have hh : parseHeader (encRecord r) = .ok (2, 1 + r.message.size, 0) := parseHeader_two hL _
    have ha : Agree 2 (encRecord r) ((encRecord r).take j ++ []) :=
      (agree_take _ j [] (by rw [encRecord_length]; omega)).mono (by omega)
    have hy := parseHeader_agree hh ha
    rw [take_append_nil] at hy
    refine ⟨1 + r.message.size - (j - 2), ?_, by omega, by omega⟩
    unfold parseRecord
    have hgt : 1 + r.message.size > j - 2 := by omega
    simp only [hy, hlen, hgt, if_true]

theorem record_nonempty : ∀ r b, Record.wf r → recordCodec.compose r = .ok b → 0 < b.length := by
  intro r b hr hc
  have hc' : composeRecord r = .ok b := hc
  rw [composeRecord_ok hr] at hc'
  cases hc'
  rw [encRecord_length]; omega

/-! ### C05: re-serialising an accepted input -/

theorem declaredLength_lt (bs : Bytes) : declaredLength bs < 2 ^ 15 := by
  unfold declaredLength
  have m7 := bits_7f ⟨(bs.getD 0 0).toNat, (bs.getD 0 0).toNat_lt⟩
  have m3 := bits_3f ⟨(bs.getD 0 0).toNat, (bs.getD 0 0).toNat_lt⟩
  have hb := (bs.getD 1 0).toNat_lt
  simp only at m7 m3
  split
  · rw [m7]; omega
  · rw [m3]; omega

/-- an accepted record whose body fits fifteen bits is composed again, and the composition parses
back to the same record and is stable -/
theorem record_canonical_of_fits {bs : Bytes} {r : Record} {n : Nat} (h : parseRecord bs = .ok (r, n))
    (hs : 1 + r.message.size < 32768) :
    ∃ b', composeRecord r = .ok b' ∧ parseRecord b' = .ok (r, b'.length) ∧
      ∀ r'' n'', parseRecord b' = .ok (r'', n'') → composeRecord r'' = .ok b' := by
  have hw : r.wf := ⟨(record_consumed h).1, hs⟩
  obtain ⟨b', hb, hbb⟩ := record_roundTrip r hw
  have hp : parseRecord b' = .ok (r, b'.length) := by have := hbb []; rwa [List.append_nil] at this
  refine ⟨b', hb, hp, ?_⟩
  intro r'' n'' h2
  rw [hp] at h2
  cases h2
  exact hb

/-! ### C06: the composer against the protocol text -/

def kindCode (i : Nat) : Nat := Gen.SslCipherKind.codes.getD i 0

/-- the message as the protocol text lays it out (type byte first) -/
def specMsg : Msg → Bytes
  | .error c => Spec.Ssl2.encodeError c
  | .clientHello kinds sid ch => Spec.Ssl2.encodeClientHello Spec.Ssl2.VERSION (kinds.map kindCode) sid ch
  | .serverHello cert kinds cid hit =>
    Spec.Ssl2.encodeServerHello hit Spec.Ssl2.CT_X509_CERTIFICATE Spec.Ssl2.VERSION cert (kinds.map kindCode) cid

theorem encKinds_is_spec (kinds : List Nat) :
    encKinds kinds = ((kinds.map kindCode).map Spec.Ssl2.u24).flatten := by
  simp only [encKinds, List.map_map]
  congr 1
  apply List.map_congr_left
  intro i _
  simp [Function.comp, kindCode, Spec.Ssl2.u24, enc_is_spec]

theorem version_is_spec : ([0, 2] : Bytes) = Spec.Ssl2.u16 Spec.Ssl2.VERSION := by decide

theorem typed_msg_is_spec (m : Msg) : encNat .network 1 m.type ++ encMsg m = specMsg m := by
  cases m with
  | error c =>
    simp only [Msg.type, encMsg, specMsg, Spec.Ssl2.encodeError, Spec.Ssl2.u8, Spec.Ssl2.u16, Spec.Ssl2.MSG_ERROR,
      enc_is_spec]
  | clientHello kinds sid ch =>
    simp only [Msg.type, encMsg, specMsg, Spec.Ssl2.encodeClientHello, Spec.Ssl2.u8, Spec.Ssl2.u16,
      Spec.Ssl2.MSG_CLIENT_HELLO, enc_is_spec, encKinds_is_spec, version_is_spec, List.length_map,
      List.append_assoc, Nat.mul_comm 3]
  | serverHello cert kinds cid hit =>
    simp only [Msg.type, encMsg, specMsg, Spec.Ssl2.encodeServerHello, Spec.Ssl2.u8, Spec.Ssl2.u16,
      Spec.Ssl2.MSG_SERVER_HELLO, Spec.Ssl2.CT_X509_CERTIFICATE, x509CertificateType, hitByte, enc_is_spec,
      encKinds_is_spec, version_is_spec, List.length_map, List.append_assoc, Nat.mul_comm 3]

theorem specMsg_length (m : Msg) : (specMsg m).length = 1 + m.size := by
  rw [← typed_msg_is_spec]; simp [encMsg_length]

theorem encRecord_is_spec {r : Record} (h : r.wf) : encRecord r = Spec.Ssl2.encodeRecord2 (specMsg r.message) := by
  have hL : 1 + r.message.size < 2 ^ 15 := by have := h.2; omega
  rw [encRecord, Spec.Ssl2.encodeRecord2, or_2_15 hL, typed_msg_is_spec, specMsg_length, Spec.Ssl2.u16,
    enc_is_spec]

/-- the header a composed record carries declares exactly the body that follows -/
theorem composed_header_declares_body {r : Record} (h : r.wf) (s : Bytes) :
    headerSize (encRecord r ++ s) = 2 ∧ declaredLength (encRecord r ++ s) = (specMsg r.message).length ∧
      declaredPadding (encRecord r ++ s) = 0 := by
  have hL : 1 + r.message.size < 2 ^ 15 := by have := h.2; omega
  have hh : parseHeader (encRecord r ++ s) = .ok (2, 1 + r.message.size, 0) := by
    simp only [encRecord, List.append_assoc]; exact parseHeader_two hL _
  obtain ⟨e1, e2, e3, _⟩ := parseHeader_ok_inv hh
  rw [specMsg_length]
  exact ⟨e1.symm, e2.symm, e3.symm⟩

/-- the 3-byte form of the protocol text (is-escape bit, padding) is decoded to the same message -/
theorem parse_spec_record3 {m : Msg} (hm : m.wf) (esc : Bool) (pad s : Bytes) (hp : pad.length < 256)
    (hL : (specMsg m).length + pad.length < 2 ^ 14) :
    parseRecord (Spec.Ssl2.encodeRecord3 esc (specMsg m) pad ++ s) = .ok (⟨m⟩, 3 + (specMsg m).length + pad.length) := by
  have h := parseRecord_frame3 hm esc (L := 1 + m.size + pad.length) (by rw [specMsg_length] at hL; omega) pad s hp
    (by omega)
  rw [specMsg_length]
  have e : (specMsg m).length + pad.length = 1 + m.size + pad.length := by rw [specMsg_length]
  rw [Spec.Ssl2.encodeRecord3, e]
  simp only [Spec.Ssl2.u16, Spec.Ssl2.u8, ← enc_is_spec, ← typed_msg_is_spec, List.append_assoc]
  rw [h]
  congr 2
  omega

/-! ### the message classes on their own: consumed length, self-delimitation, canonical form -/

theorem error_parseWf : ParseWf errorCodec (fun m => m.wf ∧ m.type = 0) := by
  intro b m n h
  obtain ⟨_, _, hm⟩ := parseError_inv h
  exact ⟨(parseError_wf h).1, by subst hm; rfl⟩

theorem clientHello_parseWf : ParseWf clientHelloCodec (fun m => m.wf ∧ m.type = 1) := by
  intro b m n h
  have h' : parseMsg 1 b = .ok (m, n) := by simp only [parseMsg]; exact h
  exact ⟨(parseMsg_wf h').1, (parseMsg_wf h').2.2.2⟩

theorem serverHello_parseWf : ParseWf serverHelloCodec (fun m => m.wf ∧ m.type = 4) := by
  intro b m n h
  have h' : parseMsg 4 b = .ok (m, n) := by simp only [parseMsg]; exact h
  exact ⟨(parseMsg_wf h').1, (parseMsg_wf h').2.2.2⟩

theorem error_lenBound : LenBound errorCodec := fun _ _ _ h => (parseError_wf h).2.2
theorem clientHello_lenBound : LenBound clientHelloCodec := fun _ _ _ h => (parseClientHello_wf h).2.2
theorem serverHello_lenBound : LenBound serverHelloCodec := fun _ _ _ h => (parseServerHello_wf h).2.2

theorem error_selfDelim : SelfDelim errorCodec :=
  fun b _ n h s => parseError_agree h (agree_take b n s (parseError_wf h).2.2)
theorem clientHello_selfDelim : SelfDelim clientHelloCodec :=
  fun b _ n h s => parseClientHello_agree h (agree_take b n s (parseClientHello_wf h).2.2)
theorem serverHello_selfDelim : SelfDelim serverHelloCodec :=
  fun b _ n h s => parseServerHello_agree h (agree_take b n s (parseServerHello_wf h).2.2)

/-- the consumed length of a message is the length of its own composition -/
theorem msg_consumed_is_size {t : Nat} {bs : Bytes} {m : Msg} {n : Nat} (h : parseMsg t bs = .ok (m, n)) :
    composeMsg m = .ok (encMsg m) ∧ n = (encMsg m).length := by
  obtain ⟨hw, hn, _⟩ := parseMsg_wf h
  exact ⟨composeMsg_ok hw, by rw [encMsg_length]; exact hn⟩

/-! ### records produced by the composer -/

/-- on a composed record (followed by anything) the consumed length IS header + declared length -/
theorem composed_consumes_declared {r : Record} (hr : r.wf) {b : Bytes} (hb : composeRecord r = .ok b) (s : Bytes)
    {r' : Record} {n : Nat} (h : parseRecord (b ++ s) = .ok (r', n)) :
    r' = r ∧ n = b.length ∧ n = headerSize (b ++ s) + declaredLength (b ++ s) := by
  rw [composeRecord_ok hr] at hb
  cases hb
  obtain ⟨b', hb', hbb⟩ := record_roundTrip r hr
  have hb'' : composeRecord r = .ok b' := hb'
  rw [composeRecord_ok hr] at hb''
  cases hb''
  have hp : parseRecord (encRecord r ++ s) = .ok (r, (encRecord r).length) := hbb s
  rw [hp] at h
  simp only [Except.ok.injEq, Prod.mk.injEq] at h
  obtain ⟨h1, h2⟩ := h
  obtain ⟨e1, e2, _⟩ := composed_header_declares_body hr s
  refine ⟨h1.symm, h2.symm, ?_⟩
  rw [← h2, e1, e2, specMsg_length, encRecord_length]
  omega

/-! ### the full-strength statements that the code does not satisfy: witnesses -/

/-- witness: `80 00 | 00 | 00 01` — the header declares 0 bytes, the parser reads the ERROR message
beyond it and reports n = 5, not 2 + 0 -/
def declaredWitness : Bytes := [0x80, 0x00, 0x00, 0x00, 0x01]

theorem declaredWitness_parse : parseRecord declaredWitness = .ok (⟨.error 1⟩, 5) := by decide +kernel
theorem declaredWitness_header : headerSize declaredWitness + declaredLength declaredWitness = 2 := by
  decide +kernel

theorem not_consumes_declared :
    ¬ ∀ bs r n, parseRecord bs = .ok (r, n) → n = headerSize bs + declaredLength bs := by
  intro h
  have := h declaredWitness _ _ declaredWitness_parse
  rw [declaredWitness_header] at this
  omega

/-- witness: `80 05 | 00 | 00 01` followed by `ff ff` — the header declares 5 bytes, message and
padding take 3, n = 5; the first five bytes alone are rejected (NotEnoughData 2) -/
def selfDelimWitness : Bytes := [0x80, 0x05, 0x00, 0x00, 0x01, 0xff, 0xff]

theorem selfDelimWitness_parse : parseRecord selfDelimWitness = .ok (⟨.error 1⟩, 5) := by decide +kernel
theorem selfDelimWitness_cut : parseRecord (selfDelimWitness.take 5 ++ []) = .error (.notEnough 2) := by
  decide +kernel

theorem not_selfDelim : ¬ SelfDelim recordCodec := by
  intro h
  have h' : ∀ b v n, parseRecord b = .ok (v, n) → ∀ s, parseRecord (b.take n ++ s) = .ok (v, n) := h
  have h2 := h' selfDelimWitness _ _ selfDelimWitness_parse []
  rw [selfDelimWitness_cut] at h2
  cases h2

/-- witness message: a CLIENT-HELLO with a challenge of 32768 zero bytes -/
def bigHello : Msg := .clientHello [] [] (List.replicate 32768 0)

/-- witness input: `80 00 | 01 | 00 02 00 00 00 00 80 00 | 00 × 32768` — a header declaring 0 bytes
in front of the big CLIENT-HELLO (32779 bytes in all) -/
def canonicalWitness : Bytes :=
  encNat .network 2 (0 ||| 2 ^ 15) ++ (encNat .network 1 bigHello.type ++ (encMsg bigHello ++ []))

theorem bigHello_wf : bigHello.wf := by
  show kindsOk [] ∧ ([] : List Nat).length * 3 < 65536 ∧ ([] : Bytes).length < 65536 ∧
    (List.replicate 32768 (0 : UInt8)).length < 65536
  refine ⟨fun _ hi => (List.not_mem_nil hi).elim, by decide, by decide, ?_⟩
  rw [List.length_replicate]; omega

theorem bigHello_size : bigHello.size = 32776 := by
  show 8 + ([] : List Nat).length * 3 + ([] : Bytes).length + (List.replicate 32768 (0 : UInt8)).length = 32776
  rw [List.length_replicate]; rfl

theorem canonicalWitness_parse : parseRecord canonicalWitness = .ok (⟨bigHello⟩, 32779) := by
  have := parseRecord_frame2 bigHello_wf (L := 0) (by omega) [] (by omega)
  rw [bigHello_size] at this
  exact this

theorem canonicalWitness_compose : composeRecord ⟨bigHello⟩ = .error .invalidValue :=
  composeRecord_guard bigHello_wf (by rw [bigHello_size]; omega)

theorem not_canonical :
    ¬ ∀ bs r n, parseRecord bs = .ok (r, n) →
        ∃ b', composeRecord r = .ok b' ∧ parseRecord b' = .ok (r, b'.length) := by
  intro h
  obtain ⟨b', hb, _⟩ := h canonicalWitness _ _ canonicalWitness_parse
  rw [canonicalWitness_compose] at hb
  cases hb

/-- the first bytes of the witness, spelled out -/
theorem canonicalWitness_head : canonicalWitness.take 11 = [0x80, 0, 1, 0, 2, 0, 0, 0, 0, 0x80, 0] := by
  decide +kernel

theorem canonicalWitness_length : canonicalWitness.length = 32779 := by
  simp only [canonicalWitness, List.length_append, encNat_length, encMsg_length, bigHello_size, List.length_nil]

/-! ### corollaries in the form the property files state them -/

theorem error_noCrash : NoCrash errorCodec := fun b k => parseError_noCrash b k
theorem clientHello_noCrash : NoCrash clientHelloCodec := fun b k => parseClientHello_noCrash b k
theorem serverHello_noCrash : NoCrash serverHelloCodec := fun b k => parseServerHello_noCrash b k

/-- an accepted record that stayed inside its declared length is composed again -/
theorem record_canonical_of_within {bs : Bytes} {r : Record} {n : Nat} (h : parseRecord bs = .ok (r, n))
    (hd : n ≤ headerSize bs + declaredLength bs) :
    ∃ b', composeRecord r = .ok b' ∧ parseRecord b' = .ok (r, b'.length) ∧
      ∀ r'' n'', parseRecord b' = .ok (r'', n'') → composeRecord r'' = .ok b' := by
  have hn := (record_consumed h).2.1
  have hl := declaredLength_lt bs
  exact record_canonical_of_fits h (by omega)

/-- what the record parser accepts is a constructible MESSAGE (the record may still be too large) -/
theorem record_message_wf {bs : Bytes} {r : Record} {n : Nat} (h : parseRecord bs = .ok (r, n)) : r.message.wf :=
  (record_consumed h).1

theorem record_canonical_iff {bs : Bytes} {r : Record} {n : Nat} (h : parseRecord bs = .ok (r, n)) :
    (∃ b', composeRecord r = .ok b') ↔ 1 + r.message.size < 32768 := by
  constructor
  · intro ⟨b', hb⟩
    by_cases hs : 1 + r.message.size < 32768
    · exact hs
    · rw [composeRecord_guard (record_message_wf h) (by omega)] at hb; cases hb
  · intro hs
    obtain ⟨b', hb, _⟩ := record_canonical_of_fits h hs
    exact ⟨b', hb⟩

theorem record_selfDelim_of_exact {bs : Bytes} {r : Record} {n : Nat} (h : parseRecord bs = .ok (r, n))
    (hd : n = headerSize bs + declaredLength bs) (s : Bytes) : parseRecord (bs.take n ++ s) = .ok (r, n) :=
  record_selfDelim_of_declared_le h (by omega) s

theorem record_consumes_declared_of_fill {bs : Bytes} {r : Record} {n : Nat} (h : parseRecord bs = .ok (r, n))
    (hf : 1 + r.message.size + declaredPadding bs = declaredLength bs) : n = headerSize bs + declaredLength bs :=
  (record_declared_iff h).2 hf

theorem record_compose_is_spec (r : Record) (h : r.wf) :
    composeRecord r = .ok (Spec.Ssl2.encodeRecord2 (specMsg r.message)) := by
  rw [← encRecord_is_spec h]; exact composeRecord_ok h

theorem msg_compose_is_spec (m : Msg) (h : m.wf) :
    ∃ b, composeMsg m = .ok b ∧ Spec.Ssl2.u8 m.type ++ b = specMsg m :=
  ⟨encMsg m, composeMsg_ok h, by rw [Spec.Ssl2.u8, ← enc_is_spec]; exact typed_msg_is_spec m⟩

theorem record_parse_of_spec2 (r : Record) (h : r.wf) (s : Bytes) :
    parseRecord (Spec.Ssl2.encodeRecord2 (specMsg r.message) ++ s) = .ok (r, 2 + (specMsg r.message).length) := by
  rw [← encRecord_is_spec h, (record_roundTrip_explicit r h).2 s, encRecord_length, specMsg_length]
  congr 2; omega

theorem bits_msb_spec : ∀ x : Fin 256, (x.val / 128 % 2 = 1) = (128 ≤ x.val) := by decide +kernel

/-- the model's reading of the length bytes (masks `0x80`, `0x7f`, `0x3f`) is the protocol text's -/
theorem declaredLength_is_spec (bs : Bytes) :
    declaredLength bs = Spec.Ssl2.declaredLength (bs.getD 0 0).toNat (bs.getD 1 0).toNat := by
  have m1 := bits_msb ⟨(bs.getD 0 0).toNat, (bs.getD 0 0).toNat_lt⟩
  have m7 := bits_7f ⟨(bs.getD 0 0).toNat, (bs.getD 0 0).toNat_lt⟩
  have m3 := bits_3f ⟨(bs.getD 0 0).toNat, (bs.getD 0 0).toNat_lt⟩
  have ms := bits_msb_spec ⟨(bs.getD 0 0).toNat, (bs.getD 0 0).toNat_lt⟩
  simp only at m1 m7 m3 ms
  unfold declaredLength Spec.Ssl2.declaredLength
  simp only [m1, m7, m3, ms, decide_eq_true_eq, Nat.reducePow]

end Cp.Ssl2
