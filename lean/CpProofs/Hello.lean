import CpProofs.HelloBase
import CpProofs.Ext2
import CpProofs.CertReq
/-
  Laws of the TLS handshake messages with structured payloads: the hello extensions,
  `TlsHandshakeClientHello`, `TlsHandshakeServerHello` / `TlsHandshakeHelloRetryRequest`,
  `TlsHandshakeCertificateRequest` and the handshake variant.

  RoundTrip (C01), ParseWf (⇒ C05) and "no crash but …" (C02).
  Generic helpers live in `Cp.Hello` (CpProofs/HelloBase.lean), the laws of the extension classes
  with structured bodies in CpProofs/Ext2.lean, everything else about the TLS model here in `Cp.Tls`.
  Obligations on the regenerated tables are discharged by `decide +kernel` on the live data.
-/

namespace Cp.Tls
open Cp Cp.Codec Cp.Hello

/-! ### hello extensions: compose side -/

/-- the payload of a parsed extension class, by body layout: `composeExtBody` of the model -/
abbrev composeBody : ExtKind → ExtBody → Except PErr Bytes := composeExtBody

def withHeader (t : Nat) (payload : Except PErr Bytes) : Except PErr Bytes := do
  let payload ← payload
  let h ← composeExtHeader t payload.length
  pure (h ++ payload)

theorem composeExt_unparsed (t : Nat) (d : Bytes) :
    composeExt ⟨"TlsExtensionUnparsed", t, .raw d⟩ = withHeader t (.ok d) := rfl

theorem composeExt_parsed {cls : String} {t : Nat} {body : ExtBody} {kind : ExtKind}
    (hne : cls ≠ "TlsExtensionUnparsed") (hk : extKindOf cls = some kind) :
    composeExt ⟨cls, t, body⟩ = withHeader t (composeBody kind body) := by
  unfold composeExt
  simp only
  split
  · exact absurd rfl hne
  · rw [hk]
    rfl

theorem composeExtHeader_ok {t n : Nat} (ht : t < 256 ^ 2) (hn : n < 256 ^ 2) :
    composeExtHeader t n = .ok (encNat .network 2 t ++ encNat .network 2 n) := by
  simp only [composeExtHeader, composeNum_ok (by rfl : validSize 2 = true) ht,
    composeNum_ok (by rfl : validSize 2 = true) hn, bind, Except.bind, pure, Except.pure]

theorem withHeader_ok {t : Nat} {payload : Bytes} (ht : t < 256 ^ 2) (hn : payload.length < 256 ^ 2) :
    withHeader t (.ok payload) =
      .ok (encNat .network 2 t ++ encNat .network 2 payload.length ++ payload) := by
  simp only [withHeader, composeExtHeader_ok ht hn, bind, Except.bind, pure, Except.pure]

theorem composeNum_ok_inv {bo : ByteOrder} {k v : Nat} {b : Bytes} (h : composeNum bo k (v : Int) = .ok b) :
    validSize k = true ∧ v < 256 ^ k ∧ b = encNat bo k v := by
  unfold composeNum at h
  split at h
  · cases h
  · next hk =>
    split at h
    · cases h
    · split at h
      · cases h
      · next hv =>
        cases h
        have hv' : ¬ (256 ^ k ≤ v) := by simpa using hv
        exact ⟨by simpa using hk, by omega, by simp⟩

/-- a composed extension is its header and a payload that fits the 16-bit length -/
theorem withHeader_ok_inv {t : Nat} {payload : Except PErr Bytes} {b : Bytes} (h : withHeader t payload = .ok b) :
    ∃ pl, payload = .ok pl ∧ t < 256 ^ 2 ∧ pl.length < 256 ^ 2 ∧
      b = encNat .network 2 t ++ encNat .network 2 pl.length ++ pl := by
  unfold withHeader at h
  cases payload with
  | error e => simp [bind, Except.bind] at h
  | ok pl =>
    simp only [bind, Except.bind, composeExtHeader] at h
    cases h1 : composeNum .network 2 (t : Int) with
    | error e => simp [h1] at h
    | ok a =>
      simp only [h1] at h
      cases h2 : composeNum .network 2 (pl.length : Int) with
      | error e => simp [h2] at h
      | ok c =>
        simp only [h2, pure, Except.pure] at h
        cases h
        obtain ⟨_, ht, rfl⟩ := composeNum_ok_inv h1
        obtain ⟨_, hn, rfl⟩ := composeNum_ok_inv h2
        exact ⟨pl, rfl, ht, hn, rfl⟩

/-! ### the constructible extension bodies -/

/-- the bodies a caller can give an extension class of the given layout (items canonical, list
sizes inside the vector bounds of the regenerated parameters) -/
def BodyWf : ExtKind → ExtBody → Prop
  | .unusedData, .empty => True
  | .vecCoded p codes k, .coded items =>
    (∀ x ∈ items, CodedWf codes k x) ∧ p.min ≤ items.length * k ∧ items.length * k ≤ p.max
  | .renegotiationInfo, .opaque d =>
    (vp Gen.vec_TlsRenegotiatedConnection).min ≤ d.length ∧ d.length ≤ (vp Gen.vec_TlsRenegotiatedConnection).max
  | .sessionTicket, .raw _ => True
  | .padding, .num _ => True
  | .recordSizeLimit, .num v => v < 256 ^ 2
  | .supportedVersionsClient, .coded items =>
    (∀ x ∈ items, CodedWf Gen.TlsVersion.codes 2 x) ∧
      (vp Gen.vec_TlsSupportedVersionVector).min ≤ items.length * 2 ∧
      items.length * 2 ≤ (vp Gen.vec_TlsSupportedVersionVector).max
  | .supportedVersionsServer, .version i => i < Gen.TlsVersion.codes.length
  | .ext2 k, .ext2 b => Ext2BodyWf k b
  | _, _ => False

instance (kind : ExtKind) (body : ExtBody) : Decidable (BodyWf kind body) := by
  cases kind <;> cases body <;> (simp only [BodyWf]; infer_instance)

/-- the payload size of a body (what goes into the extension's 16-bit length) -/
def bodySize : ExtKind → ExtBody → Nat
  | .vecCoded p _ k, .coded items => p.numSize + items.length * k
  | .renegotiationInfo, .opaque d => (vp Gen.vec_TlsRenegotiatedConnection).numSize + d.length
  | .sessionTicket, .raw d => d.length
  | .padding, .num n => n
  | .recordSizeLimit, .num _ => 2
  | .supportedVersionsClient, .coded items => (vp Gen.vec_TlsSupportedVersionVector).numSize + items.length * 2
  | .supportedVersionsServer, .version _ => 2
  | .ext2 k, .ext2 b => ext2BodySize k b
  | _, _ => 0

def ExtKind.isExt2 : ExtKind → Bool
  | .ext2 _ => true
  | _ => false

/-- every well-formed body composes to `bodySize` bytes, and the body parser of the class reads
exactly those bytes back, whatever follows them -/
theorem body_roundTrip {kind : ExtKind} {body : ExtBody} (hk : KindOk kind) (hw : BodyWf kind body)
    (hsz : kind.isExt2 = true → bodySize kind body < 256 ^ 2) :
    ∃ payload, composeBody kind body = .ok payload ∧ payload.length = bodySize kind body ∧
      ∀ s, parseExtBody kind payload.length (payload ++ s) = .ok (body, payload.length) := by
  cases kind with
  | ext2 k =>
    cases body <;> try exact absurd hw id
    next b =>
    obtain ⟨payload, hc, hl, hp⟩ := ext2_body_roundTrip (k := k) (b := b) hw (hsz rfl)
    refine ⟨payload, hc, hl, fun s => ?_⟩
    simp only [parseExtBody, hp s, bind, Except.bind, pure, Except.pure]
  | unusedData =>
    cases body <;> try exact absurd hw id
    refine ⟨[], rfl, rfl, fun s => ?_⟩
    simp only [parseExtBody, parseRaw_nat_append, bind, Except.bind, pure, Except.pure]
    rfl
  | vecCoded p codes k =>
    cases body <;> try exact absurd hw id
    next items =>
    obtain ⟨hi, hmin, hmax⟩ := hw
    obtain ⟨ht, hn, hpm⟩ := hk
    obtain ⟨b, hb, hbl, _⟩ := parseVecCoded_roundTrip ht (validSize_pos ht.size) hn hpm items hi hmin hmax []
    refine ⟨_, hb, by simp [bodySize, hbl], fun s => ?_⟩
    obtain ⟨b', hb', hbl', hp⟩ := parseVecCoded_roundTrip ht (validSize_pos ht.size) hn hpm items hi hmin hmax s
    rw [hb] at hb'
    have : b = b' := by
      have := Except.ok.inj hb'
      exact List.append_cancel_left this
    subst this
    simp only [parseExtBody, hp, bind, Except.bind, pure, Except.pure, List.length_append, encNat_length, hbl]
  | renegotiationInfo =>
    cases body <;> try exact absurd hw id
    next d =>
    obtain ⟨hmin, hmax⟩ := hw
    obtain ⟨hn, hpm⟩ := renegParam_ok
    refine ⟨_, (parseOpaque_roundTrip hn hpm d hmin hmax []).1, by simp [bodySize], fun s => ?_⟩
    simp only [parseExtBody, (parseOpaque_roundTrip hn hpm d hmin hmax s).2, bind, Except.bind, pure,
      Except.pure, List.length_append, encNat_length]
  | sessionTicket =>
    cases body <;> try exact absurd hw id
    next d =>
    refine ⟨d, rfl, rfl, fun s => ?_⟩
    simp only [parseExtBody, parseRaw_nat_append, bind, Except.bind, pure, Except.pure]
  | padding =>
    cases body <;> try exact absurd hw id
    next n =>
    refine ⟨List.replicate n 0, rfl, by simp [bodySize], fun s => ?_⟩
    simp only [parseExtBody, parseRaw_nat_append, bind, Except.bind, pure, Except.pure]
    simp
  | recordSizeLimit =>
    cases body <;> try exact absurd hw id
    next v =>
    have hv : v < 256 ^ 2 := hw
    refine ⟨encNat .network 2 v, composeNum_ok rfl hv, by simp [bodySize], fun s => ?_⟩
    simp only [parseExtBody, parseNum_enc (by rfl : validSize 2 = true) hv, bind, Except.bind, pure, Except.pure,
      encNat_length]
  | supportedVersionsClient =>
    cases body <;> try exact absurd hw id
    next items =>
    obtain ⟨hi, hmin, hmax⟩ := hw
    obtain ⟨hn, hpm⟩ := supportedVersionsParam_ok
    obtain ⟨b, hb, hbl, _⟩ := parseVecCoded_roundTrip versions_tableOk (by decide) hn hpm items hi hmin hmax []
    refine ⟨_, hb, by simp [bodySize, hbl], fun s => ?_⟩
    obtain ⟨b', hb', hbl', hp⟩ := parseVecCoded_roundTrip versions_tableOk (by decide) hn hpm items hi hmin hmax s
    rw [hb] at hb'
    have : b = b' := by
      have := Except.ok.inj hb'
      exact List.append_cancel_left this
    subst this
    have hp' : parseVecItems (vp Gen.vec_TlsSupportedVersionVector) parseVersionOrFallback (fun _ => .ok 2)
        (encNat .network (vp Gen.vec_TlsSupportedVersionVector).numSize (items.length * 2) ++ b ++ s) = _ := hp
    simp only [parseExtBody, hp', bind, Except.bind, pure, Except.pure, List.length_append, encNat_length, hbl]
  | supportedVersionsServer =>
    cases body <;> try exact absurd hw id
    next i =>
    have hi : i < Gen.TlsVersion.codes.length := hw
    obtain ⟨b, hb, hbb⟩ := version_roundTrip i hi
    have hb' : composeVersion i = .ok b := hb
    have hlen : b.length = 2 := by
      have h0 := hbb []
      rw [List.append_nil] at h0
      obtain ⟨c, hp, _⟩ := parseCoded_ok_inv h0
      exact (parseNum_ok_inv hp).1
    refine ⟨b, hb', by simp [bodySize, hlen], fun s => ?_⟩
    have := hbb s
    simp only [versionCodec] at this
    simp only [parseExtBody, this, bind, Except.bind, pure, Except.pure]


/-- composing a well-formed body succeeds with `bodySize` bytes — or (a server name whose list
length does not fit 16 bits) is refused with `InvalidValue`, and then the payload would not have
fitted the 16-bit extension length either -/
theorem body_compose {kind : ExtKind} {body : ExtBody} (hk : KindOk kind) (hw : BodyWf kind body) :
    (∃ payload, composeBody kind body = .ok payload ∧ payload.length = bodySize kind body) ∨
      (composeBody kind body = .error .invalidValue ∧ 256 ^ 2 ≤ bodySize kind body) := by
  by_cases he : kind.isExt2 = true
  · cases kind <;> simp [ExtKind.isExt2] at he
    next k =>
    cases body <;> try exact absurd hw id
    next b => exact ext2_body_compose (k := k) (b := b) hw
  · obtain ⟨payload, hc, hl, _⟩ := body_roundTrip hk hw (fun h => absurd h he)
    exact .inl ⟨payload, hc, hl⟩

/-! ### hello extensions: parse side -/

def ExtKind.isSupportedVersionsServer : ExtKind → Bool
  | .supportedVersionsServer => true
  | _ => false

/-- an error of the class on a COMPLETE extension after which the extension list keeps the
extension by the fallback class: `InvalidValue`, or `NotEnoughData` (the body declares more than
the extension holds; the variant turns that into `InvalidValue`, `completeExt`) -/
def Refusal (e : PErr) : Prop := e = .invalidValue ∨ ∃ n, e = .notEnough n

/-- extension data that the body parser of the class refuses (the class is given exactly the
declared data; the extension is then kept by the fallback class `TlsExtensionUnparsed`) -/
def KindRejects (kind : ExtKind) (d : Bytes) : Prop :=
  ∃ e, parseExtBody kind d.length d = .error e ∧ Refusal e

theorem completeExt_ok (r : Ext × Nat) : completeExt (.ok r) = .ok r := rfl

theorem completeExt_ok_inv {r : Except PErr (Ext × Nat)} {x : Ext × Nat} (h : completeExt r = .ok x) : r = .ok x := by
  cases r with
  | ok r => exact h
  | error e => cases e <;> cases h

theorem completeExt_refusal {e : PErr} (h : Refusal e) : completeExt (.error e) = .error .invalidValue := by
  rcases h with rfl | ⟨n, rfl⟩ <;> rfl

theorem completeExt_other {e : PErr} (h : ¬ Refusal e) : completeExt (.error e) = .error e := by
  cases e <;> first | rfl | exact absurd (.inl rfl) h | exact absurd (.inr ⟨_, rfl⟩) h

/-- the variant never reports `NotEnoughData` for an extension that is there in full -/
theorem completeExt_ne_notEnough (r : Except PErr (Ext × Nat)) (n : Int) :
    completeExt r ≠ .error (.notEnough n) := by
  cases r with
  | ok r => intro h; cases h
  | error e => cases e <;> intro h <;> cases h

/-- data that is rejected for a reason one can name: non-empty data of a data-less extension,
non-zero padding, an unknown selected version, and the shapes of `Ext2Rejects` -/
def KindRejectsData : ExtKind → Bytes → Prop
  | .unusedData, d => d ≠ []
  | .padding, d => d.all (· == 0) = false
  | .supportedVersionsServer, d =>
    2 ≤ d.length ∧ findCode (decNat .network (d.take 2)) Gen.TlsVersion.codes = none
  | .ext2 k, d => Ext2Rejects k d
  | _, _ => False

theorem kindRejectsData_parse {kind : ExtKind} {d : Bytes} (h : KindRejectsData kind d) (s : Bytes) :
    parseExtBody kind d.length (d ++ s) = .error .invalidValue := by
  cases kind <;> try exact absurd h id
  · -- unusedData
    have hd : d ≠ [] := h
    have : d.isEmpty = false := by cases d with
      | nil => exact absurd rfl hd
      | cons _ _ => rfl
    simp only [parseExtBody, parseRaw_nat_append, bind, Except.bind, this]
    rfl
  · -- padding
    have hd : d.all (· == 0) = false := h
    simp only [parseExtBody, parseRaw_nat_append, bind, Except.bind, hd]
    rfl
  · -- supportedVersionsServer
    obtain ⟨h2, hf⟩ := h
    have hsplit : d ++ s = d.take 2 ++ (d.drop 2 ++ s) := by
      rw [← List.append_assoc, List.take_append_drop]
    have hl : (d.take 2).length = 2 := by simp; omega
    have hp : parseNum .network 2 (d ++ s) = .ok (decNat .network (d.take 2), 2) := by
      rw [hsplit]; exact parseNum_append rfl _ _ hl
    simp only [parseExtBody, parseVersion, parseCoded, hp, bind, Except.bind, hf]
  · -- the structured bodies
    next k =>
    have hr : Ext2Rejects k d := h
    simp only [parseExtBody, ext2Rejects_parse hr s, bind, Except.bind]

theorem kindRejectsData_rejects {kind : ExtKind} {d : Bytes} (h : KindRejectsData kind d) : KindRejects kind d := by
  have := kindRejectsData_parse h []
  rw [List.append_nil] at this
  exact ⟨_, this, .inl rfl⟩

/-- the errors of a body parser besides the documented ones: only the classes of Ext2.lean have any
(`Ext2Special`: the boundary marker of server_name, the `TypeError` of the SCT list, the
`InvalidType` by which the HelloRetryRequest form of key_share declines) -/
def KindSpecial (kind : ExtKind) (len : Nat) (e : PErr) : Prop :=
  ∃ k, kind = .ext2 k ∧ Ext2Special k len e

/-- the body parsers of the modelled classes fail only with the documented errors, or one of the
three special ones of the structured bodies -/
theorem parseExtBody_err {kind : ExtKind} (hk : KindOk kind) {len : Nat} {rest : Bytes} {e : PErr}
    (h : parseExtBody kind len rest = .error e) : Benign e ∨ KindSpecial kind len e := by
  cases kind with
  | ext2 k =>
    simp only [parseExtBody] at h
    rcases exceptBind_err_inv h with h1 | ⟨_, _, h2⟩
    · rcases parseExt2Body_err h1 with hb | hs
      · exact .inl hb
      · exact .inr ⟨k, rfl, hs⟩
    · cases h2
  | unusedData => exact .inl (by
    simp only [parseExtBody] at h
    rcases exceptBind_err_inv h with h1 | ⟨⟨d, m⟩, _, h2⟩
    · exact parseRaw_benign h1
    · simp only at h2
      split at h2
      · cases h2
      · cases h2; exact .inr rfl)
  | vecCoded p codes k => exact .inl (by
    simp only [parseExtBody] at h
    rcases exceptBind_err_inv h with h1 | ⟨⟨d, m⟩, _, h2⟩
    · exact (parseVecCoded_sizeErr hk.2.1 hk.1.size h1).benign
    · cases h2)
  | renegotiationInfo => exact .inl (by
    simp only [parseExtBody] at h
    rcases exceptBind_err_inv h with h1 | ⟨⟨d, m⟩, _, h2⟩
    · exact (parseOpaque_sizeErr renegParam_ok.1 h1).benign
    · cases h2)
  | sessionTicket => exact .inl (by
    simp only [parseExtBody] at h
    rcases exceptBind_err_inv h with h1 | ⟨⟨d, m⟩, _, h2⟩
    · exact parseRaw_benign h1
    · cases h2)
  | padding => exact .inl (by
    simp only [parseExtBody] at h
    rcases exceptBind_err_inv h with h1 | ⟨⟨d, m⟩, _, h2⟩
    · exact parseRaw_benign h1
    · simp only at h2
      split at h2
      · cases h2
      · cases h2; exact .inr rfl)
  | recordSizeLimit => exact .inl (by
    simp only [parseExtBody] at h
    rcases exceptBind_err_inv h with h1 | ⟨⟨d, m⟩, _, h2⟩
    · exact parseNum_benign rfl h1
    · cases h2)
  | supportedVersionsClient => exact .inl (by
    simp only [parseExtBody] at h
    rcases exceptBind_err_inv h with h1 | ⟨⟨d, m⟩, _, h2⟩
    · exact (parseVecCoded_sizeErr (codes := Gen.TlsVersion.codes) (k := 2) supportedVersionsParam_ok.1 rfl h1).benign
    · cases h2)
  | supportedVersionsServer => exact .inl (by
    simp only [parseExtBody] at h
    rcases exceptBind_err_inv h with h1 | ⟨⟨d, m⟩, _, h2⟩
    · exact parseCoded_benign rfl h1
    · cases h2)

theorem KindSpecial.not_ext2 {kind : ExtKind} {len : Nat} {e : PErr} (h : KindSpecial kind len e)
    (hne : kind.isExt2 = false) : False := by
  obtain ⟨k, rfl, _⟩ := h
  simp [ExtKind.isExt2] at hne

/-- the classes outside Ext2.lean fail only with the documented errors -/
theorem parseExtBody_benign {kind : ExtKind} (hk : KindOk kind) (hne : kind.isExt2 = false) {len : Nat}
    {rest : Bytes} {e : PErr} (h : parseExtBody kind len rest = .error e) : Benign e := by
  rcases parseExtBody_err hk h with hb | hs
  · exact hb
  · exact (hs.not_ext2 hne).elim

/-- a class that declines the declared length answers `InvalidType` whatever the data … -/
theorem parseExtBody_declines {kind : ExtKind} {len : Nat} (hd : kind.declines len = true) (rest : Bytes) :
    parseExtBody kind len rest = .error .invalidType := by
  cases kind <;> simp [ExtKind.declines] at hd
  next k => simp only [parseExtBody, ext2_declines_parse hd rest, bind, Except.bind]

/-- … and a class that does not decline it never answers `InvalidType` -/
theorem parseExtBody_not_invalidType {kind : ExtKind} (hk : KindOk kind) {len : Nat}
    (hd : kind.declines len = false) (rest : Bytes) : parseExtBody kind len rest ≠ .error .invalidType := by
  intro h
  rcases parseExtBody_err hk h with hb | ⟨k, rfl, hs⟩
  · exact hb.not_invalidType rfl
  · rcases hs with ⟨_, he⟩ | ⟨hd', _⟩
    · simp [unmodelled] at he
    · simp only [ExtKind.declines] at hd
      rw [hd] at hd'; cases hd'

/-- the variant walk ends in the class `resolve` names -/
theorem walkExtVariants_eq (t len : Nat) (bs : Bytes) (variants : List (String × Nat)) :
    walkExtVariants t len bs variants =
      match resolve variants t len with
      | none => .error .invalidValue
      | some cls => classParse t len bs cls := by
  induction variants with
  | nil => rfl
  | cons v more ih =>
    obtain ⟨cls, code⟩ := v
    unfold walkExtVariants resolve
    by_cases h1 : (cls == "TlsExtensionUnparsed") = true
    · simp only [h1, if_true, classParse]
    · simp only [h1, if_false, Bool.false_eq_true]
      by_cases h2 : (code != t) = true
      · simp only [h2, if_true]; exact ih
      · simp only [h2, if_false, Bool.false_eq_true]
        cases hk : extKindOf cls with
        | none => simp only [classParse, h1, hk, Bool.false_eq_true, if_false]
        | some kind =>
          simp only
          by_cases hd : kind.declines len = true
          · simp only [hd, if_true, parseExtBody_declines hd]
            exact ih
          · have hd' : kind.declines len = false := by simpa using hd
            simp only [hd', Bool.false_eq_true, if_false, classParse, h1, hk]
            cases hb : parseExtBody kind len ((bs.drop 4).take len) with
            | ok r => rfl
            | error e =>
              have := parseExtBody_not_invalidType (extKindOf_ok hk) hd' ((bs.drop 4).take len)
              cases e <;> first | rfl | exact absurd hb this

theorem resolve_mem {variants : List (String × Nat)} {t len : Nat} {cls : String}
    (h : resolve variants t len = some cls) :
    ∃ code, (cls, code) ∈ variants ∧ (cls = "TlsExtensionUnparsed" ∨ code = t) := by
  induction variants with
  | nil => cases h
  | cons v more ih =>
    obtain ⟨c, code⟩ := v
    unfold resolve at h
    split at h
    · next hu => cases h; exact ⟨code, List.mem_cons_self .., .inl (by simpa using hu)⟩
    · split at h
      · obtain ⟨code', hm, hc⟩ := ih h
        exact ⟨code', List.mem_cons_of_mem _ hm, hc⟩
      · next hne =>
        have hct : code = t := by simpa using hne
        split at h
        · split at h
          · obtain ⟨code', hm, hc⟩ := ih h
            exact ⟨code', List.mem_cons_of_mem _ hm, hc⟩
          · cases h; exact ⟨code, List.mem_cons_self .., .inr hct⟩
        · cases h; exact ⟨code, List.mem_cons_self .., .inr hct⟩

/-! ### the wire image of an extension -/

/-- type, 16-bit length, payload -/
def extBytes (t : Nat) (payload : Bytes) : Bytes :=
  encNat .network 2 t ++ encNat .network 2 payload.length ++ payload

theorem extBytes_length (t : Nat) (payload : Bytes) : (extBytes t payload).length = 4 + payload.length := by
  simp [extBytes]; omega

theorem extBytes_parseType {t : Nat} {payload : Bytes} (ht : t < 256 ^ 2) (s : Bytes) :
    parseNum .network 2 (extBytes t payload ++ s) = .ok (t, 2) := by
  unfold extBytes
  rw [List.append_assoc, List.append_assoc]
  exact parseNum_enc rfl ht _

theorem extBytes_drop2 (t : Nat) (payload s : Bytes) :
    (extBytes t payload ++ s).drop 2 = encNat .network 2 payload.length ++ (payload ++ s) := by
  unfold extBytes
  rw [List.append_assoc, List.append_assoc, List.drop_append_of_le_length (by simp)]
  rw [List.drop_of_length_le (by simp)]; rfl

theorem extBytes_drop4 (t : Nat) (payload s : Bytes) :
    (extBytes t payload ++ s).drop 4 = payload ++ s := by
  have : (extBytes t payload ++ s).drop 4 = ((extBytes t payload ++ s).drop 2).drop 2 := by
    rw [List.drop_drop]
  rw [this, extBytes_drop2, List.drop_append_of_le_length (by simp)]
  rw [List.drop_of_length_le (by simp)]; rfl

theorem extBytes_parseLen {t : Nat} {payload : Bytes} (hl : payload.length < 256 ^ 2) (s : Bytes) :
    parseNum .network 2 ((extBytes t payload ++ s).drop 2) = .ok (payload.length, 2) := by
  rw [extBytes_drop2]
  exact parseNum_enc rfl hl _

theorem parseExtUnparsed_extBytes {t : Nat} {d : Bytes} (ht : t < 256 ^ 2) (hl : d.length < 256 ^ 2)
    (s : Bytes) :
    parseExtUnparsed (extBytes t d ++ s) = .ok (⟨"TlsExtensionUnparsed", t, .raw d⟩, 4 + d.length) := by
  unfold parseExtUnparsed
  rw [extBytes_parseType ht, extBytes_parseLen hl, extBytes_drop4]
  have hnot : ¬ ((d ++ s).length < d.length) := by simp
  simp only [bind, Except.bind, hnot, if_false, parseRaw_nat_append, pure, Except.pure]

theorem findCode_of_mem {c : Nat} {codes : List Nat} (h : c ∈ codes) :
    ∃ i, findCode c codes = some i ∧ codes.getD i 0 = c := by
  cases hf : findCode c codes with
  | none => exact absurd h (findCode_none hf)
  | some i =>
    refine ⟨i, rfl, ?_⟩
    simp [List.getD, findCode_sound hf]

theorem findCode_of_not_mem {c : Nat} {codes : List Nat} (h : c ∉ codes) : findCode c codes = none := by
  cases hf : findCode c codes with
  | none => rfl
  | some i => exact absurd (List.mem_of_getElem? (findCode_sound hf)) h

/-- a known type code: the header checks pass and the variant walk decides -/
theorem parseExtVariant_extBytes {variants : List (String × Nat)} {t : Nat} {payload : Bytes}
    (ht : t < 256 ^ 2) (hl : payload.length < 256 ^ 2) (hmem : t ∈ Gen.ExtensionType.codes) (s : Bytes) :
    parseExtVariant variants (extBytes t payload ++ s) =
      completeExt (walkExtVariants t payload.length (extBytes t payload ++ s) variants) := by
  obtain ⟨i, hf, hg⟩ := findCode_of_mem hmem
  unfold parseExtVariant
  rw [parseCoded_of_num (extBytes_parseType ht s) hf]
  simp only [hg, extBytes_parseLen hl, extBytes_drop4]
  have hnot : ¬ ((payload ++ s).length < payload.length) := by simp
  simp only [hnot, if_false]

theorem parseExtVariant_unknownType {variants : List (String × Nat)} {t : Nat} {payload : Bytes}
    (ht : t < 256 ^ 2) (hno : t ∉ Gen.ExtensionType.codes) (s : Bytes) :
    parseExtVariant variants (extBytes t payload ++ s) = .error .invalidValue := by
  unfold parseExtVariant parseCoded
  rw [extBytes_parseType ht]
  simp only [bind, Except.bind, findCode_of_not_mem hno]

/-! ### the constructible, canonical extensions -/

/-- The extension values a caller can put into a hello message of one side (`variants` is the
variant list of that side) and that survive compose → parse:

* `unknownType`: raw data under a type code `ExtensionType` does not contain;
* `unparsed`: raw data under a known type code for which this side has NO parsed class (a type a
  parsed class is registered for would come back as that class — unless the class rejects the
  data, see `rejected`);
* `noClass`: the same when the variant list does not even reach `TlsExtensionUnparsed` (does not
  happen with the real lists);
* `rejected`: raw data under a type whose parsed class refuses exactly this data: as an invalid
  value (non-empty data of a data-less extension, non-zero padding, an unknown selected version), or
  because its body declares more than the data holds;
* `parsed`: an object of a modelled parsed class — the class registered FIRST for that type on
  this side, the body as the class lays it out, the payload within the 16-bit length. -/
inductive ExtWf (variants : List (String × Nat)) : Ext → Prop
  | unknownType {t : Nat} {d : Bytes} (ht : t < 256 ^ 2) (hd : d.length < 256 ^ 2)
      (hno : t ∉ Gen.ExtensionType.codes) : ExtWf variants ⟨"TlsExtensionUnparsed", t, .raw d⟩
  | unparsed {t : Nat} {d : Bytes} (ht : t < 256 ^ 2) (hd : d.length < 256 ^ 2)
      (hr : resolve variants t d.length = some "TlsExtensionUnparsed") :
      ExtWf variants ⟨"TlsExtensionUnparsed", t, .raw d⟩
  | noClass {t : Nat} {d : Bytes} (ht : t < 256 ^ 2) (hd : d.length < 256 ^ 2)
      (hr : resolve variants t d.length = none) : ExtWf variants ⟨"TlsExtensionUnparsed", t, .raw d⟩
  | rejected {t : Nat} {d : Bytes} {cls : String} {kind : ExtKind} (ht : t < 256 ^ 2)
      (hd : d.length < 256 ^ 2) (hr : resolve variants t d.length = some cls) (hne : cls ≠ "TlsExtensionUnparsed")
      (hk : extKindOf cls = some kind) (hrej : KindRejects kind d) :
      ExtWf variants ⟨"TlsExtensionUnparsed", t, .raw d⟩
  | parsed {cls : String} {t : Nat} {body : ExtBody} {kind : ExtKind} (ht : t < 256 ^ 2)
      (hmem : t ∈ Gen.ExtensionType.codes) (hr : resolve variants t (bodySize kind body) = some cls)
      (hne : cls ≠ "TlsExtensionUnparsed") (hk : extKindOf cls = some kind) (hb : BodyWf kind body)
      (hsz : bodySize kind body < 256 ^ 2) : ExtWf variants ⟨cls, t, body⟩

/-- payload size of an extension value -/
def payloadSize (e : Ext) : Nat :=
  if e.cls = "TlsExtensionUnparsed" then
    match e.body with
    | .raw d => d.length
    | _ => 0
  else
    match extKindOf e.cls with
    | some kind => bodySize kind e.body
    | none => 0

theorem classParse_unparsed (t len : Nat) (bs : Bytes) :
    classParse t len bs "TlsExtensionUnparsed" = parseExtUnparsed bs := rfl

theorem classParse_parsed_ok {t len : Nat} {bs : Bytes} {cls : String} (hne : cls ≠ "TlsExtensionUnparsed")
    {kind : ExtKind} (hk : extKindOf cls = some kind) {body : ExtBody} {m : Nat}
    (hb : parseExtBody kind len ((bs.drop 4).take len) = .ok (body, m)) :
    classParse t len bs cls = .ok (⟨cls, t, body⟩, 4 + m) := by
  have : (cls == "TlsExtensionUnparsed") = false := by simpa using hne
  simp only [classParse, this, Bool.false_eq_true, if_false, hk, hb]

theorem classParse_parsed_err {t len : Nat} {bs : Bytes} {cls : String} (hne : cls ≠ "TlsExtensionUnparsed")
    {kind : ExtKind} (hk : extKindOf cls = some kind) {e : PErr}
    (hb : parseExtBody kind len ((bs.drop 4).take len) = .error e) :
    classParse t len bs cls = .error e := by
  have : (cls == "TlsExtensionUnparsed") = false := by simpa using hne
  simp only [classParse, this, Bool.false_eq_true, if_false, hk, hb]

theorem classParse_unmodelled {t len : Nat} {bs : Bytes} {cls : String} (hne : cls ≠ "TlsExtensionUnparsed")
    (hk : extKindOf cls = none) : classParse t len bs cls = .error unmodelled := by
  have : (cls == "TlsExtensionUnparsed") = false := by simpa using hne
  simp only [classParse, this, Bool.false_eq_true, if_false, hk]

/-- raw data kept by the fallback class: the composed bytes parse back to it on every path that
ends in `TlsExtensionUnparsed` -/
theorem unparsed_itemRT {variants : List (String × Nat)} {t : Nat} {d : Bytes} (ht : t < 256 ^ 2)
    (hd : d.length < 256 ^ 2)
    (hv : ∀ s, parseExtVariant variants (extBytes t d ++ s) = .error .invalidValue ∨
      parseExtVariant variants (extBytes t d ++ s) = parseExtUnparsed (extBytes t d ++ s)) :
    ItemRT (parseExt variants) composeExt ⟨"TlsExtensionUnparsed", t, .raw d⟩ := by
  refine ⟨extBytes t d, ?_, by rw [extBytes_length]; omega, ?_⟩
  · rw [composeExt_unparsed, withHeader_ok ht hd]; rfl
  · intro s
    rw [extBytes_length]
    unfold parseExt orElseInvalid
    rcases hv s with h | h
    · simp only [h]; exact parseExtUnparsed_extBytes ht hd s
    · rw [h, parseExtUnparsed_extBytes ht hd s]

theorem ext_itemRT {variants : List (String × Nat)} {e : Ext} (hw : ExtWf variants e) :
    ItemRT (parseExt variants) composeExt e := by
  cases hw with
  | unknownType ht hd hno =>
    exact unparsed_itemRT ht hd (fun s => .inl (parseExtVariant_unknownType ht hno s))
  | @unparsed t d ht hd hr =>
    apply unparsed_itemRT ht hd
    intro s
    by_cases hmem : t ∈ Gen.ExtensionType.codes
    · right
      rw [parseExtVariant_extBytes ht hd hmem, walkExtVariants_eq, hr]
      simp only
      rw [classParse_unparsed, parseExtUnparsed_extBytes ht hd s]
      rfl
    · exact .inl (parseExtVariant_unknownType ht hmem s)
  | @noClass t d ht hd hr =>
    apply unparsed_itemRT ht hd
    intro s
    by_cases hmem : t ∈ Gen.ExtensionType.codes
    · left
      rw [parseExtVariant_extBytes ht hd hmem, walkExtVariants_eq, hr]
      rfl
    · exact .inl (parseExtVariant_unknownType ht hmem s)
  | @rejected t d cls kind ht hd hr hne hk hrej =>
    apply unparsed_itemRT ht hd
    intro s
    by_cases hmem : t ∈ Gen.ExtensionType.codes
    · left
      obtain ⟨e0, hrej, href⟩ := hrej
      rw [parseExtVariant_extBytes ht hd hmem, walkExtVariants_eq, hr]
      simp only
      rw [classParse_parsed_err hne hk (e := e0)]
      · exact completeExt_refusal href
      · rw [extBytes_drop4, take_len_append]
        exact hrej
    · exact .inl (parseExtVariant_unknownType ht hmem s)
  | @parsed cls t body kind ht hmem hr hne hk hb hsz =>
    obtain ⟨payload, hc, hlen, hp⟩ := body_roundTrip (extKindOf_ok hk) hb (fun _ => hsz)
    have hl : payload.length < 256 ^ 2 := by rw [hlen]; exact hsz
    refine ⟨extBytes t payload, ?_, by rw [extBytes_length]; omega, ?_⟩
    · rw [composeExt_parsed hne hk, hc, withHeader_ok ht hl]; rfl
    · intro s
      rw [extBytes_length]
      unfold parseExt orElseInvalid
      have hr' : resolve variants t payload.length = some cls := by rw [hlen]; exact hr
      have hp0 := hp []
      rw [List.append_nil] at hp0
      rw [parseExtVariant_extBytes ht hl hmem, walkExtVariants_eq, hr']
      simp only
      rw [classParse_parsed_ok hne hk (body := body) (m := payload.length)]
      · rfl
      · rw [extBytes_drop4, take_len_append]
        exact hp0

/-- the composed size of a well-formed extension: four header bytes and the payload -/
theorem composeExt_wf {variants : List (String × Nat)} {e : Ext} (hw : ExtWf variants e) :
    ∃ b, composeExt e = .ok b ∧ b.length = 4 + payloadSize e := by
  have hU : ∀ {t : Nat} {d : Bytes}, t < 256 ^ 2 → d.length < 256 ^ 2 →
      ∃ b, composeExt ⟨"TlsExtensionUnparsed", t, .raw d⟩ = .ok b ∧
        b.length = 4 + payloadSize ⟨"TlsExtensionUnparsed", t, .raw d⟩ := by
    intro t d ht hd
    refine ⟨extBytes t d, ?_, ?_⟩
    · rw [composeExt_unparsed, withHeader_ok ht hd]; rfl
    · rw [extBytes_length]; simp [payloadSize]
  cases hw with
  | unknownType ht hd _ => exact hU ht hd
  | unparsed ht hd _ => exact hU ht hd
  | noClass ht hd _ => exact hU ht hd
  | rejected ht hd _ _ _ _ => exact hU ht hd
  | @parsed cls t body kind ht hmem hr hne hk hb hsz =>
    obtain ⟨payload, hc, hlen, hp⟩ := body_roundTrip (extKindOf_ok hk) hb (fun _ => hsz)
    have hl : payload.length < 256 ^ 2 := by rw [hlen]; exact hsz
    refine ⟨extBytes t payload, ?_, ?_⟩
    · rw [composeExt_parsed hne hk, hc, withHeader_ok ht hl]; rfl
    · rw [extBytes_length, hlen]
      simp only [payloadSize, hne, if_false, hk]


/-! ### the extension block of a hello message -/

/-- encoded size of an extension list: four header bytes and the payload per extension -/
def extsSize : List Ext → Nat
  | [] => 0
  | e :: es => 4 + payloadSize e + extsSize es

/-- the extension lists a caller can put into a hello message of one side -/
structure ExtsWf (variants : List (String × Nat)) (p : VecParam) (exts : List Ext) : Prop where
  each : ∀ e ∈ exts, ExtWf variants e
  lower : p.min ≤ extsSize exts
  upper : extsSize exts ≤ p.max

theorem composeItems_exts {variants : List (String × Nat)} (exts : List Ext)
    (h : ∀ e ∈ exts, ExtWf variants e) :
    ∃ body, composeItems composeExt exts = .ok body ∧ body.length = extsSize exts := by
  induction exts with
  | nil => exact ⟨[], rfl, rfl⟩
  | cons e es ih =>
    obtain ⟨r, hr, hrl⟩ := ih (fun y hy => h y (List.mem_cons_of_mem _ hy))
    obtain ⟨b, hb, hbl⟩ := composeExt_wf (h e (List.mem_cons_self ..))
    refine ⟨b ++ r, ?_, ?_⟩
    · simp only [composeItems, hb, hr, bind, Except.bind, pure, Except.pure]
    · simp only [List.length_append, hbl, hrl, extsSize]

/-- the extension block: nothing at all for an empty list, else the 16-bit length and the items -/
def extsBlock (exts : List Ext) (body : Bytes) : Bytes :=
  if exts.isEmpty then [] else encNat .network 2 body.length ++ body

theorem exts_roundTrip {variants : List (String × Nat)} {p : VecParam} (hp2 : p.numSize = 2)
    (hpm : p.max < 256 ^ 2) {exts : List Ext} (hw : ExtsWf variants p exts) :
    ∃ body, composeItems composeExt exts = .ok body ∧ body.length = extsSize exts ∧
      composeExtensions exts = .ok (extsBlock exts body) ∧
      (exts ≠ [] → ∀ s, parseExtensions variants p (extsBlock exts body ++ s) = .ok (exts, 2 + body.length)) := by
  obtain ⟨body, hbody, hbl⟩ := composeItems_exts exts hw.each
  have hfit : body.length < 256 ^ 2 := by rw [hbl]; have := hw.upper; omega
  refine ⟨body, hbody, hbl, ?_, ?_⟩
  · unfold composeExtensions extsBlock
    simp only [hbody, bind, Except.bind, composeNum_ok (by rfl : validSize 2 = true) hfit, pure, Except.pure]
    split <;> rfl
  · intro hne s
    have hemp : exts.isEmpty = false := by
      cases exts with
      | nil => exact absurd rfl hne
      | cons _ _ => rfl
    obtain ⟨mn, mx, ns⟩ := p
    simp only at hp2 hpm
    subst hp2
    have := (parseVecItems_roundTrip (p := ⟨mn, mx, 2⟩) (by rfl) hpm exts
      (fun e he => ext_itemRT (hw.each e he)) body hbody (by rw [hbl]; exact hw.lower)
      (by rw [hbl]; exact hw.upper) s).2
    simp only [extsBlock, hemp, Bool.false_eq_true, if_false]
    exact this


/-! ### the common head of the hello messages -/

theorem rawFixed_roundTrip (n : Nat) : RoundTrip (rawFixed n) (fun v => v.length = n) := by
  intro v hv
  refine ⟨v, by simp [rawFixed, hv], fun s => ?_⟩
  subst hv
  exact parseRaw_nat_append v s

def RandomWf (r : Random) : Prop := r.time < 256 ^ 4 ∧ r.bytes.length = 28

theorem random_roundTrip : RoundTrip randomCodec RandomWf :=
  mapE_roundTrip (seq_roundTrip (num_roundTrip .network rfl) (rawFixed_roundTrip 28)) (fun _ hr => ⟨hr, rfl⟩)

theorem composeRandom_ok {r : Random} (hr : RandomWf r) :
    composeRandom r = .ok (encNat .network 4 r.time ++ r.bytes) := by
  obtain ⟨h1, h2⟩ := hr
  simp only [composeRandom, randomCodec, mapE, seq, num, rawFixed, composeNum_ok (by rfl : validSize 4 = true) h1,
    h2, if_true, bind, Except.bind, pure, Except.pure]

/-- version, random and session id of a hello message a caller can build -/
structure HelloHeadWf (v : Nat) (r : Random) (sid : List Nat) : Prop where
  version : v < Gen.TlsVersion.codes.length
  random : RandomWf r
  sessionIdItems : ∀ x ∈ sid, x < 256 ^ 1
  sessionIdMin : sessionIdParam.min ≤ sid.length * 1
  sessionIdMax : sid.length * 1 ≤ sessionIdParam.max

theorem drop_append_left' {α : Type} (a r : List α) {n : Nat} (h : n = a.length) : (a ++ r).drop n = r := by
  subst h; exact List.drop_left

theorem helloHead_roundTrip {v : Nat} {r : Random} {sid : List Nat} (hw : HelloHeadWf v r sid) :
    ∃ a b c, composeVersion v = .ok a ∧ composeRandom r = .ok b ∧ composeVecNum sessionIdParam 1 sid = .ok c ∧
      a.length = 2 ∧ b.length = 32 ∧ c.length = sessionIdParam.numSize + sid.length ∧
      ∀ s, parseHelloHeader (a ++ (b ++ (c ++ s))) = .ok ((v, r, sid), a.length + b.length + c.length) := by
  obtain ⟨a, ha, haa⟩ := version_roundTrip v hw.version
  obtain ⟨b, hb, hbb⟩ := random_roundTrip r hw.random
  obtain ⟨c, hc, hcl, hcc⟩ := parseVecNum_roundTrip (k := 1) rfl sessionIdParam_ok.1 sessionIdParam_ok.2 sid
    hw.sessionIdItems hw.sessionIdMin hw.sessionIdMax
  have hal : a.length = 2 := by
    have h0 := haa []
    rw [List.append_nil] at h0
    obtain ⟨_, hp, _⟩ := parseCoded_ok_inv h0
    exact (parseNum_ok_inv hp).1
  have hbl : b.length = 32 := by
    have hb' : composeRandom r = .ok b := hb
    rw [composeRandom_ok hw.random] at hb'
    cases hb'
    simp [hw.random.2]
  refine ⟨a, b, c, ha, hb, hc, hal, hbl, by rw [hcl]; simp, fun s => ?_⟩
  unfold parseHelloHeader
  have h1 : parseVersion (a ++ (b ++ (c ++ s))) = .ok (v, a.length) := haa _
  have h2 : parseRandom (b ++ (c ++ s)) = .ok (r, b.length) := hbb _
  rw [h1]
  simp only [bind, Except.bind]
  rw [List.drop_left, h2]
  simp only
  rw [← List.append_assoc, drop_append_left' (a ++ b) (c ++ s) (by simp), hcc s]
  simp only [pure, Except.pure]


/-! ### ClientHello -/

theorem scsv_facts :
    scsvFallback ∉ Gen.TlsCipherSuite.codes ∧ scsvRenegotiation ∉ Gen.TlsCipherSuite.codes ∧
      scsvFallback ≠ scsvRenegotiation ∧ scsvFallback < 256 ^ 2 ∧ scsvRenegotiation < 256 ^ 2 := by
  decide +kernel

/-- number of signalling cipher suite values the two flags add on the wire -/
def scsvCount (h : ClientHello) : Nat :=
  (if h.fallbackScsv then 1 else 0) + (if h.emptyRenegotiationInfoScsv then 1 else 0)

/-- a cipher suite entry of a ClientHello object: a member, or a wrapper around a code that is
neither a member's code nor one of the two signalling values (those live in the flags) -/
def SuiteWf (c : Coded) : Prop :=
  CodedWf Gen.TlsCipherSuite.codes 2 c ∧ codeOfSuite c ≠ scsvFallback ∧ codeOfSuite c ≠ scsvRenegotiation

instance (c : Coded) : Decidable (SuiteWf c) := by unfold SuiteWf; infer_instance

/-- the cipher suite list as it goes on the wire: the signalling values appended -/
def wireSuites (h : ClientHello) : List Coded :=
  h.cipherSuites
    ++ (if h.fallbackScsv then [Coded.unknown scsvFallback] else [])
    ++ (if h.emptyRenegotiationInfoScsv then [Coded.unknown scsvRenegotiation] else [])

theorem wireSuites_length (h : ClientHello) : (wireSuites h).length = h.cipherSuites.length + scsvCount h := by
  obtain ⟨v, r, sid, cs, cm, ex, fb, rn⟩ := h
  unfold wireSuites scsvCount
  cases fb <;> cases rn <;> simp

theorem wireSuites_wf {h : ClientHello} (hs : ∀ c ∈ h.cipherSuites, SuiteWf c) :
    ∀ c ∈ wireSuites h, CodedWf Gen.TlsCipherSuite.codes 2 c := by
  obtain ⟨h1, h2, _, h4, h5⟩ := scsv_facts
  intro c hc
  unfold wireSuites at hc
  rcases List.mem_append.mp hc with hc | hc
  · rcases List.mem_append.mp hc with hc | hc
    · exact (hs c hc).1
    · split at hc
      · simp only [List.mem_singleton] at hc; subst hc; exact ⟨h4, h1⟩
      · simp at hc
  · split at hc
    · simp only [List.mem_singleton] at hc; subst hc; exact ⟨h5, h2⟩
    · simp at hc

/-- the parser's folding of the signalling values undoes the composer's appending -/
theorem wireSuites_fold {h : ClientHello} (hs : ∀ c ∈ h.cipherSuites, SuiteWf c) :
    (wireSuites h).any (fun c => codeOfSuite c == scsvFallback) = h.fallbackScsv ∧
    (wireSuites h).any (fun c => codeOfSuite c != scsvFallback && codeOfSuite c == scsvRenegotiation)
      = h.emptyRenegotiationInfoScsv ∧
    (wireSuites h).filter (fun c => codeOfSuite c != scsvFallback && codeOfSuite c != scsvRenegotiation)
      = h.cipherSuites := by
  obtain ⟨_, _, hne, _, _⟩ := scsv_facts
  have e1 : (scsvRenegotiation == scsvFallback) = false := by
    rw [beq_eq_false_iff_ne]; exact fun e => hne e.symm
  have a1 : h.cipherSuites.any (fun c => codeOfSuite c == scsvFallback) = false := by
    rw [List.any_eq_false]; intro c hc; simpa using (hs c hc).2.1
  have a2 : h.cipherSuites.any
      (fun c => codeOfSuite c != scsvFallback && codeOfSuite c == scsvRenegotiation) = false := by
    rw [List.any_eq_false]; intro c hc; simp [(hs c hc).2.2]
  have a3 : h.cipherSuites.filter
      (fun c => codeOfSuite c != scsvFallback && codeOfSuite c != scsvRenegotiation) = h.cipherSuites := by
    rw [List.filter_eq_self]; intro c hc; simp [(hs c hc).2.1, (hs c hc).2.2]
  have e2 : ¬ scsvRenegotiation = scsvFallback := fun e => hne e.symm
  have c1 : codeOfSuite (.unknown scsvFallback) = scsvFallback := rfl
  have c2 : codeOfSuite (.unknown scsvRenegotiation) = scsvRenegotiation := rfl
  obtain ⟨v, r, sid, cs, cm, ex, fb, rn⟩ := h
  unfold wireSuites
  simp only at a1 a2 a3 ⊢
  cases fb <;> cases rn <;>
    simp [List.any_append, List.filter_append, a1, a2, a3, c1, c2, e1, e2]

/-- The ClientHello objects a caller can build: a version of the table, a 4-byte time and 28
random bytes, at most 32 session id bytes, canonical cipher suites (no signalling value in the
list — they are the two flags) with room left for the flags, canonical compression methods,
well-formed extensions of the client side. (The 24-bit handshake length can never be exceeded
within these bounds.) -/
structure ClientHelloWf (h : ClientHello) : Prop where
  head : HelloHeadWf h.version h.random h.sessionId
  suites : ∀ c ∈ h.cipherSuites, SuiteWf c
  suitesMin : cipherSuiteParam.min ≤ h.cipherSuites.length * 2
  suitesMax : (h.cipherSuites.length + scsvCount h) * 2 ≤ cipherSuiteParam.max
  compression : ∀ c ∈ h.compressionMethods, CodedWf Gen.TlsCompressionMethod.codes 1 c
  compressionMin : compressionParam.min ≤ h.compressionMethods.length * 1
  compressionMax : h.compressionMethods.length * 1 ≤ compressionParam.max
  extensions : ExtsWf Gen.extVariantsClient (vp Gen.vec_TlsExtensionsClient) h.extensions

theorem composeClientHelloInner_eq {h : ClientHello} {a b c d e x : Bytes}
    (ha : composeVersion h.version = .ok a) (hb : composeRandom h.random = .ok b)
    (hc : composeVecNum sessionIdParam 1 h.sessionId = .ok c)
    (hn : (h.cipherSuites.length + scsvCount h) * 2 ≤ cipherSuiteParam.max)
    (hd : composeVecCoded cipherSuiteParam Gen.TlsCipherSuite.codes 2 (wireSuites h) = .ok d)
    (he : composeVecCoded compressionParam Gen.TlsCompressionMethod.codes 1 h.compressionMethods = .ok e)
    (hx : composeExtensions h.extensions = .ok x) :
    composeClientHelloInner h = .ok (a ++ b ++ c ++ d ++ e ++ x) := by
  obtain ⟨v, r, sid, cs, cm, ex, fb, rn⟩ := h
  simp only at ha hb hc hn hd he hx
  unfold composeClientHelloInner
  simp only [ha, hb, hc, bind, Except.bind]
  have hn1 : ¬ ((if fb then cs.length * 2 + 2 else cs.length * 2) > cipherSuiteParam.max) := by
    unfold scsvCount at hn
    cases fb <;> cases rn <;> simp at hn ⊢ <;> omega
  have hn2 : ¬ ((if rn then (if fb then cs.length * 2 + 2 else cs.length * 2) + 2
      else (if fb then cs.length * 2 + 2 else cs.length * 2)) > cipherSuiteParam.max) := by
    unfold scsvCount at hn
    cases fb <;> cases rn <;> simp at hn ⊢ <;> omega
  simp only [hn1, hn2, if_false]
  have hd' := hd
  unfold wireSuites at hd'
  simp only [hd', he, hx, pure, Except.pure]


/-- coded vectors, in the form used below: one composed byte string, parsed back before any suffix -/
theorem vecCoded_rt {p : VecParam} {codes : List Nat} {k : Nat} (ht : TableOk codes k) (hp : ParamOk p)
    (xs : List Coded) (hx : ∀ x ∈ xs, CodedWf codes k x) (hmin : p.min ≤ xs.length * k)
    (hmax : xs.length * k ≤ p.max) :
    ∃ d, composeVecCoded p codes k xs = .ok d ∧ d.length = p.numSize + xs.length * k ∧
      ∀ s, parseVecCoded p codes k (d ++ s) = .ok (xs, d.length) := by
  obtain ⟨b, hb, hbl, _⟩ := parseVecCoded_roundTrip ht (validSize_pos ht.size) hp.1 hp.2 xs hx hmin hmax []
  refine ⟨_, hb, by simp [hbl], fun s => ?_⟩
  obtain ⟨b', hb', _, hpp⟩ := parseVecCoded_roundTrip ht (validSize_pos ht.size) hp.1 hp.2 xs hx hmin hmax s
  rw [hb] at hb'
  have : b = b' := List.append_cancel_left (Except.ok.inj hb')
  subst this
  rw [hpp]
  simp [hbl]

theorem extsBlock_length_le (exts : List Ext) (body : Bytes) : (extsBlock exts body).length ≤ 2 + body.length := by
  unfold extsBlock
  split <;> simp

/-- the optional extension block at the end of a hello payload -/
theorem parseOptExtensions_block {variants : List (String × Nat)} {p : VecParam} (hp2 : p.numSize = 2)
    (hpm : p.max < 256 ^ 2) {exts : List Ext} (hw : ExtsWf variants p exts) :
    ∃ blk, composeExtensions exts = .ok blk ∧ blk.length ≤ 2 + p.max ∧
      ∀ pre, ∃ m, parseOptExtensions variants p (pre ++ blk) pre.length = .ok (exts, m) := by
  obtain ⟨body, hbody, hbl, hc, hp⟩ := exts_roundTrip hp2 hpm hw
  refine ⟨extsBlock exts body, hc, ?_, fun pre => ?_⟩
  · have := extsBlock_length_le exts body
    have := hw.upper
    omega
  · unfold parseOptExtensions
    cases exts with
    | nil =>
      refine ⟨0, ?_⟩
      simp [extsBlock]
    | cons e es =>
      have hpp := hp (by simp) []
      rw [List.append_nil] at hpp
      refine ⟨2 + body.length, ?_⟩
      have hlen : ¬ (pre.length ≥ (pre ++ extsBlock (e :: es) body).length) := by
        simp [extsBlock]; omega
      simp only [hlen, if_false, List.drop_left, hpp]

theorem clientHello_size_facts :
    34 + (sessionIdParam.numSize + sessionIdParam.max) + (cipherSuiteParam.numSize + cipherSuiteParam.max) +
      (compressionParam.numSize + compressionParam.max) + (2 + (vp Gen.vec_TlsExtensionsClient).max) < 256 ^ 3 ∧
    (vp Gen.vec_TlsExtensionsClient).numSize = 2 ∧ (vp Gen.vec_TlsExtensionsClient).max < 256 ^ 2 := by
  decide +kernel

theorem clientHello_eta (h : ClientHello) :
    (⟨h.version, h.random, h.sessionId, h.cipherSuites, h.compressionMethods, h.extensions, h.fallbackScsv,
      h.emptyRenegotiationInfoScsv⟩ : ClientHello) = h := by
  cases h; rfl

/-- the payload parser of ClientHello inverts the payload composer (the "loose" round trip that
`hs_roundTrip` lifts to the framed message) -/
theorem clientHelloInner_roundTrip {h : ClientHello} (hw : ClientHelloWf h) :
    ∃ p, composeClientHelloInner h = .ok p ∧ p.length < 256 ^ 3 ∧
      ∃ m, parseClientHelloInner p = .ok (h, m) := by
  obtain ⟨a, b, c, ha, hb, hc, hal, hbl, hcl, hhead⟩ := helloHead_roundTrip hw.head
  have hwl := wireSuites_length h
  obtain ⟨d, hd, hdl, hdd⟩ := vecCoded_rt cipherSuites_tableOk cipherSuiteParam_ok (wireSuites h)
    (wireSuites_wf hw.suites) (by rw [hwl]; have := hw.suitesMin; omega) (by rw [hwl]; exact hw.suitesMax)
  obtain ⟨e, he, hel, hee⟩ := vecCoded_rt compressionMethods_tableOk compressionParam_ok h.compressionMethods
    hw.compression hw.compressionMin hw.compressionMax
  obtain ⟨hsz, hp2, hpm⟩ := clientHello_size_facts
  obtain ⟨x, hx, hxl, hxx⟩ := parseOptExtensions_block hp2 hpm hw.extensions
  refine ⟨a ++ b ++ c ++ d ++ e ++ x, composeClientHelloInner_eq ha hb hc hw.suitesMax hd he hx, ?_, ?_⟩
  · simp only [List.length_append, hal, hbl, hcl, hdl, hel, hwl]
    have h1 := hw.head.sessionIdMax
    have h2 := hw.suitesMax
    have h3 := hw.compressionMax
    omega
  · obtain ⟨m, hm⟩ := hxx (a ++ b ++ c ++ d ++ e)
    obtain ⟨f1, f2, f3⟩ := wireSuites_fold hw.suites
    refine ⟨a.length + b.length + c.length + d.length + e.length + m, ?_⟩
    unfold parseClientHelloInner
    have hassoc : a ++ b ++ c ++ d ++ e ++ x = a ++ (b ++ (c ++ (d ++ (e ++ x)))) := by
      simp only [List.append_assoc]
    have h1 : parseHelloHeader (a ++ b ++ c ++ d ++ e ++ x) =
        .ok ((h.version, h.random, h.sessionId), a.length + b.length + c.length) := by
      rw [hassoc]; exact hhead _
    have hd1 : (a ++ b ++ c ++ d ++ e ++ x).drop (a.length + b.length + c.length) = d ++ (e ++ x) := by
      have : a ++ b ++ c ++ d ++ e ++ x = (a ++ b ++ c) ++ (d ++ (e ++ x)) := by simp only [List.append_assoc]
      rw [this]; exact drop_append_left' _ _ (by simp; omega)
    have hd2 : (a ++ b ++ c ++ d ++ e ++ x).drop (a.length + b.length + c.length + d.length) = e ++ x := by
      have : a ++ b ++ c ++ d ++ e ++ x = (a ++ b ++ c ++ d) ++ (e ++ x) := by simp only [List.append_assoc]
      rw [this]; exact drop_append_left' _ _ (by simp; omega)
    have hpos : a.length + b.length + c.length + d.length + e.length = (a ++ b ++ c ++ d ++ e).length := by
      simp; omega
    rw [h1]
    simp only [bind, Except.bind]
    rw [hd1, hdd]
    simp only
    rw [hd2, hee]
    simp only
    rw [hpos, hm]
    simp only [f1, f2, f3, checkBounds_ok hw.suitesMin (by have := hw.suitesMax; omega), pure, Except.pure,
      clientHello_eta]

theorem clientHello_roundTrip : RoundTrip clientHelloCodec ClientHelloWf :=
  hs_roundTrip hsMember_1 (fun _ hw => clientHelloInner_roundTrip hw)


/-! ### ServerHello / HelloRetryRequest -/

/-- The ServerHello (handshake type 2) / HelloRetryRequest (type 6) objects a caller can build. -/
structure ServerHelloWf (typ : Nat) (h : ServerHello) : Prop where
  hsType : h.hsType = typ
  head : HelloHeadWf h.version h.random h.sessionId
  suite : h.cipherSuite < Gen.TlsCipherSuite.codes.length
  compression : h.compressionMethod < Gen.TlsCompressionMethod.codes.length
  extensions : ExtsWf Gen.extVariantsServer (vp Gen.vec_TlsExtensionsServer) h.extensions

theorem codedStrict_rt {codes : List Nat} {k : Nat} (ht : TableOk codes k) {i : Nat} (hi : i < codes.length) :
    ∃ d, composeCoded codes k i = .ok d ∧ d.length = k ∧ ∀ s, parseCoded codes k (d ++ s) = .ok (i, d.length) := by
  obtain ⟨d, hd, hdd⟩ := codedStrict_roundTrip ht i hi
  refine ⟨d, hd, ?_, hdd⟩
  have h0 := hdd []
  rw [List.append_nil] at h0
  obtain ⟨_, hp, _⟩ := parseCoded_ok_inv h0
  exact (parseNum_ok_inv hp).1

theorem serverHello_size_facts :
    37 + (sessionIdParam.numSize + sessionIdParam.max) + (2 + (vp Gen.vec_TlsExtensionsServer).max) < 256 ^ 3 ∧
    (vp Gen.vec_TlsExtensionsServer).numSize = 2 ∧ (vp Gen.vec_TlsExtensionsServer).max < 256 ^ 2 := by
  decide +kernel

theorem serverHelloInner_roundTrip {typ : Nat} {h : ServerHello} (hw : ServerHelloWf typ h) :
    ∃ p, composeServerHelloInner h = .ok p ∧ p.length < 256 ^ 3 ∧
      ∃ m, parseServerHelloInner typ p = .ok (h, m) := by
  obtain ⟨a, b, c, ha, hb, hc, hal, hbl, hcl, hhead⟩ := helloHead_roundTrip hw.head
  obtain ⟨d, hd, hdl, hdd⟩ := codedStrict_rt cipherSuites_tableOk hw.suite
  obtain ⟨e, he, hel, hee⟩ := codedStrict_rt compressionMethods_tableOk hw.compression
  obtain ⟨hsz, hp2, hpm⟩ := serverHello_size_facts
  obtain ⟨x, hx, hxl, hxx⟩ := parseOptExtensions_block hp2 hpm hw.extensions
  refine ⟨a ++ b ++ c ++ d ++ e ++ x, ?_, ?_, ?_⟩
  · simp only [composeServerHelloInner, ha, hb, hc, hd, he, hx, bind, Except.bind, pure, Except.pure]
  · simp only [List.length_append, hal, hbl, hcl, hdl, hel]
    have h1 := hw.head.sessionIdMax
    omega
  · obtain ⟨m, hm⟩ := hxx (a ++ b ++ c ++ d ++ e)
    refine ⟨a.length + b.length + c.length + d.length + e.length + m, ?_⟩
    unfold parseServerHelloInner
    have hassoc : a ++ b ++ c ++ d ++ e ++ x = a ++ (b ++ (c ++ (d ++ (e ++ x)))) := by
      simp only [List.append_assoc]
    have h1 : parseHelloHeader (a ++ b ++ c ++ d ++ e ++ x) =
        .ok ((h.version, h.random, h.sessionId), a.length + b.length + c.length) := by
      rw [hassoc]; exact hhead _
    have hd1 : (a ++ b ++ c ++ d ++ e ++ x).drop (a.length + b.length + c.length) = d ++ (e ++ x) := by
      have : a ++ b ++ c ++ d ++ e ++ x = (a ++ b ++ c) ++ (d ++ (e ++ x)) := by simp only [List.append_assoc]
      rw [this]; exact drop_append_left' _ _ (by simp; omega)
    have hd2 : (a ++ b ++ c ++ d ++ e ++ x).drop (a.length + b.length + c.length + d.length) = e ++ x := by
      have : a ++ b ++ c ++ d ++ e ++ x = (a ++ b ++ c ++ d) ++ (e ++ x) := by simp only [List.append_assoc]
      rw [this]; exact drop_append_left' _ _ (by simp; omega)
    have hpos : a.length + b.length + c.length + d.length + e.length = (a ++ b ++ c ++ d ++ e).length := by
      simp; omega
    rw [h1]
    simp only [bind, Except.bind]
    rw [hd1, hdd]
    simp only
    rw [hd2, hee]
    simp only
    rw [hpos, hm]
    simp only [pure, Except.pure]
    have : (⟨typ, h.version, h.random, h.sessionId, h.cipherSuite, h.compressionMethod, h.extensions⟩ : ServerHello)
        = h := by
      have := hw.hsType
      cases h; simp only at this; subst this; rfl
    rw [this]

theorem serverHello_roundTrip {typ : Nat} (htyp : typ = 2 ∨ typ = 6) :
    RoundTrip (serverHelloCodec typ) (ServerHelloWf typ) := by
  have hm : typ ∈ Gen.TlsHandshakeType.memberCodes := by
    rcases htyp with rfl | rfl
    · exact hsMember_2
    · exact hsMember_6
  exact hs_roundTrip hm (fun _ hw => serverHelloInner_roundTrip hw)


/-! ### what the extension parsers accept -/

theorem parseNum_ok_dec {bo : ByteOrder} {k : Nat} {rest : Bytes} {v n : Nat}
    (h : parseNum bo k rest = .ok (v, n)) : v = decNat bo (rest.take k) := by
  obtain ⟨_, _, hv, henc, _⟩ := parseNum_ok_inv h
  rw [← henc, decNat_encNat_of_lt bo k v hv]

/-- a body the class's parser returned is one a caller could have built -/
theorem parseExtBody_ok_wf {kind : ExtKind} {len : Nat} {rest : Bytes} {body : ExtBody} {m : Nat}
    (h : parseExtBody kind len rest = .ok (body, m)) : BodyWf kind body := by
  cases kind with
  | ext2 k =>
    simp only [parseExtBody] at h
    obtain ⟨⟨b, m'⟩, h1, h2⟩ := exceptBind_ok_inv h
    cases h2
    exact parseExt2Body_ok_wf h1
  | unusedData =>
    simp only [parseExtBody] at h
    obtain ⟨⟨d, m'⟩, _, h2⟩ := exceptBind_ok_inv h
    simp only at h2
    split at h2
    · cases h2; exact trivial
    · cases h2
  | vecCoded p codes k =>
    simp only [parseExtBody] at h
    obtain ⟨⟨items, m'⟩, h1, h2⟩ := exceptBind_ok_inv h
    cases h2
    obtain ⟨hi, hmin, hmax, _⟩ := parseVecCoded_ok_inv h1
    exact ⟨hi, hmin, hmax⟩
  | renegotiationInfo =>
    simp only [parseExtBody] at h
    obtain ⟨⟨d, m'⟩, h1, h2⟩ := exceptBind_ok_inv h
    cases h2
    exact parseOpaque_ok_inv h1
  | sessionTicket =>
    simp only [parseExtBody] at h
    obtain ⟨⟨d, m'⟩, h1, h2⟩ := exceptBind_ok_inv h
    cases h2
    exact trivial
  | padding =>
    simp only [parseExtBody] at h
    obtain ⟨⟨d, m'⟩, _, h2⟩ := exceptBind_ok_inv h
    simp only at h2
    split at h2
    · cases h2; exact trivial
    · cases h2
  | recordSizeLimit =>
    simp only [parseExtBody] at h
    obtain ⟨⟨v, m'⟩, h1, h2⟩ := exceptBind_ok_inv h
    cases h2
    exact (parseNum_ok_inv h1).2.2.1
  | supportedVersionsClient =>
    simp only [parseExtBody] at h
    obtain ⟨⟨items, m'⟩, h1, h2⟩ := exceptBind_ok_inv h
    cases h2
    have h1' : parseVecCoded (vp Gen.vec_TlsSupportedVersionVector) Gen.TlsVersion.codes 2 rest = .ok (items, m') := h1
    obtain ⟨hi, hmin, hmax, _⟩ := parseVecCoded_ok_inv h1'
    exact ⟨hi, hmin, hmax⟩
  | supportedVersionsServer =>
    simp only [parseExtBody] at h
    obtain ⟨⟨i, m'⟩, h1, h2⟩ := exceptBind_ok_inv h
    cases h2
    obtain ⟨c, _, hf⟩ := parseCoded_ok_inv h1
    exact findCode_lt hf

theorem parseCoded_invalidValue_inv {codes : List Nat} {k : Nat} (hk : validSize k = true) {bs : Bytes}
    (h : parseCoded codes k bs = .error .invalidValue) :
    ∃ c, parseNum .network k bs = .ok (c, k) ∧ findCode c codes = none := by
  unfold parseCoded at h
  cases hp : parseNum .network k bs with
  | error e =>
    simp only [hp, bind, Except.bind] at h
    cases h
    exact absurd rfl (parseNum_sizeErr hk hp).ne_invalidValue
  | ok r =>
    obtain ⟨c, n⟩ := r
    simp only [hp, bind, Except.bind] at h
    have hn := (parseNum_ok_inv hp).1
    subst hn
    cases hf : findCode c codes with
    | none => exact ⟨c, rfl, hf⟩
    | some i => simp [hf, pure, Except.pure] at h

/-! ### `TlsExtensionUnparsed._parse` and the header part of the variant, taken apart -/

theorem parseExtUnparsed_ok_inv {bs : Bytes} {e : Ext} {n : Nat} (h : parseExtUnparsed bs = .ok (e, n)) :
    ∃ t len, parseNum .network 2 bs = .ok (t, 2) ∧ parseNum .network 2 (bs.drop 2) = .ok (len, 2) ∧
      len ≤ (bs.drop 4).length ∧ e = ⟨"TlsExtensionUnparsed", t, .raw ((bs.drop 4).take len)⟩ ∧ n = 4 + len := by
  unfold parseExtUnparsed at h
  obtain ⟨⟨t, n1⟩, h1, h⟩ := exceptBind_ok_inv h
  simp only at h
  obtain ⟨⟨len, n2⟩, h2, h⟩ := exceptBind_ok_inv h
  simp only at h
  have e1 := (parseNum_ok_inv h1).1
  have e2 := (parseNum_ok_inv h2).1
  subst e1; subst e2
  split at h
  · cases h
  · next hl =>
    obtain ⟨⟨d, m⟩, h3, h⟩ := exceptBind_ok_inv h
    obtain ⟨_, hm, _, hd⟩ := parseRaw_ok_inv h3
    simp only [Int.toNat_natCast] at hm
    simp only [pure, Except.pure] at h
    cases h
    subst hm
    exact ⟨t, m, h1, h2, by omega, by rw [hd], rfl⟩

theorem parseExtUnparsed_sizeErr {bs : Bytes} {e : PErr} (h : parseExtUnparsed bs = .error e) : SizeErr e := by
  unfold parseExtUnparsed at h
  rcases exceptBind_err_inv h with h1 | ⟨⟨t, n1⟩, _, h⟩
  · exact parseNum_sizeErr (by rfl) h1
  · simp only at h
    rcases exceptBind_err_inv h with h2 | ⟨⟨len, n2⟩, _, h⟩
    · exact parseNum_sizeErr (by rfl) h2
    · simp only at h
      split at h
      · cases h; exact .inl ⟨_, rfl⟩
      · rcases exceptBind_err_inv h with h3 | ⟨⟨d, m⟩, _, h⟩
        · exact parseRaw_nat_sizeErr h3
        · cases h

/-- the three ways `TlsExtensionVariant*._parse` can go -/
theorem parseExtVariant_cases (variants : List (String × Nat)) (bs : Bytes) :
    (∃ e, parseExtVariant variants bs = .error e ∧ SizeErr e) ∨
    (∃ t, parseNum .network 2 bs = .ok (t, 2) ∧ t ∉ Gen.ExtensionType.codes ∧
      parseExtVariant variants bs = .error .invalidValue) ∨
    (∃ t len, parseNum .network 2 bs = .ok (t, 2) ∧ t ∈ Gen.ExtensionType.codes ∧
      parseNum .network 2 (bs.drop 2) = .ok (len, 2) ∧ len ≤ (bs.drop 4).length ∧
      parseExtVariant variants bs = completeExt (walkExtVariants t len bs variants)) := by
  unfold parseExtVariant
  cases hc : parseCoded Gen.ExtensionType.codes 2 bs with
  | error e =>
    simp only
    rcases parseCoded_benign (by rfl) hc with hs | rfl
    · exact .inl ⟨e, rfl, hs⟩
    · obtain ⟨c, hp, hf⟩ := parseCoded_invalidValue_inv (by rfl) hc
      exact .inr (.inl ⟨c, hp, findCode_none hf, rfl⟩)
  | ok r =>
    obtain ⟨ti, n⟩ := r
    obtain ⟨c, hp, hf⟩ := parseCoded_ok_inv hc
    have hn := (parseNum_ok_inv hp).1
    subst hn
    have hg : Gen.ExtensionType.codes.getD ti 0 = c := by simp [List.getD, findCode_sound hf]
    simp only [hg]
    cases hl : parseNum .network 2 (bs.drop 2) with
    | error e => exact .inl ⟨e, rfl, parseNum_sizeErr (by rfl) hl⟩
    | ok r2 =>
      obtain ⟨len, n2⟩ := r2
      have hn2 := (parseNum_ok_inv hl).1
      subst hn2
      simp only
      split
      · exact .inl ⟨_, rfl, .inl ⟨_, rfl⟩⟩
      · next hlen =>
        exact .inr (.inr ⟨c, len, hp, List.mem_of_getElem? (findCode_sound hf), rfl, by omega, rfl⟩)


theorem orElse_of_invalid {α : Type} {a b : Bytes → Except PErr (α × Nat)} {bs : Bytes}
    (h : a bs = .error .invalidValue) : orElseInvalid a b bs = b bs := by
  unfold orElseInvalid; rw [h]

theorem orElse_of_ne {α : Type} {a b : Bytes → Except PErr (α × Nat)} {bs : Bytes}
    (h : a bs ≠ .error .invalidValue) : orElseInvalid a b bs = a bs := by
  unfold orElseInvalid
  split
  · next h' => exact absurd h' h
  · rfl

theorem orElse_same {α : Type} {a b : Bytes → Except PErr (α × Nat)} {bs : Bytes}
    (h : a bs = b bs) : orElseInvalid a b bs = b bs := by
  unfold orElseInvalid
  split
  · rfl
  · exact h

theorem orElse_complete {a b : Bytes → Except PErr (Ext × Nat)} {bs : Bytes}
    (h : a bs = completeExt (b bs)) : orElseInvalid a b bs = b bs := by
  cases hb : b bs with
  | ok r => rw [hb, completeExt_ok] at h; rw [← hb]; exact orElse_same (h.trans hb.symm)
  | error e =>
    rw [hb] at h
    by_cases hr : Refusal e
    · rw [completeExt_refusal hr] at h; rw [← hb]; exact orElse_of_invalid h
    · rw [completeExt_other hr] at h; rw [← hb]; exact orElse_same (h.trans hb.symm)

/-- an object of a modelled parsed class as the parser returns it (the payload size is not yet
known to fit the 16-bit length: the vector constructor checks that afterwards); `len` is the
length the extension declared, which the class need not have honoured -/
def ParsedForm (variants : List (String × Nat)) (e : Ext) : Prop :=
  ∃ kind len, e.typ < 256 ^ 2 ∧ e.typ ∈ Gen.ExtensionType.codes ∧ resolve variants e.typ len = some e.cls ∧
    e.cls ≠ "TlsExtensionUnparsed" ∧ extKindOf e.cls = some kind ∧ BodyWf kind e.body

theorem unmodelled_ne_invalidValue : unmodelled ≠ PErr.invalidValue := by simp [unmodelled]

/-- everything one position of the extension vector can yield -/
theorem parseExt_ok_inv {variants : List (String × Nat)} {bs : Bytes} {e : Ext} {n : Nat}
    (h : parseExt variants bs = .ok (e, n)) :
    4 ≤ n ∧ (ExtWf variants e ∨ ParsedForm variants e) := by
  unfold parseExt at h
  -- the fallback class's result, when it is what comes out
  have hU : ∀ t len, parseNum .network 2 bs = .ok (t, 2) → parseNum .network 2 (bs.drop 2) = .ok (len, 2) →
      len ≤ (bs.drop 4).length → parseExtUnparsed bs = .ok (e, n) →
      e = ⟨"TlsExtensionUnparsed", t, .raw ((bs.drop 4).take len)⟩ ∧ n = 4 + len ∧ t < 256 ^ 2 ∧
        ((bs.drop 4).take len).length < 256 ^ 2 ∧ ((bs.drop 4).take len).length = len := by
    intro t len ht hl hle0 hu
    obtain ⟨t', len', ht', hl', hle, he, hn⟩ := parseExtUnparsed_ok_inv hu
    rw [ht] at ht'; rw [hl] at hl'
    cases ht'; cases hl'
    have := (parseNum_ok_inv hl).2.2.1
    have hlt : ((bs.drop 4).take len).length = len := by rw [List.length_take]; omega
    exact ⟨he, hn, (parseNum_ok_inv ht).2.2.1, by omega, hlt⟩
  rcases parseExtVariant_cases variants bs with ⟨e0, hv, hs⟩ | ⟨t, ht, hno, hv⟩ | ⟨t, len, ht, hmem, hl, hlen, hv⟩
  · rw [orElse_of_ne (by rw [hv]; intro hc; cases hc; exact hs.ne_invalidValue rfl), hv] at h
    cases h
  · rw [orElse_of_invalid hv] at h
    obtain ⟨t', len, _, hl, hle, _, _⟩ := parseExtUnparsed_ok_inv h
    obtain ⟨he, hn, htl, hdl, _⟩ := hU t len ht hl hle h
    subst he
    exact ⟨by omega, .inl (.unknownType htl hdl hno)⟩
  · rw [walkExtVariants_eq] at hv
    cases hr : resolve variants t len with
    | none =>
      simp only [hr] at hv
      rw [orElse_of_invalid hv] at h
      obtain ⟨he, hn, htl, hdl, hlt⟩ := hU t len ht hl hlen h
      subst he
      exact ⟨by omega, .inl (.noClass htl hdl (by rw [hlt]; exact hr))⟩
    | some cls =>
      simp only [hr] at hv
      by_cases hcls : cls = "TlsExtensionUnparsed"
      · subst hcls
        rw [classParse_unparsed] at hv
        rw [orElse_complete hv] at h
        obtain ⟨he, hn, htl, hdl, hlt⟩ := hU t len ht hl hlen h
        subst he
        exact ⟨by omega, .inl (.unparsed htl hdl (by rw [hlt]; exact hr))⟩
      · cases hk : extKindOf cls with
        | none =>
          rw [classParse_unmodelled hcls hk] at hv
          rw [orElse_of_ne (by rw [hv]; intro hc; cases hc), hv] at h
          cases h
        | some kind =>
          cases hb : parseExtBody kind len ((bs.drop 4).take len) with
          | ok r =>
            obtain ⟨body, m⟩ := r
            rw [classParse_parsed_ok hcls hk hb] at hv
            rw [orElse_of_ne (by rw [hv]; intro hc; cases hc), hv] at h
            cases h
            exact ⟨by omega, .inr ⟨kind, len, (parseNum_ok_inv ht).2.2.1, hmem, hr, hcls, hk,
              parseExtBody_ok_wf hb⟩⟩
          | error e0 =>
            rw [classParse_parsed_err hcls hk hb] at hv
            by_cases he0 : Refusal e0
            · rw [completeExt_refusal he0] at hv
              rw [orElse_of_invalid hv] at h
              obtain ⟨he, hn, htl, hdl, hlt⟩ := hU t len ht hl hlen h
              subst he
              refine ⟨by omega, ?_⟩
              have hr' : resolve variants t ((bs.drop 4).take len).length = some cls := by rw [hlt]; exact hr
              have hrej : KindRejects kind ((bs.drop 4).take len) := by
                refine ⟨e0, ?_, he0⟩
                rw [hlt]; exact hb
              exact .inl (.rejected htl hdl hr' hcls hk hrej)
            · rw [completeExt_other he0] at hv
              rw [orElse_of_ne (by rw [hv]; intro hc; cases hc; exact he0 (.inl rfl)), hv] at h
              cases h


/-! ### the class an extension resolves to does not change between the declared length and the
composed size -/

/-- kinds whose well-formed bodies never compose to exactly two bytes (so that the two-byte
HelloRetryRequest form of `key_share`, tried first, declines their composition as it declined what
they were parsed from) -/
def ExtKind.neverTwo : ExtKind → Bool
  | .ext2 .keyShareServer => true
  | _ => false

theorem neverTwo_size {kind : ExtKind} {body : ExtBody} (h : kind.neverTwo = true) (hw : BodyWf kind body) :
    bodySize kind body ≠ 2 := by
  cases kind <;> simp [ExtKind.neverTwo] at h
  next k =>
  cases k <;> simp at h
  cases body <;> try exact absurd hw id
  next b =>
  cases b <;> try exact absurd hw id
  simp only [bodySize, ext2BodySize]
  omega

theorem declines_iff {kind : ExtKind} {len : Nat} :
    kind.declines len = true ↔ (kind = .ext2 .keyShareHelloRetry ∧ len ≠ 2) := by
  cases kind <;> simp [ExtKind.declines]
  next k => cases k <;> simp [Ext2Kind.declines]

theorem helloRetry_size {body : ExtBody} (hw : BodyWf (.ext2 .keyShareHelloRetry) body) :
    bodySize (.ext2 .keyShareHelloRetry) body = 2 := by
  cases body <;> try exact absurd hw id
  next b =>
  cases b <;> try exact absurd hw id
  rfl

def clsDeclines (cls : String) : Bool :=
  match extKindOf cls with
  | some (.ext2 .keyShareHelloRetry) => true
  | _ => false

def clsNeverTwo (cls : String) : Bool :=
  match extKindOf cls with
  | some k => k.neverTwo
  | none => false

/-- every class registered AFTER a declining class for the same type never composes to a length
the declining class would take (decided on the regenerated lists) -/
def stableB : List (String × Nat) → Bool
  | [] => true
  | (c, t) :: more =>
    (if clsDeclines c then more.all (fun q => q.2 != t || clsNeverTwo q.1) else true) && stableB more

theorem resolve_stable {variants : List (String × Nat)} (hs : stableB variants = true) {t len : Nat}
    {cls : String} {kind : ExtKind} {body : ExtBody} (hr : resolve variants t len = some cls)
    (hne : cls ≠ "TlsExtensionUnparsed") (hk : extKindOf cls = some kind) (hw : BodyWf kind body) :
    resolve variants t (bodySize kind body) = some cls := by
  induction variants with
  | nil => cases hr
  | cons v more ih =>
    obtain ⟨c, t0⟩ := v
    simp only [stableB, Bool.and_eq_true] at hs
    unfold resolve at hr ⊢
    by_cases h1 : (c == "TlsExtensionUnparsed") = true
    · simp only [h1, if_true] at hr ⊢
      exact hr
    · simp only [h1, if_false, Bool.false_eq_true] at hr ⊢
      by_cases h2 : (t0 != t) = true
      · simp only [h2, if_true] at hr ⊢
        exact ih hs.2 hr
      · simp only [h2, if_false, Bool.false_eq_true] at hr ⊢
        have ht0 : t0 = t := by simpa using h2
        cases hk0 : extKindOf c with
        | none =>
          simp only [hk0] at hr ⊢
          exact hr
        | some k0 =>
          simp only [hk0] at hr ⊢
          by_cases hd : k0.declines len = true
          · simp only [hd, if_true] at hr
            obtain ⟨hk0e, _⟩ := declines_iff.mp hd
            -- the declining class also declines the composed size of the class found further on
            obtain ⟨code, hm, hc⟩ := resolve_mem hr
            have hcode : code = t := by
              rcases hc with hc | hc
              · exact absurd hc hne
              · exact hc
            have hcd : clsDeclines c = true := by simp [clsDeclines, hk0, hk0e]
            have hall := hs.1
            simp only [hcd, if_true] at hall
            have hq := List.all_eq_true.mp hall _ hm
            simp only [hcode, ht0, bne_self_eq_false, Bool.false_or] at hq
            have hnt : kind.neverTwo = true := by simpa [clsNeverTwo, hk] using hq
            have hsz := neverTwo_size hnt hw
            have hd2 : k0.declines (bodySize kind body) = true := declines_iff.mpr ⟨hk0e, hsz⟩
            simp only [hd2, if_true]
            exact ih hs.2 hr
          · have hd' : k0.declines len = false := by simpa using hd
            simp only [hd', Bool.false_eq_true, if_false] at hr
            cases hr
            rw [hk0] at hk
            cases hk
            have hd2 : kind.declines (bodySize kind body) = false := by
              cases hx : kind.declines (bodySize kind body) with
              | false => rfl
              | true =>
                obtain ⟨hk0e, hne2⟩ := declines_iff.mp hx
                subst hk0e
                exact absurd (helloRetry_size hw) hne2
            simp only [hd2, Bool.false_eq_true, if_false]


/-! ### from "accepted by the parser" to "constructible" -/

theorem composeNum_err_inv {bo : ByteOrder} {k v : Nat} (hk : validSize k = true) {e : PErr}
    (h : composeNum bo k (v : Int) = .error e) : e = .invalidValue := by
  unfold composeNum at h
  split at h
  · next hv => simp [hk] at hv
  · split at h
    · cases h; rfl
    · split at h
      · cases h; rfl
      · cases h

/-- an object of a parsed class that the parser returned and whose composition succeeds (that is
what the vector constructor's size computation needs) is a constructible value -/
theorem parsedForm_wf {variants : List (String × Nat)} (hst : stableB variants = true) {e : Ext}
    (hf : ParsedForm variants e) {b : Bytes} (hc : composeExt e = .ok b) : ExtWf variants e := by
  obtain ⟨kind, len, ht, hmem, hr, hne, hk, hb⟩ := hf
  obtain ⟨cls, t, body⟩ := e
  rw [composeExt_parsed hne hk] at hc
  obtain ⟨pl, hpl, _, hfit, _⟩ := withHeader_ok_inv hc
  rcases body_compose (extKindOf_ok hk) hb with ⟨payload, hp, hlen⟩ | ⟨herr, _⟩
  · rw [hp] at hpl
    cases hpl
    exact .parsed ht hmem (resolve_stable hst hr hne hk hb) hne hk hb (by rw [← hlen]; exact hfit)
  · rw [herr] at hpl
    cases hpl

theorem parsedForm_compose_err {variants : List (String × Nat)} {e : Ext} (hf : ParsedForm variants e)
    {e' : PErr} (hc : composeExt e = .error e') : e' = .invalidValue := by
  obtain ⟨kind, len, ht, hmem, hr, hne, hk, hb⟩ := hf
  obtain ⟨cls, t, body⟩ := e
  rw [composeExt_parsed hne hk] at hc
  rcases body_compose (extKindOf_ok hk) hb with ⟨payload, hp, hlen⟩ | ⟨herr, _⟩
  · rw [hp] at hc
    unfold withHeader composeExtHeader at hc
    simp only [bind, Except.bind] at hc
    cases h1 : composeNum .network 2 (t : Int) with
    | error e1 =>
      simp only [h1] at hc
      cases hc
      exact composeNum_err_inv (by rfl) h1
    | ok a =>
      simp only [h1] at hc
      cases h2 : composeNum .network 2 (payload.length : Int) with
      | error e2 =>
        simp only [h2] at hc
        cases hc
        exact composeNum_err_inv (by rfl) h2
      | ok c => simp [h2, pure, Except.pure] at hc
  · rw [herr] at hc
    simp only [withHeader, bind, Except.bind] at hc
    cases hc
    rfl

theorem sumSizes_ok_inv {α : Type} {sizeOf : α → Except PErr Nat} {xs : List α} {sz : Nat}
    (h : sumSizes sizeOf xs = .ok sz) : ∀ x ∈ xs, ∃ a, sizeOf x = .ok a := by
  induction xs generalizing sz with
  | nil => simp
  | cons x xs ih =>
    simp only [sumSizes] at h
    obtain ⟨a, ha, h⟩ := exceptBind_ok_inv h
    obtain ⟨r, hr, _⟩ := exceptBind_ok_inv h
    intro y hy
    rcases List.mem_cons.mp hy with rfl | hy
    · exact ⟨a, ha⟩
    · exact ih hr y hy

theorem sumSizes_extSize {variants : List (String × Nat)} {exts : List Ext}
    (h : ∀ e ∈ exts, ExtWf variants e) : sumSizes extSize exts = .ok (extsSize exts) := by
  induction exts with
  | nil => rfl
  | cons e es ih =>
    obtain ⟨b, hb, hbl⟩ := composeExt_wf (h e (List.mem_cons_self ..))
    have he : extSize e = .ok (4 + payloadSize e) := by
      simp only [extSize, hb, Except.map, hbl]
    simp only [sumSizes, he, ih (fun y hy => h y (List.mem_cons_of_mem _ hy)), bind, Except.bind, pure,
      Except.pure, extsSize]

theorem extSize_ok_inv {e : Ext} {a : Nat} (h : extSize e = .ok a) : ∃ b, composeExt e = .ok b := by
  unfold extSize at h
  cases hc : composeExt e with
  | error e' => simp [hc, Except.map] at h
  | ok b => exact ⟨b, rfl⟩

/-- what the extension vector parser accepts is a constructible extension list (every class reads
its own extension only, so nothing an extension is parsed to depends on its neighbours) -/
theorem parseExtensions_ok_inv {variants : List (String × Nat)} (hst : stableB variants = true) {p : VecParam}
    {bs : Bytes} {exts : List Ext} {n : Nat} (h : parseExtensions variants p bs = .ok (exts, n)) :
    ExtsWf variants p exts := by
  obtain ⟨len, sz, _, _, hi, hs, hmin, hmax, _⟩ := parseVecItems_ok_inv h
  have hall : ∀ e ∈ exts, ExtWf variants e := by
    intro e he
    obtain ⟨b', n', hp⟩ := parseItems_ok_forall hi e he
    rcases (parseExt_ok_inv hp).2 with hw | hf
    · exact hw
    · obtain ⟨a, ha⟩ := sumSizes_ok_inv hs e he
      obtain ⟨b, hb⟩ := extSize_ok_inv ha
      exact parsedForm_wf hst hf hb
  rw [sumSizes_extSize hall] at hs
  cases hs
  exact ⟨hall, hmin, hmax⟩

theorem parseOptExtensions_ok_inv {variants : List (String × Nat)} (hst : stableB variants = true)
    {p : VecParam} (hp0 : p.min = 0)
    {pl : Bytes} {pos : Nat} {exts : List Ext} {n : Nat}
    (h : parseOptExtensions variants p pl pos = .ok (exts, n)) :
    ExtsWf variants p exts := by
  unfold parseOptExtensions at h
  split at h
  · cases h
    exact ⟨by simp, by simp [extsSize, hp0], by simp [extsSize]⟩
  · exact parseExtensions_ok_inv hst h

/-! ### the hello head -/

theorem numItems_spec (bo : ByteOrder) (k n : Nat) (b : Bytes) :
    (numItems bo k n b).length = n ∧ ∀ x ∈ numItems bo k n b, x < 256 ^ k := by
  induction n generalizing b with
  | zero => simp [numItems]
  | succ n ih =>
    obtain ⟨h1, h2⟩ := ih (b.drop k)
    refine ⟨by simp [numItems, h1], ?_⟩
    intro x hx
    simp only [numItems, List.mem_cons] at hx
    rcases hx with rfl | hx
    · have := decNat_lt bo (b.take k)
      have hle : 256 ^ (b.take k).length ≤ 256 ^ k :=
        Nat.pow_le_pow_right (by decide) (by simp; omega)
      omega
    · exact h2 x hx

theorem parseVecNum_ok_inv {p : VecParam} {k : Nat} {bs : Bytes} {xs : List Nat} {t : Nat}
    (h : parseVecNum p k (fun x => .ok x) bs = .ok (xs, t)) :
    (∀ x ∈ xs, x < 256 ^ k) ∧ p.min ≤ xs.length * k ∧ xs.length * k ≤ p.max := by
  unfold parseVecNum at h
  obtain ⟨⟨len, n⟩, _, h⟩ := exceptBind_ok_inv h
  simp only at h
  obtain ⟨⟨raw, m⟩, h2, h⟩ := exceptBind_ok_inv h
  simp only at h
  rw [mapM_ok_id] at h
  obtain ⟨items, h3, h⟩ := exceptBind_ok_inv h
  cases h3
  obtain ⟨u, h4, h⟩ := exceptBind_ok_inv h
  simp only [pure, Except.pure] at h
  cases h
  obtain ⟨hmin, hmax⟩ := checkBounds_ok_inv h4
  unfold parseNumArray at h2
  split at h2
  · cases h2
  · split at h2
    · cases h2
    · cases h2
      obtain ⟨hl, hlt⟩ := numItems_spec .network k (len / k) (bs.drop n)
      rw [hl]
      exact ⟨hlt, hmin, hmax⟩

theorem parseRandom_ok_inv {bs : Bytes} {r : Random} {n : Nat} (h : parseRandom bs = .ok (r, n)) :
    RandomWf r := by
  obtain ⟨⟨t, b⟩, hx, hf⟩ := mapE_parse_ok_inv (c := seq (num .network 4) (rawFixed 28)) h
  cases hf
  obtain ⟨n1, n2, h1, h2, _⟩ := seq_parse_ok_inv hx
  refine ⟨(parseNum_ok_inv h1).2.2.1, ?_⟩
  have h2' : parseRaw ((28 : Nat) : Int) (bs.drop n1) = .ok (b, n2) := h2
  obtain ⟨_, hm, hle, hv⟩ := parseRaw_ok_inv h2'
  simp only [Int.toNat_natCast] at hm
  subst hm
  simp only
  rw [hv]
  simp only [List.length_take]
  omega

theorem parseHelloHeader_ok_inv {pl : Bytes} {v : Nat} {r : Random} {sid : List Nat} {n : Nat}
    (h : parseHelloHeader pl = .ok ((v, r, sid), n)) : HelloHeadWf v r sid := by
  unfold parseHelloHeader at h
  obtain ⟨⟨v', n1⟩, h1, h⟩ := exceptBind_ok_inv h
  simp only at h
  obtain ⟨⟨r', n2⟩, h2, h⟩ := exceptBind_ok_inv h
  simp only at h
  obtain ⟨⟨sid', n3⟩, h3, h⟩ := exceptBind_ok_inv h
  simp only [pure, Except.pure] at h
  cases h
  obtain ⟨hi, hmin, hmax⟩ := parseVecNum_ok_inv h3
  exact ⟨version_parseWf _ _ _ h1, parseRandom_ok_inv h2, hi, hmin, hmax⟩


/-! ### ParseWf: ClientHello -/

/-- folding never makes the list longer than the wire list minus one entry per raised flag -/
theorem fold_count {α : Type} (a b : α → Bool) (l : List α) :
    (l.filter (fun c => !a c && !b c)).length + (if l.any a then 1 else 0)
      + (if l.any (fun c => !a c && b c) then 1 else 0) ≤ l.length := by
  induction l with
  | nil => simp
  | cons x xs ih =>
    simp only [List.filter_cons, List.any_cons, List.length_cons]
    by_cases ha : a x = true <;> by_cases hb : b x = true <;> by_cases h1 : xs.any a = true <;>
      by_cases h2 : xs.any (fun c => !a c && b c) = true <;> simp [ha, hb, h1, h2] at ih ⊢ <;> omega

theorem client_variants_facts :
    (vp Gen.vec_TlsExtensionsClient).min = 0 ∧ (vp Gen.vec_TlsExtensionsServer).min = 0 := by
  decide +kernel

/-- the variant lists of both sides keep the class of an extension between the declared length
and the composed size (on the server side `TlsExtensionKeyShareServer`, tried after the two-byte
HelloRetryRequest form, never composes to two bytes) -/
theorem variants_stable : stableB Gen.extVariantsClient = true ∧ stableB Gen.extVariantsServer = true := by
  decide +kernel

/-- what `TlsHandshakeClientHello._parse` accepts is a constructible, canonical value -/
theorem parseClientHelloInner_ok_inv {pl : Bytes} {h : ClientHello} {n : Nat}
    (hp : parseClientHelloInner pl = .ok (h, n)) : ClientHelloWf h := by
  unfold parseClientHelloInner at hp
  obtain ⟨⟨⟨v, r, sid⟩, n1⟩, h1, hp⟩ := exceptBind_ok_inv hp
  simp only at hp
  obtain ⟨⟨cs, n2⟩, h2, hp⟩ := exceptBind_ok_inv hp
  simp only at hp
  obtain ⟨⟨cm, n3⟩, h3, hp⟩ := exceptBind_ok_inv hp
  simp only at hp
  obtain ⟨⟨exts, n4⟩, h4, hp⟩ := exceptBind_ok_inv hp
  simp only at hp
  obtain ⟨u, h5, hp⟩ := exceptBind_ok_inv hp
  simp only [pure, Except.pure] at hp
  cases hp
  obtain ⟨hcs, _, hcsmax, _⟩ := parseVecCoded_ok_inv h2
  obtain ⟨hcm, hcmmin, hcmmax, _⟩ := parseVecCoded_ok_inv h3
  obtain ⟨hkmin, _⟩ := checkBounds_ok_inv h5
  have hext := parseOptExtensions_ok_inv variants_stable.1 client_variants_facts.1 h4
  refine ⟨parseHelloHeader_ok_inv h1, ?_, hkmin, ?_, hcm, hcmmin, hcmmax, hext⟩
  · intro c hc
    simp only [List.mem_filter, Bool.and_eq_true, bne_iff_ne, ne_eq] at hc
    exact ⟨hcs c hc.1, hc.2.1, hc.2.2⟩
  · have hcount := fold_count (fun c => codeOfSuite c == scsvFallback)
      (fun c => codeOfSuite c == scsvRenegotiation) cs
    simp only [scsvCount]
    have e1 : (fun c => (!(codeOfSuite c == scsvFallback) && !(codeOfSuite c == scsvRenegotiation)))
        = (fun c => codeOfSuite c != scsvFallback && codeOfSuite c != scsvRenegotiation) := rfl
    have e2 : (fun c => (!(codeOfSuite c == scsvFallback) && codeOfSuite c == scsvRenegotiation))
        = (fun c => codeOfSuite c != scsvFallback && codeOfSuite c == scsvRenegotiation) := rfl
    rw [e1, e2] at hcount
    omega

theorem clientHello_parseWf : ParseWf clientHelloCodec ClientHelloWf := by
  intro bs h n hp
  obtain ⟨p, m, _, h2⟩ := framed_parse_ok_inv hp
  exact parseClientHelloInner_ok_inv h2

/-! ### ParseWf: ServerHello / HelloRetryRequest -/

theorem parseServerHelloInner_ok_inv {typ : Nat} {pl : Bytes} {h : ServerHello} {n : Nat}
    (hp : parseServerHelloInner typ pl = .ok (h, n)) : ServerHelloWf typ h := by
  unfold parseServerHelloInner at hp
  obtain ⟨⟨⟨v, r, sid⟩, n1⟩, h1, hp⟩ := exceptBind_ok_inv hp
  simp only at hp
  obtain ⟨⟨cs, n2⟩, h2, hp⟩ := exceptBind_ok_inv hp
  simp only at hp
  obtain ⟨⟨cm, n3⟩, h3, hp⟩ := exceptBind_ok_inv hp
  simp only at hp
  obtain ⟨⟨exts, n4⟩, h4, hp⟩ := exceptBind_ok_inv hp
  simp only [pure, Except.pure] at hp
  cases hp
  exact ⟨rfl, parseHelloHeader_ok_inv h1, codedStrict_parseWf _ _ _ _ _ h2, codedStrict_parseWf _ _ _ _ _ h3,
    parseOptExtensions_ok_inv variants_stable.2 client_variants_facts.2 h4⟩

/-- whatever the server-side parsers accept is a constructible, canonical value -/
theorem serverHello_parseWf (typ : Nat) : ParseWf (serverHelloCodec typ) (ServerHelloWf typ) := by
  intro bs h n hp
  obtain ⟨p, m, _, h2⟩ := framed_parse_ok_inv hp
  exact parseServerHelloInner_ok_inv h2

/-! ### ParseWf: Certificate -/

/-- the items of a parsed slice fill it exactly (each item stays inside what is left) -/
theorem parseItems_ok_sizes {α : Type} {item : Bytes → Except PErr (α × Nat)} {size : α → Nat}
    (hsz : ∀ b x n, item b = .ok (x, n) → n = size x ∧ n ≤ b.length) {fuel : Nat} {b : Bytes}
    {xs : List α} (h : parseItems item fuel b = .ok xs) : (xs.map size).sum = b.length := by
  induction fuel generalizing b xs with
  | zero =>
    simp only [parseItems] at h
    split at h
    · next hb => cases h; cases b <;> simp_all
    · cases h
  | succ fuel ih =>
    simp only [parseItems] at h
    split at h
    · next hb => cases h; cases b <;> simp_all
    · split at h
      · cases h
      · next x n hx =>
        split at h
        · cases h
        · cases hr : parseItems item fuel (b.drop n) with
          | error e' => simp [hr, Except.map] at h
          | ok r =>
            simp only [hr, Except.map] at h
            cases h
            obtain ⟨h1, h2⟩ := hsz _ _ _ hx
            simp only [List.map_cons, List.sum_cons, ih hr, List.length_drop]
            omega

theorem certsSize_eq (certs : List Bytes) : certsSize certs = (certs.map (fun c => 3 + c.length)).sum := by
  induction certs with
  | nil => rfl
  | cons c cs ih => simp only [certsSize, ih, List.map_cons, List.sum_cons]

theorem sumSizes_certs {certs : List Bytes} (h : ∀ c ∈ certs, c.length < 256 ^ 3) :
    sumSizes (fun c => (composeBytes .network 3 c).map (·.length)) certs = .ok (certsSize certs) := by
  obtain ⟨body, hb, hbl⟩ := composeItems_certs certs h
  rw [sumSizes_of_compose certs body hb, hbl]

theorem certificates_parse_inv {p : Bytes} {certs : List Bytes} {m : Nat}
    (h : certificatesCodec.parse p = .ok (certs, m)) :
    (∀ c ∈ certs, c.length < 256 ^ 3) ∧ certificatesParam.min ≤ certsSize certs ∧
      certsSize certs ≤ certificatesParam.max ∧ certificatesParam.numSize + certsSize certs ≤ p.length := by
  obtain ⟨len, sz, hn, hlen, hi, hs, hmin, hmax, _⟩ := parseVecItems_ok_inv h
  have heach : ∀ c ∈ certs, c.length < 256 ^ 3 := by
    intro c hc
    obtain ⟨b', n', hb'⟩ := parseItems_ok_forall hi c hc
    exact (parseBytes_ok_inv hb').2.2.2.2.2.2
  rw [sumSizes_certs heach] at hs
  cases hs
  refine ⟨heach, hmin, hmax, ?_⟩
  have hfill := parseItems_ok_sizes (size := fun c : Bytes => 3 + c.length)
    (fun b x n hx => by
      obtain ⟨_, _, h3, h4, _⟩ := parseBytes_ok_inv hx
      exact ⟨h3, h4⟩) hi
  rw [← certsSize_eq] at hfill
  have hk := (parseNum_ok_inv hn).2.1
  simp only [List.length_take, List.length_drop] at hfill hlen
  omega

theorem hsHeader_payload_lt {typ : Nat} {bs p : Bytes} {t : Nat} (h : (hsHeaderCodec typ).parse bs = .ok (p, t)) :
    p.length < 256 ^ 3 := by
  rw [hsHeaderCodec_eq] at h
  obtain ⟨h1, _⟩ := minSize_parse_ok_inv h
  obtain ⟨⟨ty, p'⟩, hx, hf⟩ := mapE_parse_ok_inv h1
  cases hf
  obtain ⟨_, _, _, h2, _⟩ := seq_parse_ok_inv hx
  exact bytesPrefixed_parseWf .network 3 _ _ _ h2

theorem certificate_parseWf : ParseWf certificateCodec CertificatesWf := by
  intro bs certs n hp
  obtain ⟨p, m, h1, h2⟩ := framed_parse_ok_inv hp
  obtain ⟨he, hmin, hmax, hfit⟩ := certificates_parse_inv h2
  have := hsHeader_payload_lt h1
  exact ⟨he, hmin, hmax, by omega⟩


/-! ### C02 for the hello messages: no crash, up to the model's own boundary marker -/

/-- documented parse errors, or the pseudo-error by which the model reports its own boundary (a
server name the idna codec would not leave unchanged) -/
def Mild (e : PErr) : Prop := Benign e ∨ e = unmodelled

/-- some class of the list is at the model's boundary: `server_name` (the idna codec), or a class the
model does not know at all -/
def hasBoundary (variants : List (String × Nat)) : Bool :=
  variants.any fun p =>
    p.1 != "TlsExtensionUnparsed" &&
      match extKindOf p.1 with
      | some (.ext2 .serverName) => true
      | none => true
      | _ => false

/-- the documented parse errors, or — only when the variant list has a class at the boundary — the
boundary marker -/
def MildV (variants : List (String × Nat)) (e : PErr) : Prop :=
  Benign e ∨ (e = unmodelled ∧ hasBoundary variants = true)

theorem MildV.mild {variants : List (String × Nat)} {e : PErr} (h : MildV variants e) : Mild e := by
  rcases h with hb | ⟨he, _⟩
  · exact .inl hb
  · exact .inr he

theorem Mild.hasSizeErrs : HasSizeErrs Mild :=
  ⟨fun n => .inl (Benign.hasSizeErrs.notEnough n), fun n => .inl (Benign.hasSizeErrs.tooMuch n)⟩

theorem MildV.hasSizeErrs (variants : List (String × Nat)) : HasSizeErrs (MildV variants) :=
  ⟨fun n => .inl (Benign.hasSizeErrs.notEnough n), fun n => .inl (Benign.hasSizeErrs.tooMuch n)⟩

theorem Mild.crash_unmodelled {e : PErr} (h : Mild e) {k : String} (hk : e = .crash k) : k = "UNMODELLED" := by
  rcases h with hb | rfl
  · exact absurd hk (hb.not_crash k)
  · simpa [unmodelled] using hk.symm

theorem MildV.crash {variants : List (String × Nat)} {e : PErr} (h : MildV variants e) {k : String}
    (hk : e = .crash k) : k = "UNMODELLED" ∧ hasBoundary variants = true := by
  rcases h with hb | ⟨rfl, hs⟩
  · exact absurd hk (hb.not_crash k)
  · exact ⟨by simpa [unmodelled] using hk.symm, hs⟩

/-- "the only crash kind reachable is UNMODELLED" -/
def NoCrashButUnmodelled {α : Type} (c : Codec α) : Prop :=
  ∀ b k, c.parse b = .error (.crash k) → k = "UNMODELLED"

/-- the class the walk resolves to does not decline the declared length -/
theorem resolve_not_declines {variants : List (String × Nat)} {t len : Nat} {cls : String} {kind : ExtKind}
    (hr : resolve variants t len = some cls) (hk : extKindOf cls = some kind) : kind.declines len = false := by
  induction variants with
  | nil => cases hr
  | cons v more ih =>
    obtain ⟨c, t0⟩ := v
    unfold resolve at hr
    split at hr
    · next hu =>
      cases hr
      have : cls = "TlsExtensionUnparsed" := by simpa using hu
      subst this
      simp [extKindOf] at hk
    · split at hr
      · exact ih hr
      · split at hr
        · next k0 hk0 =>
          split at hr
          · exact ih hr
          · next hd =>
            cases hr
            rw [hk0] at hk
            cases hk
            simpa using hd
        · next hk0 =>
          cases hr
          rw [hk0] at hk
          cases hk

theorem hasBoundary_of_mem {variants : List (String × Nat)} {cls : String} {code : Nat}
    (hm : (cls, code) ∈ variants) (hne : cls ≠ "TlsExtensionUnparsed")
    (hk : extKindOf cls = none ∨ extKindOf cls = some (.ext2 .serverName)) : hasBoundary variants = true := by
  unfold hasBoundary
  refine List.any_eq_true.mpr ⟨(cls, code), hm, ?_⟩
  have h1 : (cls != "TlsExtensionUnparsed") = true := by simpa using hne
  rcases hk with hk | hk <;> simp [h1, hk]

theorem parseExt_err {variants : List (String × Nat)} {bs : Bytes} {e : PErr}
    (h : parseExt variants bs = .error e) : MildV variants e := by
  unfold parseExt at h
  have hU : parseExtUnparsed bs = .error e → MildV variants e :=
    fun hu => .inl (parseExtUnparsed_sizeErr hu).benign
  rcases parseExtVariant_cases variants bs with ⟨e0, hv, hs⟩ | ⟨t, ht, hno, hv⟩ | ⟨t, len, ht, hmem, hl, hlen, hv⟩
  · rw [orElse_of_ne (by rw [hv]; intro hc; cases hc; exact hs.ne_invalidValue rfl), hv] at h
    cases h
    exact .inl hs.benign
  · rw [orElse_of_invalid hv] at h
    exact hU h
  · rw [walkExtVariants_eq] at hv
    cases hr : resolve variants t len with
    | none =>
      simp only [hr] at hv
      rw [orElse_of_invalid hv] at h
      exact hU h
    | some cls =>
      simp only [hr] at hv
      by_cases hcls : cls = "TlsExtensionUnparsed"
      · subst hcls
        rw [classParse_unparsed] at hv
        rw [orElse_complete hv] at h
        exact hU h
      · cases hk : extKindOf cls with
        | none =>
          rw [classParse_unmodelled hcls hk] at hv
          rw [orElse_of_ne (by rw [hv]; intro hc; cases hc), hv] at h
          cases h
          obtain ⟨code, hm, _⟩ := resolve_mem hr
          exact .inr ⟨rfl, hasBoundary_of_mem hm hcls (.inl hk)⟩
        | some kind =>
          cases hb : parseExtBody kind len ((bs.drop 4).take len) with
          | ok r =>
            obtain ⟨body, m⟩ := r
            rw [classParse_parsed_ok hcls hk hb] at hv
            rw [orElse_of_ne (by rw [hv]; intro hc; cases hc), hv] at h
            cases h
          | error e0 =>
            rw [classParse_parsed_err hcls hk hb] at hv
            by_cases he0 : Refusal e0
            · rw [completeExt_refusal he0] at hv
              rw [orElse_of_invalid hv] at h
              exact hU h
            · rw [completeExt_other he0] at hv
              rw [orElse_of_ne (by rw [hv]; intro hc; cases hc; exact he0 (.inl rfl)), hv] at h
              cases h
              rcases parseExtBody_err (extKindOf_ok hk) hb with hben | ⟨k, rfl, hsp⟩
              · exact .inl hben
              · rcases hsp with ⟨rfl, rfl⟩ | ⟨hd, _⟩
                · obtain ⟨code, hm, _⟩ := resolve_mem hr
                  exact .inr ⟨rfl, hasBoundary_of_mem hm hcls (.inr hk)⟩
                · have := resolve_not_declines hr hk
                  simp only [ExtKind.declines] at this
                  rw [this] at hd
                  cases hd

/-- the size computation of the vector constructor on a parsed extension can only fail because
the payload does not fit the 16-bit length -/
theorem extSize_err_of_parsed {variants : List (String × Nat)} {x : Ext} {e : PErr}
    (hx : ∃ b n, parseExt variants b = .ok (x, n)) (h : extSize x = .error e) : e = .invalidValue := by
  obtain ⟨b, n, hp⟩ := hx
  have hc : composeExt x = .error e := by
    unfold extSize at h
    cases hc : composeExt x with
    | error e' => simp only [hc, Except.map] at h; cases h; rfl
    | ok b => simp [hc, Except.map] at h
  rcases (parseExt_ok_inv hp).2 with hw | hf
  · obtain ⟨b', hb', _⟩ := composeExt_wf hw
    rw [hb'] at hc; cases hc
  · exact parsedForm_compose_err hf hc

theorem parseExtensions_err {variants : List (String × Nat)} {p : VecParam} (hp2 : p.numSize = 2)
    {bs : Bytes} {e : PErr} (h : parseExtensions variants p bs = .error e) : MildV variants e :=
  parseVecItems_errP (MildV.hasSizeErrs variants) (by rw [hp2]; rfl) (fun _ _ h => parseExt_err h)
    (fun _ _ _ h => by have := (parseExt_ok_inv h).1; omega)
    (fun _ _ hx h => .inl (.inr (extSize_err_of_parsed hx h))) h

theorem parseOptExtensions_err {variants : List (String × Nat)} {p : VecParam} (hp2 : p.numSize = 2)
    {pl : Bytes} {pos : Nat} {e : PErr} (h : parseOptExtensions variants p pl pos = .error e) :
    MildV variants e := by
  unfold parseOptExtensions at h
  split at h
  · cases h
  · exact parseExtensions_err hp2 h

/-! ### an extension that is there in full never fails with `NotEnoughData`

`TlsExtensionVariantBase._parse` reports a class that runs short of data INSIDE a complete extension as
`InvalidValue` (`completeExt`), and the extension list then keeps the extension by the fallback class.
So at a position that holds a whole extension — the four header bytes and the data the header declares —
the item parser of the list either succeeds, or fails with `TooMuchData` of a nested vector, or stops at
the model's boundary (`server_name`); `NotEnoughData` and `InvalidValue` do not occur there. -/

/-- the bytes at a position hold a whole extension: the header and the data it declares -/
def HoldsExt (bs : Bytes) : Prop :=
  4 ≤ bs.length ∧ 4 + decNat .network ((bs.drop 2).take 2) ≤ bs.length

theorem parseNum_holds {bo : ByteOrder} {k : Nat} (hk : validSize k = true) {rest : Bytes}
    (h : k ≤ rest.length) : parseNum bo k rest = .ok (decNat bo (rest.take k), k) := by
  unfold parseNum
  have : ¬ rest.length < k := by omega
  simp [this, hk]

theorem parseRaw_holds {n : Nat} {rest : Bytes} (h : n ≤ rest.length) :
    parseRaw (n : Int) rest = .ok (rest.take n, n) := by
  unfold parseRaw
  have h1 : ¬ ((n : Int) < 0) := by omega
  have h2 : ¬ rest.length < n := by omega
  simp [h1, h2]

theorem holdsExt_header {bs : Bytes} (h : HoldsExt bs) :
    parseNum .network 2 bs = .ok (decNat .network (bs.take 2), 2) ∧
    parseNum .network 2 (bs.drop 2) = .ok (decNat .network ((bs.drop 2).take 2), 2) ∧
    decNat .network ((bs.drop 2).take 2) ≤ (bs.drop 4).length := by
  obtain ⟨h4, hl⟩ := h
  refine ⟨parseNum_holds (by rfl) (by omega), parseNum_holds (by rfl) (by simp; omega), ?_⟩
  simp only [List.length_drop]; omega

/-- the fallback class accepts every whole extension -/
theorem parseExtUnparsed_holds {bs : Bytes} (h : HoldsExt bs) : ∃ r, parseExtUnparsed bs = .ok r := by
  obtain ⟨h1, h2, h3⟩ := holdsExt_header h
  unfold parseExtUnparsed
  have hnot : ¬ ((bs.drop 4).length < decNat .network ((bs.drop 2).take 2)) := by omega
  simp only [h1, h2, bind, Except.bind, hnot, if_false, parseRaw_holds h3, pure, Except.pure]
  exact ⟨_, rfl⟩

/-- on a whole extension the variant is the wrapped walk (known type) or `InvalidValue` (unknown type) -/
theorem parseExtVariant_holds (variants : List (String × Nat)) {bs : Bytes} (h : HoldsExt bs) :
    parseExtVariant variants bs = .error .invalidValue ∨
      ∃ t len, parseExtVariant variants bs = completeExt (walkExtVariants t len bs variants) := by
  obtain ⟨h1, h2, h3⟩ := holdsExt_header h
  unfold parseExtVariant
  cases hf : findCode (decNat .network (bs.take 2)) Gen.ExtensionType.codes with
  | none =>
    left
    simp only [parseCoded, h1, bind, Except.bind, hf]
  | some i =>
    right
    rw [parseCoded_of_num h1 hf]
    have hnot : ¬ ((bs.drop 4).length < decNat .network ((bs.drop 2).take 2)) := by omega
    simp only [h2, hnot, if_false]
    exact ⟨_, _, rfl⟩

/-- the variant itself: never `NotEnoughData` on a whole extension -/
theorem parseExtVariant_complete (variants : List (String × Nat)) {bs : Bytes} (h : HoldsExt bs) (n : Int) :
    parseExtVariant variants bs ≠ .error (.notEnough n) := by
  rcases parseExtVariant_holds variants h with hv | ⟨t, len, hv⟩
  · rw [hv]; intro hc; cases hc
  · rw [hv]; exact completeExt_ne_notEnough _ n

/-- one position of the extension list on a whole extension: success, `TooMuchData` from inside the
body, or the model's boundary — the latter only for a variant list that has a class at the boundary -/
theorem parseExt_complete {variants : List (String × Nat)} {bs : Bytes} (h : HoldsExt bs) {e : PErr}
    (he : parseExt variants bs = .error e) :
    (∃ n, e = .tooMuch n) ∨ (e = unmodelled ∧ hasBoundary variants = true) := by
  have hm := parseExt_err he
  obtain ⟨r, hu⟩ := parseExtUnparsed_holds h
  have hne : parseExtVariant variants bs ≠ .error .invalidValue := by
    intro hv
    unfold parseExt at he
    rw [orElse_of_invalid hv, hu] at he
    cases he
  have hv : parseExtVariant variants bs = .error e := by
    unfold parseExt at he
    rwa [orElse_of_ne hne] at he
  rcases hm with ((⟨n, rfl⟩ | hs) | rfl) | hb
  · exact absurd hv (parseExtVariant_complete variants h n)
  · exact .inl hs
  · exact absurd hv hne
  · exact .inr hb

/-- `NotEnoughData` at a position of the extension list means the bytes left in the list at that
position do not hold a whole extension -/
theorem parseExt_notEnough_inv {variants : List (String × Nat)} {bs : Bytes} {n : Int}
    (h : parseExt variants bs = .error (.notEnough n)) : ¬ HoldsExt bs := by
  intro hh
  rcases parseExt_complete hh h with ⟨m, hm⟩ | ⟨hu, _⟩
  · cases hm
  · simp [unmodelled] at hu

/-- the item loop fails with the error of an item AT A POSITION of the slice, or with the modelled
non-termination -/
theorem parseItems_err_at {α : Type} {item : Bytes → Except PErr (α × Nat)} {fuel : Nat} {b : Bytes} {e : PErr}
    (h : parseItems item fuel b = .error e) :
    (∃ k, k < b.length ∧ item (b.drop k) = .error e) ∨ e = .crash "NonTermination" := by
  induction fuel generalizing b with
  | zero =>
    simp only [parseItems] at h
    split at h
    · cases h
    · cases h; exact .inr rfl
  | succ fuel ih =>
    simp only [parseItems] at h
    split at h
    · cases h
    · next hne =>
      have hpos : 0 < b.length := by
        cases b with
        | nil => simp at hne
        | cons _ _ => simp
      split at h
      · next e' he' => cases h; exact .inl ⟨0, hpos, by simpa using he'⟩
      · next x n hx =>
        split at h
        · cases h; exact .inr rfl
        · cases hr : parseItems item fuel (b.drop n) with
          | ok r => simp [hr, Except.map] at h
          | error e' =>
            simp only [hr, Except.map] at h
            cases h
            rcases ih hr with ⟨k, hk, hi⟩ | hc
            · refine .inl ⟨n + k, ?_, ?_⟩
              · simp only [List.length_drop] at hk; omega
              · rwa [List.drop_drop] at hi
            · exact .inr hc

/-- The extension list (`TlsExtensionsClient/Server`, no lower bound on its size) fails with
`NotEnoughData` only when the list itself is cut short — the two-byte length is not there, or it
declares more than follows — or when, at some position `k` the item loop reaches inside the declared
list data, what is left of the list does not hold a whole extension.  (A position the loop reaches
need not be the start of an extension as the peer framed them: a class may consume less than its
extension declares, see CpProps/C05Hello.lean.) -/
theorem parseExtensions_notEnough_inv {variants : List (String × Nat)} {p : VecParam} (hp2 : p.numSize = 2)
    (hmin : p.min = 0) {bs : Bytes} {n : Int} (h : parseExtensions variants p bs = .error (.notEnough n)) :
    bs.length < 2 ∨
    (bs.drop 2).length < decNat .network (bs.take 2) ∨
    ∃ k, k < decNat .network (bs.take 2) ∧
      ¬ HoldsExt (((bs.drop 2).take (decNat .network (bs.take 2))).drop k) := by
  by_cases hlen : bs.length < 2
  · exact .inl hlen
  · right
    have hpn : parseNum .network 2 bs = .ok (decNat .network (bs.take 2), 2) := parseNum_holds (by rfl) (by omega)
    unfold parseExtensions parseVecItems at h
    rw [hp2] at h
    simp only [hpn, bind, Except.bind] at h
    split at h
    · next hshort => exact .inl hshort
    · next hfull =>
      right
      cases hi : parseItems (parseExt variants) (decNat .network (bs.take 2))
          ((bs.drop 2).take (decNat .network (bs.take 2))) with
      | error e' =>
        simp only [hi] at h
        cases h
        rcases parseItems_err_at hi with ⟨k, hk, hitem⟩ | hc
        · refine ⟨k, ?_, parseExt_notEnough_inv hitem⟩
          simp only [List.length_take] at hk; omega
        · cases hc
      | ok items =>
        simp only [hi] at h
        cases hss : sumSizes extSize items with
        | error e' =>
          simp only [hss] at h
          cases h
          obtain ⟨x, hxm, hx⟩ := sumSizes_err_inv hss
          have := extSize_err_of_parsed (parseItems_ok_forall hi x hxm) hx
          cases this
        | ok sz =>
          simp only [hss] at h
          cases hc : checkBounds p sz with
          | error e' =>
            simp only [hc] at h
            cases h
            unfold checkBounds at hc
            rw [hmin] at hc
            simp only [Nat.not_lt_zero, if_false] at hc
            split at hc <;> cases hc
          | ok u => simp [hc, pure, Except.pure] at h

theorem parseVecNum_err {p : VecParam} {k : Nat} (hn : validSize p.numSize = true) (hk : validSize k = true)
    {bs : Bytes} {e : PErr} (h : parseVecNum p k (fun x => .ok x) bs = .error e) : SizeErr e := by
  unfold parseVecNum at h
  rcases exceptBind_err_inv h with h1 | ⟨⟨len, n⟩, _, h⟩
  · exact parseNum_sizeErr hn h1
  · simp only at h
    rcases exceptBind_err_inv h with h2 | ⟨⟨raw, m⟩, _, h⟩
    · unfold parseNumArray at h2
      split at h2
      · cases h2; exact .inl ⟨_, rfl⟩
      · simp [hk] at h2
    · simp only at h
      rw [mapM_ok_id] at h
      rcases exceptBind_err_inv h with h3 | ⟨items, _, h⟩
      · cases h3
      · rcases exceptBind_err_inv h with h4 | ⟨u, _, h⟩
        · exact checkBounds_sizeErr h4
        · cases h

theorem parseRandom_err {bs : Bytes} {e : PErr} (h : parseRandom bs = .error e) : SizeErr e := by
  unfold parseRandom randomCodec mapE seq at h
  simp only at h
  rcases exceptBind_err_inv h with h1 | ⟨⟨x, n⟩, _, h⟩
  · rcases exceptBind_err_inv h1 with h2 | ⟨⟨t, n1⟩, _, h1⟩
    · exact parseNum_sizeErr (by rfl) h2
    · simp only at h1
      rcases exceptBind_err_inv h1 with h3 | ⟨⟨b, n2⟩, _, h1⟩
      · have h3' : parseRaw ((28 : Nat) : Int) (bs.drop n1) = .error e := h3
        exact parseRaw_nat_sizeErr h3'
      · cases h1
  · simp only at h
    rcases exceptBind_err_inv h with h2 | ⟨y, _, h⟩
    · cases h2
    · cases h

theorem parseHelloHeader_err {pl : Bytes} {e : PErr} (h : parseHelloHeader pl = .error e) : Benign e := by
  unfold parseHelloHeader at h
  rcases exceptBind_err_inv h with h1 | ⟨⟨v, n1⟩, _, h⟩
  · exact parseCoded_benign (by rfl) h1
  · simp only at h
    rcases exceptBind_err_inv h with h2 | ⟨⟨r, n2⟩, _, h⟩
    · exact (parseRandom_err h2).benign
    · simp only at h
      rcases exceptBind_err_inv h with h3 | ⟨⟨sid, n3⟩, _, h⟩
      · exact (parseVecNum_err sessionIdParam_ok.1 (by rfl) h3).benign
      · cases h

/-- the server variant has no class at the model's boundary: every class is modelled and none is
`server_name` of the client side -/
theorem server_has_no_boundary : hasBoundary Gen.extVariantsServer = false := by decide +kernel

theorem parseClientHelloInner_err {pl : Bytes} {e : PErr} (h : parseClientHelloInner pl = .error e) :
    Mild e := by
  unfold parseClientHelloInner at h
  rcases exceptBind_err_inv h with h1 | ⟨⟨⟨v, r, sid⟩, n1⟩, _, h⟩
  · exact .inl (parseHelloHeader_err h1)
  · simp only at h
    rcases exceptBind_err_inv h with h2 | ⟨⟨cs, n2⟩, _, h⟩
    · exact .inl (parseVecCoded_sizeErr cipherSuiteParam_ok.1 (by rfl) h2).benign
    · simp only at h
      rcases exceptBind_err_inv h with h3 | ⟨⟨cm, n3⟩, _, h⟩
      · exact .inl (parseVecCoded_sizeErr compressionParam_ok.1 (by rfl) h3).benign
      · simp only at h
        rcases exceptBind_err_inv h with h4 | ⟨⟨exts, n4⟩, _, h⟩
        · exact (parseOptExtensions_err clientHello_size_facts.2.1 h4).mild
        · simp only at h
          rcases exceptBind_err_inv h with h5 | ⟨u, _, h⟩
          · exact .inl (checkBounds_sizeErr h5).benign
          · cases h

theorem parseServerHelloInner_err {typ : Nat} {pl : Bytes} {e : PErr}
    (h : parseServerHelloInner typ pl = .error e) : MildV Gen.extVariantsServer e := by
  unfold parseServerHelloInner at h
  rcases exceptBind_err_inv h with h1 | ⟨⟨⟨v, r, sid⟩, n1⟩, _, h⟩
  · exact .inl (parseHelloHeader_err h1)
  · simp only at h
    rcases exceptBind_err_inv h with h2 | ⟨⟨cs, n2⟩, _, h⟩
    · exact .inl (parseCoded_benign (by rfl) h2)
    · simp only at h
      rcases exceptBind_err_inv h with h3 | ⟨⟨cm, n3⟩, _, h⟩
      · exact .inl (parseCoded_benign (by rfl) h3)
      · simp only at h
        rcases exceptBind_err_inv h with h4 | ⟨⟨exts, n4⟩, _, h⟩
        · exact parseOptExtensions_err serverHello_size_facts.2.1 h4
        · cases h

theorem framed_err_inv {α : Type} {F : Codec Bytes} {inner : Codec α} {bs : Bytes} {e : PErr}
    (h : (framed F inner).parse bs = .error e) : F.parse bs = .error e ∨ ∃ p, inner.parse p = .error e := by
  simp only [framed] at h
  rcases exceptBind_err_inv h with h1 | ⟨⟨p, t⟩, _, h⟩
  · exact .inl h1
  · simp only at h
    rcases exceptBind_err_inv h with h2 | ⟨⟨v, m⟩, _, h⟩
    · exact .inr ⟨p, h2⟩
    · cases h

theorem hs_noCrashButUnmodelled {α : Type} (typ : Nat) {inner : Codec α}
    (hi : ∀ p e, inner.parse p = .error e → Mild e) : NoCrashButUnmodelled (hsFramed typ inner) := by
  intro b k h
  rcases framed_err_inv h with h1 | ⟨p, h2⟩
  · exact absurd h1 (hsHeader_noCrash typ b k)
  · exact (hi p _ h2).crash_unmodelled rfl

theorem clientHello_noCrash : NoCrashButUnmodelled clientHelloCodec :=
  hs_noCrashButUnmodelled 1 (fun _ _ h => parseClientHelloInner_err h)

theorem hs_noCrashV {α : Type} (typ : Nat) {inner : Codec α} {variants : List (String × Nat)}
    (hv : hasBoundary variants = false)
    (hi : ∀ p e, inner.parse p = .error e → MildV variants e) : NoCrash (hsFramed typ inner) := by
  intro b k h
  rcases framed_err_inv h with h1 | ⟨p, h2⟩
  · exact absurd h1 (hsHeader_noCrash typ b k)
  · have := ((hi p _ h2).crash rfl).2
    rw [hv] at this
    cases this

/-- the server side touches no class at the model's boundary: no crash at all -/
theorem serverHello_noCrash (typ : Nat) : NoCrash (serverHelloCodec typ) :=
  hs_noCrashV typ server_has_no_boundary (fun _ _ h => parseServerHelloInner_err h)

/-! the certificate message does not touch an unmodelled class at all -/

theorem certificates_err {p : Bytes} {e : PErr} (h : certificatesCodec.parse p = .error e) : SizeErr e := by
  refine parseVecItems_errP SizeErr.hasSizeErrs certificatesParam_ok.1 (fun _ _ h => parseBytes_sizeErr (by rfl) h)
    (fun _ _ _ h => by have := (parseBytes_ok_inv h).2.2.1; omega) ?_ h
  intro c e' ⟨b, n, hb⟩ hs
  have hc := (parseBytes_ok_inv hb).2.2.2.2.2.2
  rw [composeBytes_ok (by rfl) c hc] at hs
  cases hs

theorem certificate_noCrash : NoCrash certificateCodec :=
  hs_noCrash 11 (fun _ k h => (certificates_err h).benign.not_crash k rfl)

/-! ### the handshake variant -/

theorem except_map_err_inv {α β : Type} {x : Except PErr α} {f : α → β} {e : PErr}
    (h : x.map f = .error e) : x = .error e := by
  cases x with
  | error e' => simpa [Except.map] using h
  | ok a => simp [Except.map] at h

theorem noCrash_weaken {α : Type} {c : Codec α} (h : NoCrash c) : NoCrashButUnmodelled c :=
  fun b k hk => absurd hk (h b k)

theorem parseHsClass_crash (c : HsClass) (bs : Bytes) (k : String)
    (h : parseHsClass c bs = .error (.crash k)) : k = "UNMODELLED" := by
  cases c <;> simp only [parseHsClass] at h
  · exact clientHello_noCrash bs k (except_map_err_inv h)
  · exact absurd (except_map_err_inv h) (serverHello_noCrash 2 bs k)
  · exact absurd (except_map_err_inv h) (serverHello_noCrash 6 bs k)
  · exact absurd (except_map_err_inv h) (certificate_noCrash bs k)
  · exact absurd (except_map_err_inv h) (serverKeyExchange_noCrash bs k)
  · exact absurd (except_map_err_inv h) (certificateStatus_noCrash bs k)
  · exact absurd (except_map_err_inv h) (serverHelloDone_noCrash bs k)
  · exact absurd (except_map_err_inv h) (certificateRequest_noCrash bs k)

theorem hsAlt_crash (e : String × Nat) (bs : Bytes) (k : String) (h : hsAlt e bs = .error (.crash k)) :
    k = "UNMODELLED" := by
  unfold hsAlt at h
  split at h
  · exact parseHsClass_crash _ _ _ h
  · split at h
    · simpa [unmodelled] using h.symm
    · next err herr =>
      cases h
      exact absurd herr (hsHeader_noCrash e.2 bs k)

/-- a variant crashes only if one of its alternatives does -/
theorem firstNotInvalidType_crash {α : Type} {P : String → Prop} (ps : List (Bytes → Except PErr (α × Nat)))
    (bs : Bytes) (hps : ∀ p ∈ ps, ∀ k, p bs = .error (.crash k) → P k) (k : String)
    (h : firstNotInvalidType ps bs = .error (.crash k)) : P k := by
  induction ps with
  | nil => simp [firstNotInvalidType] at h
  | cons p ps ih =>
    unfold firstNotInvalidType at h
    split at h
    · exact ih (fun q hq => hps q (List.mem_cons_of_mem _ hq)) h
    · exact hps p (List.mem_cons_self ..) k h

theorem handshake_noCrash : NoCrashButUnmodelled handshakeCodec := by
  intro bs k h
  refine firstNotInvalidType_crash (P := fun k => k = "UNMODELLED") _ bs ?_ k h
  intro p hp k' hk'
  obtain ⟨e, _, rfl⟩ := List.mem_map.mp hp
  exact hsAlt_crash e bs k' hk'

/-! ### ParseWf: CertificateRequest -/

theorem mapM_conv_ok_inv {conv : Nat → Except PErr Nat} {P : Nat → Prop}
    (hconv : ∀ x y, conv x = .ok y → y = x ∧ P x) {raw items : List Nat} (h : raw.mapM conv = .ok items) :
    items = raw ∧ ∀ x ∈ raw, P x := by
  induction raw generalizing items with
  | nil =>
    simp only [List.mapM_nil, pure, Except.pure] at h
    cases h
    exact ⟨rfl, by simp⟩
  | cons x xs ih =>
    rw [List.mapM_cons] at h
    obtain ⟨y, hy, h⟩ := exceptBind_ok_inv h
    obtain ⟨ys, hys, h⟩ := exceptBind_ok_inv h
    simp only [pure, Except.pure] at h
    cases h
    obtain ⟨rfl, hp⟩ := hconv _ _ hy
    obtain ⟨rfl, hall⟩ := ih hys
    refine ⟨rfl, ?_⟩
    intro z hz
    rcases List.mem_cons.mp hz with rfl | hz
    · exact hp
    · exact hall z hz

theorem parseVecNum_conv_ok_inv {p : VecParam} {k : Nat} {conv : Nat → Except PErr Nat} {P : Nat → Prop}
    (hconv : ∀ x y, conv x = .ok y → y = x ∧ P x) {bs : Bytes} {xs : List Nat} {t : Nat}
    (h : parseVecNum p k conv bs = .ok (xs, t)) :
    (∀ x ∈ xs, P x) ∧ p.min ≤ xs.length * k ∧ xs.length * k ≤ p.max := by
  unfold parseVecNum at h
  obtain ⟨⟨len, n⟩, _, h⟩ := exceptBind_ok_inv h
  simp only at h
  obtain ⟨⟨raw, m⟩, h2, h⟩ := exceptBind_ok_inv h
  simp only at h
  obtain ⟨items, h3, h⟩ := exceptBind_ok_inv h
  obtain ⟨u, h4, h⟩ := exceptBind_ok_inv h
  simp only [pure, Except.pure] at h
  cases h
  obtain ⟨rfl, hall⟩ := mapM_conv_ok_inv hconv h3
  obtain ⟨hmin, hmax⟩ := checkBounds_ok_inv h4
  unfold parseNumArray at h2
  split at h2
  · cases h2
  · split at h2
    · cases h2
    · cases h2
      obtain ⟨hl, _⟩ := numItems_spec .network k (len / k) (bs.drop n)
      rw [hl]
      exact ⟨hall, hmin, hmax⟩

theorem parseDistinguishedNames_ok_inv {bs : Bytes} {names : List Bytes} {n : Nat}
    (h : parseDistinguishedNames bs = .ok (names, n)) :
    (∀ d ∈ names, distinguishedNameParam.min ≤ d.length ∧ d.length ≤ distinguishedNameParam.max) ∧
      distinguishedNameListParam.min ≤ idsSize distinguishedNameParam names ∧
      idsSize distinguishedNameParam names ≤ distinguishedNameListParam.max := by
  obtain ⟨_, hp2, _⟩ := certReq_params
  obtain ⟨hi, ⟨sz, hs, hmin, hmax⟩, _, _⟩ := parseVecItems_ok_full h
  obtain ⟨hb, hsz⟩ := ids_parsed_size hp2 hi hs
  subst hsz
  exact ⟨hb, hmin, hmax⟩

theorem parseCertificateRequestInner_ok_inv {pl : Bytes} {r : CertificateRequest} {n : Nat}
    (h : parseCertificateRequestInner pl = .ok (r, n)) : CertificateRequestWf r := by
  have hconv : ∀ x y, convCertificateType x = .ok y → y = x ∧ x ∈ Gen.TlsClientCertificateType.memberCodes := by
    intro x y hxy
    unfold convCertificateType at hxy
    split at hxy
    · next hm => cases hxy; exact ⟨rfl, by simpa using hm⟩
    · cases hxy
  unfold parseCertificateRequestInner at h
  obtain ⟨⟨types, n1⟩, h1, h⟩ := exceptBind_ok_inv h
  simp only at h
  obtain ⟨⟨vl, n2⟩, h2, h⟩ := exceptBind_ok_inv h
  simp only at h
  obtain ⟨ht, htmin, htmax⟩ := parseVecNum_conv_ok_inv hconv h1
  split at h
  · obtain ⟨⟨cas, n3⟩, h3, h⟩ := exceptBind_ok_inv h
    simp only [pure, Except.pure] at h
    cases h
    obtain ⟨hn, hmin, hmax⟩ := parseDistinguishedNames_ok_inv h3
    exact ⟨ht, htmin, htmax, (fun a ha => by cases ha), hn, hmin, hmax⟩
  · obtain ⟨⟨algs, n3⟩, h3, h⟩ := exceptBind_ok_inv h
    simp only at h
    obtain ⟨⟨cas, n4⟩, h4, h⟩ := exceptBind_ok_inv h
    simp only [pure, Except.pure] at h
    cases h
    obtain ⟨hx, hamin, hamax, _⟩ := parseVecCoded_ok_inv h3
    obtain ⟨hn, hmin, hmax⟩ := parseDistinguishedNames_ok_inv h4
    refine ⟨ht, htmin, htmax, fun a ha => ?_, hn, hmin, hmax⟩
    cases ha
    exact ⟨hx, hamin, hamax⟩

theorem certificateRequest_parseWf : ParseWf certificateRequestCodec CertificateRequestWf := by
  intro bs r n hp
  obtain ⟨p, m, _, h2⟩ := framed_parse_ok_inv hp
  exact parseCertificateRequestInner_ok_inv h2

end Cp.Tls
