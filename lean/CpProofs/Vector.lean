import CpModel.Vector
import CpProofs.EnumCodec
/-
  Laws of the length-prefixed containers.
-/
namespace Cp
open Cp.Codec

variable {α : Type}

/-- what an item parser/composer pair must satisfy for the array loop to invert the composer -/
def ItemRT (item : Bytes → Except PErr (α × Nat)) (f : α → Except PErr Bytes) (x : α) : Prop :=
  ∃ b, f x = .ok b ∧ 0 < b.length ∧ ∀ s, item (b ++ s) = .ok (x, b.length)

theorem composeItems_cons_inv {f : α → Except PErr Bytes} {x : α} {xs : List α} {body : Bytes}
    (h : composeItems f (x :: xs) = .ok body) :
    ∃ b r, f x = .ok b ∧ composeItems f xs = .ok r ∧ body = b ++ r := by
  simp only [composeItems] at h
  cases h1 : f x with
  | error e => simp [h1, bind, Except.bind] at h
  | ok b =>
    simp only [h1, bind, Except.bind] at h
    cases h2 : composeItems f xs with
    | error e => simp [h2] at h
    | ok r =>
      simp [h2, pure, Except.pure] at h
      exact ⟨b, r, rfl, rfl, h.symm⟩

/-- the item loop inverts `composeItems` on exactly the composed slice, whenever the fuel covers it -/
theorem parseItems_composeItems {item : Bytes → Except PErr (α × Nat)} {f : α → Except PErr Bytes}
    (xs : List α) (hx : ∀ x ∈ xs, ItemRT item f x) (body : Bytes) (hc : composeItems f xs = .ok body)
    (fuel : Nat) (hfuel : body.length ≤ fuel) : parseItems item fuel body = .ok xs := by
  induction xs generalizing body fuel with
  | nil =>
    simp [composeItems] at hc
    subst hc
    cases fuel <;> simp [parseItems]
  | cons x xs ih =>
    obtain ⟨b, r, hb, hr, hbody⟩ := composeItems_cons_inv hc
    obtain ⟨b', hb', hpos, hitem⟩ := hx x (List.mem_cons_self ..)
    rw [hb] at hb'; cases hb'
    subst hbody
    have hlen : (b ++ r).length = b.length + r.length := List.length_append
    cases fuel with
    | zero => omega
    | succ fuel =>
      have hne : (b ++ r).isEmpty = false := by
        cases hbb : b with
        | nil => simp [hbb] at hpos
        | cons _ _ => simp
      simp only [parseItems, hne, Bool.false_eq_true, if_false, hitem r]
      have hn0 : (b.length == 0) = false := by rw [beq_eq_false_iff_ne]; omega
      simp only [hn0, Bool.false_eq_true, if_false, List.drop_left]
      rw [ih (fun y hy => hx y (List.mem_cons_of_mem _ hy)) r hr fuel (by omega)]
      rfl

theorem sumSizes_of_compose {f : α → Except PErr Bytes} (xs : List α) (body : Bytes)
    (hc : composeItems f xs = .ok body) :
    sumSizes (fun c => (f c).map (·.length)) xs = .ok body.length := by
  induction xs generalizing body with
  | nil => simp [composeItems] at hc; subst hc; rfl
  | cons x xs ih =>
    obtain ⟨b, r, hb, hr, hbody⟩ := composeItems_cons_inv hc
    subst hbody
    have := ih r hr
    simp only [Except.map] at this
    simp [sumSizes, hb, this, bind, Except.bind, Except.map, pure, Except.pure]

theorem checkBounds_ok {p : VecParam} {n : Nat} (h1 : p.min ≤ n) (h2 : n ≤ p.max) : checkBounds p n = .ok () := by
  unfold checkBounds
  have : ¬ n < p.min := by omega
  have : ¬ n > p.max := by omega
  simp [*]

theorem checkBounds_ok_inv {p : VecParam} {n : Nat} (h : checkBounds p n = .ok ()) : p.min ≤ n ∧ n ≤ p.max := by
  unfold checkBounds at h
  split at h
  · simp at h
  · split at h
    · simp at h
    · omega

/-- Round trip of `VectorParsable`-style vectors whose item size is the length of the item's
composition: needs the item law, the body size inside the protocol bounds, and the ceiling to
fit the prefix width (`max < 256^numSize`: a regenerated-table obligation). -/
theorem parseVecItems_roundTrip {p : VecParam} {item : Bytes → Except PErr (α × Nat)}
    {f : α → Except PErr Bytes} (hk : validSize p.numSize = true) (hmax : p.max < 256 ^ p.numSize)
    (xs : List α) (hx : ∀ x ∈ xs, ItemRT item f x) (body : Bytes) (hc : composeItems f xs = .ok body)
    (hmin : p.min ≤ body.length) (hle : body.length ≤ p.max) (s : Bytes) :
    composeVecItems p f xs = .ok (encNat .network p.numSize body.length ++ body) ∧
    parseVecItems p item (fun c => (f c).map (·.length)) (encNat .network p.numSize body.length ++ body ++ s) =
      .ok (xs, p.numSize + body.length) := by
  have hfit : body.length < 256 ^ p.numSize := by omega
  constructor
  · simp [composeVecItems, hc, bind, Except.bind, composeNum_ok hk hfit, pure, Except.pure]
  · unfold parseVecItems
    rw [List.append_assoc, parseNum_enc hk hfit]
    simp only [bind, Except.bind]
    have hdrop : (encNat .network p.numSize body.length ++ (body ++ s)).drop p.numSize = body ++ s := by
      rw [List.drop_append_of_le_length (by simp)]
      simp
    rw [hdrop]
    have hnot : ¬ ((body ++ s).length < body.length) := by simp
    have htake : (body ++ s).take body.length = body := by simp
    simp only [hnot, if_false, htake]
    rw [parseItems_composeItems xs hx body hc body.length (Nat.le_refl _)]
    simp only [sumSizes_of_compose xs body hc, checkBounds_ok hmin hle, pure, Except.pure]

/-! ### `Opaque` -/

theorem parseOpaque_roundTrip {p : VecParam} (hk : validSize p.numSize = true) (hmax : p.max < 256 ^ p.numSize)
    (v : Bytes) (hmin : p.min ≤ v.length) (hle : v.length ≤ p.max) (s : Bytes) :
    composeOpaque p v = .ok (encNat .network p.numSize v.length ++ v) ∧
    parseOpaque p (encNat .network p.numSize v.length ++ v ++ s) = .ok (v, p.numSize + v.length) := by
  have hfit : v.length < 256 ^ p.numSize := by omega
  constructor
  · simp [composeOpaque, composeNum_ok hk hfit, bind, Except.bind, pure, Except.pure]
  · unfold parseOpaque
    rw [List.append_assoc, parseNum_enc hk hfit]
    simp only [bind, Except.bind]
    have hdrop : (encNat .network p.numSize v.length ++ (v ++ s)).drop p.numSize = v ++ s := by
      rw [List.drop_append_of_le_length (by simp)]
      simp
    rw [hdrop, parseRaw_nat_append]
    simp [checkBounds_ok hmin hle, pure, Except.pure]

/-! ### vectors of coded enumeration members -/

/-- the canonical items of a coded vector: table members by index, or wrappers around a code the
table does NOT contain (a wrapper around a known code would parse back as the member) -/
def CodedWf (codes : List Nat) (k : Nat) : Coded → Prop
  | .known i => i < codes.length
  | .unknown c => c < 256 ^ k ∧ c ∉ codes

theorem coded_itemRT {codes : List Nat} {k : Nat} (ht : TableOk codes k) (hk0 : 0 < k) (x : Coded)
    (hx : CodedWf codes k x) :
    ItemRT (parseCodedOrFallback codes k) (composeCodedOrFallback codes k) x := by
  cases x with
  | known i =>
    have hi : i < codes.length := hx
    have hget : codes[i]? = some codes[i] := List.getElem?_eq_getElem hi
    have hc : codes[i] < 256 ^ k := ht.fits _ (List.getElem_mem hi)
    refine ⟨encNat .network k codes[i], ?_, by simp; exact hk0, ?_⟩
    · simp [composeCodedOrFallback, composeCoded, hget, composeNum_ok ht.size hc]
    · intro s
      unfold parseCodedOrFallback
      rw [parseCoded_of_num (parseNum_enc ht.size hc s) (findCode_of_nodup ht.nodup hget)]
      simp
  | unknown c =>
    obtain ⟨hc, hno⟩ := hx
    refine ⟨encNat .network k c, ?_, by simp; exact hk0, ?_⟩
    · simp [composeCodedOrFallback, composeNum_ok ht.size hc]
    · intro s
      have hnone : findCode c codes = none := by
        cases hf : findCode c codes with
        | none => rfl
        | some i => exact absurd (List.mem_of_getElem? (findCode_sound hf)) hno
      unfold parseCodedOrFallback parseCoded parseInvalidType
      rw [parseNum_enc ht.size hc]
      simp [bind, Except.bind, hnone]

theorem composeItems_coded_length {codes : List Nat} {k : Nat} (ht : TableOk codes k) (xs : List Coded)
    (hx : ∀ x ∈ xs, CodedWf codes k x) :
    ∃ body, composeItems (composeCodedOrFallback codes k) xs = .ok body ∧ body.length = xs.length * k := by
  induction xs with
  | nil => exact ⟨[], rfl, by simp⟩
  | cons x xs ih =>
    obtain ⟨r, hr, hrl⟩ := ih (fun y hy => hx y (List.mem_cons_of_mem _ hy))
    have hk0 : 0 < k ∨ k = 0 := by omega
    have hxw := hx x (List.mem_cons_self ..)
    -- the item's own composition has exactly k bytes
    have : ∃ b, composeCodedOrFallback codes k x = .ok b ∧ b.length = k := by
      cases x with
      | known i =>
        have hi : i < codes.length := hxw
        have hget : codes[i]? = some codes[i] := List.getElem?_eq_getElem hi
        have hc : codes[i] < 256 ^ k := ht.fits _ (List.getElem_mem hi)
        exact ⟨encNat .network k codes[i],
          by simp [composeCodedOrFallback, composeCoded, hget, composeNum_ok ht.size hc], by simp⟩
      | unknown c =>
        exact ⟨encNat .network k c, by simp [composeCodedOrFallback, composeNum_ok ht.size hxw.1], by simp⟩
    obtain ⟨b, hb, hbl⟩ := this
    refine ⟨b ++ r, by simp [composeItems, hb, hr, bind, Except.bind, pure, Except.pure], ?_⟩
    simp [hbl, hrl, Nat.add_mul]
    omega

theorem sumSizes_const {β : Type} (xs : List β) (k : Nat) :
    sumSizes (fun _ : β => (Except.ok k : Except PErr Nat)) xs = .ok (xs.length * k) := by
  induction xs with
  | nil => simp [sumSizes]
  | cons y ys ih =>
    simp only [sumSizes, ih, bind, Except.bind, pure, Except.pure, List.length_cons, Nat.add_mul, Nat.one_mul]
    rw [Nat.add_comm]

/-- every enum-coded vector (`VectorParamEnumCodeNumeric`): members and canonical wrappers in any
order, any number of them within the protocol bounds -/
theorem parseVecCoded_roundTrip {p : VecParam} {codes : List Nat} {k : Nat} (ht : TableOk codes k)
    (hk0 : 0 < k) (hk : validSize p.numSize = true) (hmax : p.max < 256 ^ p.numSize)
    (xs : List Coded) (hx : ∀ x ∈ xs, CodedWf codes k x)
    (hmin : p.min ≤ xs.length * k) (hle : xs.length * k ≤ p.max) (s : Bytes) :
    ∃ body, composeVecCoded p codes k xs = .ok (encNat .network p.numSize (xs.length * k) ++ body) ∧
      body.length = xs.length * k ∧
      parseVecCoded p codes k (encNat .network p.numSize (xs.length * k) ++ body ++ s) =
        .ok (xs, p.numSize + xs.length * k) := by
  obtain ⟨body, hbody, hbl⟩ := composeItems_coded_length ht xs hx
  refine ⟨body, ?_, hbl, ?_⟩
  · have hfit : body.length < 256 ^ p.numSize := by omega
    rw [← hbl]
    simp [composeVecCoded, composeVecItems, hbody, bind, Except.bind, composeNum_ok hk hfit, pure, Except.pure]
  · -- parse: same loop as the generic vector, with the constant item size k
    unfold parseVecCoded parseVecItems
    have hfit : xs.length * k < 256 ^ p.numSize := by omega
    rw [List.append_assoc, parseNum_enc hk hfit]
    simp only [bind, Except.bind]
    have hdrop : (encNat .network p.numSize (xs.length * k) ++ (body ++ s)).drop p.numSize = body ++ s := by
      rw [List.drop_append_of_le_length (by simp)]
      simp
    rw [hdrop]
    have hnot : ¬ ((body ++ s).length < xs.length * k) := by simp [hbl]
    simp only [hnot, if_false]
    have htake : (body ++ s).take (xs.length * k) = body := by rw [← hbl]; simp
    rw [htake, parseItems_composeItems xs (fun x hxx => coded_itemRT ht hk0 x (hx x hxx)) body hbody
      (xs.length * k) (by omega)]
    simp only [sumSizes_const xs k, checkBounds_ok hmin hle, pure, Except.pure]

end Cp
