import CpProofs.Handshake
/-
  Alert, change-cipher-spec, the handshake messages with simple payloads, the entry-point
  wrappers, and the consequences `RoundTrip + ParseWf ⇒ canonical form` (C05).
-/
namespace Cp.Codec
open Cp

variable {α : Type}

/-- C05 from the two laws: what the parser accepts can be composed, the composition is accepted
again, yields the same object and consumes everything; composing again gives the same bytes. -/
theorem canonical_of_roundTrip_parseWf {c : Codec α} {wf : α → Prop} (hr : RoundTrip c wf)
    (hw : ParseWf c wf) (b : Bytes) (v : α) (n : Nat) (h : c.parse b = .ok (v, n)) :
    ∃ b', c.compose v = .ok b' ∧ c.parse b' = .ok (v, b'.length) ∧
      ∀ v'' n'', c.parse b' = .ok (v'', n'') → c.compose v'' = .ok b' := by
  obtain ⟨b', hb', hbb⟩ := hr v (hw b v n h)
  have hp := hbb []
  simp at hp
  refine ⟨b', hb', hp, ?_⟩
  intro v'' n'' h2
  rw [hp] at h2
  cases h2
  exact hb'

/-! ### entry points -/

theorem parseMutable_ok {c : Codec α} {b : Bytes} {v : α} {n : Nat} (h : c.parse b = .ok (v, n)) :
    parseMutable c b = (.ok v, b.drop n) := by
  simp [parseMutable, h]

theorem parseMutable_err {c : Codec α} {b : Bytes} {e : PErr} (h : c.parse b = .error e) :
    parseMutable c b = (.error e, b) := by
  simp [parseMutable, h]

/-- the in-place variant removes exactly the first `n` bytes and nothing else -/
theorem parseMutable_removes_prefix {c : Codec α} (hl : LenBound c) {b : Bytes} {v : α} {n : Nat}
    (h : c.parse b = .ok (v, n)) :
    (parseMutable c b).2.length = b.length - n ∧ b = b.take n ++ (parseMutable c b).2 := by
  have := hl b v n h
  simp [parseMutable_ok h]

theorem parseExact_iff {c : Codec α} (hl : LenBound c) (b : Bytes) :
    (∃ v, parseExact c b = .ok v) ↔ ∃ v, c.parse b = .ok (v, b.length) := by
  constructor
  · intro ⟨v, h⟩
    unfold parseExact at h
    cases hp : c.parse b with
    | error e => simp [hp, bind, Except.bind] at h
    | ok r =>
      obtain ⟨v', n⟩ := r
      simp only [hp, bind, Except.bind] at h
      split at h
      · simp at h
      · next hgt =>
        have := hl b v' n hp
        have hn : n = b.length := by omega
        subst hn
        exact ⟨v', rfl⟩
  · intro ⟨v, h⟩
    exact ⟨v, by simp [parseExact, h, bind, Except.bind, pure, Except.pure]⟩

theorem parseExact_tooMuch {c : Codec α} {b : Bytes} {v : α} {n : Nat} (h : c.parse b = .ok (v, n))
    (hn : n < b.length) : parseExact c b = .error (.tooMuch (n : Int)) := by
  simp [parseExact, h, bind, Except.bind, hn]

end Cp.Codec

namespace Cp.Tls
open Cp Cp.Codec

/-! ### alert -/

def alertWf (a : Alert) : Prop :=
  a.level ∈ Gen.TlsAlertLevel.memberCodes ∧ a.description ∈ Gen.TlsAlertDescription.memberCodes

def alertInner : Codec (Nat × Nat) := seq (num .network 1) (num .network 1)

def alertConv (x : Nat × Nat) : Except PErr Alert :=
  if !(Gen.TlsAlertLevel.memberCodes.contains x.1) then .error .invalidValue
  else if !(Gen.TlsAlertDescription.memberCodes.contains x.2) then .error .invalidValue
  else .ok ⟨x.1, x.2⟩

theorem alertCodec_eq :
    alertCodec = minSize 2 (mapE alertInner alertConv (fun a => (a.level, a.description))) := rfl

theorem alertLevels_fit : ∀ v ∈ Gen.TlsAlertLevel.memberCodes, v < 256 ^ 1 := by decide +kernel
theorem alertDescriptions_fit : ∀ v ∈ Gen.TlsAlertDescription.memberCodes, v < 256 ^ 1 := by decide +kernel

theorem alertConv_ok {a : Alert} (h : alertWf a) : alertConv (a.level, a.description) = .ok a := by
  obtain ⟨h1, h2⟩ := h
  simp [alertConv, h1, h2]

theorem alertConv_inv {x : Nat × Nat} {a : Alert} (h : alertConv x = .ok a) :
    alertWf a ∧ a.level = x.1 ∧ a.description = x.2 := by
  unfold alertConv at h
  split at h
  · simp at h
  · next h1 =>
    split at h
    · simp at h
    · next h2 =>
      simp at h
      subst h
      simp at h1 h2
      exact ⟨⟨h1, h2⟩, rfl, rfl⟩

theorem alertInner_roundTrip : RoundTrip alertInner (fun x => x.1 < 256 ^ 1 ∧ x.2 < 256 ^ 1) :=
  seq_roundTrip (num_roundTrip .network rfl) (num_roundTrip .network rfl)

theorem alertInner_consumed (bs : Bytes) (x : Nat × Nat) (t : Nat) (h : alertInner.parse bs = .ok (x, t)) :
    t = 2 := by
  obtain ⟨a, b⟩ := x
  obtain ⟨n, m, h1, h2, ht⟩ := seq_parse_ok_inv h
  have := (parseNum_ok_inv h1).1
  have := (parseNum_ok_inv h2).1
  omega

theorem alert_roundTrip : RoundTrip alertCodec alertWf := by
  rw [alertCodec_eq]
  have hmap : RoundTrip (mapE alertInner alertConv (fun a => (a.level, a.description))) alertWf :=
    mapE_roundTrip alertInner_roundTrip
      (fun a ha => ⟨⟨alertLevels_fit _ ha.1, alertDescriptions_fit _ ha.2⟩, alertConv_ok ha⟩)
  apply minSize_roundTrip hmap
  intro a b ha hc
  obtain ⟨b', hb', hbb⟩ := hmap a ha
  rw [hc] at hb'; cases hb'
  obtain ⟨x, hx, _⟩ := mapE_parse_ok_inv (hbb [])
  have := alertInner_consumed _ _ _ hx
  omega

theorem alert_parseWf : ParseWf alertCodec alertWf := by
  rw [alertCodec_eq]
  apply minSize_parseWf
  exact mapE_parseWf (fun x a h => (alertConv_inv h).1)

theorem alert_lenBound : LenBound alertCodec := by
  rw [alertCodec_eq]
  exact minSize_lenBound (mapE_lenBound (seq_lenBound (num_lenBound _ _) (num_lenBound _ _)))

theorem alert_noCrash : NoCrash alertCodec := by
  rw [alertCodec_eq]
  apply minSize_noCrash
  apply mapE_noCrash (seq_noCrash (num_noCrash .network rfl) (num_noCrash .network rfl))
  intro x k
  unfold alertConv
  split
  · simp
  · split <;> simp

/-! ### change cipher spec -/

theorem ccs_fits : ∀ v ∈ Gen.TlsChangeCipherSpecType.memberCodes, v < 256 ^ 1 := by decide +kernel

theorem ccs_roundTrip : RoundTrip ccsCodec (fun v => v ∈ Gen.TlsChangeCipherSpecType.memberCodes) :=
  intEnum_roundTrip rfl ccs_fits
theorem ccs_parseWf : ParseWf ccsCodec (fun v => v ∈ Gen.TlsChangeCipherSpecType.memberCodes) :=
  intEnum_parseWf _ _
theorem ccs_lenBound : LenBound ccsCodec := intEnum_lenBound _ _
theorem ccs_noCrash : NoCrash ccsCodec := intEnum_noCrash _ rfl

/-! ### handshake messages with simple payloads -/

theorem hsMember_12 : 12 ∈ Gen.TlsHandshakeType.memberCodes := by decide +kernel
theorem hsMember_14 : 14 ∈ Gen.TlsHandshakeType.memberCodes := by decide +kernel
theorem hsMember_22 : 22 ∈ Gen.TlsHandshakeType.memberCodes := by decide +kernel
theorem hsMember_11 : 11 ∈ Gen.TlsHandshakeType.memberCodes := by decide +kernel
theorem hsMember_1 : 1 ∈ Gen.TlsHandshakeType.memberCodes := by decide +kernel
theorem hsMember_2 : 2 ∈ Gen.TlsHandshakeType.memberCodes := by decide +kernel
theorem hsMember_6 : 6 ∈ Gen.TlsHandshakeType.memberCodes := by decide +kernel

/-- server key exchange: any payload below 2^24 bytes -/
theorem serverKeyExchange_roundTrip : RoundTrip serverKeyExchangeCodec (fun p => p.length < 256 ^ 3) :=
  hs_roundTrip hsMember_12 (fun v hv => ⟨v, rfl, hv, v.length, rfl⟩)

theorem serverKeyExchange_noCrash : NoCrash serverKeyExchangeCodec :=
  hs_noCrash 12 (fun b k => by simp [appDataCodec])

theorem serverHelloDone_roundTrip : RoundTrip serverHelloDoneCodec (fun _ => True) :=
  hs_roundTrip hsMember_14 (fun v _ => ⟨[], rfl, by decide, 0, by cases v; rfl⟩)

theorem serverHelloDone_noCrash : NoCrash serverHelloDoneCodec :=
  hs_noCrash 14 (fun b k => by
    show (if b.isEmpty then Except.ok ((), 0) else Except.error PErr.invalidValue) ≠ _
    split <;> simp)

theorem statusType_fits : ∀ v ∈ Gen.TlsCertificateStatusType.memberCodes, v < 256 ^ 1 := by decide +kernel

def certStatusInner : Codec (Nat × Bytes) :=
  seq (intEnum Gen.TlsCertificateStatusType.memberCodes 1) (bytesPrefixed .network 3)

theorem certStatusInner_roundTrip :
    RoundTrip certStatusInner
      (fun x => x.1 ∈ Gen.TlsCertificateStatusType.memberCodes ∧ x.2.length < 256 ^ 3) :=
  seq_roundTrip (intEnum_roundTrip rfl statusType_fits) (bytesPrefixed_roundTrip .network rfl)

theorem certificateStatus_roundTrip :
    RoundTrip certificateStatusCodec
      (fun x => x.1 ∈ Gen.TlsCertificateStatusType.memberCodes ∧ x.2.length + 4 < 256 ^ 3) := by
  apply hs_roundTrip hsMember_22
  intro v ⟨h1, h2⟩
  obtain ⟨p, hp, hpp⟩ := certStatusInner_roundTrip v ⟨h1, by omega⟩
  have hpe := hpp []
  rw [List.append_nil] at hpe
  refine ⟨p, hp, ?_, p.length, hpe⟩
  -- the payload is 1 + 3 + |status| bytes
  simp only [certStatusInner, seq, intEnum, bytesPrefixed] at hp
  rw [composeNum_ok (by rfl) (statusType_fits _ h1), composeBytes_ok (by rfl) v.2 (by omega)] at hp
  simp [bind, Except.bind, pure, Except.pure] at hp
  subst hp
  simp
  omega

theorem certificateStatus_noCrash : NoCrash certificateStatusCodec :=
  hs_noCrash 22 (seq_noCrash (intEnum_noCrash _ rfl) (bytesPrefixed_noCrash .network rfl))

end Cp.Tls
