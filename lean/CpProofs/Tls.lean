import CpModel.Tls.Msg
import CpProofs.EnumCodec
/-
  Laws of the TLS record layer, alert, change-cipher-spec and handshake framing.
-/
namespace Cp.Tls
open Cp Cp.Codec

theorem minor_eq (c : Nat) : minor c = c % 256 := by
  unfold minor
  exact Nat.and_two_pow_sub_one_eq_mod c 8

theorem major_eq (c : Nat) : major c = c / 256 % 256 := by
  unfold major
  rw [Nat.shiftRight_and_distrib, Nat.shiftRight_eq_div_pow]
  exact Nat.and_two_pow_sub_one_eq_mod (c / 2 ^ 8) 8

theorem versions_tableOk : TableOk Gen.TlsVersion.codes 2 :=
  ⟨rfl, by decide +kernel, by decide +kernel⟩

theorem encNat_network_two (c : Nat) :
    encNat .network 2 c = [UInt8.ofNat (c / 256 % 256), UInt8.ofNat (c % 256)] := by
  simp [encNat, ByteOrder.isBig, beBytes, leBytes]

theorem encNat_network_one (c : Nat) : encNat .network 1 c = [UInt8.ofNat (c % 256)] := by
  simp [encNat, ByteOrder.isBig, beBytes, leBytes]

/-- composing major and minor separately is the two-byte big-endian code -/
theorem composeVersion_eq {i : Nat} (hi : i < Gen.TlsVersion.codes.length) :
    composeVersion i = composeCoded Gen.TlsVersion.codes 2 i := by
  have hget : Gen.TlsVersion.codes[i]? = some Gen.TlsVersion.codes[i] := List.getElem?_eq_getElem hi
  have hc : Gen.TlsVersion.codes[i] < 256 ^ 2 := versions_tableOk.fits _ (List.getElem_mem hi)
  generalize Gen.TlsVersion.codes[i] = c at hget hc
  unfold composeVersion composeCoded
  simp only [hget]
  have h1 : major c < 256 ^ 1 := by rw [major_eq]; omega
  have h2 : minor c < 256 ^ 1 := by rw [minor_eq]; omega
  rw [composeNum_ok (by rfl) h1, composeNum_ok (by rfl) h2, composeNum_ok (by rfl) hc]
  simp only [bind, Except.bind, pure, Except.pure, encNat_network_one, encNat_network_two, major_eq, minor_eq]
  simp

theorem version_roundTrip : RoundTrip versionCodec (fun i => i < Gen.TlsVersion.codes.length) := by
  intro i hi
  obtain ⟨b, hb, hbb⟩ := codedStrict_roundTrip versions_tableOk i hi
  refine ⟨b, ?_, hbb⟩
  show composeVersion i = .ok b
  rw [composeVersion_eq hi]; exact hb

theorem version_parseWf : ParseWf versionCodec (fun i => i < Gen.TlsVersion.codes.length) :=
  codedStrict_parseWf _ _
theorem version_lenBound : LenBound versionCodec := codedStrict_lenBound _ _
theorem version_positive : Positive versionCodec := codedStrict_positive _ (by decide)
theorem version_selfDelim : SelfDelim versionCodec := codedStrict_selfDelim _ _
theorem version_noCrash : NoCrash versionCodec := codedStrict_noCrash _ rfl
theorem version_prefixReject : PrefixReject versionCodec (fun i => i < Gen.TlsVersion.codes.length) := by
  intro i b hi hc j hj
  have hc' : composeVersion i = .ok b := hc
  rw [composeVersion_eq hi] at hc'
  exact codedStrict_prefixReject versions_tableOk i b hi hc' j hj

/-! ### record -/

theorem contentType_fits : ∀ v ∈ Gen.TlsContentType.memberCodes, v < 256 ^ 1 := by decide +kernel

def recordInner : Codec (Nat × Nat × Bytes) :=
  seq (intEnum Gen.TlsContentType.memberCodes 1) (seq versionCodec (bytesPrefixed .network 2))

def recordInnerWf (x : Nat × Nat × Bytes) : Prop :=
  x.1 ∈ Gen.TlsContentType.memberCodes ∧ x.2.1 < Gen.TlsVersion.codes.length ∧ x.2.2.length < 256 ^ 2

theorem recordInner_roundTrip : RoundTrip recordInner recordInnerWf :=
  seq_roundTrip (intEnum_roundTrip rfl contentType_fits)
    (seq_roundTrip version_roundTrip (bytesPrefixed_roundTrip .network rfl))

theorem recordInner_prefixReject : PrefixReject recordInner recordInnerWf :=
  seq_prefixReject (intEnum_roundTrip rfl contentType_fits) (intEnum_prefixReject rfl contentType_fits)
    (seq_prefixReject version_roundTrip version_prefixReject (bytesPrefixed_prefixReject .network rfl))

theorem recordInner_lenBound : LenBound recordInner :=
  seq_lenBound (intEnum_lenBound _ _) (seq_lenBound version_lenBound (bytesPrefixed_lenBound _ _))

theorem recordInner_selfDelim : SelfDelim recordInner :=
  seq_selfDelim (intEnum_selfDelim _ _) (intEnum_lenBound _ _)
    (seq_selfDelim version_selfDelim version_lenBound (bytesPrefixed_selfDelim _ _) (bytesPrefixed_lenBound _ _))
    (seq_lenBound version_lenBound (bytesPrefixed_lenBound _ _))

theorem recordInner_noCrash : NoCrash recordInner :=
  seq_noCrash (intEnum_noCrash _ rfl) (seq_noCrash version_noCrash (bytesPrefixed_noCrash .network rfl))

theorem recordInner_parseWf : ParseWf recordInner recordInnerWf :=
  seq_parseWf (intEnum_parseWf _ _) (seq_parseWf version_parseWf (bytesPrefixed_parseWf _ _))

/-- a parsed record consumed at least the five header bytes -/
theorem recordInner_consumes_header (bs : Bytes) (v : Nat × Nat × Bytes) (t : Nat)
    (h : recordInner.parse bs = .ok (v, t)) : 5 ≤ t := by
  obtain ⟨x, y, f⟩ := v
  obtain ⟨n, m, h1, h2, ht⟩ := seq_parse_ok_inv h
  obtain ⟨n2, m2, h3, h4, ht2⟩ := seq_parse_ok_inv h2
  have e1 := (parseNum_ok_inv (parseIntEnum_ok_inv h1).1).1
  obtain ⟨c, hp, _⟩ := parseCoded_ok_inv h3
  have e2 := (parseNum_ok_inv hp).1
  have e3 := (parseBytes_ok_inv h4).2.2.1
  omega

theorem recordInner_min_length (v : Nat × Nat × Bytes) (b : Bytes) (hv : recordInnerWf v)
    (hc : recordInner.compose v = .ok b) : 5 ≤ b.length := by
  obtain ⟨b', hb', hbb⟩ := recordInner_roundTrip v hv
  rw [hc] at hb'
  cases hb'
  have := recordInner_consumes_header _ _ _ (hbb [])
  exact this

def toRecord (x : Nat × Nat × Bytes) : Except PErr Record := .ok ⟨x.1, x.2.1, x.2.2⟩
def ofRecord (r : Record) : Nat × Nat × Bytes := (r.contentType, r.version, r.fragment)

theorem recordCodec_eq : recordCodec = minSize 5 (mapE recordInner toRecord ofRecord) := rfl

def recordWf (r : Record) : Prop :=
  r.contentType ∈ Gen.TlsContentType.memberCodes ∧ r.version < Gen.TlsVersion.codes.length ∧
    r.fragment.length < 256 ^ 2

theorem record_roundTrip : RoundTrip recordCodec recordWf := by
  rw [recordCodec_eq]
  apply minSize_roundTrip
  · exact mapE_roundTrip recordInner_roundTrip (fun r hr => ⟨hr, rfl⟩)
  · intro r b hr hc
    exact recordInner_min_length (ofRecord r) b hr hc

theorem record_prefixReject : PrefixReject recordCodec recordWf := by
  rw [recordCodec_eq]
  apply minSize_prefixReject
  · exact mapE_prefixReject recordInner_prefixReject (fun r hr => hr)
  · intro r b hr hc
    exact recordInner_min_length (ofRecord r) b hr hc

theorem record_lenBound : LenBound recordCodec := by
  rw [recordCodec_eq]; exact minSize_lenBound (mapE_lenBound recordInner_lenBound)

theorem record_positive : Positive recordCodec := by
  rw [recordCodec_eq]
  intro bs r t h
  obtain ⟨h1, _⟩ := minSize_parse_ok_inv h
  obtain ⟨x, h2, _⟩ := mapE_parse_ok_inv h1
  have := recordInner_consumes_header _ _ _ h2
  omega

theorem record_selfDelim : SelfDelim recordCodec := by
  rw [recordCodec_eq]
  apply minSize_selfDelim (mapE_selfDelim recordInner_selfDelim)
  · intro bs r t h
    obtain ⟨x, h2, _⟩ := mapE_parse_ok_inv h
    exact recordInner_consumes_header _ _ _ h2
  · exact mapE_lenBound recordInner_lenBound

theorem record_noCrash : NoCrash recordCodec := by
  rw [recordCodec_eq]
  exact minSize_noCrash (mapE_noCrash recordInner_noCrash (fun x k => by simp [toRecord]))

theorem record_parseWf : ParseWf recordCodec recordWf := by
  rw [recordCodec_eq]
  apply minSize_parseWf
  intro bs r t h
  obtain ⟨x, h2, hf⟩ := mapE_parse_ok_inv h
  have hx := recordInner_parseWf _ _ _ h2
  simp [toRecord] at hf
  subst hf
  exact hx

/-- the consumed length is the length the record header declares: 5 + the 16-bit length field -/
theorem record_declared_length (bs : Bytes) (r : Record) (t : Nat) (h : recordCodec.parse bs = .ok (r, t)) :
    t = 5 + decNat .network ((bs.drop 3).take 2) ∧ t = 5 + r.fragment.length := by
  rw [recordCodec_eq] at h
  obtain ⟨h1, _⟩ := minSize_parse_ok_inv h
  obtain ⟨⟨x, y, f⟩, h2, hf⟩ := mapE_parse_ok_inv h1
  simp [toRecord] at hf
  subst hf
  obtain ⟨n, m, h3, h4, ht⟩ := seq_parse_ok_inv h2
  obtain ⟨n2, m2, h5, h6, ht2⟩ := seq_parse_ok_inv h4
  have e1 := (parseNum_ok_inv (parseIntEnum_ok_inv h3).1).1
  obtain ⟨c, hp, _⟩ := parseCoded_ok_inv h5
  have e2 := (parseNum_ok_inv hp).1
  obtain ⟨_, _, e3, _, _, e4, _⟩ := parseBytes_ok_inv h6
  subst e1; subst e2
  simp only [List.drop_drop] at e4
  constructor
  · rw [ht, ht2, e3, e4]
    show 1 + (2 + (2 + decNat .network (List.take 2 (List.drop 3 bs)))) = _
    omega
  · simp only
    omega

end Cp.Tls
