import Lean.Elab.Tactic
import CpModel.Cost
import CpProofs.Hello
/-
  Lemmas behind C19: linear bounds of the tick functions of `CpModel/Cost.lean`.
-/
namespace Cp.Cost
open Cp Cp.Codec Cp.Tls Cp.Hello

variable {α : Type}

open Lean Elab Tactic Meta in
/-- strip the `save_info` annotations that `split` leaves around instantiated match alternatives (`omega` does not
look through them); the goal is changed to a syntactically cleaner, definitionally equal one -/
elab "clean_mdata" : tactic => do
  let g ← getMainGoal
  let t ← instantiateMVars (← g.getType)
  let t' ← Core.transform t (pre := fun e => match e with
    | .mdata _ b => return .visit b
    | _ => return .continue)
  replaceMainGoal [← g.change t']

/-! ### arithmetic helpers (products of variables are atoms for `omega`) -/

theorem step_arith {a c n L t T : Nat} (hn : 0 < n) (hl : n ≤ L) (ht : t ≤ a * n + c)
    (hT : T ≤ (a + c + 1) * (L - n) + 1) : 1 + t + T ≤ (a + c + 1) * L + 1 := by
  have h1 : (a + c + 1) * L = (a + c + 1) * (L - n) + (a + c + 1) * n := by
    rw [← Nat.mul_add, Nat.sub_add_cancel hl]
  have h2 : (a + c + 1) * n = a * n + c * n + n := by rw [Nat.add_mul, Nat.add_mul, Nat.one_mul]
  have h3 : c ≤ c * n := Nat.le_mul_of_pos_right c hn
  omega

theorem last_arith {a c L t : Nat} (hL : 0 < L) (ht : t ≤ a * L + c) : 1 + t ≤ (a + c + 1) * L + 1 := by
  have h2 : (a + c + 1) * L = a * L + c * L + L := by rw [Nat.add_mul, Nat.add_mul, Nat.one_mul]
  have h3 : c ≤ c * L := Nat.le_mul_of_pos_right c hL
  omega

theorem mul_le_of_le {a x y : Nat} (h : x ≤ y) : a * x ≤ a * y := Nat.mul_le_mul_left a h

/-! ### the item loop -/

/-- the loop condition is evaluated at most `len + 1` times — for any item parser and any fuel -/
theorem itemIterations_le (item : Bytes → Except PErr (α × Nat)) (fuel : Nat) (b : Bytes) :
    itemIterations item fuel b ≤ b.length + 1 := by
  unfold itemIterations
  induction fuel generalizing b with
  | zero => simp [parseItemsTicks]
  | succ fuel ih =>
    simp only [parseItemsTicks]
    split
    · omega
    · next hb =>
      have hpos : 0 < b.length := by
        cases b with
        | nil => simp at hb
        | cons _ _ => simp
      split
      · omega
      · next x n hx =>
        split
        · omega
        · next hn =>
          have hn' : n ≠ 0 := by simpa using hn
          have := ih (b.drop n)
          simp only [List.length_drop] at this
          omega

/-- the whole loop is linear when every item is paid for by the bytes it consumes -/
theorem parseItemsTicks_le {item : Bytes → Except PErr (α × Nat)} {itemTicks : Bytes → Nat} {a c : Nat}
    (hlen : ∀ bs x n, item bs = .ok (x, n) → n ≤ bs.length)
    (hok : ∀ bs x n, item bs = .ok (x, n) → itemTicks bs ≤ a * n + c)
    (herr : ∀ bs e, item bs = .error e → itemTicks bs ≤ a * bs.length + c)
    (fuel : Nat) (b : Bytes) :
    parseItemsTicks item itemTicks fuel b ≤ (a + c + 1) * b.length + 1 := by
  induction fuel generalizing b with
  | zero => simp [parseItemsTicks]
  | succ fuel ih =>
    simp only [parseItemsTicks]
    split
    · omega
    · next hb =>
      have hpos : 0 < b.length := by
        cases b with
        | nil => simp at hb
        | cons _ _ => simp
      split
      · next e he => exact last_arith hpos (herr _ _ he)
      · next x n hx =>
        have hnl := hlen _ _ _ hx
        have hcost := hok _ _ _ hx
        split
        · next hn =>
          have hn0 : n = 0 := by simpa using hn
          subst hn0
          exact last_arith hpos (by simp at hcost; omega)
        · next hn =>
          have hn' : 0 < n := by
            have : n ≠ 0 := by simpa using hn
            omega
          have hrec := ih (b.drop n)
          simp only [List.length_drop] at hrec
          exact step_arith hn' hnl hcost hrec

/-- a successful loop returns at most as many items as the slice has bytes -/
theorem parseItems_ok_length_le {item : Bytes → Except PErr (α × Nat)} {fuel : Nat} {b : Bytes} {xs : List α}
    (h : parseItems item fuel b = .ok xs) : xs.length ≤ b.length := by
  induction fuel generalizing b xs with
  | zero =>
    simp only [parseItems] at h
    split at h
    · cases h; simp
    · cases h
  | succ fuel ih =>
    simp only [parseItems] at h
    split at h
    · cases h; simp
    · split at h
      · cases h
      · next x n hx =>
        split at h
        · cases h
        · next hn =>
          have hn' : n ≠ 0 := by simpa using hn
          cases hr : parseItems item fuel (b.drop n) with
          | error e' => simp [hr, Except.map] at h
          | ok r =>
            simp only [hr, Except.map] at h
            cases h
            have := ih hr
            simp only [List.length_drop] at this
            have hb : 0 < b.length := by
              cases b with
              | nil => simp_all
              | cons _ _ => simp
            simp only [List.length_cons]
            omega

/-- every failure of the loop is the failure of an item: with positive items and fuel covering the slice the loop
itself never fails (the modelled non-termination is unreachable) -/
theorem parseItems_error_is_item {item : Bytes → Except PErr (α × Nat)}
    (hpos : ∀ bs x n, item bs = .ok (x, n) → 0 < n) {fuel : Nat} {b : Bytes} {e : PErr}
    (hf : b.length ≤ fuel) (h : parseItems item fuel b = .error e) : ∃ b', item b' = .error e := by
  rcases parseItems_err_inv h with hb | ⟨_, hlt | ⟨b', x, hx⟩⟩
  · exact hb
  · omega
  · exact absurd (hpos _ _ _ hx) (by omega)

/-! ### primitives -/

theorem findCodeTicks_le (c : Nat) (codes : List Nat) : findCodeTicks c codes ≤ codes.length := by
  induction codes with
  | nil => simp [findCodeTicks]
  | cons x xs ih =>
    simp only [findCodeTicks, List.length_cons]
    split <;> omega

theorem codedTicks_le (codes : List Nat) (k : Nat) (rest : Bytes) : codedTicks codes k rest ≤ codes.length + 1 := by
  unfold codedTicks
  split
  · omega
  · next c n _ =>
    have := findCodeTicks_le c codes
    omega

theorem codedOrFallbackTicks_le (codes : List Nat) (k : Nat) (rest : Bytes) :
    codedOrFallbackTicks codes k rest ≤ codedItemC codes := by
  unfold codedOrFallbackTicks codedItemC
  have := codedTicks_le codes k rest
  split <;> omega

/-- a count taken from the input never drives more passes than there are bytes -/
theorem numItemsTicks_le {k : Nat} (hk : 0 < k) (n : Nat) (rest : Bytes) : numItemsTicks n k rest ≤ rest.length + 1 := by
  unfold numItemsTicks
  split
  · omega
  · next h =>
    split
    · omega
    · have : n ≤ n * k := Nat.le_mul_of_pos_right n hk
      omega

theorem parseNumArray_ok_count {bo : ByteOrder} {n k : Nat} {rest : Bytes} {xs : List Nat} {m : Nat}
    (h : parseNumArray bo n k rest = .ok (xs, m)) : n * k ≤ rest.length ∧ m = n * k ∧ xs.length = n := by
  unfold parseNumArray at h
  split at h
  · cases h
  · split at h
    · cases h
    · cases h
      exact ⟨by omega, rfl, (numItems_spec bo k n rest).1⟩

/-! ### vectors -/

theorem parseCodedOrFallback_len {codes : List Nat} {k : Nat} {bs : Bytes} {v : Coded} {n : Nat}
    (h : parseCodedOrFallback codes k bs = .ok (v, n)) : n = k ∧ k ≤ bs.length := by
  obtain ⟨c, hn, _⟩ := parseCodedOrFallback_ok_inv h
  exact ⟨(parseNum_ok_inv hn).1, (parseNum_ok_inv hn).2.1⟩

theorem slope_arith {K L len T U : Nat} (hlb : len ≤ L) (hT : T ≤ K * len + 1) (hU : U ≤ 1 + len) :
    2 + T + U ≤ (K + 1) * L + 4 := by
  have h3 : K * len ≤ K * L := mul_le_of_le hlb
  have h4 : (K + 1) * L = K * L + L := by rw [Nat.add_mul, Nat.one_mul]
  omega

/-- the vector of items, when every item is paid for by the bytes it consumes: linear in the bytes PRESENT, whatever
length the prefix declares -/
theorem vecItemsTicks_le {p : VecParam} {item : Bytes → Except PErr (α × Nat)} {itemTicks : Bytes → Nat} {a c : Nat}
    (hlen : ∀ bs x n, item bs = .ok (x, n) → n ≤ bs.length)
    (hok : ∀ bs x n, item bs = .ok (x, n) → itemTicks bs ≤ a * n + c)
    (herr : ∀ bs e, item bs = .error e → itemTicks bs ≤ a * bs.length + c) (bs : Bytes) :
    vecItemsTicks p item itemTicks bs ≤ (a + c + 1 + 1) * bs.length + 4 := by
  unfold vecItemsTicks
  split
  · omega
  · next len n hp =>
    simp only
    have hd : (bs.drop n).length = bs.length - n := List.length_drop
    split
    · omega
    · next hshort =>
      have hlb : len ≤ bs.length := by omega
      have hl : ((bs.drop n).take len).length = len := by rw [List.length_take]; omega
      have h1 := parseItemsTicks_le hlen hok herr len ((bs.drop n).take len)
      rw [hl] at h1
      split
      · next items hi =>
        have h2 := parseItems_ok_length_le hi
        rw [hl] at h2
        have h3 : 1 + items.length ≤ 1 + len := by omega
        exact slope_arith hlb h1 h3
      · have h3 : 0 ≤ 1 + len := by omega
        exact slope_arith hlb h1 h3

/-- the same bound in terms of the bytes CONSUMED by a successful parse -/
theorem vecItemsTicks_ok_le {p : VecParam} {item : Bytes → Except PErr (α × Nat)} {itemTicks : Bytes → Nat}
    {sizeOf : α → Except PErr Nat} {a c : Nat}
    (hlen : ∀ bs x n, item bs = .ok (x, n) → n ≤ bs.length)
    (hok : ∀ bs x n, item bs = .ok (x, n) → itemTicks bs ≤ a * n + c)
    (herr : ∀ bs e, item bs = .error e → itemTicks bs ≤ a * bs.length + c) {bs : Bytes} {xs : List α} {t : Nat}
    (h : parseVecItems p item sizeOf bs = .ok (xs, t)) :
    vecItemsTicks p item itemTicks bs ≤ (a + c + 1 + 1) * t + 4 := by
  obtain ⟨len, sz, hn, hle, hi, _, _, _, ht⟩ := parseVecItems_ok_inv h
  unfold vecItemsTicks
  simp only [hn]
  have hnot : ¬ (bs.drop p.numSize).length < len := by omega
  simp only [hnot, if_false, hi]
  have hl : ((bs.drop p.numSize).take len).length = len := by rw [List.length_take]; omega
  have h1 := parseItemsTicks_le hlen hok herr len ((bs.drop p.numSize).take len)
  rw [hl] at h1
  have h2 := parseItems_ok_length_le hi
  rw [hl] at h2
  have h3 : 1 + xs.length ≤ 1 + len := by omega
  have h4 : len ≤ t := by omega
  exact slope_arith h4 h1 h3

theorem codedVecA_eq (codes : List Nat) : codedVecA codes = 0 + codedItemC codes + 1 + 1 := by
  unfold codedVecA; omega

theorem vecCodedTicks_le (p : VecParam) (codes : List Nat) (k : Nat) (bs : Bytes) :
    vecCodedTicks p codes k bs ≤ codedVecA codes * bs.length + 4 := by
  rw [codedVecA_eq]
  exact vecItemsTicks_le (p := p) (item := parseCodedOrFallback codes k)
    (itemTicks := codedOrFallbackTicks codes k) (a := 0) (c := codedItemC codes)
    (fun bs x n h => by have := parseCodedOrFallback_len h; omega)
    (fun bs x n _ => by have := codedOrFallbackTicks_le codes k bs; omega)
    (fun bs e _ => by have := codedOrFallbackTicks_le codes k bs; omega) bs

theorem vecCodedTicks_ok_le {p : VecParam} {codes : List Nat} {k : Nat} {bs : Bytes} {xs : List Coded} {t : Nat}
    (h : parseVecCoded p codes k bs = .ok (xs, t)) :
    vecCodedTicks p codes k bs ≤ codedVecA codes * t + 4 := by
  rw [codedVecA_eq]
  exact vecItemsTicks_ok_le (p := p) (item := parseCodedOrFallback codes k)
    (itemTicks := codedOrFallbackTicks codes k) (a := 0) (c := codedItemC codes)
    (fun bs x n h => by have := parseCodedOrFallback_len h; omega)
    (fun bs x n _ => by have := codedOrFallbackTicks_le codes k bs; omega)
    (fun bs e _ => by have := codedOrFallbackTicks_le codes k bs; omega) h

theorem vecNumTicks_le (p : VecParam) {itemSize : Nat} (hk : 0 < itemSize) (bs : Bytes) :
    vecNumTicks p itemSize bs ≤ 2 * bs.length + 3 := by
  unfold vecNumTicks
  split
  · omega
  · next len n hp =>
    have hd : (bs.drop n).length = bs.length - n := List.length_drop
    generalize len / itemSize = q
    have h1 := numItemsTicks_le hk q (bs.drop n)
    split
    · next raw m hr =>
      obtain ⟨hc, _, hl⟩ := parseNumArray_ok_count hr
      have hq : q ≤ q * itemSize := Nat.le_mul_of_pos_right _ hk
      have hr' : raw.length ≤ bs.length := by omega
      show 1 + numItemsTicks q itemSize (bs.drop n) + (1 + raw.length) ≤ 2 * bs.length + 3
      omega
    · omega

theorem opaqueTicks_le (p : VecParam) (bs : Bytes) : opaqueTicks p bs ≤ 2 * bs.length + 3 := by
  unfold opaqueTicks
  split
  · omega
  · next len n hp =>
    split
    · omega
    · next body m hr =>
      obtain ⟨_, _, hm, hb⟩ := parseRaw_ok_inv hr
      have hd : (bs.drop n).length = bs.length - n := List.length_drop
      have : body.length ≤ bs.length := by
        rw [hb, List.length_take]; omega
      omega

theorem opaqueTicks_ok_le {p : VecParam} {bs : Bytes} {v : Bytes} {t : Nat} (h : parseOpaque p bs = .ok (v, t)) :
    opaqueTicks p bs ≤ 2 * t + 3 := by
  unfold parseOpaque at h
  obtain ⟨⟨len, n⟩, h1, h⟩ := exceptBind_ok_inv h
  simp only at h
  obtain ⟨⟨body, m⟩, h2, h⟩ := exceptBind_ok_inv h
  simp only at h
  obtain ⟨u, _, h⟩ := exceptBind_ok_inv h
  simp only [pure, Except.pure] at h
  cases h
  unfold opaqueTicks
  simp only [h1, h2]
  obtain ⟨_, hm, hm2, hb⟩ := parseRaw_ok_inv h2
  have hbl : v.length ≤ m := by rw [hb, List.length_take]; omega
  have hn := (parseNum_ok_inv h1).1
  omega

/-! ### variants -/

theorem firstNotInvalidTypeTicks_le (ps : List (Bytes → Except PErr (α × Nat))) (bs : Bytes) :
    firstNotInvalidTypeTicks ps bs ≤ ps.length := by
  induction ps with
  | nil => simp [firstNotInvalidTypeTicks]
  | cons p ps ih =>
    simp only [firstNotInvalidTypeTicks, List.length_cons]
    split <;> omega

theorem walkExtVariantsTicks_le (t len : Nat) (bs : Bytes) (variants : List (String × Nat)) :
    walkExtVariantsTicks t len bs variants ≤ variants.length := by
  induction variants with
  | nil => simp [walkExtVariantsTicks]
  | cons v more ih =>
    obtain ⟨cls, code⟩ := v
    simp only [walkExtVariantsTicks, List.length_cons]
    split
    · omega
    · split
      · omega
      · split
        · omega
        · split <;> omega

/-- total cost of a variant: the rejected alternatives cost at most `h` each, the one that decides at most `m` -/
theorem variantTicks_le {ps : List ((Bytes → Except PErr (α × Nat)) × (Bytes → Nat))} {bs : Bytes} {h m : Nat}
    (hrej : ∀ q ∈ ps, q.1 bs = .error .invalidType → q.2 bs ≤ h) (hany : ∀ q ∈ ps, q.2 bs ≤ m) :
    variantTicks ps bs ≤ ps.length * (1 + h) + m := by
  induction ps with
  | nil => simp [variantTicks]
  | cons q ps ih =>
    obtain ⟨p, t⟩ := q
    have ih' := ih (fun q hq => hrej q (List.mem_cons_of_mem _ hq)) (fun q hq => hany q (List.mem_cons_of_mem _ hq))
    simp only [variantTicks, List.length_cons, Nat.add_mul, Nat.one_mul]
    have h1 := hany (p, t) (List.mem_cons_self ..)
    simp only at h1
    split
    · next hp =>
      have := hrej (p, t) (List.mem_cons_self ..) hp
      simp only at this
      omega
    · have : 0 ≤ ps.length * (1 + h) := Nat.zero_le _
      omega

/-! ### framing -/

theorem recordTicks_le (bs : Bytes) : recordTicks bs ≤ recordB := by
  unfold recordTicks recordB
  have := codedTicks_le Gen.TlsVersion.codes 2 (bs.drop 1)
  split <;> omega

theorem hsHeader_payload_le {typ : Nat} {bs p : Bytes} {t : Nat} (h : (hsHeaderCodec typ).parse bs = .ok (p, t)) :
    4 + p.length = t ∧ t ≤ bs.length := by
  have hl := hsHeader_lenBound typ _ _ _ h
  rw [hsHeaderCodec_eq] at h
  obtain ⟨h1, _⟩ := minSize_parse_ok_inv h
  obtain ⟨⟨ty, p'⟩, hx, hf⟩ := mapE_parse_ok_inv h1
  cases hf
  obtain ⟨e1, _, _, _⟩ := hsHeaderInner_consumed typ _ _ _ hx
  simp only at e1
  show 4 + p'.length = t ∧ t ≤ bs.length
  exact ⟨by omega, hl⟩

theorem hsFramedTicks_le {typ : Nat} {innerTicks : Bytes → Nat} {A B : Nat}
    (hin : ∀ pl, innerTicks pl ≤ A * pl.length + B) (bs : Bytes) :
    hsFramedTicks typ innerTicks bs ≤ A * bs.length + (B + hsHeaderTicks) := by
  unfold hsFramedTicks
  split
  · next pl t hp =>
    obtain ⟨h1, h2⟩ := hsHeader_payload_le hp
    have := hin pl
    have h3 : A * pl.length ≤ A * bs.length := mul_le_of_le (by omega)
    omega
  · have : 0 ≤ A * bs.length := Nat.zero_le _
    omega

/-! ### hello extensions -/

theorem extHeaderTicks_le (bs : Bytes) : extHeaderTicks bs ≤ extHeaderC := by
  unfold extHeaderTicks extHeaderC
  have := codedTicks_le Gen.ExtensionType.codes 2 bs
  omega

/-- the slope of the body parsers covers every coded vector an extension class reads -/
def KindBounded : ExtKind → Prop
  | .vecCoded _ codes _ => codedVecA codes ≤ extBodyA
  | _ => True

theorem extKindOf_bounded {cls : String} {kind : ExtKind} (h : extKindOf cls = some kind) : KindBounded kind := by
  unfold extKindOf at h
  split at h <;> first
    | (cases h; exact trivial)
    | (cases h; show codedVecA _ ≤ extBodyA; unfold extBodyA; omega)
    | cases h

theorem extBodyA_ge : 2 ≤ extBodyA ∧ codedVecA Gen.TlsVersion.codes ≤ extBodyA := by
  unfold extBodyA; omega

theorem extBodyC_ge : 4 ≤ extBodyC ∧ Gen.TlsVersion.codes.length + 1 ≤ extBodyC := by
  unfold extBodyC; omega

theorem lin_le {A C x y : Nat} (h : x ≤ y) : A * x + C ≤ A * y + C :=
  Nat.add_le_add_right (Nat.mul_le_mul_left A h) C

theorem lin_mono {A A' C C' x t : Nat} (ht : t ≤ A * x + C) (hA : A ≤ A') (hC : C ≤ C') : t ≤ A' * x + C' := by
  have : A * x ≤ A' * x := Nat.mul_le_mul_right x hA
  omega

theorem const_le_lin {A C x t : Nat} (ht : t ≤ C) : t ≤ A * x + C := by
  have : 0 ≤ A * x := Nat.zero_le _
  omega

theorem parseVecItems_consumed_le {p : VecParam} {item : Bytes → Except PErr (α × Nat)}
    {sizeOf : α → Except PErr Nat} {bs : Bytes} {xs : List α} {t : Nat}
    (h : parseVecItems p item sizeOf bs = .ok (xs, t)) : t ≤ bs.length := by
  obtain ⟨len, sz, hn, hle, _, _, _, _, ht⟩ := parseVecItems_ok_inv h
  have hk := (parseNum_ok_inv hn).2.1
  have hd : (bs.drop p.numSize).length = bs.length - p.numSize := List.length_drop
  omega

/-! ### the structured bodies (CpModel/Tls/Ext2.lean) -/

theorem parseName_opaque {p : VecParam} {table : List Gen.WireName} {bs : Bytes} {i n : Nat}
    (h : parseName p table bs = .ok (i, n)) : ∃ raw, parseOpaque p bs = .ok (raw, n) := by
  unfold parseName at h
  obtain ⟨⟨raw, m⟩, h1, h⟩ := exceptBind_ok_inv h
  simp only at h
  split at h
  · simp only [pure, Except.pure] at h
    cases h
    exact ⟨raw, h1⟩
  · cases h

theorem nameTicks_ok {p : VecParam} {table : List Gen.WireName} {bs : Bytes} {i n : Nat}
    (h : parseName p table bs = .ok (i, n)) : nameTicks p table bs ≤ 2 * n + (table.length + 5) := by
  obtain ⟨raw, ho⟩ := parseName_opaque h
  have := opaqueTicks_ok_le ho
  unfold nameTicks; clean_mdata; omega

theorem nameTicks_any (p : VecParam) (table : List Gen.WireName) (bs : Bytes) :
    nameTicks p table bs ≤ 2 * bs.length + (table.length + 5) := by
  have := opaqueTicks_le p bs
  unfold nameTicks; clean_mdata; omega

theorem nameVecA_eq (table : List Gen.WireName) : nameVecA table = 2 + (table.length + 5) + 1 + 1 := by
  unfold nameVecA; omega

theorem namesVecTicks_ok {pl p : VecParam} {table : List Gen.WireName} {sizeOf : Nat → Except PErr Nat} {bs : Bytes}
    {xs : List Nat} {t : Nat} (h : parseVecItems pl (parseName p table) sizeOf bs = .ok (xs, t)) :
    vecItemsTicks pl (parseName p table) (nameTicks p table) bs ≤ nameVecA table * t + 4 := by
  rw [nameVecA_eq]
  exact vecItemsTicks_ok_le (fun _ _ _ h => (parseName_ok_inv h).2.2) (fun _ _ _ h => nameTicks_ok h)
    (fun bs _ _ => nameTicks_any p table bs) h

theorem namesVecTicks_any (pl p : VecParam) (table : List Gen.WireName) (bs : Bytes) :
    vecItemsTicks pl (parseName p table) (nameTicks p table) bs ≤ nameVecA table * bs.length + 4 := by
  rw [nameVecA_eq]
  exact vecItemsTicks_le (fun _ _ _ h => (parseName_ok_inv h).2.2) (fun _ _ _ h => nameTicks_ok h)
    (fun bs _ _ => nameTicks_any p table bs) bs

theorem body_arith {K len T U : Nat} (hT : T ≤ K * len + 1) (hU : U ≤ 1 + len) : 1 + T + U ≤ (K + 1) * len + 3 := by
  have h4 : (K + 1) * len = K * len + len := by rw [Nat.add_mul, Nat.one_mul]
  clean_mdata
  omega

/-- the body of a vector whose prefix was read elsewhere: linear in the declared length -/
theorem vecBodyTicks_le {α : Type} {item : Bytes → Except PErr (α × Nat)} {itemTicks : Bytes → Nat} {a c : Nat}
    (hlen : ∀ bs x n, item bs = .ok (x, n) → n ≤ bs.length)
    (hok : ∀ bs x n, item bs = .ok (x, n) → itemTicks bs ≤ a * n + c)
    (herr : ∀ bs e, item bs = .error e → itemTicks bs ≤ a * bs.length + c) (len : Nat) (rest : Bytes) :
    vecBodyTicks item itemTicks len rest ≤ (a + c + 1 + 1) * len + 3 ∧
      vecBodyTicks item itemTicks len rest ≤ (a + c + 1 + 1) * rest.length + 3 := by
  unfold vecBodyTicks
  split
  · exact ⟨by omega, by omega⟩
  · next hshort =>
    have hl : (rest.take len).length = len := by rw [List.length_take]; omega
    have h1 := parseItemsTicks_le hlen hok herr len (rest.take len)
    rw [hl] at h1
    have key : 1 + parseItemsTicks item itemTicks len (rest.take len) +
        (match parseItems item len (rest.take len) with
          | .ok items => 1 + items.length
          | .error _ => 0) ≤ (a + c + 1 + 1) * len + 3 := by
      cases hi : parseItems item len (rest.take len) with
      | ok items =>
        have h2 := parseItems_ok_length_le hi
        rw [hl] at h2
        dsimp only
        have hU : 1 + items.length ≤ 1 + len := by omega
        exact body_arith h1 hU
      | error e =>
        dsimp only
        have hU : 0 ≤ 1 + len := by omega
        exact body_arith h1 hU
    refine ⟨key, Nat.le_trans key ?_⟩
    have : (a + c + 1 + 1) * len ≤ (a + c + 1 + 1) * rest.length := Nat.mul_le_mul_left _ (by omega)
    clean_mdata
    omega

theorem keyShareKnownTicks_any (bs : Bytes) :
    keyShareKnownTicks bs ≤ 2 * bs.length + (Gen.TlsNamedCurve.codes.length + 4) := by
  unfold keyShareKnownTicks
  have hc := codedTicks_le Gen.TlsNamedCurve.codes 2 bs
  split
  · next g n _ =>
    have := opaqueTicks_le keyExchangeParam (bs.drop n)
    have hd : (bs.drop n).length = bs.length - n := List.length_drop
    clean_mdata
    omega
  · omega

theorem keyShareKnownTicks_ok {bs : Bytes} {g : Nat} {key : Bytes} {n : Nat}
    (h : parseKeyShareKnown bs = .ok ((g, key), n)) :
    keyShareKnownTicks bs ≤ 2 * n + (Gen.TlsNamedCurve.codes.length + 4) := by
  unfold parseKeyShareKnown at h
  obtain ⟨⟨g', n1⟩, h1, h⟩ := exceptBind_ok_inv h
  simp only at h
  obtain ⟨⟨key', n2⟩, h2, h⟩ := exceptBind_ok_inv h
  simp only [pure, Except.pure] at h
  cases h
  unfold keyShareKnownTicks
  simp only [h1]
  have hc := codedTicks_le Gen.TlsNamedCurve.codes 2 bs
  have := opaqueTicks_ok_le h2
  clean_mdata
  omega

theorem keyShareTicks_ok {bs : Bytes} {e : KeyShare} {n : Nat} (h : parseKeyShare bs = .ok (e, n)) :
    keyShareTicks bs ≤ 2 * n + (Gen.TlsNamedCurve.codes.length + 7) := by
  unfold parseKeyShare orElseInvalid at h
  unfold keyShareTicks
  split at h
  · next hinv =>
    -- the strict class refused the group code: no key vector was read
    have hk := except_map_err_inv' hinv
    have hcoded : parseCoded Gen.TlsNamedCurve.codes 2 bs = .error .invalidValue := by
      unfold parseKeyShareKnown at hk
      rcases exceptBind_err_inv hk with h1 | ⟨⟨g, n1⟩, _, hk⟩
      · exact h1
      · simp only at hk
        rcases exceptBind_err_inv hk with h2 | ⟨⟨key, n2⟩, _, hk⟩
        · exact absurd rfl (parseOpaque_sizeErr keyExchangeParam_ok.1 h2).ne_invalidValue
        · cases hk
    have hc := codedTicks_le Gen.TlsNamedCurve.codes 2 bs
    unfold keyShareKnownTicks
    simp only [hcoded]
    clean_mdata
    omega
  · obtain ⟨⟨⟨g, key⟩, n'⟩, hk, he⟩ := except_map_ok_inv h
    simp only [keyShareOfKnown] at he
    cases he
    have := keyShareKnownTicks_ok hk
    clean_mdata
    omega

theorem keyShareTicks_any (bs : Bytes) : keyShareTicks bs ≤ 2 * bs.length + (Gen.TlsNamedCurve.codes.length + 7) := by
  have := keyShareKnownTicks_any bs
  unfold keyShareTicks; clean_mdata; omega

theorem keyShareVecA_eq : keyShareVecA = 2 + (Gen.TlsNamedCurve.codes.length + 7) + 1 + 1 := by
  unfold keyShareVecA; omega

theorem sctTicks_any (bs : Bytes) :
    sctTicks bs ≤ 2 * bs.length + (Gen.TlsSignatureAndHashAlgorithm.codes.length + 14) := by
  unfold sctTicks
  split
  · omega
  · next sct n hb =>
    obtain ⟨_, _, hn, hle, _⟩ := parseBytes_ok_inv hb
    clean_mdata
    omega

theorem sctTicks_ok {bs : Bytes} {s : Sct} {n : Nat} (h : parseSct bs = .ok (s, n)) :
    sctTicks bs ≤ 2 * n + (Gen.TlsSignatureAndHashAlgorithm.codes.length + 14) := by
  unfold parseSct at h
  obtain ⟨⟨blob, n0⟩, h0, h⟩ := exceptBind_ok_inv h
  have hn : n = n0 := by
    simp only at h
    obtain ⟨⟨ver, a⟩, _, h⟩ := exceptBind_ok_inv h
    simp only at h
    obtain ⟨⟨log, b⟩, _, h⟩ := exceptBind_ok_inv h
    simp only at h
    obtain ⟨⟨ts, c⟩, _, h⟩ := exceptBind_ok_inv h
    simp only at h
    obtain ⟨⟨ext, d⟩, _, h⟩ := exceptBind_ok_inv h
    simp only at h
    obtain ⟨⟨alg, e⟩, _, h⟩ := exceptBind_ok_inv h
    simp only at h
    obtain ⟨⟨sig, f⟩, _, h⟩ := exceptBind_ok_inv h
    simp only at h
    cases ts with
    | none => cases h
    | some t => simp only [pure, Except.pure] at h; cases h; rfl
  subst hn
  obtain ⟨_, _, hnn, _⟩ := parseBytes_ok_inv h0
  unfold sctTicks
  simp only [h0]
  clean_mdata
  omega

theorem sctVecA_eq : sctVecA = 2 + (Gen.TlsSignatureAndHashAlgorithm.codes.length + 14) + 1 + 1 := by
  unfold sctVecA; omega

theorem ext2BodyA_ge :
    nameVecA Gen.TlsProtocolName_wire ≤ ext2BodyA ∧ nameVecA Gen.TlsNextProtocolName_wire ≤ ext2BodyA ∧
    keyShareVecA ≤ ext2BodyA ∧ sctVecA ≤ ext2BodyA ∧ codedVecA Gen.TlsTokenBindingParamater.codes ≤ ext2BodyA ∧
    11 ≤ ext2BodyA := by
  unfold ext2BodyA; omega

theorem drop_drop' (rest : Bytes) (a b : Nat) : (rest.drop a).drop b = rest.drop (a + b) := by
  rw [List.drop_drop]

/-- a successful parse of a structured body is paid for by the bytes it consumes -/
theorem ext2BodyTicks_ok {k : Ext2Kind} {len : Nat} {rest : Bytes} {b : Ext2Body} {m : Nat}
    (h : parseExt2Body k len rest = .ok (b, m)) : ext2BodyTicks k len rest ≤ ext2BodyA * m + ext2BodyC := by
  obtain ⟨hP, hN, hK, hS, hT, h11⟩ := ext2BodyA_ge
  have hC : ext2BodyC = Gen.TlsNamedCurve.codes.length + 12 := rfl
  cases k with
  | serverName =>
    simp only [parseExt2Body] at h
    obtain ⟨⟨l, n1⟩, h1, h⟩ := exceptBind_ok_inv h
    simp only at h
    obtain ⟨⟨ty, n2⟩, h2, h⟩ := exceptBind_ok_inv h
    simp only at h
    obtain ⟨⟨host, n3⟩, h3, h⟩ := exceptBind_ok_inv h
    simp only at h
    split at h
    · simp only [pure, Except.pure] at h
      cases h
      obtain ⟨hn1, _, _⟩ := parseNum_ok_inv h1
      obtain ⟨hp2, _⟩ := parseIntEnum_ok_inv h2
      obtain ⟨hn2, _, _⟩ := parseNum_ok_inv hp2
      subst hn1; subst hn2
      rw [drop_drop'] at h3
      have e3 : (2 : Nat) + 1 = 3 := rfl
      rw [e3] at h3
      have ht := opaqueTicks_ok_le h3
      obtain ⟨_, _, _, hn3, _⟩ := parseOpaque_ok_full h3
      simp only [ext2BodyTicks, h3]
      have : 4 * (2 + 1 + n3) ≤ ext2BodyA * (2 + 1 + n3) := Nat.mul_le_mul_right _ (by omega)
      clean_mdata
      omega
    · cases h
  | protocolNames =>
    simp only [parseExt2Body] at h
    obtain ⟨⟨items, m'⟩, h1, h⟩ := exceptBind_ok_inv h
    simp only [pure, Except.pure] at h
    cases h
    exact lin_mono (namesVecTicks_ok h1) hP (by omega)
  | nextProtocolNames =>
    simp only [parseExt2Body] at h
    obtain ⟨⟨items, m'⟩, h1, h⟩ := exceptBind_ok_inv h
    simp only [pure, Except.pure] at h
    cases h
    obtain ⟨_, _, _, hm⟩ := parseVecBody_ok_full h1
    rw [hm]
    have := (vecBodyTicks_le (item := parseName nextProtocolNameParam Gen.TlsNextProtocolName_wire)
      (itemTicks := nameTicks nextProtocolNameParam Gen.TlsNextProtocolName_wire) (a := 2)
      (c := Gen.TlsNextProtocolName_wire.length + 5) (fun _ _ _ h => (parseName_ok_inv h).2.2)
      (fun _ _ _ h => nameTicks_ok h) (fun bs _ _ => nameTicks_any _ _ bs) len rest).1
    rw [← nameVecA_eq] at this
    simp only [ext2BodyTicks]
    have h2 : nameVecA Gen.TlsNextProtocolName_wire * len ≤ ext2BodyA * len := Nat.mul_le_mul_right _ hN
    clean_mdata
    omega
  | statusRequest =>
    simp only [parseExt2Body] at h
    obtain ⟨⟨ty, n1⟩, h1, h⟩ := exceptBind_ok_inv h
    simp only at h
    obtain ⟨⟨ids, n2⟩, h2, h⟩ := exceptBind_ok_inv h
    simp only at h
    obtain ⟨⟨exts, n3⟩, h3, h⟩ := exceptBind_ok_inv h
    simp only [pure, Except.pure] at h
    cases h
    obtain ⟨hp1, _⟩ := parseIntEnum_ok_inv h1
    obtain ⟨hn1, _, _⟩ := parseNum_ok_inv hp1
    subst hn1
    have h2' : parseVecItems responderIdListParam (parseOpaque responderIdParam)
        (fun d => (composeOpaque responderIdParam d).map (·.length)) (rest.drop 1) = .ok (ids, n2) := h2
    have hv := vecItemsTicks_ok_le (item := parseOpaque responderIdParam) (itemTicks := opaqueTicks responderIdParam)
      (a := 2) (c := 3)
      (fun _ _ _ h => (parseOpaque_lenBound h).1) (fun _ _ _ h => opaqueTicks_ok_le h)
      (fun bs _ _ => opaqueTicks_le _ bs) h2'
    have ho := opaqueTicks_ok_le h3
    simp only [ext2BodyTicks, h2']
    have : 7 * (1 + n2 + n3) ≤ ext2BodyA * (1 + n2 + n3) := Nat.mul_le_mul_right _ (by omega)
    clean_mdata
    omega
  | keyShareClient =>
    simp only [parseExt2Body] at h
    obtain ⟨⟨entries, m'⟩, h1, h⟩ := exceptBind_ok_inv h
    simp only [pure, Except.pure] at h
    cases h
    have := vecItemsTicks_ok_le (itemTicks := keyShareTicks) (a := 2) (c := Gen.TlsNamedCurve.codes.length + 7)
      (fun _ _ _ h => (parseKeyShare_ok_wf h).2.2) (fun _ _ _ h => keyShareTicks_ok h)
      (fun bs _ _ => keyShareTicks_any bs) h1
    rw [← keyShareVecA_eq] at this
    exact lin_mono this hK (by omega)
  | keyShareServer =>
    simp only [parseExt2Body] at h
    obtain ⟨⟨⟨g, key⟩, m'⟩, h1, h⟩ := exceptBind_ok_inv h
    simp only [pure, Except.pure] at h
    cases h
    have := keyShareKnownTicks_ok h1
    simp only [ext2BodyTicks]
    have : 2 * m ≤ ext2BodyA * m := Nat.mul_le_mul_right _ (by omega)
    clean_mdata
    omega
  | keyShareHelloRetry =>
    simp only [parseExt2Body] at h
    split at h
    · cases h
    · next hl =>
      have hc := codedTicks_le Gen.TlsNamedCurve.codes 2 rest
      simp only [ext2BodyTicks, hl, if_false, Bool.false_eq_true]
      exact const_le_lin (by omega)
  | tokenBinding =>
    simp only [parseExt2Body, tokenBindingVersionCodec, minSize, seq, num] at h
    obtain ⟨⟨⟨major, minor⟩, n1⟩, h1, h⟩ := exceptBind_ok_inv h
    simp only at h
    obtain ⟨⟨params, n2⟩, h2, h⟩ := exceptBind_ok_inv h
    simp only [pure, Except.pure] at h
    cases h
    split at h1
    · cases h1
    · obtain ⟨⟨ma, a⟩, ha, h1⟩ := exceptBind_ok_inv h1
      simp only at h1
      obtain ⟨⟨mi, b'⟩, hb, h1⟩ := exceptBind_ok_inv h1
      simp only [pure, Except.pure] at h1
      cases h1
      obtain ⟨hna, _, _⟩ := parseNum_ok_inv ha
      obtain ⟨hnb, _, _⟩ := parseNum_ok_inv hb
      subst hna; subst hnb
      have e2 : (1 : Nat) + 1 = 2 := rfl
      rw [e2] at h2
      have := vecCodedTicks_ok_le h2
      simp only [ext2BodyTicks]
      have h3 : codedVecA Gen.TlsTokenBindingParamater.codes * n2 ≤ ext2BodyA * (1 + 1 + n2) :=
        Nat.le_trans (Nat.mul_le_mul_right _ hT) (Nat.mul_le_mul_left _ (by omega))
      clean_mdata
      omega
  | sctList =>
    simp only [parseExt2Body] at h
    obtain ⟨⟨items, m'⟩, h1, h⟩ := exceptBind_ok_inv h
    simp only [pure, Except.pure] at h
    cases h
    have := vecItemsTicks_ok_le (itemTicks := sctTicks) (a := 2)
      (c := Gen.TlsSignatureAndHashAlgorithm.codes.length + 14)
      (fun _ _ _ h => (parseSct_ok_wf h).2.2) (fun _ _ _ h => sctTicks_ok h) (fun bs _ _ => sctTicks_any bs) h1
    rw [← sctVecA_eq] at this
    exact lin_mono this hS (by omega)

/-- whatever the outcome, a structured body costs at most linearly in the data the class is given -/
theorem ext2BodyTicks_any (k : Ext2Kind) (len : Nat) (rest : Bytes) :
    ext2BodyTicks k len rest ≤ ext2BodyA * rest.length + ext2BodyC := by
  obtain ⟨hP, hN, hK, hS, hT, h11⟩ := ext2BodyA_ge
  have hC : ext2BodyC = Gen.TlsNamedCurve.codes.length + 12 := rfl
  cases k with
  | serverName =>
    simp only [ext2BodyTicks]
    have hd : (rest.drop 3).length = rest.length - 3 := List.length_drop
    have ht := opaqueTicks_le serverNameParam (rest.drop 3)
    have : 4 * rest.length ≤ ext2BodyA * rest.length := Nat.mul_le_mul_right _ (by omega)
    split
    · next host n3 h3 =>
      obtain ⟨_, hle, _, _⟩ := parseOpaque_ok_full h3
      have hd2 : ((rest.drop 3).drop serverNameParam.numSize).length ≤ rest.length := by
        simp only [List.length_drop]; omega
      clean_mdata
      omega
    · omega
  | protocolNames => exact lin_mono (namesVecTicks_any _ _ _ rest) hP (by omega)
  | nextProtocolNames =>
    have := (vecBodyTicks_le (item := parseName nextProtocolNameParam Gen.TlsNextProtocolName_wire)
      (itemTicks := nameTicks nextProtocolNameParam Gen.TlsNextProtocolName_wire) (a := 2)
      (c := Gen.TlsNextProtocolName_wire.length + 5) (fun _ _ _ h => (parseName_ok_inv h).2.2)
      (fun _ _ _ h => nameTicks_ok h) (fun bs _ _ => nameTicks_any _ _ bs) len rest).2
    rw [← nameVecA_eq] at this
    simp only [ext2BodyTicks]
    have h2 : nameVecA Gen.TlsNextProtocolName_wire * rest.length ≤ ext2BodyA * rest.length :=
      Nat.mul_le_mul_right _ hN
    clean_mdata
    omega
  | statusRequest =>
    simp only [ext2BodyTicks]
    have hd : (rest.drop 1).length = rest.length - 1 := List.length_drop
    have hv := vecItemsTicks_le (p := responderIdListParam) (item := parseOpaque responderIdParam)
      (itemTicks := opaqueTicks responderIdParam) (a := 2) (c := 3)
      (fun _ _ _ h => (parseOpaque_lenBound h).1) (fun _ _ _ h => opaqueTicks_ok_le h)
      (fun bs _ _ => opaqueTicks_le _ bs) (rest.drop 1)
    have h9 : 9 * rest.length ≤ ext2BodyA * rest.length := Nat.mul_le_mul_right _ (by omega)
    split
    · next ids n2 _ =>
      have ho := opaqueTicks_le requestExtensionsParam ((rest.drop 1).drop n2)
      have hd2 : ((rest.drop 1).drop n2).length ≤ rest.length := by simp only [List.length_drop]; omega
      clean_mdata
      omega
    · omega
  | keyShareClient =>
    have := vecItemsTicks_le (p := keyShareListParam) (item := parseKeyShare) (itemTicks := keyShareTicks) (a := 2)
      (c := Gen.TlsNamedCurve.codes.length + 7)
      (fun _ _ _ h => (parseKeyShare_ok_wf h).2.2) (fun _ _ _ h => keyShareTicks_ok h)
      (fun bs _ _ => keyShareTicks_any bs) rest
    rw [← keyShareVecA_eq] at this
    exact lin_mono this hK (by omega)
  | keyShareServer =>
    have := keyShareKnownTicks_any rest
    simp only [ext2BodyTicks]
    have : 2 * rest.length ≤ ext2BodyA * rest.length := Nat.mul_le_mul_right _ (by omega)
    clean_mdata
    omega
  | keyShareHelloRetry =>
    have hc := codedTicks_le Gen.TlsNamedCurve.codes 2 rest
    simp only [ext2BodyTicks]
    split <;> exact const_le_lin (by omega)
  | tokenBinding =>
    have := vecCodedTicks_le tokenBindingParam Gen.TlsTokenBindingParamater.codes 1 (rest.drop 2)
    have hd : (rest.drop 2).length = rest.length - 2 := List.length_drop
    simp only [ext2BodyTicks]
    have h3 : codedVecA Gen.TlsTokenBindingParamater.codes * (rest.drop 2).length ≤ ext2BodyA * rest.length :=
      Nat.le_trans (Nat.mul_le_mul_right _ hT) (Nat.mul_le_mul_left _ (by omega))
    clean_mdata
    omega
  | sctList =>
    have := vecItemsTicks_le (p := sctListParam) (item := parseSct) (itemTicks := sctTicks) (a := 2)
      (c := Gen.TlsSignatureAndHashAlgorithm.codes.length + 14)
      (fun _ _ _ h => (parseSct_ok_wf h).2.2) (fun _ _ _ h => sctTicks_ok h) (fun bs _ _ => sctTicks_any bs) rest
    rw [← sctVecA_eq] at this
    exact lin_mono this hS (by omega)

/-- a class that declines the declared length has done no work beyond the header check -/
theorem ext2BodyTicks_declined {k : Ext2Kind} {len : Nat} (hd : k.declines len = true) (rest : Bytes) :
    ext2BodyTicks k len rest = 0 := by
  cases k <;> simp [Ext2Kind.declines] at hd
  simp [ext2BodyTicks, hd]

/-- a successful body parse is paid for by the bytes it consumes, and stays inside the buffer -/
theorem extBody_ok {kind : ExtKind} (hb : KindBounded kind) {len : Nat} {rest : Bytes} {body : ExtBody} {m : Nat}
    (h : parseExtBody kind len rest = .ok (body, m)) :
    extBodyTicks kind len rest ≤ extBodyA * m + extBodyC ∧ m ≤ rest.length := by
  obtain ⟨hA2, hAv⟩ := extBodyA_ge
  obtain ⟨hC4, hCv⟩ := extBodyC_ge
  cases kind with
  | ext2 k =>
    simp only [parseExtBody] at h
    obtain ⟨⟨b, m'⟩, h1, h2⟩ := exceptBind_ok_inv h
    simp only [pure, Except.pure] at h2
    cases h2
    refine ⟨?_, parseExt2Body_lenBound h1⟩
    have hA : ext2BodyA ≤ extBodyA := by unfold extBodyA; omega
    have hC : ext2BodyC ≤ extBodyC := by unfold extBodyC; omega
    exact lin_mono (ext2BodyTicks_ok h1) hA hC
  | unusedData =>
    simp only [parseExtBody] at h
    obtain ⟨⟨d, m'⟩, h1, h2⟩ := exceptBind_ok_inv h
    simp only at h2
    split at h2
    · simp only [pure, Except.pure] at h2
      cases h2
      exact ⟨const_le_lin (by simp only [extBodyTicks]; omega), (parseRaw_ok_inv h1).2.2.1⟩
    · cases h2
  | vecCoded p codes k =>
    simp only [parseExtBody] at h
    obtain ⟨⟨items, m'⟩, h1, h2⟩ := exceptBind_ok_inv h
    simp only [pure, Except.pure] at h2
    cases h2
    refine ⟨?_, parseVecItems_consumed_le h1⟩
    have := vecCodedTicks_ok_le h1
    exact lin_mono this hb (by omega)
  | renegotiationInfo =>
    simp only [parseExtBody] at h
    obtain ⟨⟨d, m'⟩, h1, h2⟩ := exceptBind_ok_inv h
    simp only [pure, Except.pure] at h2
    cases h2
    refine ⟨lin_mono (opaqueTicks_ok_le h1) hA2 (by omega), ?_⟩
    unfold parseOpaque at h1
    obtain ⟨⟨l, n⟩, g1, g⟩ := exceptBind_ok_inv h1
    simp only at g
    obtain ⟨⟨b, m2⟩, g2, g⟩ := exceptBind_ok_inv g
    simp only at g
    obtain ⟨u, _, g⟩ := exceptBind_ok_inv g
    simp only [pure, Except.pure] at g
    cases g
    have hn := parseNum_ok_inv g1
    have hr := (parseRaw_ok_inv g2).2.2.1
    have hd : (rest.drop n).length = rest.length - n := List.length_drop
    omega
  | sessionTicket =>
    simp only [parseExtBody] at h
    obtain ⟨⟨d, m'⟩, h1, h2⟩ := exceptBind_ok_inv h
    simp only [pure, Except.pure] at h2
    cases h2
    exact ⟨const_le_lin (by simp only [extBodyTicks]; omega), (parseRaw_ok_inv h1).2.2.1⟩
  | padding =>
    simp only [parseExtBody] at h
    obtain ⟨⟨d, m'⟩, h1, h2⟩ := exceptBind_ok_inv h
    simp only at h2
    split at h2
    · simp only [pure, Except.pure] at h2
      cases h2
      obtain ⟨_, hm, hm2, hd⟩ := parseRaw_ok_inv h1
      refine ⟨?_, hm2⟩
      simp only [extBodyTicks, h1]
      have hdl : d.length ≤ m := by rw [hd, List.length_take]; omega
      have : 2 * m ≤ extBodyA * m := Nat.mul_le_mul_right m hA2
      omega
    · cases h2
  | recordSizeLimit =>
    simp only [parseExtBody] at h
    obtain ⟨⟨v, m'⟩, h1, h2⟩ := exceptBind_ok_inv h
    simp only [pure, Except.pure] at h2
    cases h2
    have hn := parseNum_ok_inv h1
    exact ⟨const_le_lin (by simp only [extBodyTicks]; omega), by omega⟩
  | supportedVersionsClient =>
    simp only [parseExtBody] at h
    obtain ⟨⟨items, m'⟩, h1, h2⟩ := exceptBind_ok_inv h
    simp only [pure, Except.pure] at h2
    cases h2
    refine ⟨?_, parseVecItems_consumed_le h1⟩
    have h1' : parseVecCoded (vp Gen.vec_TlsSupportedVersionVector) Gen.TlsVersion.codes 2 rest = .ok (items, m) := h1
    have := vecCodedTicks_ok_le h1'
    exact lin_mono this hAv (by omega)
  | supportedVersionsServer =>
    simp only [parseExtBody] at h
    obtain ⟨⟨i, m'⟩, h1, h2⟩ := exceptBind_ok_inv h
    simp only [pure, Except.pure] at h2
    cases h2
    obtain ⟨c, hc, _⟩ := parseCoded_ok_inv h1
    have hn := parseNum_ok_inv hc
    refine ⟨const_le_lin ?_, by omega⟩
    simp only [extBodyTicks]
    have := codedTicks_le Gen.TlsVersion.codes 2 rest
    omega

/-- whatever the outcome, a body parser costs at most linearly in what is left of the buffer -/
theorem extBody_any {kind : ExtKind} (hb : KindBounded kind) (len : Nat) (rest : Bytes) :
    extBodyTicks kind len rest ≤ extBodyA * rest.length + extBodyC := by
  obtain ⟨hA2, hAv⟩ := extBodyA_ge
  obtain ⟨hC4, hCv⟩ := extBodyC_ge
  cases kind with
  | ext2 k =>
    have hA : ext2BodyA ≤ extBodyA := by unfold extBodyA; omega
    have hC : ext2BodyC ≤ extBodyC := by unfold extBodyC; omega
    exact lin_mono (ext2BodyTicks_any k len rest) hA hC
  | unusedData => exact const_le_lin (by simp only [extBodyTicks]; omega)
  | vecCoded p codes k => exact lin_mono (vecCodedTicks_le p codes k rest) hb (by omega)
  | renegotiationInfo => exact lin_mono (opaqueTicks_le _ rest) hA2 (by omega)
  | sessionTicket => exact const_le_lin (by simp only [extBodyTicks]; omega)
  | padding =>
    simp only [extBodyTicks]
    have : 2 * rest.length ≤ extBodyA * rest.length := Nat.mul_le_mul_right _ hA2
    split
    · next d m h1 =>
      obtain ⟨_, hm, hm2, hd⟩ := parseRaw_ok_inv h1
      have hdl : d.length ≤ rest.length := by rw [hd, List.length_take]; omega
      omega
    · omega
  | recordSizeLimit => exact const_le_lin (by simp only [extBodyTicks]; omega)
  | supportedVersionsClient =>
    exact lin_mono (vecCodedTicks_le (vp Gen.vec_TlsSupportedVersionVector) Gen.TlsVersion.codes 2 rest) hAv (by omega)
  | supportedVersionsServer =>
    refine const_le_lin ?_
    simp only [extBodyTicks]
    have := codedTicks_le Gen.TlsVersion.codes 2 rest
    omega

/-- the bodies parsed during the walk: paid for by the bytes the extension consumes.  Every class is given the
declared extension data only, so whatever a body parser does — accept, reject as an invalid value (the extension is
then kept by the fallback class and consumes `4 + len`), or fail — costs at most `extBodyA * len + extBodyC` -/
theorem walkExtBodyTicks_spec (t len : Nat) (bs : Bytes) (h4 : 4 ≤ bs.length) (hlen : len ≤ (bs.drop 4).length)
    (variants : List (String × Nat)) :
    (∀ e n, walkExtVariants t len bs variants = .ok (e, n) →
        walkExtBodyTicks t len bs variants ≤ extBodyA * n + extBodyC ∧ n ≤ bs.length) ∧
      (completeExt (walkExtVariants t len bs variants) = .error .invalidValue →
        walkExtBodyTicks t len bs variants ≤ extBodyA * len + extBodyC) ∧
      walkExtBodyTicks t len bs variants ≤ extBodyA * bs.length + extBodyC := by
  obtain ⟨hC4, hCv⟩ := extBodyC_ge
  have hd : (bs.drop 4).length = bs.length - 4 := List.length_drop
  have htl : ((bs.drop 4).take len).length = len := by rw [List.length_take]; omega
  induction variants with
  | nil =>
    refine ⟨fun e n h => ?_, fun _ => ?_, ?_⟩
    · simp [walkExtVariants] at h
    · exact const_le_lin (by simp [walkExtBodyTicks])
    · exact const_le_lin (by simp [walkExtBodyTicks])
  | cons v more ih =>
    obtain ⟨cls, code⟩ := v
    unfold walkExtVariants walkExtBodyTicks
    by_cases h1 : (cls == "TlsExtensionUnparsed") = true
    · simp only [h1, if_true]
      refine ⟨fun e n h => ?_, fun _ => const_le_lin (by omega), const_le_lin (by omega)⟩
      obtain ⟨t', len', _, _, hle, _, hn⟩ := parseExtUnparsed_ok_inv h
      exact ⟨const_le_lin (by omega), by omega⟩
    · simp only [h1, if_false, Bool.false_eq_true]
      by_cases h2 : (code != t) = true
      · simp only [h2, if_true]; exact ih
      · simp only [h2, if_false, Bool.false_eq_true]
        cases hk : extKindOf cls with
        | none =>
          simp only
          refine ⟨fun e n h => (by cases h), fun h => (by cases h), const_le_lin (by omega)⟩
        | some kind =>
          simp only
          have hko := extKindOf_ok hk
          have hkb := extKindOf_bounded hk
          have hany := extBody_any hkb len ((bs.drop 4).take len)
          rw [htl] at hany
          have hany' : extBodyTicks kind len ((bs.drop 4).take len) ≤ extBodyA * bs.length + extBodyC :=
            Nat.le_trans hany (lin_le (by omega))
          cases hb : parseExtBody kind len ((bs.drop 4).take len) with
          | ok r =>
            obtain ⟨body, m⟩ := r
            simp only
            obtain ⟨hc, hm⟩ := extBody_ok hkb hb
            rw [htl] at hm
            refine ⟨fun e n h => ?_, fun h => (by cases h), by omega⟩
            cases h
            exact ⟨by have := lin_le (A := extBodyA) (C := extBodyC) (show m ≤ 4 + m by omega); omega, by omega⟩
          | error e0 =>
            cases e0 with
            | invalidType =>
              -- the class declined the length (only a class of Ext2.lean does): the walk goes on
              have hz : extBodyTicks kind len ((bs.drop 4).take len) = 0 := by
                rcases parseExtBody_err hko hb with hben | ⟨k, rfl, hsp⟩
                · exact absurd rfl hben.not_invalidType
                · rcases hsp with ⟨_, he⟩ | ⟨hdc, _⟩
                  · simp [unmodelled] at he
                  · exact ext2BodyTicks_declined hdc _
              simp only [hz, Nat.zero_add]
              exact ih
            | invalidValue =>
              simp only
              exact ⟨fun e n h => (by cases h), fun _ => by omega, by omega⟩
            | notEnough k => simp only; exact ⟨fun e n h => (by cases h), fun _ => by omega, by omega⟩
            | tooMuch k => simp only; exact ⟨fun e n h => (by cases h), fun h => (by cases h), by omega⟩
            | crash k => simp only; exact ⟨fun e n h => (by cases h), fun h => (by cases h), by omega⟩

/-- how `TlsExtensionVariant*._parse` and its cost unfold together -/
theorem extVariant_shape (variants : List (String × Nat)) (bs : Bytes) :
    (extVariantTicks variants bs ≤ extHeaderC ∧ ∃ e, parseExtVariant variants bs = .error e) ∨
    (∃ t len, 4 ≤ bs.length ∧ len ≤ (bs.drop 4).length ∧ parseNum .network 2 (bs.drop 2) = .ok (len, 2) ∧
      parseExtVariant variants bs = completeExt (walkExtVariants t len bs variants) ∧
      extVariantTicks variants bs =
        walkExtVariantsTicks t len bs variants * extHeaderTicks bs + walkExtBodyTicks t len bs variants) := by
  have hH := extHeaderTicks_le bs
  unfold parseExtVariant extVariantTicks
  cases hc : parseCoded Gen.ExtensionType.codes 2 bs with
  | error e => exact .inl ⟨hH, e, rfl⟩
  | ok r =>
    obtain ⟨ti, n⟩ := r
    simp only
    cases hl : parseNum .network 2 (bs.drop 2) with
    | error e => exact .inl ⟨hH, e, rfl⟩
    | ok r2 =>
      obtain ⟨len, n2⟩ := r2
      simp only
      obtain ⟨c, hp, _⟩ := parseCoded_ok_inv hc
      have h2 := parseNum_ok_inv hl
      have hd2 : (bs.drop 2).length = bs.length - 2 := List.length_drop
      have hd4 : (bs.drop 4).length = bs.length - 4 := List.length_drop
      obtain ⟨hn2, hk2, _⟩ := h2
      subst hn2
      split
      · exact .inl ⟨hH, _, rfl⟩
      · next hshort =>
        exact .inr ⟨_, len, by omega, by omega, rfl, rfl, rfl⟩

theorem extItemC_ge (variants : List (String × Nat)) :
    variants.length * extHeaderC + extBodyC + extUnparsedTicks ≤ extItemC variants ∧
      extHeaderC + extUnparsedTicks ≤ extItemC variants := by
  unfold extItemC
  rw [Nat.add_mul, Nat.one_mul]
  omega

theorem walkCost_le (t len : Nat) (bs : Bytes) (variants : List (String × Nat)) :
    walkExtVariantsTicks t len bs variants * extHeaderTicks bs ≤ variants.length * extHeaderC :=
  Nat.mul_le_mul (walkExtVariantsTicks_le t len bs variants) (extHeaderTicks_le bs)

/-- one position of the extension vector: paid for by the bytes it consumes -/
theorem extTicks_ok {variants : List (String × Nat)} {bs : Bytes} {e : Ext} {n : Nat}
    (h : parseExt variants bs = .ok (e, n)) :
    extTicks variants bs ≤ extBodyA * n + extItemC variants ∧ n ≤ bs.length := by
  obtain ⟨hI1, hI2⟩ := extItemC_ge variants
  have hd : (bs.drop 4).length = bs.length - 4 := List.length_drop
  have hd2 : (bs.drop 2).length = bs.length - 2 := List.length_drop
  unfold parseExt at h
  unfold extTicks
  split
  · next hiv =>
    -- the variant answered InvalidValue: the result is the fallback class's
    rw [orElse_of_invalid hiv] at h
    obtain ⟨t', len', _, hl', hle, _, hn⟩ := parseExtUnparsed_ok_inv h
    have h2 := (parseNum_ok_inv hl').2.1
    refine ⟨?_, by omega⟩
    rcases extVariant_shape variants bs with ⟨hc, _, _⟩ | ⟨t, len, h4, hlen, hl, hv, hc⟩
    · exact const_le_lin (by omega)
    · obtain ⟨_, hinv, _⟩ := walkExtBodyTicks_spec t len bs h4 hlen variants
      have hw := walkCost_le t len bs variants
      rw [hl] at hl'
      have hll : len = len' := by cases hl'; rfl
      have hb := hinv (hv ▸ hiv)
      have := lin_le (A := extBodyA) (C := extBodyC) (show len ≤ n by omega)
      rw [hc]
      omega
  · next hne =>
    have hne' : parseExtVariant variants bs ≠ .error .invalidValue := fun hx => hne hx
    rw [orElse_of_ne hne'] at h
    rcases extVariant_shape variants bs with ⟨_, e0, hv⟩ | ⟨t, len, h4, hlen, hl, hv, hc⟩
    · rw [hv] at h; cases h
    · obtain ⟨hok, _, _⟩ := walkExtBodyTicks_spec t len bs h4 hlen variants
      have hw := walkCost_le t len bs variants
      obtain ⟨hb, hn⟩ := hok e n (completeExt_ok_inv (hv ▸ h))
      refine ⟨?_, hn⟩
      rw [hc]
      omega

theorem extTicks_any (variants : List (String × Nat)) (bs : Bytes) :
    extTicks variants bs ≤ extBodyA * bs.length + extItemC variants := by
  obtain ⟨hI1, hI2⟩ := extItemC_ge variants
  have hU : extUnparsedTicks = 4 := rfl
  have key : extVariantTicks variants bs + extUnparsedTicks ≤ extBodyA * bs.length + extItemC variants := by
    rcases extVariant_shape variants bs with ⟨hc, _, _⟩ | ⟨t, len, h4, hlen, _, _, hc⟩
    · exact const_le_lin (by omega)
    · obtain ⟨_, _, hany⟩ := walkExtBodyTicks_spec t len bs h4 hlen variants
      have hw := walkCost_le t len bs variants
      rw [hc]
      omega
  unfold extTicks
  split <;> omega

theorem extVecA_eq (variants : List (String × Nat)) :
    extVecA variants = extBodyA + extItemC variants + 1 + 1 := by
  unfold extVecA; omega

theorem extensionsTicks_le (variants : List (String × Nat)) (p : VecParam) (bs : Bytes) :
    extensionsTicks variants p bs ≤ extVecA variants * bs.length + 4 := by
  rw [extVecA_eq]
  exact vecItemsTicks_le (p := p) (item := parseExt variants) (itemTicks := extTicks variants)
    (fun bs x n h => (extTicks_ok h).2) (fun bs x n h => (extTicks_ok h).1)
    (fun bs e _ => extTicks_any variants bs) bs

theorem optExtensionsTicks_le (variants : List (String × Nat)) (p : VecParam) (pl : Bytes) (pos : Nat) :
    optExtensionsTicks variants p pl pos ≤ extVecA variants * pl.length + 5 := by
  unfold optExtensionsTicks
  split
  · exact const_le_lin (by omega)
  · have h1 := extensionsTicks_le variants p (pl.drop pos)
    have hd : (pl.drop pos).length = pl.length - pos := List.length_drop
    have := lin_le (A := extVecA variants) (C := 4) (show (pl.drop pos).length ≤ pl.length by omega)
    omega

/-! ### hello messages -/

theorem helloHeaderTicks_le (pl : Bytes) : helloHeaderTicks pl ≤ 2 * pl.length + helloHeaderC := by
  unfold helloHeaderTicks helloHeaderC
  have hv := codedTicks_le Gen.TlsVersion.codes 2 pl
  split
  · omega
  · next v n1 h1 =>
    split
    · clean_mdata; omega
    · next r n2 h2 =>
      have h3 := vecNumTicks_le sessionIdParam (itemSize := 1) (by omega) (pl.drop (n1 + n2))
      have hd : (pl.drop (n1 + n2)).length = pl.length - (n1 + n2) := List.length_drop
      clean_mdata; omega

theorem parseVecCoded_count_le {p : VecParam} {codes : List Nat} {k : Nat} {bs : Bytes} {xs : List Coded} {t : Nat}
    (h : parseVecCoded p codes k bs = .ok (xs, t)) : xs.length ≤ bs.length := by
  obtain ⟨len, sz, hn, hle, hi, _, _, _, _⟩ := parseVecItems_ok_inv h
  have h2 := parseItems_ok_length_le hi
  have hd : (bs.drop p.numSize).length = bs.length - p.numSize := List.length_drop
  rw [List.length_take] at h2
  omega

theorem sum_arith {a1 a2 a3 L L1 L2 H CS CM EXT n hC : Nat} (h1 : L1 ≤ L) (h2 : L2 ≤ L)
    (hH : H ≤ 2 * L + hC) (hCS : CS ≤ a1 * L1 + 4) (hCM : CM ≤ a2 * L2 + 4) (hE : EXT ≤ a3 * L + 5) (hn : n ≤ L) :
    H + (CS + (CM + (EXT + (1 + 2 * n)))) ≤ (2 + (a1 + 2) + a2 + a3) * L + (hC + 4 + 4 + 6 + 1) := by
  have e : (2 + (a1 + 2) + a2 + a3) * L = 2 * L + (a1 * L + 2 * L) + a2 * L + a3 * L := by
    simp only [Nat.add_mul]
  have e1 : a1 * L1 ≤ a1 * L := Nat.mul_le_mul_left a1 h1
  have e2 : a2 * L2 ≤ a2 * L := Nat.mul_le_mul_left a2 h2
  omega

/-- FLAGSHIP: the payload parser of ClientHello (session id, cipher-suite, compression and extension loops, the
variant walk of every extension, the SCSV fold) is linear in the payload -/
theorem clientHelloInnerTicks_le (pl : Bytes) :
    clientHelloInnerTicks pl ≤ clientHelloA * pl.length + clientHelloB := by
  have hH := helloHeaderTicks_le pl
  unfold clientHelloInnerTicks clientHelloA clientHelloB
  have z : ∀ a : Nat, 0 ≤ a * 0 + 4 := fun _ => Nat.zero_le _
  have z5 : ∀ a : Nat, 0 ≤ a * pl.length + 5 := fun _ => Nat.zero_le _
  split
  · have := sum_arith (a1 := codedVecA Gen.TlsCipherSuite.codes) (a2 := codedVecA Gen.TlsCompressionMethod.codes)
      (a3 := extVecA Gen.extVariantsClient) (L := pl.length) (L1 := 0) (L2 := 0) (CS := 0) (CM := 0) (EXT := 0) (n := 0)
      (Nat.zero_le _) (Nat.zero_le _) hH (z _) (z _) (z5 _) (Nat.zero_le _)
    clean_mdata; omega
  · next hdr n1 h1 =>
    have hd1 : (pl.drop n1).length = pl.length - n1 := List.length_drop
    have hcs := vecCodedTicks_le cipherSuiteParam Gen.TlsCipherSuite.codes 2 (pl.drop n1)
    split
    · have := sum_arith (a2 := codedVecA Gen.TlsCompressionMethod.codes)
        (a3 := extVecA Gen.extVariantsClient) (L := pl.length) (L2 := 0) (CM := 0) (EXT := 0) (n := 0)
        (show (pl.drop n1).length ≤ pl.length by omega) (Nat.zero_le _) hH hcs (z _) (z5 _) (Nat.zero_le _)
      clean_mdata; omega
    · next cs n2 h2 =>
      have hd2 : (pl.drop (n1 + n2)).length = pl.length - (n1 + n2) := List.length_drop
      have hcm := vecCodedTicks_le compressionParam Gen.TlsCompressionMethod.codes 1 (pl.drop (n1 + n2))
      have hcount := parseVecCoded_count_le h2
      split
      · have := sum_arith (a3 := extVecA Gen.extVariantsClient) (L := pl.length) (EXT := 0) (n := 0)
          (show (pl.drop n1).length ≤ pl.length by omega) (show (pl.drop (n1 + n2)).length ≤ pl.length by omega)
          hH hcs hcm (z5 _) (Nat.zero_le _)
        clean_mdata; omega
      · next cm n3 h3 =>
        have hext := optExtensionsTicks_le Gen.extVariantsClient (vp Gen.vec_TlsExtensionsClient) pl (n1 + n2 + n3)
        split
        · have := sum_arith (L := pl.length) (n := 0)
            (show (pl.drop n1).length ≤ pl.length by omega) (show (pl.drop (n1 + n2)).length ≤ pl.length by omega)
            hH hcs hcm hext (Nat.zero_le _)
          clean_mdata; omega
        · clean_mdata
          exact sum_arith (L := pl.length)
            (show (pl.drop n1).length ≤ pl.length by omega) (show (pl.drop (n1 + n2)).length ≤ pl.length by omega)
            hH hcs hcm hext (by omega)

theorem clientHelloTicks_le (bs : Bytes) :
    clientHelloTicks bs ≤ clientHelloA * bs.length + (clientHelloB + hsHeaderTicks) :=
  hsFramedTicks_le clientHelloInnerTicks_le bs

theorem sum_arith2 {a3 L H C1 C2 EXT hC c1 c2 : Nat}
    (hH : H ≤ 2 * L + hC) (h1 : C1 ≤ c1) (h2 : C2 ≤ c2) (hE : EXT ≤ a3 * L + 5) :
    H + (C1 + (C2 + EXT)) ≤ (2 + a3) * L + (hC + c1 + c2 + 6) := by
  have e : (2 + a3) * L = 2 * L + a3 * L := by simp only [Nat.add_mul]
  omega

theorem serverHelloInnerTicks_le (pl : Bytes) :
    serverHelloInnerTicks pl ≤ serverHelloA * pl.length + serverHelloB := by
  have hH := helloHeaderTicks_le pl
  unfold serverHelloInnerTicks serverHelloA serverHelloB
  have z5 : 0 ≤ extVecA Gen.extVariantsServer * pl.length + 5 := Nat.zero_le _
  split
  · have := sum_arith2 (C1 := 0) (C2 := 0) (EXT := 0) (c1 := Gen.TlsCipherSuite.codes.length + 1)
      (c2 := Gen.TlsCompressionMethod.codes.length + 1) hH (Nat.zero_le _) (Nat.zero_le _) z5
    clean_mdata; omega
  · next hdr n1 h1 =>
    have hcs := codedTicks_le Gen.TlsCipherSuite.codes 2 (pl.drop n1)
    split
    · have := sum_arith2 (C2 := 0) (EXT := 0) (c2 := Gen.TlsCompressionMethod.codes.length + 1) hH hcs (Nat.zero_le _) z5
      clean_mdata; omega
    · next cs n2 h2 =>
      have hcm := codedTicks_le Gen.TlsCompressionMethod.codes 1 (pl.drop (n1 + n2))
      split
      · have := sum_arith2 (EXT := 0) hH hcs hcm z5
        clean_mdata; omega
      · next cm n3 h3 =>
        have hext := optExtensionsTicks_le Gen.extVariantsServer (vp Gen.vec_TlsExtensionsServer) pl (n1 + n2 + n3)
        clean_mdata
        exact sum_arith2 hH hcs hcm hext

theorem certificatesTicks_le (pl : Bytes) : certificatesTicks pl ≤ certificatesA * pl.length + certificatesB := by
  unfold certificatesTicks certificatesA certificatesB
  exact vecItemsTicks_le (p := certificatesParam) (item := parseBytes .network 3) (itemTicks := fun _ => 2)
    (a := 0) (c := 2) (fun bs x n h => (parseBytes_ok_inv h).2.2.2.1) (fun _ _ _ _ => by omega)
    (fun _ _ _ => by omega) pl

/-! ### the handshake variant -/

theorem distinguishedNamesTicks_le (bs : Bytes) : distinguishedNamesTicks bs ≤ 7 * bs.length + 4 := by
  unfold distinguishedNamesTicks
  exact vecItemsTicks_le (p := distinguishedNameListParam) (item := parseOpaque distinguishedNameParam)
    (itemTicks := opaqueTicks distinguishedNameParam) (a := 2) (c := 3)
    (fun bs x n h => (parseOpaque_lenBound h).1) (fun _ _ _ h => opaqueTicks_ok_le h)
    (fun bs _ _ => opaqueTicks_le _ bs) bs

/-- `TlsHandshakeCertificateRequest._parse` on the payload is linear in the payload -/
theorem certificateRequestInnerTicks_le (pl : Bytes) :
    certificateRequestInnerTicks pl ≤ certificateRequestA * pl.length + certificateRequestB := by
  unfold certificateRequestInnerTicks certificateRequestA certificateRequestB
  have h1 := vecNumTicks_le clientCertificateTypeParam (itemSize := 1) (by omega) pl
  have e : (2 + codedVecA Gen.TlsSignatureAndHashAlgorithm.codes + 7) * pl.length =
      2 * pl.length + codedVecA Gen.TlsSignatureAndHashAlgorithm.codes * pl.length + 7 * pl.length := by
    simp only [Nat.add_mul]
  split
  · clean_mdata; omega
  · next types n1 _ =>
    have hd1 : (pl.drop n1).length = pl.length - n1 := List.length_drop
    split
    · clean_mdata; omega
    · next vl n2 _ =>
      split
      · have h2 := distinguishedNamesTicks_le (pl.drop n1)
        have h2' : 7 * (pl.drop n1).length ≤ 7 * pl.length := Nat.mul_le_mul_left _ (by omega)
        clean_mdata; omega
      · have h2 := vecCodedTicks_le signatureAlgorithmsParam Gen.TlsSignatureAndHashAlgorithm.codes 2 (pl.drop n1)
        have h2' : codedVecA Gen.TlsSignatureAndHashAlgorithm.codes * (pl.drop n1).length ≤
            codedVecA Gen.TlsSignatureAndHashAlgorithm.codes * pl.length := Nat.mul_le_mul_left _ (by omega)
        split
        · clean_mdata; omega
        · next algs n3 _ =>
          have hd3 : (pl.drop (n1 + n3)).length = pl.length - (n1 + n3) := List.length_drop
          have h3 := distinguishedNamesTicks_le (pl.drop (n1 + n3))
          have h3' : 7 * (pl.drop (n1 + n3)).length ≤ 7 * pl.length := Nat.mul_le_mul_left _ (by omega)
          clean_mdata; omega

/-- slope and offset that cover every modelled handshake class -/
def hsA : Nat := clientHelloA + serverHelloA + certificatesA + certificateRequestA
def hsB : Nat := clientHelloB + serverHelloB + certificatesB + certificateRequestB + 3 + hsHeaderTicks

theorem hsClassTicks_le (c : HsClass) (bs : Bytes) : hsClassTicks c bs ≤ hsA * bs.length + hsB := by
  have key : ∀ pl, hsClassInnerTicks c pl ≤
      hsA * pl.length + (clientHelloB + serverHelloB + certificatesB + certificateRequestB + 3) := by
    intro pl
    have e : hsA * pl.length = clientHelloA * pl.length + serverHelloA * pl.length + certificatesA * pl.length +
        certificateRequestA * pl.length := by
      unfold hsA; simp only [Nat.add_mul]
    have h1 := clientHelloInnerTicks_le pl
    have h2 := serverHelloInnerTicks_le pl
    have h3 := certificatesTicks_le pl
    have h4 := certificateRequestInnerTicks_le pl
    cases c <;> simp only [hsClassInnerTicks] <;> omega
  exact hsFramedTicks_le key bs

theorem hsAltTicks_le (e : String × Nat) (bs : Bytes) : hsAltTicks e bs ≤ hsA * bs.length + hsB := by
  unfold hsAltTicks
  split
  · exact hsClassTicks_le _ bs
  · exact const_le_lin (by unfold hsB; omega)

theorem handshakeVariantTicks_le (bs : Bytes) :
    handshakeVariantTicks bs ≤ (Gen.handshakeVariants.length + 1) * (1 + (hsA * bs.length + hsB)) := by
  unfold handshakeVariantTicks
  have h := variantTicks_le (ps := Gen.handshakeVariants.map fun e => (hsAlt e, hsAltTicks e)) (bs := bs)
    (h := hsA * bs.length + hsB) (m := hsA * bs.length + hsB)
    (fun q hq _ => by
      obtain ⟨e, _, rfl⟩ := List.mem_map.mp hq
      exact hsAltTicks_le e bs)
    (fun q hq => by
      obtain ⟨e, _, rfl⟩ := List.mem_map.mp hq
      exact hsAltTicks_le e bs)
  rw [List.length_map] at h
  rw [Nat.add_mul, Nat.one_mul]
  omega

/-! ### the class graph -/

/-- a call chain: every class is invoked by its predecessor -/
def CallChain : List Cls → Prop
  | [] => True
  | [_] => True
  | c :: d :: rest => d ∈ c.calls ∧ CallChain (d :: rest)

theorem rank_decreases : ∀ c ∈ Cls.all, ∀ d ∈ c.calls, d.rank < c.rank := by decide

theorem all_complete (c : Cls) : c ∈ Cls.all := by cases c <;> decide

theorem callChain_length_le : ∀ (l : List Cls) (c : Cls), CallChain (c :: l) → (c :: l).length ≤ c.rank + 1
  | [], c, _ => by simp
  | d :: rest, c, h => by
    obtain ⟨hd, hrest⟩ := h
    have ih := callChain_length_le rest d hrest
    have := rank_decreases c (all_complete c) d hd
    simp only [List.length_cons] at ih ⊢
    omega

theorem rank_le_seven (c : Cls) : c.rank ≤ 7 := by cases c <;> decide

end Cp.Cost
