import CpModel.Enum
import CpProofs.Num
/-
  Size-independent lemmas about linear-search decoding of coded enumerations.
-/
namespace Cp

theorem findCode_sound {c : Nat} {codes : List Nat} {i : Nat} (h : findCode c codes = some i) :
    codes[i]? = some c := by
  induction codes generalizing i with
  | nil => simp [findCode] at h
  | cons x xs ih =>
    simp only [findCode] at h
    split at h
    · next hx => simp at h; subst h; simp [hx]
    · cases hf : findCode c xs with
      | none => simp [hf] at h
      | some j =>
        simp [hf] at h; subst h
        simpa using ih hf

theorem findCode_first {c : Nat} {codes : List Nat} {i : Nat} (h : findCode c codes = some i) :
    ∀ j, j < i → codes[j]? ≠ some c := by
  induction codes generalizing i with
  | nil => simp [findCode] at h
  | cons x xs ih =>
    simp only [findCode] at h
    split at h
    · simp at h; subst h; intro j hj; omega
    · next hx =>
      cases hf : findCode c xs with
      | none => simp [hf] at h
      | some k =>
        simp [hf] at h; subst h
        intro j hj
        cases j with
        | zero => simpa using hx
        | succ j => simpa using ih hf j (by omega)

theorem findCode_none {c : Nat} {codes : List Nat} (h : findCode c codes = none) : c ∉ codes := by
  induction codes with
  | nil => simp
  | cons x xs ih =>
    simp only [findCode] at h
    split at h
    · simp at h
    · next hx =>
      cases hf : findCode c xs with
      | none =>
        have := ih hf
        simp only [List.mem_cons, not_or]
        exact ⟨fun e => hx e.symm, this⟩
      | some k => simp [hf] at h

theorem findCode_lt {c : Nat} {codes : List Nat} {i : Nat} (h : findCode c codes = some i) :
    i < codes.length := by
  have := findCode_sound h
  exact (List.getElem?_eq_some_iff.mp this).1

/-- With pairwise distinct codes every member decodes to itself. -/
theorem findCode_of_nodup {codes : List Nat} (hn : codes.Nodup) {i : Nat} {c : Nat}
    (hi : codes[i]? = some c) : findCode c codes = some i := by
  induction codes generalizing i with
  | nil => simp at hi
  | cons x xs ih =>
    have hx : x ∉ xs := (List.nodup_cons.mp hn).1
    have hxs : xs.Nodup := (List.nodup_cons.mp hn).2
    cases i with
    | zero => simp at hi; simp [findCode, hi]
    | succ i =>
      simp at hi
      have hmem : c ∈ xs := List.mem_of_getElem? hi
      have hne : x ≠ c := fun e => hx (e ▸ hmem)
      simp [findCode, hne, ih hxs hi]

/-! ### the coded-enum codecs -/

theorem composeNum_ok {bo : ByteOrder} {k : Nat} {v : Nat} (hk : validSize k = true) (hv : v < 256 ^ k) :
    composeNum bo k (v : Int) = .ok (encNat bo k v) := by
  unfold composeNum
  have h1 : ¬ ((v : Int) < 0) := by omega
  have h2 : ¬ (256 ^ k ≤ v) := by omega
  simp [hk, h2]

theorem parseNum_append {bo : ByteOrder} {k : Nat} (hk : validSize k = true) (b s : Bytes)
    (hb : b.length = k) : parseNum bo k (b ++ s) = .ok (decNat bo b, k) := by
  unfold parseNum
  have h1 : ¬ ((b ++ s).length < k) := by simp [hb]
  simp [hk, hb]

theorem parseNum_enc {bo : ByteOrder} {k v : Nat} (hk : validSize k = true) (hv : v < 256 ^ k)
    (s : Bytes) : parseNum bo k (encNat bo k v ++ s) = .ok (v, k) := by
  rw [parseNum_append hk _ s (encNat_length bo k v), decNat_encNat_of_lt bo k v hv]

/-- What `parseNum` returns is always a value of the code space and re-encodes to the bytes read. -/
theorem parseNum_ok_inv {bo : ByteOrder} {k : Nat} {rest : Bytes} {v n : Nat}
    (h : parseNum bo k rest = .ok (v, n)) :
    n = k ∧ k ≤ rest.length ∧ v < 256 ^ k ∧ encNat bo k v = rest.take k ∧ validSize k = true := by
  unfold parseNum at h
  split at h
  · simp at h
  · next hlen =>
    split at h
    · simp at h
    · next hk =>
      simp at h
      obtain ⟨hv, hn⟩ := h
      have hl : (rest.take k).length = k := by simp; omega
      subst hv; subst hn
      refine ⟨rfl, by omega, ?_, ?_, by simpa using hk⟩
      · have := decNat_lt bo (rest.take k); rwa [hl] at this
      · have := encNat_decNat bo (rest.take k); rwa [hl] at this

end Cp
